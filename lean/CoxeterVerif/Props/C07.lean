import CoxeterVerif.Lemmas.Structure
/-!
  # C07 — face, normal, neighbour and edge structure of polyhedra is consistent

  Combinatorial theorems are over ALL face lists (any number of faces, any face lengths, any
  vertex labels); geometric ones over ℝ for all vertex positions.

  Proved here
  * `edges_once`            — `Polyhedron.edges` on a closed oriented face list
  * `neighbors_iff_shared_edge`, `neighbors_symm`, `neighbors_length`
  * `face_equation_contains_first_vertices`, `face_equation_unit_normal`,
    `face_equation_outward_ccw`, `face_equation_flip`
  * `propagation_flips_consistently_partial` — the traversal of `_sort_simplices` /
    `Polyhedron.sort_faces` links every visited face to the face it was discovered from
  * `propagation_orients`, `propagation_visits_component`, `propagation_orients_all` — on an
    orientable, connected face graph the traversal returns the consistent orientation up to
    one global flip
  * `reverse_all_negates_volume`, `sort_simplices_volume_nonneg`, `poly_flip_negates_volume`
  * `sorted_unique_spec`, `combine_simplices_faces`, `merged_faces_union`, `cp_sort_face_perm`,
    `dihedral_symm`

  NOT provable here (stated in notes/C07.md and in the claim): Euler's relation `V − E + F = 2`
  and "the faces are THE facets of the convex hull" rest on Qhull's output; they are enforced
  per instance by the oracle certificate of the harness (closed oriented surface of supporting
  facets, exact over ℚ for integral inputs).
-/
open Struct StructLemmas Scalar
set_option maxRecDepth 4000

/-! ### edges -/

/-- **C07 edges.** For a closed oriented face list (no directed edge twice, every directed edge
has its reverse partner, no loops) `Polyhedron.edges`
* contains only pairs `i < j`,
* is strictly lexicographically sorted (hence duplicate free),
* contains `(a, b)` with `a < b` exactly when `{a, b}` is an edge of some face — so every
  undirected edge is listed exactly once —
* and `2·|edges| = Σ |f|`. -/
theorem edges_once (F : List Face) (h : StructSpec.ClosedOriented F) :
    (∀ e ∈ edges F, e.1 < e.2) ∧
    (edges F).Pairwise StructSpec.LexLt ∧
    (∀ a b, a < b → ((a, b) ∈ edges F ↔ StructSpec.IsEdge F a b)) ∧
    (∀ a b, a < b → StructSpec.IsEdge F a b → (edges F).count (a, b) = 1) ∧
    2 * (edges F).length = (F.map List.length).sum := by
  have hperm := edges_perm F
  have hmem : ∀ e, e ∈ edges F ↔ (e ∈ StructSpec.allDir F ∧ e.1 < e.2) := by
    intro e; rw [hperm.mem_iff, List.mem_filter]; simp
  have hnd : (edges F).Nodup := hperm.nodup_iff.mpr (h.nodup.filter _)
  have hiff : ∀ a b, a < b → ((a, b) ∈ edges F ↔ StructSpec.IsEdge F a b) := by
    intro a b hab
    rw [hmem]
    unfold StructSpec.IsEdge
    constructor
    · rintro ⟨h1, _⟩; exact Or.inl h1
    · rintro (h1 | h1)
      · exact ⟨h1, hab⟩
      · exact ⟨h.rev _ h1, hab⟩
  refine ⟨fun e he => ((hmem e).mp he).2, ?_, hiff, ?_, ?_⟩
  · have hs : (edges F).Pairwise (fun x y => lexLe x y = true) :=
      sortBy_pairwise lexLe lexLe_total lexLe_trans _
    exact (hs.and hnd).imp (fun hxy => lexLt_of_lexLe_ne hxy.1 hxy.2)
  · intro a b hab hE
    exact List.count_eq_one_of_mem hnd ((hiff a b hab).mpr hE)
  · rw [hperm.length_eq, ← allDir_length, halves_cover h.noLoop, ← halves_equal h.nodup h.rev]
    ring

/-- `Polyhedron.num_edges` is the number of undirected edges: half the number of face corners -/
theorem num_edges_half_corners (F : List Face) (h : StructSpec.ClosedOriented F) :
    2 * numEdges F = (F.map List.length).sum := (edges_once F h).2.2.2.2

/-! ### neighbours -/

/-- **C07 neighbours.** When `_find_neighbors` succeeds (no `AssertionError`), `j` is listed as a
neighbour of `i` exactly when `i ≠ j` are faces that share an (undirected) edge. -/
theorem neighbors_iff_shared_edge {F : List Face} {N : List (List Nat)} (h : findNeighbors F = .ok N)
    (i j : Nat) :
    j ∈ N.getD i [] ↔
      (i < F.length ∧ j < F.length ∧ i ≠ j ∧ StructSpec.SharesEdge (F.getD i []) (F.getD j [])) :=
  findNeighbors_spec h i j

/-- **C07 neighbours are symmetric.** -/
theorem neighbors_symm {F : List Face} {N : List (List Nat)} (h : findNeighbors F = .ok N) (i j : Nat) :
    j ∈ N.getD i [] ↔ i ∈ N.getD j [] := by
  rw [findNeighbors_spec h i j, findNeighbors_spec h j i]
  constructor
  · rintro ⟨a, b, c, d⟩; exact ⟨b, a, c.symm, SharesEdge_symm d⟩
  · rintro ⟨a, b, c, d⟩; exact ⟨b, a, c.symm, SharesEdge_symm d⟩

/-- one neighbour row per face -/
theorem neighbors_length {F : List Face} {N : List (List Nat)} (h : findNeighbors F = .ok N) :
    N.length = F.length := findNeighbors_length h

/-! ### plane equations -/

noncomputable section

/-- **C07 equations contain the face.** The plane returned by `_find_equations` for the vertices
`v0 v1 v2` passes through all three (for every input, degenerate or not). -/
theorem face_equation_contains_first_vertices (v0 v1 v2 : V3 ℝ) :
    let e := Poly3.faceEquation v0 v1 v2
    StructSpec.OnPlane e.1 e.2 v0 ∧ StructSpec.OnPlane e.1 e.2 v1 ∧ StructSpec.OnPlane e.1 e.2 v2 := by
  obtain ⟨ax, ay, az⟩ := v0; obtain ⟨bx, b_y, bz⟩ := v1; obtain ⟨cx, cy, cz⟩ := v2
  simp only [Poly3.faceEquation, StructSpec.OnPlane]
  set N := V3.norm (V3.cross ((⟨cx, cy, cz⟩ : V3 ℝ) - ⟨bx, b_y, bz⟩) (⟨ax, ay, az⟩ - ⟨bx, b_y, bz⟩)) with hN
  by_cases h0 : N = 0
  · rw [h0]; refine ⟨?_, ?_, ?_⟩ <;> unfold_model <;> simp
  · refine ⟨?_, ?_, ?_⟩ <;> unfold_model <;> field_simp <;> ring

/-- **C07 unit normal.** For non-collinear `v0 v1 v2` the normal of `_find_equations` has length 1. -/
theorem face_equation_unit_normal (v0 v1 v2 : V3 ℝ)
    (hnd : V3.norm (V3.cross (v2 - v1) (v0 - v1)) ≠ 0) :
    V3.normSq (Poly3.faceEquation v0 v1 v2).1 = 1 := by
  simp only [Poly3.faceEquation]
  set n := V3.cross (v2 - v1) (v0 - v1) with hn
  have hsq := norm_sq_eq n
  have : V3.normSq (V3.sdiv n (V3.norm n)) = V3.normSq n / (V3.norm n * V3.norm n) := by
    unfold V3.normSq V3.dot
    simp only [V3.sdiv_x, V3.sdiv_y, V3.sdiv_z]
    field_simp
  rw [this, hsq]
  have : V3.normSq n ≠ 0 := by rw [← hsq]; exact mul_ne_zero hnd hnd
  exact div_self this

/-- **C07 outward for counter-clockwise order.** If the first three vertices of a face appear
counter-clockwise to an observer on the side opposite to `p` (tetrahedron `p v0 v1 v2` positively
oriented — for `p` inside the solid: counter-clockwise seen from outside), then `p` is strictly on
the negative side of the plane of `_find_equations`, i.e. the normal points away from `p`
(outward), and the normal is a unit vector. -/
theorem face_equation_outward_ccw (p v0 v1 v2 : V3 ℝ) (h : StructSpec.CcwAwayFrom p v0 v1 v2) :
    let e := Poly3.faceEquation v0 v1 v2
    V3.dot e.1 p + e.2 < 0 ∧ V3.normSq e.1 = 1 := by
  have hdet := det_eq_dot_raw p v0 v1 v2
  unfold StructSpec.CcwAwayFrom at h
  simp only [Scalar.lit, Scalar.ofNat_real, Nat.cast_zero] at h
  rw [hdet, ← faceEquation_raw] at h
  set n := V3.cross (v2 - v1) (v0 - v1) with hn
  have hnpos : 0 < V3.norm n := by
    rcases (norm_nonneg n).lt_or_eq with h1 | h1
    · exact h1
    · exfalso
      have hz : V3.normSq n = 0 := by rw [← norm_sq_eq, ← h1]; ring
      unfold V3.normSq V3.dot at hz
      have hx : n.x = 0 := by nlinarith [sq_nonneg n.x, sq_nonneg n.y, sq_nonneg n.z]
      have hy : n.y = 0 := by nlinarith [sq_nonneg n.x, sq_nonneg n.y, sq_nonneg n.z]
      have hzz : n.z = 0 := by nlinarith [sq_nonneg n.x, sq_nonneg n.y, sq_nonneg n.z]
      unfold V3.dot at h
      rw [hx, hy, hzz] at h
      simp at h
  refine ⟨?_, face_equation_unit_normal v0 v1 v2 hnpos.ne'⟩
  simp only [Poly3.faceEquation, ← hn]
  have key : V3.dot (V3.sdiv n (V3.norm n)) p + -(V3.dot (V3.sdiv n (V3.norm n)) v0)
      = -(V3.dot n (v0 - p)) / V3.norm n := by
    unfold V3.dot
    simp only [V3.sdiv_x, V3.sdiv_y, V3.sdiv_z, V3.sub_x, V3.sub_y, V3.sub_z]
    field_simp
    ring
  rw [key]
  exact div_neg_of_neg_of_pos (by linarith) hnpos

/-- reversing the vertex order of a face negates its plane equation (what the global flip of
`Polyhedron.sort_faces` does with `equations[i] *= -1`) -/
theorem face_equation_flip (v0 v1 v2 : V3 ℝ) :
    let e := Poly3.faceEquation v0 v1 v2
    let e' := Poly3.faceEquation v2 v1 v0
    e'.1 = -(e.1) ∧ (StructSpec.OnPlane e'.1 e'.2 v0 ∧ StructSpec.OnPlane e'.1 e'.2 v1 ∧
      StructSpec.OnPlane e'.1 e'.2 v2) := by
  refine ⟨?_, ?_⟩
  · simp only [Poly3.faceEquation]
    have hc : V3.cross (v0 - v1) (v2 - v1) = -(V3.cross (v2 - v1) (v0 - v1)) := by
      obtain ⟨ax, ay, az⟩ := v0; obtain ⟨bx, b_y, bz⟩ := v1; obtain ⟨cx, cy, cz⟩ := v2
      ext <;> unfold_model <;> ring
    have hnorm : V3.norm (-(V3.cross (v2 - v1) (v0 - v1))) = V3.norm (V3.cross (v2 - v1) (v0 - v1)) := by
      unfold V3.norm V3.normSq V3.dot
      simp only [V3.neg_x, V3.neg_y, V3.neg_z]
      congr 1; ring
    rw [hc, hnorm]
    ext <;> simp only [V3.sdiv_x, V3.sdiv_y, V3.sdiv_z, V3.neg_x, V3.neg_y, V3.neg_z] <;> ring
  · have := face_equation_contains_first_vertices v2 v1 v0
    exact ⟨this.2.2, this.2.1, this.1⟩

end

/-! ### orientation propagation -/

/-- **C07 propagation (partial).** After the traversal of `_sort_simplices` /
`Polyhedron.sort_faces` (any neighbour lists, any faces, started at face 0):
* every face is either unchanged or reversed;
* every visited face `v ≠ 0` was discovered from a visited face `u ≠ v` whose neighbour list
  contains `v`, and if `u` and `v` share an edge then (in their FINAL orientation) they traverse
  a common edge in opposite directions.

`_partial`: this is consistency along the discovery tree. What is missing for the full claim
"all neighbouring faces are consistently oriented and the result is the outward orientation":
(1) consistency across non-tree neighbour pairs needs orientability of the surface and that two
faces share at most one edge (true for the boundary of a convex polyhedron — a fact about Qhull's
output, checked per instance by the harness: `spec.closed_oriented` on the resulting faces);
(2) that every face is reached needs connectedness of the neighbour graph;
(3) that the volume-sign flip yields the OUTWARD orientation needs the geometry of the hull
(`reverse_all_negates_volume` / `sort_simplices_volume_nonneg` give the sign part). -/
theorem propagation_flips_consistently_partial (nbrs : List (List Nat)) (F : List Face) :
    let st := propagate nbrs F
    st.faces.length = F.length ∧
    (∀ k, st.faces.getD k [] = F.getD k [] ∨ st.faces.getD k [] = (F.getD k []).reverse) ∧
    (∀ v ∈ st.visited, v = 0 ∨ ∃ u ∈ st.visited, u ≠ v ∧ v ∈ nbrs.getD u [] ∧
      (StructSpec.SharesEdge (st.faces.getD u []) (st.faces.getD v []) →
        StructSpec.OppositeOn (st.faces.getD u []) (st.faces.getD v []))) := by
  have h := propagate_inv nbrs F
  exact ⟨h.len, h.orig, h.tree⟩

/-- one step of the inner loop, on its own: orienting `nb` against `cur` makes them traverse a
shared edge in opposite directions -/
theorem orient_against_opposite (cur nb : Face) (h : StructSpec.SharesEdge cur nb) :
    StructSpec.OppositeOn cur (orientAgainst (faceToEdges cur) nb) := by
  have hl := orientAgainst_linked cur nb
  apply hl
  rcases orientAgainst_cases (faceToEdges cur) nb with h' | h'
  · rw [h']; exact h
  · rw [h']
    obtain ⟨a, b, h1, h2⟩ := h
    refine ⟨a, b, h1, ?_⟩
    unfold StructSpec.Adj at h2 ⊢
    rcases h2 with h2 | h2
    · exact Or.inr (mem_dirEdges_reverse h2)
    · exact Or.inl (mem_dirEdges_reverse h2)

/-- reversing both faces keeps them free of common directed edges -/
theorem consistent_reverse {f g : Face} (h : StructSpec.Consistent f g) :
    StructSpec.Consistent f.reverse g.reverse := by
  intro e he hf
  obtain ⟨a, b⟩ := e
  exact h (b, a) (mem_dirEdges_reverse_iff.mp he) (mem_dirEdges_reverse_iff.mp hf)

/-- **C07 propagation reproduces the consistent orientation.** Suppose the surface is orientable
in the sense that some choice `G` of "keep / reverse" per face makes every listed neighbour pair
share an edge without a common directed edge (`RefOrientation`; for the boundary of a convex
polyhedron with the neighbour lists of `_find_neighbors` or of Qhull this is the outward
orientation). Then the traversal returns, on every face it visits, exactly `G` or exactly the
reversal of `G` — one global choice `c` — so that all visited neighbour pairs are consistent, not
only those of the discovery tree. The global choice is then fixed by the sign of the volume
(`sort_simplices_volume_nonneg`). -/
theorem propagation_orients (nbrs : List (List Nat)) (F G : List Face)
    (href : StructSpec.RefOrientation nbrs F G) :
    let st := propagate nbrs F
    (∃ c : Bool, ∀ v ∈ st.visited, st.faces.getD v [] = StructSpec.flipIf c (G.getD v [])) ∧
    (∀ u ∈ st.visited, ∀ v ∈ st.visited, v ∈ nbrs.getD u [] →
      StructSpec.Consistent (st.faces.getD u []) (st.faces.getD v [])) := by
  have h2 := propagate_inv2 nbrs F G href
  refine ⟨h2.agree, ?_⟩
  obtain ⟨c, hc⟩ := h2.agree
  intro u hu v hv hnb
  rw [hc u hu, hc v hv]
  cases c with
  | false => simpa [StructSpec.flipIf] using href.consistent u v hnb
  | true => simpa [StructSpec.flipIf] using consistent_reverse (href.consistent u v hnb)

/-- **C07 the traversal reaches the whole component of face 0** whenever it ends with an empty
stack (the driver reports this flag for every instance; the fuel `Σ|nbrs[i]| + 2` always
suffices in practice because every pass pops one entry and only unvisited faces are pushed). -/
theorem propagation_visits_component (nbrs : List (List Nat)) (F : List Face)
    (hdone : (propagate nbrs F).stack = []) (k : Nat) (hk : StructSpec.Reach nbrs k) :
    k ∈ (propagate nbrs F).visited := by
  induction hk with
  | zero => exact zero_mem_visited nbrs F
  | step _ hv ih => exact propagate_closed nbrs F hdone _ ih _ hv

/-- **C07 propagation, complete form.** On a connected, consistently orientable face graph the
traversal orients EVERY face like the reference orientation, up to one global flip. -/
theorem propagation_orients_all (nbrs : List (List Nat)) (F G : List Face)
    (href : StructSpec.RefOrientation nbrs F G) (hdone : (propagate nbrs F).stack = [])
    (hconn : ∀ k, k < F.length → StructSpec.Reach nbrs k) :
    ∃ c : Bool, ∀ k, k < F.length →
      (propagate nbrs F).faces.getD k [] = StructSpec.flipIf c (G.getD k []) := by
  obtain ⟨c, hc⟩ := (propagation_orients nbrs F G href).1
  exact ⟨c, fun k hk => hc k (propagation_visits_component nbrs F hdone k (hconn k hk))⟩

/-! ### global flip by the sign of the volume -/

noncomputable section

theorem triOf_reverse (verts : List (V3 ℝ)) (s : Face) (h : s.length = 3) :
    triOf verts s.reverse = (triOf verts s).rev := by
  match s, h with
  | [a, b, c], _ => rfl

/-- **C07 global flip.** Reversing every simplex (`simplices[:, ::-1]`) negates the signed volume
`_calculate_signed_volume()`. -/
theorem reverse_all_negates_volume (verts : List (V3 ℝ)) (S : List Face) (h3 : ∀ s ∈ S, s.length = 3) :
    CP.signedVolume ((reverseAll S).map (triOf verts)) = -CP.signedVolume (S.map (triOf verts)) := by
  rw [signedVolume_eq_sumOver, signedVolume_eq_sumOver]
  unfold reverseAll sumOver
  induction S with
  | nil => simp
  | cons s S ih =>
    have := ih (fun t ht => h3 t (List.mem_cons_of_mem _ ht))
    simp only [List.map_cons, List.sum_cons] at this ⊢
    rw [this, triOf_reverse verts s (h3 s List.mem_cons_self), volPhi_oddCyclic.rev]
    ring

/-- **C07 `_sort_simplices` ends with non-negative signed volume** (for triangles), whatever the
hull's neighbour lists and the start permutation were; and each output simplex is an input
simplex or its reversal. -/
theorem sort_simplices_volume_nonneg (verts : List (V3 ℝ)) (start : List Face) (nbrs : List (List Nat))
    (h3 : ∀ s ∈ start, s.length = 3) :
    0 ≤ CP.signedVolume ((sortSimplices verts start nbrs).map (triOf verts)) ∧
    (∀ k, (sortSimplices verts start nbrs).getD k [] = start.getD k [] ∨
          (sortSimplices verts start nbrs).getD k [] = (start.getD k []).reverse) := by
  have hinv := propagate_inv nbrs start
  have hlen3 : ∀ s ∈ (propagate nbrs start).faces, s.length = 3 := by
    intro s hs
    obtain ⟨k, hk, rfl⟩ := List.mem_iff_getElem.mp hs
    have hk' : k < start.length := by rw [← hinv.len]; exact hk
    have h0 := h3 _ (List.getElem_mem hk')
    rcases hinv.orig k with h | h
    · rw [List.getD_eq_getElem?_getD, List.getElem?_eq_getElem hk, List.getD_eq_getElem?_getD,
        List.getElem?_eq_getElem hk'] at h
      simp only [Option.getD_some] at h
      rw [h]; exact h0
    · rw [List.getD_eq_getElem?_getD, List.getElem?_eq_getElem hk, List.getD_eq_getElem?_getD,
        List.getElem?_eq_getElem hk'] at h
      simp only [Option.getD_some] at h
      rw [h, List.length_reverse]; exact h0
  unfold sortSimplices
  simp only [Scalar.lit, Scalar.ofNat_real, Nat.cast_zero]
  split_ifs with hneg
  · refine ⟨?_, ?_⟩
    · rw [reverse_all_negates_volume verts _ hlen3]; linarith
    · intro k
      have : (reverseAll (propagate nbrs start).faces).getD k [] =
          ((propagate nbrs start).faces.getD k []).reverse := by
        unfold reverseAll
        simp only [List.getD_eq_getElem?_getD, List.getElem?_map]
        cases (propagate nbrs start).faces[k]? <;> simp
      rw [this]
      rcases hinv.orig k with h | h
      · exact Or.inr (by rw [h])
      · exact Or.inl (by rw [h, List.reverse_reverse])
  · exact ⟨not_lt.mp hneg, hinv.orig⟩

/-- the same for `Polyhedron.sort_faces`: negating all plane offsets (`equations *= -1`) negates
`Polyhedron.volume = Σ(−d·A)/3` (the areas are orientation independent) -/
theorem poly_flip_negates_volume (eqs : List (Eqn ℝ)) (areas : List ℝ) :
    polyVolume (eqs.map fun e => (-(e.1), -(e.2))) areas = -polyVolume eqs areas := by
  unfold polyVolume Poly3.volume
  simp only [Scalar.sum_real, Scalar.lit, Scalar.ofNat_real]
  rw [← neg_div]
  congr 1
  induction eqs generalizing areas with
  | nil => simp
  | cons e eqs ih =>
    cases areas with
    | nil => simp
    | cons a areas =>
      simp only [List.map_cons, List.zipWith_cons_cons, List.sum_cons, ih areas]
      ring

/-- `get_dihedral` is symmetric in its two faces (when both directions are neighbours) -/
theorem dihedral_symm (nbrs : List (List Nat)) (normals : List (V3 ℝ)) (a b : Nat)
    (hab : (nbrs.getD a []).contains b = true) (hba : (nbrs.getD b []).contains a = true) :
    getDihedral nbrs normals a b = getDihedral nbrs normals b a := by
  unfold getDihedral
  rw [if_pos hab, if_pos hba]
  congr 2
  unfold V3.dot
  simp only [V3.neg_x, V3.neg_y, V3.neg_z]
  ring

/-- the angular sort of `ConvexPolyhedron.sort_faces` only permutes the vertices of the face
(any rotation matrix, any coordinates) -/
theorem cp_sort_face_perm (verts : List (V3 ℝ)) (face : Face) (R : M3 ℝ) :
    (cpSortFace verts face R).Perm face := by
  unfold cpSortFace
  have hlen : (alignCentred R (face.map fun i => verts.getD i V3.zero)).length = face.length := by
    simp [alignCentred]
  have hperm : (angularOrder (alignCentred R (face.map fun i => verts.getD i V3.zero)) 0).Perm
      (List.range face.length) := by
    unfold angularOrder
    rw [hlen]
    exact sortBy_perm _ _
  have hid : (List.range face.length).map (fun k => face.getD k 0) = face := by
    apply List.ext_getElem
    · simp
    · intro i h1 h2
      simp [List.getD_eq_getElem?_getD, h2]
  exact (hperm.map _).trans (by rw [hid])

end

/-! ### `np.unique` / vertex unions -/

/-- `np.unique` (faces of `_combine_simplices`, unions of `merge_faces`): strictly increasing, same
elements -/
theorem sorted_unique_spec (l : List Nat) :
    (sortedUnique l).Pairwise (· < ·) ∧ ∀ x, x ∈ sortedUnique l ↔ x ∈ l :=
  ⟨sortedUnique_strict l, mem_sortedUnique l⟩

noncomputable section

/-- **C07 `_combine_simplices` faces.** Whatever groups the tolerance test produces, every face
is the strictly increasing list of exactly the vertices of the simplices of its group
(`np.unique`), one face per group. -/
theorem combine_simplices_faces (E : List (Eqn ℝ)) (S : List Face) (tol : ℝ) :
    let r := combineSimplices E S tol
    r.1.length = r.2.2.length ∧
    ∀ g, g < r.2.2.length →
      (r.1.getD g []).Pairwise (· < ·) ∧
      ∀ x, x ∈ r.1.getD g [] ↔ ∃ k ∈ r.2.2.getD g [], x ∈ S.getD k [] := by
  simp only [combineSimplices]
  refine ⟨by simp, ?_⟩
  intro g hg
  rw [List.getD_eq_getElem?_getD, List.getElem?_map, List.getElem?_eq_getElem hg]
  simp only [Option.map_some, Option.getD_some]
  refine ⟨sortedUnique_strict _, ?_⟩
  intro x
  rw [mem_sortedUnique, List.mem_flatMap, List.getD_eq_getElem?_getD, List.getElem?_eq_getElem hg]
  simp

end

/-- **C07 merge_faces unions.** The merged face with label `l` consists exactly of the vertices
of the faces carrying that label. -/
theorem merged_faces_union (faces : List Face) (labels : List Nat) (l : Nat)
    (hl : l < (dedup labels).length) (x : Nat) :
    x ∈ (mergedFaces faces labels).getD l [] ↔
      ∃ i, i < faces.length ∧ i < labels.length ∧ labels.getD i 0 = l ∧ x ∈ faces.getD i [] := by
  unfold mergedFaces
  rw [List.getD_eq_getElem?_getD, List.getElem?_map, List.getElem?_range hl]
  simp only [Option.map_some, Option.getD_some, mem_sortedUnique, List.mem_flatMap, List.mem_filter,
    beq_iff_eq]
  constructor
  · rintro ⟨⟨f, lab⟩, ⟨hmem, hlab⟩, hx⟩
    obtain ⟨i, hi, hget⟩ := List.mem_iff_getElem.mp hmem
    have hi' : i < faces.length ∧ i < labels.length := by
      simpa [List.length_zip] using hi
    rw [List.getElem_zip] at hget
    simp only [Prod.mk.injEq] at hget
    refine ⟨i, hi'.1, hi'.2, ?_, ?_⟩
    · rw [List.getD_eq_getElem?_getD, List.getElem?_eq_getElem hi'.2]; simpa [hget.2] using hlab
    · rw [List.getD_eq_getElem?_getD, List.getElem?_eq_getElem hi'.1]; simpa [hget.1] using hx
  · rintro ⟨i, h1, h2, h3, h4⟩
    refine ⟨(faces[i], labels[i]), ⟨?_, ?_⟩, ?_⟩
    · exact List.mem_iff_getElem.mpr ⟨i, by simp [List.length_zip]; omega, by simp [List.getElem_zip]⟩
    · rw [List.getD_eq_getElem?_getD, List.getElem?_eq_getElem h2] at h3; simpa using h3
    · rw [List.getD_eq_getElem?_getD, List.getElem?_eq_getElem h1] at h4; simpa using h4

/-! ### non-vacuity: the unit cube's face list (as `ConvexPolyhedron` produces it) -/

/-- `cube.faces` of the docstring example in `convex_polyhedron.py` -/
def cubeFaces : List Face :=
  [[0, 2, 6, 4], [0, 4, 5, 1], [4, 6, 7, 5], [0, 1, 3, 2], [2, 3, 7, 6], [1, 5, 7, 3]]

/-- the cube is a closed oriented surface: the hypothesis of `edges_once` is satisfiable -/
theorem cube_closed_oriented : StructSpec.ClosedOriented cubeFaces := by
  constructor <;> decide

example : edges cubeFaces =
    [(0, 1), (0, 2), (0, 4), (1, 3), (1, 5), (2, 3), (2, 6), (3, 7), (4, 5), (4, 6), (5, 7), (6, 7)] := by
  decide

example : 2 * numEdges cubeFaces = 24 ∧ numEdgesConvex 8 cubeFaces.length = numEdges cubeFaces := by decide

/-- `cube.neighbors` of the docstring -/
example : findNeighbors cubeFaces =
    .ok [[1, 2, 3, 4], [0, 2, 3, 5], [0, 1, 4, 5], [0, 1, 4, 5], [0, 2, 3, 5], [1, 2, 3, 4]] := by
  decide

/-- `cube.neighbors` -/
def cubeNeighbors : List (List Nat) :=
  [[1, 2, 3, 4], [0, 2, 3, 5], [0, 1, 4, 5], [0, 1, 4, 5], [0, 2, 3, 5], [1, 2, 3, 4]]

/-- the cube with four faces listed the wrong way round -/
def cubeScrambled : List Face :=
  [[0, 2, 6, 4], [1, 5, 4, 0], [4, 6, 7, 5], [2, 3, 1, 0], [6, 7, 3, 2], [3, 7, 5, 1]]

example : findNeighbors cubeScrambled = .ok cubeNeighbors := by decide

/-- the traversal restores a consistent orientation (here the original one, because face 0 was
kept), empties its stack within the fuel and visits all six faces -/
example : (propagate cubeNeighbors cubeScrambled).faces = cubeFaces ∧
    (propagate cubeNeighbors cubeScrambled).stack = [] ∧
    ∀ k, k < 6 → k ∈ (propagate cubeNeighbors cubeScrambled).visited := by
  decide

/-- the hypotheses of `propagation_orients_all` are satisfiable: the scrambled cube with the
cube's own (outward) orientation as reference -/
theorem cube_ref_orientation : StructSpec.RefOrientation cubeNeighbors cubeScrambled cubeFaces := by
  constructor
  · intro k
    by_cases hk : k < 6
    · have : ∀ k, k < 6 → (cubeFaces.getD k [] = cubeScrambled.getD k [] ∨
          cubeFaces.getD k [] = (cubeScrambled.getD k []).reverse) := by decide
      exact this k hk
    · have h1 : cubeFaces.getD k [] = [] := by
        simp [List.getD_eq_getElem?_getD, List.getElem?_eq_none (show cubeFaces.length ≤ k by simp [cubeFaces]; omega)]
      have h2 : cubeScrambled.getD k [] = [] := by
        simp [List.getD_eq_getElem?_getD, List.getElem?_eq_none (show cubeScrambled.length ≤ k by simp [cubeScrambled]; omega)]
      rw [h1, h2]; exact Or.inl rfl
  · intro u v hv
    by_cases hu : u < 6
    · have : ∀ u, u < 6 → ∀ v ∈ cubeNeighbors.getD u [],
          (commonEdges (cubeFaces.getD u []) (cubeFaces.getD v [])) ≠ [] := by decide
      exact commonEdges_ne_nil.mp (this u hu v hv)
    · have : cubeNeighbors.getD u [] = [] := by
        simp [List.getD_eq_getElem?_getD, List.getElem?_eq_none (show cubeNeighbors.length ≤ u by simp [cubeNeighbors]; omega)]
      rw [this] at hv; simp at hv
  · intro u v hv
    by_cases hu : u < 6
    · have : ∀ u, u < 6 → ∀ v ∈ cubeNeighbors.getD u [],
          ∀ e ∈ StructSpec.dirEdges (cubeFaces.getD v []), e ∉ StructSpec.dirEdges (cubeFaces.getD u []) := by
        decide
      exact this u hu v hv
    · have : cubeNeighbors.getD u [] = [] := by
        simp [List.getD_eq_getElem?_getD, List.getElem?_eq_none (show cubeNeighbors.length ≤ u by simp [cubeNeighbors]; omega)]
      rw [this] at hv; simp at hv

/-- two faces sharing two edges: `_get_face_intersections` asserts -/
example : findNeighbors [[0, 1, 2, 3], [3, 2, 1, 4]] = .error "AssertionError" := by decide

/-- hypotheses of the plane theorems are satisfiable: bottom face of the cube seen from its centre -/
example : StructSpec.CcwAwayFrom (⟨0, 0, 0⟩ : V3 ℝ) ⟨-1, -1, -1⟩ ⟨-1, 1, -1⟩ ⟨1, 1, -1⟩ := by
  unfold StructSpec.CcwAwayFrom; unfold_model; norm_num

/-- `merge_faces`: two triangles of a square with the same label are united -/
example : mergedFaces [[0, 1, 2], [0, 2, 3], [4, 5, 6]] [0, 0, 1] = [[0, 1, 2, 3], [4, 5, 6]] := by decide
