import CoxeterVerif.Lemmas.Solid
import CoxeterVerif.Model.Structure
import CoxeterVerif.Spec.Structure
/-! placeholder while the harness is being brought up -/
theorem c07_placeholder : Struct.numEdgesConvex 8 6 = 12 := by decide
