import CoxeterVerif.Lemmas.Structure
import CoxeterVerif.Lemmas.StructureFuel
import CoxeterVerif.Lemmas.StructureCheck
import CoxeterVerif.Lemmas.StructureCert
import CoxeterVerif.Lemmas.StructureHull
import CoxeterVerif.Lemmas.StructureMerge
import CoxeterVerif.Lemmas.StructureAngular
import CoxeterVerif.Lemmas.StructureRat
/-!
  # C07 — face, normal, neighbour and edge structure of polyhedra is consistent

  Combinatorial theorems are over ALL face lists (any number of faces, any face lengths, any
  vertex labels); geometric ones over ℝ for all vertex positions.

  Proved here
  * `edges_once`            — `Polyhedron.edges` on a closed oriented face list
  * `neighbors_iff_shared_edge`, `neighbors_symm`, `neighbors_length`
  * `face_equation_contains_first_vertices`, `face_equation_unit_normal`,
    `face_equation_outward_ccw`, `face_equation_flip`
  * `propagation_discovery_tree` (unconditional), `propagation_terminates` (the fuel always
    suffices), `propagation_visits_exactly_component`, `propagation_orients`,
    `propagation_flips_consistently` (FULL: connected orientable surface ⇒ the result is the
    consistent orientation or its global reversal, as lists, and is closed oriented),
    `sort_simplices_outward` (FULL: the volume-sign flip makes it the OUTWARD one — under the
    decidable `simplexCert` the model's `_sort_simplices` returns exactly the certified simplices),
    `poly_sort_faces_oriented`
  * `reverse_all_negates_volume`, `sort_simplices_volume_nonneg`, `poly_flip_negates_volume`,
    `signed_volume_origin_independent`, `outward_volume_positive`
  * `surface_cert_sound` — the exact surface certificate (closed oriented 2-manifold, supporting
    facets, Euler count) implies the clauses of the property: `2E = Σ|f|`, every face is a facet of
    the hull (`IsHullFacet`, `hull_facet_is_exposed_face`), the `_find_equations` plane is a unit
    outward normal containing the whole face with all other vertices strictly inside,
    `V − E + F = 2`, `num_edges` agree
  * `merge_graph_entry`, `merge_faces_components`, `merge_chain_tolerance`,
    `merge_not_pairwise_close` (the `allclose` transitivity caveat)
  * `angular_order_sorted`, `cp_sort_face_ccw` — the angular sort lists a face counter-clockwise
    about its normal (consecutive strict left turns about the vertex mean)
  * `sorted_unique_spec`, `combine_simplices_faces`, `merged_faces_union`, `cp_sort_face_perm`,
    `dihedral_symm`, `dihedral_range`, `dihedral_cos`, `edge_lengths_spec`,
    `num_edges_convex_iff_euler`, `dihedral_py_index`

  NOT provable here (stated in notes/C07.md and in the claim): COMPLETENESS of the face list
  ("there is no further facet of the hull") — it needs that a closed 2-manifold of supporting
  facets covers the whole boundary of the hull (degree / invariance-of-domain argument, not in
  Mathlib for this setting); it is enforced per instance by the Euler count of the certificate and
  by the independent-hull oracle.
-/
open Struct StructLemmas Scalar
set_option maxRecDepth 4000

/-! ### edges -/

/-- **C07 edges.** For a closed oriented face list (no directed edge twice, every directed edge
has its reverse partner, no loops) `Polyhedron.edges`
* contains only pairs `i < j`,
* is strictly lexicographically sorted (hence duplicate free),
* contains `(a, b)` with `a < b` exactly when `{a, b}` is an edge of some face — so every
  undirected edge is listed exactly once —
* and `2·|edges| = Σ |f|`. -/
theorem edges_once (F : List Face) (h : StructSpec.ClosedOriented F) :
    (∀ e ∈ edges F, e.1 < e.2) ∧
    (edges F).Pairwise StructSpec.LexLt ∧
    (∀ a b, a < b → ((a, b) ∈ edges F ↔ StructSpec.IsEdge F a b)) ∧
    (∀ a b, a < b → StructSpec.IsEdge F a b → (edges F).count (a, b) = 1) ∧
    2 * (edges F).length = (F.map List.length).sum := by
  have hperm := edges_perm F
  have hmem : ∀ e, e ∈ edges F ↔ (e ∈ StructSpec.allDir F ∧ e.1 < e.2) := by
    intro e; rw [hperm.mem_iff, List.mem_filter]; simp
  have hnd : (edges F).Nodup := hperm.nodup_iff.mpr (h.nodup.filter _)
  have hiff : ∀ a b, a < b → ((a, b) ∈ edges F ↔ StructSpec.IsEdge F a b) := by
    intro a b hab
    rw [hmem]
    unfold StructSpec.IsEdge
    constructor
    · rintro ⟨h1, _⟩; exact Or.inl h1
    · rintro (h1 | h1)
      · exact ⟨h1, hab⟩
      · exact ⟨h.rev _ h1, hab⟩
  refine ⟨fun e he => ((hmem e).mp he).2, ?_, hiff, ?_, ?_⟩
  · have hs : (edges F).Pairwise (fun x y => lexLe x y = true) :=
      sortBy_pairwise lexLe lexLe_total lexLe_trans _
    exact (hs.and hnd).imp (fun hxy => lexLt_of_lexLe_ne hxy.1 hxy.2)
  · intro a b hab hE
    exact List.count_eq_one_of_mem hnd ((hiff a b hab).mpr hE)
  · rw [hperm.length_eq, ← allDir_length, halves_cover h.noLoop, ← halves_equal h.nodup h.rev]
    ring

/-- `Polyhedron.num_edges` is the number of undirected edges: half the number of face corners -/
theorem num_edges_half_corners (F : List Face) (h : StructSpec.ClosedOriented F) :
    2 * numEdges F = (F.map List.length).sum := (edges_once F h).2.2.2.2

/-- `cube.faces` of the docstring example and a scrambled version (as in the non-vacuity section) -/
def cubeFacesPre : List Face :=
  [[0, 2, 6, 4], [0, 4, 5, 1], [4, 6, 7, 5], [0, 1, 3, 2], [2, 3, 7, 6], [1, 5, 7, 3]]
def cubeScrambledPre : List Face :=
  [[0, 2, 6, 4], [1, 5, 4, 0], [4, 6, 7, 5], [2, 3, 1, 0], [6, 7, 3, 2], [3, 7, 5, 1]]

/-! ### the cached `edges` never goes stale -/

/-- the cache is absent or holds the edges of the CURRENT faces -/
def Struct.EdgeCache.Coherent (s : EdgeCache) : Prop := s.cache = none ∨ s.cache = some (edges s.faces)

theorem Struct.EdgeCache.step_coherent (s : EdgeCache) (h : s.Coherent) (op : EdgeOp) : (s.step op).Coherent := by
  cases op with
  | read =>
    unfold EdgeCache.step EdgeCache.readEdges
    rcases hc : s.cache with _ | e
    · exact Or.inr rfl
    · simp only
      rcases h with h | h
      · rw [hc] at h; cases h
      · exact Or.inr h
  | setFaces F => exact Or.inl rfl

/-- **C07 cache invalidation (all histories).** Start from a freshly constructed `Polyhedron` and
apply ANY sequence of reads of the edge observables and of `sort_faces` / `merge_faces` calls (each
of which ends by dropping the cache entry, as the code does). Then a read of `edges` returns
`edges(faces_now)` — never the edge list of an earlier face list; in particular after `sort_faces`
the cached edges, if any, are those of the sorted faces, no matter what was read before. -/
theorem edges_cache_coherent (F0 : List Face) (ops : List EdgeOp) :
    ((EdgeCache.init F0).run ops).Coherent ∧
    ((EdgeCache.init F0).run ops).readEdges.1 = edges ((EdgeCache.init F0).run ops).faces := by
  have hinv : ∀ (ops : List EdgeOp) (s : EdgeCache), s.Coherent → (s.run ops).Coherent := by
    intro ops
    induction ops with
    | nil => intro s h; exact h
    | cons op ops ih =>
      intro s h
      exact ih _ (EdgeCache.step_coherent s h op)
  have h := hinv ops (EdgeCache.init F0) (Or.inl rfl)
  refine ⟨h, ?_⟩
  unfold EdgeCache.readEdges
  rcases hc : ((EdgeCache.init F0).run ops).cache with _ | e
  · rfl
  · rcases h with h | h
    · rw [hc] at h; cases h
    · rw [hc] at h; simp only; exact Option.some.inj h

/-- the history of the seeded change r2-C07-2: read the edges of the shuffled faces, sort, read again
— the second read sees the edges of the sorted faces -/
example : ((EdgeCache.init cubeScrambledPre).run [.read, .setFaces cubeFacesPre, .read]).readEdges.1
    = edges cubeFacesPre := (edges_cache_coherent cubeScrambledPre [.read, .setFaces cubeFacesPre, .read]).2

/-- a state machine that does NOT drop the cache in `sort_faces` (the defect repaired for C03, and
the seeded change r2-C07-2) violates coherence: read, then replace the faces keeping the cache -/
theorem stale_cache_fails :
    ¬ (EdgeCache.Coherent ⟨[[0, 1, 2], [0, 2, 3], [0, 3, 1], [1, 3, 2]],
        ((EdgeCache.init [[0, 2, 1], [0, 2, 3], [0, 3, 1], [1, 3, 2]]).step .read).cache⟩) := by
  unfold EdgeCache.Coherent
  decide

/-! ### neighbours -/

/-- **C07 neighbours.** When `_find_neighbors` succeeds (no `AssertionError`), `j` is listed as a
neighbour of `i` exactly when `i ≠ j` are faces that share an (undirected) edge. -/
theorem neighbors_iff_shared_edge {F : List Face} {N : List (List Nat)} (h : findNeighbors F = .ok N)
    (i j : Nat) :
    j ∈ N.getD i [] ↔
      (i < F.length ∧ j < F.length ∧ i ≠ j ∧ StructSpec.SharesEdge (F.getD i []) (F.getD j [])) :=
  findNeighbors_spec h i j

/-- **C07 neighbours are symmetric.** -/
theorem neighbors_symm {F : List Face} {N : List (List Nat)} (h : findNeighbors F = .ok N) (i j : Nat) :
    j ∈ N.getD i [] ↔ i ∈ N.getD j [] := by
  rw [findNeighbors_spec h i j, findNeighbors_spec h j i]
  constructor
  · rintro ⟨a, b, c, d⟩; exact ⟨b, a, c.symm, SharesEdge_symm d⟩
  · rintro ⟨a, b, c, d⟩; exact ⟨b, a, c.symm, SharesEdge_symm d⟩

/-- one neighbour row per face -/
theorem neighbors_length {F : List Face} {N : List (List Nat)} (h : findNeighbors F = .ok N) :
    N.length = F.length := findNeighbors_length h

/-! ### plane equations -/

noncomputable section

/-- **C07 equations contain the face.** The plane returned by `_find_equations` for the vertices
`v0 v1 v2` passes through all three (for every input, degenerate or not). -/
theorem face_equation_contains_first_vertices (v0 v1 v2 : V3 ℝ) :
    let e := Poly3.faceEquation v0 v1 v2
    StructSpec.OnPlane e.1 e.2 v0 ∧ StructSpec.OnPlane e.1 e.2 v1 ∧ StructSpec.OnPlane e.1 e.2 v2 := by
  obtain ⟨ax, ay, az⟩ := v0; obtain ⟨bx, b_y, bz⟩ := v1; obtain ⟨cx, cy, cz⟩ := v2
  simp only [Poly3.faceEquation, StructSpec.OnPlane]
  set N := V3.norm (V3.cross ((⟨cx, cy, cz⟩ : V3 ℝ) - ⟨bx, b_y, bz⟩) (⟨ax, ay, az⟩ - ⟨bx, b_y, bz⟩)) with hN
  by_cases h0 : N = 0
  · rw [h0]; refine ⟨?_, ?_, ?_⟩ <;> unfold_model <;> simp
  · refine ⟨?_, ?_, ?_⟩ <;> unfold_model <;> field_simp <;> ring

/-- **C07 unit normal.** For non-collinear `v0 v1 v2` the normal of `_find_equations` has length 1. -/
theorem face_equation_unit_normal (v0 v1 v2 : V3 ℝ)
    (hnd : V3.norm (V3.cross (v2 - v1) (v0 - v1)) ≠ 0) :
    V3.normSq (Poly3.faceEquation v0 v1 v2).1 = 1 := by
  simp only [Poly3.faceEquation]
  set n := V3.cross (v2 - v1) (v0 - v1) with hn
  have hsq := norm_sq_eq n
  have : V3.normSq (V3.sdiv n (V3.norm n)) = V3.normSq n / (V3.norm n * V3.norm n) := by
    unfold V3.normSq V3.dot
    simp only [V3.sdiv_x, V3.sdiv_y, V3.sdiv_z]
    field_simp
  rw [this, hsq]
  have : V3.normSq n ≠ 0 := by rw [← hsq]; exact mul_ne_zero hnd hnd
  exact div_self this

/-- **C07 outward for counter-clockwise order.** If the first three vertices of a face appear
counter-clockwise to an observer on the side opposite to `p` (tetrahedron `p v0 v1 v2` positively
oriented — for `p` inside the solid: counter-clockwise seen from outside), then `p` is strictly on
the negative side of the plane of `_find_equations`, i.e. the normal points away from `p`
(outward), and the normal is a unit vector. -/
theorem face_equation_outward_ccw (p v0 v1 v2 : V3 ℝ) (h : StructSpec.CcwAwayFrom p v0 v1 v2) :
    let e := Poly3.faceEquation v0 v1 v2
    V3.dot e.1 p + e.2 < 0 ∧ V3.normSq e.1 = 1 := by
  have hdet := det_eq_dot_raw p v0 v1 v2
  unfold StructSpec.CcwAwayFrom at h
  simp only [Scalar.lit, Scalar.ofNat_real, Nat.cast_zero] at h
  rw [hdet, ← faceEquation_raw] at h
  set n := V3.cross (v2 - v1) (v0 - v1) with hn
  have hnpos : 0 < V3.norm n := by
    rcases (norm_nonneg n).lt_or_eq with h1 | h1
    · exact h1
    · exfalso
      have hz : V3.normSq n = 0 := by rw [← norm_sq_eq, ← h1]; ring
      unfold V3.normSq V3.dot at hz
      have hx : n.x = 0 := by nlinarith [sq_nonneg n.x, sq_nonneg n.y, sq_nonneg n.z]
      have hy : n.y = 0 := by nlinarith [sq_nonneg n.x, sq_nonneg n.y, sq_nonneg n.z]
      have hzz : n.z = 0 := by nlinarith [sq_nonneg n.x, sq_nonneg n.y, sq_nonneg n.z]
      unfold V3.dot at h
      rw [hx, hy, hzz] at h
      simp at h
  refine ⟨?_, face_equation_unit_normal v0 v1 v2 hnpos.ne'⟩
  simp only [Poly3.faceEquation, ← hn]
  have key : V3.dot (V3.sdiv n (V3.norm n)) p + -(V3.dot (V3.sdiv n (V3.norm n)) v0)
      = -(V3.dot n (v0 - p)) / V3.norm n := by
    unfold V3.dot
    simp only [V3.sdiv_x, V3.sdiv_y, V3.sdiv_z, V3.sub_x, V3.sub_y, V3.sub_z]
    field_simp
    ring
  rw [key]
  exact div_neg_of_neg_of_pos (by linarith) hnpos

/-- **C07 simplex equations.** `_find_simplex_equations` (normal `cross(b−a, c−a)`, normalised,
`d = −n·a`): for a simplex that appears counter-clockwise from the side opposite to `p` the equation
is a unit normal pointing away from `p`, and its plane contains the three vertices. -/
theorem simplex_equation_outward_ccw (p a b c : V3 ℝ) (h : StructSpec.CcwAwayFrom p a b c) :
    let e := simplexEquation ⟨a, b, c⟩
    V3.dot e.1 p + e.2 < 0 ∧ V3.normSq e.1 = 1 ∧
    StructSpec.OnPlane e.1 e.2 a ∧ StructSpec.OnPlane e.1 e.2 b ∧ StructSpec.OnPlane e.1 e.2 c := by
  have hdet := det_eq_dot_raw p a b c
  unfold StructSpec.CcwAwayFrom at h
  simp only [Scalar.lit, Scalar.ofNat_real, Nat.cast_zero] at h
  rw [hdet] at h
  simp only [simplexEquation]
  have hn : V3.cross (b - a) (c - a) = StructSpec.rawNormal a b c := rfl
  rw [hn]
  set n := StructSpec.rawNormal a b c with hndef
  have hnpos : 0 < V3.norm n := by
    rcases (norm_nonneg n).lt_or_eq with h1 | h1
    · exact h1
    · exfalso
      have hz : V3.normSq n = 0 := by rw [← norm_sq_eq, ← h1]; ring
      unfold V3.normSq V3.dot at hz
      have hx : n.x = 0 := by nlinarith [sq_nonneg n.x, sq_nonneg n.y, sq_nonneg n.z]
      have hy : n.y = 0 := by nlinarith [sq_nonneg n.x, sq_nonneg n.y, sq_nonneg n.z]
      have hzz : n.z = 0 := by nlinarith [sq_nonneg n.x, sq_nonneg n.y, sq_nonneg n.z]
      unfold V3.dot at h
      rw [hx, hy, hzz] at h
      simp at h
  have hsq := norm_sq_eq n
  have key : ∀ v : V3 ℝ, V3.dot (V3.sdiv n (V3.norm n)) v + -(V3.dot (V3.sdiv n (V3.norm n)) a)
      = V3.dot n (v - a) / V3.norm n := by
    intro v
    unfold V3.dot
    simp only [V3.sdiv_x, V3.sdiv_y, V3.sdiv_z, V3.sub_x, V3.sub_y, V3.sub_z]
    field_simp
    ring
  have hna : V3.dot n (a - a) = 0 := by
    unfold V3.dot; simp only [V3.sub_x, V3.sub_y, V3.sub_z]; ring
  have hnb : V3.dot n (b - a) = 0 := by
    rw [hndef]; obtain ⟨ax, ay, az⟩ := a; obtain ⟨bx, b_y, bz⟩ := b; obtain ⟨cx, cy, cz⟩ := c
    unfold StructSpec.rawNormal; unfold_model; ring
  have hnc : V3.dot n (c - a) = 0 := by
    rw [hndef]; obtain ⟨ax, ay, az⟩ := a; obtain ⟨bx, b_y, bz⟩ := b; obtain ⟨cx, cy, cz⟩ := c
    unfold StructSpec.rawNormal; unfold_model; ring
  refine ⟨?_, ?_, ?_, ?_, ?_⟩
  · rw [key]
    have : V3.dot n (p - a) = -(V3.dot n (a - p)) := by
      unfold V3.dot; simp only [V3.sub_x, V3.sub_y, V3.sub_z]; ring
    rw [this]
    exact div_neg_of_neg_of_pos (by linarith) hnpos
  · have : V3.normSq (V3.sdiv n (V3.norm n)) = V3.normSq n / (V3.norm n * V3.norm n) := by
      unfold V3.normSq V3.dot
      simp only [V3.sdiv_x, V3.sdiv_y, V3.sdiv_z]
      field_simp
    rw [this, hsq]
    have : V3.normSq n ≠ 0 := by rw [← hsq]; exact mul_ne_zero hnpos.ne' hnpos.ne'
    exact div_self this
  · unfold StructSpec.OnPlane; simp only [Scalar.lit, Scalar.ofNat_real, Nat.cast_zero]; rw [key, hna]; simp
  · unfold StructSpec.OnPlane; simp only [Scalar.lit, Scalar.ofNat_real, Nat.cast_zero]; rw [key, hnb]; simp
  · unfold StructSpec.OnPlane; simp only [Scalar.lit, Scalar.ofNat_real, Nat.cast_zero]; rw [key, hnc]; simp

/-- reversing the vertex order of a face negates its plane equation (what the global flip of
`Polyhedron.sort_faces` does with `equations[i] *= -1`) -/
theorem face_equation_flip (v0 v1 v2 : V3 ℝ) :
    let e := Poly3.faceEquation v0 v1 v2
    let e' := Poly3.faceEquation v2 v1 v0
    e'.1 = -(e.1) ∧ (StructSpec.OnPlane e'.1 e'.2 v0 ∧ StructSpec.OnPlane e'.1 e'.2 v1 ∧
      StructSpec.OnPlane e'.1 e'.2 v2) := by
  refine ⟨?_, ?_⟩
  · simp only [Poly3.faceEquation]
    have hc : V3.cross (v0 - v1) (v2 - v1) = -(V3.cross (v2 - v1) (v0 - v1)) := by
      obtain ⟨ax, ay, az⟩ := v0; obtain ⟨bx, b_y, bz⟩ := v1; obtain ⟨cx, cy, cz⟩ := v2
      ext <;> unfold_model <;> ring
    have hnorm : V3.norm (-(V3.cross (v2 - v1) (v0 - v1))) = V3.norm (V3.cross (v2 - v1) (v0 - v1)) := by
      unfold V3.norm V3.normSq V3.dot
      simp only [V3.neg_x, V3.neg_y, V3.neg_z]
      congr 1; ring
    rw [hc, hnorm]
    ext <;> simp only [V3.sdiv_x, V3.sdiv_y, V3.sdiv_z, V3.neg_x, V3.neg_y, V3.neg_z] <;> ring
  · have := face_equation_contains_first_vertices v2 v1 v0
    exact ⟨this.2.2, this.2.1, this.1⟩

end

/-! ### orientation propagation -/

/-- **C07 propagation, discovery tree (no hypothesis at all).** After the traversal of
`_sort_simplices` / `Polyhedron.sort_faces` (any neighbour lists, any faces, started at face 0):
* every face is either unchanged or reversed;
* every visited face `v ≠ 0` was discovered from a visited face `u ≠ v` whose neighbour list
  contains `v`, and if `u` and `v` share an edge then (in their FINAL orientation) they traverse
  a common edge in opposite directions.
(This was `propagation_flips_consistently_partial`; the full statement is
`propagation_flips_consistently` below.) -/
theorem propagation_discovery_tree (nbrs : List (List Nat)) (F : List Face) :
    let st := propagate nbrs F
    st.faces.length = F.length ∧
    (∀ k, st.faces.getD k [] = F.getD k [] ∨ st.faces.getD k [] = (F.getD k []).reverse) ∧
    (∀ v ∈ st.visited, v = 0 ∨ ∃ u ∈ st.visited, u ≠ v ∧ v ∈ nbrs.getD u [] ∧
      (StructSpec.SharesEdge (st.faces.getD u []) (st.faces.getD v []) →
        StructSpec.OppositeOn (st.faces.getD u []) (st.faces.getD v []))) := by
  have h := propagate_inv nbrs F
  exact ⟨h.len, h.orig, h.tree⟩

/-- **C07 the `while` loop always terminates within the model's fuel**: for EVERY neighbour table
the final stack is empty (each pass pops one entry; an index is pushed only while unvisited and is
marked visited at once, so at most `Σ|nbrs[i]|` pushes happen). -/
theorem propagation_terminates (nbrs : List (List Nat)) (F : List Face) :
    (propagate nbrs F).stack = [] := propagate_stack_empty nbrs F

/-- **C07 the traversal visits exactly the connected component of face 0.** -/
theorem propagation_visits_exactly_component (nbrs : List (List Nat)) (F : List Face) (k : Nat) :
    k ∈ (propagate nbrs F).visited ↔ StructSpec.Reach nbrs k := visited_iff_reach nbrs F k

/-- one step of the inner loop, on its own: orienting `nb` against `cur` makes them traverse a
shared edge in opposite directions -/
theorem orient_against_opposite (cur nb : Face) (h : StructSpec.SharesEdge cur nb) :
    StructSpec.OppositeOn cur (orientAgainst (faceToEdges cur) nb) := by
  have hl := orientAgainst_linked cur nb
  apply hl
  rcases orientAgainst_cases (faceToEdges cur) nb with h' | h'
  · rw [h']; exact h
  · rw [h']
    obtain ⟨a, b, h1, h2⟩ := h
    refine ⟨a, b, h1, ?_⟩
    unfold StructSpec.Adj at h2 ⊢
    rcases h2 with h2 | h2
    · exact Or.inr (mem_dirEdges_reverse h2)
    · exact Or.inl (mem_dirEdges_reverse h2)

/-- reversing both faces keeps them free of common directed edges -/
theorem consistent_reverse {f g : Face} (h : StructSpec.Consistent f g) :
    StructSpec.Consistent f.reverse g.reverse := by
  intro e he hf
  obtain ⟨a, b⟩ := e
  exact h (b, a) (mem_dirEdges_reverse_iff.mp he) (mem_dirEdges_reverse_iff.mp hf)

/-- **C07 propagation reproduces the consistent orientation.** Suppose the surface is orientable
in the sense that some choice `G` of "keep / reverse" per face makes every listed neighbour pair
share an edge without a common directed edge (`RefOrientation`; for the boundary of a convex
polyhedron with the neighbour lists of `_find_neighbors` or of Qhull this is the outward
orientation). Then the traversal returns, on every face it visits, exactly `G` or exactly the
reversal of `G` — one global choice `c` — so that all visited neighbour pairs are consistent, not
only those of the discovery tree. The global choice is then fixed by the sign of the volume
(`sort_simplices_volume_nonneg`). -/
theorem propagation_orients (nbrs : List (List Nat)) (F G : List Face)
    (href : StructSpec.RefOrientation nbrs F G) :
    let st := propagate nbrs F
    (∃ c : Bool, ∀ v ∈ st.visited, st.faces.getD v [] = StructSpec.flipIf c (G.getD v [])) ∧
    (∀ u ∈ st.visited, ∀ v ∈ st.visited, v ∈ nbrs.getD u [] →
      StructSpec.Consistent (st.faces.getD u []) (st.faces.getD v [])) := by
  have h2 := propagate_inv2 nbrs F G href
  refine ⟨h2.agree, ?_⟩
  obtain ⟨c, hc⟩ := h2.agree
  intro u hu v hv hnb
  rw [hc u hu, hc v hv]
  cases c with
  | false => simpa [StructSpec.flipIf] using href.consistent u v hnb
  | true => simpa [StructSpec.flipIf] using consistent_reverse (href.consistent u v hnb)

/-- **C07 the traversal reaches the whole component of face 0** (no stack hypothesis any more:
`propagation_terminates`). -/
theorem propagation_visits_component (nbrs : List (List Nat)) (F : List Face)
    (k : Nat) (hk : StructSpec.Reach nbrs k) : k ∈ (propagate nbrs F).visited :=
  (visited_iff_reach nbrs F k).mpr hk

/-- **C07 propagation, complete form (index-wise).** On a connected, consistently orientable face
graph the traversal orients EVERY face like the reference orientation, up to one global flip. -/
theorem propagation_orients_all (nbrs : List (List Nat)) (F G : List Face)
    (href : StructSpec.RefOrientation nbrs F G)
    (hconn : ∀ k, k < F.length → StructSpec.Reach nbrs k) :
    ∃ c : Bool, ∀ k, k < F.length →
      (propagate nbrs F).faces.getD k [] = StructSpec.flipIf c (G.getD k []) := by
  obtain ⟨c, hc⟩ := (propagation_orients nbrs F G href).1
  exact ⟨c, fun k hk => hc k (propagation_visits_component nbrs F k (hconn k hk))⟩

/-- **C07 propagation flips consistently (FULL).** Let `G` be a closed oriented surface that keeps
or reverses every face of `F` (the surface is orientable), let every listed neighbour pair consist
of two different faces sharing an edge (true for `_find_neighbors`: `neighbors_iff_shared_edge`;
a checked contract for Qhull's table), and let the neighbour graph be connected. Then the
traversal of `_sort_simplices` / `Polyhedron.sort_faces` — with NO assumption on fuel, stack or
visiting order —
* returns exactly `G` or exactly the global reversal of `G` (as lists),
* so its result is again a closed oriented surface: ALL neighbouring faces, not only those of the
  discovery tree, traverse their shared edges in opposite directions,
* and it has visited every face. -/
theorem propagation_flips_consistently (nbrs : List (List Nat)) (F G : List Face)
    (hlen : G.length = F.length)
    (horig : ∀ k, k < F.length → G.getD k [] = F.getD k [] ∨ G.getD k [] = (F.getD k []).reverse)
    (hclosed : StructSpec.ClosedOriented G)
    (hnb : ∀ u v, v ∈ nbrs.getD u [] → u ≠ v ∧ StructSpec.SharesEdge (F.getD u []) (F.getD v []))
    (hconn : ∀ k, k < F.length → StructSpec.Reach nbrs k) :
    ((propagate nbrs F).faces = G ∨ (propagate nbrs F).faces = reverseAll G) ∧
    StructSpec.ClosedOriented (propagate nbrs F).faces ∧
    (∀ k, k < F.length → k ∈ (propagate nbrs F).visited) := by
  have href := refOrientation_of_closed (orig_all hlen horig) hclosed.nodup hnb
  have h := propagate_eq_ref nbrs F G hlen href hconn
  refine ⟨h, ?_, fun k hk => (visited_iff_reach nbrs F k).mpr (hconn k hk)⟩
  rcases h with h | h
  · rw [h]; exact hclosed
  · rw [h]; exact closedOriented_reverseAll hclosed

/-- the same with the decidable hypotheses the driver evaluates (`orientCert`) for the neighbour
table that `Polyhedron.sort_faces` computes itself -/
theorem propagation_flips_consistently_cert (F G : List Face) (N : List (List Nat))
    (hN : findNeighbors F = .ok N) (hcert : orientCert F G = true) :
    ((propagate N F).faces = G ∨ (propagate N F).faces = reverseAll G) ∧
    StructSpec.ClosedOriented (propagate N F).faces := by
  unfold orientCert at hcert
  rw [hN] at hcert
  simp only [Bool.and_eq_true] at hcert
  obtain ⟨⟨h1, h2⟩, h3⟩ := hcert
  obtain ⟨hlen, horig⟩ := (sameUpToReversalB_iff F G).mp h1
  have := propagation_flips_consistently N F G hlen horig ((closedOrientedB_iff G).mp h2)
    (findNeighbors_shares hN) ((visitsAll_iff N F).mp h3)
  exact ⟨this.1, this.2.1⟩

/-! ### global flip by the sign of the volume -/

noncomputable section

theorem triOf_reverse (verts : List (V3 ℝ)) (s : Face) (h : s.length = 3) :
    triOf verts s.reverse = (triOf verts s).rev := by
  match s, h with
  | [a, b, c], _ => rfl

/-- **C07 global flip.** Reversing every simplex (`simplices[:, ::-1]`) negates the signed volume
`_calculate_signed_volume()`. -/
theorem reverse_all_negates_volume (verts : List (V3 ℝ)) (S : List Face) (h3 : ∀ s ∈ S, s.length = 3) :
    CP.signedVolume ((reverseAll S).map (triOf verts)) = -CP.signedVolume (S.map (triOf verts)) := by
  rw [signedVolume_eq_sumOver, signedVolume_eq_sumOver]
  unfold reverseAll sumOver
  induction S with
  | nil => simp
  | cons s S ih =>
    have := ih (fun t ht => h3 t (List.mem_cons_of_mem _ ht))
    simp only [List.map_cons, List.sum_cons] at this ⊢
    rw [this, triOf_reverse verts s (h3 s List.mem_cons_self), volPhi_oddCyclic.rev]
    ring

/-- **C07 `_sort_simplices` ends with non-negative signed volume** (for triangles), whatever the
hull's neighbour lists and the start permutation were; and each output simplex is an input
simplex or its reversal. -/
theorem sort_simplices_volume_nonneg (verts : List (V3 ℝ)) (start : List Face) (nbrs : List (List Nat))
    (h3 : ∀ s ∈ start, s.length = 3) :
    0 ≤ CP.signedVolume ((sortSimplices verts start nbrs).map (triOf verts)) ∧
    (∀ k, (sortSimplices verts start nbrs).getD k [] = start.getD k [] ∨
          (sortSimplices verts start nbrs).getD k [] = (start.getD k []).reverse) := by
  have hinv := propagate_inv nbrs start
  have hlen3 : ∀ s ∈ (propagate nbrs start).faces, s.length = 3 := by
    intro s hs
    obtain ⟨k, hk, rfl⟩ := List.mem_iff_getElem.mp hs
    have hk' : k < start.length := by rw [← hinv.len]; exact hk
    have h0 := h3 _ (List.getElem_mem hk')
    rcases hinv.orig k with h | h
    · rw [List.getD_eq_getElem?_getD, List.getElem?_eq_getElem hk, List.getD_eq_getElem?_getD,
        List.getElem?_eq_getElem hk'] at h
      simp only [Option.getD_some] at h
      rw [h]; exact h0
    · rw [List.getD_eq_getElem?_getD, List.getElem?_eq_getElem hk, List.getD_eq_getElem?_getD,
        List.getElem?_eq_getElem hk'] at h
      simp only [Option.getD_some] at h
      rw [h, List.length_reverse]; exact h0
  unfold sortSimplices
  simp only [Scalar.lit, Scalar.ofNat_real, Nat.cast_zero]
  split_ifs with hneg
  · refine ⟨?_, ?_⟩
    · rw [reverse_all_negates_volume verts _ hlen3]; linarith
    · intro k
      have : (reverseAll (propagate nbrs start).faces).getD k [] =
          ((propagate nbrs start).faces.getD k []).reverse := by
        unfold reverseAll
        simp only [List.getD_eq_getElem?_getD, List.getElem?_map]
        cases (propagate nbrs start).faces[k]? <;> simp
      rw [this]
      rcases hinv.orig k with h | h
      · exact Or.inr (by rw [h])
      · exact Or.inl (by rw [h, List.reverse_reverse])
  · exact ⟨not_lt.mp hneg, hinv.orig⟩

/-- **C07 the signed volume of a closed oriented triangulation does not depend on the origin**
(every edge is traversed once in each direction, so the edge terms cancel). -/
theorem signed_volume_origin_independent (verts : List (V3 ℝ)) (S : List Face)
    (h3 : ∀ s ∈ S, s.length = 3) (hcl : StructSpec.ClosedOriented S) (p : V3 ℝ) :
    CP.signedVolume (S.map fun s => (triOf verts s).map (· - p)) = CP.signedVolume (S.map (triOf verts)) :=
  signedVolume_translate_closed verts S h3 hcl p

/-- **C07 an outward closed oriented triangulation has positive signed volume.** -/
theorem outward_volume_positive (verts : List (V3 ℝ)) (S : List Face) (hne : S ≠ [])
    (h3 : ∀ s ∈ S, s.length = 3) (hcl : StructSpec.ClosedOriented S) (p : V3 ℝ)
    (hout : StructSpec.outwardFromB verts p S = true) :
    0 < CP.signedVolume (S.map (triOf verts)) :=
  signedVolume_pos_of_outward verts S hne h3 hcl p hout

theorem reverseAll_reverseAll (G : List Face) : reverseAll (reverseAll G) = G := by
  unfold reverseAll
  rw [List.map_map]
  conv_rhs => rw [← List.map_id G]
  apply List.map_congr_left
  intro f _; simp

/-- **C07 `_sort_simplices` returns the OUTWARD consistent orientation (FULL).**
If `G` keeps or reverses every start simplex, is a closed oriented surface of triangles each of
which appears counter-clockwise from the side opposite to some point `p` (i.e. `G` is the outward
orientation of the boundary of a solid containing `p`), the listed neighbour pairs are different
simplices sharing an edge and the neighbour graph is connected — all of this is the decidable
`simplexCert`, which the driver evaluates exactly over ℚ with `G` = the implementation's own
simplices and `p` = the vertex mean — then the model of `_sort_simplices` (traversal + global flip
by the sign of the volume) returns EXACTLY `G`. -/
theorem sort_simplices_outward (verts : List (V3 ℝ)) (start : List Face) (nbrs : List (List Nat))
    (G : List Face) (p : V3 ℝ) (hcert : simplexCert verts start nbrs G p = true) :
    sortSimplices verts start nbrs = G ∧ StructSpec.ClosedOriented G ∧
    0 < CP.signedVolume (G.map (triOf verts)) := by
  unfold simplexCert at hcert
  simp only [Bool.and_eq_true, List.all_eq_true, beq_iff_eq, Bool.not_eq_true',
    List.isEmpty_eq_false_iff] at hcert
  obtain ⟨⟨⟨⟨⟨⟨h1, h2⟩, h3⟩, h4⟩, h5⟩, h6⟩, h7⟩ := hcert
  obtain ⟨hlen, horig⟩ := (sameUpToReversalB_iff start G).mp h1
  have hcl := (closedOrientedB_iff G).mp h2
  have hG3 : ∀ s ∈ G, s.length = 3 := by
    intro s hs
    obtain ⟨k, hk, rfl⟩ := List.mem_iff_getElem.mp hs
    have hk' : k < start.length := by omega
    have := horig k hk'
    simp only [List.getD_eq_getElem?_getD, List.getElem?_eq_getElem hk, List.getElem?_eq_getElem hk',
      Option.getD_some] at this
    have h0 := h6 _ (List.getElem_mem hk')
    rcases this with h | h
    · rw [h]; exact h0
    · rw [h, List.length_reverse]; exact h0
  have hpos := signedVolume_pos_of_outward verts G h7 hG3 hcl p h5
  have hprop := (propagation_flips_consistently nbrs start G hlen horig hcl (nbrsShareB_spec h3)
    ((visitsAll_iff nbrs start).mp h4)).1
  refine ⟨?_, hcl, hpos⟩
  unfold sortSimplices
  simp only [Scalar.lit, Scalar.ofNat_real, Nat.cast_zero]
  rcases hprop with h | h
  · rw [h, if_neg (not_lt.mpr (le_of_lt hpos))]
  · rw [h]
    have hneg := reverse_all_negates_volume verts G hG3
    rw [if_pos (by rw [hneg]; linarith), reverseAll_reverseAll]

/-- **C07 `Polyhedron.sort_faces` (traversal + global flip) is consistently oriented.** When the
re-ordered faces have a closed oriented reference `G` and their neighbour graph is connected
(`orientCert`, evaluated by the driver), the faces `polySortFacesCore` returns are `G` or the
global reversal of `G`; in particular they form a closed oriented surface. Which of the two is
decided by the sign of `Polyhedron.volume` (`poly_flip_negates_volume`). -/
theorem poly_sort_faces_oriented (verts : List (V3 ℝ)) (faces : List Face) (areas : List ℝ)
    (G : List Face) (hcert : orientCert faces G = true)
    (r : List Face × List (Eqn ℝ) × List (List Nat)) (hr : polySortFacesCore verts faces areas = .ok r) :
    (r.1 = G ∨ r.1 = reverseAll G) ∧ StructSpec.ClosedOriented r.1 := by
  unfold polySortFacesCore at hr
  rcases hN : findNeighbors faces with err | N
  · rw [hN] at hr; simp [Except.map] at hr
  · rw [hN] at hr
    simp only [Except.map, Except.ok.injEq] at hr
    obtain ⟨hp, hcl⟩ := propagation_flips_consistently_cert faces G N hN hcert
    have hGcl : StructSpec.ClosedOriented G := by
      unfold orientCert at hcert
      simp only [Bool.and_eq_true] at hcert
      exact (closedOrientedB_iff G).mp hcert.1.2
    subst hr
    split_ifs
    · simp only
      rcases hp with h | h
      · rw [h]; exact ⟨Or.inr rfl, closedOriented_reverseAll hGcl⟩
      · rw [h, reverseAll_reverseAll]; exact ⟨Or.inl rfl, hGcl⟩
    · simp only
      exact ⟨hp, hcl⟩

/-- the same for `Polyhedron.sort_faces`: negating all plane offsets (`equations *= -1`) negates
`Polyhedron.volume = Σ(−d·A)/3` (the areas are orientation independent) -/
theorem poly_flip_negates_volume (eqs : List (Eqn ℝ)) (areas : List ℝ) :
    polyVolume (eqs.map fun e => (-(e.1), -(e.2))) areas = -polyVolume eqs areas := by
  unfold polyVolume Poly3.volume
  simp only [Scalar.sum_real, Scalar.lit, Scalar.ofNat_real]
  rw [← neg_div]
  congr 1
  induction eqs generalizing areas with
  | nil => simp
  | cons e eqs ih =>
    cases areas with
    | nil => simp
    | cons a areas =>
      simp only [List.map_cons, List.zipWith_cons_cons, List.sum_cons, ih areas]
      ring

/-- `get_dihedral` is symmetric in its two faces (when both directions are neighbours) -/
theorem dihedral_symm (nbrs : List (List Nat)) (normals : List (V3 ℝ)) (a b : Nat)
    (hab : (nbrs.getD a []).contains b = true) (hba : (nbrs.getD b []).contains a = true) :
    getDihedral nbrs normals a b = getDihedral nbrs normals b a := by
  unfold getDihedral
  rw [if_pos hab, if_pos hba]
  congr 2
  unfold V3.dot
  simp only [V3.neg_x, V3.neg_y, V3.neg_z]
  ring_nf

/-- the angular sort of `ConvexPolyhedron.sort_faces` only permutes the vertices of the face
(any rotation matrix, any coordinates) -/
theorem cp_sort_face_perm (verts : List (V3 ℝ)) (face : Face) (R : M3 ℝ) :
    (cpSortFace verts face R).Perm face := by
  unfold cpSortFace
  have hlen : (alignCentred R (face.map fun i => verts.getD i V3.zero)).length = face.length := by
    simp [alignCentred]
  have hperm : (angularOrder (alignCentred R (face.map fun i => verts.getD i V3.zero)) 0).Perm
      (List.range face.length) := by
    unfold angularOrder
    rw [hlen]
    exact sortBy_perm _ _
  have hid : (List.range face.length).map (fun k => face.getD k 0) = face := by
    apply List.ext_getElem
    · simp
    · intro i h1 h2
      simp [List.getD_eq_getElem?_getD, h2]
  exact (hperm.map _).trans (by rw [hid])

end

/-! ### `np.unique` / vertex unions -/

/-- `np.unique` (faces of `_combine_simplices`, unions of `merge_faces`): strictly increasing, same
elements -/
theorem sorted_unique_spec (l : List Nat) :
    (sortedUnique l).Pairwise (· < ·) ∧ ∀ x, x ∈ sortedUnique l ↔ x ∈ l :=
  ⟨sortedUnique_strict l, mem_sortedUnique l⟩

noncomputable section

/-- **C07 `_combine_simplices` faces.** Whatever groups the tolerance test produces, every face
is the strictly increasing list of exactly the vertices of the simplices of its group
(`np.unique`), one face per group. -/
theorem combine_simplices_faces (E : List (Eqn ℝ)) (S : List Face) (tol : ℝ) :
    let r := combineSimplices E S tol
    r.1.length = r.2.2.length ∧
    ∀ g, g < r.2.2.length →
      (r.1.getD g []).Pairwise (· < ·) ∧
      ∀ x, x ∈ r.1.getD g [] ↔ ∃ k ∈ r.2.2.getD g [], x ∈ S.getD k [] := by
  simp only [combineSimplices]
  refine ⟨by simp, ?_⟩
  intro g hg
  rw [List.getD_eq_getElem?_getD, List.getElem?_map, List.getElem?_eq_getElem hg]
  simp only [Option.map_some, Option.getD_some]
  refine ⟨sortedUnique_strict _, ?_⟩
  intro x
  rw [mem_sortedUnique, List.mem_flatMap, List.getD_eq_getElem?_getD, List.getElem?_eq_getElem hg]
  simp

end

/-- **C07 merge_faces unions.** The merged face with label `l` consists exactly of the vertices
of the faces carrying that label. -/
theorem merged_faces_union (faces : List Face) (labels : List Nat) (l : Nat)
    (hl : l < (dedup labels).length) (x : Nat) :
    x ∈ (mergedFaces faces labels).getD l [] ↔
      ∃ i, i < faces.length ∧ i < labels.length ∧ labels.getD i 0 = l ∧ x ∈ faces.getD i [] := by
  unfold mergedFaces
  rw [List.getD_eq_getElem?_getD, List.getElem?_map, List.getElem?_range hl]
  simp only [Option.map_some, Option.getD_some, mem_sortedUnique, List.mem_flatMap, List.mem_filter,
    beq_iff_eq]
  constructor
  · rintro ⟨⟨f, lab⟩, ⟨hmem, hlab⟩, hx⟩
    obtain ⟨i, hi, hget⟩ := List.mem_iff_getElem.mp hmem
    have hi' : i < faces.length ∧ i < labels.length := by
      simpa [List.length_zip] using hi
    rw [List.getElem_zip] at hget
    simp only [Prod.mk.injEq] at hget
    refine ⟨i, hi'.1, hi'.2, ?_, ?_⟩
    · rw [List.getD_eq_getElem?_getD, List.getElem?_eq_getElem hi'.2]; simpa [hget.2] using hlab
    · rw [List.getD_eq_getElem?_getD, List.getElem?_eq_getElem hi'.1]; simpa [hget.1] using hx
  · rintro ⟨i, h1, h2, h3, h4⟩
    refine ⟨(faces[i], labels[i]), ⟨?_, ?_⟩, ?_⟩
    · exact List.mem_iff_getElem.mpr ⟨i, by simp [List.length_zip]; omega, by simp [List.getElem_zip]⟩
    · rw [List.getD_eq_getElem?_getD, List.getElem?_eq_getElem h2] at h3; simpa using h3
    · rw [List.getD_eq_getElem?_getD, List.getElem?_eq_getElem h1] at h4; simpa using h4

/-! ### the exact surface certificate implies the clauses of the property -/

noncomputable section

/-- **C07 surface certificate (soundness).** If the decidable certificate `surfaceCert verts faces`
holds — the driver evaluates it EXACTLY over ℚ on the implementation's own faces — then
1. the faces form a closed oriented surface, hence `Polyhedron.edges` lists every edge exactly once
   as `(i<j)`, sorted, and `2·num_edges = Σ|f|` (`edges_once`);
2. every face is a facet of the convex hull of the vertices (`IsHullFacet`: a supporting plane whose
   on-plane input points are exactly the vertices of the face, three of them not collinear);
3. the plane `Polyhedron._find_equations` computes for the face is a unit normal, contains EVERY
   vertex of the face and has every other vertex strictly on its negative (inner) side;
4. Euler's relation `V − E + F = 2` holds with `E = num_edges`, and `ConvexPolyhedron.num_edges`
   (`V + F − 2`) agrees with `Polyhedron.num_edges` (`len(edges)`);
5. every vertex belongs to some face. -/
theorem surface_cert_sound (verts : List (V3 ℝ)) (faces : List Face)
    (hcert : StructSpec.surfaceCert verts faces = true) :
    StructSpec.ClosedOriented faces ∧
    2 * numEdges faces = (faces.map List.length).sum ∧
    (∀ f ∈ faces, StructSpec.IsHullFacet verts f) ∧
    (∀ f ∈ faces,
      let e := Poly3.faceEquation (verts.getD (f.getD 0 0) V3.zero) (verts.getD (f.getD 1 0) V3.zero)
        (verts.getD (f.getD 2 0) V3.zero)
      V3.normSq e.1 = 1 ∧
      (∀ i, i < verts.length → i ∈ f → StructSpec.OnPlane e.1 e.2 (verts.getD i V3.zero)) ∧
      (∀ i, i < verts.length → i ∉ f → V3.dot e.1 (verts.getD i V3.zero) + e.2 < 0)) ∧
    ((verts.length : Int) - (numEdges faces : Int) + (faces.length : Int) = 2) ∧
    numEdgesConvex verts.length faces.length = (numEdges faces : Int) ∧
    (∀ i, i < verts.length → ∃ f ∈ faces, i ∈ f) := by
  unfold StructSpec.surfaceCert at hcert
  simp only [Bool.and_eq_true, List.all_eq_true, decide_eq_true_eq, List.mem_range, List.any_eq_true,
    List.contains_eq_mem] at hcert
  obtain ⟨⟨⟨h1, h2⟩, h3⟩, h4⟩ := hcert
  have hcl := (closedOrientedB_iff faces).mp h1
  have hE := num_edges_half_corners faces hcl
  refine ⟨hcl, hE, ?_, ?_, ?_, ?_, ?_⟩
  · intro f hf
    exact hullFacet_of_cert verts f (h2 f hf).1.1 (h2 f hf).1.2
  · intro f hf
    exact equation_of_cert verts f (h2 f hf).1.1 (h2 f hf).1.2
  · omega
  · unfold numEdgesConvex; omega
  · intro i hi
    obtain ⟨f, hf, hif⟩ := h3 i hi
    exact ⟨f, hf, hif⟩

/-- **C07 certified faces are counter-clockwise seen from outside.** For a face that passes the
certificate and any point `p` strictly on the inner side of its plane (e.g. any interior point of
the solid) the first three vertices appear counter-clockwise from the side opposite to `p`
(`CcwAwayFrom`): the face is listed counter-clockwise as seen from outside. -/
theorem cert_face_ccw_from_inside (verts : List (V3 ℝ)) (f : Face) (p : V3 ℝ)
    (hp : V3.dot (StructSpec.rawNormal (verts.getD (f.getD 0 0) V3.zero) (verts.getD (f.getD 1 0) V3.zero)
        (verts.getD (f.getD 2 0) V3.zero)) (p - verts.getD (f.getD 0 0) V3.zero) < 0) :
    StructSpec.CcwAwayFrom p (verts.getD (f.getD 0 0) V3.zero) (verts.getD (f.getD 1 0) V3.zero)
      (verts.getD (f.getD 2 0) V3.zero) := by
  unfold StructSpec.CcwAwayFrom
  simp only [Scalar.lit, Scalar.ofNat_real, Nat.cast_zero]
  rw [det_eq_dot_raw]
  set m := StructSpec.rawNormal (verts.getD (f.getD 0 0) V3.zero) (verts.getD (f.getD 1 0) V3.zero)
    (verts.getD (f.getD 2 0) V3.zero)
  set v0 := verts.getD (f.getD 0 0) V3.zero
  have : V3.dot m (v0 - p) = -(V3.dot m (p - v0)) := by
    unfold V3.dot; simp only [V3.sub_x, V3.sub_y, V3.sub_z]; ring
  rw [this]; linarith

/-- **C07 a facet in the sense of the certificate is the exposed face `conv(vertices) ∩ plane`**:
all convex combinations of the vertices lie on the non-positive side of its plane, and exactly
those supported on the face's own vertices lie on the plane. -/
theorem hull_facet_is_exposed_face (verts : List (V3 ℝ)) (face : Face)
    (h : StructSpec.IsHullFacet verts face) :
    ∃ (m : V3 ℝ) (d : ℝ), ∀ ws : List ℝ, ws.length = verts.length → (∀ w ∈ ws, 0 ≤ w) → ws.sum = 1 →
      V3.dot m (combo ws verts) + d ≤ 0 ∧
      (V3.dot m (combo ws verts) + d = 0 ↔ ∀ i, i < verts.length → i ∉ face → ws.getD i 0 = 0) :=
  hullFacet_exposed verts face h

/-- the counter-clockwise clause of the certificate, spelled out: every corner of the cycle turns
left about the right-hand normal of its first three vertices -/
theorem cycle_convex_ccw_spec (verts : List (V3 ℝ)) (face : Face)
    (h : StructSpec.cycleConvexCcw verts face = true) :
    3 ≤ face.length ∧ ∀ k, k < face.length →
      let pt := fun k => verts.getD (face.getD (k % face.length) 0) V3.zero
      0 < V3.dot (StructSpec.rawNormal (pt 0) (pt 1) (pt 2))
        (V3.cross (pt (k + 1) - pt k) (pt (k + 2) - pt (k + 1))) := by
  unfold StructSpec.cycleConvexCcw at h
  simp only [Bool.and_eq_true, decide_eq_true_eq, List.all_eq_true, List.mem_range, Scalar.lit,
    Scalar.ofNat_real, Nat.cast_zero] at h
  exact ⟨h.1, fun k hk => h.2 k hk⟩

end

/-! ### `merge_faces`: components of near-coplanar neighbours -/

noncomputable section

/-- **C07 merge graph.** `merge_graph[i, j] = 1` exactly when `j` is a listed neighbour of `i` and
the stored equations agree up to sign within `np.allclose(·, ·, atol, rtol)`. -/
theorem merge_graph_entry (eqs : List (Eqn ℝ)) (nbrs : List (List Nat)) (atol rtol : ℝ) (i j : Nat) :
    (i, j) ∈ mergeGraph eqs nbrs atol rtol ↔
      i < eqs.length ∧ j ∈ nbrs.getD i [] ∧
      (allclose atol rtol (eqs.getD i (V3.zero, Scalar.lit 0)) (eqs.getD j (V3.zero, Scalar.lit 0)) = true ∨
       allclose atol rtol (eqs.getD i (V3.zero, Scalar.lit 0)) (negEqn (eqs.getD j (V3.zero, Scalar.lit 0))) = true) :=
  mem_mergeGraph eqs nbrs atol rtol i j

/-- **C07 `merge_faces` merges exactly the components of near-coplanar neighbours.** Under the
label certificate (`labelsCert`: scipy's labels agree with the model's own labelling and are
closed under the graph — evaluated by the driver on the recorded labels) two faces `i, j` receive
the same label, i.e. end up in the same merged face (`merged_faces_union`), IF AND ONLY IF they are
joined by a chain of faces in which consecutive ones are listed neighbours whose equations are
`allclose` up to sign (`merge_graph_entry`). -/
theorem merge_faces_components (eqs : List (Eqn ℝ)) (nbrs : List (List Nat)) (atol rtol : ℝ)
    (labels : List Nat) (n : Nat)
    (hcert : labelsCert n (mergeGraph eqs nbrs atol rtol) labels = true)
    (i j : Nat) (hi : i < n) (hj : j < n) :
    labels.getD i 0 = labels.getD j 0 ↔ Conn (mergeGraph eqs nbrs atol rtol) i j :=
  labels_iff_conn n _ labels hcert i j hi hj

/-- **C07 tolerance along a merge chain.** `m` consecutive `isclose` steps between values bounded
by `B` only give `|x₀ − x_m| ≤ m·(atol + rtol·B)`: faces of one component are near-coplanar with a
tolerance that grows with the length of the chain, NOT pairwise `allclose`. -/
theorem merge_chain_tolerance (atol rtol B : ℝ) (hr : 0 ≤ rtol) (xs : List ℝ) (x0 : ℝ)
    (hB : ∀ x ∈ xs, |x| ≤ B)
    (hch : List.IsChain (fun a b => isclose a b rtol atol = true) (x0 :: xs)) :
    |x0 - (x0 :: xs).getLast (by simp)| ≤ xs.length * (atol + rtol * B) :=
  isclose_chain atol rtol B hr xs x0 hB hch

/-- **C07 the transitivity caveat is real** (`_fails`-style witness): with the default tolerances
three parallel planes at offsets `0, 1e-8, 2e-8`, neighbours in a row, form one component of the
merge graph (so `merge_faces` unites them) although the outer two are not `allclose`, not even up
to sign. -/
theorem merge_not_pairwise_close :
    let atol : ℝ := 1 / 100000000
    let rtol : ℝ := 1 / 100000
    let e0 : Eqn ℝ := (⟨0, 0, 1⟩, 0)
    let e1 : Eqn ℝ := (⟨0, 0, 1⟩, 1 / 100000000)
    let e2 : Eqn ℝ := (⟨0, 0, 1⟩, 2 / 100000000)
    Conn (mergeGraph [e0, e1, e2] [[1], [0, 2], [1]] atol rtol) 0 2 ∧
    allclose atol rtol e0 e2 = false ∧ allclose atol rtol e0 (negEqn e2) = false := by
  intro atol rtol e0 e1 e2
  obtain ⟨_, _, h3, h4, h5⟩ := allclose_not_transitive
  refine ⟨?_, h3, h4⟩
  rw [h5]
  have h01 : Conn [((0 : Nat), (1 : Nat)), (1, 0), (1, 2), (2, 1)] 0 1 := Conn.edge (by simp)
  exact Conn.step h01 (Or.inl (by simp))

end

/-! ### the angular sort lists a face counter-clockwise -/

noncomputable section

/-- **C07 angular sort, sortedness.** `angularOrder` (the `np.lexsort((distances, angles))` of
`ConvexPolyhedron.sort_faces` and `ConvexPolygon._reorder_verts`) is a permutation of the indices
with non-decreasing relative angle `mod(atan2 − atan2[ref], 2π)`. -/
theorem angular_order_sorted (pts : List (V3 ℝ)) (ref : Nat) :
    (angularOrder pts ref).Pairwise (fun i j => relKey pts ref i ≤ relKey pts ref j) ∧
    (angularOrder pts ref).Perm (List.range pts.length) :=
  angularOrder_sorted pts ref

/-- **C07 the angular sort yields the counter-clockwise cycle (`angular_sort_ccw` of DESIGN P2).**
Let `n` be the face normal, `R` any matrix with `R n = ẑ` and `det R = 1` (the kabsch contract),
`vs` the vertices of the face, `c` their mean. Assume no vertex projects onto `c`, the vertices
are not all on one line through `c`, and no two of them lie on a common ray from `c` (polynomial
conditions; all true for a face in strictly convex position, whose mean is an interior point). Then any two cyclically
consecutive entries `a, b` of the sort order satisfy `det(n, v_a − c, v_b − c) > 0`: seen against
the normal, the edge `v_a → v_b` runs counter-clockwise around the interior point `c` — the face
is listed counter-clockwise as seen from outside. -/
theorem cp_sort_face_ccw (vs : List (V3 ℝ)) (n : V3 ℝ) (R : M3 ℝ)
    (hRn : M3.mulVec R n = ⟨0, 0, 1⟩) (hdet : detM R = 1) (hne : vs ≠ [])
    (hnz : ∀ i, i < vs.length → toC ((alignCentred R vs).getD i V3.zero) ≠ 0)
    (hnc : ∃ i j, i < vs.length ∧ j < vs.length ∧
      cross2 ((alignCentred R vs).getD i V3.zero) ((alignCentred R vs).getD j V3.zero) ≠ 0)
    (hray : ∀ i j, i < vs.length → j < vs.length → i ≠ j →
      cross2 ((alignCentred R vs).getD i V3.zero) ((alignCentred R vs).getD j V3.zero) ≠ 0 ∨
      dot2 ((alignCentred R vs).getD i V3.zero) ((alignCentred R vs).getD j V3.zero) ≤ 0) :
    let order := angularOrder (alignCentred R vs) 0
    let c := mean vs
    (∀ l1 a b l2, order = l1 ++ a :: b :: l2 →
      0 < V3.det3 n (vs.getD a V3.zero - c) (vs.getD b V3.zero - c)) ∧
    (∀ b mid a, order = b :: mid ++ [a] →
      0 < V3.det3 n (vs.getD a V3.zero - c) (vs.getD b V3.zero - c)) := by
  intro order c
  have hlen : (alignCentred R vs).length = vs.length := by simp [alignCentred]
  have hpos : 0 < vs.length := List.length_pos_iff.mpr hne
  obtain ⟨hcx, hcy⟩ := alignCentred_centred R vs hne
  have hget : ∀ k, k < vs.length →
      (alignCentred R vs).getD k V3.zero = M3.mulVec R (vs.getD k V3.zero - c) := by
    intro k hk
    simp [alignCentred, List.getD_eq_getElem?_getD, hk, c]
  have hdist : ∀ i j, i < vs.length → j < vs.length → i ≠ j →
      relKey (alignCentred R vs) 0 i ≠ relKey (alignCentred R vs) 0 j := by
    intro i j hi hj hij heq
    have := same_ray_of_relKey_eq (alignCentred R vs) 0 i j (by rw [hlen]; exact hpos)
      (by rw [hlen]; exact hi) (by rw [hlen]; exact hj) (hnz i hi) (hnz j hj) heq
    rcases hray i j hi hj hij with h | h
    · exact h this.1
    · linarith [this.2]
  have hmain := angular_sort_ccw (alignCentred R vs) 0 (by rw [hlen]; exact hpos)
    (by rw [hlen]; exact hnz) hcx hcy (by rw [hlen]; exact hnc) (by rw [hlen]; exact hdist)
  have hmem : ∀ k, k ∈ order → k < vs.length := by
    intro k hk
    have := (angularOrder_sorted (alignCentred R vs) 0).2.mem_iff.mp hk
    rw [hlen] at this; simpa using this
  constructor
  · intro l1 a b l2 ho
    have ha := hmem a (by rw [ho]; simp)
    have hb := hmem b (by rw [ho]; simp)
    have := hmain.1 l1 a b l2 ho
    rw [hget a ha, hget b hb, cross2_rotated R n _ _ hRn, hdet, one_mul] at this
    exact this
  · intro b mid a ho
    have ha := hmem a (by rw [ho]; simp)
    have hb := hmem b (by rw [ho]; simp)
    have := hmain.2 b mid a ho
    rw [hget a ha, hget b hb, cross2_rotated R n _ _ hRn, hdet, one_mul] at this
    exact this

end

/-! ### glue: `edge_vectors`, `edge_lengths`, `num_edges`, `get_dihedral` -/

noncomputable section

/-- `edge_vectors[k] = vertices[edges[k,1]] − vertices[edges[k,0]]`, `edge_lengths[k]` its norm,
both with one entry per edge -/
theorem edge_lengths_spec (verts : List (V3 ℝ)) (F : List Face) :
    (edgeVectors verts F).length = numEdges F ∧ (edgeLengths verts F).length = numEdges F ∧
    ∀ k, k < numEdges F →
      (edgeVectors verts F).getD k V3.zero =
        verts.getD ((edges F).getD k (0, 0)).2 V3.zero - verts.getD ((edges F).getD k (0, 0)).1 V3.zero ∧
      (edgeLengths verts F).getD k 0 = V3.norm ((edgeVectors verts F).getD k V3.zero) := by
  refine ⟨by simp [edgeVectors, numEdges], by simp [edgeLengths, edgeVectors, numEdges], ?_⟩
  intro k hk
  unfold numEdges at hk
  constructor
  · simp [edgeVectors, List.getD_eq_getElem?_getD, hk]
  · simp [edgeLengths, edgeVectors, List.getD_eq_getElem?_getD, hk]

/-- `ConvexPolyhedron.num_edges` (`V + F − 2`) equals `Polyhedron.num_edges` (`len(edges)`) exactly
when Euler's relation holds for the edge list -/
theorem num_edges_convex_iff_euler (V : Nat) (F : List Face) :
    numEdgesConvex V F.length = (numEdges F : Int) ↔ (V : Int) - (numEdges F : Int) + (F.length : Int) = 2 := by
  unfold numEdgesConvex; omega

/-- `get_dihedral` lies in `[0, π]` -/
theorem dihedral_range (nbrs : List (List Nat)) (normals : List (V3 ℝ)) (a b : Nat) (x : ℝ)
    (h : getDihedral nbrs normals a b = .ok x) : 0 ≤ x ∧ x ≤ Real.pi := by
  unfold getDihedral at h
  split_ifs at h
  simp only [Except.ok.injEq, Scalar.acos_real] at h
  rw [← h]
  exact ⟨Real.arccos_nonneg _, Real.arccos_le_pi _⟩

/-- for unit normals `cos(get_dihedral(a,b)) = −n_a·n_b`: the dihedral is the supplement of the
angle between the outward normals, i.e. the interior angle between the two faces -/
theorem dihedral_cos (nbrs : List (List Nat)) (normals : List (V3 ℝ)) (a b : Nat) (x : ℝ)
    (h : getDihedral nbrs normals a b = .ok x)
    (hb : |V3.dot (normals.getD a V3.zero) (normals.getD b V3.zero)| ≤ 1) :
    Real.cos x = -(V3.dot (normals.getD a V3.zero) (normals.getD b V3.zero)) := by
  unfold getDihedral at h
  split_ifs at h
  simp only [Except.ok.injEq, Scalar.acos_real] at h
  rw [← h]
  have hd : V3.dot (-(normals.getD a V3.zero)) (normals.getD b V3.zero) =
      -(V3.dot (normals.getD a V3.zero) (normals.getD b V3.zero)) := by
    unfold V3.dot; simp only [V3.neg_x, V3.neg_y, V3.neg_z]; ring
  rw [hd]
  set t := V3.dot (normals.getD a V3.zero) (normals.getD b V3.zero)
  have h1 : -1 ≤ -t := by have := (abs_le.mp hb).2; linarith
  have h2 : -t ≤ 1 := by have := (abs_le.mp hb).1; linarith
  have hmax : Scalar.max (-t) (-(Scalar.lit 1 : ℝ)) = -t := by
    unfold Scalar.max
    simp only [Scalar.lit, Scalar.ofNat_real, Nat.cast_one]
    rw [if_neg (by linarith)]
  have hmin : Scalar.min (-t) (Scalar.lit 1 : ℝ) = -t := by
    unfold Scalar.min
    simp only [Scalar.lit, Scalar.ofNat_real, Nat.cast_one]
    rw [if_neg (by linarith)]
  rw [hmax, hmin]
  exact Real.cos_arccos h1 h2

/-- Python index semantics of `get_dihedral`: an `a` outside `[-F, F)` raises `IndexError`, a
negative `a` addresses face `F + a`, a negative `b` is never a neighbour (`ValueError`) -/
theorem dihedral_py_index (nbrs : List (List Nat)) (normals : List (V3 ℝ)) (a b : Int) :
    ((a < -(nbrs.length : Int) ∨ (nbrs.length : Int) ≤ a) → getDihedralPy nbrs normals a b = .error "IndexError") ∧
    (0 ≤ a → a < nbrs.length → 0 ≤ b →
      getDihedralPy nbrs normals a b = getDihedral nbrs normals a.toNat b.toNat) ∧
    (-(nbrs.length : Int) ≤ a → a < 0 → 0 ≤ b →
      getDihedralPy nbrs normals a b = getDihedral nbrs normals (a + nbrs.length).toNat b.toNat) ∧
    (-(nbrs.length : Int) ≤ a → a < nbrs.length → b < 0 → getDihedralPy nbrs normals a b = .error "ValueError") := by
  refine ⟨?_, ?_, ?_, ?_⟩
  · intro h; unfold getDihedralPy; simp only; rw [if_pos h]
  · intro h1 h2 h3
    unfold getDihedralPy; simp only
    rw [if_neg (by omega), if_neg (by omega), if_neg (by omega)]
  · intro h1 h2 h3
    unfold getDihedralPy; simp only
    rw [if_neg (by omega), if_pos h2, if_neg (by omega)]
  · intro h1 h2 h3
    unfold getDihedralPy; simp only
    rw [if_neg (by omega), if_pos h3]

end

/-! ### non-vacuity: the unit cube's face list (as `ConvexPolyhedron` produces it) -/

/-- `cube.faces` of the docstring example in `convex_polyhedron.py` -/
def cubeFaces : List Face :=
  [[0, 2, 6, 4], [0, 4, 5, 1], [4, 6, 7, 5], [0, 1, 3, 2], [2, 3, 7, 6], [1, 5, 7, 3]]

/-- the cube is a closed oriented surface: the hypothesis of `edges_once` is satisfiable -/
theorem cube_closed_oriented : StructSpec.ClosedOriented cubeFaces := by
  constructor <;> decide

example : edges cubeFaces =
    [(0, 1), (0, 2), (0, 4), (1, 3), (1, 5), (2, 3), (2, 6), (3, 7), (4, 5), (4, 6), (5, 7), (6, 7)] := by
  decide

example : 2 * numEdges cubeFaces = 24 ∧ numEdgesConvex 8 cubeFaces.length = numEdges cubeFaces := by decide

/-- `cube.neighbors` of the docstring -/
example : findNeighbors cubeFaces =
    .ok [[1, 2, 3, 4], [0, 2, 3, 5], [0, 1, 4, 5], [0, 1, 4, 5], [0, 2, 3, 5], [1, 2, 3, 4]] := by
  decide

/-- `cube.neighbors` -/
def cubeNeighbors : List (List Nat) :=
  [[1, 2, 3, 4], [0, 2, 3, 5], [0, 1, 4, 5], [0, 1, 4, 5], [0, 2, 3, 5], [1, 2, 3, 4]]

/-- the cube with four faces listed the wrong way round -/
def cubeScrambled : List Face :=
  [[0, 2, 6, 4], [1, 5, 4, 0], [4, 6, 7, 5], [2, 3, 1, 0], [6, 7, 3, 2], [3, 7, 5, 1]]

example : findNeighbors cubeScrambled = .ok cubeNeighbors := by decide

/-- the traversal restores a consistent orientation (here the original one, because face 0 was
kept), empties its stack within the fuel and visits all six faces -/
example : (propagate cubeNeighbors cubeScrambled).faces = cubeFaces ∧
    (propagate cubeNeighbors cubeScrambled).stack = [] ∧
    ∀ k, k < 6 → k ∈ (propagate cubeNeighbors cubeScrambled).visited := by
  decide

/-- the hypotheses of `propagation_orients_all` are satisfiable: the scrambled cube with the
cube's own (outward) orientation as reference -/
theorem cube_ref_orientation : StructSpec.RefOrientation cubeNeighbors cubeScrambled cubeFaces := by
  constructor
  · intro k
    by_cases hk : k < 6
    · have : ∀ k, k < 6 → (cubeFaces.getD k [] = cubeScrambled.getD k [] ∨
          cubeFaces.getD k [] = (cubeScrambled.getD k []).reverse) := by decide
      exact this k hk
    · have h1 : cubeFaces.getD k [] = [] := by
        simp [List.getD_eq_getElem?_getD, List.getElem?_eq_none (show cubeFaces.length ≤ k by simp [cubeFaces]; omega)]
      have h2 : cubeScrambled.getD k [] = [] := by
        simp [List.getD_eq_getElem?_getD, List.getElem?_eq_none (show cubeScrambled.length ≤ k by simp [cubeScrambled]; omega)]
      rw [h1, h2]; exact Or.inl rfl
  · intro u v hv
    by_cases hu : u < 6
    · have : ∀ u, u < 6 → ∀ v ∈ cubeNeighbors.getD u [],
          (commonEdges (cubeFaces.getD u []) (cubeFaces.getD v [])) ≠ [] := by decide
      exact commonEdges_ne_nil.mp (this u hu v hv)
    · have : cubeNeighbors.getD u [] = [] := by
        simp [List.getD_eq_getElem?_getD, List.getElem?_eq_none (show cubeNeighbors.length ≤ u by simp [cubeNeighbors]; omega)]
      rw [this] at hv; simp at hv
  · intro u v hv
    by_cases hu : u < 6
    · have : ∀ u, u < 6 → ∀ v ∈ cubeNeighbors.getD u [],
          ∀ e ∈ StructSpec.dirEdges (cubeFaces.getD v []), e ∉ StructSpec.dirEdges (cubeFaces.getD u []) := by
        decide
      exact this u hu v hv
    · have : cubeNeighbors.getD u [] = [] := by
        simp [List.getD_eq_getElem?_getD, List.getElem?_eq_none (show cubeNeighbors.length ≤ u by simp [cubeNeighbors]; omega)]
      rw [this] at hv; simp at hv

/-- two faces sharing two edges: `_get_face_intersections` asserts -/
example : findNeighbors [[0, 1, 2, 3], [3, 2, 1, 4]] = .error "AssertionError" := by decide

/-- hypotheses of the plane theorems are satisfiable: bottom face of the cube seen from its centre -/
example : StructSpec.CcwAwayFrom (⟨0, 0, 0⟩ : V3 ℝ) ⟨-1, -1, -1⟩ ⟨-1, 1, -1⟩ ⟨1, 1, -1⟩ := by
  unfold StructSpec.CcwAwayFrom; unfold_model; norm_num

/-- `merge_faces`: two triangles of a square with the same label are united -/
example : mergedFaces [[0, 1, 2], [0, 2, 3], [4, 5, 6]] [0, 0, 1] = [[0, 1, 2, 3], [4, 5, 6]] := by decide

/-! ### the certificates as the driver evaluates them: over ℚ -/

noncomputable section

/-- **C07 surface certificate, as evaluated.** The driver computes `surfaceCert` over ℚ on the
implementation's faces and the exact rational values of the (integral) input coordinates; the
certificate only uses `+ − × <`, so its value is that of the real certificate on the same data, and
all clauses of `surface_cert_sound` hold for the real polyhedron. -/
theorem surface_cert_sound_rat (verts : List (V3 ℚ)) (faces : List Face)
    (hcert : StructSpec.surfaceCert verts faces = true) :
    StructSpec.surfaceCert (verts.map castV) faces = true ∧
    StructSpec.ClosedOriented faces ∧
    (∀ f ∈ faces, StructSpec.IsHullFacet (verts.map castV) f) ∧
    ((verts.length : Int) - (numEdges faces : Int) + (faces.length : Int) = 2) := by
  have h : StructSpec.surfaceCert (verts.map castV) faces = true := by rw [surfaceCert_cast]; exact hcert
  have := surface_cert_sound (verts.map castV) faces h
  refine ⟨h, this.1, this.2.2.1, ?_⟩
  have h5 := this.2.2.2.2.1
  simpa using h5

/-- **C07 simplex certificate, as evaluated**: `simplexCert` over ℚ (with `p` = the exact vertex
mean) implies that the model of `_sort_simplices` on the real vertices returns exactly the
certified outward simplices. -/
theorem sort_simplices_outward_rat (verts : List (V3 ℚ)) (start : List Face) (nbrs : List (List Nat))
    (G : List Face) (p : V3 ℚ) (hcert : simplexCert verts start nbrs G p = true) :
    sortSimplices (verts.map castV) start nbrs = G ∧ StructSpec.ClosedOriented G ∧
    0 < CP.signedVolume (G.map (triOf (verts.map castV))) :=
  sort_simplices_outward (verts.map castV) start nbrs G (castV p) (by rw [simplexCert_cast]; exact hcert)

end

/-! ### non-vacuity of the certificate theorems -/

set_option maxRecDepth 8000 in
/-- hypotheses of `propagation_flips_consistently_cert` / `poly_sort_faces_oriented` are
satisfiable: the scrambled cube against the cube's own orientation -/
example : orientCert cubeScrambled cubeFaces = true := by decide

/-- hypothesis of `merge_faces_components` is satisfiable (the graph of `merge_not_pairwise_close`) -/
example : labelsCert 3 [(0, 1), (1, 0), (1, 2), (2, 1)] [0, 0, 0] = true := by decide

/-- … and a labelling that separates a component is rejected -/
example : labelsCert 3 [(0, 1), (1, 0), (1, 2), (2, 1)] [0, 0, 1] = false := by decide

noncomputable section

def tetV : List (V3 ℝ) := [⟨0, 0, 0⟩, ⟨1, 0, 0⟩, ⟨0, 1, 0⟩, ⟨0, 0, 1⟩]
def tetG : List Face := [[0, 2, 1], [0, 1, 3], [1, 2, 3], [0, 3, 2]]
def tetStart : List Face := [[0, 2, 1], [3, 1, 0], [1, 2, 3], [2, 3, 0]]
def tetN : List (List Nat) := [[1, 2, 3], [0, 2, 3], [0, 1, 3], [0, 1, 2]]

theorem tet_outward : StructSpec.outwardFromB tetV ⟨1/4, 1/4, 1/4⟩ tetG = true := by
  simp only [StructSpec.outwardFromB, tetG, tetV, List.all_cons, List.all_nil, List.getD_cons_zero,
    List.getD_cons_succ, Bool.and_true, Bool.and_eq_true, decide_eq_true_eq]
  refine ⟨?_, ?_, ?_, ?_⟩ <;> unfold_model <;> norm_num

/-- hypotheses of `sort_simplices_outward` are satisfiable: a tetrahedron with two simplices reversed -/
example : simplexCert tetV tetStart tetN tetG ⟨1/4, 1/4, 1/4⟩ = true := by
  unfold simplexCert
  have h1 : StructSpec.sameUpToReversalB tetStart tetG = true := by decide
  have h2 : StructSpec.closedOrientedB tetG = true := by decide
  have h3 : nbrsShareB tetN tetStart = true := by decide
  have h4 : visitsAll tetN tetStart = true := by decide
  have h6 : (tetStart.all fun s => s.length == 3) = true := by decide
  have h7 : (!tetG.isEmpty) = true := by decide
  rw [h1, h2, h3, h4, tet_outward, h6, h7]; rfl

/-- hypotheses of `surface_cert_sound` are satisfiable: the tetrahedron passes the exact certificate -/
example : StructSpec.surfaceCert tetV tetG = true := by
  unfold StructSpec.surfaceCert
  have h1 : StructSpec.closedOrientedB tetG = true := by decide
  have h3 : ((List.range tetV.length).all fun i => tetG.any fun f => f.contains i) = true := by
    simp [tetV, tetG, List.range_succ]
  have h4 : decide (2 * (tetV.length + tetG.length) = (tetG.map List.length).sum + 4) = true := by
    simp [tetV, tetG]
  have h2 : (tetG.all fun f => StructSpec.faceWellFormed tetV f && StructSpec.isSupportingFacet tetV f &&
      StructSpec.cycleConvexCcw tetV f) = true := by
    simp only [tetG, List.all_cons, List.all_nil, Bool.and_true, Bool.and_eq_true]
    refine ⟨⟨⟨?_, ?_⟩, ?_⟩, ⟨⟨?_, ?_⟩, ?_⟩, ⟨⟨?_, ?_⟩, ?_⟩, ⟨⟨?_, ?_⟩, ?_⟩⟩
    all_goals
      simp [StructSpec.faceWellFormed, StructSpec.isSupportingFacet, StructSpec.sides,
        StructSpec.cycleConvexCcw, StructSpec.rawNormal, StructSpec.sgn, tetV, V3.cross, V3.dot,
        List.range_succ, Scalar.lit] <;> norm_num
  rw [h1, h2, h3, h4]; rfl

def sqV : List (V3 ℝ) := [⟨1, 0, 0⟩, ⟨0, 1, 0⟩, ⟨-1, 0, 0⟩, ⟨0, -1, 0⟩]
def idM : M3 ℝ := ⟨1, 0, 0, 0, 1, 0, 0, 0, 1⟩

theorem sq_aligned : alignCentred idM sqV = sqV := by
  have hm : mean sqV = ⟨0, 0, 0⟩ := by
    simp [mean, sqV, V3.sum, V3.add, V3.sdiv, V3.zero, Scalar.lit]
  unfold alignCentred
  rw [hm]
  simp [sqV, idM, M3.mulVec, V3.sub_x, V3.sub_y, V3.sub_z]

/-- hypotheses of `cp_sort_face_ccw` are satisfiable: a square face in the `z = 0` plane -/
example : (M3.mulVec idM ⟨0, 0, 1⟩ = (⟨0, 0, 1⟩ : V3 ℝ)) ∧ detM idM = 1 ∧ sqV ≠ [] ∧
    (∀ i, i < sqV.length → toC ((alignCentred idM sqV).getD i V3.zero) ≠ 0) ∧
    (∃ i j, i < sqV.length ∧ j < sqV.length ∧
      cross2 ((alignCentred idM sqV).getD i V3.zero) ((alignCentred idM sqV).getD j V3.zero) ≠ 0) ∧
    (∀ i j, i < sqV.length → j < sqV.length → i ≠ j →
      cross2 ((alignCentred idM sqV).getD i V3.zero) ((alignCentred idM sqV).getD j V3.zero) ≠ 0 ∨
      dot2 ((alignCentred idM sqV).getD i V3.zero) ((alignCentred idM sqV).getD j V3.zero) ≤ 0) := by
  rw [sq_aligned]
  refine ⟨by simp [idM, M3.mulVec], by simp [detM, idM, V3.det3, V3.dot, V3.cross], by simp [sqV], ?_, ?_, ?_⟩
  · intro i hi
    have : i = 0 ∨ i = 1 ∨ i = 2 ∨ i = 3 := by simp [sqV] at hi; omega
    rcases this with rfl | rfl | rfl | rfl <;> simp [sqV, toC_ne_zero_iff]
  · exact ⟨0, 1, by simp [sqV], by simp [sqV], by simp [sqV, cross2]⟩
  · intro i j hi hj hij
    have hi' : i = 0 ∨ i = 1 ∨ i = 2 ∨ i = 3 := by simp [sqV] at hi; omega
    have hj' : j = 0 ∨ j = 1 ∨ j = 2 ∨ j = 3 := by simp [sqV] at hj; omega
    rcases hi' with rfl | rfl | rfl | rfl <;> rcases hj' with rfl | rfl | rfl | rfl <;>
      first | exact absurd rfl hij | (simp [sqV, cross2, dot2])

end

/-! the same certificates over ℚ, evaluated by the kernel exactly as the driver evaluates them -/

def tetVq : List (V3 Rat) := [⟨0, 0, 0⟩, ⟨1, 0, 0⟩, ⟨0, 1, 0⟩, ⟨0, 0, 1⟩]

set_option maxRecDepth 100000 in
/-- hypothesis of `surface_cert_sound_rat` is satisfiable -/
example : StructSpec.surfaceCert tetVq tetG = true := by decide +kernel

set_option maxRecDepth 100000 in
/-- hypothesis of `sort_simplices_outward_rat` is satisfiable -/
example : simplexCert tetVq tetStart tetN tetG ⟨1/4, 1/4, 1/4⟩ = true := by decide +kernel

set_option maxRecDepth 100000 in
/-- a surface with one face listed clockwise is rejected by the certificate -/
example : StructSpec.surfaceCert tetVq [[0, 1, 2], [0, 1, 3], [1, 2, 3], [0, 3, 2]] = false := by decide +kernel
