import CoxeterVerif.Lemmas.Balls
import CoxeterVerif.Lemmas.BallsLstsq
import CoxeterVerif.Lemmas.BallsCert
import CoxeterVerif.Lemmas.BallsRat
import CoxeterVerif.Lemmas.BallsComplete
import CoxeterVerif.Lemmas.BallsAccept
import CoxeterVerif.Lemmas.BallsAcceptComplete
/-!
  # C13 — bounding, bounded, circum- and in-balls satisfy their definitions

  Model: `Model/Balls.lean` (namespace `Balls`), specification: `Spec/Balls.lean` (`BallSpec`).
  All statements are over ℝ, for vertex / face lists of ANY length.
  External results (lstsq solution and residual, miniball result, random rotations) are arguments;
  what the theorems need from them is an explicit hypothesis (checked per run by the harness).
-/
open Balls BallSpec

noncomputable section

/-! ## 1. minimal centred bounding ball -/

/-- **C13 centred bounding.** Whatever `minimal_centered_bounding_sphere/circle` returns is centred at
the given centre, contains every vertex, and no ball with that centre containing all vertices is
smaller (its radius IS the largest centre–vertex distance). -/
theorem min_centered_bounding_spec (verts : List (V3 ℝ)) (c : V3 ℝ) (hne : verts ≠ [])
    {B : Ball ℝ} (h : minimalCenteredBounding verts c = .ok B) :
    B.center = c ∧ IsMinCenteredBounding B.center B.radius verts ∧
      ∃ v ∈ verts, B.radius = dist v c := by
  obtain ⟨hr, hc, _⟩ := mkBall_ok h
  have hne' : verts.map (fun v => V3.norm (v - c)) ≠ [] := by simpa using hne
  have hmem := listMax_mem _ hne'
  obtain ⟨v, hv, hvd⟩ := List.mem_map.mp hmem
  refine ⟨hc, ⟨?_, ?_⟩, v, hv, ?_⟩
  · intro p hp
    rw [hr, hc]
    exact listMax_ge _ _ (List.mem_map.mpr ⟨p, hp, rfl⟩)
  · intro r' hb
    rw [hc] at hb
    have := hb v hv
    rw [hr, ← hvd]; exact this
  · rw [hr, ← hvd]; rfl

/-- it does return a ball as soon as one vertex differs from the centre -/
theorem min_centered_bounding_returns (verts : List (V3 ℝ)) (c : V3 ℝ)
    (h : ∃ v ∈ verts, 0 < dist v c) : ∃ B, minimalCenteredBounding verts c = .ok B := by
  obtain ⟨v, hv, hpos⟩ := h
  have : 0 < listMax (verts.map fun v => V3.norm (v - c)) :=
    lt_of_lt_of_le hpos (listMax_ge _ _ (List.mem_map.mpr ⟨v, hv, rfl⟩))
  exact ⟨_, mkBall_of_pos c this⟩

example : ∃ B, minimalCenteredBounding
      [(⟨0,0,0⟩ : V3 ℝ), ⟨2,0,0⟩, ⟨0,2,0⟩, ⟨0,0,2⟩] ⟨1/2,1/2,1/2⟩ = .ok B := by
  apply min_centered_bounding_returns
  refine ⟨⟨2,0,0⟩, by simp, ?_⟩
  unfold BallSpec.dist
  rw [V3.norm_eq]
  apply Real.sqrt_pos.mpr
  simp only [V3.normSq_eq, V3.sub_x, V3.sub_y, V3.sub_z]; norm_num

/-! ## 2. maximal centred bounded ball (convex polyhedron: half-spaces with unit normals) -/

theorem pointPlaneDistances_mem {eqs : List (V3 ℝ × ℝ)} {c : V3 ℝ} {d : ℝ}
    (h : d ∈ pointPlaneDistances eqs c) : ∃ e ∈ eqs, d = V3.dot c e.1 + e.2 := by
  obtain ⟨e, he, rfl⟩ := List.mem_map.mp h
  exact ⟨e, he, rfl⟩

/-- the point `c + t n` -/
def along (c n : V3 ℝ) (t : ℝ) : V3 ℝ := c + V3.smul t n

theorem along_sub (c n : V3 ℝ) (t : ℝ) : along c n t - c = V3.smul t n := by
  ext <;> simp [along]

theorem dist_along (c n : V3 ℝ) (t : ℝ) (hn : V3.norm n = 1) : dist (along c n t) c = |t| := by
  unfold BallSpec.dist; rw [along_sub, V3.norm_smul, hn, mul_one]

theorem dot_along (c n : V3 ℝ) (t : ℝ) (hn : V3.norm n = 1) :
    V3.dot n (along c n t) = V3.dot c n + t := by
  have h1 : V3.normSq n = 1 := by rw [← V3.norm_mul_self, hn]; ring
  unfold along
  rw [V3.dot_add_right, V3.dot_smul_right, V3.dot_comm n c]
  have : V3.dot n n = 1 := h1
  rw [this]; ring

/-- Cauchy–Schwarz step: a point of the ball `‖p − c‖ ≤ r` is at most `r` further along a unit normal -/
theorem dot_le_of_inBall {n c p : V3 ℝ} {r : ℝ} (hn : V3.norm n = 1) (hp : InBall c r p) :
    V3.dot n p ≤ V3.dot c n + r := by
  have h1 : V3.dot n p = V3.dot c n + V3.dot n (p - c) := by
    rw [V3.dot_sub_right, V3.dot_comm n c]; ring
  have h2 := V3.dot_le_norm_mul n (p - c)
  rw [hn, one_mul] at h2
  unfold InBall BallSpec.dist at hp
  linarith

/-- **C13 centred bounded sphere.** With unit face normals, whatever
`maximal_centered_bounded_sphere` returns is centred at the given centre, lies inside every
half-space (Cauchy–Schwarz), touches the nearest face plane, and every larger concentric ball sticks
out of the body. -/
theorem max_centered_bounded_spec (eqs : List (V3 ℝ × ℝ)) (c : V3 ℝ)
    (hunit : ∀ e ∈ eqs, V3.norm e.1 = 1) (hne : eqs ≠ [])
    {B : Ball ℝ} (h : maximalCenteredBoundedSphere eqs c = .ok B) :
    B.center = c ∧ IsMaxCenteredBounded eqs B.center B.radius := by
  unfold maximalCenteredBoundedSphere at h
  simp only at h
  split at h
  · cases h
  obtain ⟨hr, hc, hpos⟩ := mkBall_ok h
  have hne' : pointPlaneDistances eqs c ≠ [] := by
    unfold pointPlaneDistances; simpa using hne
  obtain ⟨e0, he0, hd0⟩ := pointPlaneDistances_mem (listMax_mem _ hne')
  have hle : ∀ e ∈ eqs, V3.dot c e.1 + e.2 ≤ -B.radius := by
    intro e he
    have := listMax_ge (pointPlaneDistances eqs c) _ (List.mem_map.mpr ⟨e, he, rfl⟩)
    rw [hr]; linarith
  have hrpos : 0 < B.radius := by rw [hr]; exact hpos
  have he0r : V3.dot c e0.1 + e0.2 = -B.radius := by rw [hr, ← hd0]; ring
  refine ⟨hc, ?_, ⟨e0, he0, ?_⟩, ?_⟩
  · -- inside
    intro p hp e he
    rw [hc] at hp
    have := dot_le_of_inBall (hunit e he) hp
    have := hle e he
    simp only [Scalar.lit_real, Nat.cast_zero]; linarith
  · -- touches the nearest plane at c + r n
    refine ⟨along c e0.1 B.radius, ?_, ?_⟩
    · rw [hc]; unfold InBall; rw [dist_along _ _ _ (hunit e0 he0), abs_of_pos hrpos]
    · rw [dot_along _ _ _ (hunit e0 he0)]
      simp only [Scalar.lit_real, Nat.cast_zero]; linarith
  · -- maximal
    intro r' hr' hin
    have hp : InBall B.center r' (along c e0.1 r') := by
      rw [hc]; unfold InBall
      rw [dist_along _ _ _ (hunit e0 he0), abs_of_pos (lt_trans hrpos hr')]
    have := hin _ hp e0 he0
    rw [dot_along _ _ _ (hunit e0 he0)] at this
    simp only [Scalar.lit_real, Nat.cast_zero] at this
    linarith

/-- `maximal_centered_bounded_sphere` raises (always `ValueError`) exactly when the centre is NOT
strictly inside every half-space. -/
theorem max_centered_bounded_raises_iff (eqs : List (V3 ℝ × ℝ)) (c : V3 ℝ) (hne : eqs ≠ []) :
    (∃ e, maximalCenteredBoundedSphere eqs c = .error e) ↔ ∃ e ∈ eqs, 0 ≤ V3.dot c e.1 + e.2 := by
  have hne' : pointPlaneDistances eqs c ≠ [] := by
    unfold pointPlaneDistances; simpa using hne
  unfold maximalCenteredBoundedSphere
  simp only
  constructor
  · rintro ⟨msg, h⟩
    split at h
    · next hany =>
      obtain ⟨d, hd, hdpos⟩ := List.any_eq_true.mp hany
      obtain ⟨e, he, rfl⟩ := pointPlaneDistances_mem hd
      have : (0 : ℝ) < V3.dot c e.1 + e.2 := by simpa using hdpos
      exact ⟨e, he, le_of_lt this⟩
    · obtain ⟨_, hle⟩ := mkBall_error h
      obtain ⟨e0, he0, hd0⟩ := pointPlaneDistances_mem (listMax_mem _ hne')
      exact ⟨e0, he0, by rw [← hd0]; linarith⟩
  · rintro ⟨e, he, hpos⟩
    split
    · exact ⟨_, rfl⟩
    · have hge := listMax_ge (pointPlaneDistances eqs c) _ (List.mem_map.mpr ⟨e, he, rfl⟩)
      have hle : -(listMax (pointPlaneDistances eqs c)) ≤ 0 := by linarith
      unfold mkBall
      rw [if_neg]
      · exact ⟨_, rfl⟩
      · simpa using hle

/-- unit cube `[-1,1]³`: the six unit normals; centre at the origin -/
def c13CubeEqs : List (V3 ℝ × ℝ) :=
  [(⟨1,0,0⟩, -1), (⟨-1,0,0⟩, -1), (⟨0,1,0⟩, -1), (⟨0,-1,0⟩, -1), (⟨0,0,1⟩, -1), (⟨0,0,-1⟩, -1)]

example : ∀ e ∈ c13CubeEqs, V3.norm e.1 = 1 := by
  intro e he
  simp only [c13CubeEqs, List.mem_cons, List.not_mem_nil, or_false] at he
  rcases he with rfl | rfl | rfl | rfl | rfl | rfl <;>
    (rw [V3.norm_eq, V3.normSq_eq]; norm_num)

example : ¬ ∃ e, maximalCenteredBoundedSphere c13CubeEqs ⟨0,0,0⟩ = .error e := by
  rw [max_centered_bounded_raises_iff _ _ (by simp [c13CubeEqs])]
  rintro ⟨e, he, h⟩
  simp only [c13CubeEqs, List.mem_cons, List.not_mem_nil, or_false] at he
  rcases he with rfl | rfl | rfl | rfl | rfl | rfl <;>
    (simp only [V3.dot_eq] at h; norm_num at h)

/-! ## 3. maximal centred bounded circle (convex polygon: distance to the edge LINES) -/

/-- distance from `c` to the line through `a` with unit direction `u`, as the code computes it:
`‖(c − a) × u‖` -/
def lineDist (c a u : V3 ℝ) : ℝ := V3.norm (V3.cross (c - a) u)

theorem line_normSq_split (c a u : V3 ℝ) (t : ℝ) (hu : V3.norm u = 1) :
    V3.normSq (linePoint a u t - c) =
      V3.normSq (V3.cross (c - a) u) + (t - V3.dot (c - a) u) * (t - V3.dot (c - a) u) := by
  have h1 : V3.normSq u = 1 := by rw [← V3.norm_mul_self, hu]; ring
  obtain ⟨cx, cy, cz⟩ := c; obtain ⟨ax, ay, az⟩ := a; obtain ⟨ux, uy, uz⟩ := u
  simp only [V3.normSq_eq] at h1
  simp only [linePoint, V3.normSq_eq, V3.dot_eq, V3.cross, V3.add_x, V3.add_y, V3.add_z, V3.sub_x,
    V3.sub_y, V3.sub_z, V3.smul_x, V3.smul_y, V3.smul_z]
  linear_combination
    (t * t - ((cx - ax) * (cx - ax) + (cy - ay) * (cy - ay) + (cz - az) * (cz - az))) * h1

/-- `‖(c − a) × u‖` really is the distance to the line: no point of the line is closer … -/
theorem lineDist_le (c a u : V3 ℝ) (hu : V3.norm u = 1) (t : ℝ) :
    lineDist c a u ≤ dist (linePoint a u t) c := by
  unfold lineDist BallSpec.dist
  rw [V3.norm_eq, V3.norm_eq]
  apply Real.sqrt_le_sqrt
  rw [line_normSq_split c a u t hu]
  nlinarith [mul_self_nonneg (t - V3.dot (c - a) u)]

/-- … and the foot of the perpendicular attains it -/
theorem lineDist_attained (c a u : V3 ℝ) (hu : V3.norm u = 1) :
    dist (linePoint a u (V3.dot (c - a) u)) c = lineDist c a u := by
  unfold lineDist BallSpec.dist
  rw [V3.norm_eq, V3.norm_eq, line_normSq_split c a u _ hu]
  congr 1; ring

/-- the lines carrying the edges, as the code forms them: through `v_i` with direction
`(v_i − v_{i−1}) / ‖v_i − v_{i−1}‖` -/
def edgeLines (verts : List (V3 ℝ)) : List (V3 ℝ × V3 ℝ) :=
  List.zipWith (fun v1 v2 => (v1, V3.sdiv (v1 - v2) (V3.norm (v1 - v2)))) verts (rollR verts)

theorem edgeDist_zip (c : V3 ℝ) (xs ys : List (V3 ℝ)) :
    List.zipWith (fun p d => V3.norm (V3.cross p d)) (xs.map fun v => c - v)
        ((List.zipWith (fun a b => a - b) xs ys).map fun d => V3.sdiv d (V3.norm d)) =
      (List.zipWith (fun v1 v2 => (v1, V3.sdiv (v1 - v2) (V3.norm (v1 - v2)))) xs ys).map
        fun l => lineDist c l.1 l.2 := by
  induction xs generalizing ys with
  | nil => simp
  | cons x xs ih =>
    cases ys with
    | nil => simp
    | cons y ys =>
      simp only [List.map_cons, List.zipWith_cons_cons, List.cons.injEq]
      exact ⟨rfl, ih ys⟩

theorem edgeLineDistances_eq (verts : List (V3 ℝ)) (c : V3 ℝ) :
    edgeLineDistances verts c = (edgeLines verts).map fun l => lineDist c l.1 l.2 := by
  unfold edgeLineDistances edgeLines
  exact edgeDist_zip c verts (rollR verts)

theorem rollR_length {β : Type} (l : List β) : (rollR l).length = l.length := by
  unfold rollR
  cases h : l.getLast? with
  | none => simp [List.getLast?_eq_none_iff.mp h]
  | some x =>
    have hne : l ≠ [] := by rintro rfl; simp at h
    simp only [List.length_cons, List.length_dropLast]
    have : 0 < l.length := List.length_pos_iff.mpr hne
    omega

theorem edgeLines_ne_nil (verts : List (V3 ℝ)) (hne : verts ≠ []) : edgeLines verts ≠ [] := by
  intro h
  have hl := congrArg List.length h
  unfold edgeLines at hl
  rw [List.length_zipWith, rollR_length, Nat.min_self] at hl
  exact hne (List.length_eq_zero_iff.mp hl)

/-- **C13 centred bounded circle.** For a polygon with distinct consecutive vertices (unit edge
directions), whatever `maximal_centered_bounded_circle` returns is centred at the given centre,
no point of any edge line lies strictly inside it, and it touches the nearest edge line. (For a
convex polygon containing the centre this is the largest concentric circle inside the polygon.) -/
theorem max_centered_bounded_circle_spec (verts : List (V3 ℝ)) (c : V3 ℝ) (hne : verts ≠ [])
    (hunit : ∀ l ∈ edgeLines verts, V3.norm l.2 = 1)
    {B : Ball ℝ} (h : maximalCenteredBoundedCircle verts c = .ok B) :
    B.center = c ∧ IsMaxCenteredBoundedByLines (edgeLines verts) B.center B.radius := by
  unfold maximalCenteredBoundedCircle at h
  obtain ⟨hr, hc, _⟩ := mkBall_ok h
  rw [edgeLineDistances_eq] at hr
  have hne' : (edgeLines verts).map (fun l => lineDist c l.1 l.2) ≠ [] := by
    simpa using edgeLines_ne_nil verts hne
  refine ⟨hc, ?_, ?_⟩
  · intro l hl t
    rw [hr, hc]
    exact le_trans (listMin_le _ _ (List.mem_map.mpr ⟨l, hl, rfl⟩)) (lineDist_le c l.1 l.2 (hunit l hl) t)
  · obtain ⟨l, hl, hd⟩ := List.mem_map.mp (listMin_mem _ hne')
    refine ⟨l, hl, V3.dot (c - l.1) l.2, ?_⟩
    rw [hc, lineDist_attained c l.1 l.2 (hunit l hl), hr, hd]

/-- the unit square, centre (1/2,1/2,0): its four edge directions are unit vectors -/
example : ∀ l ∈ edgeLines [(⟨0,0,0⟩ : V3 ℝ), ⟨1,0,0⟩, ⟨1,1,0⟩, ⟨0,1,0⟩], V3.norm l.2 = 1 := by
  intro l hl
  simp only [edgeLines, rollR, List.getLast?, List.getLast, List.dropLast, List.zipWith_cons_cons,
    List.zipWith_nil_right, List.mem_cons, List.not_mem_nil, or_false] at hl
  rcases hl with rfl | rfl | rfl | rfl <;>
    (apply V3.norm_sdiv_self
     rw [V3.norm_eq, V3.normSq_eq]
     simp only [V3.sub_x, V3.sub_y, V3.sub_z]
     norm_num)

/-! ## 4. circumsphere / circumcircle: the linear system and what its residual means -/

/-- residual of the row of vertex `v`: `(v−v0)·x − |v−v0|²/2 = (|x|² − |v − (x+v0)|²)/2` -/
theorem circum_row_identity (v v0 x : V3 ℝ) (r : ℝ) :
    V3.normSq (v - (x + v0)) - V3.normSq x =
      -2 * (Row.resid ⟨v - v0, Scalar.lit 0, V3.dot (v - v0) (v - v0) / Scalar.lit 2⟩ x r) := by
  obtain ⟨a, b, c⟩ := v; obtain ⟨d, e, f⟩ := v0; obtain ⟨g, h, i⟩ := x
  simp only [Row.resid, V3.normSq_eq, V3.dot_eq, V3.sub_x, V3.sub_y, V3.sub_z, V3.add_x, V3.add_y,
    V3.add_z, Scalar.lit_real]
  push_cast; ring

theorem circumSystemSphere_cons (v0 : V3 ℝ) (rest : List (V3 ℝ)) :
    circumSystemSphere (v0 :: rest) =
      rest.map fun v => ⟨v - v0, Scalar.lit 0, V3.dot (v - v0) (v - v0) / Scalar.lit 2⟩ := by
  simp [circumSystemSphere, circumPoints, List.map_map, Function.comp_def]

theorem normSq_neg_self (x v0 : V3 ℝ) : V3.normSq (v0 - (x + v0)) = V3.normSq x := by
  simp only [V3.normSq_eq, V3.sub_x, V3.sub_y, V3.sub_z, V3.add_x, V3.add_y, V3.add_z]; ring

/-- quantitative form: if the rows of the circum-system have squared residual sum `≤ ε`, then every
vertex satisfies `(‖v − c‖² − r²)² ≤ 4ε` for `c = x + v0`, `r = ‖x‖`. -/
theorem circum_resid_bound (v0 : V3 ℝ) (rest : List (V3 ℝ)) (x : V3 ℝ) (r ε : ℝ)
    (h : sumSq (circumSystemSphere (v0 :: rest)) x r ≤ ε) :
    ∀ v ∈ v0 :: rest,
      (V3.normSq (v - (x + v0)) - V3.normSq x) * (V3.normSq (v - (x + v0)) - V3.normSq x) ≤ 4 * ε := by
  intro v hv
  rcases List.mem_cons.mp hv with rfl | hv
  · rw [normSq_neg_self]; have := sumSq_nonneg (circumSystemSphere (v :: rest)) x r
    nlinarith
  · have hrow : (⟨v - v0, Scalar.lit 0, V3.dot (v - v0) (v - v0) / Scalar.lit 2⟩ : Row ℝ) ∈
        circumSystemSphere (v0 :: rest) := by
      rw [circumSystemSphere_cons]; exact List.mem_map.mpr ⟨v, hv, rfl⟩
    have hb := resid_sq_le_sumSq _ x r _ hrow
    rw [circum_row_identity v v0 x r]
    nlinarith

/-- **C13 circumsphere, exact residual.** An exact solution `x` of the system
`(v_i − v_0)·x = |v_i − v_0|²/2` (zero residual) gives a sphere, centre `x + v_0`, radius `‖x‖`,
passing through EVERY vertex. -/
theorem circum_of_zero_resid (v0 : V3 ℝ) (rest : List (V3 ℝ)) (x : V3 ℝ) (r : ℝ)
    (h : sumSq (circumSystemSphere (v0 :: rest)) x r = 0) :
    IsCircum (x + v0) (V3.norm x) (v0 :: rest) := by
  intro v hv
  have hb := circum_resid_bound v0 rest x r 0 (le_of_eq h) v hv
  have h0 : V3.normSq (v - (x + v0)) - V3.normSq x = 0 := by
    have := mul_self_nonneg (V3.normSq (v - (x + v0)) - V3.normSq x)
    exact mul_self_eq_zero.mp (le_antisymm (by linarith) this)
  unfold BallSpec.dist
  rw [V3.norm_eq, V3.norm_eq]; congr 1; linarith

/-- **C13 circumsphere, converse.** If ANY sphere passes through all the vertices, its centre solves
the system exactly — so the least-squares residual is zero, and a non-zero residual correctly
refutes the existence of a circumsphere. -/
theorem circum_exists_imp_consistent (v0 : V3 ℝ) (rest : List (V3 ℝ)) (c : V3 ℝ) (ρ r : ℝ)
    (h : IsCircum c ρ (v0 :: rest)) : sumSq (circumSystemSphere (v0 :: rest)) (c - v0) r = 0 := by
  rw [sumSq_eq_zero_iff, circumSystemSphere_cons]
  intro row hrow
  obtain ⟨v, hv, rfl⟩ := List.mem_map.mp hrow
  have hv0 := h v0 List.mem_cons_self
  have hvv := h v (List.mem_cons_of_mem _ hv)
  unfold BallSpec.dist at hv0 hvv
  have e0 : V3.normSq (v0 - c) = V3.normSq (v - c) := by
    rw [← V3.norm_mul_self, ← V3.norm_mul_self, hv0, hvv]
  have hid := circum_row_identity v v0 (c - v0) r
  have hc : (c - v0) + v0 = c := V3.sub_add_cancel' c v0
  rw [hc] at hid
  have : V3.normSq (c - v0) = V3.normSq (v0 - c) := V3.normSq_sub_comm _ _
  linarith

theorem circum_refutes (v0 : V3 ℝ) (rest : List (V3 ℝ)) (x : V3 ℝ) (r : ℝ)
    (hmin : IsLstsqMin (circumSystemSphere (v0 :: rest)) x r)
    (hres : sumSq (circumSystemSphere (v0 :: rest)) x r ≠ 0) :
    ¬ ∃ c ρ, IsCircum c ρ (v0 :: rest) := by
  rintro ⟨c, ρ, hc⟩
  have h0 := circum_exists_imp_consistent v0 rest c ρ r hc
  have := hmin (c - v0) r
  rw [h0] at this
  exact hres (le_antisymm this (sumSq_nonneg _ _ _))

/-! the polygon version: one more row, `normal · x = 0`, keeps the centre in the polygon's plane -/

theorem circumSystemCircleScaled_mem {verts : List (V3 ℝ)} {normal : V3 ℝ} {row : Row ℝ} :
    row ∈ circumSystemCircleScaled verts normal ↔
      row ∈ circumSystemSphere verts ∨
        row = ⟨V3.smul (planeRowScale verts) normal, Scalar.lit 0, Scalar.lit 0⟩ := by
  simp [circumSystemCircleScaled]

/-- the tolerance is computed from the right-hand sides, which the rescaling of the plane row (0897fc7)
does not touch: the tail `circumcircle` (stated with the unit-row list) uses the tolerance of the
system that is actually solved -/
theorem circumAtol_scaled (verts : List (V3 ℝ)) (normal : V3 ℝ) :
    circumAtol (circumSystemCircle verts normal) = circumAtol (circumSystemCircleScaled verts normal) := by
  unfold circumAtol circumSystemCircle circumSystemCircleScaled
  simp only [List.map_append, List.map_cons, List.map_nil]

/-- the scale of the plane row is positive as soon as two vertices differ -/
theorem planeRowScale_pos (v0 : V3 ℝ) (rest : List (V3 ℝ)) (hd : ∃ v ∈ rest, v ≠ v0) :
    0 < planeRowScale (v0 :: rest) := by
  obtain ⟨v, hv, hne⟩ := hd
  unfold planeRowScale circumPoints
  have hmem : V3.norm (v - v0) ∈ (rest.map fun v => v - v0).map V3.norm := by
    rw [List.map_map]; exact List.mem_map.mpr ⟨v, hv, rfl⟩
  have hpos : 0 < V3.norm (v - v0) := by
    rcases lt_or_eq_of_le (V3.norm_nonneg (v - v0)) with h | h
    · exact h
    · exfalso
      rw [V3.norm_eq] at h
      have := (Real.sqrt_eq_zero (V3.normSq_nonneg _)).mp h.symm
      exact hne (eq_of_normSq_sub_eq_zero this)
  exact lt_of_lt_of_le hpos (listMax_ge _ _ hmem)

theorem sumSq_append (a b : List (Row ℝ)) (x : V3 ℝ) (r : ℝ) :
    sumSq (a ++ b) x r = sumSq a x r + sumSq b x r := by
  simp [sumSq_eq]

/-- **C13 circumcircle, exact residual.** Zero residual of the polygon system gives a circle through
every vertex whose centre lies in the plane through `v_0` orthogonal to `normal`. -/
theorem planeRow_resid (s : ℝ) (normal x : V3 ℝ) (r : ℝ) :
    (⟨V3.smul s normal, Scalar.lit 0, Scalar.lit 0⟩ : Row ℝ).resid x r = s * V3.dot normal x := by
  simp only [Row.resid, V3.dot_eq, V3.smul_x, V3.smul_y, V3.smul_z, Scalar.lit_real, Nat.cast_zero]; ring

theorem circumcircle_of_zero_resid (v0 : V3 ℝ) (rest : List (V3 ℝ)) (normal x : V3 ℝ) (r : ℝ)
    (hs : planeRowScale (v0 :: rest) ≠ 0)
    (h : sumSq (circumSystemCircleScaled (v0 :: rest) normal) x r = 0) :
    IsCircum (x + v0) (V3.norm x) (v0 :: rest) ∧ InPlane normal v0 (x + v0) := by
  unfold circumSystemCircleScaled at h
  rw [sumSq_append] at h
  have h1 := sumSq_nonneg (circumSystemSphere (v0 :: rest)) x r
  have h2 := sumSq_nonneg [(⟨V3.smul (planeRowScale (v0 :: rest)) normal, Scalar.lit 0, Scalar.lit 0⟩ : Row ℝ)] x r
  have ha : sumSq (circumSystemSphere (v0 :: rest)) x r = 0 := by linarith
  have hb : sumSq [(⟨V3.smul (planeRowScale (v0 :: rest)) normal, Scalar.lit 0, Scalar.lit 0⟩ : Row ℝ)] x r = 0 := by
    linarith
  refine ⟨circum_of_zero_resid v0 rest x r ha, ?_⟩
  have := (sumSq_eq_zero_iff _ x r).mp hb _ List.mem_cons_self
  rw [planeRow_resid] at this
  unfold InPlane
  rw [V3.add_sub_cancel_right']
  rcases mul_eq_zero.mp this with h0 | h0
  · exact absurd h0 hs
  · simpa using h0

/-- converse for polygons: a circle through all vertices with its centre in the polygon's plane
makes the polygon system consistent. -/
theorem circumcircle_exists_imp_consistent (v0 : V3 ℝ) (rest : List (V3 ℝ)) (normal c : V3 ℝ) (ρ r : ℝ)
    (h : IsCircum c ρ (v0 :: rest)) (hp : InPlane normal v0 c) :
    sumSq (circumSystemCircleScaled (v0 :: rest) normal) (c - v0) r = 0 := by
  unfold circumSystemCircleScaled
  rw [sumSq_append, circum_exists_imp_consistent v0 rest c ρ r h, zero_add, sumSq_eq_zero_iff]
  intro row hrow
  rw [List.mem_singleton] at hrow
  subst hrow
  unfold InPlane at hp
  rw [planeRow_resid]
  simp only [Scalar.lit_real, Nat.cast_zero] at hp
  rw [hp, mul_zero]

theorem circumcircle_refutes (v0 : V3 ℝ) (rest : List (V3 ℝ)) (normal x : V3 ℝ) (r : ℝ)
    (hmin : IsLstsqMin (circumSystemCircleScaled (v0 :: rest) normal) x r)
    (hres : sumSq (circumSystemCircleScaled (v0 :: rest) normal) x r ≠ 0) :
    ¬ ∃ c ρ, IsCircum c ρ (v0 :: rest) ∧ InPlane normal v0 c := by
  rintro ⟨c, ρ, hc, hp⟩
  have h0 := circumcircle_exists_imp_consistent v0 rest normal c ρ r hc hp
  have := hmin (c - v0) r
  rw [h0] at this
  exact hres (le_antisymm this (sumSq_nonneg _ _ _))

/-- the cube `{0,1}³`: `x = (1/2,1/2,1/2)` solves its circum-system exactly -/
example : sumSq (circumSystemSphere [(⟨0,0,0⟩ : V3 ℝ), ⟨1,0,0⟩, ⟨0,1,0⟩, ⟨0,0,1⟩, ⟨1,1,0⟩, ⟨1,0,1⟩,
    ⟨0,1,1⟩, ⟨1,1,1⟩]) ⟨1/2,1/2,1/2⟩ 0 = 0 := by
  rw [sumSq_eq_zero_iff, circumSystemSphere_cons]
  intro row hrow
  simp only [List.map_cons, List.map_nil, List.mem_cons, List.not_mem_nil, or_false] at hrow
  rcases hrow with rfl | rfl | rfl | rfl | rfl | rfl | rfl <;>
    (simp only [Row.resid, V3.dot_eq, V3.sub_x, V3.sub_y, V3.sub_z, Scalar.lit_real]; norm_num)

/-! ## 5. the model functions `circumsphere` / `circumcircle` (guard + constructor) -/

theorem residGuard_false {nverts thresh : Nat} {resids : List ℝ} {atol : ℝ}
    (h : residGuard nverts thresh resids atol = .ok false) :
    nverts ≤ thresh ∨ ∃ ρ, resids = [ρ] ∧ |ρ| ≤ atol := by
  unfold residGuard at h
  split at h
  · right
    split at h
    · next ρ =>
      injection h with h
      refine ⟨ρ, rfl, ?_⟩
      rw [← isclose_zero_iff]
      simpa using h
    · cases h
  · left; omega

theorem residGuard_true {nverts thresh : Nat} {resids : List ℝ} {atol : ℝ}
    (h : residGuard nverts thresh resids atol = .ok true) :
    nverts > thresh ∧ ∃ ρ, resids = [ρ] ∧ atol < |ρ| := by
  unfold residGuard at h
  split at h
  · next hn =>
    refine ⟨hn, ?_⟩
    split at h
    · next ρ =>
      injection h with h
      refine ⟨ρ, rfl, ?_⟩
      have hc : isclose ρ (Scalar.lit 0 : ℝ) atol = false := by simpa using h
      by_contra hle
      push Not at hle
      rw [(isclose_zero_iff ρ atol).mpr hle] at hc
      cases hc
    · cases h
  · injection h with h; cases h

theorem residGuard_error {nverts thresh : Nat} {resids : List ℝ} {atol : ℝ} {e : String}
    (h : residGuard nverts thresh resids atol = .error e) : e = "ValueError" := by
  unfold residGuard at h
  split at h
  · split at h
    · cases h
    · injection h with h; exact h.symm
  · cases h

theorem circumBall_ok {thresh : Nat} {verts : List (V3 ℝ)} {rows : List (Row ℝ)} {x : V3 ℝ}
    {resids : List ℝ} {B : Ball ℝ} (h : circumBall thresh verts rows x resids = .ok B) :
    B.radius = V3.norm x ∧ B.center = x + firstVertex verts ∧ 0 < V3.norm x ∧
      (verts.length ≤ thresh ∨ ∃ ρ, resids = [ρ] ∧ |ρ| ≤ circumAtol rows) := by
  unfold circumBall at h
  simp only [bind, Except.bind] at h
  split at h
  · cases h
  · next b hb =>
    cases b with
    | true => simp [throw, throwThe, MonadExceptOf.throw] at h
    | false =>
      simp only [Bool.false_eq_true, ↓reduceIte] at h
      obtain ⟨h1, h2, h3⟩ := mkBall_ok h
      exact ⟨h1, h2, h3, residGuard_false hb⟩

theorem circumBall_runtimeError {thresh : Nat} {verts : List (V3 ℝ)} {rows : List (Row ℝ)} {x : V3 ℝ}
    {resids : List ℝ} (h : circumBall thresh verts rows x resids = .error "RuntimeError") :
    verts.length > thresh ∧ ∃ ρ, resids = [ρ] ∧ circumAtol rows < |ρ| := by
  unfold circumBall at h
  simp only [bind, Except.bind] at h
  split at h
  · next e he =>
    have := residGuard_error he
    injection h with h
    rw [this] at h; exact absurd h (by decide)
  · next b hb =>
    cases b with
    | true => exact residGuard_true hb
    | false =>
      simp only [Bool.false_eq_true, ↓reduceIte] at h
      have := (mkBall_error h).1
      exact absurd this (by decide)

theorem circumAtol_nonneg (rows : List (Row ℝ)) : 0 ≤ circumAtol rows := by
  unfold circumAtol
  simp only [Scalar.q, Scalar.ofNat_real, Scalar.sqr_real]
  have := mul_self_nonneg (listMax (rows.map fun row => row.b))
  positivity

/-- **C13 circumsphere refusal is sound.** If the model raises `RuntimeError` on a residual that is
the least-squares minimum (lstsq contract), then NO sphere passes through all the vertices. -/
theorem circumsphere_refusal_sound (v0 : V3 ℝ) (rest : List (V3 ℝ)) (x : V3 ℝ) (resids : List ℝ)
    (hmin : IsLstsqMin (circumSystemSphere (v0 :: rest)) x 0)
    (hres : ∀ ρ ∈ resids, ρ = sumSq (circumSystemSphere (v0 :: rest)) x 0)
    (h : circumsphere (v0 :: rest) x resids = .error "RuntimeError") :
    ¬ ∃ c ρ, IsCircum c ρ (v0 :: rest) := by
  obtain ⟨_, ρ, hρ, hlt⟩ := circumBall_runtimeError h
  have hρ' := hres ρ (by rw [hρ]; exact List.mem_singleton_self ρ)
  apply circum_refutes v0 rest x 0 hmin
  rw [← hρ']
  intro h0
  rw [h0, abs_zero] at hlt
  exact absurd hlt (not_lt.mpr (circumAtol_nonneg _))

/-- **C13 circumsphere, returned ball.** If the system is solved exactly (zero residual), whatever
`circumsphere` returns is a sphere through every vertex, centre `x + v_0`, radius `‖x‖` … -/
theorem circumsphere_exact (v0 : V3 ℝ) (rest : List (V3 ℝ)) (x : V3 ℝ) (resids : List ℝ)
    (hzero : sumSq (circumSystemSphere (v0 :: rest)) x 0 = 0)
    {B : Ball ℝ} (h : circumsphere (v0 :: rest) x resids = .ok B) :
    IsCircum B.center B.radius (v0 :: rest) := by
  obtain ⟨h1, h2, _, _⟩ := circumBall_ok h
  rw [h1, h2]
  exact circum_of_zero_resid v0 rest x 0 hzero

/-- … and an existing circumsphere is never refused: with the lstsq contract and a zero residual the
model returns (provided the solution is not the degenerate `x = 0`). -/
theorem circumsphere_accepts (verts : List (V3 ℝ)) (x : V3 ℝ) (hx : 0 < V3.norm x) :
    ∃ B, circumsphere verts x [0] = .ok B := by
  unfold circumsphere circumBall
  have hg : residGuard verts.length 4 [(0 : ℝ)] (circumAtol (circumSystemSphere verts)) = .ok false := by
    unfold residGuard
    split
    · have hz := isclose_zero_zero (circumAtol_nonneg (circumSystemSphere verts))
      simp only [hz, Bool.not_true]
    · rfl
  simp only [hg, bind, Except.bind, Bool.false_eq_true, ↓reduceIte]
  exact ⟨_, mkBall_of_pos _ hx⟩

/-- **C13 circumsphere, tolerance (`_partial`).** What is provable about a returned ball from the guard
alone: with the lstsq contract `resids = [‖Ax−b‖²]`, every vertex satisfies
`(‖v − c‖² − r²)² ≤ 4·10⁻⁸·(max_i |v_i−v_0|²/2)²`, i.e. it lies on the sphere up to a relative
`2·10⁻⁴` in squared distance. Missing for the full statement (`IsCircum`): the guard accepts
residuals in `(0, atol]`; inputs that are non-cospherical by less than that margin get a ball that
only nearly passes through the vertices (the property excludes this margin). -/
theorem circumsphere_sound_partial (v0 : V3 ℝ) (rest : List (V3 ℝ)) (x : V3 ℝ) (resids : List ℝ)
    (hlen : 4 < (v0 :: rest).length)
    (hres : ∀ ρ ∈ resids, ρ = sumSq (circumSystemSphere (v0 :: rest)) x 0)
    {B : Ball ℝ} (h : circumsphere (v0 :: rest) x resids = .ok B) :
    ∀ v ∈ v0 :: rest,
      (V3.normSq (v - B.center) - B.radius * B.radius) * (V3.normSq (v - B.center) - B.radius * B.radius)
        ≤ 4 * circumAtol (circumSystemSphere (v0 :: rest)) := by
  obtain ⟨h1, h2, _, hg⟩ := circumBall_ok h
  rcases hg with hle | ⟨ρ, hρ, hle⟩
  · omega
  · have hρ' := hres ρ (by rw [hρ]; exact List.mem_singleton_self ρ)
    have hb : sumSq (circumSystemSphere (v0 :: rest)) x 0 ≤ circumAtol (circumSystemSphere (v0 :: rest)) := by
      rw [← hρ']; exact le_trans (le_abs_self ρ) hle
    intro v hv
    have := circum_resid_bound v0 rest x 0 _ hb v hv
    rw [h1, h2, V3.norm_mul_self]
    simpa [firstVertex] using this

/-- polygon versions -/
theorem circumcircle_refusal_sound (v0 : V3 ℝ) (rest : List (V3 ℝ)) (normal x : V3 ℝ) (resids : List ℝ)
    (hmin : IsLstsqMin (circumSystemCircleScaled (v0 :: rest) normal) x 0)
    (hres : ∀ ρ ∈ resids, ρ = sumSq (circumSystemCircleScaled (v0 :: rest) normal) x 0)
    (h : circumcircle (v0 :: rest) normal x resids = .error "RuntimeError") :
    ¬ ∃ c ρ, IsCircum c ρ (v0 :: rest) ∧ InPlane normal v0 c := by
  obtain ⟨_, ρ, hρ, hlt⟩ := circumBall_runtimeError h
  have hρ' := hres ρ (by rw [hρ]; exact List.mem_singleton_self ρ)
  apply circumcircle_refutes v0 rest normal x 0 hmin
  rw [← hρ']
  intro h0
  rw [h0, abs_zero] at hlt
  exact absurd hlt (not_lt.mpr (circumAtol_nonneg _))

theorem circumcircle_exact (v0 : V3 ℝ) (rest : List (V3 ℝ)) (normal x : V3 ℝ) (resids : List ℝ)
    (hs : planeRowScale (v0 :: rest) ≠ 0)
    (hzero : sumSq (circumSystemCircleScaled (v0 :: rest) normal) x 0 = 0)
    {B : Ball ℝ} (h : circumcircle (v0 :: rest) normal x resids = .ok B) :
    IsCircum B.center B.radius (v0 :: rest) ∧ InPlane normal v0 B.center := by
  obtain ⟨h1, h2, _, _⟩ := circumBall_ok h
  rw [h1, h2]
  exact circumcircle_of_zero_resid v0 rest normal x 0 hs hzero

/-- unit square in the plane z = 0: exact solution `x = (1/2, 1/2, 0)`, so the model returns its
circumcircle -/
example : sumSq (circumSystemCircleScaled [(⟨0,0,0⟩ : V3 ℝ), ⟨1,0,0⟩, ⟨1,1,0⟩, ⟨0,1,0⟩] ⟨0,0,1⟩) ⟨1/2,1/2,0⟩ 0 = 0 := by
  rw [sumSq_eq_zero_iff]
  intro row hrow
  rw [circumSystemCircleScaled_mem, circumSystemSphere_cons] at hrow
  simp only [List.map_cons, List.map_nil, List.mem_cons, List.not_mem_nil, or_false] at hrow
  rcases hrow with (rfl | rfl | rfl) | rfl <;>
    (simp only [Row.resid, V3.dot_eq, V3.sub_x, V3.sub_y, V3.sub_z, V3.smul_x, V3.smul_y, V3.smul_z,
       Scalar.lit_real]; norm_num)

/-! ## 6. insphere / incircle -/

/-- the plane equations `n · p + d ≤ 0` of faces given as (unit outward normal, a vertex on it) -/
def faceEqs (faces : List (V3 ℝ × V3 ℝ)) : List (V3 ℝ × ℝ) :=
  faces.map fun f => (f.1, -(V3.dot f.1 f.2))

/-- **C13 insphere, exact residual.** An exact solution `(c, r)` of the system
`n_i · c + r = n_i · v_i` is at signed distance `−r` from every face plane: tangent to all of them. -/
theorem in_of_zero_resid (faces : List (V3 ℝ × V3 ℝ)) (x : V3 ℝ) (r : ℝ)
    (h : sumSq (inSystemSphere faces) x r = 0) : IsTangentInside (faceEqs faces) x r := by
  rw [sumSq_eq_zero_iff] at h
  intro e he
  obtain ⟨f, hf, rfl⟩ := List.mem_map.mp he
  have := h ⟨f.1, Scalar.lit 1, V3.dot f.1 f.2⟩ (List.mem_map.mpr ⟨f, hf, rfl⟩)
  simp only [Row.resid, Scalar.lit_real, Nat.cast_one, one_mul] at this
  simp only
  linarith

/-- with unit normals and `r ≥ 0`, tangent-from-inside means: the ball lies inside every half-space
and touches every face plane (at `c + r n_i`). -/
theorem tangentInside_spec (eqs : List (V3 ℝ × ℝ)) (c : V3 ℝ) (r : ℝ) (hr : 0 ≤ r)
    (hunit : ∀ e ∈ eqs, V3.norm e.1 = 1) (ht : IsTangentInside eqs c r) :
    BallInside eqs c r ∧ ∀ e ∈ eqs, TouchesPlane e c r := by
  constructor
  · intro p hp e he
    have h1 := dot_le_of_inBall (hunit e he) hp
    have h2 := ht e he
    rw [V3.dot_comm] at h2
    simp only [Scalar.lit_real, Nat.cast_zero]; linarith
  · intro e he
    refine ⟨along c e.1 r, ?_, ?_⟩
    · unfold InBall; rw [dist_along _ _ _ (hunit e he), abs_of_nonneg hr]
    · have h2 := ht e he
      rw [V3.dot_comm] at h2
      rw [dot_along _ _ _ (hunit e he)]
      simp only [Scalar.lit_real, Nat.cast_zero]; linarith

/-- **C13 insphere, converse.** If a ball tangent to every face plane from inside exists, its centre
and radius solve the system exactly, so a non-zero least-squares residual refutes existence. -/
theorem in_exists_imp_consistent (faces : List (V3 ℝ × V3 ℝ)) (c : V3 ℝ) (ρ : ℝ)
    (h : IsTangentInside (faceEqs faces) c ρ) : sumSq (inSystemSphere faces) c ρ = 0 := by
  rw [sumSq_eq_zero_iff]
  intro row hrow
  obtain ⟨f, hf, rfl⟩ := List.mem_map.mp hrow
  have := h (f.1, -(V3.dot f.1 f.2)) (List.mem_map.mpr ⟨f, hf, rfl⟩)
  simp only [Row.resid, Scalar.lit_real, Nat.cast_one, one_mul]
  simp only at this
  linarith

theorem in_refutes (faces : List (V3 ℝ × V3 ℝ)) (x : V3 ℝ) (r : ℝ)
    (hmin : IsLstsqMin (inSystemSphere faces) x r) (hres : sumSq (inSystemSphere faces) x r ≠ 0) :
    ¬ ∃ c ρ, IsTangentInside (faceEqs faces) c ρ := by
  rintro ⟨c, ρ, hc⟩
  have h0 := in_exists_imp_consistent faces c ρ hc
  have := hmin c ρ
  rw [h0] at this
  exact hres (le_antisymm this (sumSq_nonneg _ _ _))

/-- the edges of the polygon as (outward normal, vertex) pairs, with the normals the code builds -/
def edgeFaces (verts : List (V3 ℝ)) (normal : V3 ℝ) (signedArea : ℝ) : List (V3 ℝ × V3 ℝ) :=
  List.zip (outwardNormals verts normal signedArea) verts

theorem inSystemCircle_eq (verts : List (V3 ℝ)) (normal : V3 ℝ) (sa : ℝ) :
    inSystemCircle verts normal sa =
      inSystemSphere (edgeFaces verts normal sa) ++
        [⟨normal, Scalar.lit 0, V3.dot normal (firstVertex verts)⟩] := by
  unfold inSystemCircle inSystemSphere edgeFaces
  congr 1
  rw [List.zip, List.map_zipWith]

/-- **C13 incircle, exact residual.** Zero residual of the polygon system: tangent to every edge
line (signed distance `−r` w.r.t. the code's edge normals) and centred in the polygon's plane. -/
theorem incircle_of_zero_resid (verts : List (V3 ℝ)) (normal : V3 ℝ) (sa : ℝ) (x : V3 ℝ) (r : ℝ)
    (h : sumSq (inSystemCircle verts normal sa) x r = 0) :
    IsTangentInside (faceEqs (edgeFaces verts normal sa)) x r ∧ InPlane normal (firstVertex verts) x := by
  rw [inSystemCircle_eq, sumSq_append] at h
  have h1 := sumSq_nonneg (inSystemSphere (edgeFaces verts normal sa)) x r
  have h2 := sumSq_nonneg [(⟨normal, Scalar.lit 0, V3.dot normal (firstVertex verts)⟩ : Row ℝ)] x r
  refine ⟨in_of_zero_resid _ x r (by linarith), ?_⟩
  have hb : sumSq [(⟨normal, Scalar.lit 0, V3.dot normal (firstVertex verts)⟩ : Row ℝ)] x r = 0 := by
    linarith
  have := (sumSq_eq_zero_iff _ x r).mp hb _ List.mem_cons_self
  unfold InPlane
  rw [V3.dot_sub_right]
  simp only [Row.resid, Scalar.lit_real, Nat.cast_zero, zero_mul, add_zero] at this
  simpa using this

theorem incircle_exists_imp_consistent (verts : List (V3 ℝ)) (normal : V3 ℝ) (sa : ℝ) (c : V3 ℝ) (ρ : ℝ)
    (h : IsTangentInside (faceEqs (edgeFaces verts normal sa)) c ρ)
    (hp : InPlane normal (firstVertex verts) c) :
    sumSq (inSystemCircle verts normal sa) c ρ = 0 := by
  rw [inSystemCircle_eq, sumSq_append, in_exists_imp_consistent _ c ρ h, zero_add, sumSq_eq_zero_iff]
  intro row hrow
  rw [List.mem_singleton] at hrow
  subst hrow
  unfold InPlane at hp
  rw [V3.dot_sub_right] at hp
  simp only [Row.resid, Scalar.lit_real, Nat.cast_zero, zero_mul, add_zero]
  simpa using hp

/-! the model functions -/

theorem inBall_ok {thresh : Nat} {verts : List (V3 ℝ)} {x : V3 ℝ} {r : ℝ}
    {resids : List ℝ} {B : Ball ℝ} (h : inBall thresh verts x r resids = .ok B) :
    B.radius = r ∧ B.center = x ∧ 0 < r := by
  unfold inBall at h
  simp only [bind, Except.bind] at h
  split at h
  · cases h
  · next b hb =>
    cases b with
    | true => simp [throw, throwThe, MonadExceptOf.throw] at h
    | false =>
      simp only [Bool.false_eq_true, ↓reduceIte] at h
      exact mkBall_ok h

theorem inBall_runtimeError {thresh : Nat} {verts : List (V3 ℝ)} {x : V3 ℝ} {r : ℝ}
    {resids : List ℝ} (h : inBall thresh verts x r resids = .error "RuntimeError") :
    verts.length > thresh ∧ ∃ ρ, resids = [ρ] ∧ Scalar.q 1 100000000 * Scalar.sqr (extent verts) < |ρ| := by
  unfold inBall at h
  simp only [bind, Except.bind] at h
  split at h
  · next e he =>
    have := residGuard_error he
    injection h with h
    rw [this] at h; exact absurd h (by decide)
  · next b hb =>
    cases b with
    | true => exact residGuard_true hb
    | false =>
      simp only [Bool.false_eq_true, ↓reduceIte] at h
      have := (mkBall_error h).1
      exact absurd this (by decide)

theorem inAtol_nonneg (verts : List (V3 ℝ)) :
    (0 : ℝ) ≤ Scalar.q 1 100000000 * Scalar.sqr (extent verts) := by
  simp only [Scalar.q, Scalar.ofNat_real, Scalar.sqr_real]
  have := mul_self_nonneg (extent verts)
  positivity

/-- **C13 insphere refusal is sound.** `RuntimeError` on a least-squares-minimal residual means no
ball is tangent to all face planes. -/
theorem insphere_refusal_sound (verts : List (V3 ℝ)) (faces : List (V3 ℝ × V3 ℝ)) (x : V3 ℝ) (r : ℝ)
    (resids : List ℝ) (hmin : IsLstsqMin (inSystemSphere faces) x r)
    (hres : ∀ ρ ∈ resids, ρ = sumSq (inSystemSphere faces) x r)
    (h : insphere verts x r resids = .error "RuntimeError") :
    ¬ ∃ c ρ, IsTangentInside (faceEqs faces) c ρ := by
  obtain ⟨_, ρ, hρ, hlt⟩ := inBall_runtimeError h
  have hρ' := hres ρ (by rw [hρ]; exact List.mem_singleton_self ρ)
  apply in_refutes faces x r hmin
  rw [← hρ']
  intro h0
  rw [h0, abs_zero] at hlt
  exact absurd hlt (not_lt.mpr (inAtol_nonneg _))

/-- **C13 insphere, returned ball.** With an exactly solved system and unit normals, whatever
`insphere` returns lies inside every half-space and is tangent to every face plane. -/
theorem insphere_exact (verts : List (V3 ℝ)) (faces : List (V3 ℝ × V3 ℝ)) (x : V3 ℝ) (r : ℝ)
    (resids : List ℝ) (hunit : ∀ f ∈ faces, V3.norm f.1 = 1)
    (hzero : sumSq (inSystemSphere faces) x r = 0)
    {B : Ball ℝ} (h : insphere verts x r resids = .ok B) :
    IsTangentInside (faceEqs faces) B.center B.radius ∧ BallInside (faceEqs faces) B.center B.radius ∧
      ∀ e ∈ faceEqs faces, TouchesPlane e B.center B.radius := by
  obtain ⟨h1, h2, h3⟩ := inBall_ok h
  rw [h1, h2]
  have ht := in_of_zero_resid faces x r hzero
  have hu : ∀ e ∈ faceEqs faces, V3.norm e.1 = 1 := by
    intro e he
    obtain ⟨f, hf, rfl⟩ := List.mem_map.mp he
    exact hunit f hf
  exact ⟨ht, tangentInside_spec _ x r (le_of_lt h3) hu ht⟩

theorem incircle_refusal_sound (verts : List (V3 ℝ)) (normal : V3 ℝ) (sa : ℝ) (x : V3 ℝ) (r : ℝ)
    (resids : List ℝ) (hmin : IsLstsqMin (inSystemCircle verts normal sa) x r)
    (hres : ∀ ρ ∈ resids, ρ = sumSq (inSystemCircle verts normal sa) x r)
    (h : incircle verts x r resids = .error "RuntimeError") :
    ¬ ∃ c ρ, IsTangentInside (faceEqs (edgeFaces verts normal sa)) c ρ ∧
        InPlane normal (firstVertex verts) c := by
  obtain ⟨_, ρ, hρ, hlt⟩ := inBall_runtimeError h
  have hρ' := hres ρ (by rw [hρ]; exact List.mem_singleton_self ρ)
  rintro ⟨c, ρ', hc, hp⟩
  have h0 := incircle_exists_imp_consistent verts normal sa c ρ' hc hp
  have hm := hmin c ρ'
  rw [h0] at hm
  have hz : sumSq (inSystemCircle verts normal sa) x r = 0 := le_antisymm hm (sumSq_nonneg _ _ _)
  rw [← hρ'] at hz
  rw [hz, abs_zero] at hlt
  exact absurd hlt (not_lt.mpr (inAtol_nonneg _))

theorem incircle_exact (verts : List (V3 ℝ)) (normal : V3 ℝ) (sa : ℝ) (x : V3 ℝ) (r : ℝ)
    (resids : List ℝ) (hunit : ∀ f ∈ edgeFaces verts normal sa, V3.norm f.1 = 1)
    (hzero : sumSq (inSystemCircle verts normal sa) x r = 0)
    {B : Ball ℝ} (h : incircle verts x r resids = .ok B) :
    IsTangentInside (faceEqs (edgeFaces verts normal sa)) B.center B.radius ∧
      BallInside (faceEqs (edgeFaces verts normal sa)) B.center B.radius ∧
      InPlane normal (firstVertex verts) B.center := by
  obtain ⟨h1, h2, h3⟩ := inBall_ok h
  rw [h1, h2]
  obtain ⟨ht, hp⟩ := incircle_of_zero_resid verts normal sa x r hzero
  have hu : ∀ e ∈ faceEqs (edgeFaces verts normal sa), V3.norm e.1 = 1 := by
    intro e he
    obtain ⟨f, hf, rfl⟩ := List.mem_map.mp he
    exact hunit f hf
  exact ⟨ht, (tangentInside_spec _ x r (le_of_lt h3) hu ht).1, hp⟩

/-- the cube `[-1,1]³` (faces as (normal, vertex)): `(c, r) = (0, 1)` solves the in-system exactly -/
example : sumSq (inSystemSphere [((⟨1,0,0⟩ : V3 ℝ), (⟨1,1,1⟩ : V3 ℝ)), (⟨-1,0,0⟩, ⟨-1,1,1⟩),
    (⟨0,1,0⟩, ⟨1,1,1⟩), (⟨0,-1,0⟩, ⟨1,-1,1⟩), (⟨0,0,1⟩, ⟨1,1,1⟩), (⟨0,0,-1⟩, ⟨1,1,-1⟩)]) ⟨0,0,0⟩ 1 = 0 := by
  rw [sumSq_eq_zero_iff]
  intro row hrow
  simp only [inSystemSphere, List.map_cons, List.map_nil, List.mem_cons, List.not_mem_nil, or_false] at hrow
  rcases hrow with rfl | rfl | rfl | rfl | rfl | rfl <;>
    (simp only [Row.resid, V3.dot_eq, Scalar.lit_real]; norm_num)

/-! ## 7. minimal bounding ball: the optimality certificate of a miniball result -/

/-- **C13 minimality certificate.** A ball that contains all the points and whose centre is a convex
combination of points at distance exactly `r` (`Balls.IsCertificate`, Lemmas/BallsCert.lean) is THE
minimal enclosing ball: every ball containing the points has radius `≥ r`
(`Σλᵢ‖pᵢ−c'‖² = r² + ‖c−c'‖² ≥ r²`). -/
theorem miniball_optimal (pts : List (V3 ℝ)) (c : V3 ℝ) (r : ℝ) (sup : List (ℝ × V3 ℝ))
    (h : IsCertificate pts c r sup) : IsMinimalBounding c r pts :=
  certificate_optimal pts c r sup h

/-- two antipodal points: the certificate `½·p + ½·q` of the ball on the segment as diameter -/
example : IsCertificate [(⟨1,0,0⟩ : V3 ℝ), ⟨-1,0,0⟩, ⟨0,1/2,0⟩] ⟨0,0,0⟩ 1
    [(1/2, ⟨1,0,0⟩), (1/2, ⟨-1,0,0⟩)] := by
  have n1 : ∀ a b c : ℝ, a * a + b * b + c * c = 1 → V3.norm (⟨a, b, c⟩ - (⟨0,0,0⟩ : V3 ℝ)) = 1 := by
    intro a b c h
    rw [V3.norm_eq, V3.normSq_eq]; simp only [V3.sub_x, V3.sub_y, V3.sub_z, sub_zero]
    rw [h, Real.sqrt_one]
  refine ⟨?_, ?_, ?_, ?_, ?_, ?_⟩
  · intro p hp
    simp only [List.mem_cons, List.not_mem_nil, or_false] at hp
    unfold InBall BallSpec.dist
    rcases hp with rfl | rfl | rfl
    · rw [n1 _ _ _ (by norm_num)]
    · rw [n1 _ _ _ (by norm_num)]
    · rw [V3.norm_le_iff _ (by norm_num)]; simp only [V3.normSq_eq, V3.sub_x, V3.sub_y, V3.sub_z]; norm_num
  · intro s hs
    simp only [List.mem_cons, List.not_mem_nil, or_false] at hs
    rcases hs with rfl | rfl <;> simp
  · intro s hs
    simp only [List.mem_cons, List.not_mem_nil, or_false] at hs
    unfold BallSpec.dist
    rcases hs with rfl | rfl <;> exact n1 _ _ _ (by norm_num)
  · intro s hs
    simp only [List.mem_cons, List.not_mem_nil, or_false] at hs
    rcases hs with rfl | rfl <;> norm_num
  · simp only [List.map_cons, List.map_nil, List.sum_cons, List.sum_nil]; norm_num
  · ext <;> simp [V3.sum, V3.add, V3.smul, V3.zero, Scalar.lit]

/-! ## 8. the retry loop around miniball, and rotating the centre back -/

/-- the vertex list the `k`-th attempt (`k = 1, 2, …`) hands to miniball: the original vertices,
then the ORIGINAL vertices under the rotation drawn after attempt `k − 1` -/
def seenAt (rand : Nat → Quat ℝ) (V : List (V3 ℝ)) (k : Nat) : List (V3 ℝ) :=
  if k = 1 then V else V.map (Quat.rotate (rand (k - 1)))

/-- `current_rotation` during the `k`-th attempt -/
def rotAt (rand : Nat → Quat ℝ) (k : Nat) : Quat ℝ := if k = 1 then Quat.one else rand (k - 1)

theorem seenAt_eq_map (rand : Nat → Quat ℝ) (V : List (V3 ℝ)) (k : Nat) :
    seenAt rand V k = V.map (Quat.rotate (rotAt rand k)) := by
  unfold seenAt rotAt
  split
  · have : (Quat.rotate (Quat.one : Quat ℝ)) = id := by funext v; exact rotate_one v
    rw [this, List.map_id]
  · rfl

/-- **C13 retry loop, success.** If the loop returns, it returns the result of the FIRST attempt on
which miniball did not fail, together with the rotation in force during that attempt. -/
theorem mbLoop_ok (mb : Nat → List (V3 ℝ) → Option (V3 ℝ × ℝ)) (rand : Nat → Quat ℝ) (V : List (V3 ℝ))
    (fuel attempt : Nat) (c : V3 ℝ) (r2 : ℝ) (q : Quat ℝ)
    (h : mbLoop mb rand V fuel attempt (rotAt rand (attempt + 1)) (seenAt rand V (attempt + 1))
      = .ok (c, r2, q)) :
    ∃ k, attempt < k ∧ k ≤ attempt + fuel ∧ mb k (seenAt rand V k) = some (c, r2) ∧ q = rotAt rand k ∧
      ∀ j, attempt < j → j < k → mb j (seenAt rand V j) = none := by
  induction fuel generalizing attempt with
  | zero => simp [mbLoop] at h
  | succ fuel ih =>
    unfold mbLoop at h
    simp only at h
    split at h
    · next c' r2' hs =>
      injection h with h
      injection h with h1 h23
      injection h23 with h2 h3
      subst h1 h2 h3
      exact ⟨attempt + 1, by omega, by omega, hs, rfl, fun j h1 h2 => by omega⟩
    · next hn =>
      have e1 : rand (attempt + 1) = rotAt rand (attempt + 1 + 1) := by simp [rotAt]
      have e2 : V.map (Quat.rotate (rotAt rand (attempt + 1 + 1))) = seenAt rand V (attempt + 1 + 1) := by
        simp [seenAt, rotAt]
      rw [e1, e2] at h
      obtain ⟨k, hk1, hk2, hk3, hk4, hk5⟩ := ih (attempt + 1) h
      refine ⟨k, by omega, by omega, hk3, hk4, ?_⟩
      intro j hj1 hj2
      by_cases hj : j = attempt + 1
      · rw [hj]; exact hn
      · exact hk5 j (by omega) hj2

/-- **C13 retry loop, failure.** The loop raises — always `RuntimeError` — if and only if miniball
failed on ALL the remaining attempts (in particular a success on the last allowed attempt is
returned, not discarded). -/
theorem mbLoop_error_iff (mb : Nat → List (V3 ℝ) → Option (V3 ℝ × ℝ)) (rand : Nat → Quat ℝ)
    (V : List (V3 ℝ)) (fuel attempt : Nat) (e : String) :
    mbLoop mb rand V fuel attempt (rotAt rand (attempt + 1)) (seenAt rand V (attempt + 1)) = .error e ↔
      e = "RuntimeError" ∧ ∀ k, attempt < k → k ≤ attempt + fuel → mb k (seenAt rand V k) = none := by
  induction fuel generalizing attempt with
  | zero =>
    simp only [mbLoop, Except.error.injEq, Nat.add_zero]
    constructor
    · intro h; exact ⟨h.symm, fun k h1 h2 => by omega⟩
    · intro h; exact h.1.symm
  | succ fuel ih =>
    unfold mbLoop
    simp only
    have e1 : rand (attempt + 1) = rotAt rand (attempt + 1 + 1) := by simp [rotAt]
    have e2 : V.map (Quat.rotate (rotAt rand (attempt + 1 + 1))) = seenAt rand V (attempt + 1 + 1) := by
      simp [seenAt, rotAt]
    split
    · next c' r2' hs =>
      constructor
      · intro h; cases h
      · intro h
        have := h.2 (attempt + 1) (by omega) (by omega)
        rw [hs] at this; cases this
    · next hn =>
      rw [e1, e2, ih (attempt + 1)]
      constructor
      · rintro ⟨he, hall⟩
        refine ⟨he, fun k h1 h2 => ?_⟩
        by_cases hk : k = attempt + 1
        · rw [hk]; exact hn
        · exact hall k (by omega) (by omega)
      · rintro ⟨he, hall⟩
        exact ⟨he, fun k h1 h2 => hall k (by omega) (by omega)⟩

/-- rotating back: if `(c, r)` is the minimal bounding ball of the rotated points, then
`(rotate(conj q, c), r)` is the minimal bounding ball of the original points (unit `q`). -/
theorem minimalBounding_rotate_back {q : Quat ℝ} (hq : Quat.normSq q = 1) (V : List (V3 ℝ))
    (c : V3 ℝ) (r : ℝ) (h : IsMinimalBounding c r (V.map (Quat.rotate q))) :
    IsMinimalBounding (Quat.rotate (Quat.conj q) c) r V := by
  constructor
  · intro v hv
    have := h.1 (Quat.rotate q v) (List.mem_map.mpr ⟨v, hv, rfl⟩)
    unfold InBall BallSpec.dist at this ⊢
    rw [← norm_rotate_sub hq, rotate_rotate_conj_unit hq]
    exact this
  · intro c' r' hb
    apply h.2 (Quat.rotate q c') r'
    intro p hp
    obtain ⟨v, hv, rfl⟩ := List.mem_map.mp hp
    have := hb v hv
    unfold InBall BallSpec.dist at this ⊢
    rw [norm_rotate_sub hq]
    exact this

theorem rotAt_unit (rand : Nat → Quat ℝ) (hrand : ∀ k, Quat.normSq (rand k) = 1) (k : Nat) :
    Quat.normSq (rotAt rand k) = 1 := by
  unfold rotAt; split
  · exact normSq_one
  · exact hrand _

/-- **C13 minimal bounding ball.** Contracts: every random rotation is a unit quaternion, and whenever
miniball returns `(c, r²)` for a point list, `(c, √r²)` is the minimal enclosing ball of THAT list
(checked per run through `miniball_optimal`). Then whatever `minimal_bounding_sphere/circle`
returns contains every vertex of the shape and is the smallest such ball — no matter how many
attempts failed before. -/
theorem minimal_bounding_spec (mb : Nat → List (V3 ℝ) → Option (V3 ℝ × ℝ)) (rand : Nat → Quat ℝ)
    (V : List (V3 ℝ)) (hrand : ∀ k, Quat.normSq (rand k) = 1)
    (hmb : ∀ k P c r2, mb k P = some (c, r2) → IsMinimalBounding c (Real.sqrt r2) P)
    {B : Ball ℝ} (h : minimalBoundingWith mb rand V = .ok B) :
    IsMinimalBounding B.center B.radius V := by
  unfold minimalBoundingWith at h
  simp only [bind, Except.bind] at h
  split at h
  · cases h
  · next res hres =>
    obtain ⟨c, r2, q⟩ := res
    simp only at h
    obtain ⟨h1, h2, _⟩ := mkBall_ok h
    have h0 : mbLoop mb rand V maxAttempts 0 (rotAt rand (0 + 1)) (seenAt rand V (0 + 1)) = .ok (c, r2, q) := by
      simpa [rotAt, seenAt] using hres
    obtain ⟨k, _, _, hk, hq, _⟩ := mbLoop_ok mb rand V maxAttempts 0 c r2 q h0
    have hmin := hmb k _ c r2 hk
    rw [seenAt_eq_map, ← hq] at hmin
    have hunit : Quat.normSq q = 1 := by rw [hq]; exact rotAt_unit rand hrand k
    rw [h1, h2]
    exact minimalBounding_rotate_back hunit V c _ hmin

/-- it raises `RuntimeError` exactly when all `max_attempts = 50` attempts failed -/
theorem minimal_bounding_raises_iff (mb : Nat → List (V3 ℝ) → Option (V3 ℝ × ℝ)) (rand : Nat → Quat ℝ)
    (V : List (V3 ℝ)) :
    minimalBoundingWith mb rand V = .error "RuntimeError" ↔
      ∀ k, 1 ≤ k → k ≤ 50 → mb k (seenAt rand V k) = none := by
  have key := mbLoop_error_iff mb rand V maxAttempts 0 "RuntimeError"
  have e0 : mbLoop mb rand V maxAttempts 0 (rotAt rand (0 + 1)) (seenAt rand V (0 + 1)) =
      mbLoop mb rand V maxAttempts 0 Quat.one V := by simp [rotAt, seenAt]
  rw [e0] at key
  unfold minimalBoundingWith
  simp only [bind, Except.bind]
  constructor
  · intro h
    split at h
    · next e he =>
      injection h with h; subst h
      have := (key.mp he).2
      intro k h1 h2
      exact this k (by omega) (by simpa [maxAttempts] using h2)
    · next res hres =>
      obtain ⟨c, r2, q⟩ := res
      simp only at h
      exact absurd (mkBall_error h).1 (by decide)
  · intro h
    have := key.mpr ⟨rfl, fun k h1 h2 => h k (by omega) (by simpa [maxAttempts] using h2)⟩
    rw [this]

/-- a run in which the first FORTY-NINE attempts fail and the fiftieth (last allowed) succeeds returns a
ball (the regression of a5ff83d: the old code raised when the last attempt succeeded) -/
example : ∃ B, minimalBoundingWith (fun k _ => if k < 50 then none else some ((⟨0,0,0⟩ : V3 ℝ), (1 : ℝ)))
    (fun _ => Quat.one) [(⟨1,0,0⟩ : V3 ℝ), ⟨-1,0,0⟩] = .ok B := by
  refine ⟨⟨1, Quat.rotate (Quat.conj Quat.one) ⟨0,0,0⟩⟩, ?_⟩
  simp [minimalBoundingWith, mbLoop, maxAttempts, bind, Except.bind, mkBall, Scalar.lit]

/-! ## 9. curved shapes: the balls are those with the largest / smallest semi-axis -/

/-- `Circle` / `Sphere`: all the ball getters return the shape itself -/
theorem round_ball_spec (r : ℝ) (cen : V3 ℝ) {B : Ball ℝ} (h : roundBall r cen = .ok B) :
    B.radius = r ∧ B.center = cen := ⟨(mkBall_ok h).1, (mkBall_ok h).2.1⟩

theorem ellipse_bounding_spec (a b : ℝ) (cen : V3 ℝ) {B : Ball ℝ} (h : ellipseBounding a b cen = .ok B) :
    B.radius = max a b ∧ B.center = cen := by
  obtain ⟨h1, h2, _⟩ := mkBall_ok h; exact ⟨by rw [h1, Scalar.max_real], h2⟩

theorem ellipse_bounded_spec (a b : ℝ) (cen : V3 ℝ) {B : Ball ℝ} (h : ellipseBounded a b cen = .ok B) :
    B.radius = min a b ∧ B.center = cen := by
  obtain ⟨h1, h2, _⟩ := mkBall_ok h; exact ⟨by rw [h1, Scalar.min_real], h2⟩

theorem ellipsoid_bounding_spec (a b c : ℝ) (cen : V3 ℝ) {B : Ball ℝ}
    (h : ellipsoidBounding a b c cen = .ok B) : B.radius = max (max a b) c ∧ B.center = cen := by
  obtain ⟨h1, h2, _⟩ := mkBall_ok h; exact ⟨by rw [h1, Scalar.max_real, Scalar.max_real], h2⟩

theorem ellipsoid_bounded_spec (a b c : ℝ) (cen : V3 ℝ) {B : Ball ℝ}
    (h : ellipsoidBounded a b c cen = .ok B) : B.radius = min (min a b) c ∧ B.center = cen := by
  obtain ⟨h1, h2, _⟩ := mkBall_ok h; exact ⟨by rw [h1, Scalar.min_real, Scalar.min_real], h2⟩

theorem sq_le_scale {a M d : ℝ} (ha : 0 < a) (hM : a ≤ M) : d * d ≤ M * M * ((d / a) * (d / a)) := by
  have h1 : d = a * (d / a) := by field_simp
  have h2 : a * a ≤ M * M := mul_self_le_mul_self (le_of_lt ha) hM
  have h3 : 0 ≤ (d / a) * (d / a) := mul_self_nonneg _
  calc d * d = a * a * ((d / a) * (d / a)) := by rw [← mul_mul_mul_comm, ← h1]
    _ ≤ M * M * ((d / a) * (d / a)) := mul_le_mul_of_nonneg_right h2 h3

theorem sq_div_le {a m d : ℝ} (hm : 0 < m) (hma : m ≤ a) : (d / a) * (d / a) ≤ (d * d) / (m * m) := by
  have ha : 0 < a := lt_of_lt_of_le hm hma
  rw [div_mul_div_comm]
  apply div_le_div_of_nonneg_left (mul_self_nonneg d) (mul_pos hm hm)
  exact mul_self_le_mul_self (le_of_lt hm) hma

/-- a ball containing two points `cen ± d` has radius at least `‖d‖` (parallelogram law) -/
theorem antipodal_radius (cen d c' : V3 ℝ) (r' : ℝ) (h1 : InBall c' r' (cen + d))
    (h2 : InBall c' r' (cen - d)) : V3.norm d ≤ r' := by
  unfold InBall BallSpec.dist at h1 h2
  have hr' : 0 ≤ r' := le_trans (V3.norm_nonneg _) h1
  rw [V3.norm_le_iff _ hr'] at h1 h2 ⊢
  have hp : V3.normSq (cen + d - c') + V3.normSq (cen - d - c') =
      2 * V3.normSq (cen - c') + 2 * V3.normSq d := by
    simp only [V3.normSq_eq, V3.sub_x, V3.sub_y, V3.sub_z, V3.add_x, V3.add_y, V3.add_z]; ring
  have := V3.normSq_nonneg (cen - c')
  linarith

/-- **C13 ellipsoid, bounding sphere.** The sphere about the centre with the LARGEST semi-axis as
radius contains the ellipsoid … -/
theorem ellipsoid_bounding_contains (a b c : ℝ) (ha : 0 < a) (hb : 0 < b) (hc : 0 < c) (cen p : V3 ℝ)
    (h : InEllipsoid a b c cen p) : InBall cen (max (max a b) c) p := by
  have hMa : a ≤ max (max a b) c := le_trans (le_max_left a b) (le_max_left _ c)
  have hMb : b ≤ max (max a b) c := le_trans (le_max_right a b) (le_max_left _ c)
  have hMc : c ≤ max (max a b) c := le_max_right _ c
  have hM : 0 ≤ max (max a b) c := le_trans (le_of_lt ha) hMa
  unfold InBall BallSpec.dist
  rw [V3.norm_le_iff _ hM, V3.normSq_eq]
  simp only [V3.sub_x, V3.sub_y, V3.sub_z]
  unfold InEllipsoid at h
  simp only [Scalar.sqr_real, Scalar.lit_real, Nat.cast_one] at h
  have h1 := sq_le_scale (d := p.x - cen.x) ha hMa
  have h2 := sq_le_scale (d := p.y - cen.y) hb hMb
  have h3 := sq_le_scale (d := p.z - cen.z) hc hMc
  have hMM : 0 ≤ max (max a b) c * max (max a b) c := mul_self_nonneg _
  nlinarith [mul_le_mul_of_nonneg_left h hMM]

theorem inEllipsoid_axis_x (a b c : ℝ) (ha : 0 < a) (cen : V3 ℝ) (s : ℝ) (hs : s * s = a * a) :
    InEllipsoid a b c cen ⟨cen.x + s, cen.y, cen.z⟩ := by
  unfold InEllipsoid
  simp only [Scalar.sqr_real, Scalar.lit_real, Nat.cast_one, add_sub_cancel_left, sub_self, zero_div,
    mul_zero, add_zero]
  rw [div_mul_div_comm, hs, div_self (ne_of_gt (mul_pos ha ha))]

theorem inEllipsoid_axis_y (a b c : ℝ) (hb : 0 < b) (cen : V3 ℝ) (s : ℝ) (hs : s * s = b * b) :
    InEllipsoid a b c cen ⟨cen.x, cen.y + s, cen.z⟩ := by
  unfold InEllipsoid
  simp only [Scalar.sqr_real, Scalar.lit_real, Nat.cast_one, add_sub_cancel_left, sub_self, zero_div,
    mul_zero, add_zero, zero_add]
  rw [div_mul_div_comm, hs, div_self (ne_of_gt (mul_pos hb hb))]

theorem inEllipsoid_axis_z (a b c : ℝ) (hc : 0 < c) (cen : V3 ℝ) (s : ℝ) (hs : s * s = c * c) :
    InEllipsoid a b c cen ⟨cen.x, cen.y, cen.z + s⟩ := by
  unfold InEllipsoid
  simp only [Scalar.sqr_real, Scalar.lit_real, Nat.cast_one, add_sub_cancel_left, sub_self, zero_div,
    mul_zero, add_zero, zero_add]
  rw [div_mul_div_comm, hs, div_self (ne_of_gt (mul_pos hc hc))]

theorem norm_axis (x y z s : ℝ) (hs : 0 ≤ s) (h : x * x + y * y + z * z = s * s) :
    V3.norm (⟨x, y, z⟩ : V3 ℝ) = s := by
  rw [V3.norm_eq_iff _ hs, V3.normSq_eq]; exact h

/-- … and NO smaller sphere (with any centre) does: it is the minimal bounding sphere. -/
theorem ellipsoid_bounding_minimal (a b c : ℝ) (ha : 0 < a) (hb : 0 < b) (hc : 0 < c) (cen c' : V3 ℝ)
    (r' : ℝ) (hcont : ∀ p, InEllipsoid a b c cen p → InBall c' r' p) : max (max a b) c ≤ r' := by
  have hxa : a ≤ r' := by
    have h1 := hcont _ (inEllipsoid_axis_x a b c ha cen a rfl)
    have h2 := hcont _ (inEllipsoid_axis_x a b c ha cen (-a) (by ring))
    have := antipodal_radius cen ⟨a, 0, 0⟩ c' r' (by convert h1 using 1; ext <;> simp)
      (by convert h2 using 1; ext <;> simp <;> ring)
    rwa [norm_axis a 0 0 a (le_of_lt ha) (by ring)] at this
  have hxb : b ≤ r' := by
    have h1 := hcont _ (inEllipsoid_axis_y a b c hb cen b rfl)
    have h2 := hcont _ (inEllipsoid_axis_y a b c hb cen (-b) (by ring))
    have := antipodal_radius cen ⟨0, b, 0⟩ c' r' (by convert h1 using 1; ext <;> simp)
      (by convert h2 using 1; ext <;> simp <;> ring)
    rwa [norm_axis 0 b 0 b (le_of_lt hb) (by ring)] at this
  have hxc : c ≤ r' := by
    have h1 := hcont _ (inEllipsoid_axis_z a b c hc cen c rfl)
    have h2 := hcont _ (inEllipsoid_axis_z a b c hc cen (-c) (by ring))
    have := antipodal_radius cen ⟨0, 0, c⟩ c' r' (by convert h1 using 1; ext <;> simp)
      (by convert h2 using 1; ext <;> simp <;> ring)
    rwa [norm_axis 0 0 c c (le_of_lt hc) (by ring)] at this
  exact max_le (max_le hxa hxb) hxc

/-- **C13 ellipsoid, bounded sphere.** The sphere about the centre with the SMALLEST semi-axis as radius
lies inside the ellipsoid … -/
theorem ellipsoid_bounded_inside (a b c : ℝ) (ha : 0 < a) (hb : 0 < b) (hc : 0 < c) (cen p : V3 ℝ)
    (h : InBall cen (min (min a b) c) p) : InEllipsoid a b c cen p := by
  have hma : min (min a b) c ≤ a := le_trans (min_le_left _ c) (min_le_left a b)
  have hmb : min (min a b) c ≤ b := le_trans (min_le_left _ c) (min_le_right a b)
  have hmc : min (min a b) c ≤ c := min_le_right _ c
  have hm : 0 < min (min a b) c := lt_min (lt_min ha hb) hc
  unfold InBall BallSpec.dist at h
  rw [V3.norm_le_iff _ (le_of_lt hm), V3.normSq_eq] at h
  simp only [V3.sub_x, V3.sub_y, V3.sub_z] at h
  unfold InEllipsoid
  simp only [Scalar.sqr_real, Scalar.lit_real, Nat.cast_one]
  have h1 := sq_div_le (d := p.x - cen.x) hm hma
  have h2 := sq_div_le (d := p.y - cen.y) hm hmb
  have h3 := sq_div_le (d := p.z - cen.z) hm hmc
  have hmm : 0 < min (min a b) c * min (min a b) c := mul_pos hm hm
  have h4 : ((p.x - cen.x) * (p.x - cen.x) + (p.y - cen.y) * (p.y - cen.y) + (p.z - cen.z) * (p.z - cen.z))
      / (min (min a b) c * min (min a b) c) ≤ 1 := (div_le_one hmm).mpr h
  rw [add_div, add_div] at h4
  linarith

/-- … and no larger sphere (with any centre) does: it is a maximal bounded sphere. -/
theorem ellipsoid_bounded_maximal (a b c : ℝ) (ha : 0 < a) (hb : 0 < b) (hc : 0 < c) (cen c' : V3 ℝ)
    (r' : ℝ) (hr' : 0 ≤ r') (hin : ∀ p, InBall c' r' p → InEllipsoid a b c cen p) :
    r' ≤ min (min a b) c := by
  have key : ∀ (s : ℝ) (u : ℝ), 0 < s → ((u + r') / s) * ((u + r') / s) ≤ 1 →
      ((u - r') / s) * ((u - r') / s) ≤ 1 → r' ≤ s := by
    intro s u hs h1 h2
    rw [div_mul_div_comm, div_le_one (mul_pos hs hs)] at h1 h2
    by_contra hlt
    push Not at hlt
    nlinarith [mul_self_nonneg u]
  have inb : ∀ d : V3 ℝ, V3.normSq d = r' * r' → InBall c' r' (c' + d) := by
    intro d hd
    unfold InBall BallSpec.dist
    have : c' + d - c' = d := by ext <;> simp
    rw [this, V3.norm_le_iff _ hr', hd]
  have hxa : r' ≤ a := by
    have h1 := hin _ (inb ⟨r', 0, 0⟩ (by simp [V3.normSq_eq]))
    have h2 := hin _ (inb ⟨-r', 0, 0⟩ (by simp [V3.normSq_eq]))
    unfold InEllipsoid at h1 h2
    simp only [Scalar.sqr_real, Scalar.lit_real, Nat.cast_one, V3.add_x, V3.add_y, V3.add_z, add_zero] at h1 h2
    apply key a (c'.x - cen.x) ha
    · have e : c'.x - cen.x + r' = c'.x + r' - cen.x := by ring
      rw [e]; nlinarith [mul_self_nonneg ((c'.y - cen.y) / b), mul_self_nonneg ((c'.z - cen.z) / c)]
    · have e : c'.x - cen.x - r' = c'.x + -r' - cen.x := by ring
      rw [e]; nlinarith [mul_self_nonneg ((c'.y - cen.y) / b), mul_self_nonneg ((c'.z - cen.z) / c)]
  have hxb : r' ≤ b := by
    have h1 := hin _ (inb ⟨0, r', 0⟩ (by simp [V3.normSq_eq]))
    have h2 := hin _ (inb ⟨0, -r', 0⟩ (by simp [V3.normSq_eq]))
    unfold InEllipsoid at h1 h2
    simp only [Scalar.sqr_real, Scalar.lit_real, Nat.cast_one, V3.add_x, V3.add_y, V3.add_z, add_zero] at h1 h2
    apply key b (c'.y - cen.y) hb
    · have e : c'.y - cen.y + r' = c'.y + r' - cen.y := by ring
      rw [e]; nlinarith [mul_self_nonneg ((c'.x - cen.x) / a), mul_self_nonneg ((c'.z - cen.z) / c)]
    · have e : c'.y - cen.y - r' = c'.y + -r' - cen.y := by ring
      rw [e]; nlinarith [mul_self_nonneg ((c'.x - cen.x) / a), mul_self_nonneg ((c'.z - cen.z) / c)]
  have hxc : r' ≤ c := by
    have h1 := hin _ (inb ⟨0, 0, r'⟩ (by simp [V3.normSq_eq]))
    have h2 := hin _ (inb ⟨0, 0, -r'⟩ (by simp [V3.normSq_eq]))
    unfold InEllipsoid at h1 h2
    simp only [Scalar.sqr_real, Scalar.lit_real, Nat.cast_one, V3.add_x, V3.add_y, V3.add_z, add_zero] at h1 h2
    apply key c (c'.z - cen.z) hc
    · have e : c'.z - cen.z + r' = c'.z + r' - cen.z := by ring
      rw [e]; nlinarith [mul_self_nonneg ((c'.x - cen.x) / a), mul_self_nonneg ((c'.y - cen.y) / b)]
    · have e : c'.z - cen.z - r' = c'.z + -r' - cen.z := by ring
      rw [e]; nlinarith [mul_self_nonneg ((c'.x - cen.x) / a), mul_self_nonneg ((c'.y - cen.y) / b)]
  exact le_min (le_min hxa hxb) hxc

/-! the ellipse (in its plane `z = cen.z`) -/

/-- **C13 ellipse, bounding circle**: radius `max a b` about the centre contains the ellipse … -/
theorem ellipse_bounding_contains (a b : ℝ) (ha : 0 < a) (hb : 0 < b) (cen p : V3 ℝ)
    (h : InEllipse a b cen p) : InBall cen (max a b) p := by
  have hM : 0 ≤ max a b := le_trans (le_of_lt ha) (le_max_left a b)
  obtain ⟨hz, h⟩ := h
  unfold InBall BallSpec.dist
  rw [V3.norm_le_iff _ hM, V3.normSq_eq]
  simp only [V3.sub_x, V3.sub_y, V3.sub_z, hz, sub_self, mul_zero, add_zero]
  simp only [Scalar.sqr_real, Scalar.lit_real, Nat.cast_one] at h
  have h1 := sq_le_scale (d := p.x - cen.x) ha (le_max_left a b)
  have h2 := sq_le_scale (d := p.y - cen.y) hb (le_max_right a b)
  have hMM : 0 ≤ max a b * max a b := mul_self_nonneg _
  nlinarith [mul_le_mul_of_nonneg_left h hMM]

/-- … and every ball containing the ellipse has radius `≥ max a b`. -/
theorem ellipse_bounding_minimal (a b : ℝ) (ha : 0 < a) (hb : 0 < b) (cen c' : V3 ℝ) (r' : ℝ)
    (hcont : ∀ p, InEllipse a b cen p → InBall c' r' p) : max a b ≤ r' := by
  have ex : ∀ s, s * s = a * a → InEllipse a b cen ⟨cen.x + s, cen.y, cen.z⟩ := by
    intro s hs
    refine ⟨rfl, ?_⟩
    simp only [Scalar.sqr_real, Scalar.lit_real, Nat.cast_one, add_sub_cancel_left, sub_self, zero_div,
      mul_zero, add_zero]
    rw [div_mul_div_comm, hs, div_self (ne_of_gt (mul_pos ha ha))]
  have ey : ∀ s, s * s = b * b → InEllipse a b cen ⟨cen.x, cen.y + s, cen.z⟩ := by
    intro s hs
    refine ⟨rfl, ?_⟩
    simp only [Scalar.sqr_real, Scalar.lit_real, Nat.cast_one, add_sub_cancel_left, sub_self, zero_div,
      mul_zero, zero_add]
    rw [div_mul_div_comm, hs, div_self (ne_of_gt (mul_pos hb hb))]
  have hxa : a ≤ r' := by
    have h1 := hcont _ (ex a rfl)
    have h2 := hcont _ (ex (-a) (by ring))
    have := antipodal_radius cen ⟨a, 0, 0⟩ c' r' (by convert h1 using 1; ext <;> simp)
      (by convert h2 using 1; ext <;> simp <;> ring)
    rwa [norm_axis a 0 0 a (le_of_lt ha) (by ring)] at this
  have hxb : b ≤ r' := by
    have h1 := hcont _ (ey b rfl)
    have h2 := hcont _ (ey (-b) (by ring))
    have := antipodal_radius cen ⟨0, b, 0⟩ c' r' (by convert h1 using 1; ext <;> simp)
      (by convert h2 using 1; ext <;> simp <;> ring)
    rwa [norm_axis 0 b 0 b (le_of_lt hb) (by ring)] at this
  exact max_le hxa hxb

/-- **C13 ellipse, bounded circle**: the disc of radius `min a b` about the centre (in the ellipse's
plane) lies inside the ellipse. -/
theorem ellipse_bounded_inside (a b : ℝ) (ha : 0 < a) (hb : 0 < b) (cen p : V3 ℝ)
    (hz : p.z = cen.z) (h : InBall cen (min a b) p) : InEllipse a b cen p := by
  have hm : 0 < min a b := lt_min ha hb
  refine ⟨hz, ?_⟩
  unfold InBall BallSpec.dist at h
  rw [V3.norm_le_iff _ (le_of_lt hm), V3.normSq_eq] at h
  simp only [V3.sub_x, V3.sub_y, V3.sub_z, hz, sub_self, mul_zero, add_zero] at h
  simp only [Scalar.sqr_real, Scalar.lit_real, Nat.cast_one]
  have h1 := sq_div_le (d := p.x - cen.x) hm (min_le_left a b)
  have h2 := sq_div_le (d := p.y - cen.y) hm (min_le_right a b)
  have hmm : 0 < min a b * min a b := mul_pos hm hm
  have h4 : ((p.x - cen.x) * (p.x - cen.x) + (p.y - cen.y) * (p.y - cen.y)) / (min a b * min a b) ≤ 1 :=
    (div_le_one hmm).mpr h
  rw [add_div] at h4
  linarith

/-- … and no larger disc in that plane (with any centre) does. -/
theorem ellipse_bounded_maximal (a b : ℝ) (ha : 0 < a) (hb : 0 < b) (cen c' : V3 ℝ) (r' : ℝ)
    (hr' : 0 ≤ r') (hc' : c'.z = cen.z)
    (hin : ∀ p, p.z = cen.z → InBall c' r' p → InEllipse a b cen p) : r' ≤ min a b := by
  have key : ∀ (s : ℝ) (u : ℝ), 0 < s → ((u + r') / s) * ((u + r') / s) ≤ 1 →
      ((u - r') / s) * ((u - r') / s) ≤ 1 → r' ≤ s := by
    intro s u hs h1 h2
    rw [div_mul_div_comm, div_le_one (mul_pos hs hs)] at h1 h2
    by_contra hlt
    push Not at hlt
    nlinarith [mul_self_nonneg u]
  have inb : ∀ d : V3 ℝ, V3.normSq d = r' * r' → InBall c' r' (c' + d) := by
    intro d hd
    unfold InBall BallSpec.dist
    have : c' + d - c' = d := by ext <;> simp
    rw [this, V3.norm_le_iff _ hr', hd]
  have hxa : r' ≤ a := by
    have h1 := (hin _ (by simpa using hc') (inb ⟨r', 0, 0⟩ (by simp [V3.normSq_eq]))).2
    have h2 := (hin _ (by simpa using hc') (inb ⟨-r', 0, 0⟩ (by simp [V3.normSq_eq]))).2
    simp only [Scalar.sqr_real, Scalar.lit_real, Nat.cast_one, V3.add_x, V3.add_y, add_zero] at h1 h2
    apply key a (c'.x - cen.x) ha
    · have e : c'.x - cen.x + r' = c'.x + r' - cen.x := by ring
      rw [e]; nlinarith [mul_self_nonneg ((c'.y - cen.y) / b)]
    · have e : c'.x - cen.x - r' = c'.x + -r' - cen.x := by ring
      rw [e]; nlinarith [mul_self_nonneg ((c'.y - cen.y) / b)]
  have hxb : r' ≤ b := by
    have h1 := (hin _ (by simpa using hc') (inb ⟨0, r', 0⟩ (by simp [V3.normSq_eq]))).2
    have h2 := (hin _ (by simpa using hc') (inb ⟨0, -r', 0⟩ (by simp [V3.normSq_eq]))).2
    simp only [Scalar.sqr_real, Scalar.lit_real, Nat.cast_one, V3.add_x, V3.add_y, add_zero] at h1 h2
    apply key b (c'.y - cen.y) hb
    · have e : c'.y - cen.y + r' = c'.y + r' - cen.y := by ring
      rw [e]; nlinarith [mul_self_nonneg ((c'.x - cen.x) / a)]
    · have e : c'.y - cen.y - r' = c'.y + -r' - cen.y := by ring
      rw [e]; nlinarith [mul_self_nonneg ((c'.x - cen.x) / a)]
  exact le_min hxa hxb

/-- a sphere is the ellipsoid with three equal semi-axes (so `Sphere`'s getters are covered by the
ellipsoid theorems: `max = min = radius`) and a circle the ellipse with two equal ones -/
example (r : ℝ) : max (max r r) r = r ∧ min (min r r) r = r := by simp


/-! ## 10. existence ⇔ the ball is returned, refusal ⇔ residual above the tolerance

Everything in this section is relative to the stated external contract of `np.linalg.lstsq`
(`LstsqContract`): the returned solution minimises `‖A(x,r) − b‖²` and `resids` is the one-element
array holding that minimum.  The first half is decidable by the certificate
`BallSpec.lstsqCert` (normal equations, evaluated exactly over ℚ by the driver): `lstsq_cert_sound`,
`lstsq_cert_complete`. -/

/-- **lstsq certificate, soundness**: if the normal equations hold exactly (what the driver's checker
`lstsqCert` tests), the point is a least-squares minimiser. -/
theorem lstsq_cert_sound (rows : List (Row ℝ)) (x : V3 ℝ) (r : ℝ)
    (h : BallSpec.lstsqCert rows x r = true) : IsLstsqMin rows x r := (lstsqCert_iff rows x r).mp h

/-- **lstsq certificate, completeness**: every least-squares minimiser passes the checker. -/
theorem lstsq_cert_complete (rows : List (Row ℝ)) (x : V3 ℝ) (r : ℝ)
    (h : IsLstsqMin rows x r) : BallSpec.lstsqCert rows x r = true := (lstsqCert_iff rows x r).mpr h

/-- **exact excess of any other answer** (what the driver reports for LAPACK's `x`): with the
certificate at `(x, r)`, `‖A(x',r') − b‖² − min = ‖A((x',r') − (x,r))‖² ≥ 0`. -/
theorem lstsq_excess (rows : List (Row ℝ)) (x x' : V3 ℝ) (r r' : ℝ)
    (h : BallSpec.lstsqCert rows x r = true) :
    sumSq rows x' r' = sumSq rows x r + linSq rows (x' - x) (r' - r) ∧ 0 ≤ linSq rows (x' - x) (r' - r) :=
  ⟨sumSq_excess ((lstsqCert_iff_normalEq rows x r).mp h) x' r', linSq_nonneg _ _ _⟩

/-- the cube corner system: `x = (1/2,1/2,1/2)` passes the certificate -/
example : BallSpec.lstsqCert (circumSystemSphere [(⟨0,0,0⟩ : V3 ℝ), ⟨1,0,0⟩, ⟨0,1,0⟩, ⟨0,0,1⟩, ⟨1,1,1⟩])
    ⟨1/2,1/2,1/2⟩ 0 = true := by
  rw [lstsqCert_iff_normalEq]
  constructor
  · ext <;> simp [BallSpec.normalGrad, circumSystemSphere, circumPoints, V3.sum, V3.add, V3.smul,
      V3.zero, Row.resid, V3.dot_eq, Scalar.lit] <;> norm_num
  · simp [BallSpec.normalGrad, circumSystemSphere, circumPoints, Row.resid, V3.dot_eq, Scalar.lit]

/-- the external contract of `np.linalg.lstsq` for an over-determined full-rank system -/
structure LstsqContract (rows : List (Row ℝ)) (x : V3 ℝ) (r : ℝ) (resids : List ℝ) : Prop where
  isMin : IsLstsqMin rows x r
  resid : resids = [sumSq rows x r]

theorem residGuard_of_gt {n thresh : Nat} {ρ atol : ℝ} (h : thresh < n) (hρ : atol < |ρ|) :
    residGuard n thresh [ρ] atol = .ok true := by
  unfold residGuard
  rw [if_pos h]
  have : isclose ρ (Scalar.lit 0 : ℝ) atol = false := by
    rw [Bool.eq_false_iff]
    intro hc
    exact absurd ((isclose_zero_iff _ _).mp hc) (not_le.mpr hρ)
  simp only [this, Bool.not_false]

theorem residGuard_of_le {n thresh : Nat} {ρ atol : ℝ} (hρ : |ρ| ≤ atol) :
    residGuard n thresh [ρ] atol = .ok false := by
  unfold residGuard
  split
  · simp only [(isclose_zero_iff ρ atol).mpr hρ, Bool.not_true]
  · rfl

theorem residGuard_of_small {n thresh : Nat} {resids : List ℝ} {atol : ℝ} (h : n ≤ thresh) :
    residGuard n thresh resids atol = .ok false := by
  unfold residGuard
  rw [if_neg (by omega)]

theorem circumBall_raises_iff {thresh : Nat} {verts : List (V3 ℝ)} {rows : List (Row ℝ)} {x : V3 ℝ}
    {ρ : ℝ} (hlen : thresh < verts.length) :
    circumBall thresh verts rows x [ρ] = .error "RuntimeError" ↔ circumAtol rows < |ρ| := by
  constructor
  · intro h
    obtain ⟨_, ρ', hρ', hlt⟩ := circumBall_runtimeError h
    have : ρ = ρ' := by simpa using hρ'
    rw [this]; exact hlt
  · intro h
    unfold circumBall
    simp only [bind, Except.bind, residGuard_of_gt hlen h]
    rfl

theorem circumBall_returns {thresh : Nat} {verts : List (V3 ℝ)} {rows : List (Row ℝ)} {x : V3 ℝ}
    {ρ : ℝ} (hle : |ρ| ≤ circumAtol rows) (hx : 0 < V3.norm x) :
    circumBall thresh verts rows x [ρ] = .ok ⟨V3.norm x, x + firstVertex verts⟩ := by
  unfold circumBall
  simp only [bind, Except.bind, residGuard_of_le hle, Bool.false_eq_true, ↓reduceIte]
  exact mkBall_of_pos _ hx

theorem circumBall_returns_small {thresh : Nat} {verts : List (V3 ℝ)} {rows : List (Row ℝ)} {x : V3 ℝ}
    {resids : List ℝ} (hlen : verts.length ≤ thresh) (hx : 0 < V3.norm x) :
    circumBall thresh verts rows x resids = .ok ⟨V3.norm x, x + firstVertex verts⟩ := by
  unfold circumBall
  simp only [bind, Except.bind, residGuard_of_small hlen, Bool.false_eq_true, ↓reduceIte]
  exact mkBall_of_pos _ hx

theorem abs_sumSq (rows : List (Row ℝ)) (x : V3 ℝ) (r : ℝ) : |sumSq rows x r| = sumSq rows x r :=
  abs_of_nonneg (sumSq_nonneg rows x r)

/-- **C13 circumsphere, refusal ⇔ residual above the tolerance** (the relative tolerance
`1e-8·(max_i |v_i−v_0|²/2)²` of the code, exactly): for more than four vertices the model raises
`RuntimeError` if and only if the least-squares residual exceeds `circumAtol`. -/
theorem circumsphere_raises_iff (V : List (V3 ℝ)) (x : V3 ℝ) (resids : List ℝ) (hlen : 4 < V.length)
    (hc : LstsqContract (circumSystemSphere V) x 0 resids) :
    circumsphere V x resids = .error "RuntimeError" ↔
      circumAtol (circumSystemSphere V) < sumSq (circumSystemSphere V) x 0 := by
  unfold circumsphere
  rw [hc.resid, circumBall_raises_iff hlen, abs_sumSq]

/-- with the lstsq contract, a circumsphere exists iff the least-squares residual is zero -/
theorem circum_exists_iff_zero (v0 : V3 ℝ) (rest : List (V3 ℝ)) (x : V3 ℝ)
    (hmin : IsLstsqMin (circumSystemSphere (v0 :: rest)) x 0) :
    (∃ c ρ, IsCircum c ρ (v0 :: rest)) ↔ sumSq (circumSystemSphere (v0 :: rest)) x 0 = 0 := by
  constructor
  · rintro ⟨c, ρ, h⟩
    have h0 := circum_exists_imp_consistent v0 rest c ρ 0 h
    have := hmin (c - v0) 0
    rw [h0] at this
    exact le_antisymm this (sumSq_nonneg _ _ _)
  · intro h
    exact ⟨_, _, circum_of_zero_resid v0 rest x 0 h⟩

theorem v3_eq_of_norm_sub_eq_zero {a b : V3 ℝ} (h : V3.norm (a - b) = 0) : a = b := by
  rw [V3.norm_eq, Real.sqrt_eq_zero (V3.normSq_nonneg _)] at h
  exact eq_of_normSq_sub_eq_zero h

/-- a sphere through two distinct points has a positive radius -/
theorem norm_pos_of_circum {v0 : V3 ℝ} {rest : List (V3 ℝ)} {c : V3 ℝ} {ρ : ℝ}
    (h : IsCircum c ρ (v0 :: rest)) (hd : ∃ v ∈ rest, v ≠ v0) : 0 < ρ := by
  obtain ⟨v, hv, hne⟩ := hd
  have h0 := h v0 List.mem_cons_self
  have h1 := h v (List.mem_cons_of_mem _ hv)
  unfold BallSpec.dist at h0 h1
  have hnn : 0 ≤ ρ := by rw [← h0]; exact V3.norm_nonneg _
  rcases lt_or_eq_of_le hnn with hpos | hz
  · exact hpos
  · exfalso
    rw [← hz] at h0 h1
    exact hne ((v3_eq_of_norm_sub_eq_zero h1).trans (v3_eq_of_norm_sub_eq_zero h0).symm)

/-- **C13 circumsphere, existence ⇔ it is returned.** For a vertex list with two distinct vertices and
the lstsq contract: a sphere through all the vertices exists IF AND ONLY IF the model returns a
ball, and that ball passes through every vertex. (No tolerance is involved on this side: an
existing circumsphere has residual exactly `0 ≤ atol`.) -/
theorem circumsphere_exists_iff (v0 : V3 ℝ) (rest : List (V3 ℝ)) (x : V3 ℝ) (resids : List ℝ)
    (hd : ∃ v ∈ rest, v ≠ v0) (hc : LstsqContract (circumSystemSphere (v0 :: rest)) x 0 resids) :
    (∃ c ρ, IsCircum c ρ (v0 :: rest)) ↔
      ∃ B, circumsphere (v0 :: rest) x resids = .ok B ∧ IsCircum B.center B.radius (v0 :: rest) := by
  constructor
  · intro hex
    have hz := (circum_exists_iff_zero v0 rest x hc.isMin).mp hex
    have hcirc := circum_of_zero_resid v0 rest x 0 hz
    have hx := norm_pos_of_circum hcirc hd
    refine ⟨⟨V3.norm x, x + v0⟩, ?_, hcirc⟩
    unfold circumsphere
    rw [hc.resid, hz]
    exact circumBall_returns (by rw [abs_zero]; exact circumAtol_nonneg _) hx
  · rintro ⟨B, _, hB⟩
    exact ⟨_, _, hB⟩

/-- uniqueness: when the edge vectors `v_i − v_0` span space (`InjRows3`), at most one sphere passes
through all the vertices -/
theorem circum_unique (v0 : V3 ℝ) (rest : List (V3 ℝ))
    (hinj : InjRows3 (circumSystemSphere (v0 :: rest))) {c c' : V3 ℝ} {ρ ρ' : ℝ}
    (h : IsCircum c ρ (v0 :: rest)) (h' : IsCircum c' ρ' (v0 :: rest)) : c = c' ∧ ρ = ρ' := by
  have z := (sumSq_eq_zero_iff _ _ _).mp (circum_exists_imp_consistent v0 rest c ρ 0 h)
  have z' := (sumSq_eq_zero_iff _ _ _).mp (circum_exists_imp_consistent v0 rest c' ρ' 0 h')
  have hk : ∀ row ∈ circumSystemSphere (v0 :: rest), V3.dot row.a ((c - v0) - (c' - v0)) = 0 := by
    intro row hrow
    have a := z row hrow; have a' := z' row hrow
    rw [V3.dot_sub_right]
    simp only [Row.resid] at a a'
    linarith
  have hzero := hinj _ hk
  have hcc : c = c' := by
    have hx := congrArg V3.x hzero; have hy := congrArg V3.y hzero; have hz := congrArg V3.z hzero
    simp only [V3.sub_x, V3.sub_y, V3.sub_z, V3.zero_x, V3.zero_y, V3.zero_z] at hx hy hz
    ext <;> linarith
  refine ⟨hcc, ?_⟩
  rw [← h v0 List.mem_cons_self, ← h' v0 List.mem_cons_self, hcc]

/-- **C13 circumsphere, the existing sphere is THE one returned.** If the edge vectors span space and a
sphere `(c, ρ)` passes through all the vertices, then (lstsq contract) the model returns exactly
`Sphere(ρ, c)`. -/
theorem circumsphere_returns_it (v0 : V3 ℝ) (rest : List (V3 ℝ)) (x : V3 ℝ) (resids : List ℝ)
    (hd : ∃ v ∈ rest, v ≠ v0) (hinj : InjRows3 (circumSystemSphere (v0 :: rest)))
    (hc : LstsqContract (circumSystemSphere (v0 :: rest)) x 0 resids)
    {c : V3 ℝ} {ρ : ℝ} (h : IsCircum c ρ (v0 :: rest)) :
    circumsphere (v0 :: rest) x resids = .ok ⟨ρ, c⟩ := by
  obtain ⟨B, hB, hBc⟩ := (circumsphere_exists_iff v0 rest x resids hd hc).mp ⟨c, ρ, h⟩
  obtain ⟨e1, e2⟩ := circum_unique v0 rest hinj hBc h
  obtain ⟨r, cen⟩ := B
  simp only at e1 e2
  rw [hB, e1, e2]

/-- in the margin `0 < residual ≤ atol` the least-squares solution is not the zero vector (so the
`Sphere` constructor does not raise): `x = 0` would have residual `Σ b_i² ≥ (max b)² > atol` -/
theorem circum_x_pos_of_small_resid (v0 : V3 ℝ) (rest : List (V3 ℝ)) (x : V3 ℝ)
    (hd : ∃ v ∈ rest, v ≠ v0)
    (hle : sumSq (circumSystemSphere (v0 :: rest)) x 0 ≤ circumAtol (circumSystemSphere (v0 :: rest))) :
    0 < V3.norm x := by
  set rows := circumSystemSphere (v0 :: rest) with hrows
  rcases lt_or_eq_of_le (V3.norm_nonneg x) with h | h
  · exact h
  exfalso
  have hx0 : x = V3.zero := by
    have : V3.norm (x - V3.zero) = 0 := by
      have e : x - V3.zero = x := by ext <;> simp
      rw [e]; exact h.symm
    exact v3_eq_of_norm_sub_eq_zero this
  -- the largest right-hand side is positive and is attained by a row
  obtain ⟨v, hv, hne⟩ := hd
  have hrow : (⟨v - v0, Scalar.lit 0, V3.dot (v - v0) (v - v0) / Scalar.lit 2⟩ : Row ℝ) ∈ rows := by
    rw [hrows, circumSystemSphere_cons]; exact List.mem_map.mpr ⟨v, hv, rfl⟩
  have hbpos : 0 < V3.dot (v - v0) (v - v0) / Scalar.lit 2 := by
    have hn : 0 ≤ V3.normSq (v - v0) := V3.normSq_nonneg _
    have : V3.normSq (v - v0) ≠ 0 := fun h0 => hne (eq_of_normSq_sub_eq_zero h0)
    have hp : 0 < V3.normSq (v - v0) := lt_of_le_of_ne hn (Ne.symm this)
    show 0 < V3.normSq (v - v0) / ((2 : ℕ) : ℝ)
    positivity
  have hbs : (rows.map fun row => row.b) ≠ [] := by
    intro h0; rw [List.map_eq_nil_iff] at h0; rw [h0] at hrow; cases hrow
  have hM := listMax_ge (rows.map fun row => row.b) _ (List.mem_map.mpr ⟨_, hrow, rfl⟩)
  simp only at hM
  have hMpos : 0 < listMax (rows.map fun row => row.b) := lt_of_lt_of_le hbpos hM
  obtain ⟨rowM, hrowM, hbM⟩ := List.mem_map.mp (listMax_mem _ hbs)
  have hres := resid_sq_le_sumSq rows x 0 rowM hrowM
  have hrM : rowM.resid x 0 = -rowM.b := by
    rw [hx0]; simp [Row.resid, V3.dot_eq]
  rw [hrM, hbM] at hres
  have hat : circumAtol rows = (1 / 100000000 : ℝ) * (listMax (rows.map fun row => row.b) *
      listMax (rows.map fun row => row.b)) := by
    unfold circumAtol; simp only [Scalar.q, Scalar.ofNat_real, Scalar.sqr_real]; norm_num
  rw [hat] at hle
  nlinarith [mul_pos hMpos hMpos]

/-- **C13 circumsphere — complete case analysis** (more than four vertices, two of them distinct,
lstsq contract). With `ρ = min ‖Ax − b‖²` and `atol = 1e-8·(max_i |v_i−v_0|²/2)²` exactly one of:
* `ρ = 0`: a circumsphere exists and the model returns it (a ball through EVERY vertex);
* `0 < ρ ≤ atol` (the tolerance margin): no circumsphere exists, the model nevertheless returns a
  ball, and every vertex is on it up to `(‖v − c‖² − r²)² ≤ 4·atol`;
* `atol < ρ`: no circumsphere exists and the model raises `RuntimeError`. -/
theorem circumsphere_trichotomy (v0 : V3 ℝ) (rest : List (V3 ℝ)) (x : V3 ℝ) (resids : List ℝ)
    (hlen : 4 < (v0 :: rest).length) (hd : ∃ v ∈ rest, v ≠ v0)
    (hc : LstsqContract (circumSystemSphere (v0 :: rest)) x 0 resids) :
    (sumSq (circumSystemSphere (v0 :: rest)) x 0 = 0 ∧
        ∃ B, circumsphere (v0 :: rest) x resids = .ok B ∧ IsCircum B.center B.radius (v0 :: rest)) ∨
    (0 < sumSq (circumSystemSphere (v0 :: rest)) x 0 ∧
        sumSq (circumSystemSphere (v0 :: rest)) x 0 ≤ circumAtol (circumSystemSphere (v0 :: rest)) ∧
        (¬ ∃ c ρ, IsCircum c ρ (v0 :: rest)) ∧
        ∃ B, circumsphere (v0 :: rest) x resids = .ok B ∧ ∀ v ∈ v0 :: rest,
          (V3.normSq (v - B.center) - B.radius * B.radius) * (V3.normSq (v - B.center) - B.radius * B.radius)
            ≤ 4 * circumAtol (circumSystemSphere (v0 :: rest))) ∨
    (circumAtol (circumSystemSphere (v0 :: rest)) < sumSq (circumSystemSphere (v0 :: rest)) x 0 ∧
        (¬ ∃ c ρ, IsCircum c ρ (v0 :: rest)) ∧
        circumsphere (v0 :: rest) x resids = .error "RuntimeError") := by
  have hiff := circum_exists_iff_zero v0 rest x hc.isMin
  rcases lt_or_eq_of_le (sumSq_nonneg (circumSystemSphere (v0 :: rest)) x 0) with hpos | hzero
  · have hnone : ¬ ∃ c ρ, IsCircum c ρ (v0 :: rest) := fun hex => absurd (hiff.mp hex) (ne_of_gt hpos)
    rcases le_or_gt (sumSq (circumSystemSphere (v0 :: rest)) x 0)
        (circumAtol (circumSystemSphere (v0 :: rest))) with hle | hgt
    · right; left
      refine ⟨hpos, hle, hnone, ⟨V3.norm x, x + v0⟩, ?_, ?_⟩
      · unfold circumsphere
        rw [hc.resid]
        exact circumBall_returns (by rw [abs_sumSq]; exact hle)
          (circum_x_pos_of_small_resid v0 rest x hd hle)
      · intro v hv
        have := circum_resid_bound v0 rest x 0 _ hle v hv
        rw [V3.norm_mul_self]
        exact this
    · right; right
      exact ⟨hgt, hnone, (circumsphere_raises_iff _ x resids hlen hc).mpr hgt⟩
  · left
    refine ⟨hzero.symm, (circumsphere_exists_iff v0 rest x resids hd hc).mp (hiff.mpr hzero.symm)⟩

/-- consequently (more than four vertices): refusal happens only when no circumsphere exists, and
whenever none exists beyond the tolerance the model refuses -/
theorem circumsphere_refuses_iff (v0 : V3 ℝ) (rest : List (V3 ℝ)) (x : V3 ℝ) (resids : List ℝ)
    (hlen : 4 < (v0 :: rest).length)
    (hc : LstsqContract (circumSystemSphere (v0 :: rest)) x 0 resids) :
    circumsphere (v0 :: rest) x resids = .error "RuntimeError" ↔
      (¬ ∃ c ρ, IsCircum c ρ (v0 :: rest)) ∧
        circumAtol (circumSystemSphere (v0 :: rest)) < sumSq (circumSystemSphere (v0 :: rest)) x 0 := by
  rw [circumsphere_raises_iff _ x resids hlen hc]
  constructor
  · intro h
    refine ⟨fun hex => ?_, h⟩
    have := (circum_exists_iff_zero v0 rest x hc.isMin).mp hex
    rw [this] at h
    exact absurd h (not_lt.mpr (circumAtol_nonneg _))
  · exact fun h => h.2

/-! polygon versions -/

theorem circumcircle_raises_iff (V : List (V3 ℝ)) (normal x : V3 ℝ) (resids : List ℝ) (hlen : 3 < V.length)
    (hc : LstsqContract (circumSystemCircleScaled V normal) x 0 resids) :
    circumcircle V normal x resids = .error "RuntimeError" ↔
      circumAtol (circumSystemCircleScaled V normal) < sumSq (circumSystemCircleScaled V normal) x 0 := by
  unfold circumcircle
  rw [hc.resid, circumBall_raises_iff hlen, abs_sumSq, circumAtol_scaled]

theorem circumcircle_exists_imp_zero (v0 : V3 ℝ) (rest : List (V3 ℝ)) (normal x : V3 ℝ)
    (hmin : IsLstsqMin (circumSystemCircleScaled (v0 :: rest) normal) x 0)
    (hex : ∃ c ρ, IsCircum c ρ (v0 :: rest) ∧ InPlane normal v0 c) :
    sumSq (circumSystemCircleScaled (v0 :: rest) normal) x 0 = 0 := by
  obtain ⟨c, ρ, h, hp⟩ := hex
  have h0 := circumcircle_exists_imp_consistent v0 rest normal c ρ 0 h hp
  have := hmin (c - v0) 0
  rw [h0] at this
  exact le_antisymm this (sumSq_nonneg _ _ _)

theorem circumcircle_exists_iff_zero (v0 : V3 ℝ) (rest : List (V3 ℝ)) (normal x : V3 ℝ)
    (hs : planeRowScale (v0 :: rest) ≠ 0)
    (hmin : IsLstsqMin (circumSystemCircleScaled (v0 :: rest) normal) x 0) :
    (∃ c ρ, IsCircum c ρ (v0 :: rest) ∧ InPlane normal v0 c) ↔
      sumSq (circumSystemCircleScaled (v0 :: rest) normal) x 0 = 0 :=
  ⟨circumcircle_exists_imp_zero v0 rest normal x hmin,
   fun h => ⟨_, _, circumcircle_of_zero_resid v0 rest normal x 0 hs h⟩⟩

/-- **C13 circumcircle, existence ⇔ it is returned** (circle through all vertices with its centre in
the polygon's plane). -/
theorem circumcircle_exists_iff (v0 : V3 ℝ) (rest : List (V3 ℝ)) (normal x : V3 ℝ) (resids : List ℝ)
    (hd : ∃ v ∈ rest, v ≠ v0) (hc : LstsqContract (circumSystemCircleScaled (v0 :: rest) normal) x 0 resids) :
    (∃ c ρ, IsCircum c ρ (v0 :: rest) ∧ InPlane normal v0 c) ↔
      ∃ B, circumcircle (v0 :: rest) normal x resids = .ok B ∧ IsCircum B.center B.radius (v0 :: rest) ∧
        InPlane normal v0 B.center := by
  constructor
  · intro hex
    have hs := ne_of_gt (planeRowScale_pos v0 rest hd)
    have hz := circumcircle_exists_imp_zero v0 rest normal x hc.isMin hex
    have hcirc := circumcircle_of_zero_resid v0 rest normal x 0 hs hz
    have hx := norm_pos_of_circum hcirc.1 hd
    refine ⟨⟨V3.norm x, x + v0⟩, ?_, hcirc⟩
    unfold circumcircle
    rw [hc.resid, hz]
    exact circumBall_returns (by rw [abs_zero]; exact circumAtol_nonneg _) hx
  · rintro ⟨B, _, hB⟩
    exact ⟨_, _, hB⟩

theorem circumcircle_refuses_iff (v0 : V3 ℝ) (rest : List (V3 ℝ)) (normal x : V3 ℝ) (resids : List ℝ)
    (hlen : 3 < (v0 :: rest).length)
    (hc : LstsqContract (circumSystemCircleScaled (v0 :: rest) normal) x 0 resids) :
    circumcircle (v0 :: rest) normal x resids = .error "RuntimeError" ↔
      (¬ ∃ c ρ, IsCircum c ρ (v0 :: rest) ∧ InPlane normal v0 c) ∧
        circumAtol (circumSystemCircleScaled (v0 :: rest) normal) <
          sumSq (circumSystemCircleScaled (v0 :: rest) normal) x 0 := by
  rw [circumcircle_raises_iff _ normal x resids hlen hc]
  constructor
  · intro h
    refine ⟨fun hex => ?_, h⟩
    have := circumcircle_exists_imp_zero v0 rest normal x hc.isMin hex
    rw [this] at h
    exact absurd h (not_lt.mpr (circumAtol_nonneg _))
  · exact fun h => h.2

/-- **the rescaled plane row (0897fc7) changes nothing in exact arithmetic**: for a polygon with two
distinct vertices the scaled system and the unit-row system have the same exact solutions, and
`‖A x − b‖²` of the two differ only in the last term, `scale²·(n·x)²` instead of `(n·x)²`. -/
theorem circumcircle_scaled_same_solutions (v0 : V3 ℝ) (rest : List (V3 ℝ)) (normal x : V3 ℝ) (r : ℝ)
    (hd : ∃ v ∈ rest, v ≠ v0) :
    (sumSq (circumSystemCircleScaled (v0 :: rest) normal) x r = 0 ↔
        sumSq (circumSystemCircle (v0 :: rest) normal) x r = 0) ∧
      sumSq (circumSystemCircleScaled (v0 :: rest) normal) x r =
        sumSq (circumSystemSphere (v0 :: rest)) x r +
          planeRowScale (v0 :: rest) * planeRowScale (v0 :: rest) * (V3.dot normal x * V3.dot normal x) := by
  have hs := planeRowScale_pos v0 rest hd
  have hval : sumSq (circumSystemCircleScaled (v0 :: rest) normal) x r =
      sumSq (circumSystemSphere (v0 :: rest)) x r +
        planeRowScale (v0 :: rest) * planeRowScale (v0 :: rest) * (V3.dot normal x * V3.dot normal x) := by
    unfold circumSystemCircleScaled
    rw [sumSq_append, sumSq_eq [_]]
    simp only [List.map_cons, List.map_nil, List.sum_cons, List.sum_nil, planeRow_resid]
    ring
  have hval1 : sumSq (circumSystemCircle (v0 :: rest) normal) x r =
      sumSq (circumSystemSphere (v0 :: rest)) x r + V3.dot normal x * V3.dot normal x := by
    unfold circumSystemCircle
    rw [sumSq_append, sumSq_eq [_]]
    have := planeRow_resid 1 normal x r
    have e : V3.smul 1 normal = normal := by ext <;> simp
    rw [e] at this
    simp only [List.map_cons, List.map_nil, List.sum_cons, List.sum_nil, this]
    ring
  refine ⟨?_, hval⟩
  rw [hval, hval1]
  have hA := sumSq_nonneg (circumSystemSphere (v0 :: rest)) x r
  have hB := mul_self_nonneg (V3.dot normal x)
  have hss : 0 < planeRowScale (v0 :: rest) * planeRowScale (v0 :: rest) := mul_pos hs hs
  constructor
  · intro h
    have h2 : 0 ≤ planeRowScale (v0 :: rest) * planeRowScale (v0 :: rest) * (V3.dot normal x * V3.dot normal x) :=
      mul_nonneg (le_of_lt hss) hB
    have hz : planeRowScale (v0 :: rest) * planeRowScale (v0 :: rest) * (V3.dot normal x * V3.dot normal x) = 0 := by
      linarith
    rcases mul_eq_zero.mp hz with h0 | h0
    · exact absurd h0 (ne_of_gt hss)
    · linarith
  · intro h
    have hz : V3.dot normal x * V3.dot normal x = 0 := by linarith
    rw [hz, mul_zero]; linarith

/-- **degenerate polygon (all vertices equal)**: the scale factor is `0`, every row of the system is
`0 · x = 0`, so EVERY `x` has residual `0` (the plane constraint is lost) and lstsq returns its
minimum-norm solution `x = 0`; the tail then fails in the `Circle` constructor (radius `‖x‖ = 0`):
`ValueError`, never a ball — whether lstsq reports `resids = [0]` or, being rank deficient, `[]`. -/
theorem circumcircle_degenerate (v0 : V3 ℝ) (rest : List (V3 ℝ)) (normal : V3 ℝ) (hall : ∀ v ∈ rest, v = v0) :
    planeRowScale (v0 :: rest) = 0 ∧
      (∀ x r, sumSq (circumSystemCircleScaled (v0 :: rest) normal) x r = 0) ∧
      circumcircle (v0 :: rest) normal V3.zero [0] = .error "ValueError" ∧
      circumcircle (v0 :: rest) normal V3.zero [] = .error "ValueError" := by
  have hpts : circumPoints (v0 :: rest) = rest.map fun _ => V3.zero := by
    unfold circumPoints
    apply List.map_congr_left
    intro v hv
    rw [hall v hv]; ext <;> simp
  have hnz : V3.norm (V3.zero : V3 ℝ) = 0 := by
    rw [V3.norm_eq, V3.normSq_eq]; simp
  have hscale : planeRowScale (v0 :: rest) = 0 := by
    unfold planeRowScale
    rw [hpts, List.map_map]
    cases rest with
    | nil => simp [listMax]
    | cons a l =>
      have hm := listMax_mem ((a :: l).map (V3.norm ∘ fun _ => (V3.zero : V3 ℝ))) (by simp)
      obtain ⟨_, _, he⟩ := List.mem_map.mp hm
      rw [← he]; exact hnz
  have hx0 : V3.norm (V3.zero : V3 ℝ) ≤ 0 := le_of_eq hnz
  refine ⟨hscale, fun x r => ?_, ?_, ?_⟩
  · rw [sumSq_eq_zero_iff]
    intro row hrow
    rw [circumSystemCircleScaled_mem, hscale] at hrow
    rcases hrow with hrow | rfl
    · unfold circumSystemSphere at hrow
      rw [hpts, List.map_map] at hrow
      obtain ⟨_, _, rfl⟩ := List.mem_map.mp hrow
      simp [Row.resid, V3.dot_eq]
    · rw [planeRow_resid]; ring
  · unfold circumcircle circumBall
    simp only [bind, Except.bind,
      residGuard_of_le (n := (v0 :: rest).length) (thresh := 3)
        (show |(0 : ℝ)| ≤ circumAtol (circumSystemCircle (v0 :: rest) normal) by
          rw [abs_zero]; exact circumAtol_nonneg _),
      Bool.false_eq_true, ↓reduceIte]
    unfold mkBall
    rw [if_neg]
    simpa using hx0
  · unfold circumcircle circumBall
    by_cases hl : (v0 :: rest).length > 3
    · have hg : residGuard (v0 :: rest).length 3 ([] : List ℝ)
          (circumAtol (circumSystemCircle (v0 :: rest) normal)) = .error "ValueError" := by
        unfold residGuard; rw [if_pos hl]
      simp only [hg, bind, Except.bind]
    · have hg : residGuard (v0 :: rest).length 3 ([] : List ℝ)
          (circumAtol (circumSystemCircle (v0 :: rest) normal)) = .ok false :=
        residGuard_of_small (by omega)
      simp only [hg, bind, Except.bind, Bool.false_eq_true, ↓reduceIte]
      unfold mkBall
      rw [if_neg]
      simpa using hx0


/-! ### in-balls -/

/-- the tolerance of `insphere` / `incircle`: `1e-8 * extent**2` -/
def inAtol (verts : List (V3 ℝ)) : ℝ := Scalar.q 1 100000000 * Scalar.sqr (extent verts)

theorem inBall_ok' {thresh : Nat} {verts : List (V3 ℝ)} {x : V3 ℝ} {r : ℝ}
    {resids : List ℝ} {B : Ball ℝ} (h : inBall thresh verts x r resids = .ok B) :
    B.radius = r ∧ B.center = x ∧ 0 < r ∧
      (verts.length ≤ thresh ∨ ∃ ρ, resids = [ρ] ∧ |ρ| ≤ inAtol verts) := by
  unfold inBall at h
  simp only [bind, Except.bind] at h
  split at h
  · cases h
  · next b hb =>
    cases b with
    | true => simp [throw, throwThe, MonadExceptOf.throw] at h
    | false =>
      simp only [Bool.false_eq_true, ↓reduceIte] at h
      obtain ⟨h1, h2, h3⟩ := mkBall_ok h
      exact ⟨h1, h2, h3, residGuard_false hb⟩

theorem inBall_raises_iff {thresh : Nat} {verts : List (V3 ℝ)} {x : V3 ℝ} {r ρ : ℝ}
    (hlen : thresh < verts.length) :
    inBall thresh verts x r [ρ] = .error "RuntimeError" ↔ inAtol verts < |ρ| := by
  constructor
  · intro h
    obtain ⟨_, ρ', hρ', hlt⟩ := inBall_runtimeError h
    have : ρ = ρ' := by simpa using hρ'
    rw [this]; exact hlt
  · intro h
    unfold inBall
    have h' : Scalar.q 1 100000000 * Scalar.sqr (extent verts) < |ρ| := h
    simp only [bind, Except.bind, residGuard_of_gt hlen h']
    rfl

theorem inBall_returns {thresh : Nat} {verts : List (V3 ℝ)} {x : V3 ℝ} {r ρ : ℝ}
    (hle : |ρ| ≤ inAtol verts) (hr : 0 < r) : inBall thresh verts x r [ρ] = .ok ⟨r, x⟩ := by
  unfold inBall
  have h' : |ρ| ≤ Scalar.q 1 100000000 * Scalar.sqr (extent verts) := hle
  simp only [bind, Except.bind, residGuard_of_le h', Bool.false_eq_true, ↓reduceIte]
  exact mkBall_of_pos _ hr

/-- **C13 insphere, tolerance (`_partial`)** — the in-ball analogue of `circumsphere_sound_partial`. What
the guard alone gives for a returned ball (more than four vertices, `resids = [‖A(x,r)−b‖²]`): it is
tangent to every face plane up to `(n_i·c + d_i + r)² ≤ 1e-8·extent²`. Missing for the full statement
(`IsTangentInside`): residuals in `(0, atol]` are accepted. -/
theorem insphere_sound_partial (verts : List (V3 ℝ)) (faces : List (V3 ℝ × V3 ℝ)) (x : V3 ℝ) (r : ℝ)
    (resids : List ℝ) (hlen : 4 < verts.length)
    (hres : resids = [sumSq (inSystemSphere faces) x r])
    {B : Ball ℝ} (h : insphere verts x r resids = .ok B) :
    ∀ e ∈ faceEqs faces,
      (V3.dot e.1 B.center + e.2 + B.radius) * (V3.dot e.1 B.center + e.2 + B.radius) ≤ inAtol verts := by
  obtain ⟨h1, h2, _, hg⟩ := inBall_ok' h
  rcases hg with hle | ⟨ρ, hρ, hle⟩
  · omega
  · rw [hres] at hρ
    have hρ' : sumSq (inSystemSphere faces) x r = ρ := by simpa using hρ
    intro e he
    obtain ⟨f, hf, rfl⟩ := List.mem_map.mp he
    have hb := resid_sq_le_sumSq (inSystemSphere faces) x r ⟨f.1, Scalar.lit 1, V3.dot f.1 f.2⟩
      (List.mem_map.mpr ⟨f, hf, rfl⟩)
    rw [hρ'] at hb
    have hle' := le_trans (le_abs_self ρ) hle
    rw [h1, h2]
    simp only [Row.resid, Scalar.lit_real, Nat.cast_one, one_mul] at hb
    have e1 : V3.dot f.1 x + -(V3.dot f.1 f.2) + r = V3.dot f.1 x + r - V3.dot f.1 f.2 := by ring
    rw [e1]
    linarith

theorem insphere_raises_iff (verts : List (V3 ℝ)) (faces : List (V3 ℝ × V3 ℝ)) (x : V3 ℝ) (r : ℝ)
    (resids : List ℝ) (hlen : 4 < verts.length)
    (hc : LstsqContract (inSystemSphere faces) x r resids) :
    insphere verts x r resids = .error "RuntimeError" ↔ inAtol verts < sumSq (inSystemSphere faces) x r := by
  unfold insphere
  rw [hc.resid, inBall_raises_iff hlen, abs_sumSq]

theorem in_exists_iff_zero (faces : List (V3 ℝ × V3 ℝ)) (x : V3 ℝ) (r : ℝ)
    (hmin : IsLstsqMin (inSystemSphere faces) x r) :
    (∃ c ρ, IsTangentInside (faceEqs faces) c ρ) ↔ sumSq (inSystemSphere faces) x r = 0 := by
  constructor
  · rintro ⟨c, ρ, h⟩
    have h0 := in_exists_imp_consistent faces c ρ h
    have := hmin c ρ
    rw [h0] at this
    exact le_antisymm this (sumSq_nonneg _ _ _)
  · intro h
    exact ⟨_, _, in_of_zero_resid faces x r h⟩

/-- with full column rank the tangent ball is unique, so the lstsq solution IS it -/
theorem in_solution_unique (faces : List (V3 ℝ × V3 ℝ)) (hinj : InjRows4 (inSystemSphere faces))
    {x c : V3 ℝ} {r ρ : ℝ} (h : sumSq (inSystemSphere faces) x r = 0)
    (h' : sumSq (inSystemSphere faces) c ρ = 0) : x = c ∧ r = ρ := by
  have z := (sumSq_eq_zero_iff _ _ _).mp h
  have z' := (sumSq_eq_zero_iff _ _ _).mp h'
  have hk : ∀ row ∈ inSystemSphere faces, row.lin (x - c) (r - ρ) = 0 := by
    intro row hrow
    have a := z row hrow; have a' := z' row hrow
    simp only [Row.resid] at a a'
    simp only [Row.lin, V3.dot_sub_right]
    linarith
  obtain ⟨hx0, hr0⟩ := hinj _ _ hk
  have hx := congrArg V3.x hx0; have hy := congrArg V3.y hx0; have hz := congrArg V3.z hx0
  simp only [V3.sub_x, V3.sub_y, V3.sub_z, V3.zero_x, V3.zero_y, V3.zero_z] at hx hy hz
  exact ⟨by ext <;> linarith, by linarith⟩

/-- **C13 insphere, existence ⇔ it is returned** (face normals and the column of ones of full column
rank, lstsq contract): a ball of positive radius tangent to every face plane from inside exists IF
AND ONLY IF the model returns a ball, and that ball is tangent to every face plane. -/
theorem insphere_exists_iff (verts : List (V3 ℝ)) (faces : List (V3 ℝ × V3 ℝ)) (x : V3 ℝ) (r : ℝ)
    (resids : List ℝ) (hinj : InjRows4 (inSystemSphere faces))
    (hc : LstsqContract (inSystemSphere faces) x r resids) :
    (∃ c ρ, 0 < ρ ∧ IsTangentInside (faceEqs faces) c ρ) ↔
      ∃ B, insphere verts x r resids = .ok B ∧ IsTangentInside (faceEqs faces) B.center B.radius := by
  constructor
  · rintro ⟨c, ρ, hρ, ht⟩
    have hz := (in_exists_iff_zero faces x r hc.isMin).mp ⟨c, ρ, ht⟩
    obtain ⟨e1, e2⟩ := in_solution_unique faces hinj hz (in_exists_imp_consistent faces c ρ ht)
    refine ⟨⟨r, x⟩, ?_, in_of_zero_resid faces x r hz⟩
    unfold insphere
    rw [hc.resid, hz]
    exact inBall_returns (by rw [abs_zero]; exact inAtol_nonneg verts) (by rw [e2]; exact hρ)
  · rintro ⟨B, hB, ht⟩
    exact ⟨B.center, B.radius, by obtain ⟨h1, _, h3⟩ := inBall_ok hB; rw [h1]; exact h3, ht⟩

/-- refusal (more than four vertices): `RuntimeError` ⇔ no tangent ball exists and the residual
exceeds `1e-8·extent²` -/
theorem insphere_refuses_iff (verts : List (V3 ℝ)) (faces : List (V3 ℝ × V3 ℝ)) (x : V3 ℝ) (r : ℝ)
    (resids : List ℝ) (hlen : 4 < verts.length)
    (hc : LstsqContract (inSystemSphere faces) x r resids) :
    insphere verts x r resids = .error "RuntimeError" ↔
      (¬ ∃ c ρ, IsTangentInside (faceEqs faces) c ρ) ∧ inAtol verts < sumSq (inSystemSphere faces) x r := by
  rw [insphere_raises_iff verts faces x r resids hlen hc]
  constructor
  · intro h
    refine ⟨fun hex => ?_, h⟩
    have := (in_exists_iff_zero faces x r hc.isMin).mp hex
    rw [this] at h
    exact absurd h (not_lt.mpr (inAtol_nonneg verts))
  · exact fun h => h.2

/-- polygon: `RuntimeError` ⇔ residual above `1e-8·extent²`, and then no incircle exists -/
theorem incircle_refuses_iff (verts : List (V3 ℝ)) (normal : V3 ℝ) (sa : ℝ) (x : V3 ℝ) (r : ℝ)
    (resids : List ℝ) (hlen : 3 < verts.length)
    (hc : LstsqContract (inSystemCircle verts normal sa) x r resids) :
    incircle verts x r resids = .error "RuntimeError" ↔
      (¬ ∃ c ρ, IsTangentInside (faceEqs (edgeFaces verts normal sa)) c ρ ∧
          InPlane normal (firstVertex verts) c) ∧
        inAtol verts < sumSq (inSystemCircle verts normal sa) x r := by
  have hraise : incircle verts x r resids = .error "RuntimeError" ↔
      inAtol verts < sumSq (inSystemCircle verts normal sa) x r := by
    unfold incircle
    rw [hc.resid, inBall_raises_iff hlen, abs_sumSq]
  rw [hraise]
  constructor
  · intro h
    refine ⟨?_, h⟩
    rintro ⟨c, ρ, ht, hp⟩
    have h0 := incircle_exists_imp_consistent verts normal sa c ρ ht hp
    have hm := hc.isMin c ρ
    rw [h0] at hm
    have hz : sumSq (inSystemCircle verts normal sa) x r = 0 := le_antisymm hm (sumSq_nonneg _ _ _)
    rw [hz] at h
    exact absurd h (not_lt.mpr (inAtol_nonneg verts))
  · exact fun h => h.2

/-- **C13 incircle, existence ⇒ it is returned** (full column rank, lstsq contract), and conversely a
returned ball with zero residual is the incircle. -/
theorem incircle_exists_iff (verts : List (V3 ℝ)) (normal : V3 ℝ) (sa : ℝ) (x : V3 ℝ) (r : ℝ)
    (resids : List ℝ) (hinj : InjRows4 (inSystemCircle verts normal sa))
    (hc : LstsqContract (inSystemCircle verts normal sa) x r resids) :
    (∃ c ρ, 0 < ρ ∧ IsTangentInside (faceEqs (edgeFaces verts normal sa)) c ρ ∧
        InPlane normal (firstVertex verts) c) ↔
      ∃ B, incircle verts x r resids = .ok B ∧
        IsTangentInside (faceEqs (edgeFaces verts normal sa)) B.center B.radius ∧
        InPlane normal (firstVertex verts) B.center := by
  constructor
  · rintro ⟨c, ρ, hρ, ht, hp⟩
    have h0 := incircle_exists_imp_consistent verts normal sa c ρ ht hp
    have hm := hc.isMin c ρ
    rw [h0] at hm
    have hz : sumSq (inSystemCircle verts normal sa) x r = 0 := le_antisymm hm (sumSq_nonneg _ _ _)
    -- uniqueness through the kernel
    have z := (sumSq_eq_zero_iff _ _ _).mp hz
    have z' := (sumSq_eq_zero_iff _ _ _).mp h0
    have hk : ∀ row ∈ inSystemCircle verts normal sa, row.lin (x - c) (r - ρ) = 0 := by
      intro row hrow
      have a := z row hrow; have a' := z' row hrow
      simp only [Row.resid] at a a'
      simp only [Row.lin, V3.dot_sub_right]
      linarith
    obtain ⟨_, hr0⟩ := hinj _ _ hk
    have hr : 0 < r := by linarith
    refine ⟨⟨r, x⟩, ?_, incircle_of_zero_resid verts normal sa x r hz⟩
    unfold incircle
    rw [hc.resid, hz]
    exact inBall_returns (by rw [abs_zero]; exact inAtol_nonneg verts) hr
  · rintro ⟨B, hB, ht, hp⟩
    exact ⟨B.center, B.radius, by obtain ⟨h1, _, h3⟩ := inBall_ok hB; rw [h1]; exact h3, ht, hp⟩

/-! ### small vertex counts: no residual test, the ball always exists (Cramer) -/

/-- Cramer's rule for three equations `a_i · x = b_i` -/
theorem cramer3 (a1 a2 a3 : V3 ℝ) (b1 b2 b3 : ℝ) (hdet : V3.det3 a1 a2 a3 ≠ 0) :
    ∃ x : V3 ℝ, V3.dot a1 x = b1 ∧ V3.dot a2 x = b2 ∧ V3.dot a3 x = b3 := by
  have hdiv : ∀ a N : V3 ℝ, ∀ D : ℝ, V3.dot a (V3.sdiv N D) = V3.dot a N / D := by
    intro a N D
    simp only [V3.dot_eq, V3.sdiv_x, V3.sdiv_y, V3.sdiv_z]; ring
  refine ⟨V3.sdiv (V3.smul b1 (V3.cross a2 a3) + V3.smul b2 (V3.cross a3 a1) + V3.smul b3 (V3.cross a1 a2))
    (V3.det3 a1 a2 a3), ?_, ?_, ?_⟩ <;>
  · rw [hdiv, div_eq_iff hdet]
    obtain ⟨p, q, r⟩ := a1; obtain ⟨s, t, u⟩ := a2; obtain ⟨v, w, z⟩ := a3
    simp only [V3.det3, V3.dot_eq, V3.cross, V3.add_x, V3.add_y, V3.add_z,
      V3.smul_x, V3.smul_y, V3.smul_z]
    ring

/-- **every non-degenerate tetrahedron has a circumsphere** -/
theorem tetrahedron_circum_exists (v0 v1 v2 v3 : V3 ℝ)
    (hdet : V3.det3 (v1 - v0) (v2 - v0) (v3 - v0) ≠ 0) : ∃ c ρ, IsCircum c ρ [v0, v1, v2, v3] := by
  obtain ⟨x, h1, h2, h3⟩ := cramer3 (v1 - v0) (v2 - v0) (v3 - v0)
    (V3.dot (v1 - v0) (v1 - v0) / 2) (V3.dot (v2 - v0) (v2 - v0) / 2) (V3.dot (v3 - v0) (v3 - v0) / 2) hdet
  refine ⟨x + v0, V3.norm x, circum_of_zero_resid v0 [v1, v2, v3] x 0 ?_⟩
  rw [sumSq_eq_zero_iff, circumSystemSphere_cons]
  intro row hrow
  simp only [List.map_cons, List.map_nil, List.mem_cons, List.not_mem_nil, or_false] at hrow
  rcases hrow with rfl | rfl | rfl <;>
    simp only [Row.resid, Scalar.lit_real, Nat.cast_zero, Nat.cast_ofNat, zero_mul, add_zero] <;> linarith

/-- … and (lstsq contract) the model returns it — for four vertices `circumsphere` performs no residual
test, and needs none. -/
theorem circumsphere_tetrahedron (v0 v1 v2 v3 x : V3 ℝ) (resids : List ℝ)
    (hdet : V3.det3 (v1 - v0) (v2 - v0) (v3 - v0) ≠ 0) (hne : v1 ≠ v0)
    (hmin : IsLstsqMin (circumSystemSphere [v0, v1, v2, v3]) x 0) :
    ∃ B, circumsphere [v0, v1, v2, v3] x resids = .ok B ∧ IsCircum B.center B.radius [v0, v1, v2, v3] := by
  have hz := (circum_exists_iff_zero v0 [v1, v2, v3] x hmin).mp (tetrahedron_circum_exists v0 v1 v2 v3 hdet)
  have hcirc := circum_of_zero_resid v0 [v1, v2, v3] x 0 hz
  have hx := norm_pos_of_circum hcirc ⟨v1, by simp, hne⟩
  refine ⟨⟨V3.norm x, x + v0⟩, ?_, hcirc⟩
  unfold circumsphere
  exact circumBall_returns_small (by simp) hx

/-- **every non-degenerate triangle has a circumcircle** in its plane -/
theorem triangle_circum_exists (v0 v1 v2 normal : V3 ℝ) (hne : v1 ≠ v0)
    (hdet : V3.det3 (v1 - v0) (v2 - v0) normal ≠ 0) :
    ∃ c ρ, IsCircum c ρ [v0, v1, v2] ∧ InPlane normal v0 c := by
  obtain ⟨x, h1, h2, h3⟩ := cramer3 (v1 - v0) (v2 - v0) normal
    (V3.dot (v1 - v0) (v1 - v0) / 2) (V3.dot (v2 - v0) (v2 - v0) / 2) 0 hdet
  refine ⟨x + v0, V3.norm x, circumcircle_of_zero_resid v0 [v1, v2] normal x 0
    (ne_of_gt (planeRowScale_pos v0 [v1, v2] ⟨v1, by simp, hne⟩)) ?_⟩
  rw [sumSq_eq_zero_iff]
  intro row hrow
  rw [circumSystemCircleScaled_mem, circumSystemSphere_cons] at hrow
  simp only [List.map_cons, List.map_nil, List.mem_cons, List.not_mem_nil, or_false] at hrow
  rcases hrow with (rfl | rfl) | rfl
  · simp only [Row.resid, Scalar.lit_real, Nat.cast_zero, Nat.cast_ofNat, zero_mul, add_zero]; linarith
  · simp only [Row.resid, Scalar.lit_real, Nat.cast_zero, Nat.cast_ofNat, zero_mul, add_zero]; linarith
  · rw [planeRow_resid, h3, mul_zero]

/-! ### the tolerance margin is real: `circumsphere_sound_partial` cannot be strengthened -/

/-- the witness: the cube corner `(2,2,2)` moved out along the diagonal by `1/4096` -/
def marginVerts : List (V3 ℝ) :=
  [⟨0,0,0⟩, ⟨2,0,0⟩, ⟨0,2,0⟩, ⟨0,0,2⟩, ⟨8193/4096, 8193/4096, 8193/4096⟩]

/-- its exact least-squares solution -/
def marginX : V3 ℝ :=
  ⟨2199627309059/2199425933312, 2199627309059/2199425933312, 2199627309059/2199425933312⟩

theorem marginRows : circumSystemSphere marginVerts =
    [⟨⟨2,0,0⟩, 0, 2⟩, ⟨⟨0,2,0⟩, 0, 2⟩, ⟨⟨0,0,2⟩, 0, 2⟩,
     ⟨⟨8193/4096, 8193/4096, 8193/4096⟩, 0, 201375747/33554432⟩] := by
  simp only [marginVerts, circumSystemSphere, circumPoints, List.map_cons, List.map_nil, List.cons.injEq,
    and_true, Row.mk.injEq]
  refine ⟨⟨?_, ?_, ?_⟩, ⟨?_, ?_, ?_⟩, ⟨?_, ?_, ?_⟩, ⟨?_, ?_, ?_⟩⟩
  all_goals first
    | (ext <;> simp)
    | (simp only [V3.dot_eq, V3.sub_x, V3.sub_y, V3.sub_z, Scalar.lit_real]; norm_num; done)

theorem margin_contract :
    LstsqContract (circumSystemSphere marginVerts) marginX 0 [sumSq (circumSystemSphere marginVerts) marginX 0] := by
  refine ⟨?_, rfl⟩
  apply normalEq_imp_min
  rw [marginRows]
  constructor
  · ext <;> simp [BallSpec.normalGrad, V3.sum, V3.add, V3.smul, V3.zero, Row.resid, V3.dot_eq, marginX,
      Scalar.lit] <;> norm_num
  · simp [BallSpec.normalGrad, Row.resid, V3.dot_eq, marginX]

theorem margin_resid : sumSq (circumSystemSphere marginVerts) marginX 0 =
    (3 * (2 * (2199627309059/2199425933312 : ℝ) - 2) ^ 2
      + (3 * (8193/4096) * (2199627309059/2199425933312) - 201375747/33554432) ^ 2) := by
  rw [marginRows, sumSq_eq]
  simp only [List.map_cons, List.map_nil, List.sum_cons, List.sum_nil, Row.resid, V3.dot_eq, marginX]
  ring

/-- **`circumsphere_sound_partial` is tight (`_fails`).** Even with the exact lstsq contract it is FALSE
that every returned ball passes through every vertex: for the five points `marginVerts` no sphere
passes through all of them (residual `1.3e-7 > 0`), yet the residual is below
`atol = 1e-8·(max b)² = 3.6e-7` and the model returns a ball. (The property is read with this
margin excluded; the check never reports it.) -/
theorem circumsphere_exact_in_margin_fails :
    ¬ ∀ (V : List (V3 ℝ)) (x : V3 ℝ) (resids : List ℝ) (B : Ball ℝ),
        LstsqContract (circumSystemSphere V) x 0 resids → circumsphere V x resids = .ok B →
        IsCircum B.center B.radius V := by
  intro hall
  have hpos : 0 < sumSq (circumSystemSphere marginVerts) marginX 0 := by
    rw [margin_resid]; norm_num
  have hle : sumSq (circumSystemSphere marginVerts) marginX 0 ≤ circumAtol (circumSystemSphere marginVerts) := by
    have hat : circumAtol (circumSystemSphere marginVerts) = (1/100000000 : ℝ) * ((201375747/33554432) * (201375747/33554432)) := by
      rw [marginRows]
      simp only [circumAtol, listMax, List.map_cons, List.map_nil, List.foldl_cons, List.foldl_nil,
        Scalar.max_real, Scalar.q, Scalar.ofNat_real, Scalar.sqr_real]
      norm_num
    rw [hat, margin_resid]; norm_num
  have hd : ∃ v ∈ [(⟨2,0,0⟩ : V3 ℝ), ⟨0,2,0⟩, ⟨0,0,2⟩, ⟨8193/4096, 8193/4096, 8193/4096⟩], v ≠ (⟨0,0,0⟩ : V3 ℝ) :=
    ⟨⟨2,0,0⟩, by simp, by intro h; have := congrArg V3.x h; norm_num at this⟩
  have hx := circum_x_pos_of_small_resid ⟨0,0,0⟩ _ marginX hd hle
  have hret : circumsphere marginVerts marginX [sumSq (circumSystemSphere marginVerts) marginX 0] =
      .ok ⟨V3.norm marginX, marginX + firstVertex marginVerts⟩ := by
    unfold circumsphere
    exact circumBall_returns (by rw [abs_sumSq]; exact hle) hx
  have hcirc := hall marginVerts marginX _ _ margin_contract hret
  have hz := (circum_exists_iff_zero ⟨0,0,0⟩ _ marginX margin_contract.isMin).mp ⟨_, _, hcirc⟩
  exact absurd hz (ne_of_gt hpos)


/-! ## 11. minimal bounding ball: exact checker, uniqueness, rotation invariance, and why the bare
retry loop (the code before da3be45, which never verified the result of the external `miniball`)
is not enough. The theorems of this section are about the loop around an ARBITRARY `try` block
(`minimalBoundingWith`); the repaired code is section 16. -/

/-- **soundness of the lower bound the driver computes over ℚ** (`BallSpec.certSide`,
`BallSpec.certLower`): for ANY weights `≥ 0` on points of the set, every ball containing the points
has `r'² ≥ Σλ‖s − c*‖²/Σλ`. Nothing about how the weights were found is trusted. -/
theorem miniball_lower_bound_sound (pts : List (V3 ℝ)) (sup : List (ℝ × V3 ℝ))
    (h : BallSpec.certSide pts sup = true) (c' : V3 ℝ) (r' : ℝ) (hb : IsBounding c' r' pts) :
    BallSpec.certLower sup ≤ r' * r' := certLower_le h c' r' hb

/-- **the per-run minimality check is sound**: the squared radius of the minimal bounding ball lies
between the two exactly computed numbers `certLower sup` and `maxDistSq pts c` (`c` = the centre the
implementation returned). The check accepts a returned `r²` only if both are within `1e-6·r²` of it. -/
theorem miniball_bracket (pts : List (V3 ℝ)) (sup : List (ℝ × V3 ℝ)) (c c0 : V3 ℝ) (r0 : ℝ)
    (h : BallSpec.certSide pts sup = true) (hmin : IsMinimalBounding c0 r0 pts) :
    BallSpec.certLower sup ≤ r0 * r0 ∧ r0 * r0 ≤ BallSpec.maxDistSq pts c := cert_bracket h c hmin

/-- exact form of the checker: sound for "is the minimal bounding ball" -/
theorem miniball_checker_sound (pts : List (V3 ℝ)) (c : V3 ℝ) (r2 : ℝ) (sup : List (ℝ × V3 ℝ))
    (h : BallSpec.certExact pts c r2 sup = true) : IsMinimalBounding c (Real.sqrt r2) pts :=
  certExact_sound h

/-- … and complete relative to the certificate: a ball with a support certificate (`IsCertificate`)
whose support points are literally among the points passes the exact checker with `r² ` -/
theorem miniball_checker_complete (pts : List (V3 ℝ)) (c : V3 ℝ) (r : ℝ) (sup : List (ℝ × V3 ℝ))
    (h : IsCertificate pts c r sup) : BallSpec.certLower sup = r * r ∧ BallSpec.supCentre sup = c := by
  have hw : BallSpec.supWeight sup = 1 := by simp [BallSpec.supWeight, h.sum_one]
  have hc : BallSpec.supCentre sup = c := by
    unfold BallSpec.supCentre
    rw [hw, h.comb]; ext <;> simp
  refine ⟨?_, hc⟩
  unfold BallSpec.certLower
  rw [hw, hc, div_one, Scalar.sum_real]
  have := weighted_const sup (fun p => BallSpec.distSq p c) (r * r) (by
    intro s hs
    have := h.onSphere s hs
    unfold BallSpec.dist at this
    show V3.normSq (s.2 - c) = r * r
    rw [← V3.norm_mul_self, this])
  rw [this, h.sum_one, one_mul]

/-- **completeness of the support certificate** (geometric Hahn–Banach + an explicit improvement step,
Lemmas/BallsComplete.lean): EVERY minimal bounding ball of a non-empty point list has a support
certificate — so demanding one per run never rejects a correct answer — and with `miniball_optimal`:
a ball is the minimal bounding ball if and only if it has a certificate. -/
theorem miniball_certificate_complete (pts : List (V3 ℝ)) (hne : pts ≠ []) (c : V3 ℝ) (r : ℝ) :
    IsMinimalBounding c r pts ↔ ∃ sup, IsCertificate pts c r sup := minimal_iff_certificate pts hne c r

/-- hence the exact checker is complete too: for the minimal ball there are weights on points of the
list whose lower bound `certLower` equals `r²` and whose weighted centre is the centre -/
theorem miniball_checker_complete_for_minimal (pts : List (V3 ℝ)) (hne : pts ≠ []) (c : V3 ℝ) (r : ℝ)
    (h : IsMinimalBounding c r pts) :
    ∃ sup, (∀ s ∈ sup, 0 ≤ s.1 ∧ s.2 ∈ pts) ∧ BallSpec.certLower sup = r * r ∧ BallSpec.supCentre sup = c := by
  obtain ⟨sup, hs⟩ := (minimal_iff_certificate pts hne c r).mp h
  exact ⟨sup, fun s hm => ⟨hs.nonneg s hm, hs.mem s hm⟩, miniball_checker_complete pts c r sup hs⟩

/-- **the minimal bounding ball is unique** -/
theorem miniball_unique (pts : List (V3 ℝ)) (hne : pts ≠ []) (c1 c2 : V3 ℝ) (r1 r2 : ℝ)
    (h1 : IsMinimalBounding c1 r1 pts) (h2 : IsMinimalBounding c2 r2 pts) : r1 = r2 ∧ c1 = c2 :=
  minimal_bounding_unique hne h1 h2

/-- **rotation invariance of the certificate**: a certificate for the points under a unit rotation
`q` rotates back (`conj q`) to a certificate for the ORIGINAL points, same weights, same radius. -/
theorem miniball_certificate_rotates_back (q : Quat ℝ) (hq : Quat.normSq q = 1) (V : List (V3 ℝ))
    (c : V3 ℝ) (r : ℝ) (sup : List (ℝ × V3 ℝ)) (h : IsCertificate (V.map (Quat.rotate q)) c r sup) :
    IsCertificate V (Quat.rotate (Quat.conj q) c) r
      (sup.map fun s => (s.1, Quat.rotate (Quat.conj q) s.2)) := h.rotate_back hq

/-- what the model returns, spelled out: the result of the first attempt `k ≤ 50` (`max_attempts`) on which miniball
did not fail, rotated back by the rotation in force during that attempt -/
theorem minimalBounding_ok (mb : Nat → List (V3 ℝ) → Option (V3 ℝ × ℝ)) (rand : Nat → Quat ℝ)
    (V : List (V3 ℝ)) {B : Ball ℝ} (h : minimalBoundingWith mb rand V = .ok B) :
    ∃ k c r2, 1 ≤ k ∧ k ≤ 50 ∧ mb k (seenAt rand V k) = some (c, r2) ∧
      (∀ j, 1 ≤ j → j < k → mb j (seenAt rand V j) = none) ∧
      B.radius = Real.sqrt r2 ∧ B.center = Quat.rotate (Quat.conj (rotAt rand k)) c ∧ 0 < r2 := by
  unfold minimalBoundingWith at h
  simp only [bind, Except.bind] at h
  split at h
  · cases h
  · next res hres =>
    obtain ⟨c, r2, q⟩ := res
    simp only at h
    obtain ⟨h1, h2, h3⟩ := mkBall_ok h
    have h0 : mbLoop mb rand V maxAttempts 0 (rotAt rand (0 + 1)) (seenAt rand V (0 + 1)) = .ok (c, r2, q) := by
      simpa [rotAt, seenAt] using hres
    obtain ⟨k, hk1, hk2, hk, hq, hfail⟩ := mbLoop_ok mb rand V maxAttempts 0 c r2 q h0
    refine ⟨k, c, r2, by omega, by simpa [maxAttempts] using hk2, hk, fun j h1 h2 => hfail j (by omega) h2,
      by rw [h1]; rfl, by rw [h2, hq], ?_⟩
    simp only [Scalar.sqrt_real] at h3
    exact Real.sqrt_pos.mp h3

/-- **C13 minimal bounding ball, certificate-relative.** If the ACCEPTED miniball result (the one of the
first non-failing attempt, for the possibly rotated points it was given) carries a support
certificate, then the ball the model returns is THE minimal bounding ball of the ORIGINAL vertices:
it contains every vertex, no containing ball is smaller, and every minimal ball equals it. The
hypothesis concerns this one result only — it is what the check verifies per run. -/
theorem minimal_bounding_certified (mb : Nat → List (V3 ℝ) → Option (V3 ℝ × ℝ)) (rand : Nat → Quat ℝ)
    (V : List (V3 ℝ)) (hrand : ∀ k, Quat.normSq (rand k) = 1)
    (hcert : ∀ k c r2, mb k (seenAt rand V k) = some (c, r2) → 0 < r2 →
      (∀ j, 1 ≤ j → j < k → mb j (seenAt rand V j) = none) →
      ∃ sup, IsCertificate (seenAt rand V k) c (Real.sqrt r2) sup)
    {B : Ball ℝ} (h : minimalBoundingWith mb rand V = .ok B) :
    IsMinimalBounding B.center B.radius V ∧
      ∀ c' r', IsMinimalBounding c' r' V → r' = B.radius ∧ c' = B.center := by
  obtain ⟨k, c, r2, _, _, hk, hfail, hr, hc, hpos⟩ := minimalBounding_ok mb rand V h
  obtain ⟨sup, hsup⟩ := hcert k c r2 hk hpos hfail
  rw [seenAt_eq_map] at hsup
  have hback := hsup.rotate_back (rotAt_unit rand hrand k)
  rw [← hc, ← hr] at hback
  exact ⟨certificate_optimal _ _ _ _ hback, fun c' r' h' => certificate_unique hback h'⟩

/-- the bare loop passes containment on: if the accepted result of the `try` block contains the
points it was given, the returned ball contains every vertex (any number of retries). -/
theorem minimal_bounding_loop_contains (mb : Nat → List (V3 ℝ) → Option (V3 ℝ × ℝ))
    (rand : Nat → Quat ℝ) (V : List (V3 ℝ)) (hrand : ∀ k, Quat.normSq (rand k) = 1)
    (hmb : ∀ k c r2, mb k (seenAt rand V k) = some (c, r2) → IsBounding c (Real.sqrt r2) (seenAt rand V k))
    {B : Ball ℝ} (h : minimalBoundingWith mb rand V = .ok B) : IsBounding B.center B.radius V := by
  obtain ⟨k, c, r2, _, _, hk, _, hr, hc, _⟩ := minimalBounding_ok mb rand V h
  have hb := hmb k c r2 hk
  rw [seenAt_eq_map] at hb
  have hq := rotAt_unit rand hrand k
  intro v hv
  have := hb (Quat.rotate (rotAt rand k) v) (List.mem_map.mpr ⟨v, hv, rfl⟩)
  unfold InBall BallSpec.dist at this ⊢
  rw [hc, hr, ← norm_rotate_sub hq, rotate_rotate_conj_unit hq]
  exact this

/-- **the defect repaired in da3be45, as a theorem about the bare loop**: without an acceptance test
in the `try` block the returned ball need not even contain the vertices — if the external routine
answers `(0, 1/4)` for the two points `(±1, 0, 0)` the loop returns the ball of radius `1/2` about
the origin. (Observed with the real `miniball` 1.0.3 on cospherical vertex sets, e.g. a rotated
triangular prism with `random.seed(14)`; the repaired `try` block rejects such an answer: section 16.) -/
theorem minimal_bounding_without_check_fails :
    ¬ ∀ (mb : Nat → List (V3 ℝ) → Option (V3 ℝ × ℝ)) (rand : Nat → Quat ℝ) (V : List (V3 ℝ)) (B : Ball ℝ),
        (∀ k, Quat.normSq (rand k) = 1) → minimalBoundingWith mb rand V = .ok B →
        IsBounding B.center B.radius V := by
  intro hall
  have hs : Real.sqrt (1/4 : ℝ) = 1/2 := by
    rw [show (1/4 : ℝ) = (1/2) * (1/2) by norm_num]
    exact Real.sqrt_mul_self (by norm_num)
  have hret : minimalBoundingWith (fun _ _ => some ((⟨0,0,0⟩ : V3 ℝ), (1/4 : ℝ))) (fun _ => Quat.one)
      [(⟨1,0,0⟩ : V3 ℝ), ⟨-1,0,0⟩] = .ok ⟨1/2, Quat.rotate (Quat.conj Quat.one) ⟨0,0,0⟩⟩ := by
    simp only [minimalBoundingWith, mbLoop, maxAttempts, bind, Except.bind, Scalar.sqrt_real, hs]
    exact mkBall_of_pos _ (by norm_num)
  have hb := hall _ _ _ _ (fun _ => normSq_one) hret ⟨1,0,0⟩ (by simp)
  have hcen : Quat.rotate (Quat.conj (Quat.one : Quat ℝ)) (⟨0,0,0⟩ : V3 ℝ) = ⟨0,0,0⟩ := by
    ext <;> simp only [Quat.one, V3.zero] <;> unfold_vec <;> ring
  unfold InBall BallSpec.dist at hb
  simp only [hcen] at hb
  have hn : V3.norm ((⟨1,0,0⟩ : V3 ℝ) - ⟨0,0,0⟩) = 1 := by
    rw [V3.norm_eq, V3.normSq_eq]; simp
  rw [hn] at hb
  norm_num at hb

/-! ## 12. the centred bounded circle lies INSIDE a convex polygon (half-planes of its edges) -/

/-- for `w, u ⊥ N`, `‖N‖ = 1`: `‖w × u‖² = (w · (u × N))²` (`(w×u)×N = u(w·N) − w(u·N) = 0` and Lagrange) -/
theorem cross_planar_normSq (w u N : V3 ℝ) (hN : V3.normSq N = 1) (hw : V3.dot w N = 0)
    (hu : V3.dot u N = 0) :
    V3.normSq (V3.cross w u) = V3.dot w (V3.cross u N) * V3.dot w (V3.cross u N) := by
  have hbac : V3.cross (V3.cross w u) N = V3.smul (V3.dot w N) u - V3.smul (V3.dot u N) w := by
    obtain ⟨a, b, c⟩ := w; obtain ⟨d, e, f⟩ := u; obtain ⟨g, h, i⟩ := N
    ext <;> simp only [V3.cross, V3.dot_eq, V3.sub_x, V3.sub_y, V3.sub_z, V3.smul_x, V3.smul_y, V3.smul_z] <;>
      ring
  have hz : V3.normSq (V3.cross (V3.cross w u) N) = 0 := by
    rw [hbac, hw, hu, V3.normSq_eq]; simp
  rw [V3.lagrange, hN, mul_one] at hz
  have htriple : V3.dot (V3.cross w u) N = V3.dot w (V3.cross u N) := by
    obtain ⟨a, b, c⟩ := w; obtain ⟨d, e, f⟩ := u; obtain ⟨g, h, i⟩ := N
    simp only [V3.cross, V3.dot_eq]; ring
  rw [← htriple]; linarith

theorem cross_unit_of_perp (u N : V3 ℝ) (hu : V3.norm u = 1) (hN : V3.norm N = 1) (huN : V3.dot u N = 0) :
    V3.norm (V3.cross u N) = 1 := by
  have h1 : V3.normSq u = 1 := by rw [← V3.norm_mul_self, hu]; ring
  have h2 : V3.normSq N = 1 := by rw [← V3.norm_mul_self, hN]; ring
  rw [V3.norm_eq, V3.lagrange, h1, h2, huN]; simp

/-- the half-planes of the edges of a polygon in the plane with unit normal `N`: through `v_i`,
outward normal `σ·(u_i × N)` (`σ = 1` for vertices counter-clockwise about `N`, `−1` clockwise) -/
def edgeHalfPlanes (σ : ℝ) (N : V3 ℝ) (verts : List (V3 ℝ)) : List (V3 ℝ × ℝ) :=
  (edgeLines verts).map fun l => (V3.smul σ (V3.cross l.2 N), -(V3.dot (V3.smul σ (V3.cross l.2 N)) l.1))

/-- **C13 centred bounded circle of a CONVEX polygon.** The polygon lies in a plane with unit normal `N`
(edge directions and `c − v_i` orthogonal to `N`), it is the intersection of the half-planes of its
edges, and the centre is strictly inside every one of them. Then whatever
`maximal_centered_bounded_circle` returns lies inside every half-plane (so inside the polygon),
touches the nearest edge line, and every larger concentric ball sticks out. This is where convexity
is used: the code measures distances to edge LINES, which is the distance to the boundary only for
a convex polygon (for a non-convex `Polygon` the getter is not defined: `NotImplementedError`). -/
theorem max_centered_bounded_circle_inside (verts : List (V3 ℝ)) (c N : V3 ℝ) (σ : ℝ) (hne : verts ≠ [])
    (hσ : σ = 1 ∨ σ = -1) (hN : V3.norm N = 1)
    (hunit : ∀ l ∈ edgeLines verts, V3.norm l.2 = 1)
    (hplanar : ∀ l ∈ edgeLines verts, V3.dot l.2 N = 0 ∧ V3.dot (c - l.1) N = 0)
    (hinside : ∀ e ∈ edgeHalfPlanes σ N verts, V3.dot c e.1 + e.2 < 0)
    {B : Ball ℝ} (h : maximalCenteredBoundedCircle verts c = .ok B) :
    B.center = c ∧ IsMaxCenteredBounded (edgeHalfPlanes σ N verts) B.center B.radius := by
  obtain ⟨hc, hlines, l0, hl0, t0, ht0⟩ := max_centered_bounded_circle_spec verts c hne hunit h
  have hNsq : V3.normSq N = 1 := by rw [← V3.norm_mul_self, hN]; ring
  have hσσ : σ * σ = 1 := by rcases hσ with rfl | rfl <;> norm_num
  have hσabs : |σ| = 1 := by rcases hσ with rfl | rfl <;> simp
  -- per edge: unit normal, and the code's distance is minus the signed distance of the centre
  have hedge : ∀ l ∈ edgeLines verts,
      V3.norm (V3.smul σ (V3.cross l.2 N)) = 1 ∧
      lineDist c l.1 l.2 = -(V3.dot c (V3.smul σ (V3.cross l.2 N)) + -(V3.dot (V3.smul σ (V3.cross l.2 N)) l.1)) := by
    intro l hl
    obtain ⟨hp1, hp2⟩ := hplanar l hl
    have hun := cross_unit_of_perp l.2 N (hunit l hl) hN hp1
    refine ⟨by rw [V3.norm_smul, hσabs, hun, one_mul], ?_⟩
    have hneg := hinside _ (List.mem_map.mpr ⟨l, hl, rfl⟩)
    simp only at hneg
    set s := V3.dot c (V3.smul σ (V3.cross l.2 N)) + -(V3.dot (V3.smul σ (V3.cross l.2 N)) l.1) with hs
    have hs' : s = σ * V3.dot (c - l.1) (V3.cross l.2 N) := by
      rw [hs]; simp only [V3.dot_eq, V3.smul_x, V3.smul_y, V3.smul_z, V3.sub_x, V3.sub_y, V3.sub_z]; ring
    have hsq := cross_planar_normSq (c - l.1) l.2 N hNsq hp2 hp1
    unfold lineDist
    rw [V3.norm_eq_iff _ (by linarith), hsq]
    rw [hs']
    have : σ * V3.dot (c - l.1) (V3.cross l.2 N) * (σ * V3.dot (c - l.1) (V3.cross l.2 N)) =
        (σ * σ) * (V3.dot (c - l.1) (V3.cross l.2 N) * V3.dot (c - l.1) (V3.cross l.2 N)) := by ring
    rw [neg_mul_neg, this, hσσ, one_mul]
  -- radius ≤ every line distance, with equality for the nearest line
  have hrle : ∀ l ∈ edgeLines verts, B.radius ≤ lineDist c l.1 l.2 := by
    intro l hl
    have := hlines l hl (V3.dot (c - l.1) l.2)
    rw [hc, lineDist_attained c l.1 l.2 (hunit l hl)] at this
    exact this
  have hr0 : B.radius = lineDist c l0.1 l0.2 := by
    have h1 := hrle l0 hl0
    have h2 := lineDist_le c l0.1 l0.2 (hunit l0 hl0) t0
    rw [hc] at ht0
    rw [ht0] at h2
    exact le_antisymm h1 h2
  have hrpos : 0 < B.radius := by
    rw [hr0, (hedge l0 hl0).2]
    have := hinside _ (List.mem_map.mpr ⟨l0, hl0, rfl⟩)
    simp only at this
    linarith
  refine ⟨hc, ?_, ?_, ?_⟩
  · intro p hp e he
    obtain ⟨l, hl, rfl⟩ := List.mem_map.mp he
    rw [hc] at hp
    have hcs := dot_le_of_inBall (hedge l hl).1 hp
    have hd := (hedge l hl).2
    have := hrle l hl
    simp only [Scalar.lit_real, Nat.cast_zero]
    linarith
  · refine ⟨_, List.mem_map.mpr ⟨l0, hl0, rfl⟩, along c (V3.smul σ (V3.cross l0.2 N)) B.radius, ?_, ?_⟩
    · rw [hc]; unfold InBall; rw [dist_along _ _ _ (hedge l0 hl0).1, abs_of_pos hrpos]
    · simp only
      rw [dot_along _ _ _ (hedge l0 hl0).1]
      have hd := (hedge l0 hl0).2
      simp only [Scalar.lit_real, Nat.cast_zero]
      linarith
  · intro r' hr' hin
    have hp : InBall B.center r' (along c (V3.smul σ (V3.cross l0.2 N)) r') := by
      rw [hc]; unfold InBall
      rw [dist_along _ _ _ (hedge l0 hl0).1, abs_of_pos (lt_trans hrpos hr')]
    have := hin _ hp _ (List.mem_map.mpr ⟨l0, hl0, rfl⟩)
    simp only at this
    rw [dot_along _ _ _ (hedge l0 hl0).1] at this
    have hd := (hedge l0 hl0).2
    simp only [Scalar.lit_real, Nat.cast_zero] at this
    linarith

/-! ## 13. glue: `*_radius` getters, base-class getters, deprecated aliases -/

/-- every `<ball>_radius` getter returns exactly the radius of the ball the getter returns, and
raises exactly what the ball getter raises -/
theorem radius_getter_spec (b : Except String (Ball ℝ)) :
    (∀ r, radiusOf b = .ok r ↔ ∃ B, b = .ok B ∧ B.radius = r) ∧
      (∀ e, radiusOf b = .error e ↔ b = .error e) := by
  cases b with
  | ok B => exact ⟨fun r => ⟨fun h => ⟨B, rfl, by simpa [radiusOf] using h⟩,
      fun ⟨B', h1, h2⟩ => by cases h1; simp [radiusOf, h2]⟩, fun e => by simp [radiusOf]⟩
  | error e0 => exact ⟨fun r => ⟨fun h => by simp [radiusOf] at h, fun ⟨B', h1, _⟩ => by cases h1⟩,
      fun e => by simp [radiusOf]⟩

/-- consequently the radius getters inherit every theorem above; e.g. the circumsphere radius of an
existing circumsphere is returned -/
theorem circumsphere_radius_spec (v0 : V3 ℝ) (rest : List (V3 ℝ)) (x : V3 ℝ) (resids : List ℝ)
    (hd : ∃ v ∈ rest, v ≠ v0) (hinj : InjRows3 (circumSystemSphere (v0 :: rest)))
    (hc : LstsqContract (circumSystemSphere (v0 :: rest)) x 0 resids)
    {c : V3 ℝ} {ρ : ℝ} (h : IsCircum c ρ (v0 :: rest)) :
    radiusOf (circumsphere (v0 :: rest) x resids) = .ok ρ := by
  rw [circumsphere_returns_it v0 rest x resids hd hinj hc h]; rfl

/-- a getter the class does not implement never returns a ball; a deprecated alias returns what the
new name returns -/
theorem glue_spec (b : Except String (Ball ℝ)) :
    (¬ ∃ B, (notImplemented : Except String (Ball ℝ)) = .ok B) ∧ deprecatedAlias b = b :=
  ⟨fun ⟨_, h⟩ => by simp [notImplemented] at h, rfl⟩


/-! ## 14. the checkers as the driver runs them: exactly, over ℚ (every double is a rational) -/

/-- **lstsq certificate over ℚ, sound and complete.** The flag printed by the driver op `s.lstsqmin` /
`s.lstsqcert` (normal equations tested exactly in rational arithmetic) is `true` IF AND ONLY IF the
rational point is a least-squares minimiser of the system over the reals. -/
theorem lstsq_cert_rat (rows : List (Row ℚ)) (x : V3 ℚ) (r : ℚ) :
    BallSpec.lstsqCert rows x r = true ↔ IsLstsqMin (rows.map castRow) (castV x) (r : ℝ) :=
  lstsqCert_rat_iff rows x r

/-- the residual printed by the driver (exact rational arithmetic) is the real `‖A(x,r) − b‖²` -/
theorem lstsq_resid_rat (rows : List (Row ℚ)) (x : V3 ℚ) (r : ℚ) :
    ((sumSq rows x r : ℚ) : ℝ) = sumSq (rows.map castRow) (castV x) (r : ℝ) := cast_sumSq rows x r

/-- **minimal-ball bracket over ℚ, sound.** If the driver op `s.certbracket` reports the side conditions
fulfilled, the lower bound `lo` and `hi = max_i ‖p_i − c‖²` (all exact), then the squared radius of
the minimal bounding ball of the points lies in `[lo, hi]`. -/
theorem miniball_bracket_rat (pts : List (V3 ℚ)) (sup : List (ℚ × V3 ℚ)) (c : V3 ℚ) (c0 : V3 ℝ) (r0 : ℝ)
    (h : BallSpec.certSide pts sup = true) (hmin : IsMinimalBounding c0 r0 (pts.map castV)) :
    ((BallSpec.certLower sup : ℚ) : ℝ) ≤ r0 * r0 ∧ r0 * r0 ≤ ((BallSpec.maxDistSq pts c : ℚ) : ℝ) :=
  cert_bracket_rat h c hmin

/-- the cube `{0,1}³` over ℚ: weights `½, ½` on two opposite corners pass the side conditions, and the
lower bound is `3/4 = max_i ‖p_i − (½,½,½)‖²`: the bracket is tight -/
example : BallSpec.certSide
      [(⟨0,0,0⟩ : V3 ℚ), ⟨1,0,0⟩, ⟨0,1,0⟩, ⟨0,0,1⟩, ⟨1,1,0⟩, ⟨1,0,1⟩, ⟨0,1,1⟩, ⟨1,1,1⟩]
      [((1/2 : ℚ), ⟨0,0,0⟩), (1/2, ⟨1,1,1⟩)] = true ∧
    BallSpec.certLower [((1/2 : ℚ), (⟨0,0,0⟩ : V3 ℚ)), (1/2, ⟨1,1,1⟩)] = 3/4 ∧
    BallSpec.maxDistSq [(⟨0,0,0⟩ : V3 ℚ), ⟨1,0,0⟩, ⟨0,1,0⟩, ⟨0,0,1⟩, ⟨1,1,0⟩, ⟨1,0,1⟩, ⟨0,1,1⟩, ⟨1,1,1⟩]
      ⟨1/2,1/2,1/2⟩ = 3/4 := by
  refine ⟨by decide +kernel, by decide +kernel, by decide +kernel⟩


/-! ## 15. the hypotheses of section 10–12 are satisfiable -/

/-- the five cube corners `0, e₁, e₂, e₃, (1,1,1)`: the lstsq contract holds for `x = (½,½,½)`, `resids = [0]` -/
example : LstsqContract (circumSystemSphere [(⟨0,0,0⟩ : V3 ℝ), ⟨1,0,0⟩, ⟨0,1,0⟩, ⟨0,0,1⟩, ⟨1,1,1⟩])
    ⟨1/2,1/2,1/2⟩ 0 [0] := by
  have hz : sumSq (circumSystemSphere [(⟨0,0,0⟩ : V3 ℝ), ⟨1,0,0⟩, ⟨0,1,0⟩, ⟨0,0,1⟩, ⟨1,1,1⟩]) ⟨1/2,1/2,1/2⟩ 0 = 0 := by
    rw [sumSq_eq_zero_iff, circumSystemSphere_cons]
    intro row hrow
    simp only [List.map_cons, List.map_nil, List.mem_cons, List.not_mem_nil, or_false] at hrow
    rcases hrow with rfl | rfl | rfl | rfl <;>
      (simp only [Row.resid, V3.dot_eq, V3.sub_x, V3.sub_y, V3.sub_z, Scalar.lit_real]; norm_num)
  refine ⟨fun x' r' => ?_, by rw [hz]⟩
  rw [hz]; exact sumSq_nonneg _ _ _

/-- … and its edge vectors span space -/
example : InjRows3 (circumSystemSphere [(⟨0,0,0⟩ : V3 ℝ), ⟨1,0,0⟩, ⟨0,1,0⟩, ⟨0,0,1⟩, ⟨1,1,1⟩]) := by
  intro dx h
  rw [circumSystemSphere_cons] at h
  have h1 := h _ (List.mem_map.mpr ⟨(⟨1,0,0⟩ : V3 ℝ), by simp, rfl⟩)
  have h2 := h _ (List.mem_map.mpr ⟨(⟨0,1,0⟩ : V3 ℝ), by simp, rfl⟩)
  have h3 := h _ (List.mem_map.mpr ⟨(⟨0,0,1⟩ : V3 ℝ), by simp, rfl⟩)
  simp only [V3.dot_eq, V3.sub_x, V3.sub_y, V3.sub_z] at h1 h2 h3
  ext <;> simp <;> linarith

/-- the two-point set `(±1,0,0)` with the miniball answer `(0, 1)`: the accepted result carries the
certificate `½, ½`, so `minimal_bounding_certified` applies -/
example : IsCertificate [(⟨1,0,0⟩ : V3 ℝ), ⟨-1,0,0⟩] ⟨0,0,0⟩ (Real.sqrt 1)
    [(1/2, ⟨1,0,0⟩), (1/2, ⟨-1,0,0⟩)] := by
  rw [Real.sqrt_one]
  have n1 : ∀ a : ℝ, a * a = 1 → V3.norm ((⟨a, 0, 0⟩ : V3 ℝ) - (⟨0,0,0⟩ : V3 ℝ)) = 1 := by
    intro a h
    rw [V3.norm_eq, V3.normSq_eq]; simp only [V3.sub_x, V3.sub_y, V3.sub_z, sub_zero, mul_zero, add_zero]
    rw [h, Real.sqrt_one]
  refine ⟨?_, ?_, ?_, ?_, ?_, ?_⟩
  · intro p hp
    simp only [List.mem_cons, List.not_mem_nil, or_false] at hp
    unfold InBall BallSpec.dist
    rcases hp with rfl | rfl <;> rw [n1 _ (by norm_num)]
  · intro s hs
    simp only [List.mem_cons, List.not_mem_nil, or_false] at hs
    rcases hs with rfl | rfl <;> simp
  · intro s hs
    simp only [List.mem_cons, List.not_mem_nil, or_false] at hs
    unfold BallSpec.dist
    rcases hs with rfl | rfl <;> exact n1 _ (by norm_num)
  · intro s hs
    simp only [List.mem_cons, List.not_mem_nil, or_false] at hs
    rcases hs with rfl | rfl <;> norm_num
  · simp only [List.map_cons, List.map_nil, List.sum_cons, List.sum_nil]; norm_num
  · ext <;> simp [V3.sum, V3.add, V3.smul, V3.zero, Scalar.lit]


/-! ## 16. the repaired code (da3be45): miniball's answer is accepted only if
`_is_minimal_bounding_ball` holds — no hypothesis about miniball is left

Sections 8 and 11 are about the loop around an ARBITRARY `try` block (`minimalBoundingWith`); the
code's `try` block is `tryBlockTol`: miniball, then the acceptance test, a rejected answer being
treated like `LinAlgError`. The only external contract left is that of `scipy.optimize.nnls`
(`NnlsContract`: weights `≥ 0`, reported residual `= ‖A w − b‖`; optimality of nnls is not needed). -/

/-- the nnls contract for every call the acceptance test can make -/
def NnlsOk (τb : ℝ) (nnls : Nat → List (V3 ℝ) → V3 ℝ → ℝ → List ℝ × ℝ) : Prop :=
  ∀ k P c r2, NnlsContract (onBoundary τb P c r2) c r2 (nnls k (onBoundary τb P c r2) c r2)

theorem tryBlock_some {τc τb τr : ℝ} {mb : Nat → List (V3 ℝ) → Option (V3 ℝ × ℝ)}
    {nnls : Nat → List (V3 ℝ) → V3 ℝ → ℝ → List ℝ × ℝ} {k : Nat} {P : List (V3 ℝ)} {c : V3 ℝ} {r2 : ℝ}
    (h : tryBlockTol τc τb τr mb nnls k P = some (c, r2)) :
    mb k P = some (c, r2) ∧ isMinimalBoundingBallTol τc τb τr (nnls k) P c r2 = true := by
  unfold tryBlockTol at h
  split at h
  · next c' r2' hs =>
    split at h
    · next hacc =>
      injection h with h; injection h with h1 h2; subst h1 h2
      exact ⟨hs, hacc⟩
    · cases h
  · cases h

/-- **C13 minimal bounding ball, exact arithmetic (tolerances `0`) — NO hypothesis about miniball.**
With unit random rotations and the nnls contract, whatever the repaired
`minimal_bounding_sphere/circle` returns is THE minimal bounding ball of the original vertices: it
contains every vertex, no containing ball is smaller, and every minimal ball equals it — whatever
the external miniball routine answers, and however many attempts failed or were rejected. -/
theorem minimal_bounding_exact (mb : Nat → List (V3 ℝ) → Option (V3 ℝ × ℝ))
    (nnls : Nat → List (V3 ℝ) → V3 ℝ → ℝ → List ℝ × ℝ) (rand : Nat → Quat ℝ) (V : List (V3 ℝ))
    (hrand : ∀ k, Quat.normSq (rand k) = 1) (hnnls : NnlsOk 0 nnls)
    {B : Ball ℝ} (h : minimalBoundingTol 0 0 0 mb nnls rand V = .ok B) :
    IsMinimalBounding B.center B.radius V ∧
      ∀ c' r', IsMinimalBounding c' r' V → r' = B.radius ∧ c' = B.center := by
  unfold minimalBoundingTol at h
  apply minimal_bounding_certified (tryBlockTol 0 0 0 mb nnls) rand V hrand ?_ h
  intro k c r2 hk hpos _
  obtain ⟨_, hacc⟩ := tryBlock_some hk
  exact ⟨_, accept_exact hpos hacc (hnnls k _ c r2)⟩

/-- **`_partial`: the code's tolerances (`1e-8`, `1e-6`, `1e-6`).** What is provable about the ball the
code as it is returns (unit rotations, nnls contract, nothing about miniball): every vertex lies
within `r²(1 + 1e-8)` of the centre, and every ball containing the vertices has
`r'² ≥ r²(1 − 2e-6)` — it is the minimal ball up to these relative tolerances. Missing for the full
statement: the tolerances are not zero (they cannot be in floating point). -/
theorem minimal_bounding_accepted_partial (mb : Nat → List (V3 ℝ) → Option (V3 ℝ × ℝ))
    (nnls : Nat → List (V3 ℝ) → V3 ℝ → ℝ → List ℝ × ℝ) (rand : Nat → Quat ℝ) (V : List (V3 ℝ))
    (hrand : ∀ k, Quat.normSq (rand k) = 1) (hnnls : NnlsOk (1 / 1000000) nnls)
    {B : Ball ℝ} (h : minimalBounding mb nnls rand V = .ok B) :
    (∀ v ∈ V, V3.normSq (v - B.center) ≤ B.radius * B.radius * (1 + 1 / 100000000)) ∧
      ∀ c' r', IsBounding c' r' V → B.radius * B.radius * (1 - 2 / 1000000) ≤ r' * r' := by
  unfold minimalBounding minimalBoundingTol at h
  obtain ⟨k, c, r2, _, _, hk, _, hr, hc, hpos⟩ := minimalBounding_ok _ rand V h
  obtain ⟨_, hacc⟩ := tryBlock_some hk
  have e1 : (Scalar.q 1 100000000 : ℝ) = 1 / 100000000 := by simp [Scalar.q]
  have e2 : (Scalar.q 1 1000000 : ℝ) = 1 / 1000000 := by simp [Scalar.q]
  rw [e1, e2] at hacc
  obtain ⟨hin, hlow⟩ := accept_tol hpos (by norm_num) hacc (hnnls k _ c r2)
  have hq := rotAt_unit rand hrand k
  have hrr : B.radius * B.radius = r2 := by rw [hr]; exact Real.mul_self_sqrt (le_of_lt hpos)
  rw [seenAt_eq_map] at hin hlow
  refine ⟨fun v hv => ?_, fun c' r' hb => ?_⟩
  · have hv' := hin (Quat.rotate (rotAt rand k) v) (List.mem_map.mpr ⟨v, hv, rfl⟩)
    have hiso : V3.normSq (v - Quat.rotate (Quat.conj (rotAt rand k)) c) =
        V3.normSq (Quat.rotate (rotAt rand k) v - c) := by
      have e := normSq_rotate (rotAt rand k) (v - Quat.rotate (Quat.conj (rotAt rand k)) c)
      rw [rotate_sub, rotate_rotate_conj_unit hq, hq] at e
      rw [e]; ring
    rw [hc, hiso, hrr]; exact hv'
  · have hb' : IsBounding (Quat.rotate (rotAt rand k) c') r' (V.map (Quat.rotate (rotAt rand k))) := by
      intro p hp
      obtain ⟨v, hv, rfl⟩ := List.mem_map.mp hp
      have := hb v hv
      unfold InBall BallSpec.dist at this ⊢
      rw [norm_rotate_sub hq]; exact this
    have := hlow _ r' hb'
    rw [hrr]
    have hfrac : r2 * ((1 / 1000000 : ℝ) * (1 / 1000000)) / ((1 - 1 / 1000000) * (1 - 1 / 1000000))
        ≤ r2 * (1 / 1000000) := by
      rw [div_le_iff₀ (by norm_num)]
      nlinarith
    nlinarith

/-- the repaired code raises `RuntimeError` exactly when on all fifty attempts miniball failed OR its
answer was rejected by the acceptance test -/
theorem minimal_bounding_repaired_raises_iff (mb : Nat → List (V3 ℝ) → Option (V3 ℝ × ℝ))
    (nnls : Nat → List (V3 ℝ) → V3 ℝ → ℝ → List ℝ × ℝ) (rand : Nat → Quat ℝ) (V : List (V3 ℝ)) :
    minimalBounding mb nnls rand V = .error "RuntimeError" ↔
      ∀ k, 1 ≤ k → k ≤ 50 →
        tryBlockTol (Scalar.q 1 100000000) (Scalar.q 1 1000000) (Scalar.q 1 1000000) mb nnls k (seenAt rand V k) = none := by
  unfold minimalBounding minimalBoundingTol
  exact minimal_bounding_raises_iff _ rand V

/-- the regression of the repaired defect, in the model: the answer `(0, 1/4)` for the two points
`(±1, 0, 0)` (the witness of `minimal_bounding_without_check_fails`) is REJECTED by the acceptance test,
whatever nnls says -/
example (nn : List (V3 ℝ) → V3 ℝ → ℝ → List ℝ × ℝ) :
    isMinimalBoundingBall nn [(⟨1,0,0⟩ : V3 ℝ), ⟨-1,0,0⟩] ⟨0,0,0⟩ (1/4) = false := by
  unfold isMinimalBoundingBall isMinimalBoundingBallTol
  have hf : ∀ x : ℝ, isFinite x = true := isFinite_real
  simp only [List.map_cons, List.map_nil, List.all_cons, List.all_nil, hf, Bool.and_self, Bool.not_true,
    Bool.false_or]
  have h1 : decide ((1/4 : ℝ) < Scalar.lit 0) = false := by
    rw [decide_eq_false_iff_not]; simp only [Scalar.lit_real]; norm_num
  have h2 : Scalar.eqb (1/4 : ℝ) (Scalar.lit 0) = false := by
    show decide ((1/4 : ℝ) = ((0 : ℕ) : ℝ)) = false
    rw [decide_eq_false_iff_not]; norm_num
  have h3 : (1/4 : ℝ) * (Scalar.lit 1 + Scalar.q 1 100000000) <
      listMax [V3.normSq ((⟨1,0,0⟩ : V3 ℝ) - ⟨0,0,0⟩), V3.normSq ((⟨-1,0,0⟩ : V3 ℝ) - ⟨0,0,0⟩)] := by
    simp only [listMax, List.foldl_cons, List.foldl_nil, Scalar.max_real, V3.normSq_eq, V3.sub_x, V3.sub_y,
      V3.sub_z, Scalar.q, Scalar.ofNat_real]
    norm_num
  simp only [h1, h2, Bool.false_eq_true, ↓reduceIte, h3]


/-! ## 17. the existence decision of the in-balls does not depend on where the shape is

The tolerance of `insphere` / `incircle` is `1e-8 · extent²`, `extent = max_i ‖v_i − v_0‖`: a quantity
of the shape, not of its placement. (A tolerance relative to `‖b‖²`, `b_i = n_i · v_i` = distances of
the face planes from the coordinate ORIGIN, would loosen with the distance from the origin: seeded
change r2-C13-2.) The least-squares residual is translation invariant as well, hence so is the
decision to raise `RuntimeError`. -/

/-- translate a point list -/
def shiftPts (t : V3 ℝ) (verts : List (V3 ℝ)) : List (V3 ℝ) := verts.map fun v => v + t

/-- translate the faces `(unit normal, a vertex of the face)` -/
def shiftFaces (t : V3 ℝ) (faces : List (V3 ℝ × V3 ℝ)) : List (V3 ℝ × V3 ℝ) :=
  faces.map fun f => (f.1, f.2 + t)

theorem add_sub_add_right' (a b t : V3 ℝ) : (a + t) - (b + t) = a - b := by ext <;> simp

theorem extent_translate (t : V3 ℝ) (verts : List (V3 ℝ)) : extent (shiftPts t verts) = extent verts := by
  cases verts with
  | nil => rfl
  | cons v0 rest =>
    unfold extent shiftPts
    simp only [firstVertex, List.map_cons, List.headD_cons, List.map_map]
    congr 1
    simp [Function.comp_def, add_sub_add_right']

/-- **the tolerance is a quantity of the shape, not of its placement** -/
theorem inAtol_translate (t : V3 ℝ) (verts : List (V3 ℝ)) : inAtol (shiftPts t verts) = inAtol verts := by
  unfold inAtol; rw [extent_translate]

/-- the model function commutes with translation (same guard, same tolerance; the centre moves along) -/
theorem inBall_translate (k : Nat) (t : V3 ℝ) (verts : List (V3 ℝ)) (x : V3 ℝ) (r : ℝ) (resids : List ℝ) :
    inBall k (shiftPts t verts) (x + t) r resids =
      match inBall k verts x r resids with
      | .ok B => .ok ⟨B.radius, B.center + t⟩
      | .error e => .error e := by
  unfold inBall
  rw [extent_translate]
  have hl : (shiftPts t verts).length = verts.length := by simp [shiftPts]
  rw [hl]
  simp only [bind, Except.bind]
  generalize residGuard verts.length k resids (Scalar.q 1 100000000 * Scalar.sqr (extent verts)) = g
  cases g with
  | error e => rfl
  | ok b =>
    cases b with
    | true => rfl
    | false =>
      simp only [Bool.false_eq_true, ↓reduceIte]
      unfold mkBall
      split <;> rfl

/-- the in-system of the translated shape at the translated centre has the same residuals -/
theorem inSystem_translate (t : V3 ℝ) (faces : List (V3 ℝ × V3 ℝ)) (x : V3 ℝ) (r : ℝ) :
    sumSq (inSystemSphere (shiftFaces t faces)) (x + t) r = sumSq (inSystemSphere faces) x r := by
  rw [sumSq_eq, sumSq_eq]
  unfold inSystemSphere shiftFaces
  rw [List.map_map, List.map_map, List.map_map]
  congr 1
  apply List.map_congr_left
  intro f _
  simp only [Function.comp_apply, Row.resid, V3.dot_eq, V3.add_x, V3.add_y, V3.add_z]
  ring

theorem sub_add_cancel_v (a t : V3 ℝ) : a - t + t = a := by ext <;> simp

theorem isLstsqMin_translate (t : V3 ℝ) (faces : List (V3 ℝ × V3 ℝ)) (x : V3 ℝ) (r : ℝ)
    (h : IsLstsqMin (inSystemSphere faces) x r) :
    IsLstsqMin (inSystemSphere (shiftFaces t faces)) (x + t) r := by
  intro x' r'
  have e := inSystem_translate t faces (x' - t) r'
  rw [sub_add_cancel_v] at e
  rw [inSystem_translate, e]
  exact h _ _

/-- **C13 in-ball existence test, translation invariance.** The shape at two placements (vertices and
face points translated by `t`, normals unchanged), ANY least-squares answers satisfying the lstsq
contract at the two placements: `insphere` raises `RuntimeError` at one placement if and only if it
does at the other. -/
theorem insphere_decision_translation_invariant (t : V3 ℝ) (verts : List (V3 ℝ))
    (faces : List (V3 ℝ × V3 ℝ)) (x x' : V3 ℝ) (r r' : ℝ) (resids resids' : List ℝ)
    (hlen : 4 < verts.length)
    (hc : LstsqContract (inSystemSphere faces) x r resids)
    (hc' : LstsqContract (inSystemSphere (shiftFaces t faces)) x' r' resids') :
    insphere (shiftPts t verts) x' r' resids' = .error "RuntimeError" ↔
      insphere verts x r resids = .error "RuntimeError" := by
  have hlen' : 4 < (shiftPts t verts).length := by simpa [shiftPts] using hlen
  rw [insphere_raises_iff _ _ x' r' resids' hlen' hc', insphere_raises_iff _ _ x r resids hlen hc,
    inAtol_translate]
  have hmin := isLstsqMin_translate t faces x r hc.isMin
  have e1 := (min_unique_resid hmin hc'.isMin).1
  rw [inSystem_translate] at e1
  rw [← e1]

/-- the model's `incircle` has the same placement-independent tolerance (it is `inBall 3`) -/
theorem incircle_tolerance_translation_invariant (t : V3 ℝ) (verts : List (V3 ℝ)) (x : V3 ℝ) (r : ℝ)
    (resids : List ℝ) :
    incircle (shiftPts t verts) (x + t) r resids = .error "RuntimeError" ↔
      incircle verts x r resids = .error "RuntimeError" := by
  unfold incircle
  rw [inBall_translate]
  cases inBall 3 verts x r resids with
  | ok B => simp
  | error e => simp


/-! polygon: the edge normals are built from vertex differences, so they do not move either -/

theorem rollL_map {β γ : Type} (f : β → γ) (l : List β) : rollL (l.map f) = (rollL l).map f := by
  cases l with
  | nil => rfl
  | cons a l => simp [rollL]

theorem outwardNormals_translate (t : V3 ℝ) (verts : List (V3 ℝ)) (normal : V3 ℝ) (sa : ℝ) :
    outwardNormals (shiftPts t verts) normal sa = outwardNormals verts normal sa := by
  unfold outwardNormals shiftPts
  rw [rollL_map, List.zipWith_map]
  simp only [add_sub_add_right']

theorem edgeFaces_translate (t : V3 ℝ) (verts : List (V3 ℝ)) (normal : V3 ℝ) (sa : ℝ) :
    edgeFaces (shiftPts t verts) normal sa = shiftFaces t (edgeFaces verts normal sa) := by
  unfold edgeFaces shiftFaces
  rw [outwardNormals_translate]
  unfold shiftPts
  rw [List.zip_map_right]
  simp

theorem inSystemCircle_translate (t : V3 ℝ) (verts : List (V3 ℝ)) (hne : verts ≠ []) (normal : V3 ℝ) (sa : ℝ)
    (x : V3 ℝ) (r : ℝ) :
    sumSq (inSystemCircle (shiftPts t verts) normal sa) (x + t) r =
      sumSq (inSystemCircle verts normal sa) x r := by
  rw [inSystemCircle_eq, inSystemCircle_eq, sumSq_append, sumSq_append, edgeFaces_translate, inSystem_translate]
  congr 1
  obtain ⟨v0, rest, rfl⟩ := List.exists_cons_of_ne_nil hne
  rw [sumSq_eq, sumSq_eq]
  simp only [shiftPts, firstVertex, List.map_cons, List.headD_cons, List.map_nil, List.sum_cons, List.sum_nil,
    Row.resid, V3.dot_eq, V3.add_x, V3.add_y, V3.add_z]
  ring

/-- **C13 incircle existence test, translation invariance** (same statement as for `insphere`). -/
theorem incircle_decision_translation_invariant (t : V3 ℝ) (verts : List (V3 ℝ)) (normal : V3 ℝ) (sa : ℝ)
    (x x' : V3 ℝ) (r r' : ℝ) (resids resids' : List ℝ) (hlen : 3 < verts.length)
    (hc : LstsqContract (inSystemCircle verts normal sa) x r resids)
    (hc' : LstsqContract (inSystemCircle (shiftPts t verts) normal sa) x' r' resids') :
    incircle (shiftPts t verts) x' r' resids' = .error "RuntimeError" ↔
      incircle verts x r resids = .error "RuntimeError" := by
  have hne : verts ≠ [] := by intro h; rw [h] at hlen; simp at hlen
  have hlen' : 3 < (shiftPts t verts).length := by simpa [shiftPts] using hlen
  unfold incircle
  rw [hc.resid, hc'.resid, inBall_raises_iff hlen, inBall_raises_iff hlen', abs_sumSq, abs_sumSq, inAtol_translate]
  have hmin : IsLstsqMin (inSystemCircle (shiftPts t verts) normal sa) (x + t) r := by
    intro y s
    have e := inSystemCircle_translate t verts hne normal sa (y - t) s
    rw [sub_add_cancel_v] at e
    rw [inSystemCircle_translate t verts hne, e]
    exact hc.isMin _ _
  have e1 := (min_unique_resid hmin hc'.isMin).1
  rw [inSystemCircle_translate t verts hne] at e1
  rw [← e1]


/-! ## 18. the acceptance test never rejects a correct answer (exact arithmetic); nnls optimality as a
certificate -/

/-- **`accept_complete_exact`: the acceptance test is complete (tolerances `0`).** If `(c, r²)`, `r² > 0`,
IS the minimal bounding ball of the non-empty point list, then the nnls system has a feasible point
with residual `0` (`miniball_certificate_complete` re-indexed onto the boundary list), so an nnls
returning a minimiser over `w ≥ 0` reports residual `0` and `_is_minimal_bounding_ball` accepts. -/
theorem accept_complete_exact (nnls : List (V3 ℝ) → V3 ℝ → ℝ → List ℝ × ℝ) (pts : List (V3 ℝ))
    (hne : pts ≠ []) (c : V3 ℝ) (r2 : ℝ) (hr2 : 0 < r2) (hmin : IsMinimalBounding c (Real.sqrt r2) pts)
    (hopt : NnlsOptimal (onBoundary 0 pts c r2) c r2 (nnls (onBoundary 0 pts c r2) c r2)) :
    isMinimalBoundingBallTol 0 0 0 nnls pts c r2 = true :=
  accept_complete le_rfl le_rfl le_rfl hne hr2 hmin hopt

/-- the same with the code's tolerances `1e-8, 1e-6, 1e-6`: the exact minimal ball is accepted (the
boundary list is larger, the optimal residual is still `0 ≤ 1e-6`). What tolerances add is slack for
rounding, never a rejection of the exact answer. -/
theorem accept_complete_code (nnls : List (V3 ℝ) → V3 ℝ → ℝ → List ℝ × ℝ) (pts : List (V3 ℝ))
    (hne : pts ≠ []) (c : V3 ℝ) (r2 : ℝ) (hr2 : 0 < r2) (hmin : IsMinimalBounding c (Real.sqrt r2) pts)
    (hopt : NnlsOptimal (onBoundary (Scalar.q 1 1000000) pts c r2) c r2
      (nnls (onBoundary (Scalar.q 1 1000000) pts c r2) c r2)) :
    isMinimalBoundingBall nnls pts c r2 = true := by
  unfold isMinimalBoundingBall
  exact accept_complete (by simp [Scalar.q]) (by simp [Scalar.q]) (by simp [Scalar.q]) hne hr2 hmin hopt

/-- exact iff (tolerances `0`, optimal nnls): the test accepts `(c, r²)`, `r² > 0`, IF AND ONLY IF it is
the minimal bounding ball -/
theorem accept_iff_minimal_exact (nnls : List (V3 ℝ) → V3 ℝ → ℝ → List ℝ × ℝ) (pts : List (V3 ℝ))
    (hne : pts ≠ []) (c : V3 ℝ) (r2 : ℝ) (hr2 : 0 < r2)
    (hopt : NnlsOptimal (onBoundary 0 pts c r2) c r2 (nnls (onBoundary 0 pts c r2) c r2)) :
    isMinimalBoundingBallTol 0 0 0 nnls pts c r2 = true ↔ IsMinimalBounding c (Real.sqrt r2) pts :=
  ⟨fun h => certificate_optimal _ _ _ _ (accept_exact hr2 h hopt.toNnlsContract),
   fun h => accept_complete_exact nnls pts hne c r2 hr2 h hopt⟩

/-- consequently the repaired loop stops at the FIRST attempt on which miniball answers correctly: a
correct answer is never sent into a retry -/
theorem tryBlock_accepts_correct (mb : Nat → List (V3 ℝ) → Option (V3 ℝ × ℝ))
    (nnls : Nat → List (V3 ℝ) → V3 ℝ → ℝ → List ℝ × ℝ) (k : Nat) (P : List (V3 ℝ)) (hne : P ≠ [])
    (c : V3 ℝ) (r2 : ℝ) (hr2 : 0 < r2) (hmb : mb k P = some (c, r2))
    (hmin : IsMinimalBounding c (Real.sqrt r2) P)
    (hopt : NnlsOptimal (onBoundary (Scalar.q 1 1000000) P c r2) c r2
      (nnls k (onBoundary (Scalar.q 1 1000000) P c r2) c r2)) :
    tryBlockTol (Scalar.q 1 100000000) (Scalar.q 1 1000000) (Scalar.q 1 1000000) mb nnls k P = some (c, r2) := by
  unfold tryBlockTol
  rw [hmb]
  have := accept_complete_code (nnls k) P hne c r2 hr2 hmin hopt
  unfold isMinimalBoundingBall at this
  simp only [this, ↓reduceIte]

/-- **nnls optimality as a per-run certificate (approximate KKT).** With the gradient components
`g_j = (p_j − c)·G/r² + (Λ − 1)` at the returned weights (`G = Σ w_i (p_i − c)`, `Λ = Σ w_i`; all exact
over ℚ): if `g_j ≥ −δ` for all boundary points and `Σ_j w_j g_j ≤ κ`, then `‖Aw − b‖²` exceeds
`‖Aw' − b‖²` by at most `2δ·Σw' + 2κ` for EVERY `w' ≥ 0`; with `δ = κ = 0` the answer is optimal. -/
theorem nnls_kkt_sound (bd : List (V3 ℝ)) (c : V3 ℝ) (r2 : ℝ) (hr2 : 0 < r2) (w w' : List ℝ) (δ κ : ℝ)
    (hw' : ∀ x ∈ w', 0 ≤ x)
    (hg : ∀ p ∈ bd, -δ ≤ kktGrad (gvec (List.zip w bd) c) (zipWeight w bd) c r2 p)
    (hc : kktPair (gvec (List.zip w bd) c) (zipWeight w bd) c r2 w bd ≤ κ) :
    nnlsResidSq bd c r2 w ≤ nnlsResidSq bd c r2 w' + 2 * δ * zipWeight w' bd + 2 * κ :=
  kkt_bound bd c r2 hr2 w w' δ κ hw' hg hc

/-- in particular, against the zero-residual point that exists for the minimal ball: the residual nnls
reports for THE minimal ball is at most `√(2δ + 2κ)` — what "never rejects a correct answer" becomes
with an nnls that is only certified up to `(δ, κ)` -/
theorem nnls_kkt_residual_of_minimal (pts : List (V3 ℝ)) (hne : pts ≠ []) (c : V3 ℝ) (r2 τb : ℝ) (hr2 : 0 < r2)
    (hτb : 0 ≤ τb) (hmin : IsMinimalBounding c (Real.sqrt r2) pts) (w : List ℝ) (δ κ : ℝ)
    (hg : ∀ p ∈ onBoundary τb pts c r2, -δ ≤
      kktGrad (gvec (List.zip w (onBoundary τb pts c r2)) c) (zipWeight w (onBoundary τb pts c r2)) c r2 p)
    (hc : kktPair (gvec (List.zip w (onBoundary τb pts c r2)) c) (zipWeight w (onBoundary τb pts c r2)) c r2 w
      (onBoundary τb pts c r2) ≤ κ) :
    nnlsResidSq (onBoundary τb pts c r2) c r2 w ≤ 2 * δ + 2 * κ := by
  obtain ⟨w', hl, hnn, hz⟩ := exists_zero_residual pts hne c r2 τb hr2 hτb hmin
  have hb := kkt_bound (onBoundary τb pts c r2) c r2 hr2 w w' δ κ hnn hg hc
  -- Σw' = 1 because the residual of w' vanishes
  have hone : zipWeight w' (onBoundary τb pts c r2) = 1 := by
    rw [nnlsResidSq_eq'] at hz
    have h1 : 0 ≤ V3.normSq (gvec (List.zip w' (onBoundary τb pts c r2)) c) / r2 :=
      div_nonneg (V3.normSq_nonneg _) (le_of_lt hr2)
    have h2 := mul_self_nonneg (zipWeight w' (onBoundary τb pts c r2) - 1)
    have : (zipWeight w' (onBoundary τb pts c r2) - 1) * (zipWeight w' (onBoundary τb pts c r2) - 1) = 0 := by
      linarith
    have := mul_self_eq_zero.mp this
    linarith
  rw [hz, hone] at hb
  linarith


/-- what the driver op `s.nnlskkt` computes (`BallSpec.nnlsKkt`) are the quantities of `nnls_kkt_sound`:
its first component is a lower bound of every gradient component, its second is `Σ_j w_j g_j` -/
theorem nnlsKkt_spec (bd : List (V3 ℝ)) (c : V3 ℝ) (r2 : ℝ) (w : List ℝ) :
    (∀ p ∈ bd, (BallSpec.nnlsKkt bd c r2 w).1 ≤
        kktGrad (gvec (List.zip w bd) c) (zipWeight w bd) c r2 p) ∧
      (BallSpec.nnlsKkt bd c r2 w).2.1 = kktPair (gvec (List.zip w bd) c) (zipWeight w bd) c r2 w bd ∧
      (BallSpec.nnlsKkt bd c r2 w).2.2 = zipWeight w bd := by
  have hG : BallSpec.nnlsG bd c w = gvec (List.zip w bd) c := rfl
  have hL : BallSpec.nnlsWeight bd w = zipWeight w bd := by simp [BallSpec.nnlsWeight, zipWeight]
  have hk : ∀ G L p, BallSpec.kktGradC G L c r2 p = kktGrad G L c r2 p := by
    intro G L p; simp [BallSpec.kktGradC, kktGrad]
  refine ⟨fun p hp => ?_, ?_, ?_⟩
  · unfold BallSpec.nnlsKkt
    simp only [hG, hL]
    have hmem : kktGrad (gvec (List.zip w bd) c) (zipWeight w bd) c r2 p ∈
        bd.map (BallSpec.kktGradC (gvec (List.zip w bd) c) (zipWeight w bd) c r2) :=
      List.mem_map.mpr ⟨p, hp, hk _ _ _⟩
    have := listMin_le _ _ hmem
    unfold listMin at this
    exact this
  · unfold BallSpec.nnlsKkt kktPair
    simp only [hG, hL, hk, Scalar.sum_real]
  · unfold BallSpec.nnlsKkt
    simp only [hL]


/-! ## 19. giving up on a valid shape: with ten attempts (before 500eda1) this happened about once in 10³
calls on cospherical sets with many vertices; with fifty the probability is `p⁵⁰`, `p ≤ 0.55` — but the
loop is still a bounded retry, and the statements below say exactly what it guarantees -/

/-- **`_partial`**: the repaired getter returns a ball as soon as ONE of the fifty `try` blocks succeeds
(miniball does not raise and its answer is accepted) and the accepted radius is positive. -/
theorem minimal_bounding_returns_partial (mb : Nat → List (V3 ℝ) → Option (V3 ℝ × ℝ))
    (nnls : Nat → List (V3 ℝ) → V3 ℝ → ℝ → List ℝ × ℝ) (rand : Nat → Quat ℝ) (V : List (V3 ℝ))
    (h : ∃ k, 1 ≤ k ∧ k ≤ 50 ∧
      tryBlockTol (Scalar.q 1 100000000) (Scalar.q 1 1000000) (Scalar.q 1 1000000) mb nnls k (seenAt rand V k) ≠ none) :
    minimalBounding mb nnls rand V ≠ .error "RuntimeError" := by
  intro hr
  obtain ⟨k, h1, h2, hk⟩ := h
  exact hk ((minimal_bounding_repaired_raises_iff mb nnls rand V).mp hr k h1 h2)

/-- **`_fails`: a valid shape does not guarantee a ball.** Every non-empty vertex list has a minimal
bounding ball (`IsMinimalBounding` is attained), but the getter raises `RuntimeError` when the external
routine fails on all fifty attempts. (With `max_attempts = 10` the real `miniball` did that about once in
10³ calls on cospherical sets with many vertices — uniform 41-gon prism, regular 41-gon; repaired in
500eda1 by raising the bound to 50, signature `…:raises-for-valid-shape`.) -/
theorem minimal_bounding_gives_up_fails :
    ¬ ∀ (mb : Nat → List (V3 ℝ) → Option (V3 ℝ × ℝ)) (nnls : Nat → List (V3 ℝ) → V3 ℝ → ℝ → List ℝ × ℝ)
        (rand : Nat → Quat ℝ) (V : List (V3 ℝ)), V ≠ [] → (∀ k, Quat.normSq (rand k) = 1) →
        ∃ B, minimalBounding mb nnls rand V = .ok B := by
  intro hall
  obtain ⟨B, hB⟩ := hall (fun _ _ => none) (fun _ _ _ _ => ([], 0)) (fun _ => Quat.one)
    [(⟨1,0,0⟩ : V3 ℝ), ⟨-1,0,0⟩] (by simp) (fun _ => normSq_one)
  have hr : minimalBounding (fun _ _ => none) (fun _ _ _ _ => (([] : List ℝ), (0 : ℝ))) (fun _ => Quat.one)
      [(⟨1,0,0⟩ : V3 ℝ), ⟨-1,0,0⟩] = .error "RuntimeError" := by
    rw [minimal_bounding_repaired_raises_iff]
    intro k _ _
    rfl
  rw [hr] at hB
  cases hB


/-! ## 20. the insphere of a tetrahedron always exists (4 × 4 system by elimination + Cramer) -/

/-- four equations `a_i · x + r = b_i`: subtracting the last one leaves a 3 × 3 system in `x`; it is
solvable when the differences `a_i − a_4` are linearly independent -/
theorem cramer4_ones (a1 a2 a3 a4 : V3 ℝ) (b1 b2 b3 b4 : ℝ)
    (hdet : V3.det3 (a1 - a4) (a2 - a4) (a3 - a4) ≠ 0) :
    ∃ (x : V3 ℝ) (r : ℝ), V3.dot a1 x + r = b1 ∧ V3.dot a2 x + r = b2 ∧ V3.dot a3 x + r = b3 ∧
      V3.dot a4 x + r = b4 := by
  obtain ⟨x, h1, h2, h3⟩ := cramer3 (a1 - a4) (a2 - a4) (a3 - a4) (b1 - b4) (b2 - b4) (b3 - b4) hdet
  refine ⟨x, b4 - V3.dot a4 x, ?_, ?_, ?_, by ring⟩ <;>
  · simp only [V3.dot_eq, V3.sub_x, V3.sub_y, V3.sub_z] at h1 h2 h3 ⊢
    linarith

/-- **every tetrahedron whose face normals are affinely independent has a ball tangent to its four
face planes** (the system `n_i · c + r = n_i · v_i` is square and regular) -/
theorem tetrahedron_in_exists (f1 f2 f3 f4 : V3 ℝ × V3 ℝ)
    (hdet : V3.det3 (f1.1 - f4.1) (f2.1 - f4.1) (f3.1 - f4.1) ≠ 0) :
    ∃ c ρ, IsTangentInside (faceEqs [f1, f2, f3, f4]) c ρ := by
  obtain ⟨x, r, h1, h2, h3, h4⟩ := cramer4_ones f1.1 f2.1 f3.1 f4.1
    (V3.dot f1.1 f1.2) (V3.dot f2.1 f2.2) (V3.dot f3.1 f3.2) (V3.dot f4.1 f4.2) hdet
  refine ⟨x, r, in_of_zero_resid [f1, f2, f3, f4] x r ?_⟩
  rw [sumSq_eq_zero_iff]
  intro row hrow
  simp only [inSystemSphere, List.map_cons, List.map_nil, List.mem_cons, List.not_mem_nil, or_false] at hrow
  rcases hrow with rfl | rfl | rfl | rfl <;>
    simp only [Row.resid, Scalar.lit_real, Nat.cast_one, one_mul] <;> linarith

/-- … and (lstsq contract) the model returns it: for four vertices `insphere` performs no residual
test, and needs none; the returned ball is tangent to all four face planes from inside. -/
theorem insphere_tetrahedron (verts : List (V3 ℝ)) (hlen : verts.length ≤ 4) (f1 f2 f3 f4 : V3 ℝ × V3 ℝ)
    (hdet : V3.det3 (f1.1 - f4.1) (f2.1 - f4.1) (f3.1 - f4.1) ≠ 0) (x : V3 ℝ) (r : ℝ) (resids : List ℝ)
    (hmin : IsLstsqMin (inSystemSphere [f1, f2, f3, f4]) x r) (hr : 0 < r) :
    insphere verts x r resids = .ok ⟨r, x⟩ ∧ IsTangentInside (faceEqs [f1, f2, f3, f4]) x r := by
  have hz := (in_exists_iff_zero [f1, f2, f3, f4] x r hmin).mp (tetrahedron_in_exists f1 f2 f3 f4 hdet)
  refine ⟨?_, in_of_zero_resid _ x r hz⟩
  unfold insphere inBall
  simp only [bind, Except.bind, residGuard_of_small hlen, Bool.false_eq_true, ↓reduceIte]
  exact mkBall_of_pos _ hr

/-- the regular-ish tetrahedron with faces `x, y, z ≥ 0`, `x + y + z ≤ 1` has affinely independent
normals (`det ≠ 0` is satisfiable) -/
example : V3.det3 ((⟨-1,0,0⟩ : V3 ℝ) - ⟨1,1,1⟩) ((⟨0,-1,0⟩ : V3 ℝ) - ⟨1,1,1⟩) ((⟨0,0,-1⟩ : V3 ℝ) - ⟨1,1,1⟩) ≠ 0 := by
  simp only [V3.det3, V3.dot_eq, V3.cross, V3.sub_x, V3.sub_y, V3.sub_z]; norm_num

end
