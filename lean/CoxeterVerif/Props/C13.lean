import CoxeterVerif.Lemmas.Balls
/-!
  # C13 — bounding, bounded, circum- and in-balls satisfy their definitions

  Model: `Model/Balls.lean` (namespace `Balls`), specification: `Spec/Balls.lean` (`BallSpec`).
  All statements are over ℝ, for vertex / face lists of ANY length.
  External results (lstsq solution and residual, miniball result, random rotations) are arguments;
  what the theorems need from them is an explicit hypothesis (checked per run by the harness).
-/
open Balls BallSpec

noncomputable section

/-! ## 1. minimal centred bounding ball -/

/-- **C13 centred bounding.** Whatever `minimal_centered_bounding_sphere/circle` returns is centred at
the given centre, contains every vertex, and no ball with that centre containing all vertices is
smaller (its radius IS the largest centre–vertex distance). -/
theorem min_centered_bounding_spec (verts : List (V3 ℝ)) (c : V3 ℝ) (hne : verts ≠ [])
    {B : Ball ℝ} (h : minimalCenteredBounding verts c = .ok B) :
    B.center = c ∧ IsMinCenteredBounding B.center B.radius verts ∧
      ∃ v ∈ verts, B.radius = dist v c := by
  obtain ⟨hr, hc, _⟩ := mkBall_ok h
  have hne' : verts.map (fun v => V3.norm (v - c)) ≠ [] := by simpa using hne
  have hmem := listMax_mem _ hne'
  obtain ⟨v, hv, hvd⟩ := List.mem_map.mp hmem
  refine ⟨hc, ⟨?_, ?_⟩, v, hv, ?_⟩
  · intro p hp
    rw [hr, hc]
    exact listMax_ge _ _ (List.mem_map.mpr ⟨p, hp, rfl⟩)
  · intro r' hb
    rw [hc] at hb
    have := hb v hv
    rw [hr, ← hvd]; exact this
  · rw [hr, ← hvd]; rfl

/-- it does return a ball as soon as one vertex differs from the centre -/
theorem min_centered_bounding_returns (verts : List (V3 ℝ)) (c : V3 ℝ)
    (h : ∃ v ∈ verts, 0 < dist v c) : ∃ B, minimalCenteredBounding verts c = .ok B := by
  obtain ⟨v, hv, hpos⟩ := h
  have : 0 < listMax (verts.map fun v => V3.norm (v - c)) :=
    lt_of_lt_of_le hpos (listMax_ge _ _ (List.mem_map.mpr ⟨v, hv, rfl⟩))
  exact ⟨_, mkBall_of_pos c this⟩

example : ∃ B, minimalCenteredBounding
      [(⟨0,0,0⟩ : V3 ℝ), ⟨2,0,0⟩, ⟨0,2,0⟩, ⟨0,0,2⟩] ⟨1/2,1/2,1/2⟩ = .ok B := by
  apply min_centered_bounding_returns
  refine ⟨⟨2,0,0⟩, by simp, ?_⟩
  unfold BallSpec.dist
  rw [V3.norm_eq]
  apply Real.sqrt_pos.mpr
  simp only [V3.normSq_eq, V3.sub_x, V3.sub_y, V3.sub_z]; norm_num

/-! ## 2. maximal centred bounded ball (convex polyhedron: half-spaces with unit normals) -/

theorem pointPlaneDistances_mem {eqs : List (V3 ℝ × ℝ)} {c : V3 ℝ} {d : ℝ}
    (h : d ∈ pointPlaneDistances eqs c) : ∃ e ∈ eqs, d = V3.dot c e.1 + e.2 := by
  obtain ⟨e, he, rfl⟩ := List.mem_map.mp h
  exact ⟨e, he, rfl⟩

/-- the point `c + t n` -/
def along (c n : V3 ℝ) (t : ℝ) : V3 ℝ := c + V3.smul t n

theorem along_sub (c n : V3 ℝ) (t : ℝ) : along c n t - c = V3.smul t n := by
  ext <;> simp [along]

theorem dist_along (c n : V3 ℝ) (t : ℝ) (hn : V3.norm n = 1) : dist (along c n t) c = |t| := by
  unfold BallSpec.dist; rw [along_sub, V3.norm_smul, hn, mul_one]

theorem dot_along (c n : V3 ℝ) (t : ℝ) (hn : V3.norm n = 1) :
    V3.dot n (along c n t) = V3.dot c n + t := by
  have h1 : V3.normSq n = 1 := by rw [← V3.norm_mul_self, hn]; ring
  unfold along
  rw [V3.dot_add_right, V3.dot_smul_right, V3.dot_comm n c]
  have : V3.dot n n = 1 := h1
  rw [this]; ring

/-- Cauchy–Schwarz step: a point of the ball `‖p − c‖ ≤ r` is at most `r` further along a unit normal -/
theorem dot_le_of_inBall {n c p : V3 ℝ} {r : ℝ} (hn : V3.norm n = 1) (hp : InBall c r p) :
    V3.dot n p ≤ V3.dot c n + r := by
  have h1 : V3.dot n p = V3.dot c n + V3.dot n (p - c) := by
    rw [V3.dot_sub_right, V3.dot_comm n c]; ring
  have h2 := V3.dot_le_norm_mul n (p - c)
  rw [hn, one_mul] at h2
  unfold InBall BallSpec.dist at hp
  linarith

/-- **C13 centred bounded sphere.** With unit face normals, whatever
`maximal_centered_bounded_sphere` returns is centred at the given centre, lies inside every
half-space (Cauchy–Schwarz), touches the nearest face plane, and every larger concentric ball sticks
out of the body. -/
theorem max_centered_bounded_spec (eqs : List (V3 ℝ × ℝ)) (c : V3 ℝ)
    (hunit : ∀ e ∈ eqs, V3.norm e.1 = 1) (hne : eqs ≠ [])
    {B : Ball ℝ} (h : maximalCenteredBoundedSphere eqs c = .ok B) :
    B.center = c ∧ IsMaxCenteredBounded eqs B.center B.radius := by
  unfold maximalCenteredBoundedSphere at h
  simp only at h
  split at h
  · cases h
  obtain ⟨hr, hc, hpos⟩ := mkBall_ok h
  have hne' : pointPlaneDistances eqs c ≠ [] := by
    unfold pointPlaneDistances; simpa using hne
  obtain ⟨e0, he0, hd0⟩ := pointPlaneDistances_mem (listMax_mem _ hne')
  have hle : ∀ e ∈ eqs, V3.dot c e.1 + e.2 ≤ -B.radius := by
    intro e he
    have := listMax_ge (pointPlaneDistances eqs c) _ (List.mem_map.mpr ⟨e, he, rfl⟩)
    rw [hr]; linarith
  have hrpos : 0 < B.radius := by rw [hr]; exact hpos
  have he0r : V3.dot c e0.1 + e0.2 = -B.radius := by rw [hr, ← hd0]; ring
  refine ⟨hc, ?_, ⟨e0, he0, ?_⟩, ?_⟩
  · -- inside
    intro p hp e he
    rw [hc] at hp
    have := dot_le_of_inBall (hunit e he) hp
    have := hle e he
    simp only [Scalar.lit_real, Nat.cast_zero]; linarith
  · -- touches the nearest plane at c + r n
    refine ⟨along c e0.1 B.radius, ?_, ?_⟩
    · rw [hc]; unfold InBall; rw [dist_along _ _ _ (hunit e0 he0), abs_of_pos hrpos]
    · rw [dot_along _ _ _ (hunit e0 he0)]
      simp only [Scalar.lit_real, Nat.cast_zero]; linarith
  · -- maximal
    intro r' hr' hin
    have hp : InBall B.center r' (along c e0.1 r') := by
      rw [hc]; unfold InBall
      rw [dist_along _ _ _ (hunit e0 he0), abs_of_pos (lt_trans hrpos hr')]
    have := hin _ hp e0 he0
    rw [dot_along _ _ _ (hunit e0 he0)] at this
    simp only [Scalar.lit_real, Nat.cast_zero] at this
    linarith

/-- `maximal_centered_bounded_sphere` raises (always `ValueError`) exactly when the centre is NOT
strictly inside every half-space. -/
theorem max_centered_bounded_raises_iff (eqs : List (V3 ℝ × ℝ)) (c : V3 ℝ) (hne : eqs ≠ []) :
    (∃ e, maximalCenteredBoundedSphere eqs c = .error e) ↔ ∃ e ∈ eqs, 0 ≤ V3.dot c e.1 + e.2 := by
  have hne' : pointPlaneDistances eqs c ≠ [] := by
    unfold pointPlaneDistances; simpa using hne
  unfold maximalCenteredBoundedSphere
  simp only
  constructor
  · rintro ⟨msg, h⟩
    split at h
    · next hany =>
      obtain ⟨d, hd, hdpos⟩ := List.any_eq_true.mp hany
      obtain ⟨e, he, rfl⟩ := pointPlaneDistances_mem hd
      have : (0 : ℝ) < V3.dot c e.1 + e.2 := by simpa using hdpos
      exact ⟨e, he, le_of_lt this⟩
    · obtain ⟨_, hle⟩ := mkBall_error h
      obtain ⟨e0, he0, hd0⟩ := pointPlaneDistances_mem (listMax_mem _ hne')
      exact ⟨e0, he0, by rw [← hd0]; linarith⟩
  · rintro ⟨e, he, hpos⟩
    split
    · exact ⟨_, rfl⟩
    · have hge := listMax_ge (pointPlaneDistances eqs c) _ (List.mem_map.mpr ⟨e, he, rfl⟩)
      have hle : -(listMax (pointPlaneDistances eqs c)) ≤ 0 := by linarith
      unfold mkBall
      rw [if_neg]
      · exact ⟨_, rfl⟩
      · simpa using hle

/-- unit cube `[-1,1]³`: the six unit normals; centre at the origin -/
def cubeEqs : List (V3 ℝ × ℝ) :=
  [(⟨1,0,0⟩, -1), (⟨-1,0,0⟩, -1), (⟨0,1,0⟩, -1), (⟨0,-1,0⟩, -1), (⟨0,0,1⟩, -1), (⟨0,0,-1⟩, -1)]

example : ∀ e ∈ cubeEqs, V3.norm e.1 = 1 := by
  intro e he
  simp only [cubeEqs, List.mem_cons, List.not_mem_nil, or_false] at he
  rcases he with rfl | rfl | rfl | rfl | rfl | rfl <;>
    (rw [V3.norm_eq, V3.normSq_eq]; norm_num)

example : ¬ ∃ e, maximalCenteredBoundedSphere cubeEqs ⟨0,0,0⟩ = .error e := by
  rw [max_centered_bounded_raises_iff _ _ (by simp [cubeEqs])]
  rintro ⟨e, he, h⟩
  simp only [cubeEqs, List.mem_cons, List.not_mem_nil, or_false] at he
  rcases he with rfl | rfl | rfl | rfl | rfl | rfl <;>
    (simp only [V3.dot_eq] at h; norm_num at h)

/-! ## 3. maximal centred bounded circle (convex polygon: distance to the edge LINES) -/

/-- distance from `c` to the line through `a` with unit direction `u`, as the code computes it:
`‖(c − a) × u‖` -/
def lineDist (c a u : V3 ℝ) : ℝ := V3.norm (V3.cross (c - a) u)

theorem line_normSq_split (c a u : V3 ℝ) (t : ℝ) (hu : V3.norm u = 1) :
    V3.normSq (linePoint a u t - c) =
      V3.normSq (V3.cross (c - a) u) + (t - V3.dot (c - a) u) * (t - V3.dot (c - a) u) := by
  have h1 : V3.normSq u = 1 := by rw [← V3.norm_mul_self, hu]; ring
  obtain ⟨cx, cy, cz⟩ := c; obtain ⟨ax, ay, az⟩ := a; obtain ⟨ux, uy, uz⟩ := u
  simp only [V3.normSq_eq] at h1
  simp only [linePoint, V3.normSq_eq, V3.dot_eq, V3.cross, V3.add_x, V3.add_y, V3.add_z, V3.sub_x,
    V3.sub_y, V3.sub_z, V3.smul_x, V3.smul_y, V3.smul_z]
  linear_combination
    (t * t - ((cx - ax) * (cx - ax) + (cy - ay) * (cy - ay) + (cz - az) * (cz - az))) * h1

/-- `‖(c − a) × u‖` really is the distance to the line: no point of the line is closer … -/
theorem lineDist_le (c a u : V3 ℝ) (hu : V3.norm u = 1) (t : ℝ) :
    lineDist c a u ≤ dist (linePoint a u t) c := by
  unfold lineDist BallSpec.dist
  rw [V3.norm_eq, V3.norm_eq]
  apply Real.sqrt_le_sqrt
  rw [line_normSq_split c a u t hu]
  nlinarith [mul_self_nonneg (t - V3.dot (c - a) u)]

/-- … and the foot of the perpendicular attains it -/
theorem lineDist_attained (c a u : V3 ℝ) (hu : V3.norm u = 1) :
    dist (linePoint a u (V3.dot (c - a) u)) c = lineDist c a u := by
  unfold lineDist BallSpec.dist
  rw [V3.norm_eq, V3.norm_eq, line_normSq_split c a u _ hu]
  congr 1; ring

/-- the lines carrying the edges, as the code forms them: through `v_i` with direction
`(v_i − v_{i−1}) / ‖v_i − v_{i−1}‖` -/
def edgeLines (verts : List (V3 ℝ)) : List (V3 ℝ × V3 ℝ) :=
  List.zipWith (fun v1 v2 => (v1, V3.sdiv (v1 - v2) (V3.norm (v1 - v2)))) verts (rollR verts)

theorem edgeDist_zip (c : V3 ℝ) (xs ys : List (V3 ℝ)) :
    List.zipWith (fun p d => V3.norm (V3.cross p d)) (xs.map fun v => c - v)
        ((List.zipWith (fun a b => a - b) xs ys).map fun d => V3.sdiv d (V3.norm d)) =
      (List.zipWith (fun v1 v2 => (v1, V3.sdiv (v1 - v2) (V3.norm (v1 - v2)))) xs ys).map
        fun l => lineDist c l.1 l.2 := by
  induction xs generalizing ys with
  | nil => simp
  | cons x xs ih =>
    cases ys with
    | nil => simp
    | cons y ys =>
      simp only [List.map_cons, List.zipWith_cons_cons, List.cons.injEq]
      exact ⟨rfl, ih ys⟩

theorem edgeLineDistances_eq (verts : List (V3 ℝ)) (c : V3 ℝ) :
    edgeLineDistances verts c = (edgeLines verts).map fun l => lineDist c l.1 l.2 := by
  unfold edgeLineDistances edgeLines
  exact edgeDist_zip c verts (rollR verts)

theorem rollR_length {β : Type} (l : List β) : (rollR l).length = l.length := by
  unfold rollR
  cases h : l.getLast? with
  | none => simp [List.getLast?_eq_none_iff.mp h]
  | some x =>
    have hne : l ≠ [] := by rintro rfl; simp at h
    simp only [List.length_cons, List.length_dropLast]
    have : 0 < l.length := List.length_pos_iff.mpr hne
    omega

theorem edgeLines_ne_nil (verts : List (V3 ℝ)) (hne : verts ≠ []) : edgeLines verts ≠ [] := by
  intro h
  have hl := congrArg List.length h
  unfold edgeLines at hl
  rw [List.length_zipWith, rollR_length, Nat.min_self] at hl
  exact hne (List.length_eq_zero_iff.mp hl)

/-- **C13 centred bounded circle.** For a polygon with distinct consecutive vertices (unit edge
directions), whatever `maximal_centered_bounded_circle` returns is centred at the given centre,
no point of any edge line lies strictly inside it, and it touches the nearest edge line. (For a
convex polygon containing the centre this is the largest concentric circle inside the polygon.) -/
theorem max_centered_bounded_circle_spec (verts : List (V3 ℝ)) (c : V3 ℝ) (hne : verts ≠ [])
    (hunit : ∀ l ∈ edgeLines verts, V3.norm l.2 = 1)
    {B : Ball ℝ} (h : maximalCenteredBoundedCircle verts c = .ok B) :
    B.center = c ∧ IsMaxCenteredBoundedByLines (edgeLines verts) B.center B.radius := by
  unfold maximalCenteredBoundedCircle at h
  obtain ⟨hr, hc, _⟩ := mkBall_ok h
  rw [edgeLineDistances_eq] at hr
  have hne' : (edgeLines verts).map (fun l => lineDist c l.1 l.2) ≠ [] := by
    simpa using edgeLines_ne_nil verts hne
  refine ⟨hc, ?_, ?_⟩
  · intro l hl t
    rw [hr, hc]
    exact le_trans (listMin_le _ _ (List.mem_map.mpr ⟨l, hl, rfl⟩)) (lineDist_le c l.1 l.2 (hunit l hl) t)
  · obtain ⟨l, hl, hd⟩ := List.mem_map.mp (listMin_mem _ hne')
    refine ⟨l, hl, V3.dot (c - l.1) l.2, ?_⟩
    rw [hc, lineDist_attained c l.1 l.2 (hunit l hl), hr, hd]

/-- the unit square, centre (1/2,1/2,0): its four edge directions are unit vectors -/
example : ∀ l ∈ edgeLines [(⟨0,0,0⟩ : V3 ℝ), ⟨1,0,0⟩, ⟨1,1,0⟩, ⟨0,1,0⟩], V3.norm l.2 = 1 := by
  intro l hl
  simp only [edgeLines, rollR, List.getLast?, List.getLast, List.dropLast, List.zipWith_cons_cons,
    List.zipWith_nil_right, List.mem_cons, List.not_mem_nil, or_false] at hl
  rcases hl with rfl | rfl | rfl | rfl <;>
    (apply V3.norm_sdiv_self
     rw [V3.norm_eq, V3.normSq_eq]
     simp only [V3.sub_x, V3.sub_y, V3.sub_z]
     norm_num)

/-! ## 4. circumsphere / circumcircle: the linear system and what its residual means -/

/-- the contract of `np.linalg.lstsq` used below: `(x, r)` minimises `‖A·(x,r) − b‖²` -/
def IsLstsqMin (rows : List (Row ℝ)) (x : V3 ℝ) (r : ℝ) : Prop :=
  ∀ x' r', sumSq rows x r ≤ sumSq rows x' r'

/-- residual of the row of vertex `v`: `(v−v0)·x − |v−v0|²/2 = (|x|² − |v − (x+v0)|²)/2` -/
theorem circum_row_identity (v v0 x : V3 ℝ) (r : ℝ) :
    V3.normSq (v - (x + v0)) - V3.normSq x =
      -2 * (Row.resid ⟨v - v0, Scalar.lit 0, V3.dot (v - v0) (v - v0) / Scalar.lit 2⟩ x r) := by
  obtain ⟨a, b, c⟩ := v; obtain ⟨d, e, f⟩ := v0; obtain ⟨g, h, i⟩ := x
  simp only [Row.resid, V3.normSq_eq, V3.dot_eq, V3.sub_x, V3.sub_y, V3.sub_z, V3.add_x, V3.add_y,
    V3.add_z, Scalar.lit_real]
  push_cast; ring

theorem circumSystemSphere_cons (v0 : V3 ℝ) (rest : List (V3 ℝ)) :
    circumSystemSphere (v0 :: rest) =
      rest.map fun v => ⟨v - v0, Scalar.lit 0, V3.dot (v - v0) (v - v0) / Scalar.lit 2⟩ := by
  simp [circumSystemSphere, circumPoints, List.map_map, Function.comp_def]

theorem normSq_neg_self (x v0 : V3 ℝ) : V3.normSq (v0 - (x + v0)) = V3.normSq x := by
  simp only [V3.normSq_eq, V3.sub_x, V3.sub_y, V3.sub_z, V3.add_x, V3.add_y, V3.add_z]; ring

/-- quantitative form: if the rows of the circum-system have squared residual sum `≤ ε`, then every
vertex satisfies `(‖v − c‖² − r²)² ≤ 4ε` for `c = x + v0`, `r = ‖x‖`. -/
theorem circum_resid_bound (v0 : V3 ℝ) (rest : List (V3 ℝ)) (x : V3 ℝ) (r ε : ℝ)
    (h : sumSq (circumSystemSphere (v0 :: rest)) x r ≤ ε) :
    ∀ v ∈ v0 :: rest,
      (V3.normSq (v - (x + v0)) - V3.normSq x) * (V3.normSq (v - (x + v0)) - V3.normSq x) ≤ 4 * ε := by
  intro v hv
  rcases List.mem_cons.mp hv with rfl | hv
  · rw [normSq_neg_self]; have := sumSq_nonneg (circumSystemSphere (v :: rest)) x r
    nlinarith
  · have hrow : (⟨v - v0, Scalar.lit 0, V3.dot (v - v0) (v - v0) / Scalar.lit 2⟩ : Row ℝ) ∈
        circumSystemSphere (v0 :: rest) := by
      rw [circumSystemSphere_cons]; exact List.mem_map.mpr ⟨v, hv, rfl⟩
    have hb := resid_sq_le_sumSq _ x r _ hrow
    rw [circum_row_identity v v0 x r]
    nlinarith

/-- **C13 circumsphere, exact residual.** An exact solution `x` of the system
`(v_i − v_0)·x = |v_i − v_0|²/2` (zero residual) gives a sphere, centre `x + v_0`, radius `‖x‖`,
passing through EVERY vertex. -/
theorem circum_of_zero_resid (v0 : V3 ℝ) (rest : List (V3 ℝ)) (x : V3 ℝ) (r : ℝ)
    (h : sumSq (circumSystemSphere (v0 :: rest)) x r = 0) :
    IsCircum (x + v0) (V3.norm x) (v0 :: rest) := by
  intro v hv
  have hb := circum_resid_bound v0 rest x r 0 (le_of_eq h) v hv
  have h0 : V3.normSq (v - (x + v0)) - V3.normSq x = 0 := by
    have := mul_self_nonneg (V3.normSq (v - (x + v0)) - V3.normSq x)
    exact mul_self_eq_zero.mp (le_antisymm (by linarith) this)
  unfold BallSpec.dist
  rw [V3.norm_eq, V3.norm_eq]; congr 1; linarith

/-- **C13 circumsphere, converse.** If ANY sphere passes through all the vertices, its centre solves
the system exactly — so the least-squares residual is zero, and a non-zero residual correctly
refutes the existence of a circumsphere. -/
theorem circum_exists_imp_consistent (v0 : V3 ℝ) (rest : List (V3 ℝ)) (c : V3 ℝ) (ρ r : ℝ)
    (h : IsCircum c ρ (v0 :: rest)) : sumSq (circumSystemSphere (v0 :: rest)) (c - v0) r = 0 := by
  rw [sumSq_eq_zero_iff, circumSystemSphere_cons]
  intro row hrow
  obtain ⟨v, hv, rfl⟩ := List.mem_map.mp hrow
  have hv0 := h v0 List.mem_cons_self
  have hvv := h v (List.mem_cons_of_mem _ hv)
  unfold BallSpec.dist at hv0 hvv
  have e0 : V3.normSq (v0 - c) = V3.normSq (v - c) := by
    rw [← V3.norm_mul_self, ← V3.norm_mul_self, hv0, hvv]
  have hid := circum_row_identity v v0 (c - v0) r
  have hc : (c - v0) + v0 = c := V3.sub_add_cancel' c v0
  rw [hc] at hid
  have : V3.normSq (c - v0) = V3.normSq (v0 - c) := V3.normSq_sub_comm _ _
  linarith

theorem circum_refutes (v0 : V3 ℝ) (rest : List (V3 ℝ)) (x : V3 ℝ) (r : ℝ)
    (hmin : IsLstsqMin (circumSystemSphere (v0 :: rest)) x r)
    (hres : sumSq (circumSystemSphere (v0 :: rest)) x r ≠ 0) :
    ¬ ∃ c ρ, IsCircum c ρ (v0 :: rest) := by
  rintro ⟨c, ρ, hc⟩
  have h0 := circum_exists_imp_consistent v0 rest c ρ r hc
  have := hmin (c - v0) r
  rw [h0] at this
  exact hres (le_antisymm this (sumSq_nonneg _ _ _))

/-! the polygon version: one more row, `normal · x = 0`, keeps the centre in the polygon's plane -/

theorem circumSystemCircle_mem {verts : List (V3 ℝ)} {normal : V3 ℝ} {row : Row ℝ} :
    row ∈ circumSystemCircle verts normal ↔
      row ∈ circumSystemSphere verts ∨ row = ⟨normal, Scalar.lit 0, Scalar.lit 0⟩ := by
  simp [circumSystemCircle]

theorem sumSq_append (a b : List (Row ℝ)) (x : V3 ℝ) (r : ℝ) :
    sumSq (a ++ b) x r = sumSq a x r + sumSq b x r := by
  simp [sumSq_eq]

/-- **C13 circumcircle, exact residual.** Zero residual of the polygon system gives a circle through
every vertex whose centre lies in the plane through `v_0` orthogonal to `normal`. -/
theorem circumcircle_of_zero_resid (v0 : V3 ℝ) (rest : List (V3 ℝ)) (normal x : V3 ℝ) (r : ℝ)
    (h : sumSq (circumSystemCircle (v0 :: rest) normal) x r = 0) :
    IsCircum (x + v0) (V3.norm x) (v0 :: rest) ∧ InPlane normal v0 (x + v0) := by
  unfold circumSystemCircle at h
  rw [sumSq_append] at h
  have h1 := sumSq_nonneg (circumSystemSphere (v0 :: rest)) x r
  have h2 := sumSq_nonneg [(⟨normal, Scalar.lit 0, Scalar.lit 0⟩ : Row ℝ)] x r
  have ha : sumSq (circumSystemSphere (v0 :: rest)) x r = 0 := by linarith
  have hb : sumSq [(⟨normal, Scalar.lit 0, Scalar.lit 0⟩ : Row ℝ)] x r = 0 := by linarith
  refine ⟨circum_of_zero_resid v0 rest x r ha, ?_⟩
  have := (sumSq_eq_zero_iff _ x r).mp hb _ List.mem_cons_self
  unfold InPlane
  rw [V3.add_sub_cancel_right']
  simpa [Row.resid] using this

/-- converse for polygons: a circle through all vertices with its centre in the polygon's plane
makes the polygon system consistent. -/
theorem circumcircle_exists_imp_consistent (v0 : V3 ℝ) (rest : List (V3 ℝ)) (normal c : V3 ℝ) (ρ r : ℝ)
    (h : IsCircum c ρ (v0 :: rest)) (hp : InPlane normal v0 c) :
    sumSq (circumSystemCircle (v0 :: rest) normal) (c - v0) r = 0 := by
  unfold circumSystemCircle
  rw [sumSq_append, circum_exists_imp_consistent v0 rest c ρ r h, zero_add, sumSq_eq_zero_iff]
  intro row hrow
  rw [List.mem_singleton] at hrow
  subst hrow
  unfold InPlane at hp
  simpa [Row.resid] using hp

theorem circumcircle_refutes (v0 : V3 ℝ) (rest : List (V3 ℝ)) (normal x : V3 ℝ) (r : ℝ)
    (hmin : IsLstsqMin (circumSystemCircle (v0 :: rest) normal) x r)
    (hres : sumSq (circumSystemCircle (v0 :: rest) normal) x r ≠ 0) :
    ¬ ∃ c ρ, IsCircum c ρ (v0 :: rest) ∧ InPlane normal v0 c := by
  rintro ⟨c, ρ, hc, hp⟩
  have h0 := circumcircle_exists_imp_consistent v0 rest normal c ρ r hc hp
  have := hmin (c - v0) r
  rw [h0] at this
  exact hres (le_antisymm this (sumSq_nonneg _ _ _))

/-- the cube `{0,1}³`: `x = (1/2,1/2,1/2)` solves its circum-system exactly -/
example : sumSq (circumSystemSphere [(⟨0,0,0⟩ : V3 ℝ), ⟨1,0,0⟩, ⟨0,1,0⟩, ⟨0,0,1⟩, ⟨1,1,0⟩, ⟨1,0,1⟩,
    ⟨0,1,1⟩, ⟨1,1,1⟩]) ⟨1/2,1/2,1/2⟩ 0 = 0 := by
  rw [sumSq_eq_zero_iff, circumSystemSphere_cons]
  intro row hrow
  simp only [List.map_cons, List.map_nil, List.mem_cons, List.not_mem_nil, or_false] at hrow
  rcases hrow with rfl | rfl | rfl | rfl | rfl | rfl | rfl <;>
    (simp only [Row.resid, V3.dot_eq, V3.sub_x, V3.sub_y, V3.sub_z, Scalar.lit_real]; norm_num)

/-! ## 5. the model functions `circumsphere` / `circumcircle` (guard + constructor) -/

theorem residGuard_false {nverts thresh : Nat} {resids : List ℝ} {atol : ℝ}
    (h : residGuard nverts thresh resids atol = .ok false) :
    nverts ≤ thresh ∨ ∃ ρ, resids = [ρ] ∧ |ρ| ≤ atol := by
  unfold residGuard at h
  split at h
  · right
    split at h
    · next ρ =>
      injection h with h
      refine ⟨ρ, rfl, ?_⟩
      rw [← isclose_zero_iff]
      simpa using h
    · cases h
  · left; omega

theorem residGuard_true {nverts thresh : Nat} {resids : List ℝ} {atol : ℝ}
    (h : residGuard nverts thresh resids atol = .ok true) :
    nverts > thresh ∧ ∃ ρ, resids = [ρ] ∧ atol < |ρ| := by
  unfold residGuard at h
  split at h
  · next hn =>
    refine ⟨hn, ?_⟩
    split at h
    · next ρ =>
      injection h with h
      refine ⟨ρ, rfl, ?_⟩
      have hc : isclose ρ (Scalar.lit 0 : ℝ) atol = false := by simpa using h
      by_contra hle
      push Not at hle
      rw [(isclose_zero_iff ρ atol).mpr hle] at hc
      cases hc
    · cases h
  · injection h with h; cases h

theorem residGuard_error {nverts thresh : Nat} {resids : List ℝ} {atol : ℝ} {e : String}
    (h : residGuard nverts thresh resids atol = .error e) : e = "ValueError" := by
  unfold residGuard at h
  split at h
  · split at h
    · cases h
    · injection h with h; exact h.symm
  · cases h

theorem circumBall_ok {thresh : Nat} {verts : List (V3 ℝ)} {rows : List (Row ℝ)} {x : V3 ℝ}
    {resids : List ℝ} {B : Ball ℝ} (h : circumBall thresh verts rows x resids = .ok B) :
    B.radius = V3.norm x ∧ B.center = x + firstVertex verts ∧ 0 < V3.norm x ∧
      (verts.length ≤ thresh ∨ ∃ ρ, resids = [ρ] ∧ |ρ| ≤ circumAtol rows) := by
  unfold circumBall at h
  simp only [bind, Except.bind] at h
  split at h
  · cases h
  · next b hb =>
    cases b with
    | true => simp [throw, throwThe, MonadExceptOf.throw] at h
    | false =>
      simp only [Bool.false_eq_true, ↓reduceIte] at h
      obtain ⟨h1, h2, h3⟩ := mkBall_ok h
      exact ⟨h1, h2, h3, residGuard_false hb⟩

theorem circumBall_runtimeError {thresh : Nat} {verts : List (V3 ℝ)} {rows : List (Row ℝ)} {x : V3 ℝ}
    {resids : List ℝ} (h : circumBall thresh verts rows x resids = .error "RuntimeError") :
    verts.length > thresh ∧ ∃ ρ, resids = [ρ] ∧ circumAtol rows < |ρ| := by
  unfold circumBall at h
  simp only [bind, Except.bind] at h
  split at h
  · next e he =>
    have := residGuard_error he
    injection h with h
    rw [this] at h; exact absurd h (by decide)
  · next b hb =>
    cases b with
    | true => exact residGuard_true hb
    | false =>
      simp only [Bool.false_eq_true, ↓reduceIte] at h
      have := (mkBall_error h).1
      exact absurd this (by decide)

theorem circumAtol_nonneg (rows : List (Row ℝ)) : 0 ≤ circumAtol rows := by
  unfold circumAtol
  simp only [Scalar.q, Scalar.ofNat_real, Scalar.sqr_real]
  have := mul_self_nonneg (listMax (rows.map fun row => row.b))
  positivity

/-- **C13 circumsphere refusal is sound.** If the model raises `RuntimeError` on a residual that is
the least-squares minimum (lstsq contract), then NO sphere passes through all the vertices. -/
theorem circumsphere_refusal_sound (v0 : V3 ℝ) (rest : List (V3 ℝ)) (x : V3 ℝ) (resids : List ℝ)
    (hmin : IsLstsqMin (circumSystemSphere (v0 :: rest)) x 0)
    (hres : ∀ ρ ∈ resids, ρ = sumSq (circumSystemSphere (v0 :: rest)) x 0)
    (h : circumsphere (v0 :: rest) x resids = .error "RuntimeError") :
    ¬ ∃ c ρ, IsCircum c ρ (v0 :: rest) := by
  obtain ⟨_, ρ, hρ, hlt⟩ := circumBall_runtimeError h
  have hρ' := hres ρ (by rw [hρ]; exact List.mem_singleton_self ρ)
  apply circum_refutes v0 rest x 0 hmin
  rw [← hρ']
  intro h0
  rw [h0, abs_zero] at hlt
  exact absurd hlt (not_lt.mpr (circumAtol_nonneg _))

/-- **C13 circumsphere, returned ball.** If the system is solved exactly (zero residual), whatever
`circumsphere` returns is a sphere through every vertex, centre `x + v_0`, radius `‖x‖` … -/
theorem circumsphere_exact (v0 : V3 ℝ) (rest : List (V3 ℝ)) (x : V3 ℝ) (resids : List ℝ)
    (hzero : sumSq (circumSystemSphere (v0 :: rest)) x 0 = 0)
    {B : Ball ℝ} (h : circumsphere (v0 :: rest) x resids = .ok B) :
    IsCircum B.center B.radius (v0 :: rest) := by
  obtain ⟨h1, h2, _, _⟩ := circumBall_ok h
  rw [h1, h2]
  exact circum_of_zero_resid v0 rest x 0 hzero

/-- … and an existing circumsphere is never refused: with the lstsq contract and a zero residual the
model returns (provided the solution is not the degenerate `x = 0`). -/
theorem circumsphere_accepts (verts : List (V3 ℝ)) (x : V3 ℝ) (hx : 0 < V3.norm x) :
    ∃ B, circumsphere verts x [0] = .ok B := by
  unfold circumsphere circumBall
  have hg : residGuard verts.length 4 [(0 : ℝ)] (circumAtol (circumSystemSphere verts)) = .ok false := by
    unfold residGuard
    split
    · have hz := isclose_zero_zero (circumAtol_nonneg (circumSystemSphere verts))
      simp only [hz, Bool.not_true]
    · rfl
  simp only [hg, bind, Except.bind, Bool.false_eq_true, ↓reduceIte]
  exact ⟨_, mkBall_of_pos _ hx⟩

/-- **C13 circumsphere, tolerance (`_partial`).** What is provable about a returned ball from the guard
alone: with the lstsq contract `resids = [‖Ax−b‖²]`, every vertex satisfies
`(‖v − c‖² − r²)² ≤ 4·10⁻⁸·(max_i |v_i−v_0|²/2)²`, i.e. it lies on the sphere up to a relative
`2·10⁻⁴` in squared distance. Missing for the full statement (`IsCircum`): the guard accepts
residuals in `(0, atol]`; inputs that are non-cospherical by less than that margin get a ball that
only nearly passes through the vertices (the property excludes this margin). -/
theorem circumsphere_sound_partial (v0 : V3 ℝ) (rest : List (V3 ℝ)) (x : V3 ℝ) (resids : List ℝ)
    (hlen : 4 < (v0 :: rest).length)
    (hres : ∀ ρ ∈ resids, ρ = sumSq (circumSystemSphere (v0 :: rest)) x 0)
    {B : Ball ℝ} (h : circumsphere (v0 :: rest) x resids = .ok B) :
    ∀ v ∈ v0 :: rest,
      (V3.normSq (v - B.center) - B.radius * B.radius) * (V3.normSq (v - B.center) - B.radius * B.radius)
        ≤ 4 * circumAtol (circumSystemSphere (v0 :: rest)) := by
  obtain ⟨h1, h2, _, hg⟩ := circumBall_ok h
  rcases hg with hle | ⟨ρ, hρ, hle⟩
  · omega
  · have hρ' := hres ρ (by rw [hρ]; exact List.mem_singleton_self ρ)
    have hb : sumSq (circumSystemSphere (v0 :: rest)) x 0 ≤ circumAtol (circumSystemSphere (v0 :: rest)) := by
      rw [← hρ']; exact le_trans (le_abs_self ρ) hle
    intro v hv
    have := circum_resid_bound v0 rest x 0 _ hb v hv
    rw [h1, h2, V3.norm_mul_self]
    simpa [firstVertex] using this

/-- polygon versions -/
theorem circumcircle_refusal_sound (v0 : V3 ℝ) (rest : List (V3 ℝ)) (normal x : V3 ℝ) (resids : List ℝ)
    (hmin : IsLstsqMin (circumSystemCircle (v0 :: rest) normal) x 0)
    (hres : ∀ ρ ∈ resids, ρ = sumSq (circumSystemCircle (v0 :: rest) normal) x 0)
    (h : circumcircle (v0 :: rest) normal x resids = .error "RuntimeError") :
    ¬ ∃ c ρ, IsCircum c ρ (v0 :: rest) ∧ InPlane normal v0 c := by
  obtain ⟨_, ρ, hρ, hlt⟩ := circumBall_runtimeError h
  have hρ' := hres ρ (by rw [hρ]; exact List.mem_singleton_self ρ)
  apply circumcircle_refutes v0 rest normal x 0 hmin
  rw [← hρ']
  intro h0
  rw [h0, abs_zero] at hlt
  exact absurd hlt (not_lt.mpr (circumAtol_nonneg _))

theorem circumcircle_exact (v0 : V3 ℝ) (rest : List (V3 ℝ)) (normal x : V3 ℝ) (resids : List ℝ)
    (hzero : sumSq (circumSystemCircle (v0 :: rest) normal) x 0 = 0)
    {B : Ball ℝ} (h : circumcircle (v0 :: rest) normal x resids = .ok B) :
    IsCircum B.center B.radius (v0 :: rest) ∧ InPlane normal v0 B.center := by
  obtain ⟨h1, h2, _, _⟩ := circumBall_ok h
  rw [h1, h2]
  exact circumcircle_of_zero_resid v0 rest normal x 0 hzero

/-- unit square in the plane z = 0: exact solution `x = (1/2, 1/2, 0)`, so the model returns its
circumcircle -/
example : sumSq (circumSystemCircle [(⟨0,0,0⟩ : V3 ℝ), ⟨1,0,0⟩, ⟨1,1,0⟩, ⟨0,1,0⟩] ⟨0,0,1⟩) ⟨1/2,1/2,0⟩ 0 = 0 := by
  rw [sumSq_eq_zero_iff]
  intro row hrow
  rw [circumSystemCircle_mem, circumSystemSphere_cons] at hrow
  simp only [List.map_cons, List.map_nil, List.mem_cons, List.not_mem_nil, or_false] at hrow
  rcases hrow with (rfl | rfl | rfl) | rfl <;>
    (simp only [Row.resid, V3.dot_eq, V3.sub_x, V3.sub_y, V3.sub_z, Scalar.lit_real]; norm_num)

/-! ## 6. insphere / incircle -/

/-- the plane equations `n · p + d ≤ 0` of faces given as (unit outward normal, a vertex on it) -/
def faceEqs (faces : List (V3 ℝ × V3 ℝ)) : List (V3 ℝ × ℝ) :=
  faces.map fun f => (f.1, -(V3.dot f.1 f.2))

/-- **C13 insphere, exact residual.** An exact solution `(c, r)` of the system
`n_i · c + r = n_i · v_i` is at signed distance `−r` from every face plane: tangent to all of them. -/
theorem in_of_zero_resid (faces : List (V3 ℝ × V3 ℝ)) (x : V3 ℝ) (r : ℝ)
    (h : sumSq (inSystemSphere faces) x r = 0) : IsTangentInside (faceEqs faces) x r := by
  rw [sumSq_eq_zero_iff] at h
  intro e he
  obtain ⟨f, hf, rfl⟩ := List.mem_map.mp he
  have := h ⟨f.1, Scalar.lit 1, V3.dot f.1 f.2⟩ (List.mem_map.mpr ⟨f, hf, rfl⟩)
  simp only [Row.resid, Scalar.lit_real, Nat.cast_one, one_mul] at this
  simp only
  linarith

/-- with unit normals and `r ≥ 0`, tangent-from-inside means: the ball lies inside every half-space
and touches every face plane (at `c + r n_i`). -/
theorem tangentInside_spec (eqs : List (V3 ℝ × ℝ)) (c : V3 ℝ) (r : ℝ) (hr : 0 ≤ r)
    (hunit : ∀ e ∈ eqs, V3.norm e.1 = 1) (ht : IsTangentInside eqs c r) :
    BallInside eqs c r ∧ ∀ e ∈ eqs, TouchesPlane e c r := by
  constructor
  · intro p hp e he
    have h1 := dot_le_of_inBall (hunit e he) hp
    have h2 := ht e he
    rw [V3.dot_comm] at h2
    simp only [Scalar.lit_real, Nat.cast_zero]; linarith
  · intro e he
    refine ⟨along c e.1 r, ?_, ?_⟩
    · unfold InBall; rw [dist_along _ _ _ (hunit e he), abs_of_nonneg hr]
    · have h2 := ht e he
      rw [V3.dot_comm] at h2
      rw [dot_along _ _ _ (hunit e he)]
      simp only [Scalar.lit_real, Nat.cast_zero]; linarith

/-- **C13 insphere, converse.** If a ball tangent to every face plane from inside exists, its centre
and radius solve the system exactly, so a non-zero least-squares residual refutes existence. -/
theorem in_exists_imp_consistent (faces : List (V3 ℝ × V3 ℝ)) (c : V3 ℝ) (ρ : ℝ)
    (h : IsTangentInside (faceEqs faces) c ρ) : sumSq (inSystemSphere faces) c ρ = 0 := by
  rw [sumSq_eq_zero_iff]
  intro row hrow
  obtain ⟨f, hf, rfl⟩ := List.mem_map.mp hrow
  have := h (f.1, -(V3.dot f.1 f.2)) (List.mem_map.mpr ⟨f, hf, rfl⟩)
  simp only [Row.resid, Scalar.lit_real, Nat.cast_one, one_mul]
  simp only at this
  linarith

theorem in_refutes (faces : List (V3 ℝ × V3 ℝ)) (x : V3 ℝ) (r : ℝ)
    (hmin : IsLstsqMin (inSystemSphere faces) x r) (hres : sumSq (inSystemSphere faces) x r ≠ 0) :
    ¬ ∃ c ρ, IsTangentInside (faceEqs faces) c ρ := by
  rintro ⟨c, ρ, hc⟩
  have h0 := in_exists_imp_consistent faces c ρ hc
  have := hmin c ρ
  rw [h0] at this
  exact hres (le_antisymm this (sumSq_nonneg _ _ _))

/-- the edges of the polygon as (outward normal, vertex) pairs, with the normals the code builds -/
def edgeFaces (verts : List (V3 ℝ)) (normal : V3 ℝ) (signedArea : ℝ) : List (V3 ℝ × V3 ℝ) :=
  List.zip (outwardNormals verts normal signedArea) verts

theorem inSystemCircle_eq (verts : List (V3 ℝ)) (normal : V3 ℝ) (sa : ℝ) :
    inSystemCircle verts normal sa =
      inSystemSphere (edgeFaces verts normal sa) ++
        [⟨normal, Scalar.lit 0, V3.dot normal (firstVertex verts)⟩] := by
  unfold inSystemCircle inSystemSphere edgeFaces
  congr 1
  rw [List.zip, List.map_zipWith]

/-- **C13 incircle, exact residual.** Zero residual of the polygon system: tangent to every edge
line (signed distance `−r` w.r.t. the code's edge normals) and centred in the polygon's plane. -/
theorem incircle_of_zero_resid (verts : List (V3 ℝ)) (normal : V3 ℝ) (sa : ℝ) (x : V3 ℝ) (r : ℝ)
    (h : sumSq (inSystemCircle verts normal sa) x r = 0) :
    IsTangentInside (faceEqs (edgeFaces verts normal sa)) x r ∧ InPlane normal (firstVertex verts) x := by
  rw [inSystemCircle_eq, sumSq_append] at h
  have h1 := sumSq_nonneg (inSystemSphere (edgeFaces verts normal sa)) x r
  have h2 := sumSq_nonneg [(⟨normal, Scalar.lit 0, V3.dot normal (firstVertex verts)⟩ : Row ℝ)] x r
  refine ⟨in_of_zero_resid _ x r (by linarith), ?_⟩
  have hb : sumSq [(⟨normal, Scalar.lit 0, V3.dot normal (firstVertex verts)⟩ : Row ℝ)] x r = 0 := by
    linarith
  have := (sumSq_eq_zero_iff _ x r).mp hb _ List.mem_cons_self
  unfold InPlane
  rw [V3.dot_sub_right]
  simp only [Row.resid, Scalar.lit_real, Nat.cast_zero, zero_mul, add_zero] at this
  simpa using this

theorem incircle_exists_imp_consistent (verts : List (V3 ℝ)) (normal : V3 ℝ) (sa : ℝ) (c : V3 ℝ) (ρ : ℝ)
    (h : IsTangentInside (faceEqs (edgeFaces verts normal sa)) c ρ)
    (hp : InPlane normal (firstVertex verts) c) :
    sumSq (inSystemCircle verts normal sa) c ρ = 0 := by
  rw [inSystemCircle_eq, sumSq_append, in_exists_imp_consistent _ c ρ h, zero_add, sumSq_eq_zero_iff]
  intro row hrow
  rw [List.mem_singleton] at hrow
  subst hrow
  unfold InPlane at hp
  rw [V3.dot_sub_right] at hp
  simp only [Row.resid, Scalar.lit_real, Nat.cast_zero, zero_mul, add_zero]
  simpa using hp

/-! the model functions -/

theorem inBall_ok {thresh : Nat} {verts : List (V3 ℝ)} {x : V3 ℝ} {r : ℝ}
    {resids : List ℝ} {B : Ball ℝ} (h : inBall thresh verts x r resids = .ok B) :
    B.radius = r ∧ B.center = x ∧ 0 < r := by
  unfold inBall at h
  simp only [bind, Except.bind] at h
  split at h
  · cases h
  · next b hb =>
    cases b with
    | true => simp [throw, throwThe, MonadExceptOf.throw] at h
    | false =>
      simp only [Bool.false_eq_true, ↓reduceIte] at h
      exact mkBall_ok h

theorem inBall_runtimeError {thresh : Nat} {verts : List (V3 ℝ)} {x : V3 ℝ} {r : ℝ}
    {resids : List ℝ} (h : inBall thresh verts x r resids = .error "RuntimeError") :
    verts.length > thresh ∧ ∃ ρ, resids = [ρ] ∧ Scalar.q 1 100000000 * Scalar.sqr (extent verts) < |ρ| := by
  unfold inBall at h
  simp only [bind, Except.bind] at h
  split at h
  · next e he =>
    have := residGuard_error he
    injection h with h
    rw [this] at h; exact absurd h (by decide)
  · next b hb =>
    cases b with
    | true => exact residGuard_true hb
    | false =>
      simp only [Bool.false_eq_true, ↓reduceIte] at h
      have := (mkBall_error h).1
      exact absurd this (by decide)

theorem inAtol_nonneg (verts : List (V3 ℝ)) :
    (0 : ℝ) ≤ Scalar.q 1 100000000 * Scalar.sqr (extent verts) := by
  simp only [Scalar.q, Scalar.ofNat_real, Scalar.sqr_real]
  have := mul_self_nonneg (extent verts)
  positivity

/-- **C13 insphere refusal is sound.** `RuntimeError` on a least-squares-minimal residual means no
ball is tangent to all face planes. -/
theorem insphere_refusal_sound (verts : List (V3 ℝ)) (faces : List (V3 ℝ × V3 ℝ)) (x : V3 ℝ) (r : ℝ)
    (resids : List ℝ) (hmin : IsLstsqMin (inSystemSphere faces) x r)
    (hres : ∀ ρ ∈ resids, ρ = sumSq (inSystemSphere faces) x r)
    (h : insphere verts x r resids = .error "RuntimeError") :
    ¬ ∃ c ρ, IsTangentInside (faceEqs faces) c ρ := by
  obtain ⟨_, ρ, hρ, hlt⟩ := inBall_runtimeError h
  have hρ' := hres ρ (by rw [hρ]; exact List.mem_singleton_self ρ)
  apply in_refutes faces x r hmin
  rw [← hρ']
  intro h0
  rw [h0, abs_zero] at hlt
  exact absurd hlt (not_lt.mpr (inAtol_nonneg _))

/-- **C13 insphere, returned ball.** With an exactly solved system and unit normals, whatever
`insphere` returns lies inside every half-space and is tangent to every face plane. -/
theorem insphere_exact (verts : List (V3 ℝ)) (faces : List (V3 ℝ × V3 ℝ)) (x : V3 ℝ) (r : ℝ)
    (resids : List ℝ) (hunit : ∀ f ∈ faces, V3.norm f.1 = 1)
    (hzero : sumSq (inSystemSphere faces) x r = 0)
    {B : Ball ℝ} (h : insphere verts x r resids = .ok B) :
    IsTangentInside (faceEqs faces) B.center B.radius ∧ BallInside (faceEqs faces) B.center B.radius ∧
      ∀ e ∈ faceEqs faces, TouchesPlane e B.center B.radius := by
  obtain ⟨h1, h2, h3⟩ := inBall_ok h
  rw [h1, h2]
  have ht := in_of_zero_resid faces x r hzero
  have hu : ∀ e ∈ faceEqs faces, V3.norm e.1 = 1 := by
    intro e he
    obtain ⟨f, hf, rfl⟩ := List.mem_map.mp he
    exact hunit f hf
  exact ⟨ht, tangentInside_spec _ x r (le_of_lt h3) hu ht⟩

theorem incircle_refusal_sound (verts : List (V3 ℝ)) (normal : V3 ℝ) (sa : ℝ) (x : V3 ℝ) (r : ℝ)
    (resids : List ℝ) (hmin : IsLstsqMin (inSystemCircle verts normal sa) x r)
    (hres : ∀ ρ ∈ resids, ρ = sumSq (inSystemCircle verts normal sa) x r)
    (h : incircle verts x r resids = .error "RuntimeError") :
    ¬ ∃ c ρ, IsTangentInside (faceEqs (edgeFaces verts normal sa)) c ρ ∧
        InPlane normal (firstVertex verts) c := by
  obtain ⟨_, ρ, hρ, hlt⟩ := inBall_runtimeError h
  have hρ' := hres ρ (by rw [hρ]; exact List.mem_singleton_self ρ)
  rintro ⟨c, ρ', hc, hp⟩
  have h0 := incircle_exists_imp_consistent verts normal sa c ρ' hc hp
  have hm := hmin c ρ'
  rw [h0] at hm
  have hz : sumSq (inSystemCircle verts normal sa) x r = 0 := le_antisymm hm (sumSq_nonneg _ _ _)
  rw [← hρ'] at hz
  rw [hz, abs_zero] at hlt
  exact absurd hlt (not_lt.mpr (inAtol_nonneg _))

theorem incircle_exact (verts : List (V3 ℝ)) (normal : V3 ℝ) (sa : ℝ) (x : V3 ℝ) (r : ℝ)
    (resids : List ℝ) (hunit : ∀ f ∈ edgeFaces verts normal sa, V3.norm f.1 = 1)
    (hzero : sumSq (inSystemCircle verts normal sa) x r = 0)
    {B : Ball ℝ} (h : incircle verts x r resids = .ok B) :
    IsTangentInside (faceEqs (edgeFaces verts normal sa)) B.center B.radius ∧
      BallInside (faceEqs (edgeFaces verts normal sa)) B.center B.radius ∧
      InPlane normal (firstVertex verts) B.center := by
  obtain ⟨h1, h2, h3⟩ := inBall_ok h
  rw [h1, h2]
  obtain ⟨ht, hp⟩ := incircle_of_zero_resid verts normal sa x r hzero
  have hu : ∀ e ∈ faceEqs (edgeFaces verts normal sa), V3.norm e.1 = 1 := by
    intro e he
    obtain ⟨f, hf, rfl⟩ := List.mem_map.mp he
    exact hunit f hf
  exact ⟨ht, (tangentInside_spec _ x r (le_of_lt h3) hu ht).1, hp⟩

/-- the cube `[-1,1]³` (faces as (normal, vertex)): `(c, r) = (0, 1)` solves the in-system exactly -/
example : sumSq (inSystemSphere [((⟨1,0,0⟩ : V3 ℝ), (⟨1,1,1⟩ : V3 ℝ)), (⟨-1,0,0⟩, ⟨-1,1,1⟩),
    (⟨0,1,0⟩, ⟨1,1,1⟩), (⟨0,-1,0⟩, ⟨1,-1,1⟩), (⟨0,0,1⟩, ⟨1,1,1⟩), (⟨0,0,-1⟩, ⟨1,1,-1⟩)]) ⟨0,0,0⟩ 1 = 0 := by
  rw [sumSq_eq_zero_iff]
  intro row hrow
  simp only [inSystemSphere, List.map_cons, List.map_nil, List.mem_cons, List.not_mem_nil, or_false] at hrow
  rcases hrow with rfl | rfl | rfl | rfl | rfl | rfl <;>
    (simp only [Row.resid, V3.dot_eq, Scalar.lit_real]; norm_num)

/-! ## 7. minimal bounding ball: the optimality certificate of a miniball result -/

/-- what the per-run contract check establishes about a miniball result `(c, r)` for the points
`pts` (cf. `BallSpec.certificate`): it contains all points, and `c` is a convex combination
(weights `s.1 ≥ 0`, sum 1) of points `s.2 ∈ pts` lying exactly on the sphere. -/
structure IsCertificate (pts : List (V3 ℝ)) (c : V3 ℝ) (r : ℝ) (sup : List (ℝ × V3 ℝ)) : Prop where
  bounding : IsBounding c r pts
  mem : ∀ s ∈ sup, s.2 ∈ pts
  onSphere : ∀ s ∈ sup, dist s.2 c = r
  nonneg : ∀ s ∈ sup, 0 ≤ s.1
  sum_one : (sup.map fun s => s.1).sum = 1
  comb : V3.sum (sup.map fun s => V3.smul s.1 s.2) = c

/-- `Σ λᵢ‖pᵢ − c'‖² = Σ λᵢ‖pᵢ − c‖² + 2 (Σλᵢpᵢ − (Σλᵢ) c)·(c − c') + (Σλᵢ)‖c − c'‖²` -/
theorem weighted_shift (sup : List (ℝ × V3 ℝ)) (c c' : V3 ℝ) :
    (sup.map fun s => s.1 * V3.normSq (s.2 - c')).sum =
      (sup.map fun s => s.1 * V3.normSq (s.2 - c)).sum
      + 2 * (((sup.map fun s => s.1 * s.2.x).sum - (sup.map fun s => s.1).sum * c.x) * (c.x - c'.x)
           + ((sup.map fun s => s.1 * s.2.y).sum - (sup.map fun s => s.1).sum * c.y) * (c.y - c'.y)
           + ((sup.map fun s => s.1 * s.2.z).sum - (sup.map fun s => s.1).sum * c.z) * (c.z - c'.z))
      + (sup.map fun s => s.1).sum * V3.normSq (c - c') := by
  induction sup with
  | nil => simp
  | cons s sup ih =>
    simp only [List.map_cons, List.sum_cons, ih]
    simp only [V3.normSq_eq, V3.sub_x, V3.sub_y, V3.sub_z]
    ring

theorem weighted_le (sup : List (ℝ × V3 ℝ)) (f : V3 ℝ → ℝ) (M : ℝ)
    (h : ∀ s ∈ sup, 0 ≤ s.1 ∧ f s.2 ≤ M) :
    (sup.map fun s => s.1 * f s.2).sum ≤ (sup.map fun s => s.1).sum * M := by
  induction sup with
  | nil => simp
  | cons s sup ih =>
    simp only [List.map_cons, List.sum_cons]
    have h1 := h s List.mem_cons_self
    have h2 := ih fun t ht => h t (List.mem_cons_of_mem _ ht)
    nlinarith [mul_le_mul_of_nonneg_left h1.2 h1.1]

theorem weighted_const (sup : List (ℝ × V3 ℝ)) (f : V3 ℝ → ℝ) (M : ℝ) (h : ∀ s ∈ sup, f s.2 = M) :
    (sup.map fun s => s.1 * f s.2).sum = (sup.map fun s => s.1).sum * M := by
  induction sup with
  | nil => simp
  | cons s sup ih =>
    simp only [List.map_cons, List.sum_cons]
    rw [ih fun t ht => h t (List.mem_cons_of_mem _ ht), h s List.mem_cons_self]; ring

/-- **C13 minimality certificate.** A ball that contains all the points and whose centre is a convex
combination of points at distance exactly `r` is THE minimal enclosing ball: every ball containing
the points has radius `≥ r` (`Σλᵢ‖pᵢ−c'‖² = r² + ‖c−c'‖² ≥ r²`). -/
theorem miniball_optimal (pts : List (V3 ℝ)) (c : V3 ℝ) (r : ℝ) (sup : List (ℝ × V3 ℝ))
    (h : IsCertificate pts c r sup) : IsMinimalBounding c r pts := by
  refine ⟨h.bounding, ?_⟩
  intro c' r' hb
  -- the support is not empty
  have hne : sup ≠ [] := by
    intro h0; have := h.sum_one; rw [h0] at this; simp at this
  obtain ⟨s0, hs0⟩ := List.exists_mem_of_ne_nil sup hne
  have hr : 0 ≤ r := by rw [← h.onSphere s0 hs0]; exact V3.norm_nonneg _
  have hr' : 0 ≤ r' := le_trans (V3.norm_nonneg _) (hb s0.2 (h.mem s0 hs0))
  -- components of the convex combination
  have hx : (sup.map fun s => s.1 * s.2.x).sum = c.x := by
    have := congrArg V3.x h.comb
    rw [V3.sum_x, List.map_map] at this
    simpa [Function.comp_def] using this
  have hy : (sup.map fun s => s.1 * s.2.y).sum = c.y := by
    have := congrArg V3.y h.comb
    rw [V3.sum_y, List.map_map] at this
    simpa [Function.comp_def] using this
  have hz : (sup.map fun s => s.1 * s.2.z).sum = c.z := by
    have := congrArg V3.z h.comb
    rw [V3.sum_z, List.map_map] at this
    simpa [Function.comp_def] using this
  have hshift := weighted_shift sup c c'
  rw [hx, hy, hz, h.sum_one] at hshift
  have hconst := weighted_const sup (fun p => V3.normSq (p - c)) (r * r) (by
    intro s hs
    have := h.onSphere s hs
    unfold BallSpec.dist at this
    rw [← V3.norm_mul_self, this])
  rw [h.sum_one] at hconst
  have hle := weighted_le sup (fun p => V3.normSq (p - c')) (r' * r') (by
    intro s hs
    refine ⟨h.nonneg s hs, ?_⟩
    have := hb s.2 (h.mem s hs)
    unfold InBall BallSpec.dist at this
    exact (V3.norm_le_iff _ hr').mp this)
  rw [h.sum_one] at hle
  have hnn := V3.normSq_nonneg (c - c')
  have hsq : r * r ≤ r' * r' := by nlinarith
  by_contra hlt
  push Not at hlt
  nlinarith

/-- two antipodal points: the certificate `½·p + ½·q` of the ball on the segment as diameter -/
example : IsCertificate [(⟨1,0,0⟩ : V3 ℝ), ⟨-1,0,0⟩, ⟨0,1/2,0⟩] ⟨0,0,0⟩ 1
    [(1/2, ⟨1,0,0⟩), (1/2, ⟨-1,0,0⟩)] := by
  have n1 : ∀ a b c : ℝ, a * a + b * b + c * c = 1 → V3.norm (⟨a, b, c⟩ - (⟨0,0,0⟩ : V3 ℝ)) = 1 := by
    intro a b c h
    rw [V3.norm_eq, V3.normSq_eq]; simp only [V3.sub_x, V3.sub_y, V3.sub_z, sub_zero]
    rw [h, Real.sqrt_one]
  refine ⟨?_, ?_, ?_, ?_, ?_, ?_⟩
  · intro p hp
    simp only [List.mem_cons, List.not_mem_nil, or_false] at hp
    unfold InBall BallSpec.dist
    rcases hp with rfl | rfl | rfl
    · rw [n1 _ _ _ (by norm_num)]
    · rw [n1 _ _ _ (by norm_num)]
    · rw [V3.norm_le_iff _ (by norm_num)]; simp only [V3.normSq_eq, V3.sub_x, V3.sub_y, V3.sub_z]; norm_num
  · intro s hs
    simp only [List.mem_cons, List.not_mem_nil, or_false] at hs
    rcases hs with rfl | rfl <;> simp
  · intro s hs
    simp only [List.mem_cons, List.not_mem_nil, or_false] at hs
    unfold BallSpec.dist
    rcases hs with rfl | rfl <;> exact n1 _ _ _ (by norm_num)
  · intro s hs
    simp only [List.mem_cons, List.not_mem_nil, or_false] at hs
    rcases hs with rfl | rfl <;> norm_num
  · simp only [List.map_cons, List.map_nil, List.sum_cons, List.sum_nil]; norm_num
  · ext <;> simp [V3.sum, V3.add, V3.smul, V3.zero, Scalar.lit]

/-! ## 8. the retry loop around miniball, and rotating the centre back -/

/-- the vertex list the `k`-th attempt (`k = 1, 2, …`) hands to miniball: the original vertices,
then the ORIGINAL vertices under the rotation drawn after attempt `k − 1` -/
def seenAt (rand : Nat → Quat ℝ) (V : List (V3 ℝ)) (k : Nat) : List (V3 ℝ) :=
  if k = 1 then V else V.map (Quat.rotate (rand (k - 1)))

/-- `current_rotation` during the `k`-th attempt -/
def rotAt (rand : Nat → Quat ℝ) (k : Nat) : Quat ℝ := if k = 1 then Quat.one else rand (k - 1)

theorem seenAt_eq_map (rand : Nat → Quat ℝ) (V : List (V3 ℝ)) (k : Nat) :
    seenAt rand V k = V.map (Quat.rotate (rotAt rand k)) := by
  unfold seenAt rotAt
  split
  · have : (Quat.rotate (Quat.one : Quat ℝ)) = id := by funext v; exact rotate_one v
    rw [this, List.map_id]
  · rfl

/-- **C13 retry loop, success.** If the loop returns, it returns the result of the FIRST attempt on
which miniball did not fail, together with the rotation in force during that attempt. -/
theorem mbLoop_ok (mb : Nat → List (V3 ℝ) → Option (V3 ℝ × ℝ)) (rand : Nat → Quat ℝ) (V : List (V3 ℝ))
    (fuel attempt : Nat) (c : V3 ℝ) (r2 : ℝ) (q : Quat ℝ)
    (h : mbLoop mb rand V fuel attempt (rotAt rand (attempt + 1)) (seenAt rand V (attempt + 1))
      = .ok (c, r2, q)) :
    ∃ k, attempt < k ∧ k ≤ attempt + fuel ∧ mb k (seenAt rand V k) = some (c, r2) ∧ q = rotAt rand k ∧
      ∀ j, attempt < j → j < k → mb j (seenAt rand V j) = none := by
  induction fuel generalizing attempt with
  | zero => simp [mbLoop] at h
  | succ fuel ih =>
    unfold mbLoop at h
    simp only at h
    split at h
    · next c' r2' hs =>
      injection h with h
      injection h with h1 h23
      injection h23 with h2 h3
      subst h1 h2 h3
      exact ⟨attempt + 1, by omega, by omega, hs, rfl, fun j h1 h2 => by omega⟩
    · next hn =>
      have e1 : rand (attempt + 1) = rotAt rand (attempt + 1 + 1) := by simp [rotAt]
      have e2 : V.map (Quat.rotate (rotAt rand (attempt + 1 + 1))) = seenAt rand V (attempt + 1 + 1) := by
        simp [seenAt, rotAt]
      rw [e1, e2] at h
      obtain ⟨k, hk1, hk2, hk3, hk4, hk5⟩ := ih (attempt + 1) h
      refine ⟨k, by omega, by omega, hk3, hk4, ?_⟩
      intro j hj1 hj2
      by_cases hj : j = attempt + 1
      · rw [hj]; exact hn
      · exact hk5 j (by omega) hj2

/-- **C13 retry loop, failure.** The loop raises — always `RuntimeError` — if and only if miniball
failed on ALL the remaining attempts (in particular a success on the last allowed attempt is
returned, not discarded). -/
theorem mbLoop_error_iff (mb : Nat → List (V3 ℝ) → Option (V3 ℝ × ℝ)) (rand : Nat → Quat ℝ)
    (V : List (V3 ℝ)) (fuel attempt : Nat) (e : String) :
    mbLoop mb rand V fuel attempt (rotAt rand (attempt + 1)) (seenAt rand V (attempt + 1)) = .error e ↔
      e = "RuntimeError" ∧ ∀ k, attempt < k → k ≤ attempt + fuel → mb k (seenAt rand V k) = none := by
  induction fuel generalizing attempt with
  | zero =>
    simp only [mbLoop, Except.error.injEq, Nat.add_zero]
    constructor
    · intro h; exact ⟨h.symm, fun k h1 h2 => by omega⟩
    · intro h; exact h.1.symm
  | succ fuel ih =>
    unfold mbLoop
    simp only
    have e1 : rand (attempt + 1) = rotAt rand (attempt + 1 + 1) := by simp [rotAt]
    have e2 : V.map (Quat.rotate (rotAt rand (attempt + 1 + 1))) = seenAt rand V (attempt + 1 + 1) := by
      simp [seenAt, rotAt]
    split
    · next c' r2' hs =>
      constructor
      · intro h; cases h
      · intro h
        have := h.2 (attempt + 1) (by omega) (by omega)
        rw [hs] at this; cases this
    · next hn =>
      rw [e1, e2, ih (attempt + 1)]
      constructor
      · rintro ⟨he, hall⟩
        refine ⟨he, fun k h1 h2 => ?_⟩
        by_cases hk : k = attempt + 1
        · rw [hk]; exact hn
        · exact hall k (by omega) (by omega)
      · rintro ⟨he, hall⟩
        exact ⟨he, fun k h1 h2 => hall k (by omega) (by omega)⟩

/-- rotating back: if `(c, r)` is the minimal bounding ball of the rotated points, then
`(rotate(conj q, c), r)` is the minimal bounding ball of the original points (unit `q`). -/
theorem minimalBounding_rotate_back {q : Quat ℝ} (hq : Quat.normSq q = 1) (V : List (V3 ℝ))
    (c : V3 ℝ) (r : ℝ) (h : IsMinimalBounding c r (V.map (Quat.rotate q))) :
    IsMinimalBounding (Quat.rotate (Quat.conj q) c) r V := by
  constructor
  · intro v hv
    have := h.1 (Quat.rotate q v) (List.mem_map.mpr ⟨v, hv, rfl⟩)
    unfold InBall BallSpec.dist at this ⊢
    rw [← norm_rotate_sub hq, rotate_rotate_conj_unit hq]
    exact this
  · intro c' r' hb
    apply h.2 (Quat.rotate q c') r'
    intro p hp
    obtain ⟨v, hv, rfl⟩ := List.mem_map.mp hp
    have := hb v hv
    unfold InBall BallSpec.dist at this ⊢
    rw [norm_rotate_sub hq]
    exact this

theorem rotAt_unit (rand : Nat → Quat ℝ) (hrand : ∀ k, Quat.normSq (rand k) = 1) (k : Nat) :
    Quat.normSq (rotAt rand k) = 1 := by
  unfold rotAt; split
  · exact normSq_one
  · exact hrand _

/-- **C13 minimal bounding ball.** Contracts: every random rotation is a unit quaternion, and whenever
miniball returns `(c, r²)` for a point list, `(c, √r²)` is the minimal enclosing ball of THAT list
(checked per run through `miniball_optimal`). Then whatever `minimal_bounding_sphere/circle`
returns contains every vertex of the shape and is the smallest such ball — no matter how many
attempts failed before. -/
theorem minimal_bounding_spec (mb : Nat → List (V3 ℝ) → Option (V3 ℝ × ℝ)) (rand : Nat → Quat ℝ)
    (V : List (V3 ℝ)) (hrand : ∀ k, Quat.normSq (rand k) = 1)
    (hmb : ∀ k P c r2, mb k P = some (c, r2) → IsMinimalBounding c (Real.sqrt r2) P)
    {B : Ball ℝ} (h : minimalBounding mb rand V = .ok B) :
    IsMinimalBounding B.center B.radius V := by
  unfold minimalBounding at h
  simp only [bind, Except.bind] at h
  split at h
  · cases h
  · next res hres =>
    obtain ⟨c, r2, q⟩ := res
    simp only at h
    obtain ⟨h1, h2, _⟩ := mkBall_ok h
    have h0 : mbLoop mb rand V maxAttempts 0 (rotAt rand (0 + 1)) (seenAt rand V (0 + 1)) = .ok (c, r2, q) := by
      simpa [rotAt, seenAt] using hres
    obtain ⟨k, _, _, hk, hq, _⟩ := mbLoop_ok mb rand V maxAttempts 0 c r2 q h0
    have hmin := hmb k _ c r2 hk
    rw [seenAt_eq_map, ← hq] at hmin
    have hunit : Quat.normSq q = 1 := by rw [hq]; exact rotAt_unit rand hrand k
    rw [h1, h2]
    exact minimalBounding_rotate_back hunit V c _ hmin

/-- it raises `RuntimeError` exactly when all `max_attempts = 10` attempts failed -/
theorem minimal_bounding_raises_iff (mb : Nat → List (V3 ℝ) → Option (V3 ℝ × ℝ)) (rand : Nat → Quat ℝ)
    (V : List (V3 ℝ)) :
    minimalBounding mb rand V = .error "RuntimeError" ↔
      ∀ k, 1 ≤ k → k ≤ 10 → mb k (seenAt rand V k) = none := by
  have key := mbLoop_error_iff mb rand V maxAttempts 0 "RuntimeError"
  have e0 : mbLoop mb rand V maxAttempts 0 (rotAt rand (0 + 1)) (seenAt rand V (0 + 1)) =
      mbLoop mb rand V maxAttempts 0 Quat.one V := by simp [rotAt, seenAt]
  rw [e0] at key
  unfold minimalBounding
  simp only [bind, Except.bind]
  constructor
  · intro h
    split at h
    · next e he =>
      injection h with h; subst h
      have := (key.mp he).2
      intro k h1 h2
      exact this k (by omega) (by simpa [maxAttempts] using h2)
    · next res hres =>
      obtain ⟨c, r2, q⟩ := res
      simp only at h
      exact absurd (mkBall_error h).1 (by decide)
  · intro h
    have := key.mpr ⟨rfl, fun k h1 h2 => h k (by omega) (by simpa [maxAttempts] using h2)⟩
    rw [this]

/-- a run in which the first NINE attempts fail and the tenth succeeds returns a ball (the
regression of a5ff83d: the old code raised here) -/
example : ∃ B, minimalBounding (fun k _ => if k < 10 then none else some ((⟨0,0,0⟩ : V3 ℝ), (1 : ℝ)))
    (fun _ => Quat.one) [(⟨1,0,0⟩ : V3 ℝ), ⟨-1,0,0⟩] = .ok B := by
  refine ⟨⟨1, Quat.rotate (Quat.conj Quat.one) ⟨0,0,0⟩⟩, ?_⟩
  simp [minimalBounding, mbLoop, maxAttempts, bind, Except.bind, mkBall, Scalar.lit]

/-! ## 9. curved shapes: the balls are those with the largest / smallest semi-axis -/

/-- `Circle` / `Sphere`: all the ball getters return the shape itself -/
theorem round_ball_spec (r : ℝ) (cen : V3 ℝ) {B : Ball ℝ} (h : roundBall r cen = .ok B) :
    B.radius = r ∧ B.center = cen := ⟨(mkBall_ok h).1, (mkBall_ok h).2.1⟩

theorem ellipse_bounding_spec (a b : ℝ) (cen : V3 ℝ) {B : Ball ℝ} (h : ellipseBounding a b cen = .ok B) :
    B.radius = max a b ∧ B.center = cen := by
  obtain ⟨h1, h2, _⟩ := mkBall_ok h; exact ⟨by rw [h1, Scalar.max_real], h2⟩

theorem ellipse_bounded_spec (a b : ℝ) (cen : V3 ℝ) {B : Ball ℝ} (h : ellipseBounded a b cen = .ok B) :
    B.radius = min a b ∧ B.center = cen := by
  obtain ⟨h1, h2, _⟩ := mkBall_ok h; exact ⟨by rw [h1, Scalar.min_real], h2⟩

theorem ellipsoid_bounding_spec (a b c : ℝ) (cen : V3 ℝ) {B : Ball ℝ}
    (h : ellipsoidBounding a b c cen = .ok B) : B.radius = max (max a b) c ∧ B.center = cen := by
  obtain ⟨h1, h2, _⟩ := mkBall_ok h; exact ⟨by rw [h1, Scalar.max_real, Scalar.max_real], h2⟩

theorem ellipsoid_bounded_spec (a b c : ℝ) (cen : V3 ℝ) {B : Ball ℝ}
    (h : ellipsoidBounded a b c cen = .ok B) : B.radius = min (min a b) c ∧ B.center = cen := by
  obtain ⟨h1, h2, _⟩ := mkBall_ok h; exact ⟨by rw [h1, Scalar.min_real, Scalar.min_real], h2⟩

theorem sq_le_scale {a M d : ℝ} (ha : 0 < a) (hM : a ≤ M) : d * d ≤ M * M * ((d / a) * (d / a)) := by
  have h1 : d = a * (d / a) := by field_simp
  have h2 : a * a ≤ M * M := mul_self_le_mul_self (le_of_lt ha) hM
  have h3 : 0 ≤ (d / a) * (d / a) := mul_self_nonneg _
  calc d * d = a * a * ((d / a) * (d / a)) := by rw [← mul_mul_mul_comm, ← h1]
    _ ≤ M * M * ((d / a) * (d / a)) := mul_le_mul_of_nonneg_right h2 h3

theorem sq_div_le {a m d : ℝ} (hm : 0 < m) (hma : m ≤ a) : (d / a) * (d / a) ≤ (d * d) / (m * m) := by
  have ha : 0 < a := lt_of_lt_of_le hm hma
  rw [div_mul_div_comm]
  apply div_le_div_of_nonneg_left (mul_self_nonneg d) (mul_pos hm hm)
  exact mul_self_le_mul_self (le_of_lt hm) hma

/-- a ball containing two points `cen ± d` has radius at least `‖d‖` (parallelogram law) -/
theorem antipodal_radius (cen d c' : V3 ℝ) (r' : ℝ) (h1 : InBall c' r' (cen + d))
    (h2 : InBall c' r' (cen - d)) : V3.norm d ≤ r' := by
  unfold InBall BallSpec.dist at h1 h2
  have hr' : 0 ≤ r' := le_trans (V3.norm_nonneg _) h1
  rw [V3.norm_le_iff _ hr'] at h1 h2 ⊢
  have hp : V3.normSq (cen + d - c') + V3.normSq (cen - d - c') =
      2 * V3.normSq (cen - c') + 2 * V3.normSq d := by
    simp only [V3.normSq_eq, V3.sub_x, V3.sub_y, V3.sub_z, V3.add_x, V3.add_y, V3.add_z]; ring
  have := V3.normSq_nonneg (cen - c')
  linarith

/-- **C13 ellipsoid, bounding sphere.** The sphere about the centre with the LARGEST semi-axis as
radius contains the ellipsoid … -/
theorem ellipsoid_bounding_contains (a b c : ℝ) (ha : 0 < a) (hb : 0 < b) (hc : 0 < c) (cen p : V3 ℝ)
    (h : InEllipsoid a b c cen p) : InBall cen (max (max a b) c) p := by
  have hMa : a ≤ max (max a b) c := le_trans (le_max_left a b) (le_max_left _ c)
  have hMb : b ≤ max (max a b) c := le_trans (le_max_right a b) (le_max_left _ c)
  have hMc : c ≤ max (max a b) c := le_max_right _ c
  have hM : 0 ≤ max (max a b) c := le_trans (le_of_lt ha) hMa
  unfold InBall BallSpec.dist
  rw [V3.norm_le_iff _ hM, V3.normSq_eq]
  simp only [V3.sub_x, V3.sub_y, V3.sub_z]
  unfold InEllipsoid at h
  simp only [Scalar.sqr_real, Scalar.lit_real, Nat.cast_one] at h
  have h1 := sq_le_scale (d := p.x - cen.x) ha hMa
  have h2 := sq_le_scale (d := p.y - cen.y) hb hMb
  have h3 := sq_le_scale (d := p.z - cen.z) hc hMc
  have hMM : 0 ≤ max (max a b) c * max (max a b) c := mul_self_nonneg _
  nlinarith [mul_le_mul_of_nonneg_left h hMM]

theorem inEllipsoid_axis_x (a b c : ℝ) (ha : 0 < a) (cen : V3 ℝ) (s : ℝ) (hs : s * s = a * a) :
    InEllipsoid a b c cen ⟨cen.x + s, cen.y, cen.z⟩ := by
  unfold InEllipsoid
  simp only [Scalar.sqr_real, Scalar.lit_real, Nat.cast_one, add_sub_cancel_left, sub_self, zero_div,
    mul_zero, add_zero]
  rw [div_mul_div_comm, hs, div_self (ne_of_gt (mul_pos ha ha))]

theorem inEllipsoid_axis_y (a b c : ℝ) (hb : 0 < b) (cen : V3 ℝ) (s : ℝ) (hs : s * s = b * b) :
    InEllipsoid a b c cen ⟨cen.x, cen.y + s, cen.z⟩ := by
  unfold InEllipsoid
  simp only [Scalar.sqr_real, Scalar.lit_real, Nat.cast_one, add_sub_cancel_left, sub_self, zero_div,
    mul_zero, add_zero, zero_add]
  rw [div_mul_div_comm, hs, div_self (ne_of_gt (mul_pos hb hb))]

theorem inEllipsoid_axis_z (a b c : ℝ) (hc : 0 < c) (cen : V3 ℝ) (s : ℝ) (hs : s * s = c * c) :
    InEllipsoid a b c cen ⟨cen.x, cen.y, cen.z + s⟩ := by
  unfold InEllipsoid
  simp only [Scalar.sqr_real, Scalar.lit_real, Nat.cast_one, add_sub_cancel_left, sub_self, zero_div,
    mul_zero, add_zero, zero_add]
  rw [div_mul_div_comm, hs, div_self (ne_of_gt (mul_pos hc hc))]

theorem norm_axis (x y z s : ℝ) (hs : 0 ≤ s) (h : x * x + y * y + z * z = s * s) :
    V3.norm (⟨x, y, z⟩ : V3 ℝ) = s := by
  rw [V3.norm_eq_iff _ hs, V3.normSq_eq]; exact h

/-- … and NO smaller sphere (with any centre) does: it is the minimal bounding sphere. -/
theorem ellipsoid_bounding_minimal (a b c : ℝ) (ha : 0 < a) (hb : 0 < b) (hc : 0 < c) (cen c' : V3 ℝ)
    (r' : ℝ) (hcont : ∀ p, InEllipsoid a b c cen p → InBall c' r' p) : max (max a b) c ≤ r' := by
  have hxa : a ≤ r' := by
    have h1 := hcont _ (inEllipsoid_axis_x a b c ha cen a rfl)
    have h2 := hcont _ (inEllipsoid_axis_x a b c ha cen (-a) (by ring))
    have := antipodal_radius cen ⟨a, 0, 0⟩ c' r' (by convert h1 using 1; ext <;> simp)
      (by convert h2 using 1; ext <;> simp <;> ring)
    rwa [norm_axis a 0 0 a (le_of_lt ha) (by ring)] at this
  have hxb : b ≤ r' := by
    have h1 := hcont _ (inEllipsoid_axis_y a b c hb cen b rfl)
    have h2 := hcont _ (inEllipsoid_axis_y a b c hb cen (-b) (by ring))
    have := antipodal_radius cen ⟨0, b, 0⟩ c' r' (by convert h1 using 1; ext <;> simp)
      (by convert h2 using 1; ext <;> simp <;> ring)
    rwa [norm_axis 0 b 0 b (le_of_lt hb) (by ring)] at this
  have hxc : c ≤ r' := by
    have h1 := hcont _ (inEllipsoid_axis_z a b c hc cen c rfl)
    have h2 := hcont _ (inEllipsoid_axis_z a b c hc cen (-c) (by ring))
    have := antipodal_radius cen ⟨0, 0, c⟩ c' r' (by convert h1 using 1; ext <;> simp)
      (by convert h2 using 1; ext <;> simp <;> ring)
    rwa [norm_axis 0 0 c c (le_of_lt hc) (by ring)] at this
  exact max_le (max_le hxa hxb) hxc

/-- **C13 ellipsoid, bounded sphere.** The sphere about the centre with the SMALLEST semi-axis as radius
lies inside the ellipsoid … -/
theorem ellipsoid_bounded_inside (a b c : ℝ) (ha : 0 < a) (hb : 0 < b) (hc : 0 < c) (cen p : V3 ℝ)
    (h : InBall cen (min (min a b) c) p) : InEllipsoid a b c cen p := by
  have hma : min (min a b) c ≤ a := le_trans (min_le_left _ c) (min_le_left a b)
  have hmb : min (min a b) c ≤ b := le_trans (min_le_left _ c) (min_le_right a b)
  have hmc : min (min a b) c ≤ c := min_le_right _ c
  have hm : 0 < min (min a b) c := lt_min (lt_min ha hb) hc
  unfold InBall BallSpec.dist at h
  rw [V3.norm_le_iff _ (le_of_lt hm), V3.normSq_eq] at h
  simp only [V3.sub_x, V3.sub_y, V3.sub_z] at h
  unfold InEllipsoid
  simp only [Scalar.sqr_real, Scalar.lit_real, Nat.cast_one]
  have h1 := sq_div_le (d := p.x - cen.x) hm hma
  have h2 := sq_div_le (d := p.y - cen.y) hm hmb
  have h3 := sq_div_le (d := p.z - cen.z) hm hmc
  have hmm : 0 < min (min a b) c * min (min a b) c := mul_pos hm hm
  have h4 : ((p.x - cen.x) * (p.x - cen.x) + (p.y - cen.y) * (p.y - cen.y) + (p.z - cen.z) * (p.z - cen.z))
      / (min (min a b) c * min (min a b) c) ≤ 1 := (div_le_one hmm).mpr h
  rw [add_div, add_div] at h4
  linarith

/-- … and no larger sphere (with any centre) does: it is a maximal bounded sphere. -/
theorem ellipsoid_bounded_maximal (a b c : ℝ) (ha : 0 < a) (hb : 0 < b) (hc : 0 < c) (cen c' : V3 ℝ)
    (r' : ℝ) (hr' : 0 ≤ r') (hin : ∀ p, InBall c' r' p → InEllipsoid a b c cen p) :
    r' ≤ min (min a b) c := by
  have key : ∀ (s : ℝ) (u : ℝ), 0 < s → ((u + r') / s) * ((u + r') / s) ≤ 1 →
      ((u - r') / s) * ((u - r') / s) ≤ 1 → r' ≤ s := by
    intro s u hs h1 h2
    rw [div_mul_div_comm, div_le_one (mul_pos hs hs)] at h1 h2
    by_contra hlt
    push Not at hlt
    nlinarith [mul_self_nonneg u]
  have inb : ∀ d : V3 ℝ, V3.normSq d = r' * r' → InBall c' r' (c' + d) := by
    intro d hd
    unfold InBall BallSpec.dist
    have : c' + d - c' = d := by ext <;> simp
    rw [this, V3.norm_le_iff _ hr', hd]
  have hxa : r' ≤ a := by
    have h1 := hin _ (inb ⟨r', 0, 0⟩ (by simp [V3.normSq_eq]))
    have h2 := hin _ (inb ⟨-r', 0, 0⟩ (by simp [V3.normSq_eq]))
    unfold InEllipsoid at h1 h2
    simp only [Scalar.sqr_real, Scalar.lit_real, Nat.cast_one, V3.add_x, V3.add_y, V3.add_z, add_zero] at h1 h2
    apply key a (c'.x - cen.x) ha
    · have e : c'.x - cen.x + r' = c'.x + r' - cen.x := by ring
      rw [e]; nlinarith [mul_self_nonneg ((c'.y - cen.y) / b), mul_self_nonneg ((c'.z - cen.z) / c)]
    · have e : c'.x - cen.x - r' = c'.x + -r' - cen.x := by ring
      rw [e]; nlinarith [mul_self_nonneg ((c'.y - cen.y) / b), mul_self_nonneg ((c'.z - cen.z) / c)]
  have hxb : r' ≤ b := by
    have h1 := hin _ (inb ⟨0, r', 0⟩ (by simp [V3.normSq_eq]))
    have h2 := hin _ (inb ⟨0, -r', 0⟩ (by simp [V3.normSq_eq]))
    unfold InEllipsoid at h1 h2
    simp only [Scalar.sqr_real, Scalar.lit_real, Nat.cast_one, V3.add_x, V3.add_y, V3.add_z, add_zero] at h1 h2
    apply key b (c'.y - cen.y) hb
    · have e : c'.y - cen.y + r' = c'.y + r' - cen.y := by ring
      rw [e]; nlinarith [mul_self_nonneg ((c'.x - cen.x) / a), mul_self_nonneg ((c'.z - cen.z) / c)]
    · have e : c'.y - cen.y - r' = c'.y + -r' - cen.y := by ring
      rw [e]; nlinarith [mul_self_nonneg ((c'.x - cen.x) / a), mul_self_nonneg ((c'.z - cen.z) / c)]
  have hxc : r' ≤ c := by
    have h1 := hin _ (inb ⟨0, 0, r'⟩ (by simp [V3.normSq_eq]))
    have h2 := hin _ (inb ⟨0, 0, -r'⟩ (by simp [V3.normSq_eq]))
    unfold InEllipsoid at h1 h2
    simp only [Scalar.sqr_real, Scalar.lit_real, Nat.cast_one, V3.add_x, V3.add_y, V3.add_z, add_zero] at h1 h2
    apply key c (c'.z - cen.z) hc
    · have e : c'.z - cen.z + r' = c'.z + r' - cen.z := by ring
      rw [e]; nlinarith [mul_self_nonneg ((c'.x - cen.x) / a), mul_self_nonneg ((c'.y - cen.y) / b)]
    · have e : c'.z - cen.z - r' = c'.z + -r' - cen.z := by ring
      rw [e]; nlinarith [mul_self_nonneg ((c'.x - cen.x) / a), mul_self_nonneg ((c'.y - cen.y) / b)]
  exact le_min (le_min hxa hxb) hxc

/-! the ellipse (in its plane `z = cen.z`) -/

/-- **C13 ellipse, bounding circle**: radius `max a b` about the centre contains the ellipse … -/
theorem ellipse_bounding_contains (a b : ℝ) (ha : 0 < a) (hb : 0 < b) (cen p : V3 ℝ)
    (h : InEllipse a b cen p) : InBall cen (max a b) p := by
  have hM : 0 ≤ max a b := le_trans (le_of_lt ha) (le_max_left a b)
  obtain ⟨hz, h⟩ := h
  unfold InBall BallSpec.dist
  rw [V3.norm_le_iff _ hM, V3.normSq_eq]
  simp only [V3.sub_x, V3.sub_y, V3.sub_z, hz, sub_self, mul_zero, add_zero]
  simp only [Scalar.sqr_real, Scalar.lit_real, Nat.cast_one] at h
  have h1 := sq_le_scale (d := p.x - cen.x) ha (le_max_left a b)
  have h2 := sq_le_scale (d := p.y - cen.y) hb (le_max_right a b)
  have hMM : 0 ≤ max a b * max a b := mul_self_nonneg _
  nlinarith [mul_le_mul_of_nonneg_left h hMM]

/-- … and every ball containing the ellipse has radius `≥ max a b`. -/
theorem ellipse_bounding_minimal (a b : ℝ) (ha : 0 < a) (hb : 0 < b) (cen c' : V3 ℝ) (r' : ℝ)
    (hcont : ∀ p, InEllipse a b cen p → InBall c' r' p) : max a b ≤ r' := by
  have ex : ∀ s, s * s = a * a → InEllipse a b cen ⟨cen.x + s, cen.y, cen.z⟩ := by
    intro s hs
    refine ⟨rfl, ?_⟩
    simp only [Scalar.sqr_real, Scalar.lit_real, Nat.cast_one, add_sub_cancel_left, sub_self, zero_div,
      mul_zero, add_zero]
    rw [div_mul_div_comm, hs, div_self (ne_of_gt (mul_pos ha ha))]
  have ey : ∀ s, s * s = b * b → InEllipse a b cen ⟨cen.x, cen.y + s, cen.z⟩ := by
    intro s hs
    refine ⟨rfl, ?_⟩
    simp only [Scalar.sqr_real, Scalar.lit_real, Nat.cast_one, add_sub_cancel_left, sub_self, zero_div,
      mul_zero, zero_add]
    rw [div_mul_div_comm, hs, div_self (ne_of_gt (mul_pos hb hb))]
  have hxa : a ≤ r' := by
    have h1 := hcont _ (ex a rfl)
    have h2 := hcont _ (ex (-a) (by ring))
    have := antipodal_radius cen ⟨a, 0, 0⟩ c' r' (by convert h1 using 1; ext <;> simp)
      (by convert h2 using 1; ext <;> simp <;> ring)
    rwa [norm_axis a 0 0 a (le_of_lt ha) (by ring)] at this
  have hxb : b ≤ r' := by
    have h1 := hcont _ (ey b rfl)
    have h2 := hcont _ (ey (-b) (by ring))
    have := antipodal_radius cen ⟨0, b, 0⟩ c' r' (by convert h1 using 1; ext <;> simp)
      (by convert h2 using 1; ext <;> simp <;> ring)
    rwa [norm_axis 0 b 0 b (le_of_lt hb) (by ring)] at this
  exact max_le hxa hxb

/-- **C13 ellipse, bounded circle**: the disc of radius `min a b` about the centre (in the ellipse's
plane) lies inside the ellipse. -/
theorem ellipse_bounded_inside (a b : ℝ) (ha : 0 < a) (hb : 0 < b) (cen p : V3 ℝ)
    (hz : p.z = cen.z) (h : InBall cen (min a b) p) : InEllipse a b cen p := by
  have hm : 0 < min a b := lt_min ha hb
  refine ⟨hz, ?_⟩
  unfold InBall BallSpec.dist at h
  rw [V3.norm_le_iff _ (le_of_lt hm), V3.normSq_eq] at h
  simp only [V3.sub_x, V3.sub_y, V3.sub_z, hz, sub_self, mul_zero, add_zero] at h
  simp only [Scalar.sqr_real, Scalar.lit_real, Nat.cast_one]
  have h1 := sq_div_le (d := p.x - cen.x) hm (min_le_left a b)
  have h2 := sq_div_le (d := p.y - cen.y) hm (min_le_right a b)
  have hmm : 0 < min a b * min a b := mul_pos hm hm
  have h4 : ((p.x - cen.x) * (p.x - cen.x) + (p.y - cen.y) * (p.y - cen.y)) / (min a b * min a b) ≤ 1 :=
    (div_le_one hmm).mpr h
  rw [add_div] at h4
  linarith

/-- … and no larger disc in that plane (with any centre) does. -/
theorem ellipse_bounded_maximal (a b : ℝ) (ha : 0 < a) (hb : 0 < b) (cen c' : V3 ℝ) (r' : ℝ)
    (hr' : 0 ≤ r') (hc' : c'.z = cen.z)
    (hin : ∀ p, p.z = cen.z → InBall c' r' p → InEllipse a b cen p) : r' ≤ min a b := by
  have key : ∀ (s : ℝ) (u : ℝ), 0 < s → ((u + r') / s) * ((u + r') / s) ≤ 1 →
      ((u - r') / s) * ((u - r') / s) ≤ 1 → r' ≤ s := by
    intro s u hs h1 h2
    rw [div_mul_div_comm, div_le_one (mul_pos hs hs)] at h1 h2
    by_contra hlt
    push Not at hlt
    nlinarith [mul_self_nonneg u]
  have inb : ∀ d : V3 ℝ, V3.normSq d = r' * r' → InBall c' r' (c' + d) := by
    intro d hd
    unfold InBall BallSpec.dist
    have : c' + d - c' = d := by ext <;> simp
    rw [this, V3.norm_le_iff _ hr', hd]
  have hxa : r' ≤ a := by
    have h1 := (hin _ (by simpa using hc') (inb ⟨r', 0, 0⟩ (by simp [V3.normSq_eq]))).2
    have h2 := (hin _ (by simpa using hc') (inb ⟨-r', 0, 0⟩ (by simp [V3.normSq_eq]))).2
    simp only [Scalar.sqr_real, Scalar.lit_real, Nat.cast_one, V3.add_x, V3.add_y, add_zero] at h1 h2
    apply key a (c'.x - cen.x) ha
    · have e : c'.x - cen.x + r' = c'.x + r' - cen.x := by ring
      rw [e]; nlinarith [mul_self_nonneg ((c'.y - cen.y) / b)]
    · have e : c'.x - cen.x - r' = c'.x + -r' - cen.x := by ring
      rw [e]; nlinarith [mul_self_nonneg ((c'.y - cen.y) / b)]
  have hxb : r' ≤ b := by
    have h1 := (hin _ (by simpa using hc') (inb ⟨0, r', 0⟩ (by simp [V3.normSq_eq]))).2
    have h2 := (hin _ (by simpa using hc') (inb ⟨0, -r', 0⟩ (by simp [V3.normSq_eq]))).2
    simp only [Scalar.sqr_real, Scalar.lit_real, Nat.cast_one, V3.add_x, V3.add_y, add_zero] at h1 h2
    apply key b (c'.y - cen.y) hb
    · have e : c'.y - cen.y + r' = c'.y + r' - cen.y := by ring
      rw [e]; nlinarith [mul_self_nonneg ((c'.x - cen.x) / a)]
    · have e : c'.y - cen.y - r' = c'.y + -r' - cen.y := by ring
      rw [e]; nlinarith [mul_self_nonneg ((c'.x - cen.x) / a)]
  exact le_min hxa hxb

/-- a sphere is the ellipsoid with three equal semi-axes (so `Sphere`'s getters are covered by the
ellipsoid theorems: `max = min = radius`) and a circle the ellipse with two equal ones -/
example (r : ℝ) : max (max r r) r = r ∧ min (min r r) r = r := by simp

end
