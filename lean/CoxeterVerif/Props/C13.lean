import CoxeterVerif.Lemmas.Balls
/-!
  # C13 — bounding, bounded, circum- and in-balls satisfy their definitions

  Model: `Model/Balls.lean` (namespace `Balls`), specification: `Spec/Balls.lean` (`BallSpec`).
  All statements are over ℝ, for vertex / face lists of ANY length.
  External results (lstsq solution and residual, miniball result, random rotations) are arguments;
  what the theorems need from them is an explicit hypothesis (checked per run by the harness).
-/
open Balls BallSpec

noncomputable section

/-! ## 1. minimal centred bounding ball -/

/-- **C13 centred bounding.** Whatever `minimal_centered_bounding_sphere/circle` returns is centred at
the given centre, contains every vertex, and no ball with that centre containing all vertices is
smaller (its radius IS the largest centre–vertex distance). -/
theorem min_centered_bounding_spec (verts : List (V3 ℝ)) (c : V3 ℝ) (hne : verts ≠ [])
    {B : Ball ℝ} (h : minimalCenteredBounding verts c = .ok B) :
    B.center = c ∧ IsMinCenteredBounding B.center B.radius verts ∧
      ∃ v ∈ verts, B.radius = dist v c := by
  obtain ⟨hr, hc, _⟩ := mkBall_ok h
  have hne' : verts.map (fun v => V3.norm (v - c)) ≠ [] := by simpa using hne
  have hmem := listMax_mem _ hne'
  obtain ⟨v, hv, hvd⟩ := List.mem_map.mp hmem
  refine ⟨hc, ⟨?_, ?_⟩, v, hv, ?_⟩
  · intro p hp
    rw [hr, hc]
    exact listMax_ge _ _ (List.mem_map.mpr ⟨p, hp, rfl⟩)
  · intro r' hb
    rw [hc] at hb
    have := hb v hv
    rw [hr, ← hvd]; exact this
  · rw [hr, ← hvd]; rfl

/-- it does return a ball as soon as one vertex differs from the centre -/
theorem min_centered_bounding_returns (verts : List (V3 ℝ)) (c : V3 ℝ)
    (h : ∃ v ∈ verts, 0 < dist v c) : ∃ B, minimalCenteredBounding verts c = .ok B := by
  obtain ⟨v, hv, hpos⟩ := h
  have : 0 < listMax (verts.map fun v => V3.norm (v - c)) :=
    lt_of_lt_of_le hpos (listMax_ge _ _ (List.mem_map.mpr ⟨v, hv, rfl⟩))
  exact ⟨_, mkBall_of_pos c this⟩

example : ∃ B, minimalCenteredBounding
      [(⟨0,0,0⟩ : V3 ℝ), ⟨2,0,0⟩, ⟨0,2,0⟩, ⟨0,0,2⟩] ⟨1/2,1/2,1/2⟩ = .ok B := by
  apply min_centered_bounding_returns
  refine ⟨⟨2,0,0⟩, by simp, ?_⟩
  unfold BallSpec.dist
  rw [V3.norm_eq]
  apply Real.sqrt_pos.mpr
  simp only [V3.normSq_eq, V3.sub_x, V3.sub_y, V3.sub_z]; norm_num

/-! ## 2. maximal centred bounded ball (convex polyhedron: half-spaces with unit normals) -/

theorem pointPlaneDistances_mem {eqs : List (V3 ℝ × ℝ)} {c : V3 ℝ} {d : ℝ}
    (h : d ∈ pointPlaneDistances eqs c) : ∃ e ∈ eqs, d = V3.dot c e.1 + e.2 := by
  obtain ⟨e, he, rfl⟩ := List.mem_map.mp h
  exact ⟨e, he, rfl⟩

/-- the point `c + t n` -/
def along (c n : V3 ℝ) (t : ℝ) : V3 ℝ := c + V3.smul t n

theorem along_sub (c n : V3 ℝ) (t : ℝ) : along c n t - c = V3.smul t n := by
  ext <;> simp [along]

theorem dist_along (c n : V3 ℝ) (t : ℝ) (hn : V3.norm n = 1) : dist (along c n t) c = |t| := by
  unfold BallSpec.dist; rw [along_sub, V3.norm_smul, hn, mul_one]

theorem dot_along (c n : V3 ℝ) (t : ℝ) (hn : V3.norm n = 1) :
    V3.dot n (along c n t) = V3.dot c n + t := by
  have h1 : V3.normSq n = 1 := by rw [← V3.norm_mul_self, hn]; ring
  unfold along
  rw [V3.dot_add_right, V3.dot_smul_right, V3.dot_comm n c]
  have : V3.dot n n = 1 := h1
  rw [this]; ring

/-- Cauchy–Schwarz step: a point of the ball `‖p − c‖ ≤ r` is at most `r` further along a unit normal -/
theorem dot_le_of_inBall {n c p : V3 ℝ} {r : ℝ} (hn : V3.norm n = 1) (hp : InBall c r p) :
    V3.dot n p ≤ V3.dot c n + r := by
  have h1 : V3.dot n p = V3.dot c n + V3.dot n (p - c) := by
    rw [V3.dot_sub_right, V3.dot_comm n c]; ring
  have h2 := V3.dot_le_norm_mul n (p - c)
  rw [hn, one_mul] at h2
  unfold InBall BallSpec.dist at hp
  linarith

/-- **C13 centred bounded sphere.** With unit face normals, whatever
`maximal_centered_bounded_sphere` returns is centred at the given centre, lies inside every
half-space (Cauchy–Schwarz), touches the nearest face plane, and every larger concentric ball sticks
out of the body. -/
theorem max_centered_bounded_spec (eqs : List (V3 ℝ × ℝ)) (c : V3 ℝ)
    (hunit : ∀ e ∈ eqs, V3.norm e.1 = 1) (hne : eqs ≠ [])
    {B : Ball ℝ} (h : maximalCenteredBoundedSphere eqs c = .ok B) :
    B.center = c ∧ IsMaxCenteredBounded eqs B.center B.radius := by
  unfold maximalCenteredBoundedSphere at h
  simp only at h
  split at h
  · cases h
  obtain ⟨hr, hc, hpos⟩ := mkBall_ok h
  have hne' : pointPlaneDistances eqs c ≠ [] := by
    unfold pointPlaneDistances; simpa using hne
  obtain ⟨e0, he0, hd0⟩ := pointPlaneDistances_mem (listMax_mem _ hne')
  have hle : ∀ e ∈ eqs, V3.dot c e.1 + e.2 ≤ -B.radius := by
    intro e he
    have := listMax_ge (pointPlaneDistances eqs c) _ (List.mem_map.mpr ⟨e, he, rfl⟩)
    rw [hr]; linarith
  have hrpos : 0 < B.radius := by rw [hr]; exact hpos
  have he0r : V3.dot c e0.1 + e0.2 = -B.radius := by rw [hr, ← hd0]; ring
  refine ⟨hc, ?_, ⟨e0, he0, ?_⟩, ?_⟩
  · -- inside
    intro p hp e he
    rw [hc] at hp
    have := dot_le_of_inBall (hunit e he) hp
    have := hle e he
    simp only [Scalar.lit_real, Nat.cast_zero]; linarith
  · -- touches the nearest plane at c + r n
    refine ⟨along c e0.1 B.radius, ?_, ?_⟩
    · rw [hc]; unfold InBall; rw [dist_along _ _ _ (hunit e0 he0), abs_of_pos hrpos]
    · rw [dot_along _ _ _ (hunit e0 he0)]
      simp only [Scalar.lit_real, Nat.cast_zero]; linarith
  · -- maximal
    intro r' hr' hin
    have hp : InBall B.center r' (along c e0.1 r') := by
      rw [hc]; unfold InBall
      rw [dist_along _ _ _ (hunit e0 he0), abs_of_pos (lt_trans hrpos hr')]
    have := hin _ hp e0 he0
    rw [dot_along _ _ _ (hunit e0 he0)] at this
    simp only [Scalar.lit_real, Nat.cast_zero] at this
    linarith

/-- `maximal_centered_bounded_sphere` raises (always `ValueError`) exactly when the centre is NOT
strictly inside every half-space. -/
theorem max_centered_bounded_raises_iff (eqs : List (V3 ℝ × ℝ)) (c : V3 ℝ) (hne : eqs ≠ []) :
    (∃ e, maximalCenteredBoundedSphere eqs c = .error e) ↔ ∃ e ∈ eqs, 0 ≤ V3.dot c e.1 + e.2 := by
  have hne' : pointPlaneDistances eqs c ≠ [] := by
    unfold pointPlaneDistances; simpa using hne
  unfold maximalCenteredBoundedSphere
  simp only
  constructor
  · rintro ⟨msg, h⟩
    split at h
    · next hany =>
      obtain ⟨d, hd, hdpos⟩ := List.any_eq_true.mp hany
      obtain ⟨e, he, rfl⟩ := pointPlaneDistances_mem hd
      have : (0 : ℝ) < V3.dot c e.1 + e.2 := by simpa using hdpos
      exact ⟨e, he, le_of_lt this⟩
    · obtain ⟨_, hle⟩ := mkBall_error h
      obtain ⟨e0, he0, hd0⟩ := pointPlaneDistances_mem (listMax_mem _ hne')
      exact ⟨e0, he0, by rw [← hd0]; linarith⟩
  · rintro ⟨e, he, hpos⟩
    split
    · exact ⟨_, rfl⟩
    · have hge := listMax_ge (pointPlaneDistances eqs c) _ (List.mem_map.mpr ⟨e, he, rfl⟩)
      have hle : -(listMax (pointPlaneDistances eqs c)) ≤ 0 := by linarith
      unfold mkBall
      rw [if_neg]
      · exact ⟨_, rfl⟩
      · simpa using hle

/-- unit cube `[-1,1]³`: the six unit normals; centre at the origin -/
def cubeEqs : List (V3 ℝ × ℝ) :=
  [(⟨1,0,0⟩, -1), (⟨-1,0,0⟩, -1), (⟨0,1,0⟩, -1), (⟨0,-1,0⟩, -1), (⟨0,0,1⟩, -1), (⟨0,0,-1⟩, -1)]

example : ∀ e ∈ cubeEqs, V3.norm e.1 = 1 := by
  intro e he
  simp only [cubeEqs, List.mem_cons, List.not_mem_nil, or_false] at he
  rcases he with rfl | rfl | rfl | rfl | rfl | rfl <;>
    (rw [V3.norm_eq, V3.normSq_eq]; norm_num)

example : ¬ ∃ e, maximalCenteredBoundedSphere cubeEqs ⟨0,0,0⟩ = .error e := by
  rw [max_centered_bounded_raises_iff _ _ (by simp [cubeEqs])]
  rintro ⟨e, he, h⟩
  simp only [cubeEqs, List.mem_cons, List.not_mem_nil, or_false] at he
  rcases he with rfl | rfl | rfl | rfl | rfl | rfl <;>
    (simp only [V3.dot_eq] at h; norm_num at h)

/-! ## 3. maximal centred bounded circle (convex polygon: distance to the edge LINES) -/

/-- distance from `c` to the line through `a` with unit direction `u`, as the code computes it:
`‖(c − a) × u‖` -/
def lineDist (c a u : V3 ℝ) : ℝ := V3.norm (V3.cross (c - a) u)

theorem line_normSq_split (c a u : V3 ℝ) (t : ℝ) (hu : V3.norm u = 1) :
    V3.normSq (linePoint a u t - c) =
      V3.normSq (V3.cross (c - a) u) + (t - V3.dot (c - a) u) * (t - V3.dot (c - a) u) := by
  have h1 : V3.normSq u = 1 := by rw [← V3.norm_mul_self, hu]; ring
  obtain ⟨cx, cy, cz⟩ := c; obtain ⟨ax, ay, az⟩ := a; obtain ⟨ux, uy, uz⟩ := u
  simp only [V3.normSq_eq] at h1
  simp only [linePoint, V3.normSq_eq, V3.dot_eq, V3.cross, V3.add_x, V3.add_y, V3.add_z, V3.sub_x,
    V3.sub_y, V3.sub_z, V3.smul_x, V3.smul_y, V3.smul_z]
  linear_combination
    (t * t - ((cx - ax) * (cx - ax) + (cy - ay) * (cy - ay) + (cz - az) * (cz - az))) * h1

/-- `‖(c − a) × u‖` really is the distance to the line: no point of the line is closer … -/
theorem lineDist_le (c a u : V3 ℝ) (hu : V3.norm u = 1) (t : ℝ) :
    lineDist c a u ≤ dist (linePoint a u t) c := by
  unfold lineDist BallSpec.dist
  rw [V3.norm_eq, V3.norm_eq]
  apply Real.sqrt_le_sqrt
  rw [line_normSq_split c a u t hu]
  nlinarith [mul_self_nonneg (t - V3.dot (c - a) u)]

/-- … and the foot of the perpendicular attains it -/
theorem lineDist_attained (c a u : V3 ℝ) (hu : V3.norm u = 1) :
    dist (linePoint a u (V3.dot (c - a) u)) c = lineDist c a u := by
  unfold lineDist BallSpec.dist
  rw [V3.norm_eq, V3.norm_eq, line_normSq_split c a u _ hu]
  congr 1; ring

/-- the lines carrying the edges, as the code forms them: through `v_i` with direction
`(v_i − v_{i−1}) / ‖v_i − v_{i−1}‖` -/
def edgeLines (verts : List (V3 ℝ)) : List (V3 ℝ × V3 ℝ) :=
  List.zipWith (fun v1 v2 => (v1, V3.sdiv (v1 - v2) (V3.norm (v1 - v2)))) verts (rollR verts)

theorem edgeDist_zip (c : V3 ℝ) (xs ys : List (V3 ℝ)) :
    List.zipWith (fun p d => V3.norm (V3.cross p d)) (xs.map fun v => c - v)
        ((List.zipWith (fun a b => a - b) xs ys).map fun d => V3.sdiv d (V3.norm d)) =
      (List.zipWith (fun v1 v2 => (v1, V3.sdiv (v1 - v2) (V3.norm (v1 - v2)))) xs ys).map
        fun l => lineDist c l.1 l.2 := by
  induction xs generalizing ys with
  | nil => simp
  | cons x xs ih =>
    cases ys with
    | nil => simp
    | cons y ys =>
      simp only [List.map_cons, List.zipWith_cons_cons, List.cons.injEq]
      exact ⟨rfl, ih ys⟩

theorem edgeLineDistances_eq (verts : List (V3 ℝ)) (c : V3 ℝ) :
    edgeLineDistances verts c = (edgeLines verts).map fun l => lineDist c l.1 l.2 := by
  unfold edgeLineDistances edgeLines
  exact edgeDist_zip c verts (rollR verts)

theorem rollR_length {β : Type} (l : List β) : (rollR l).length = l.length := by
  unfold rollR
  cases h : l.getLast? with
  | none => simp [List.getLast?_eq_none_iff.mp h]
  | some x =>
    have hne : l ≠ [] := by rintro rfl; simp at h
    simp only [List.length_cons, List.length_dropLast]
    have : 0 < l.length := List.length_pos_iff.mpr hne
    omega

theorem edgeLines_ne_nil (verts : List (V3 ℝ)) (hne : verts ≠ []) : edgeLines verts ≠ [] := by
  intro h
  have hl := congrArg List.length h
  unfold edgeLines at hl
  rw [List.length_zipWith, rollR_length, Nat.min_self] at hl
  exact hne (List.length_eq_zero_iff.mp hl)

/-- **C13 centred bounded circle.** For a polygon with distinct consecutive vertices (unit edge
directions), whatever `maximal_centered_bounded_circle` returns is centred at the given centre,
no point of any edge line lies strictly inside it, and it touches the nearest edge line. (For a
convex polygon containing the centre this is the largest concentric circle inside the polygon.) -/
theorem max_centered_bounded_circle_spec (verts : List (V3 ℝ)) (c : V3 ℝ) (hne : verts ≠ [])
    (hunit : ∀ l ∈ edgeLines verts, V3.norm l.2 = 1)
    {B : Ball ℝ} (h : maximalCenteredBoundedCircle verts c = .ok B) :
    B.center = c ∧ IsMaxCenteredBoundedByLines (edgeLines verts) B.center B.radius := by
  unfold maximalCenteredBoundedCircle at h
  obtain ⟨hr, hc, _⟩ := mkBall_ok h
  rw [edgeLineDistances_eq] at hr
  have hne' : (edgeLines verts).map (fun l => lineDist c l.1 l.2) ≠ [] := by
    simpa using edgeLines_ne_nil verts hne
  refine ⟨hc, ?_, ?_⟩
  · intro l hl t
    rw [hr, hc]
    exact le_trans (listMin_le _ _ (List.mem_map.mpr ⟨l, hl, rfl⟩)) (lineDist_le c l.1 l.2 (hunit l hl) t)
  · obtain ⟨l, hl, hd⟩ := List.mem_map.mp (listMin_mem _ hne')
    refine ⟨l, hl, V3.dot (c - l.1) l.2, ?_⟩
    rw [hc, lineDist_attained c l.1 l.2 (hunit l hl), hr, hd]

/-- the unit square, centre (1/2,1/2,0): its four edge directions are unit vectors -/
example : ∀ l ∈ edgeLines [(⟨0,0,0⟩ : V3 ℝ), ⟨1,0,0⟩, ⟨1,1,0⟩, ⟨0,1,0⟩], V3.norm l.2 = 1 := by
  intro l hl
  simp only [edgeLines, rollR, List.getLast?, List.getLast, List.dropLast, List.zipWith_cons_cons,
    List.zipWith_nil_right, List.mem_cons, List.not_mem_nil, or_false] at hl
  rcases hl with rfl | rfl | rfl | rfl <;>
    (apply V3.norm_sdiv_self
     rw [V3.norm_eq, V3.normSq_eq]
     simp only [V3.sub_x, V3.sub_y, V3.sub_z]
     norm_num)

/-! ## 4. circumsphere / circumcircle: the linear system and what its residual means -/

/-- the contract of `np.linalg.lstsq` used below: `(x, r)` minimises `‖A·(x,r) − b‖²` -/
def IsLstsqMin (rows : List (Row ℝ)) (x : V3 ℝ) (r : ℝ) : Prop :=
  ∀ x' r', sumSq rows x r ≤ sumSq rows x' r'

/-- residual of the row of vertex `v`: `(v−v0)·x − |v−v0|²/2 = (|x|² − |v − (x+v0)|²)/2` -/
theorem circum_row_identity (v v0 x : V3 ℝ) (r : ℝ) :
    V3.normSq (v - (x + v0)) - V3.normSq x =
      -2 * (Row.resid ⟨v - v0, Scalar.lit 0, V3.dot (v - v0) (v - v0) / Scalar.lit 2⟩ x r) := by
  obtain ⟨a, b, c⟩ := v; obtain ⟨d, e, f⟩ := v0; obtain ⟨g, h, i⟩ := x
  simp only [Row.resid, V3.normSq_eq, V3.dot_eq, V3.sub_x, V3.sub_y, V3.sub_z, V3.add_x, V3.add_y,
    V3.add_z, Scalar.lit_real]
  push_cast; ring

theorem circumSystemSphere_cons (v0 : V3 ℝ) (rest : List (V3 ℝ)) :
    circumSystemSphere (v0 :: rest) =
      rest.map fun v => ⟨v - v0, Scalar.lit 0, V3.dot (v - v0) (v - v0) / Scalar.lit 2⟩ := by
  simp [circumSystemSphere, circumPoints, List.map_map, Function.comp_def]

theorem normSq_neg_self (x v0 : V3 ℝ) : V3.normSq (v0 - (x + v0)) = V3.normSq x := by
  simp only [V3.normSq_eq, V3.sub_x, V3.sub_y, V3.sub_z, V3.add_x, V3.add_y, V3.add_z]; ring

/-- quantitative form: if the rows of the circum-system have squared residual sum `≤ ε`, then every
vertex satisfies `(‖v − c‖² − r²)² ≤ 4ε` for `c = x + v0`, `r = ‖x‖`. -/
theorem circum_resid_bound (v0 : V3 ℝ) (rest : List (V3 ℝ)) (x : V3 ℝ) (r ε : ℝ)
    (h : sumSq (circumSystemSphere (v0 :: rest)) x r ≤ ε) :
    ∀ v ∈ v0 :: rest,
      (V3.normSq (v - (x + v0)) - V3.normSq x) * (V3.normSq (v - (x + v0)) - V3.normSq x) ≤ 4 * ε := by
  intro v hv
  rcases List.mem_cons.mp hv with rfl | hv
  · rw [normSq_neg_self]; have := sumSq_nonneg (circumSystemSphere (v :: rest)) x r
    nlinarith
  · have hrow : (⟨v - v0, Scalar.lit 0, V3.dot (v - v0) (v - v0) / Scalar.lit 2⟩ : Row ℝ) ∈
        circumSystemSphere (v0 :: rest) := by
      rw [circumSystemSphere_cons]; exact List.mem_map.mpr ⟨v, hv, rfl⟩
    have hb := resid_sq_le_sumSq _ x r _ hrow
    rw [circum_row_identity v v0 x r]
    nlinarith

/-- **C13 circumsphere, exact residual.** An exact solution `x` of the system
`(v_i − v_0)·x = |v_i − v_0|²/2` (zero residual) gives a sphere, centre `x + v_0`, radius `‖x‖`,
passing through EVERY vertex. -/
theorem circum_of_zero_resid (v0 : V3 ℝ) (rest : List (V3 ℝ)) (x : V3 ℝ) (r : ℝ)
    (h : sumSq (circumSystemSphere (v0 :: rest)) x r = 0) :
    IsCircum (x + v0) (V3.norm x) (v0 :: rest) := by
  intro v hv
  have hb := circum_resid_bound v0 rest x r 0 (le_of_eq h) v hv
  have h0 : V3.normSq (v - (x + v0)) - V3.normSq x = 0 := by
    have := mul_self_nonneg (V3.normSq (v - (x + v0)) - V3.normSq x)
    exact mul_self_eq_zero.mp (le_antisymm (by linarith) this)
  unfold BallSpec.dist
  rw [V3.norm_eq, V3.norm_eq]; congr 1; linarith

/-- **C13 circumsphere, converse.** If ANY sphere passes through all the vertices, its centre solves
the system exactly — so the least-squares residual is zero, and a non-zero residual correctly
refutes the existence of a circumsphere. -/
theorem circum_exists_imp_consistent (v0 : V3 ℝ) (rest : List (V3 ℝ)) (c : V3 ℝ) (ρ r : ℝ)
    (h : IsCircum c ρ (v0 :: rest)) : sumSq (circumSystemSphere (v0 :: rest)) (c - v0) r = 0 := by
  rw [sumSq_eq_zero_iff, circumSystemSphere_cons]
  intro row hrow
  obtain ⟨v, hv, rfl⟩ := List.mem_map.mp hrow
  have hv0 := h v0 List.mem_cons_self
  have hvv := h v (List.mem_cons_of_mem _ hv)
  unfold BallSpec.dist at hv0 hvv
  have e0 : V3.normSq (v0 - c) = V3.normSq (v - c) := by
    rw [← V3.norm_mul_self, ← V3.norm_mul_self, hv0, hvv]
  have hid := circum_row_identity v v0 (c - v0) r
  have hc : (c - v0) + v0 = c := V3.sub_add_cancel' c v0
  rw [hc] at hid
  have : V3.normSq (c - v0) = V3.normSq (v0 - c) := V3.normSq_sub_comm _ _
  linarith

theorem circum_refutes (v0 : V3 ℝ) (rest : List (V3 ℝ)) (x : V3 ℝ) (r : ℝ)
    (hmin : IsLstsqMin (circumSystemSphere (v0 :: rest)) x r)
    (hres : sumSq (circumSystemSphere (v0 :: rest)) x r ≠ 0) :
    ¬ ∃ c ρ, IsCircum c ρ (v0 :: rest) := by
  rintro ⟨c, ρ, hc⟩
  have h0 := circum_exists_imp_consistent v0 rest c ρ r hc
  have := hmin (c - v0) r
  rw [h0] at this
  exact hres (le_antisymm this (sumSq_nonneg _ _ _))

/-! the polygon version: one more row, `normal · x = 0`, keeps the centre in the polygon's plane -/

theorem circumSystemCircle_mem {verts : List (V3 ℝ)} {normal : V3 ℝ} {row : Row ℝ} :
    row ∈ circumSystemCircle verts normal ↔
      row ∈ circumSystemSphere verts ∨ row = ⟨normal, Scalar.lit 0, Scalar.lit 0⟩ := by
  simp [circumSystemCircle]

theorem sumSq_append (a b : List (Row ℝ)) (x : V3 ℝ) (r : ℝ) :
    sumSq (a ++ b) x r = sumSq a x r + sumSq b x r := by
  simp [sumSq_eq]

/-- **C13 circumcircle, exact residual.** Zero residual of the polygon system gives a circle through
every vertex whose centre lies in the plane through `v_0` orthogonal to `normal`. -/
theorem circumcircle_of_zero_resid (v0 : V3 ℝ) (rest : List (V3 ℝ)) (normal x : V3 ℝ) (r : ℝ)
    (h : sumSq (circumSystemCircle (v0 :: rest) normal) x r = 0) :
    IsCircum (x + v0) (V3.norm x) (v0 :: rest) ∧ InPlane normal v0 (x + v0) := by
  unfold circumSystemCircle at h
  rw [sumSq_append] at h
  have h1 := sumSq_nonneg (circumSystemSphere (v0 :: rest)) x r
  have h2 := sumSq_nonneg [(⟨normal, Scalar.lit 0, Scalar.lit 0⟩ : Row ℝ)] x r
  have ha : sumSq (circumSystemSphere (v0 :: rest)) x r = 0 := by linarith
  have hb : sumSq [(⟨normal, Scalar.lit 0, Scalar.lit 0⟩ : Row ℝ)] x r = 0 := by linarith
  refine ⟨circum_of_zero_resid v0 rest x r ha, ?_⟩
  have := (sumSq_eq_zero_iff _ x r).mp hb _ List.mem_cons_self
  unfold InPlane
  rw [V3.add_sub_cancel_right']
  simpa [Row.resid] using this

/-- converse for polygons: a circle through all vertices with its centre in the polygon's plane
makes the polygon system consistent. -/
theorem circumcircle_exists_imp_consistent (v0 : V3 ℝ) (rest : List (V3 ℝ)) (normal c : V3 ℝ) (ρ r : ℝ)
    (h : IsCircum c ρ (v0 :: rest)) (hp : InPlane normal v0 c) :
    sumSq (circumSystemCircle (v0 :: rest) normal) (c - v0) r = 0 := by
  unfold circumSystemCircle
  rw [sumSq_append, circum_exists_imp_consistent v0 rest c ρ r h, zero_add, sumSq_eq_zero_iff]
  intro row hrow
  rw [List.mem_singleton] at hrow
  subst hrow
  unfold InPlane at hp
  simpa [Row.resid] using hp

theorem circumcircle_refutes (v0 : V3 ℝ) (rest : List (V3 ℝ)) (normal x : V3 ℝ) (r : ℝ)
    (hmin : IsLstsqMin (circumSystemCircle (v0 :: rest) normal) x r)
    (hres : sumSq (circumSystemCircle (v0 :: rest) normal) x r ≠ 0) :
    ¬ ∃ c ρ, IsCircum c ρ (v0 :: rest) ∧ InPlane normal v0 c := by
  rintro ⟨c, ρ, hc, hp⟩
  have h0 := circumcircle_exists_imp_consistent v0 rest normal c ρ r hc hp
  have := hmin (c - v0) r
  rw [h0] at this
  exact hres (le_antisymm this (sumSq_nonneg _ _ _))

/-- the cube `{0,1}³`: `x = (1/2,1/2,1/2)` solves its circum-system exactly -/
example : sumSq (circumSystemSphere [(⟨0,0,0⟩ : V3 ℝ), ⟨1,0,0⟩, ⟨0,1,0⟩, ⟨0,0,1⟩, ⟨1,1,0⟩, ⟨1,0,1⟩,
    ⟨0,1,1⟩, ⟨1,1,1⟩]) ⟨1/2,1/2,1/2⟩ 0 = 0 := by
  rw [sumSq_eq_zero_iff, circumSystemSphere_cons]
  intro row hrow
  simp only [List.map_cons, List.map_nil, List.mem_cons, List.not_mem_nil, or_false] at hrow
  rcases hrow with rfl | rfl | rfl | rfl | rfl | rfl | rfl <;>
    (simp only [Row.resid, V3.dot_eq, V3.sub_x, V3.sub_y, V3.sub_z, Scalar.lit_real]; norm_num)

/-! ## 5. the model functions `circumsphere` / `circumcircle` (guard + constructor) -/

theorem residGuard_false {nverts thresh : Nat} {resids : List ℝ} {atol : ℝ}
    (h : residGuard nverts thresh resids atol = .ok false) :
    nverts ≤ thresh ∨ ∃ ρ, resids = [ρ] ∧ |ρ| ≤ atol := by
  unfold residGuard at h
  split at h
  · right
    split at h
    · next ρ =>
      injection h with h
      refine ⟨ρ, rfl, ?_⟩
      rw [← isclose_zero_iff]
      simpa using h
    · cases h
  · left; omega

theorem residGuard_true {nverts thresh : Nat} {resids : List ℝ} {atol : ℝ}
    (h : residGuard nverts thresh resids atol = .ok true) :
    nverts > thresh ∧ ∃ ρ, resids = [ρ] ∧ atol < |ρ| := by
  unfold residGuard at h
  split at h
  · next hn =>
    refine ⟨hn, ?_⟩
    split at h
    · next ρ =>
      injection h with h
      refine ⟨ρ, rfl, ?_⟩
      have hc : isclose ρ (Scalar.lit 0 : ℝ) atol = false := by simpa using h
      by_contra hle
      push Not at hle
      rw [(isclose_zero_iff ρ atol).mpr hle] at hc
      cases hc
    · cases h
  · injection h with h; cases h

theorem residGuard_error {nverts thresh : Nat} {resids : List ℝ} {atol : ℝ} {e : String}
    (h : residGuard nverts thresh resids atol = .error e) : e = "ValueError" := by
  unfold residGuard at h
  split at h
  · split at h
    · cases h
    · injection h with h; exact h.symm
  · cases h

theorem circumBall_ok {thresh : Nat} {verts : List (V3 ℝ)} {rows : List (Row ℝ)} {x : V3 ℝ}
    {resids : List ℝ} {B : Ball ℝ} (h : circumBall thresh verts rows x resids = .ok B) :
    B.radius = V3.norm x ∧ B.center = x + firstVertex verts ∧ 0 < V3.norm x ∧
      (verts.length ≤ thresh ∨ ∃ ρ, resids = [ρ] ∧ |ρ| ≤ circumAtol rows) := by
  unfold circumBall at h
  simp only [bind, Except.bind] at h
  split at h
  · cases h
  · next b hb =>
    cases b with
    | true => simp [throw, throwThe, MonadExceptOf.throw] at h
    | false =>
      simp only [Bool.false_eq_true, ↓reduceIte] at h
      obtain ⟨h1, h2, h3⟩ := mkBall_ok h
      exact ⟨h1, h2, h3, residGuard_false hb⟩

theorem circumBall_runtimeError {thresh : Nat} {verts : List (V3 ℝ)} {rows : List (Row ℝ)} {x : V3 ℝ}
    {resids : List ℝ} (h : circumBall thresh verts rows x resids = .error "RuntimeError") :
    verts.length > thresh ∧ ∃ ρ, resids = [ρ] ∧ circumAtol rows < |ρ| := by
  unfold circumBall at h
  simp only [bind, Except.bind] at h
  split at h
  · next e he =>
    have := residGuard_error he
    injection h with h
    rw [this] at h; exact absurd h (by decide)
  · next b hb =>
    cases b with
    | true => exact residGuard_true hb
    | false =>
      simp only [Bool.false_eq_true, ↓reduceIte] at h
      have := (mkBall_error h).1
      exact absurd this (by decide)

theorem circumAtol_nonneg (rows : List (Row ℝ)) : 0 ≤ circumAtol rows := by
  unfold circumAtol
  simp only [Scalar.q, Scalar.ofNat_real, Scalar.sqr_real]
  have := mul_self_nonneg (listMax (rows.map fun row => row.b))
  positivity

/-- **C13 circumsphere refusal is sound.** If the model raises `RuntimeError` on a residual that is
the least-squares minimum (lstsq contract), then NO sphere passes through all the vertices. -/
theorem circumsphere_refusal_sound (v0 : V3 ℝ) (rest : List (V3 ℝ)) (x : V3 ℝ) (resids : List ℝ)
    (hmin : IsLstsqMin (circumSystemSphere (v0 :: rest)) x 0)
    (hres : ∀ ρ ∈ resids, ρ = sumSq (circumSystemSphere (v0 :: rest)) x 0)
    (h : circumsphere (v0 :: rest) x resids = .error "RuntimeError") :
    ¬ ∃ c ρ, IsCircum c ρ (v0 :: rest) := by
  obtain ⟨_, ρ, hρ, hlt⟩ := circumBall_runtimeError h
  have hρ' := hres ρ (by rw [hρ]; exact List.mem_singleton_self ρ)
  apply circum_refutes v0 rest x 0 hmin
  rw [← hρ']
  intro h0
  rw [h0, abs_zero] at hlt
  exact absurd hlt (not_lt.mpr (circumAtol_nonneg _))

/-- **C13 circumsphere, returned ball.** If the system is solved exactly (zero residual), whatever
`circumsphere` returns is a sphere through every vertex, centre `x + v_0`, radius `‖x‖` … -/
theorem circumsphere_exact (v0 : V3 ℝ) (rest : List (V3 ℝ)) (x : V3 ℝ) (resids : List ℝ)
    (hzero : sumSq (circumSystemSphere (v0 :: rest)) x 0 = 0)
    {B : Ball ℝ} (h : circumsphere (v0 :: rest) x resids = .ok B) :
    IsCircum B.center B.radius (v0 :: rest) := by
  obtain ⟨h1, h2, _, _⟩ := circumBall_ok h
  rw [h1, h2]
  exact circum_of_zero_resid v0 rest x 0 hzero

/-- … and an existing circumsphere is never refused: with the lstsq contract and a zero residual the
model returns (provided the solution is not the degenerate `x = 0`). -/
theorem circumsphere_accepts (verts : List (V3 ℝ)) (x : V3 ℝ) (hx : 0 < V3.norm x) :
    ∃ B, circumsphere verts x [0] = .ok B := by
  unfold circumsphere circumBall
  have hg : residGuard verts.length 4 [(0 : ℝ)] (circumAtol (circumSystemSphere verts)) = .ok false := by
    unfold residGuard
    split
    · have hz := isclose_zero_zero (circumAtol_nonneg (circumSystemSphere verts))
      simp only [hz, Bool.not_true]
    · rfl
  simp only [hg, bind, Except.bind, Bool.false_eq_true, ↓reduceIte]
  exact ⟨_, mkBall_of_pos _ hx⟩

/-- **C13 circumsphere, tolerance (`_partial`).** What is provable about a returned ball from the guard
alone: with the lstsq contract `resids = [‖Ax−b‖²]`, every vertex satisfies
`(‖v − c‖² − r²)² ≤ 4·10⁻⁸·(max_i |v_i−v_0|²/2)²`, i.e. it lies on the sphere up to a relative
`2·10⁻⁴` in squared distance. Missing for the full statement (`IsCircum`): the guard accepts
residuals in `(0, atol]`; inputs that are non-cospherical by less than that margin get a ball that
only nearly passes through the vertices (the property excludes this margin). -/
theorem circumsphere_sound_partial (v0 : V3 ℝ) (rest : List (V3 ℝ)) (x : V3 ℝ) (resids : List ℝ)
    (hlen : 4 < (v0 :: rest).length)
    (hres : ∀ ρ ∈ resids, ρ = sumSq (circumSystemSphere (v0 :: rest)) x 0)
    {B : Ball ℝ} (h : circumsphere (v0 :: rest) x resids = .ok B) :
    ∀ v ∈ v0 :: rest,
      (V3.normSq (v - B.center) - B.radius * B.radius) * (V3.normSq (v - B.center) - B.radius * B.radius)
        ≤ 4 * circumAtol (circumSystemSphere (v0 :: rest)) := by
  obtain ⟨h1, h2, _, hg⟩ := circumBall_ok h
  rcases hg with hle | ⟨ρ, hρ, hle⟩
  · omega
  · have hρ' := hres ρ (by rw [hρ]; exact List.mem_singleton_self ρ)
    have hb : sumSq (circumSystemSphere (v0 :: rest)) x 0 ≤ circumAtol (circumSystemSphere (v0 :: rest)) := by
      rw [← hρ']; exact le_trans (le_abs_self ρ) hle
    intro v hv
    have := circum_resid_bound v0 rest x 0 _ hb v hv
    rw [h1, h2, V3.norm_mul_self]
    simpa [firstVertex] using this

/-- polygon versions -/
theorem circumcircle_refusal_sound (v0 : V3 ℝ) (rest : List (V3 ℝ)) (normal x : V3 ℝ) (resids : List ℝ)
    (hmin : IsLstsqMin (circumSystemCircle (v0 :: rest) normal) x 0)
    (hres : ∀ ρ ∈ resids, ρ = sumSq (circumSystemCircle (v0 :: rest) normal) x 0)
    (h : circumcircle (v0 :: rest) normal x resids = .error "RuntimeError") :
    ¬ ∃ c ρ, IsCircum c ρ (v0 :: rest) ∧ InPlane normal v0 c := by
  obtain ⟨_, ρ, hρ, hlt⟩ := circumBall_runtimeError h
  have hρ' := hres ρ (by rw [hρ]; exact List.mem_singleton_self ρ)
  apply circumcircle_refutes v0 rest normal x 0 hmin
  rw [← hρ']
  intro h0
  rw [h0, abs_zero] at hlt
  exact absurd hlt (not_lt.mpr (circumAtol_nonneg _))

theorem circumcircle_exact (v0 : V3 ℝ) (rest : List (V3 ℝ)) (normal x : V3 ℝ) (resids : List ℝ)
    (hzero : sumSq (circumSystemCircle (v0 :: rest) normal) x 0 = 0)
    {B : Ball ℝ} (h : circumcircle (v0 :: rest) normal x resids = .ok B) :
    IsCircum B.center B.radius (v0 :: rest) ∧ InPlane normal v0 B.center := by
  obtain ⟨h1, h2, _, _⟩ := circumBall_ok h
  rw [h1, h2]
  exact circumcircle_of_zero_resid v0 rest normal x 0 hzero

/-- unit square in the plane z = 0: exact solution `x = (1/2, 1/2, 0)`, so the model returns its
circumcircle -/
example : sumSq (circumSystemCircle [(⟨0,0,0⟩ : V3 ℝ), ⟨1,0,0⟩, ⟨1,1,0⟩, ⟨0,1,0⟩] ⟨0,0,1⟩) ⟨1/2,1/2,0⟩ 0 = 0 := by
  rw [sumSq_eq_zero_iff]
  intro row hrow
  rw [circumSystemCircle_mem, circumSystemSphere_cons] at hrow
  simp only [List.map_cons, List.map_nil, List.mem_cons, List.not_mem_nil, or_false] at hrow
  rcases hrow with (rfl | rfl | rfl) | rfl <;>
    (simp only [Row.resid, V3.dot_eq, V3.sub_x, V3.sub_y, V3.sub_z, Scalar.lit_real]; norm_num)

/-! ## 6. insphere / incircle -/

/-- the plane equations `n · p + d ≤ 0` of faces given as (unit outward normal, a vertex on it) -/
def faceEqs (faces : List (V3 ℝ × V3 ℝ)) : List (V3 ℝ × ℝ) :=
  faces.map fun f => (f.1, -(V3.dot f.1 f.2))

/-- **C13 insphere, exact residual.** An exact solution `(c, r)` of the system
`n_i · c + r = n_i · v_i` is at signed distance `−r` from every face plane: tangent to all of them. -/
theorem in_of_zero_resid (faces : List (V3 ℝ × V3 ℝ)) (x : V3 ℝ) (r : ℝ)
    (h : sumSq (inSystemSphere faces) x r = 0) : IsTangentInside (faceEqs faces) x r := by
  rw [sumSq_eq_zero_iff] at h
  intro e he
  obtain ⟨f, hf, rfl⟩ := List.mem_map.mp he
  have := h ⟨f.1, Scalar.lit 1, V3.dot f.1 f.2⟩ (List.mem_map.mpr ⟨f, hf, rfl⟩)
  simp only [Row.resid, Scalar.lit_real, Nat.cast_one, one_mul] at this
  simp only
  linarith

/-- with unit normals and `r ≥ 0`, tangent-from-inside means: the ball lies inside every half-space
and touches every face plane (at `c + r n_i`). -/
theorem tangentInside_spec (eqs : List (V3 ℝ × ℝ)) (c : V3 ℝ) (r : ℝ) (hr : 0 ≤ r)
    (hunit : ∀ e ∈ eqs, V3.norm e.1 = 1) (ht : IsTangentInside eqs c r) :
    BallInside eqs c r ∧ ∀ e ∈ eqs, TouchesPlane e c r := by
  constructor
  · intro p hp e he
    have h1 := dot_le_of_inBall (hunit e he) hp
    have h2 := ht e he
    rw [V3.dot_comm] at h2
    simp only [Scalar.lit_real, Nat.cast_zero]; linarith
  · intro e he
    refine ⟨along c e.1 r, ?_, ?_⟩
    · unfold InBall; rw [dist_along _ _ _ (hunit e he), abs_of_nonneg hr]
    · have h2 := ht e he
      rw [V3.dot_comm] at h2
      rw [dot_along _ _ _ (hunit e he)]
      simp only [Scalar.lit_real, Nat.cast_zero]; linarith

/-- **C13 insphere, converse.** If a ball tangent to every face plane from inside exists, its centre
and radius solve the system exactly, so a non-zero least-squares residual refutes existence. -/
theorem in_exists_imp_consistent (faces : List (V3 ℝ × V3 ℝ)) (c : V3 ℝ) (ρ : ℝ)
    (h : IsTangentInside (faceEqs faces) c ρ) : sumSq (inSystemSphere faces) c ρ = 0 := by
  rw [sumSq_eq_zero_iff]
  intro row hrow
  obtain ⟨f, hf, rfl⟩ := List.mem_map.mp hrow
  have := h (f.1, -(V3.dot f.1 f.2)) (List.mem_map.mpr ⟨f, hf, rfl⟩)
  simp only [Row.resid, Scalar.lit_real, Nat.cast_one, one_mul]
  simp only at this
  linarith

theorem in_refutes (faces : List (V3 ℝ × V3 ℝ)) (x : V3 ℝ) (r : ℝ)
    (hmin : IsLstsqMin (inSystemSphere faces) x r) (hres : sumSq (inSystemSphere faces) x r ≠ 0) :
    ¬ ∃ c ρ, IsTangentInside (faceEqs faces) c ρ := by
  rintro ⟨c, ρ, hc⟩
  have h0 := in_exists_imp_consistent faces c ρ hc
  have := hmin c ρ
  rw [h0] at this
  exact hres (le_antisymm this (sumSq_nonneg _ _ _))

/-- the edges of the polygon as (outward normal, vertex) pairs, with the normals the code builds -/
def edgeFaces (verts : List (V3 ℝ)) (normal : V3 ℝ) (signedArea : ℝ) : List (V3 ℝ × V3 ℝ) :=
  List.zip (outwardNormals verts normal signedArea) verts

theorem inSystemCircle_eq (verts : List (V3 ℝ)) (normal : V3 ℝ) (sa : ℝ) :
    inSystemCircle verts normal sa =
      inSystemSphere (edgeFaces verts normal sa) ++
        [⟨normal, Scalar.lit 0, V3.dot normal (firstVertex verts)⟩] := by
  unfold inSystemCircle inSystemSphere edgeFaces
  congr 1
  rw [List.zip, List.map_zipWith]

/-- **C13 incircle, exact residual.** Zero residual of the polygon system: tangent to every edge
line (signed distance `−r` w.r.t. the code's edge normals) and centred in the polygon's plane. -/
theorem incircle_of_zero_resid (verts : List (V3 ℝ)) (normal : V3 ℝ) (sa : ℝ) (x : V3 ℝ) (r : ℝ)
    (h : sumSq (inSystemCircle verts normal sa) x r = 0) :
    IsTangentInside (faceEqs (edgeFaces verts normal sa)) x r ∧ InPlane normal (firstVertex verts) x := by
  rw [inSystemCircle_eq, sumSq_append] at h
  have h1 := sumSq_nonneg (inSystemSphere (edgeFaces verts normal sa)) x r
  have h2 := sumSq_nonneg [(⟨normal, Scalar.lit 0, V3.dot normal (firstVertex verts)⟩ : Row ℝ)] x r
  refine ⟨in_of_zero_resid _ x r (by linarith), ?_⟩
  have hb : sumSq [(⟨normal, Scalar.lit 0, V3.dot normal (firstVertex verts)⟩ : Row ℝ)] x r = 0 := by
    linarith
  have := (sumSq_eq_zero_iff _ x r).mp hb _ List.mem_cons_self
  unfold InPlane
  rw [V3.dot_sub_right]
  simp only [Row.resid, Scalar.lit_real, Nat.cast_zero, zero_mul, add_zero] at this
  simpa using this

theorem incircle_exists_imp_consistent (verts : List (V3 ℝ)) (normal : V3 ℝ) (sa : ℝ) (c : V3 ℝ) (ρ : ℝ)
    (h : IsTangentInside (faceEqs (edgeFaces verts normal sa)) c ρ)
    (hp : InPlane normal (firstVertex verts) c) :
    sumSq (inSystemCircle verts normal sa) c ρ = 0 := by
  rw [inSystemCircle_eq, sumSq_append, in_exists_imp_consistent _ c ρ h, zero_add, sumSq_eq_zero_iff]
  intro row hrow
  rw [List.mem_singleton] at hrow
  subst hrow
  unfold InPlane at hp
  rw [V3.dot_sub_right] at hp
  simp only [Row.resid, Scalar.lit_real, Nat.cast_zero, zero_mul, add_zero]
  simpa using hp

/-! the model functions -/

theorem inBall_ok {thresh : Nat} {verts : List (V3 ℝ)} {x : V3 ℝ} {r : ℝ}
    {resids : List ℝ} {B : Ball ℝ} (h : inBall thresh verts x r resids = .ok B) :
    B.radius = r ∧ B.center = x ∧ 0 < r := by
  unfold inBall at h
  simp only [bind, Except.bind] at h
  split at h
  · cases h
  · next b hb =>
    cases b with
    | true => simp [throw, throwThe, MonadExceptOf.throw] at h
    | false =>
      simp only [Bool.false_eq_true, ↓reduceIte] at h
      exact mkBall_ok h

theorem inBall_runtimeError {thresh : Nat} {verts : List (V3 ℝ)} {x : V3 ℝ} {r : ℝ}
    {resids : List ℝ} (h : inBall thresh verts x r resids = .error "RuntimeError") :
    verts.length > thresh ∧ ∃ ρ, resids = [ρ] ∧ Scalar.q 1 100000000 * Scalar.sqr (extent verts) < |ρ| := by
  unfold inBall at h
  simp only [bind, Except.bind] at h
  split at h
  · next e he =>
    have := residGuard_error he
    injection h with h
    rw [this] at h; exact absurd h (by decide)
  · next b hb =>
    cases b with
    | true => exact residGuard_true hb
    | false =>
      simp only [Bool.false_eq_true, ↓reduceIte] at h
      have := (mkBall_error h).1
      exact absurd this (by decide)

theorem inAtol_nonneg (verts : List (V3 ℝ)) :
    (0 : ℝ) ≤ Scalar.q 1 100000000 * Scalar.sqr (extent verts) := by
  simp only [Scalar.q, Scalar.ofNat_real, Scalar.sqr_real]
  have := mul_self_nonneg (extent verts)
  positivity

/-- **C13 insphere refusal is sound.** `RuntimeError` on a least-squares-minimal residual means no
ball is tangent to all face planes. -/
theorem insphere_refusal_sound (verts : List (V3 ℝ)) (faces : List (V3 ℝ × V3 ℝ)) (x : V3 ℝ) (r : ℝ)
    (resids : List ℝ) (hmin : IsLstsqMin (inSystemSphere faces) x r)
    (hres : ∀ ρ ∈ resids, ρ = sumSq (inSystemSphere faces) x r)
    (h : insphere verts x r resids = .error "RuntimeError") :
    ¬ ∃ c ρ, IsTangentInside (faceEqs faces) c ρ := by
  obtain ⟨_, ρ, hρ, hlt⟩ := inBall_runtimeError h
  have hρ' := hres ρ (by rw [hρ]; exact List.mem_singleton_self ρ)
  apply in_refutes faces x r hmin
  rw [← hρ']
  intro h0
  rw [h0, abs_zero] at hlt
  exact absurd hlt (not_lt.mpr (inAtol_nonneg _))

/-- **C13 insphere, returned ball.** With an exactly solved system and unit normals, whatever
`insphere` returns lies inside every half-space and is tangent to every face plane. -/
theorem insphere_exact (verts : List (V3 ℝ)) (faces : List (V3 ℝ × V3 ℝ)) (x : V3 ℝ) (r : ℝ)
    (resids : List ℝ) (hunit : ∀ f ∈ faces, V3.norm f.1 = 1)
    (hzero : sumSq (inSystemSphere faces) x r = 0)
    {B : Ball ℝ} (h : insphere verts x r resids = .ok B) :
    IsTangentInside (faceEqs faces) B.center B.radius ∧ BallInside (faceEqs faces) B.center B.radius ∧
      ∀ e ∈ faceEqs faces, TouchesPlane e B.center B.radius := by
  obtain ⟨h1, h2, h3⟩ := inBall_ok h
  rw [h1, h2]
  have ht := in_of_zero_resid faces x r hzero
  have hu : ∀ e ∈ faceEqs faces, V3.norm e.1 = 1 := by
    intro e he
    obtain ⟨f, hf, rfl⟩ := List.mem_map.mp he
    exact hunit f hf
  exact ⟨ht, tangentInside_spec _ x r (le_of_lt h3) hu ht⟩

theorem incircle_refusal_sound (verts : List (V3 ℝ)) (normal : V3 ℝ) (sa : ℝ) (x : V3 ℝ) (r : ℝ)
    (resids : List ℝ) (hmin : IsLstsqMin (inSystemCircle verts normal sa) x r)
    (hres : ∀ ρ ∈ resids, ρ = sumSq (inSystemCircle verts normal sa) x r)
    (h : incircle verts x r resids = .error "RuntimeError") :
    ¬ ∃ c ρ, IsTangentInside (faceEqs (edgeFaces verts normal sa)) c ρ ∧
        InPlane normal (firstVertex verts) c := by
  obtain ⟨_, ρ, hρ, hlt⟩ := inBall_runtimeError h
  have hρ' := hres ρ (by rw [hρ]; exact List.mem_singleton_self ρ)
  rintro ⟨c, ρ', hc, hp⟩
  have h0 := incircle_exists_imp_consistent verts normal sa c ρ' hc hp
  have hm := hmin c ρ'
  rw [h0] at hm
  have hz : sumSq (inSystemCircle verts normal sa) x r = 0 := le_antisymm hm (sumSq_nonneg _ _ _)
  rw [← hρ'] at hz
  rw [hz, abs_zero] at hlt
  exact absurd hlt (not_lt.mpr (inAtol_nonneg _))

theorem incircle_exact (verts : List (V3 ℝ)) (normal : V3 ℝ) (sa : ℝ) (x : V3 ℝ) (r : ℝ)
    (resids : List ℝ) (hunit : ∀ f ∈ edgeFaces verts normal sa, V3.norm f.1 = 1)
    (hzero : sumSq (inSystemCircle verts normal sa) x r = 0)
    {B : Ball ℝ} (h : incircle verts x r resids = .ok B) :
    IsTangentInside (faceEqs (edgeFaces verts normal sa)) B.center B.radius ∧
      BallInside (faceEqs (edgeFaces verts normal sa)) B.center B.radius ∧
      InPlane normal (firstVertex verts) B.center := by
  obtain ⟨h1, h2, h3⟩ := inBall_ok h
  rw [h1, h2]
  obtain ⟨ht, hp⟩ := incircle_of_zero_resid verts normal sa x r hzero
  have hu : ∀ e ∈ faceEqs (edgeFaces verts normal sa), V3.norm e.1 = 1 := by
    intro e he
    obtain ⟨f, hf, rfl⟩ := List.mem_map.mp he
    exact hunit f hf
  exact ⟨ht, (tangentInside_spec _ x r (le_of_lt h3) hu ht).1, hp⟩

/-- the cube `[-1,1]³` (faces as (normal, vertex)): `(c, r) = (0, 1)` solves the in-system exactly -/
example : sumSq (inSystemSphere [((⟨1,0,0⟩ : V3 ℝ), (⟨1,1,1⟩ : V3 ℝ)), (⟨-1,0,0⟩, ⟨-1,1,1⟩),
    (⟨0,1,0⟩, ⟨1,1,1⟩), (⟨0,-1,0⟩, ⟨1,-1,1⟩), (⟨0,0,1⟩, ⟨1,1,1⟩), (⟨0,0,-1⟩, ⟨1,1,-1⟩)]) ⟨0,0,0⟩ 1 = 0 := by
  rw [sumSq_eq_zero_iff]
  intro row hrow
  simp only [inSystemSphere, List.map_cons, List.map_nil, List.mem_cons, List.not_mem_nil, or_false] at hrow
  rcases hrow with rfl | rfl | rfl | rfl | rfl | rfl <;>
    (simp only [Row.resid, V3.dot_eq, Scalar.lit_real]; norm_num)

end
