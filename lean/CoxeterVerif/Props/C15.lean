import CoxeterVerif.Lemmas.Constructors
import CoxeterVerif.Lemmas.ConstructorsStar
import CoxeterVerif.Lemmas.ConstructorsAlloc
import CoxeterVerif.Lemmas.ConstructorsReorder
import CoxeterVerif.Lemmas.ConstructorsConvex
import CoxeterVerif.Lemmas.ConstructorsPlanar
import CoxeterVerif.Lemmas.ConstructorsCoplanar
/-!
  # C15 — constructors accept valid geometry and reject invalid geometry

  All statements are over ℝ (`instScalarReal`) and for vertex lists of ANY length.
  `align`, `hullCount`, `hull` are the external results (kabsch rotation, Qhull) the model takes as arguments;
  `Spec.edgesOK` is the O(n²) edge-pair predicate that *is* the meaning of "simple" here
  (and the model of the Bentley–Ottmann sweep).
-/
open Scalar C15 C15.Spec
set_option maxRecDepth 4000
set_option linter.unusedSimpArgs false
noncomputable section

/-! ## 1. the segment predicate and simplicity -/

/-- **`segments_meet` is symmetric**: it does not matter which segment is named first … -/
theorem segments_meet_symm (a b c d : P2 ℝ) : segMeet a b c d = segMeet c d a b := segMeet_symm a b c d

/-- … nor in which direction either segment is traversed. -/
theorem segments_meet_flip (a b c d : P2 ℝ) :
    segMeet b a c d = segMeet a b c d ∧ segMeet a b d c = segMeet a b c d :=
  ⟨segMeet_flip a b c d, segMeet_flip' a b c d⟩

/-- **the decision procedure means what it should**: `segMeet` holds iff the two CLOSED segments have a common
point, `∃ s t ∈ [0,1], a + s (b − a) = c + t (d − c)` (proper crossings, touching end points and collinear
overlaps included). -/
theorem segments_meet_iff_exists (a b c d : P2 ℝ) : segMeet a b c d = true ↔ SegMeetProp a b c d :=
  segMeet_iff_exists a b c d

/-- for two edges without a common end point the edge condition is exactly disjointness -/
theorem edge_condition_nonadjacent (a b c d : P2 ℝ) (h1 : ptEq b c = false) (h2 : ptEq d a = false)
    (h3 : ptEq a c = false) (h4 : ptEq b d = false) :
    edgeOK (a, b) (c, d) = true ↔ ¬ SegMeetProp a b c d := by
  unfold edgeOK
  simp only [h1, h2, h3, h4, Bool.and_self, Bool.or_self, Bool.false_eq_true, if_false]
  rw [← segMeet_iff_exists]
  cases segMeet a b c d <;> simp

/-- the pairwise edge condition is symmetric and direction independent -/
theorem edge_condition_symm (e f : P2 ℝ × P2 ℝ) :
    edgeOK e f = edgeOK f e ∧ edgeOK e.swap f.swap = edgeOK e f :=
  ⟨edgeOK_symm e f, edgeOK_swap e f⟩

/-- **simplicity is invariant under cyclic shifts of the vertex list** (any start vertex) -/
theorem edgesOK_shift (l : List (P2 ℝ)) (k : Nat) : edgesOK (l.rotate k) = edgesOK l := by
  unfold edgesOK
  exact allPairs_perm edgeOK_symm (cycEdges_rotate l k)

/-- **simplicity is invariant under reversal of the vertex list** (either orientation) -/
theorem edgesOK_reverse (l : List (P2 ℝ)) : edgesOK l.reverse = edgesOK l := by
  unfold edgesOK
  rw [allPairs_perm edgeOK_symm (cycEdges_reverse l), allPairs_map]
  exact allPairs_congr (fun e f => edgeOK_swap e f) _

theorem c15_distinct_perm {l l' : List (P2 ℝ)} (h : l.Perm l') : distinct l = distinct l' := by
  unfold distinct
  exact allPairs_perm (fun p q => by rw [ptEq_comm]) h

/-- the full predicate (≥ 3 distinct vertices, edges meet only where they must) is shift invariant -/
theorem simple_shift (l : List (P2 ℝ)) (k : Nat) : Spec.simple (l.rotate k) = Spec.simple l := by
  unfold Spec.simple
  rw [edgesOK_shift, c15_distinct_perm (List.rotate_perm l k), List.length_rotate]

/-- … and reversal invariant: a polygon is simple in either orientation -/
theorem simple_reverse (l : List (P2 ℝ)) : Spec.simple l.reverse = Spec.simple l := by
  unfold Spec.simple
  rw [edgesOK_reverse, c15_distinct_perm (List.reverse_perm l), List.length_reverse]

/-- `_is_simple`'s translate-to-the-mean / divide-by-the-extent preparation never changes the verdict -/
theorem is_simple_normalisation_irrelevant (planar : List (V3 ℝ)) :
    isSimple planar = edgesOK (planar.map xy) := isSimple_eq planar

/-- `edgesOK` is invariant under translation and positive scaling (size and position do not matter) -/
theorem edgesOK_similarity (c : P2 ℝ) {k : ℝ} (hk : 0 < k) (l : List (P2 ℝ)) :
    edgesOK (l.map fun p => ⟨(p.x - c.x) / k, (p.y - c.y) / k⟩) = edgesOK l :=
  edgesOK_aff c hk l

/-! ## 2. `Polygon.__init__` -/

section polygon
variable (ndim ncols : Nat) (rows : List (V3 ℝ)) (normal : Option (V3 ℝ)) (ptol : ℝ) (ts : Bool)
  (align : V3 ℝ → List (V3 ℝ) → List (V3 ℝ))

/-- anything that is not an `(N,2)` / `(N,3)` array is rejected first -/
theorem polygon_new_rejects_shape (h : ndim ≠ 2 ∨ (ncols ≠ 2 ∧ ncols ≠ 3)) :
    Polygon.new ndim ncols rows normal ptol ts align = .error "ValueError:shape" := by
  unfold Polygon.new; rw [if_pos h]

/-- **fewer than three vertices are rejected** (whatever else is wrong with them) -/
theorem polygon_new_rejects_short (hs : ndim = 2 ∧ (ncols = 2 ∨ ncols = 3)) (h : rows.length < 3) :
    Polygon.new ndim ncols rows normal ptol ts align = .error "ValueError:short" := by
  unfold Polygon.new
  rw [if_neg (by omega), if_pos h]

/-- `hasDup` is exactly "two rows of the raw array are equal" -/
theorem c15_hasDup_false_iff (ncols : Nat) (rows : List (V3 ℝ)) :
    hasDup ncols rows = false ↔ rows.Pairwise (fun u v => rowEqb ncols u v = false) := by
  induction rows with
  | nil => simp [hasDup]
  | cons v vs ih =>
    simp only [hasDup, Bool.or_eq_false_iff, List.any_eq_false, List.pairwise_cons, ih, Bool.not_eq_true]

theorem c15_rowEqb_three_iff (u v : V3 ℝ) : rowEqb 3 u v = true ↔ u = v := by
  unfold rowEqb
  simp only [Bool.and_eq_true, Bool.or_eq_true, eqb_iff]
  cases u; cases v
  simp [and_assoc]

/-- **duplicate vertices are rejected** -/
theorem polygon_new_rejects_duplicates (hs : ndim = 2 ∧ (ncols = 2 ∨ ncols = 3)) (h3 : 3 ≤ rows.length)
    (hd : hasDup ncols rows = true) :
    Polygon.new ndim ncols rows normal ptol ts align = .error "ValueError:duplicate" := by
  unfold Polygon.new
  rw [if_neg (by omega), if_neg (by omega), if_pos hd]

/-- for `(N,3)` input: any repeated point is rejected, wherever it sits in the list -/
theorem polygon_new_rejects_repeated_point (h3 : 3 ≤ rows.length) (hd : ¬ rows.Nodup) :
    Polygon.new 2 3 rows normal ptol ts align = .error "ValueError:duplicate" := by
  apply polygon_new_rejects_duplicates 2 3 rows normal ptol ts align ⟨rfl, Or.inr rfl⟩ h3
  by_contra hc
  rw [Bool.not_eq_true, c15_hasDup_false_iff] at hc
  apply hd
  refine hc.imp ?_
  intro u v huv heq
  rw [← c15_rowEqb_three_iff] at heq
  rw [heq] at huv; exact Bool.noConfusion huv

theorem c15_unitize_eq_some (c : V3 ℝ) (h : V3.norm c ≠ 0) : unitize c = some (V3.sdiv c (V3.norm c)) := by
  unfold unitize
  rw [if_neg]
  rw [eqb_iff, lit_zero]; exact h

theorem c15_unitize_eq_none (c : V3 ℝ) (h : V3.norm c = 0) : unitize c = none := by
  unfold unitize
  rw [if_pos]
  rw [eqb_iff, lit_zero]; exact h

/-- the coded orthogonality test of a supplied normal, spelled out (`none` = the nan array of a degenerate
first corner or of a zero normal: nan never passes `np.isclose`) -/
theorem c15_chooseNormal_some_iff (computed : Option (V3 ℝ)) (nv : V3 ℝ) (n : Option (V3 ℝ)) :
    chooseNormal computed (some nv) = .ok n ↔
      ∃ c, computed = some c ∧ V3.norm nv ≠ 0 ∧ n = some (V3.sdiv nv (V3.norm nv)) ∧
      |(|V3.dot c (V3.sdiv nv (V3.norm nv))|) - 1| ≤ 1 / 100000000 + 1 / 100000 * |(1:ℝ)| := by
  unfold chooseNormal
  cases computed with
  | none =>
    constructor
    · intro he; cases he
    · rintro ⟨c, hc, _⟩; cases hc
  | some c =>
    dsimp only
    by_cases hz : V3.norm nv = 0
    · rw [c15_unitize_eq_none nv hz]
      constructor
      · intro he; cases he
      · rintro ⟨_, _, h, _⟩; exact absurd hz h
    · rw [c15_unitize_eq_some nv hz]
      unfold isclose rtolDefault atolDefault
      simp only [lit_one, Scalar.q, Scalar.ofNat_real, Scalar.abs_real, decide_eq_true_eq]
      split_ifs with h
      · constructor
        · intro he; injection he with he
          exact ⟨c, rfl, hz, he.symm, by push_cast at h; exact h⟩
        · rintro ⟨c', hc', _, he, _⟩; rw [he]
      · constructor
        · intro he; cases he
        · rintro ⟨c', hc', _, _, h'⟩
          injection hc' with hc'; subst hc'
          exact absurd (by push_cast; exact h') h

theorem c15_chooseNormal_none (computed : Option (V3 ℝ)) : chooseNormal computed none = .ok computed := rfl

/-- **the coded coplanarity test (744f807), spelled out**: every vertex within `planar_tolerance · extent` of the
plane through vertex 0, `extent` = the largest distance of a vertex from vertex 0 -/
theorem c15_coplanar_iff (n : V3 ℝ) (verts : List (V3 ℝ)) (ptol : ℝ) :
    coplanarRel n verts ptol = true ↔
      ∀ v ∈ verts, |V3.dot (v - verts.getD 0 V3.zero) n| ≤ ptol * planarExtent verts :=
  coplanarRel_iff n verts ptol

/-- the loop BEFORE 744f807, spelled out: every vertex within `1e-8 + planar_tolerance·|d|` of the plane
`n·x = d` through vertex 0 — `d` is the distance of the plane from the ORIGIN -/
theorem c15_coplanar_before_fix_iff (n : V3 ℝ) (verts : List (V3 ℝ)) (ptol : ℝ) :
    coplanar n verts ptol = true ↔
      ∀ v ∈ verts, |V3.dot n v - V3.dot n (verts.getD 0 V3.zero)|
        ≤ 1 / 100000000 + ptol * |V3.dot n (verts.getD 0 V3.zero)| := by
  unfold coplanar isclose atolDefault
  simp only [List.all_eq_true, decide_eq_true_eq, Scalar.q, Scalar.ofNat_real, Scalar.abs_real]
  push_cast
  exact Iff.rfl

/-- **The decision logic of `Polygon.__init__`.** The constructor accepts iff the input is an `(N,2)`/`(N,3)`
array of at least three pairwise different rows, the normal (first corner, or the supplied one passing the
orthogonality test) passes the coded coplanarity test on every vertex and — when `test_simple` — the aligned
vertices form a cycle whose edges meet only where they must. The stored arrays are new ones. -/
theorem polygon_new_accepts_iff (p : Poly ℝ) :
    Polygon.new ndim ncols rows normal ptol ts align = .ok p ↔
      ndim = 2 ∧ (ncols = 2 ∨ ncols = 3) ∧ 3 ≤ rows.length ∧ hasDup ncols rows = false ∧
      chooseNormal (cornerNormal (rows.map (pad ncols))) normal = .ok (some p.normal) ∧
      coplanarRel p.normal (rows.map (pad ncols)) ptol = true ∧
      (ts = true → edgesOK ((align p.normal (rows.map (pad ncols))).map xy) = true) ∧
      p = ⟨rows.map (pad ncols), p.normal, .fresh, .fresh⟩ := by
  unfold Polygon.new
  by_cases h1 : ndim ≠ 2 ∨ (ncols ≠ 2 ∧ ncols ≠ 3)
  · rw [if_pos h1]
    constructor
    · intro h; cases h
    · rintro ⟨h, h', _⟩; exfalso; omega
  rw [if_neg h1]
  by_cases h2 : rows.length < 3
  · rw [if_pos h2]
    constructor
    · intro h; cases h
    · rintro ⟨_, _, h, _⟩; exfalso; omega
  rw [if_neg h2]
  by_cases h3 : hasDup ncols rows = true
  · rw [if_pos h3]
    constructor
    · intro h; cases h
    · rintro ⟨_, _, _, h, _⟩; rw [h3] at h; cases h
  rw [if_neg h3]
  have h1' : ndim = 2 ∧ (ncols = 2 ∨ ncols = 3) := by omega
  simp only
  cases hn : chooseNormal (cornerNormal (rows.map (pad ncols))) normal with
  | error e =>
    simp only
    constructor
    · intro h; cases h
    · rintro ⟨_, _, _, _, h, _⟩; cases h
  | ok n' =>
   cases n' with
   | none =>
    simp only
    constructor
    · intro h; cases h
    · rintro ⟨_, _, _, _, h, _⟩; cases h
   | some n =>
    simp only [isSimple_eq]
    by_cases h4 : coplanarRel n (rows.map (pad ncols)) ptol = true
    · by_cases h5 : ts = true ∧ edgesOK ((align n (rows.map (pad ncols))).map xy) = false
      · obtain ⟨h5a, h5b⟩ := h5
        simp only [h4, h5a, h5b, Bool.not_true, Bool.not_false, Bool.and_self, Bool.false_eq_true, if_false,
          if_true]
        constructor
        · intro h; cases h
        · rintro ⟨_, _, _, _, h, _, h', _⟩
          injection h with h; injection h with h; subst h
          rw [h' trivial] at h5b; cases h5b
      · have h5' : (ts && !edgesOK ((align n (rows.map (pad ncols))).map xy)) = false := by
          cases ts <;> simp_all
        simp only [h4, h5', Bool.not_true, Bool.false_eq_true, if_false]
        constructor
        · intro h; injection h with h; subst h
          refine ⟨h1'.1, h1'.2, by omega, by simpa using h3, rfl, h4, ?_, rfl⟩
          intro hts
          cases hts
          simpa using h5'
        · rintro ⟨_, _, _, _, h, _, _, hp⟩
          injection h with h; injection h with h; subst h
          rw [hp]
    · simp only [h4, Bool.not_false, if_true]
      constructor
      · intro h; cases h
      · rintro ⟨_, _, _, _, h, h', _⟩
        injection h with h; injection h with h; subst h
        exact absurd h' h4

/-- an accepted polygon never holds the caller's arrays -/
theorem polygon_new_fresh (p : Poly ℝ) (h : Polygon.new ndim ncols rows normal ptol ts align = .ok p) :
    p.verticesSrc = .fresh ∧ p.normalSrc = .fresh := by
  have := (polygon_new_accepts_iff ndim ncols rows normal ptol ts align p).1 h
  obtain ⟨_, _, _, _, _, _, _, hp⟩ := this
  rw [hp]; exact ⟨rfl, rfl⟩

end polygon

/-! ### the sweep may fail an internal assertion (b73b691: caught, "not simple") -/

theorem c15_isSimpleSweep_eq (asserts : List (P2 ℝ) → Bool) (planar : List (V3 ℝ)) :
    isSimpleSweep asserts planar = (!asserts (normalise (planar.map xy)) && isSimple planar) := by
  unfold isSimpleSweep isSimple
  simp only
  cases h : asserts (normalise (planar.map xy)) <;> simp [h]

theorem c15_chooseNormal_error (computed : Option (V3 ℝ)) (nv : V3 ℝ) (e : String)
    (h : chooseNormal computed (some nv) = .error e) : e = "ValueError:normal" := by
  unfold chooseNormal at h
  simp only at h
  cases computed with
  | none => simp only at h; injection h with h; exact h.symm
  | some c =>
    cases hu : unitize nv with
    | none => rw [hu] at h; simp only at h; injection h with h; exact h.symm
    | some nn =>
      rw [hu] at h; simp only at h
      split_ifs at h
      injection h with h; exact h.symm

/-- the model with the sweep's assertion accepts exactly when the model with a normally returning sweep accepts AND the
sweep does not assert on the prepared (aligned, centred, normalised) vertices -/
theorem polygon_newSweep_ok_iff (ndim ncols : Nat) (rows : List (V3 ℝ)) (normal : Option (V3 ℝ)) (ptol : ℝ) (ts : Bool)
    (align : V3 ℝ → List (V3 ℝ) → List (V3 ℝ)) (asserts : List (P2 ℝ) → Bool) (p : Poly ℝ) :
    Polygon.newSweep ndim ncols rows normal ptol ts align asserts = .ok p ↔
      Polygon.new ndim ncols rows normal ptol ts align = .ok p ∧
      (ts = true → asserts (normalise ((align p.normal (rows.map (pad ncols))).map xy)) = false) := by
  unfold Polygon.newSweep Polygon.new
  by_cases h1 : ndim ≠ 2 ∨ (ncols ≠ 2 ∧ ncols ≠ 3)
  · rw [if_pos h1, if_pos h1]; constructor
    · intro h; cases h
    · rintro ⟨h, _⟩; cases h
  rw [if_neg h1, if_neg h1]
  by_cases h2 : rows.length < 3
  · rw [if_pos h2, if_pos h2]; constructor
    · intro h; cases h
    · rintro ⟨h, _⟩; cases h
  rw [if_neg h2, if_neg h2]
  by_cases h3 : hasDup ncols rows = true
  · rw [if_pos h3, if_pos h3]; constructor
    · intro h; cases h
    · rintro ⟨h, _⟩; cases h
  rw [if_neg h3, if_neg h3]
  simp only
  cases hn : chooseNormal (cornerNormal (rows.map (pad ncols))) normal with
  | error e =>
    simp only; constructor
    · intro h; cases h
    · rintro ⟨h, _⟩; cases h
  | ok n' =>
    cases n' with
    | none =>
      simp only; constructor
      · intro h; cases h
      · rintro ⟨h, _⟩; cases h
    | some n =>
      simp only [c15_isSimpleSweep_eq]
      by_cases h4 : coplanarRel n (rows.map (pad ncols)) ptol = true
      · simp only [h4, Bool.not_true, Bool.false_eq_true, if_false]
        cases ts
        · simp
        · cases hA : asserts (normalise ((align n (rows.map (pad ncols))).map xy)) <;>
            cases hS : isSimple (align n (rows.map (pad ncols))) <;> simp [hA, hS]
          · intro hp; rw [← hp]; exact hA
          · intro hp; rw [← hp]; simp [hA]
      · simp only [h4, Bool.not_false, if_true]; constructor
        · intro h; cases h
        · rintro ⟨h, _⟩; cases h

/-- **The decision logic of `Polygon.__init__` with the repaired `_is_simple`** ("assertion ⇒ reject"): accept iff the
conjunction of `polygon_new_accepts_iff` holds AND — when `test_simple` — the sweep does not fail an internal assertion
on the prepared vertices. -/
theorem polygon_new_accepts_iff_sweep (ndim ncols : Nat) (rows : List (V3 ℝ)) (normal : Option (V3 ℝ)) (ptol : ℝ)
    (ts : Bool) (align : V3 ℝ → List (V3 ℝ) → List (V3 ℝ)) (asserts : List (P2 ℝ) → Bool) (p : Poly ℝ) :
    Polygon.newSweep ndim ncols rows normal ptol ts align asserts = .ok p ↔
      ndim = 2 ∧ (ncols = 2 ∨ ncols = 3) ∧ 3 ≤ rows.length ∧ hasDup ncols rows = false ∧
      chooseNormal (cornerNormal (rows.map (pad ncols))) normal = .ok (some p.normal) ∧
      coplanarRel p.normal (rows.map (pad ncols)) ptol = true ∧
      (ts = true → asserts (normalise ((align p.normal (rows.map (pad ncols))).map xy)) = false ∧
        edgesOK ((align p.normal (rows.map (pad ncols))).map xy) = true) ∧
      p = ⟨rows.map (pad ncols), p.normal, .fresh, .fresh⟩ := by
  rw [polygon_newSweep_ok_iff, polygon_new_accepts_iff]
  constructor
  · rintro ⟨⟨a, b, c, d, e, f, g, h⟩, ha⟩
    exact ⟨a, b, c, d, e, f, fun t => ⟨ha t, g t⟩, h⟩
  · rintro ⟨a, b, c, d, e, f, g, h⟩
    exact ⟨⟨a, b, c, d, e, f, fun t => (g t).2, h⟩, fun t => (g t).1⟩

/-- **assertion ⇒ reject**: a sweep that asserts on the prepared vertices makes `Polygon(..., test_simple=True)`
raise — never return an object -/
theorem polygon_newSweep_assertion_rejects (ndim ncols : Nat) (rows : List (V3 ℝ)) (normal : Option (V3 ℝ)) (ptol : ℝ)
    (align : V3 ℝ → List (V3 ℝ) → List (V3 ℝ)) (asserts : List (P2 ℝ) → Bool) (ha : ∀ pts, asserts pts = true)
    (p : Poly ℝ) : Polygon.newSweep ndim ncols rows normal ptol true align asserts ≠ .ok p := by
  intro h
  have := ((polygon_newSweep_ok_iff ndim ncols rows normal ptol true align asserts p).1 h).2 rfl
  rw [ha] at this; exact Bool.noConfusion this

/-- a sweep that returns normally (or is not run) gives the model all other theorems speak about -/
theorem polygon_newSweep_eq_new (ndim ncols : Nat) (rows : List (V3 ℝ)) (normal : Option (V3 ℝ)) (ptol : ℝ) (ts : Bool)
    (align : V3 ℝ → List (V3 ℝ) → List (V3 ℝ)) (asserts : List (P2 ℝ) → Bool)
    (h : ts = false ∨ ∀ pts, asserts pts = false) :
    Polygon.newSweep ndim ncols rows normal ptol ts align asserts = Polygon.new ndim ncols rows normal ptol ts align := by
  unfold Polygon.newSweep Polygon.new
  have key : ∀ pl, (ts && !isSimpleSweep asserts pl) = (ts && !isSimple pl) := by
    intro pl
    rcases h with h | h
    · subst h; rfl
    · rw [c15_isSimpleSweep_eq, h]; simp
  simp only [key]

/-- **"either an object or ValueError" for Polygon**: every way the model can fail is one of the six ValueErrors -/
theorem polygon_newSweep_error_is_valueerror (ndim ncols : Nat) (rows : List (V3 ℝ)) (normal : Option (V3 ℝ)) (ptol : ℝ)
    (ts : Bool) (align : V3 ℝ → List (V3 ℝ) → List (V3 ℝ)) (asserts : List (P2 ℝ) → Bool) (e : String)
    (h : Polygon.newSweep ndim ncols rows normal ptol ts align asserts = .error e) :
    e ∈ ["ValueError:shape", "ValueError:short", "ValueError:duplicate", "ValueError:normal", "ValueError:coplanar",
      "ValueError:simple"] := by
  unfold Polygon.newSweep at h
  split_ifs at h with h1 h2 h3
  · injection h with h; subst h; simp
  · injection h with h; subst h; simp
  · injection h with h; subst h; simp
  · simp only at h
    cases normal with
    | none =>
      rw [c15_chooseNormal_none] at h
      cases hc : cornerNormal (rows.map (pad ncols)) with
      | none => rw [hc] at h; injection h with h; subst h; simp
      | some n =>
        rw [hc] at h
        simp only at h
        split_ifs at h <;> injection h with h <;> subst h <;> simp
    | some nv =>
      cases hn : chooseNormal (cornerNormal (rows.map (pad ncols))) (some nv) with
      | error e' =>
        rw [hn] at h; injection h with h; subst h
        rw [c15_chooseNormal_error _ _ _ hn]; simp
      | ok n' =>
        rw [hn] at h
        cases n' with
        | none => injection h with h; subst h; simp
        | some n =>
          simp only at h
          split_ifs at h <;> injection h with h <;> subst h <;> simp

/-! ### either orientation, any start vertex -/

theorem c15_rowEqb_comm (ncols : Nat) (u v : V3 ℝ) : rowEqb ncols u v = rowEqb ncols v u := by
  unfold rowEqb; rw [eqb_comm u.x, eqb_comm u.y, eqb_comm u.z]

theorem c15_hasDup_perm (ncols : Nat) {l l' : List (V3 ℝ)} (h : l.Perm l') : hasDup ncols l = hasDup ncols l' := by
  have key : ∀ m : List (V3 ℝ), hasDup ncols m = !decide (m.Pairwise (fun u v => rowEqb ncols u v = false)) := by
    intro m
    cases hm : hasDup ncols m
    · rw [c15_hasDup_false_iff] at hm; simp [hm]
    · have : ¬ m.Pairwise (fun u v => rowEqb ncols u v = false) := by
        rw [← c15_hasDup_false_iff, hm]; simp
      simp [this]
  rw [key l, key l']
  congr 2
  exact propext (h.pairwise_iff (fun {x y} hxy => by rw [c15_rowEqb_comm]; exact hxy))

/-- Transport of acceptance along any re-listing `T` of the vertex cycle that permutes the list, commutes with
`map` and preserves `edgesOK` (instances below: reversal, cyclic shift). Hypotheses: a normal is supplied; the
alignment acts point by point (`np.dot(points, rotation.T)` with a rotation depending on the normal only); the
vertices are exactly coplanar with respect to the stored normal; the first corner of the re-listed cycle passes
the orthogonality test. -/
theorem polygon_new_transport
    (T : ∀ {γ : Type}, List γ → List γ)
    (hperm : ∀ {γ : Type} (l : List γ), (T l).Perm l)
    (hmap : ∀ {γ δ : Type} (f : γ → δ) (l : List γ), T (l.map f) = (T l).map f)
    (hedges : ∀ l : List (P2 ℝ), edgesOK (T l) = edgesOK l)
    (ncols : Nat) (rows : List (V3 ℝ)) (nv : V3 ℝ) (ptol : ℝ) (align : V3 ℝ → List (V3 ℝ) → List (V3 ℝ))
    (R : V3 ℝ → V3 ℝ → V3 ℝ) (hal : ∀ n vs, align n vs = vs.map (R n))
    (p : Poly ℝ) (hacc : Polygon.new 2 ncols rows (some nv) ptol true align = .ok p)
    (hplanar : ∀ v ∈ p.vertices, ∀ w ∈ p.vertices, V3.dot p.normal v = V3.dot p.normal w)
    (hptol : 0 ≤ ptol)
    (hcorner : chooseNormal (cornerNormal ((T rows).map (pad ncols))) (some nv) = .ok (some p.normal)) :
    Polygon.new 2 ncols (T rows) (some nv) ptol true align = .ok ⟨T p.vertices, p.normal, .fresh, .fresh⟩ := by
  obtain ⟨_, hc, h3, hd, _, _, hs, hp⟩ := (polygon_new_accepts_iff 2 ncols rows (some nv) ptol true align p).1 hacc
  have hv : p.vertices = rows.map (pad ncols) := by rw [hp]
  rw [polygon_new_accepts_iff]
  have hTv : (T rows).map (pad ncols) = T p.vertices := by rw [hv, hmap]
  refine ⟨rfl, hc, ?_, ?_, hcorner, ?_, ?_, ?_⟩
  · rw [(hperm rows).length_eq]; exact h3
  · rw [c15_hasDup_perm ncols (hperm rows)]; exact hd
  · show coplanarRel p.normal ((T rows).map (pad ncols)) ptol = true
    rw [hTv]
    exact coplanarRel_of_planar _ _ hptol
      (fun v hv' w hw' => hplanar v ((hperm p.vertices).mem_iff.1 hv') w ((hperm p.vertices).mem_iff.1 hw'))
  · intro _
    show edgesOK ((align p.normal ((T rows).map (pad ncols))).map xy) = true
    have := hs rfl
    rw [hal, List.map_map] at this
    rw [hal, List.map_map, ← hmap (pad ncols), ← hmap (xy ∘ R p.normal), hedges]
    exact this
  · show (⟨T p.vertices, p.normal, .fresh, .fresh⟩ : Poly ℝ) = ⟨(T rows).map (pad ncols), p.normal, .fresh, .fresh⟩
    rw [hTv]

/-- **Either orientation.** A polygon accepted with a supplied normal is accepted with its vertices listed in
the opposite direction (exactly planar vertices; the new first corner must pass the orthogonality test, as it
does whenever it is not degenerate). -/
theorem polygon_new_reverse (ncols : Nat) (rows : List (V3 ℝ)) (nv : V3 ℝ) (ptol : ℝ)
    (align : V3 ℝ → List (V3 ℝ) → List (V3 ℝ)) (R : V3 ℝ → V3 ℝ → V3 ℝ)
    (hal : ∀ n vs, align n vs = vs.map (R n))
    (p : Poly ℝ) (hacc : Polygon.new 2 ncols rows (some nv) ptol true align = .ok p)
    (hplanar : ∀ v ∈ p.vertices, ∀ w ∈ p.vertices, V3.dot p.normal v = V3.dot p.normal w)
    (hptol : 0 ≤ ptol)
    (hcorner : chooseNormal (cornerNormal (rows.reverse.map (pad ncols))) (some nv) = .ok (some p.normal)) :
    Polygon.new 2 ncols rows.reverse (some nv) ptol true align
      = .ok ⟨p.vertices.reverse, p.normal, .fresh, .fresh⟩ :=
  polygon_new_transport (fun l => l.reverse) (fun l => List.reverse_perm l)
    (fun _ _ => (List.map_reverse).symm) edgesOK_reverse ncols rows nv ptol align R hal p hacc hplanar hptol
    hcorner

/-- **Any start vertex.** Same for every cyclic shift of the vertex list. -/
theorem polygon_new_shift (k : Nat) (ncols : Nat) (rows : List (V3 ℝ)) (nv : V3 ℝ) (ptol : ℝ)
    (align : V3 ℝ → List (V3 ℝ) → List (V3 ℝ)) (R : V3 ℝ → V3 ℝ → V3 ℝ)
    (hal : ∀ n vs, align n vs = vs.map (R n))
    (p : Poly ℝ) (hacc : Polygon.new 2 ncols rows (some nv) ptol true align = .ok p)
    (hplanar : ∀ v ∈ p.vertices, ∀ w ∈ p.vertices, V3.dot p.normal v = V3.dot p.normal w)
    (hptol : 0 ≤ ptol)
    (hcorner : chooseNormal (cornerNormal ((rows.rotate k).map (pad ncols))) (some nv) = .ok (some p.normal)) :
    Polygon.new 2 ncols (rows.rotate k) (some nv) ptol true align
      = .ok ⟨p.vertices.rotate k, p.normal, .fresh, .fresh⟩ :=
  polygon_new_transport (fun l => l.rotate k) (fun l => List.rotate_perm l k)
    (fun f l => (List.map_rotate f l k).symm) (fun l => edgesOK_shift l k) ncols rows nv ptol align R hal p
    hacc hplanar hptol hcorner

/-- for `u, w ⟂ n`, `|n| = 1`: `u × w` is parallel to `n` — `|u × w|² = ((u × w)·n)²` -/
theorem c15_cross_parallel (n u w : V3 ℝ) (hn : V3.dot n n = 1) (hu : V3.dot n u = 0) (hw : V3.dot n w = 0) :
    V3.dot (V3.cross u w) (V3.cross u w) = (V3.dot (V3.cross u w) n) ^ 2 := by
  obtain ⟨nx, ny, nz⟩ := n; obtain ⟨ux, uy, uz⟩ := u; obtain ⟨wx, wy, wz⟩ := w
  simp only [V3.dot, V3.cross] at *
  linear_combination
    (-((uy * wz - uz * wy) ^ 2 + (uz * wx - ux * wz) ^ 2 + (ux * wy - uy * wx) ^ 2)) * hn
    + ((nx * ux + ny * uy + nz * uz) * (wx * wx + wy * wy + wz * wz)
        - 2 * (nx * wx + ny * wy + nz * wz) * (ux * wx + uy * wy + uz * wz)) * hu
    + ((nx * wx + ny * wy + nz * wz) * (ux * ux + uy * uy + uz * uz)) * hw

theorem c15_dot_sdiv (a n : V3 ℝ) (k : ℝ) : V3.dot (V3.sdiv a k) n = V3.dot a n / k := by
  simp only [V3.dot, V3.sdiv]; ring

theorem c15_unit_of_sdiv (nv : V3 ℝ) (h : V3.norm nv ≠ 0) :
    V3.dot (V3.sdiv nv (V3.norm nv)) (V3.sdiv nv (V3.norm nv)) = 1 := by
  have hnn : 0 ≤ V3.dot nv nv := by
    simp only [V3.dot]; nlinarith [mul_self_nonneg nv.x, mul_self_nonneg nv.y, mul_self_nonneg nv.z]
  have hsq : V3.norm nv * V3.norm nv = V3.dot nv nv := by
    unfold V3.norm V3.normSq; rw [Scalar.sqrt_real]; exact Real.mul_self_sqrt hnn
  simp only [V3.dot, V3.sdiv] at hsq ⊢
  field_simp
  linarith

/-- a non-degenerate corner of vertices lying in a plane `n·x = const` (`|n| = 1`) yields ±n exactly -/
theorem c15_cornerNormal_dot_abs (verts : List (V3 ℝ)) (n : V3 ℝ) (hn : V3.dot n n = 1)
    (h01 : V3.dot n (verts.getD 0 V3.zero) = V3.dot n (verts.getD 1 V3.zero))
    (h21 : V3.dot n (verts.getD 2 V3.zero) = V3.dot n (verts.getD 1 V3.zero))
    (hnd : V3.norm (cornerCross verts) ≠ 0) :
    |V3.dot (V3.sdiv (cornerCross verts) (V3.norm (cornerCross verts))) n| = 1 := by
  unfold cornerCross at *
  simp only at *
  generalize verts.getD 0 V3.zero = v0 at *
  generalize verts.getD 1 V3.zero = v1 at *
  generalize verts.getD 2 V3.zero = v2 at *
  have hu : V3.dot n (v2 - v1) = 0 := by
    have : V3.dot n (v2 - v1) = V3.dot n v2 - V3.dot n v1 := by simp only [V3.dot, V3.sub_x, V3.sub_y, V3.sub_z]; ring
    rw [this, h21, sub_self]
  have hw : V3.dot n (v0 - v1) = 0 := by
    have : V3.dot n (v0 - v1) = V3.dot n v0 - V3.dot n v1 := by simp only [V3.dot, V3.sub_x, V3.sub_y, V3.sub_z]; ring
    rw [this, h01, sub_self]
  have key := c15_cross_parallel n _ _ hn hu hw
  rw [c15_dot_sdiv]
  have hk : V3.norm (V3.cross (v2 - v1) (v0 - v1)) = |V3.dot (V3.cross (v2 - v1) (v0 - v1)) n| := by
    unfold V3.norm V3.normSq
    rw [Scalar.sqrt_real, key, Real.sqrt_sq_eq_abs]
  rw [abs_div, hk, abs_abs]
  rw [hk] at hnd
  exact div_self hnd

/-- the orthogonality test of a supplied normal PASSES whenever the first three vertices lie in a plane
orthogonal to it and the first corner is not degenerate (so the hypothesis `hcorner` of the transport
theorems is automatic for non-degenerate corners). -/
theorem c15_chooseNormal_of_planar (verts : List (V3 ℝ)) (nv : V3 ℝ) (hnv : V3.norm nv ≠ 0)
    (h01 : V3.dot (V3.sdiv nv (V3.norm nv)) (verts.getD 0 V3.zero)
      = V3.dot (V3.sdiv nv (V3.norm nv)) (verts.getD 1 V3.zero))
    (h21 : V3.dot (V3.sdiv nv (V3.norm nv)) (verts.getD 2 V3.zero)
      = V3.dot (V3.sdiv nv (V3.norm nv)) (verts.getD 1 V3.zero))
    (hnd : V3.norm (cornerCross verts) ≠ 0) :
    chooseNormal (cornerNormal verts) (some nv) = .ok (some (V3.sdiv nv (V3.norm nv))) := by
  rw [c15_chooseNormal_some_iff]
  refine ⟨_, c15_unitize_eq_some _ hnd, hnv, rfl, ?_⟩
  rw [c15_cornerNormal_dot_abs verts _ (c15_unit_of_sdiv nv hnv) h01 h21 hnd]
  norm_num

theorem c15_getD_mem_of_three {γ : Type} (l : List γ) (d : γ) (h : 3 ≤ l.length) :
    l.getD 0 d ∈ l ∧ l.getD 1 d ∈ l ∧ l.getD 2 d ∈ l := by
  match l, h with
  | a :: b :: c :: t, _ => simp

/-- **Either orientation, any start vertex — without the corner hypothesis.** A polygon accepted with a
supplied (non-zero) normal, whose vertices are exactly coplanar with respect to the stored normal, is accepted
again after any re-listing `T` of the cycle (reversal, cyclic shift) whose new first corner is not degenerate. -/
theorem polygon_new_transport_planar
    (T : ∀ {γ : Type}, List γ → List γ)
    (hperm : ∀ {γ : Type} (l : List γ), (T l).Perm l)
    (hmap : ∀ {γ δ : Type} (f : γ → δ) (l : List γ), T (l.map f) = (T l).map f)
    (hedges : ∀ l : List (P2 ℝ), edgesOK (T l) = edgesOK l)
    (ncols : Nat) (rows : List (V3 ℝ)) (nv : V3 ℝ) (ptol : ℝ) (align : V3 ℝ → List (V3 ℝ) → List (V3 ℝ))
    (R : V3 ℝ → V3 ℝ → V3 ℝ) (hal : ∀ n vs, align n vs = vs.map (R n))
    (p : Poly ℝ) (hacc : Polygon.new 2 ncols rows (some nv) ptol true align = .ok p)
    (hplanar : ∀ v ∈ p.vertices, ∀ w ∈ p.vertices, V3.dot p.normal v = V3.dot p.normal w)
    (hptol : 0 ≤ ptol) (hnv : V3.norm nv ≠ 0)
    (hnd : V3.norm (cornerCross (T p.vertices)) ≠ 0) :
    Polygon.new 2 ncols (T rows) (some nv) ptol true align = .ok ⟨T p.vertices, p.normal, .fresh, .fresh⟩ := by
  obtain ⟨_, _, h3, _, hn, _, _, hp⟩ := (polygon_new_accepts_iff 2 ncols rows (some nv) ptol true align p).1 hacc
  have hv : p.vertices = rows.map (pad ncols) := by rw [hp]
  have hTv : (T rows).map (pad ncols) = T p.vertices := by rw [hv, hmap]
  have hnormal : p.normal = V3.sdiv nv (V3.norm nv) := by
    obtain ⟨_, _, _, h, _⟩ := (c15_chooseNormal_some_iff _ _ _).1 hn
    injection h
  apply polygon_new_transport T hperm hmap hedges ncols rows nv ptol align R hal p hacc hplanar hptol
  rw [hTv, hnormal]
  have hlen : 3 ≤ (T p.vertices).length := by
    rw [(hperm p.vertices).length_eq, hv, List.length_map]; exact h3
  obtain ⟨m0, m1, m2⟩ := c15_getD_mem_of_three (T p.vertices) V3.zero hlen
  have mem : ∀ x, x ∈ T p.vertices → x ∈ p.vertices := fun x hx => (hperm p.vertices).mem_iff.1 hx
  apply c15_chooseNormal_of_planar _ _ hnv
  · rw [← hnormal]; exact hplanar _ (mem _ m0) _ (mem _ m1)
  · rw [← hnormal]; exact hplanar _ (mem _ m2) _ (mem _ m1)
  · exact hnd

/-- **a simple planar polygon is accepted in either orientation** (supplied normal, exactly planar vertices,
non-degenerate new first corner) -/
theorem polygon_new_reverse_planar (ncols : Nat) (rows : List (V3 ℝ)) (nv : V3 ℝ) (ptol : ℝ)
    (align : V3 ℝ → List (V3 ℝ) → List (V3 ℝ)) (R : V3 ℝ → V3 ℝ → V3 ℝ)
    (hal : ∀ n vs, align n vs = vs.map (R n))
    (p : Poly ℝ) (hacc : Polygon.new 2 ncols rows (some nv) ptol true align = .ok p)
    (hplanar : ∀ v ∈ p.vertices, ∀ w ∈ p.vertices, V3.dot p.normal v = V3.dot p.normal w)
    (hptol : 0 ≤ ptol) (hnv : V3.norm nv ≠ 0)
    (hnd : V3.norm (cornerCross p.vertices.reverse) ≠ 0) :
    Polygon.new 2 ncols rows.reverse (some nv) ptol true align
      = .ok ⟨p.vertices.reverse, p.normal, .fresh, .fresh⟩ :=
  polygon_new_transport_planar (fun l => l.reverse) (fun l => List.reverse_perm l)
    (fun _ _ => (List.map_reverse).symm) edgesOK_reverse ncols rows nv ptol align R hal p hacc hplanar hptol
    hnv hnd

/-- … and from any start vertex -/
theorem polygon_new_shift_planar (k : Nat) (ncols : Nat) (rows : List (V3 ℝ)) (nv : V3 ℝ) (ptol : ℝ)
    (align : V3 ℝ → List (V3 ℝ) → List (V3 ℝ)) (R : V3 ℝ → V3 ℝ → V3 ℝ)
    (hal : ∀ n vs, align n vs = vs.map (R n))
    (p : Poly ℝ) (hacc : Polygon.new 2 ncols rows (some nv) ptol true align = .ok p)
    (hplanar : ∀ v ∈ p.vertices, ∀ w ∈ p.vertices, V3.dot p.normal v = V3.dot p.normal w)
    (hptol : 0 ≤ ptol) (hnv : V3.norm nv ≠ 0)
    (hnd : V3.norm (cornerCross (p.vertices.rotate k)) ≠ 0) :
    Polygon.new 2 ncols (rows.rotate k) (some nv) ptol true align
      = .ok ⟨p.vertices.rotate k, p.normal, .fresh, .fresh⟩ :=
  polygon_new_transport_planar (fun l => l.rotate k) (fun l => List.rotate_perm l k)
    (fun f l => (List.map_rotate f l k).symm) (fun l => edgesOK_shift l k) ncols rows nv ptol align R hal p
    hacc hplanar hptol hnv hnd

theorem c15_map_pad_three (rows : List (V3 ℝ)) : rows.map (pad 3) = rows := by
  have : (pad 3 : V3 ℝ → V3 ℝ) = id := by funext v; simp [pad]
  rw [this, List.map_id]

/-- for `u, w ⟂ n`, `|n| = 1`: `u × w = ((u × w)·n) n` -/
theorem c15_cross_eq_smul (n u w : V3 ℝ) (hn : V3.dot n n = 1) (hu : V3.dot n u = 0) (hw : V3.dot n w = 0) :
    V3.cross u w = V3.smul (V3.dot (V3.cross u w) n) n := by
  obtain ⟨nx, ny, nz⟩ := n; obtain ⟨ux, uy, uz⟩ := u; obtain ⟨wx, wy, wz⟩ := w
  simp only [V3.dot, V3.cross, V3.smul] at *
  congr 1
  · linear_combination (-(uy * wz - uz * wy)) * hn + (ny * wz - nz * wy) * hu - (ny * uz - nz * uy) * hw
  · linear_combination (-(uz * wx - ux * wz)) * hn + (nz * wx - nx * wz) * hu - (nz * ux - nx * uz) * hw
  · linear_combination (-(ux * wy - uy * wx)) * hn + (nx * wy - ny * wx) * hu - (nx * uy - ny * ux) * hw

theorem c15_dot_smul_left (k : ℝ) (a v : V3 ℝ) : V3.dot (V3.smul k a) v = k * V3.dot a v := by
  simp only [V3.dot, V3.smul]; ring

/-- **`polygon_accepts_simple_planar_partial`** — the acceptance half of the property for `(N,3)` input without a
supplied normal: ≥ 3 pairwise different vertices lying exactly in a plane `n·x = const`, a NON-DEGENERATE first
corner and a cycle whose (aligned) edges meet only where they must ⇒ the constructor accepts, stores the
vertices unchanged and `±n` as normal.  `_partial`: the non-degenerate first corner cannot be dropped
(`polygon_accepts_every_simple_planar_fails`), and simplicity is assumed for the aligned vertices (the kabsch
rotation is a parameter). -/
theorem polygon_accepts_simple_planar_partial (rows : List (V3 ℝ)) (n : V3 ℝ) (ptol : ℝ)
    (align : V3 ℝ → List (V3 ℝ) → List (V3 ℝ))
    (hn : V3.dot n n = 1) (hplanar : ∀ v ∈ rows, ∀ w ∈ rows, V3.dot n v = V3.dot n w)
    (h3 : 3 ≤ rows.length) (hd : rows.Nodup) (hnd : V3.norm (cornerCross rows) ≠ 0) (hptol : 0 ≤ ptol)
    (hs : ∀ m, edgesOK ((align m rows).map xy) = true) :
    ∃ p, Polygon.new 2 3 rows none ptol true align = .ok p ∧ p.vertices = rows ∧
      (∀ v ∈ rows, ∀ w ∈ rows, V3.dot p.normal v = V3.dot p.normal w) := by
  obtain ⟨m0, m1, m2⟩ := c15_getD_mem_of_three rows V3.zero h3
  set a := cornerCross rows with ha
  have hsub : ∀ x y : V3 ℝ, V3.dot n (x - y) = V3.dot n x - V3.dot n y := by
    intro x y; simp only [V3.dot, V3.sub_x, V3.sub_y, V3.sub_z]; ring
  have hpar : a = V3.smul (V3.dot a n) n := by
    rw [ha]; unfold cornerCross
    apply c15_cross_eq_smul n _ _ hn
    · rw [hsub, hplanar _ m2 _ m1, sub_self]
    · rw [hsub, hplanar _ m0 _ m1, sub_self]
  set nn := V3.sdiv a (V3.norm a) with hnn
  have hdot : ∀ v, V3.dot nn v = V3.dot a n / V3.norm a * V3.dot n v := by
    intro v
    rw [hnn, c15_dot_sdiv, hpar, c15_dot_smul_left]
    rw [← hpar]; ring
  have hconst : ∀ v ∈ rows, ∀ w ∈ rows, V3.dot nn v = V3.dot nn w := by
    intro v hv w hw; rw [hdot, hdot, hplanar v hv w hw]
  refine ⟨⟨rows, nn, .fresh, .fresh⟩, ?_, rfl, hconst⟩
  rw [polygon_new_accepts_iff]
  refine ⟨rfl, Or.inr rfl, h3, ?_, ?_, ?_, ?_, ?_⟩
  · rw [c15_hasDup_false_iff]
    refine hd.imp ?_
    intro u v huv
    by_contra hc
    rw [Bool.not_eq_false, c15_rowEqb_three_iff] at hc
    exact huv hc
  · rw [c15_map_pad_three, c15_chooseNormal_none]
    unfold cornerNormal
    rw [c15_unitize_eq_some _ hnd]
  · rw [c15_map_pad_three]
    exact coplanarRel_of_planar nn rows hptol hconst
  · intro _; rw [c15_map_pad_three]; exact hs _
  · rw [c15_map_pad_three]

/-- **A degenerate first corner is rejected whatever the rest of the polygon is**: three collinear leading
vertices give `cross = 0`, `0/0 = nan`, and nan passes no `np.isclose` — "Not all vertices are coplanar"
(no normal supplied) or "normal is not orthogonal" (normal supplied). -/
theorem polygon_new_rejects_degenerate_corner (ndim ncols : Nat) (rows : List (V3 ℝ)) (ptol : ℝ) (ts : Bool)
    (align : V3 ℝ → List (V3 ℝ) → List (V3 ℝ))
    (hs : ndim = 2 ∧ (ncols = 2 ∨ ncols = 3)) (h3 : 3 ≤ rows.length) (hd : hasDup ncols rows = false)
    (hdeg : V3.norm (cornerCross (rows.map (pad ncols))) = 0) :
    Polygon.new ndim ncols rows none ptol ts align = .error "ValueError:coplanar" ∧
    ∀ nv, Polygon.new ndim ncols rows (some nv) ptol ts align = .error "ValueError:normal" := by
  have hc : cornerNormal (rows.map (pad ncols)) = none := by
    unfold cornerNormal; exact c15_unitize_eq_none _ hdeg
  constructor
  · unfold Polygon.new
    rw [if_neg (by omega), if_neg (by omega), if_neg (by rw [hd]; simp)]
    simp only [hc, c15_chooseNormal_none]
  · intro nv
    unfold Polygon.new
    rw [if_neg (by omega), if_neg (by omega), if_neg (by rw [hd]; simp)]
    simp only [hc]
    unfold chooseNormal
    simp only

/-! ## 3. `ConvexPolygon.__init__` and `_reorder_verts` -/

/-- **Decision logic of `ConvexPolygon.__init__`** (modulo the Qhull contract `hullCount`): accepted iff the
polygon checks pass (no simplicity test) and Qhull reports every point as a hull vertex; the stored vertices
are the re-ordered ones. -/
theorem convex_new_iff (ndim ncols : Nat) (rows : List (V3 ℝ)) (normal : Option (V3 ℝ)) (ptol : ℝ)
    (hullCount : V3 ℝ → List (V3 ℝ) → Nat) (align : V3 ℝ → List (V3 ℝ) → List (V3 ℝ)) (q : Poly ℝ) :
    ConvexPolygon.new ndim ncols rows normal ptol hullCount align = .ok q ↔
      ∃ p, Polygon.new ndim ncols rows normal ptol false align = .ok p ∧
        hullCount p.normal p.vertices = p.vertices.length ∧
        q = { p with vertices := reorder (align p.normal (p.vertices.map (· - mean3 p.vertices))) p.vertices } := by
  unfold ConvexPolygon.new
  cases h : Polygon.new ndim ncols rows normal ptol false align with
  | error e =>
    simp only
    constructor
    · intro h'; cases h'
    · rintro ⟨p, hp, _⟩; cases hp
  | ok p =>
    simp only [beq_iff_eq]
    split_ifs with hh
    · constructor
      · intro h'; injection h' with h'; exact ⟨p, rfl, hh, h'.symm⟩
      · rintro ⟨p', hp', _, hq⟩; injection hp' with hp'; subst hp'; rw [hq]
    · constructor
      · intro h'; cases h'
      · rintro ⟨p', hp', hh', _⟩; injection hp' with hp'; subst hp'; exact absurd hh' hh

/-- a point that is not a hull vertex (Qhull's count is short) is rejected with the convexity message -/
theorem convex_new_rejects_nonhull (ndim ncols : Nat) (rows : List (V3 ℝ)) (normal : Option (V3 ℝ)) (ptol : ℝ)
    (hullCount : V3 ℝ → List (V3 ℝ) → Nat) (align : V3 ℝ → List (V3 ℝ) → List (V3 ℝ)) (p : Poly ℝ)
    (hp : Polygon.new ndim ncols rows normal ptol false align = .ok p)
    (hh : hullCount p.normal p.vertices ≠ p.vertices.length) :
    ConvexPolygon.new ndim ncols rows normal ptol hullCount align = .error "ValueError:convex" := by
  unfold ConvexPolygon.new
  rw [hp]
  simp only [beq_iff_eq, if_neg hh]

section reorder
variable {β : Type}

theorem c15_sortKeys_length (rot : List (V3 ℝ)) : (sortKeys rot).length = rot.length := by
  unfold sortKeys relAngles
  simp

/-- **`reorder_is_perm`**: `_reorder_verts` only permutes the vertices — nothing is lost, duplicated or
changed (for ANY alignment result of the right length). -/
theorem reorder_is_perm (rot : List (V3 ℝ)) (payload : List β) (hlen : rot.length = payload.length) :
    (reorder rot payload).Perm payload := by
  unfold reorder
  have h1 := (isort_perm (List.zip (sortKeys rot) payload)).map (·.2)
  refine h1.trans ?_
  have : (List.zip (sortKeys rot) payload).map (·.2) = payload := by
    apply List.map_snd_zip
    rw [c15_sortKeys_length, hlen]
  rw [this]

theorem c15_two_pi_pos : (0:ℝ) < Scalar.lit 2 * Scalar.pi := by
  rw [lit_two, Scalar.pi_real]; exact mul_pos two_pos Real.pi_pos

theorem c15_relAngles_cons (r0 : V3 ℝ) (rs : List (V3 ℝ)) :
    relAngles (r0 :: rs) = 0 :: rs.map (fun v => pmod (Scalar.atan2 v.y v.x - Scalar.atan2 r0.y r0.x)
      (Scalar.lit 2 * Scalar.pi)) := by
  unfold relAngles
  simp only [List.map_cons, List.getD_cons_zero, sub_self, pmod_zero, List.map_map]
  rfl

theorem c15_relAngles_nonneg (rot : List (V3 ℝ)) : ∀ a ∈ relAngles rot, 0 ≤ a ∧ a < Scalar.lit 2 * Scalar.pi := by
  intro a ha
  unfold relAngles at ha
  simp only [List.map_map, List.mem_map] at ha
  obtain ⟨v, _, rfl⟩ := ha
  exact ⟨pmod_nonneg _ c15_two_pi_pos, pmod_lt _ c15_two_pi_pos⟩

/-- **`reorder_keeps_first`**: vertex 0 stays first (its relative angle is exactly 0, every relative angle is
in `[0, 2π)`, the sort is stable) PROVIDED no other vertex has relative angle 0 and a strictly smaller
distance from the vertex mean — i.e. no other vertex lies on the ray from the mean through vertex 0 strictly
closer than vertex 0 (impossible for points in convex position about an interior mean). -/
theorem reorder_keeps_first (r0 : V3 ℝ) (rs : List (V3 ℝ)) (v0 : β) (vs : List β)
    (hray : ∀ k ∈ sortKeys (r0 :: rs) |>.tail, k.1 = 0 → V3.norm r0 ≤ k.2) :
    (reorder (r0 :: rs) (v0 :: vs)).head? = some v0 := by
  unfold reorder
  have hk : sortKeys (r0 :: rs) = (0, V3.norm r0) :: (sortKeys (r0 :: rs)).tail := by
    unfold sortKeys; rw [c15_relAngles_cons]; simp
  rw [hk, List.zip_cons_cons, List.head?_map]
  rw [isort_head]
  · rfl
  · intro y hy
    rw [keyLe_iff]
    have hy1 : y.1 ∈ (sortKeys (r0 :: rs)).tail := (List.of_mem_zip hy).1
    have hnn : 0 ≤ y.1.1 := by
      have hmem : y.1 ∈ sortKeys (r0 :: rs) := List.mem_of_mem_tail hy1
      unfold sortKeys at hmem
      exact (c15_relAngles_nonneg _ _ (List.of_mem_zip hmem).1).1
    rcases hnn.lt_or_eq with h | h
    · exact Or.inl h
    · exact Or.inr ⟨h, hray y.1 hy1 h.symm⟩

/-- **`reorder_ccw_partial`**: the re-ordered vertices come with non-decreasing polar angle (measured in the
aligned frame, about the vertex mean, from vertex 0; ties by increasing distance): there is a sorted list `s`
of (key, vertex) pairs — a permutation of the input pairs — whose vertex column is the output.
MISSING for the full statement "counter-clockwise about the normal": (i) the kabsch contract (`align` is a
proper rotation taking the normal to +z) and (ii) the geometric step that increasing `atan2` order of points in
convex position around an interior point is the counter-clockwise boundary order; the check establishes both
on every run through the exact oracle `Spec.ccwConvex` evaluated on the constructed object. -/
theorem reorder_ccw_partial (rot : List (V3 ℝ)) (payload : List β) :
    ∃ s : List ((ℝ × ℝ) × β),
      s.Perm (List.zip (sortKeys rot) payload) ∧ s.map (·.2) = reorder rot payload ∧
      s.Pairwise (fun a b => a.1.1 < b.1.1 ∨ (a.1.1 = b.1.1 ∧ a.1.2 ≤ b.1.2)) := by
  refine ⟨isort keyLt (List.zip (sortKeys rot) payload), isort_perm _, rfl, ?_⟩
  exact (isort_sorted _).imp (fun {a b} h => (keyLe_iff a b).1 h)

end reorder

/-! ## 4. `ConvexPolyhedron`, spheropolytopes -/

/-- **Decision logic of `ConvexPolyhedron.__init__`**: accepted iff Qhull succeeds and reports every input
point as a hull vertex; the stored vertex array is a copy in the input order. -/
theorem convexpolyhedron_new_iff (rows : List (V3 ℝ)) (hull : List (V3 ℝ) → Except String Nat) (p : Polyh ℝ) :
    ConvexPolyhedron.new rows hull = .ok p ↔ hull rows = .ok rows.length ∧ p = ⟨rows, .fresh⟩ := by
  unfold ConvexPolyhedron.new
  cases h : hull rows with
  | error e => simp
  | ok n =>
    simp only [beq_iff_eq]
    split_ifs with hh
    · subst hh
      constructor
      · intro h'; injection h' with h'; exact ⟨rfl, h'.symm⟩
      · rintro ⟨_, hp⟩; rw [hp]
    · constructor
      · intro h'; cases h'
      · rintro ⟨h', _⟩; injection h' with h'; exact absurd h' hh

theorem convexpolyhedron_new_rejects_nonhull (rows : List (V3 ℝ)) (hull : List (V3 ℝ) → Except String Nat)
    (n : Nat) (h : hull rows = .ok n) (hn : n ≠ rows.length) :
    ConvexPolyhedron.new rows hull = .error "ValueError:convex" := by
  unfold ConvexPolyhedron.new; rw [h]; simp only [beq_iff_eq, if_neg hn]

/-- **a failing hull computation is a ValueError** (f256559): whatever Qhull / scipy raise on the vertex array — too
few points, flat or collinear sets, non-finite coordinates — the constructor raises ValueError -/
theorem convexpolyhedron_new_hull_error (rows : List (V3 ℝ)) (hull : List (V3 ℝ) → Except String Nat) (e : String)
    (h : hull rows = .error e) : ConvexPolyhedron.new rows hull = .error "ValueError:hull" := by
  unfold ConvexPolyhedron.new; rw [h]

/-- **"either an object or ValueError" for ConvexPolyhedron and ConvexSpheropolyhedron**: every way the model of the
constructors can fail is a ValueError, whatever the hull computation does -/
theorem convexpolyhedron_new_error_is_valueerror (rows : List (V3 ℝ)) (hull : List (V3 ℝ) → Except String Nat)
    (radius : ℝ) (e : String) :
    (ConvexPolyhedron.new rows hull = .error e → e = "ValueError:hull" ∨ e = "ValueError:convex") ∧
    (ConvexSpheropolyhedron.new rows radius hull = .error e →
      e = "ValueError:hull" ∨ e = "ValueError:convex" ∨ e = "ValueError:radius") := by
  have key : ∀ e, ConvexPolyhedron.new rows hull = .error e → e = "ValueError:hull" ∨ e = "ValueError:convex" := by
    intro e h
    unfold ConvexPolyhedron.new at h
    cases hh : hull rows with
    | error e' => rw [hh] at h; injection h with h; exact Or.inl h.symm
    | ok n =>
      rw [hh] at h
      simp only at h
      split_ifs at h
      injection h with h; exact Or.inr h.symm
  refine ⟨key e, ?_⟩
  intro h
  unfold ConvexSpheropolyhedron.new at h
  cases hp : ConvexPolyhedron.new rows hull with
  | error e' =>
    rw [hp] at h; injection h with h; subst h
    rcases key _ hp with h' | h'
    · exact Or.inl h'
    · exact Or.inr (Or.inl h')
  | ok p =>
    rw [hp] at h
    simp only at h
    split_ifs at h
    injection h with h; exact Or.inr (Or.inr h.symm)

/-- three points: Qhull refuses — the model raises ValueError -/
example : ConvexPolyhedron.new ([⟨0,0,0⟩,⟨1,0,0⟩,⟨0,1,0⟩] : List (V3 ℝ)) (fun _ => .error "QhullError")
    = .error "ValueError:hull" := convexpolyhedron_new_hull_error _ _ _ rfl

/-- **ConvexSpheropolygon: the radius guard comes FIRST** — a negative rounding radius is reported whatever
the vertices are. -/
theorem spheropolygon_new_rejects_negative (ndim ncols : Nat) (rows : List (V3 ℝ)) (radius : ℝ)
    (normal : Option (V3 ℝ)) (hullCount : V3 ℝ → List (V3 ℝ) → Nat)
    (align : V3 ℝ → List (V3 ℝ) → List (V3 ℝ)) (h : radius < 0) :
    ConvexSpheropolygon.new ndim ncols rows radius normal hullCount align = .error "ValueError:radius" := by
  unfold ConvexSpheropolygon.new
  rw [if_neg (by rw [lit_zero]; exact not_le.2 h)]

/-- … and every radius `≥ 0` — in particular 0 — is accepted exactly when the convex polygon is -/
theorem spheropolygon_new_accepts_nonneg (ndim ncols : Nat) (rows : List (V3 ℝ)) (radius : ℝ)
    (normal : Option (V3 ℝ)) (hullCount : V3 ℝ → List (V3 ℝ) → Nat)
    (align : V3 ℝ → List (V3 ℝ) → List (V3 ℝ)) (h : 0 ≤ radius) (p : Poly ℝ)
    (hp : ConvexPolygon.new ndim ncols rows normal (1 / 100000) hullCount align = .ok p)
    (hh : hullCount p.normal p.vertices = p.vertices.length) :
    ConvexSpheropolygon.new ndim ncols rows radius normal hullCount align = .ok ⟨radius, p⟩ := by
  unfold ConvexSpheropolygon.new
  rw [if_pos (by rw [lit_zero]; exact h)]
  have : (Scalar.q 1 100000 : ℝ) = 1 / 100000 := by simp [Scalar.q]
  rw [this, hp]
  simp only [beq_iff_eq, if_pos hh]

theorem spheropolygon_new_propagates (ndim ncols : Nat) (rows : List (V3 ℝ)) (radius : ℝ)
    (normal : Option (V3 ℝ)) (hullCount : V3 ℝ → List (V3 ℝ) → Nat)
    (align : V3 ℝ → List (V3 ℝ) → List (V3 ℝ)) (h : 0 ≤ radius) (e : String)
    (hp : ConvexPolygon.new ndim ncols rows normal (1 / 100000) hullCount align = .error e) :
    ConvexSpheropolygon.new ndim ncols rows radius normal hullCount align = .error e := by
  unfold ConvexSpheropolygon.new
  rw [if_pos (by rw [lit_zero]; exact h)]
  have : (Scalar.q 1 100000 : ℝ) = 1 / 100000 := by simp [Scalar.q]
  rw [this, hp]

/-- **ConvexSpheropolyhedron: the radius guard comes LAST** — invalid vertices are reported first, even with
a negative radius … -/
theorem spheropolyhedron_new_vertices_first (rows : List (V3 ℝ)) (radius : ℝ)
    (hull : List (V3 ℝ) → Except String Nat) (e : String) (h : ConvexPolyhedron.new rows hull = .error e) :
    ConvexSpheropolyhedron.new rows radius hull = .error e := by
  unfold ConvexSpheropolyhedron.new; rw [h]

/-- … a negative radius is rejected for valid vertices, and every radius `≥ 0` (incl. 0) is accepted. -/
theorem spheropolyhedron_new_radius (rows : List (V3 ℝ)) (radius : ℝ)
    (hull : List (V3 ℝ) → Except String Nat) (p : Polyh ℝ) (h : ConvexPolyhedron.new rows hull = .ok p) :
    (radius < 0 → ConvexSpheropolyhedron.new rows radius hull = .error "ValueError:radius") ∧
    (0 ≤ radius → ConvexSpheropolyhedron.new rows radius hull = .ok ⟨radius, p⟩) := by
  unfold ConvexSpheropolyhedron.new; rw [h]
  simp only [lit_zero]
  constructor
  · intro hr; rw [if_neg (not_le.2 hr)]
  · intro hr; rw [if_pos hr]

/-! ## 5. curved shapes: `value > 0` guards in assignment order; the centre is copied -/

/-- **Circle / Sphere**: `r ≤ 0 → ValueError`; `r > 0` constructs, storing `r`, the centre's value, and a NEW
centre array. -/
theorem circle_new_guard (r : ℝ) (c : V3 ℝ) :
    (r ≤ 0 → Circle.new r c = .error "ValueError:radius") ∧
    (0 < r → Circle.new r c = .ok ⟨r, c, .fresh⟩) := by
  unfold Circle.new; simp only [lit_zero]
  exact ⟨fun h => by rw [if_neg (not_lt.2 h)], fun h => by rw [if_pos h]⟩

theorem sphere_new_guard (r : ℝ) (c : V3 ℝ) :
    (r ≤ 0 → Sphere.new r c = .error "ValueError:radius") ∧
    (0 < r → Sphere.new r c = .ok ⟨r, c, .fresh⟩) := by
  unfold Sphere.new; simp only [lit_zero]
  exact ⟨fun h => by rw [if_neg (not_lt.2 h)], fun h => by rw [if_pos h]⟩

/-- **Ellipse**: `a` is checked (and reported) first, then `b`. -/
theorem ellipse_new_guard (a b : ℝ) (c : V3 ℝ) :
    (a ≤ 0 → Ellipse.new a b c = .error "ValueError:a") ∧
    (0 < a → b ≤ 0 → Ellipse.new a b c = .error "ValueError:b") ∧
    (0 < a → 0 < b → Ellipse.new a b c = .ok ⟨a, b, c, .fresh⟩) := by
  unfold Ellipse.new; simp only [lit_zero]
  refine ⟨fun h => by rw [if_neg (not_lt.2 h)], fun ha hb => by rw [if_pos ha, if_neg (not_lt.2 hb)],
    fun ha hb => by rw [if_pos ha, if_pos hb]⟩

/-- **Ellipsoid**: `a`, then `b`, then `c`. -/
theorem ellipsoid_new_guard (a b c : ℝ) (ce : V3 ℝ) :
    (a ≤ 0 → Ellipsoid.new a b c ce = .error "ValueError:a") ∧
    (0 < a → b ≤ 0 → Ellipsoid.new a b c ce = .error "ValueError:b") ∧
    (0 < a → 0 < b → c ≤ 0 → Ellipsoid.new a b c ce = .error "ValueError:c") ∧
    (0 < a → 0 < b → 0 < c → Ellipsoid.new a b c ce = .ok ⟨a, b, c, ce, .fresh⟩) := by
  unfold Ellipsoid.new; simp only [lit_zero]
  refine ⟨fun h => by rw [if_neg (not_lt.2 h)], fun ha hb => by rw [if_pos ha, if_neg (not_lt.2 hb)],
    fun ha hb hc => by rw [if_pos ha, if_pos hb, if_neg (not_lt.2 hc)],
    fun ha hb hc => by rw [if_pos ha, if_pos hb, if_pos hc]⟩

/-- the provenance tags of the decision model: no constructor of the model stores a caller array (the allocation
traces behind the tags: `ctor_fresh_arrays` in §9). -/
theorem ctor_src_fresh :
    (∀ (r : ℝ) (c : V3 ℝ) o, Circle.new r c = .ok o → o.centroidSrc = .fresh) ∧
    (∀ (r : ℝ) (c : V3 ℝ) o, Sphere.new r c = .ok o → o.centroidSrc = .fresh) ∧
    (∀ (a b : ℝ) (c : V3 ℝ) o, Ellipse.new a b c = .ok o → o.centroidSrc = .fresh) ∧
    (∀ (a b c : ℝ) (ce : V3 ℝ) o, Ellipsoid.new a b c ce = .ok o → o.centroidSrc = .fresh) ∧
    (∀ (rows : List (V3 ℝ)) hull o, ConvexPolyhedron.new rows hull = .ok o → o.verticesSrc = .fresh) := by
  refine ⟨?_, ?_, ?_, ?_, ?_⟩
  · intro r c o h; unfold Circle.new at h; split_ifs at h; injection h with h; rw [← h]
  · intro r c o h; unfold Sphere.new at h; split_ifs at h; injection h with h; rw [← h]
  · intro a b c o h; unfold Ellipse.new at h; split_ifs at h; injection h with h; rw [← h]
  · intro a b c ce o h; unfold Ellipsoid.new at h; split_ifs at h; injection h with h; rw [← h]
  · intro rows hull o h
    rw [convexpolyhedron_new_iff] at h; rw [h.2]

/-! ## 6. non-vacuity: concrete inputs meeting the hypotheses -/

macro "c15_eval" : tactic => `(tactic|
  (simp only [Spec.simple, distinct, edgesOK, cycEdges, path, allPairs, edgeOK, ptEq, foldBack, onSeg, segMeet,
    orient, between, oppositeSigns, Scalar.eqb, List.all_cons, List.all_nil, List.cons_append, List.nil_append,
    lit_zero, List.length_cons, List.length_nil, List.map_cons, List.map_nil, xy]
   norm_num))

def exSquare : List (P2 ℝ) := [⟨0,0⟩,⟨1,0⟩,⟨1,1⟩,⟨0,1⟩]
def exBowtie : List (P2 ℝ) := [⟨0,0⟩,⟨1,1⟩,⟨1,0⟩,⟨0,1⟩]
def exSquare3 : List (V3 ℝ) := [⟨0,0,0⟩,⟨1,0,0⟩,⟨1,1,0⟩,⟨0,1,0⟩]
def exBowtie3 : List (V3 ℝ) := [⟨0,0,0⟩,⟨1,1,0⟩,⟨1,0,0⟩,⟨0,1,0⟩]

/-- the unit square is simple, in both orientations and from any start vertex (by the theorems above) … -/
example : Spec.simple exSquare = true := by unfold exSquare; c15_eval
example : Spec.simple exSquare.reverse = true := by rw [simple_reverse]; unfold exSquare; c15_eval
example : Spec.simple (exSquare.rotate 3) = true := by rw [simple_shift]; unfold exSquare; c15_eval
/-- … the bow-tie (two vertices swapped) is not: its edges (0,0)-(1,1) and (1,0)-(0,1) cross -/
example : Spec.simple exBowtie = false := by unfold exBowtie; c15_eval
example : segMeet (⟨0,0⟩ : P2 ℝ) ⟨1,1⟩ ⟨1,0⟩ ⟨0,1⟩ = true := by c15_eval
example : segMeet (⟨0,0⟩ : P2 ℝ) ⟨1,0⟩ ⟨1,1⟩ ⟨0,1⟩ = false := by c15_eval

theorem c15_pad_three (v : V3 ℝ) : pad 3 v = v := by simp [pad]

theorem exSquare3_normal : cornerNormal (exSquare3.map (pad 3)) = some ⟨0,0,1⟩ := by
  simp [cornerNormal, cornerCross, unitize, Scalar.eqb, exSquare3, pad, V3.cross, V3.sdiv, V3.norm, V3.normSq,
    V3.dot]

/-- `polygon_new_accepts_iff` on the unit square in the plane z = 0 (identity alignment): accepted, normal +z -/
example : Polygon.new 2 3 exSquare3 none (1/100000) true (fun _ vs => vs)
    = .ok ⟨exSquare3, ⟨0,0,1⟩, .fresh, .fresh⟩ := by
  rw [polygon_new_accepts_iff]
  refine ⟨rfl, Or.inr rfl, by simp [exSquare3], ?_, ?_, ?_, ?_, ?_⟩
  · simp [exSquare3, hasDup, rowEqb, Scalar.eqb]
  · rw [c15_chooseNormal_none, exSquare3_normal]
  · apply coplanarRel_of_planar _ _ (by norm_num)
    intro v hv w hw
    simp only [exSquare3, pad, List.map_cons, List.map_nil, List.mem_cons, List.not_mem_nil, or_false] at hv hw
    rcases hv with rfl | rfl | rfl | rfl <;> rcases hw with rfl | rfl | rfl | rfl <;> simp [V3.dot]
  · intro _; simp only [exSquare3, List.map_cons, List.map_nil, c15_pad_three]; c15_eval
  · simp [exSquare3, pad]

/-- … and the bow-tie is rejected by the simplicity test -/
example : ∀ p, Polygon.new 2 3 exBowtie3 none (1/100000) true (fun _ vs => vs) ≠ .ok p := by
  intro p h
  rw [polygon_new_accepts_iff] at h
  obtain ⟨_, _, _, _, _, _, hs, _⟩ := h
  have := hs rfl
  simp only [exBowtie3, List.map_cons, List.map_nil, c15_pad_three] at this
  revert this
  c15_eval

example : Polygon.new 2 3 ([⟨0,0,0⟩,⟨1,0,0⟩] : List (V3 ℝ)) none (1/100000) true (fun _ vs => vs)
    = .error "ValueError:short" :=
  polygon_new_rejects_short _ _ _ _ _ _ _ ⟨rfl, Or.inr rfl⟩ (by simp)

example : Polygon.new 2 3 ([⟨0,0,0⟩,⟨1,0,0⟩,⟨1,1,0⟩,⟨1,0,0⟩] : List (V3 ℝ)) none (1/100000) true (fun _ vs => vs)
    = .error "ValueError:duplicate" :=
  polygon_new_rejects_repeated_point _ _ _ _ _ (by simp) (by simp)

/-- guards: 0 and negative values are rejected, the first offending field is the one reported -/
example : Circle.new (0:ℝ) ⟨1,2,3⟩ = .error "ValueError:radius" := (circle_new_guard 0 _).1 le_rfl
example : Sphere.new (2:ℝ) ⟨1,2,3⟩ = .ok ⟨2, ⟨1,2,3⟩, .fresh⟩ := (sphere_new_guard 2 _).2 two_pos
example : Ellipse.new (-1:ℝ) (-1) ⟨0,0,0⟩ = .error "ValueError:a" := (ellipse_new_guard _ _ _).1 (by norm_num)
example : Ellipsoid.new (1:ℝ) 2 0 ⟨0,0,0⟩ = .error "ValueError:c" :=
  (ellipsoid_new_guard _ _ _ _).2.2.1 one_pos two_pos le_rfl

/-- rounding radius 0 is accepted (given a valid polyhedron), −1 is not -/
example (rows : List (V3 ℝ)) :
    ConvexSpheropolyhedron.new rows 0 (fun l => .ok l.length) = .ok ⟨0, ⟨rows, .fresh⟩⟩ :=
  (spheropolyhedron_new_radius rows 0 _ ⟨rows, .fresh⟩
    ((convexpolyhedron_new_iff rows _ _).2 ⟨rfl, rfl⟩)).2 le_rfl
example (rows : List (V3 ℝ)) :
    ConvexSpheropolyhedron.new rows (-1) (fun l => .ok l.length) = .error "ValueError:radius" :=
  (spheropolyhedron_new_radius rows (-1) _ ⟨rows, .fresh⟩
    ((convexpolyhedron_new_iff rows _ _).2 ⟨rfl, rfl⟩)).1 (by norm_num)

/-- `reorder_keeps_first` in the tie case: a second point on the same ray, farther out, stays behind vertex 0 -/
example : (reorder ([⟨1,0,0⟩, ⟨2,0,0⟩] : List (V3 ℝ)) ["v0", "v1"]).head? = some "v0" := by
  apply reorder_keeps_first
  intro k hk _
  have h2 : (⟨2, 0⟩ : ℂ) = ((2:ℝ) : ℂ) := by apply Complex.ext <;> simp
  have h1 : (⟨1, 0⟩ : ℂ) = ((1:ℝ) : ℂ) := by apply Complex.ext <;> simp
  simp only [sortKeys, relAngles, List.map_cons, List.map_nil, List.zip_cons_cons, List.zip_nil_right,
    List.tail_cons, List.mem_singleton] at hk
  rw [hk]
  simp only [V3.norm, V3.normSq, V3.dot, Scalar.sqrt_real]
  apply Real.sqrt_le_sqrt
  norm_num

/-! ### the acceptance half fails at a degenerate first corner -/

/-- a 2 × 1 rectangle with an extra vertex in the middle of its bottom edge, listed from the bottom-left corner:
the first three vertices are collinear -/
def exStraight3 : List (V3 ℝ) := [⟨0,0,0⟩,⟨1,0,0⟩,⟨2,0,0⟩,⟨2,1,0⟩,⟨0,1,0⟩]

theorem exStraight3_simple : Spec.simple (exStraight3.map xy) = true := by unfold exStraight3; c15_eval

theorem exStraight3_rejected :
    Polygon.new 2 3 exStraight3 none (1/100000) true (fun _ vs => vs) = .error "ValueError:coplanar" := by
  refine (polygon_new_rejects_degenerate_corner 2 3 exStraight3 _ _ _ ⟨rfl, Or.inr rfl⟩ (by simp [exStraight3])
    ?_ ?_).1
  · simp [exStraight3, hasDup, rowEqb, Scalar.eqb]
  · simp [exStraight3, cornerCross, pad, V3.cross, V3.norm, V3.normSq, V3.dot]

/-- **`polygon_accepts_every_simple_planar_fails`**: "accepts every simple planar polygon" is FALSE for the code
as it is — this simple polygon in the plane z = 0 is rejected ("Not all vertices are coplanar") because its
first three vertices are collinear (`Polygon([[0,0],[1,0],[2,0],[2,1],[0,1]])` raises in /repo; the same cycle
started at any other vertex is accepted). -/
theorem polygon_accepts_every_simple_planar_fails :
    ¬ (∀ rows : List (V3 ℝ), Spec.simple (rows.map xy) = true → (∀ v ∈ rows, v.z = 0) →
        ∃ p, Polygon.new 2 3 rows none (1/100000) true (fun _ vs => vs) = .ok p) := by
  intro h
  obtain ⟨p, hp⟩ := h exStraight3 exStraight3_simple (by simp [exStraight3])
  rw [exStraight3_rejected] at hp
  cases hp

/-- … whereas the same cycle started one vertex earlier satisfies the hypotheses of
`polygon_accepts_simple_planar_partial` and is accepted -/
def exStraight3' : List (V3 ℝ) := [⟨0,1,0⟩,⟨0,0,0⟩,⟨1,0,0⟩,⟨2,0,0⟩,⟨2,1,0⟩]

example : exStraight3.rotate 4 = exStraight3' := by simp [exStraight3, exStraight3', List.rotate]

example : ∃ p, Polygon.new 2 3 exStraight3' none (1/100000) true (fun _ vs => vs) = .ok p ∧
    p.vertices = exStraight3' ∧
    (∀ v ∈ exStraight3', ∀ w ∈ exStraight3', V3.dot p.normal v = V3.dot p.normal w) := by
  unfold exStraight3'
  apply polygon_accepts_simple_planar_partial _ ⟨0,0,1⟩ _ _ (by simp [V3.dot])
  · intro v hv w hw
    simp only [List.mem_cons, List.not_mem_nil, or_false] at hv hw
    rcases hv with rfl | rfl | rfl | rfl | rfl <;> rcases hw with rfl | rfl | rfl | rfl | rfl <;> simp [V3.dot]
  · simp
  · simp
  · simp [cornerCross, V3.cross, V3.norm, V3.normSq, V3.dot]
  · norm_num
  · intro m; c15_eval


/-! ## 7. the O(n²) predicate IS the definition of a simple polygon -/

/-- the Bool test `onSeg` decides "the point lies on the closed segment" -/
theorem on_segment_iff (a b x : P2 ℝ) : onSeg a b x = true ↔ OnSegProp a b x := onSeg_iff_prop a b x

/-- **meaning of `foldBack`** (was "by inspection"): two consecutive edges `a → q → d` with `a ≠ q ≠ d` have exactly
their shared vertex in common iff neither `d` lies on `aq` nor `a` on `qd` -/
theorem fold_back_meaning (a q d : P2 ℝ) (haq : a ≠ q) (hqd : q ≠ d) :
    foldBack a q d = false ↔ ∀ x, OnSegProp a q x → OnSegProp q d x → x = q :=
  foldBack_false_iff a q d haq hqd

/-- edge `i` of `cycEdges` is `(vertex i, vertex i+1)` (indices mod n) -/
theorem cycle_edges_by_index (l : List (P2 ℝ)) (i : Nat) (h : i < (cycEdges l).length) :
    (cycEdges l)[i] = (vtx l i, vtx l (i + 1)) := cycEdges_getElem l i h

/-- **`simple ↔ no two non-adjacent edges meet ∧ adjacent edges meet only at the shared vertex`**: for EVERY vertex
list the O(n²) Bool predicate `Spec.simple` (pairs of `cycEdges`, orientation signs, `foldBack`) holds iff the list is
a simple polygon in the text-book sense `Spec.SimplePolygon` — ≥ 3 pairwise different vertices; edges `i < j` that are
not neighbours in the cycle have no common POINT; neighbouring edges have exactly their shared vertex in common
(points = existentials over segment parameters; indices modulo `n`).
NOT proved (out of reach here): that a simple polygon has turning number ±1 / that "all turns have the same sign"
together with simplicity characterises convex polygons (needs the Jordan curve theorem / Hopf's Umlaufsatz for
polygons; neither is in Mathlib). Only the failing converse is proved: `locally_convex_implies_simple_fails`. -/
theorem simple_iff_simple_polygon (l : List (P2 ℝ)) : Spec.simple l = true ↔ SimplePolygon l :=
  simple_iff_simplePolygon_aux l

/-- the unit square satisfies the text-book definition (through the theorem) -/
example : SimplePolygon exSquare := (simple_iff_simple_polygon exSquare).1 (by unfold exSquare; c15_eval)
/-- … the bow-tie does not: its edges 0 and 2 have the common point (1/2, 1/2) -/
example : ¬ SimplePolygon exBowtie := fun h => by
  have := (simple_iff_simple_polygon exBowtie).2 h
  revert this; unfold exBowtie; c15_eval

/-! ## 8. star polygons `{n/k}`: locally convex, not simple -/

/-- the diagonals of a strictly convex quadrilateral cross -/
theorem convex_quadrilateral_diagonals_cross (a b c d : P2 ℝ) (h1 : 0 < orient a b c) (h2 : 0 < orient b c d)
    (h3 : 0 < orient c d a) (h4 : 0 < orient d a b) : SegMeetProp a c b d :=
  (segments_meet_iff_exists a c b d).1 (convex_quad_diagonals_cross a b c d h1 h2 h3 h4)

/-- a vertex cycle that uses both diagonals of a strictly convex quadrilateral as edges is rejected -/
theorem crossing_diagonals_rejected (l : List (P2 ℝ)) (a b c d : P2 ℝ)
    (hac : (a, c) ∈ cycEdges l) (hbd : (b, d) ∈ cycEdges l)
    (h1 : 0 < orient a b c) (h2 : 0 < orient b c d) (h3 : 0 < orient c d a) (h4 : 0 < orient d a b) :
    Spec.simple l = false := by
  unfold Spec.simple
  rw [crossing_diagonals_not_simple l a b c d hac hbd h1 h2 h3 h4, Bool.and_false]

/-- **every star polygon `{n/k}` is rejected by the O(n²) predicate**: `n` points in strictly convex position
(listed counter-clockwise: every index triple `i < j < m` turns left), visited every `k`-th, `2 ≤ k ≤ n − 2`,
`gcd(k, n) = 1` — pentagram `{5/2}`, heptagrams `{7/2}`, `{7/3}`, octagram `{8/3}`, … for ANY such points (no
regularity, any position and size). The proof exhibits the crossing pair: `p₀p_k` and `p₁p_{k+1}`. -/
theorem star_polygon_not_simple (pts : List (P2 ℝ)) (k : Nat) (hconv : ConvexCCW pts) (hk2 : 2 ≤ k)
    (hkn : k + 2 ≤ pts.length) (hco : Nat.Coprime k pts.length) :
    edgesOK (starOrder pts k) = false ∧ Spec.simple (starOrder pts k) = false ∧ ¬ SimplePolygon (starOrder pts k) := by
  have h := starOrder_edgesOK_false pts k hconv hk2 hkn hco
  have h2 : Spec.simple (starOrder pts k) = false := by unfold Spec.simple; rw [h, Bool.and_false]
  refine ⟨h, h2, ?_⟩
  rw [← simple_iff_simple_polygon, h2]; simp

/-- **`Polygon.__init__` (model) rejects every star polygon**, whatever normal / tolerance is supplied: if the aligned
vertices project onto a star order of points in convex position the constructor cannot return an object. -/
theorem polygon_new_rejects_star (pts : List (P2 ℝ)) (k : Nat) (hconv : ConvexCCW pts) (hk2 : 2 ≤ k)
    (hkn : k + 2 ≤ pts.length) (hco : Nat.Coprime k pts.length)
    (ndim ncols : Nat) (rows : List (V3 ℝ)) (normal : Option (V3 ℝ)) (ptol : ℝ)
    (align : V3 ℝ → List (V3 ℝ) → List (V3 ℝ))
    (hal : ∀ n, (align n (rows.map (pad ncols))).map xy = starOrder pts k) (p : Poly ℝ) :
    Polygon.new ndim ncols rows normal ptol true align ≠ .ok p := by
  intro h
  rw [polygon_new_accepts_iff] at h
  obtain ⟨_, _, _, _, _, _, hs, _⟩ := h
  have := hs rfl
  rw [hal, (star_polygon_not_simple pts k hconv hk2 hkn hco).1] at this
  exact Bool.noConfusion this

/-- five points in convex position (not regular), counter-clockwise -/
def exPent : List (P2 ℝ) := [⟨0,3⟩, ⟨-3,1⟩, ⟨-2,-3⟩, ⟨2,-3⟩, ⟨3,1⟩]
/-- seven points in convex position, counter-clockwise -/
def exHept : List (P2 ℝ) := [⟨4,0⟩, ⟨3,3⟩, ⟨0,4⟩, ⟨-3,2⟩, ⟨-4,-1⟩, ⟨-1,-4⟩, ⟨3,-3⟩]

theorem exPent_convex : ConvexCCW exPent := by
  intro i j m hij hjm hm
  have hm' : m < 5 := hm
  interval_cases m <;> interval_cases j <;> interval_cases i <;>
    simp [vtx, exPent, orient, Scalar.lit] <;> norm_num

theorem exHept_convex : ConvexCCW exHept := by
  intro i j m hij hjm hm
  have hm' : m < 7 := hm
  interval_cases m <;> interval_cases j <;> interval_cases i <;>
    simp [vtx, exHept, orient, Scalar.lit] <;> norm_num

theorem exPent_star : starOrder exPent 2 = [⟨0,3⟩, ⟨-2,-3⟩, ⟨3,1⟩, ⟨-3,1⟩, ⟨2,-3⟩] := by
  simp [starOrder, exPent, List.range, List.range.loop]

/-- the pentagram `{5/2}`, the heptagrams `{7/2}`, `{7/3}` (hypotheses of `star_polygon_not_simple` are satisfiable) -/
theorem pentagram_rejected : Spec.simple (starOrder exPent 2) = false :=
  (star_polygon_not_simple exPent 2 exPent_convex (by norm_num) (by simp [exPent]) (by simp [exPent]; decide)).2.1
theorem heptagram2_rejected : Spec.simple (starOrder exHept 2) = false :=
  (star_polygon_not_simple exHept 2 exHept_convex (by norm_num) (by simp [exHept]) (by simp [exHept]; decide)).2.1
theorem heptagram3_rejected : Spec.simple (starOrder exHept 3) = false :=
  (star_polygon_not_simple exHept 3 exHept_convex (by norm_num) (by simp [exHept]) (by simp [exHept]; decide)).2.1

/-- the pentagram turns left at every vertex … -/
theorem pentagram_same_turns : sameTurns (starOrder exPent 2) = true := by
  rw [exPent_star]
  simp only [sameTurns, cycCorners, path3, List.cons_append, List.nil_append, List.all_cons, List.all_nil, orient,
    lit_zero]
  norm_num

/-- **"all turns have the same sign ⇒ convex ⇒ simple" is FALSE** (the reasoning behind a tempting fast path in
`_is_simple`): the pentagram is locally convex — every turn strictly to the left — and not simple; its turning number
is 2. (For turning number 1 the implication holds; that direction is not proved here.) -/
theorem locally_convex_implies_simple_fails :
    ¬ (∀ l : List (P2 ℝ), sameTurns l = true → edgesOK l = true) := by
  intro h
  have h1 := h _ pentagram_same_turns
  rw [(star_polygon_not_simple exPent 2 exPent_convex (by norm_num) (by simp [exPent]) (by simp [exPent]; decide)).1] at h1
  exact Bool.noConfusion h1

/-- … and the model of `Polygon.__init__` rejects the pentagram in the plane z = 0 (identity alignment) with the
"simple" clause, for any supplied normal and tolerance -/
example (normal : Option (V3 ℝ)) (ptol : ℝ) (p : Poly ℝ) :
    Polygon.new 2 2 ((starOrder exPent 2).map fun q => ⟨q.x, q.y, 0⟩) normal ptol true (fun _ vs => vs) ≠ .ok p := by
  apply polygon_new_rejects_star exPent 2 exPent_convex (by norm_num) (by simp [exPent]) (by simp [exPent]; decide)
  intro n
  rw [List.map_map, List.map_map]
  conv_rhs => rw [← List.map_id (starOrder exPent 2)]
  apply List.map_congr_left
  intro q _
  simp [xy, pad, Function.comp]

/-! ## 9. allocation: no constructor stores or writes a caller array -/

/-- **`ctor_fresh_arrays`** — for EVERY one of the ten classes and EVERY kind of argument container (list / tuple,
float64 ndarray, ndarray of another element type, any layout; faces as nested lists, a list of ndarrays or one 2-D
ndarray), with the conversions of /repo (`repoSites`: `np.array` at every site, every ndarray face `.copy()`-ed since
b62a6dc): every array kept by the new object lives in a block allocated by the constructor (`Fresh s0`: the block
number is ≥ the allocation pointer at entry, every caller block is below it) and every in-place write (`/=`, filling
`_equations`) went to such a block.  Polygon, ConvexPolygon (= ConvexSpheropolygon's polygon), ConvexPolyhedron
(= ConvexSpheropolyhedron's polyhedron), the four curved shapes and Polyhedron — vertices, FACES and equations: no
exception any more (the code before the fix: `polyhedron_kept_caller_faces_before_fix`). -/
theorem ctor_fresh_arrays (s0 : Alloc) :
    (∀ ncols verts normal,
      Fresh s0 (Polygon.alloc repoSites ncols verts normal s0).1.vertices ∧
      Fresh s0 (Polygon.alloc repoSites ncols verts normal s0).1.normal ∧
      WritesOnlyFresh s0 (Polygon.alloc repoSites ncols verts normal s0).2) ∧
    (∀ ncols verts normal,
      Fresh s0 (ConvexPolygon.alloc repoSites ncols verts normal s0).1.vertices ∧
      Fresh s0 (ConvexPolygon.alloc repoSites ncols verts normal s0).1.normal ∧
      WritesOnlyFresh s0 (ConvexPolygon.alloc repoSites ncols verts normal s0).2) ∧
    (∀ verts nfaces,
      Fresh s0 (ConvexPolyhedron.alloc repoSites verts nfaces s0).1.vertices ∧
      (∀ b ∈ (ConvexPolyhedron.alloc repoSites verts nfaces s0).1.faces, Fresh s0 b) ∧
      Fresh s0 (ConvexPolyhedron.alloc repoSites verts nfaces s0).1.equations ∧
      WritesOnlyFresh s0 (ConvexPolyhedron.alloc repoSites verts nfaces s0).2) ∧
    (∀ cls centre,
      Fresh s0 (Curved.alloc repoSites cls centre s0).1 ∧ WritesOnlyFresh s0 (Curved.alloc repoSites cls centre s0).2) ∧
    (∀ verts faces nfaces,
      Fresh s0 (Polyhedron.alloc repoSites verts faces nfaces s0).1.vertices ∧
      (∀ b ∈ (Polyhedron.alloc repoSites verts faces nfaces s0).1.faces, Fresh s0 b) ∧
      Fresh s0 (Polyhedron.alloc repoSites verts faces nfaces s0).1.equations ∧
      WritesOnlyFresh s0 (Polyhedron.alloc repoSites verts faces nfaces s0).2) := by
  refine ⟨?_, ?_, ?_, ?_, ?_⟩
  · intro ncols verts normal
    obtain ⟨h1, h2, h3, _⟩ := polygon_alloc_repo ncols verts normal s0
    exact ⟨h1, h2, h3⟩
  · intro ncols verts normal; exact convexpolygon_alloc_repo ncols verts normal s0
  · intro verts nfaces; exact convexpolyhedron_alloc_repo verts nfaces s0
  · intro cls centre; exact curved_alloc_repo cls centre s0
  · intro verts faces nfaces; exact polyhedron_alloc_repo verts faces nfaces s0

/-- a stored block that is fresh is none of the caller's (the caller's arrays live below the allocation pointer) -/
theorem fresh_not_caller (s0 : Alloc) (b : Nat) (hb : Fresh s0 b) (a : ArgKind) (ha : a.Below s0.next) :
    ∀ f blk, a = .nd f blk → b ≠ blk := by
  intro f blk h; subst h
  unfold Fresh at hb; unfold ArgKind.Below at ha
  omega

/-- **regression witness — the code BEFORE b62a6dc** (`self._faces = [face for face in faces]`,
`sitesBeforeFacesFix`): with a 2-D `faces` ndarray every stored face is a row view into the CALLER's block; with a list
of ndarrays the stored faces are the caller's own objects. So "a constructor never stores the caller's arrays" was false
for Polyhedron; it is true now (`ctor_fresh_arrays`), and the check reports
`Polyhedron.__init__:caller-array-stored:faces` should the old line return. -/
theorem polyhedron_kept_caller_faces_before_fix :
    ¬ (∀ (s0 : Alloc) (verts : ArgKind) (faces : FacesKind) (nfaces : Nat),
        ∀ b ∈ (Polyhedron.alloc sitesBeforeFacesFix verts faces nfaces s0).1.faces, Fresh s0 b) := by
  intro h
  have := h ⟨100, []⟩ .seq (.array2d 3) 4 3 (by
    rw [polyhedron_alloc_before_fix .seq (.array2d 3) 4 ⟨100, []⟩]; simp)
  unfold Fresh at this
  simp at this

/-- **faces of `Polyhedron` (full, was `_partial`)**: with /repo's table every stored face array is fresh for every
container of `faces`, and nested lists / tuples put no ndarray into the object at all -/
theorem polyhedron_ctor_faces_fresh (s0 : Alloc) (verts : ArgKind) (nfaces : Nat) :
    (∀ faces, ∀ b ∈ (Polyhedron.alloc repoSites verts faces nfaces s0).1.faces, Fresh s0 b) ∧
    (Polyhedron.alloc repoSites verts .nested nfaces s0).1.faces = [] :=
  ⟨fun faces => (polyhedron_alloc_repo verts faces nfaces s0).2.1, rfl⟩

/-- **why `np.array` matters (supplied normal)**: with `np.asarray(normal, dtype=np.float64)` at that one site, a
caller's float64 ndarray IS the stored `_normal` and is normalised in place; a list, a tuple or an ndarray of another
element type is still copied. -/
theorem polygon_asarray_normal_aliases (s0 : Alloc) (ncols : Nat) (verts : ArgKind) (blk : Nat) :
    (Polygon.alloc { repoSites with polygonNormal := .asarray } ncols verts (some (.nd true blk)) s0).1.normal = blk ∧
    blk ∈ (Polygon.alloc { repoSites with polygonNormal := .asarray } ncols verts (some (.nd true blk)) s0).2.writes ∧
    Fresh s0 (Polygon.alloc { repoSites with polygonNormal := .asarray } ncols verts (some (.nd false blk)) s0).1.normal ∧
    Fresh s0 (Polygon.alloc { repoSites with polygonNormal := .asarray } ncols verts (some .seq) s0).1.normal := by
  unfold Polygon.alloc repoSites Fresh
  simp only [convert_array, convert_asarray_same _ _ _ _ (Or.inr rfl), convert_asarray_other, convert_asarray_seq]
  by_cases h : ncols = 2 <;> simp only [h, if_true, if_false, Alloc.fresh, Alloc.write, List.mem_cons, true_or, true_and] <;>
    omega

/-- **why `np.array` matters (centre of the curved shapes)**: with `np.asarray(value)` an ndarray of ANY element type
is kept as it is -/
theorem curved_asarray_centre_aliases (s0 : Alloc) (cls : Curved) (f : Bool) (blk : Nat) :
    (Curved.alloc { repoSites with centre := fun _ => .asarray } cls (.nd f blk) s0).1 = blk := by
  unfold Curved.alloc
  simp only [convert_asarray_same _ _ _ _ (Or.inl rfl)]

/-- concrete run: a `(N,2)` list of vertices and a float64 ndarray normal in block 1 — the polygon keeps blocks
101 (`hstack`) and 103 (`np.array(normal)`), writes 102 and 103, never block 1 -/
example : (Polygon.alloc repoSites 2 .seq (some (.nd true 1)) ⟨100, []⟩).1.vertices = 101 ∧
    (Polygon.alloc repoSites 2 .seq (some (.nd true 1)) ⟨100, []⟩).1.normal = 103 ∧
    (Polygon.alloc repoSites 2 .seq (some (.nd true 1)) ⟨100, []⟩).2.writes = [103, 102] := by
  refine ⟨rfl, rfl, rfl⟩

/-! ## 10. `_reorder_verts` is idempotent -/

/-- **`_reorder_verts` leaves vertices that already come in (angle, distance) order unchanged** (the insertion sort
that models `np.lexsort` is stable) -/
theorem reorder_sorted_fixed {β : Type} (rot : List (V3 ℝ)) (payload : List β) (hlen : rot.length = payload.length)
    (hs : (List.zip (sortKeys rot) payload).Pairwise
      (fun a b => a.1.1 < b.1.1 ∨ (a.1.1 = b.1.1 ∧ a.1.2 ≤ b.1.2))) :
    reorder rot payload = payload :=
  reorder_sorted_fixed_aux rot payload hlen (hs.imp (fun {a b} h => (keyLe_iff a b).2 h))

/-- **`reorder_idempotent`** (DESIGN §7): applying `_reorder_verts` to its own result changes nothing — the aligned
points `reorder rot rot` and any payload re-ordered with them (the vertex array) — under the condition of
`reorder_keeps_first` (no other vertex on the ray through vertex 0 strictly closer to the mean), which makes the
reference angle of the second pass that of the first. Uses: the key of a vertex depends on the vertex and the reference
angle only (`sortKeys_eq_map`), sorting commutes with maps of the payload, a sorted list is a fixed point. -/
theorem reorder_idempotent {β : Type} (r0 : V3 ℝ) (rs : List (V3 ℝ)) (payload : List β)
    (hlen : (r0 :: rs).length = payload.length)
    (hray : ∀ k ∈ sortKeys (r0 :: rs) |>.tail, k.1 = 0 → V3.norm r0 ≤ k.2) :
    reorder (reorder (r0 :: rs) (r0 :: rs)) (reorder (r0 :: rs) payload) = reorder (r0 :: rs) payload := by
  apply reorder_idempotent_aux _ _ hlen
  have hh := reorder_keeps_first r0 rs r0 rs hray
  unfold refAngle
  cases hr : reorder (r0 :: rs) (r0 :: rs) with
  | nil => rw [hr] at hh; cases hh
  | cons a t =>
    rw [hr] at hh
    simp only [List.head?_cons, Option.some.injEq] at hh
    subst hh
    simp

/-- two points on one ray (the tie case): the second pass returns the first pass's result -/
def exRay : List (V3 ℝ) := [⟨1,0,0⟩, ⟨2,0,0⟩]
example : reorder (reorder exRay exRay) (reorder exRay ["v0", "v1"]) = reorder exRay ["v0", "v1"] := by
  unfold exRay
  apply reorder_idempotent ⟨1,0,0⟩ [⟨2,0,0⟩] ["v0", "v1"] rfl
  intro k hk _
  simp only [sortKeys, relAngles, List.map_cons, List.map_nil, List.zip_cons_cons, List.zip_nil_right,
    List.tail_cons, List.mem_singleton] at hk
  rw [hk]
  simp only [V3.norm, V3.normSq, V3.dot, Scalar.sqrt_real]
  apply Real.sqrt_le_sqrt
  norm_num

/-! ## 11. convex ⇒ simple (the true half) -/

/-- **a strictly convex polygon listed counter-clockwise is simple**: if every vertex other than an edge's end points
lies strictly to the left of that directed edge (`Spec.ccwConvex2`, the planar form of the condition the check
evaluates exactly on every constructed ConvexPolygon) and the vertices are pairwise different, then the cycle
satisfies the O(n²) predicate and hence the text-book definition. Together with `locally_convex_implies_simple_fails`:
GLOBAL convexity implies simplicity, LOCAL convexity (all turns of one sign) does not. -/
theorem ccw_convex_is_simple (l : List (P2 ℝ)) (hd : distinct l = true) (h : ccwConvex2 l = true) :
    Spec.simple l = true ∧ SimplePolygon l :=
  ⟨ccwConvex2_simple l hd h, (simple_iff_simple_polygon l).1 (ccwConvex2_simple l hd h)⟩

/-- the convex pentagon `exPent` (not its star order) meets the hypotheses … -/
example : SimplePolygon exPent := by
  refine (ccw_convex_is_simple exPent ?_ ?_).2
  · unfold exPent; c15_eval
  · simp only [ccwConvex2, exPent, cycEdges, path, List.cons_append, List.nil_append, List.all_cons, List.all_nil,
      ptEq, orient, Scalar.eqb, lit_zero, List.length_cons, List.length_nil]
    norm_num
/-- … while its star order is locally convex only: `ccwConvex2` fails for it -/
example : ccwConvex2 (starOrder exPent 2) = false := by
  rw [exPent_star]
  simp only [ccwConvex2, cycEdges, path, List.cons_append, List.nil_append, List.all_cons, List.all_nil,
    ptEq, orient, Scalar.eqb, lit_zero, List.length_cons, List.length_nil]
  norm_num

/-- **soundness of the per-run certificate** (planes z = const seen against +z): the predicate the check evaluates
exactly over ℚ on every constructed ConvexPolygon / ConvexSpheropolygon — `Spec.ccwConvex normal vertices` — is, for
such a plane, the planar `ccwConvex2` of the projected vertices (`ccwConvex_planar`); with pairwise different vertices
it therefore CERTIFIES that the stored cycle is a simple polygon in the text-book sense. (For tilted planes the same
holds after a rotation; not proved — the check evaluates `ccwConvex` there too.) -/
theorem ccw_certificate_sound (c : ℝ) (verts : List (V3 ℝ)) (hz : ∀ v ∈ verts, v.z = c)
    (hd : distinct (verts.map xy) = true) (h : ccwConvex ⟨0, 0, 1⟩ verts = true) :
    SimplePolygon (verts.map xy) :=
  (ccw_convex_is_simple _ hd (by rw [← ccwConvex_planar c verts hz]; exact h)).2

/-- the unit square in the plane z = 0 carries the certificate -/
example : SimplePolygon (exSquare3.map xy) := by
  apply ccw_certificate_sound 0 exSquare3
  · intro v hv; simp only [exSquare3, List.mem_cons, List.not_mem_nil, or_false] at hv
    rcases hv with rfl | rfl | rfl | rfl <;> rfl
  · unfold exSquare3; c15_eval
  · simp only [ccwConvex, exSquare3, cycEdges, path, List.cons_append, List.nil_append, List.all_cons, List.all_nil,
      v3Eq, leftOf, V3.det3, V3.dot, V3.cross, V3.sub_x, V3.sub_y, V3.sub_z, Scalar.eqb, lit_zero, List.length_cons,
      List.length_nil]
    norm_num

/-! ## 12. the decision does not depend on where the polygon is or how large it is (744f807) -/

/-- **the coplanarity test is invariant under every proper similarity** — rotation, positive scaling, translation of
the vertex list, the normal rotated along — for EVERY vertex list, normal and tolerance. (The loop it replaced,
`np.isclose(n·v, d, planar_tolerance)`, was not: `coplanarity_before_fix_translation_fails`.) -/
theorem coplanarity_test_similarity_invariant {g : Sim} (hg : g.Proper) (n : V3 ℝ) (verts : List (V3 ℝ)) (ptol : ℝ) :
    coplanarRel (g.dir n) (verts.map g.pt) ptol = coplanarRel n verts ptol :=
  c15_coplanarRel_sim hg n verts ptol

theorem c15_dir_translation (t n : V3 ℝ) : (Sim.translation t).dir n = n := by
  unfold Sim.dir Sim.translation; exact Sim.mulVec_id n
theorem c15_dir_scaling (k : ℝ) (n : V3 ℝ) : (Sim.scaling k).dir n = n := by
  unfold Sim.dir Sim.scaling; exact Sim.mulVec_id n

/-- translation of the vertex list alone -/
theorem coplanarity_test_translation_invariant (t n : V3 ℝ) (verts : List (V3 ℝ)) (ptol : ℝ) :
    coplanarRel n (verts.map (· + t)) ptol = coplanarRel n verts ptol := by
  have := c15_coplanarRel_sim (Sim.translation_proper t) n verts ptol
  rw [c15_dir_translation] at this
  have hm : verts.map (Sim.translation t).pt = verts.map (· + t) := by
    apply List.map_congr_left; intro v _; exact Sim.translation_pt t v
  rw [hm] at this; exact this

/-- positive scaling of the vertex list alone -/
theorem coplanarity_test_scale_invariant {k : ℝ} (hk : 0 < k) (n : V3 ℝ) (verts : List (V3 ℝ)) (ptol : ℝ) :
    coplanarRel n (verts.map (V3.smul k)) ptol = coplanarRel n verts ptol := by
  have := c15_coplanarRel_sim (Sim.scaling_proper hk) n verts ptol
  rw [c15_dir_scaling] at this
  have hm : verts.map (Sim.scaling k).pt = verts.map (V3.smul k) := by
    apply List.map_congr_left; intro v _; exact Sim.scaling_pt k v
  rw [hm] at this; exact this

/-- **regression witness — the loop BEFORE 744f807 was not translation invariant**: the quadrilateral
`(0,0,0), (1,0,0), (1,1,2·10⁻⁸), (0,1,0)` (off its plane by 2·10⁻⁸ of its size) fails the old test in the plane
z ≈ 0 and passes it after a shift by (0,0,1) — the tolerance `1e-8 + 1e-5·|d|` grew with the distance `d` of the plane
from the origin. -/
theorem coplanarity_before_fix_translation_fails :
    ¬ (∀ (n t : V3 ℝ) (verts : List (V3 ℝ)) (ptol : ℝ),
        coplanar n (verts.map (· + t)) ptol = coplanar n verts ptol) := by
  intro h
  have e := h ⟨0, 0, 1⟩ ⟨0, 0, 1⟩ [⟨0,0,0⟩, ⟨1,0,0⟩, ⟨1,1,2/100000000⟩, ⟨0,1,0⟩] (1/100000)
  have h1 : coplanar (⟨0, 0, 1⟩ : V3 ℝ) [⟨0,0,0⟩, ⟨1,0,0⟩, ⟨1,1,2/100000000⟩, ⟨0,1,0⟩] (1/100000) = false := by
    rw [← Bool.not_eq_true, c15_coplanar_before_fix_iff]
    intro hc
    have := hc ⟨1,1,2/100000000⟩ (by simp)
    simp [V3.dot, V3.zero] at this
    norm_num at this
  have h2 : coplanar (⟨0, 0, 1⟩ : V3 ℝ)
      (([⟨0,0,0⟩, ⟨1,0,0⟩, ⟨1,1,2/100000000⟩, ⟨0,1,0⟩] : List (V3 ℝ)).map (· + (⟨0, 0, 1⟩ : V3 ℝ))) (1/100000) = true := by
    rw [c15_coplanar_before_fix_iff]
    intro v hv
    simp only [List.map_cons, List.map_nil, List.mem_cons, List.not_mem_nil, or_false] at hv
    rcases hv with rfl | rfl | rfl | rfl <;>
      simp only [V3.dot, V3.add_x, V3.add_y, V3.add_z, List.getD_cons_zero] <;> norm_num
  rw [h1, h2] at e
  exact Bool.noConfusion e

/-- the same quadrilateral with the test of /repo: same verdict before and after the shift (by the theorem) -/
example : coplanarRel (⟨0, 0, 1⟩ : V3 ℝ)
    (([⟨0,0,0⟩, ⟨1,0,0⟩, ⟨1,1,2/100000000⟩, ⟨0,1,0⟩] : List (V3 ℝ)).map (· + (⟨0, 0, 1⟩ : V3 ℝ))) (1/100000)
    = coplanarRel (⟨0, 0, 1⟩ : V3 ℝ) ([⟨0,0,0⟩, ⟨1,0,0⟩, ⟨1,1,2/100000000⟩, ⟨0,1,0⟩] : List (V3 ℝ)) (1/100000) :=
  coplanarity_test_translation_invariant _ _ _ _

theorem c15_dir_injective {g : Sim} (hg : g.Proper) : Function.Injective g.dir := by
  intro a b h
  have hp : (Sim.rotation g.R).pt a = (Sim.rotation g.R).pt b := by
    rw [Sim.rotation_pt, Sim.rotation_pt]; exact h
  exact Sim.pt_injective (Sim.rotation_proper hg.rot) hp

/-- **The whole decision of `Polygon.__init__` is invariant under proper similarities** (`(N,3)` input; rotation `R`,
scale `k > 0`, translation `t`; a supplied normal is rotated along). Every step is: the number of vertices, the
duplicate test (`p ↦ k R p + t` is injective), the first-corner normal and the orthogonality test
(`cornerNormal_sim`, `chooseNormal_sim`), the coplanarity test (`coplanarity_test_similarity_invariant` — the step that
was NOT invariant before 744f807) and simplicity, for which the alignment is external: `hs` says that the aligned
figure of the moved polygon is simple iff that of the original is (kabsch returns a rotation; `edgesOK` is invariant
under planar translations and scalings: `edgesOK_similarity`).  Forward: acceptance is transported and the stored data
are the moved ones; backward: acceptance of the moved polygon implies acceptance of the original. -/
theorem polygon_new_similarity_invariant {g : Sim} (hg : g.Proper) (rows : List (V3 ℝ)) (normal : Option (V3 ℝ))
    (ptol : ℝ) (ts : Bool) (align align' : V3 ℝ → List (V3 ℝ) → List (V3 ℝ))
    (hs : ts = true → ∀ n, edgesOK ((align' (g.dir n) (rows.map g.pt)).map xy) = edgesOK ((align n rows).map xy)) :
    (∀ p, Polygon.new 2 3 rows normal ptol ts align = .ok p →
      Polygon.new 2 3 (rows.map g.pt) (normal.map g.dir) ptol ts align'
        = .ok ⟨rows.map g.pt, g.dir p.normal, .fresh, .fresh⟩) ∧
    (∀ q, Polygon.new 2 3 (rows.map g.pt) (normal.map g.dir) ptol ts align' = .ok q →
      ∃ p, Polygon.new 2 3 rows normal ptol ts align = .ok p ∧ q.normal = g.dir p.normal) := by
  constructor
  · intro p hacc
    obtain ⟨_, _, h3, hd, hn, hc, hsimp, hp⟩ := (polygon_new_accepts_iff 2 3 rows normal ptol ts align p).1 hacc
    rw [c15_map_pad_three] at hn hc hsimp
    rw [polygon_new_accepts_iff, c15_map_pad_three]
    refine ⟨rfl, Or.inr rfl, by rw [List.length_map]; exact h3, ?_, ?_, ?_, ?_, rfl⟩
    · rw [hasDup_three_map (Sim.pt_injective hg)]; exact hd
    · rw [cornerNormal_sim hg rows h3]
      cases normal with
      | none =>
        rw [c15_chooseNormal_none] at hn
        injection hn with hn
        simp only [Option.map_none, c15_chooseNormal_none, hn, Option.map_some]
      | some nv =>
        simp only [Option.map_some]
        rw [chooseNormal_sim hg, hn]
        rfl
    · show coplanarRel (g.dir p.normal) (rows.map g.pt) ptol = true
      rw [c15_coplanarRel_sim hg]; exact hc
    · intro hts
      show edgesOK ((align' (g.dir p.normal) (rows.map g.pt)).map xy) = true
      rw [hs hts]; exact hsimp hts
  · intro q hacc
    obtain ⟨_, _, h3, hd, hn, hc, hsimp, hq⟩ := (polygon_new_accepts_iff 2 3 _ _ ptol ts align' q).1 hacc
    rw [c15_map_pad_three] at hn hc hsimp
    rw [List.length_map] at h3
    rw [hasDup_three_map (Sim.pt_injective hg)] at hd
    rw [cornerNormal_sim hg rows h3] at hn
    -- the stored normal is the rotated normal of the original
    have hex : ∃ n, chooseNormal (cornerNormal rows) normal = .ok (some n) ∧ q.normal = g.dir n := by
      cases normal with
      | none =>
        simp only [Option.map_none, c15_chooseNormal_none] at hn
        injection hn with hn
        cases hcn : cornerNormal rows with
        | none => rw [hcn] at hn; cases hn
        | some n =>
          rw [hcn] at hn
          simp only [Option.map_some, Option.some.injEq] at hn
          exact ⟨n, by rw [c15_chooseNormal_none], hn.symm⟩
      | some nv =>
        simp only [Option.map_some] at hn
        rw [chooseNormal_sim hg] at hn
        cases hch : chooseNormal (cornerNormal rows) (some nv) with
        | error e => rw [hch] at hn; cases hn
        | ok o =>
          rw [hch] at hn
          simp only at hn
          injection hn with hn
          cases o with
          | none => cases hn
          | some n =>
            simp only [Option.map_some, Option.some.injEq] at hn
            exact ⟨n, rfl, hn.symm⟩
    obtain ⟨n, hn0, hqn⟩ := hex
    refine ⟨⟨rows, n, .fresh, .fresh⟩, ?_, hqn⟩
    rw [polygon_new_accepts_iff, c15_map_pad_three]
    refine ⟨rfl, Or.inr rfl, h3, hd, hn0, ?_, ?_, rfl⟩
    · show coplanarRel n rows ptol = true
      rw [← c15_coplanarRel_sim hg, ← hqn]; exact hc
    · intro hts
      show edgesOK ((align n rows).map xy) = true
      rw [← hs hts, ← hqn]; exact hsimp hts

/-- **translation invariance of the decision** (`(N,3)` input, normal unchanged) -/
theorem polygon_new_translation_invariant (t : V3 ℝ) (rows : List (V3 ℝ)) (normal : Option (V3 ℝ)) (ptol : ℝ) (ts : Bool)
    (align align' : V3 ℝ → List (V3 ℝ) → List (V3 ℝ))
    (hs : ts = true → ∀ n, edgesOK ((align' n (rows.map (· + t))).map xy) = edgesOK ((align n rows).map xy))
    (p : Poly ℝ) (hacc : Polygon.new 2 3 rows normal ptol ts align = .ok p) :
    Polygon.new 2 3 (rows.map (· + t)) normal ptol ts align' = .ok ⟨rows.map (· + t), p.normal, .fresh, .fresh⟩ := by
  have hm : rows.map (Sim.translation t).pt = rows.map (· + t) := by
    apply List.map_congr_left; intro v _; exact Sim.translation_pt t v
  have hn : normal.map (Sim.translation t).dir = normal := by
    cases normal <;> simp [c15_dir_translation]
  have := (polygon_new_similarity_invariant (Sim.translation_proper t) rows normal ptol ts align align'
    (by intro hts n; rw [c15_dir_translation, hm]; exact hs hts n)).1 p hacc
  rw [hm, hn, c15_dir_translation] at this
  exact this

/-- **scale invariance of the decision** (`(N,3)` input, `k > 0`, normal unchanged): sizes 2⁻³⁰ or 2³⁰ are judged like
size 1 -/
theorem polygon_new_scale_invariant {k : ℝ} (hk : 0 < k) (rows : List (V3 ℝ)) (normal : Option (V3 ℝ)) (ptol : ℝ)
    (ts : Bool) (align align' : V3 ℝ → List (V3 ℝ) → List (V3 ℝ))
    (hs : ts = true → ∀ n, edgesOK ((align' n (rows.map (V3.smul k))).map xy) = edgesOK ((align n rows).map xy))
    (p : Poly ℝ) (hacc : Polygon.new 2 3 rows normal ptol ts align = .ok p) :
    Polygon.new 2 3 (rows.map (V3.smul k)) normal ptol ts align'
      = .ok ⟨rows.map (V3.smul k), p.normal, .fresh, .fresh⟩ := by
  have hm : rows.map (Sim.scaling k).pt = rows.map (V3.smul k) := by
    apply List.map_congr_left; intro v _; exact Sim.scaling_pt k v
  have hn : normal.map (Sim.scaling k).dir = normal := by
    cases normal <;> simp [c15_dir_scaling]
  have := (polygon_new_similarity_invariant (Sim.scaling_proper hk) rows normal ptol ts align align'
    (by intro hts n; rw [c15_dir_scaling, hm]; exact hs hts n)).1 p hacc
  rw [hm, hn, c15_dir_scaling] at this
  exact this

/-- the unit square pushed to size 2³⁰ is accepted exactly like the unit square (identity alignment; the scaled
square's edges are simple by `edgesOK_similarity`) -/
example : ∃ q, Polygon.new 2 3 (exSquare3.map (V3.smul (2 ^ 30))) none (1/100000) false (fun _ vs => vs) = .ok q :=
  ⟨_, polygon_new_scale_invariant (by positivity) exSquare3 none (1/100000) false (fun _ vs => vs) (fun _ vs => vs)
    (by intro h; cases h)
    ⟨exSquare3, ⟨0,0,1⟩, .fresh, .fresh⟩ (by
      rw [polygon_new_accepts_iff]
      refine ⟨rfl, Or.inr rfl, by simp [exSquare3], ?_, ?_, ?_, ?_, ?_⟩
      · simp [exSquare3, hasDup, rowEqb, Scalar.eqb]
      · rw [c15_chooseNormal_none, exSquare3_normal]
      · apply coplanarRel_of_planar _ _ (by norm_num)
        intro v hv w hw
        simp only [exSquare3, pad, List.map_cons, List.map_nil, List.mem_cons, List.not_mem_nil, or_false] at hv hw
        rcases hv with rfl | rfl | rfl | rfl <;> rcases hw with rfl | rfl | rfl | rfl <;> simp [V3.dot]
      · intro h; cases h
      · simp [exSquare3, pad])⟩

end
