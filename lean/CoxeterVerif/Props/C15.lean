import CoxeterVerif.Lemmas.Constructors
/-!
  # C15 — constructors accept valid geometry and reject invalid geometry

  All statements are over ℝ (`instScalarReal`) and for vertex lists of ANY length.
  `align`, `hullCount`, `hull` are the external results (kabsch rotation, Qhull) the model takes as arguments;
  `Spec.edgesOK` is the O(n²) edge-pair predicate that *is* the meaning of "simple" here
  (and the model of the Bentley–Ottmann sweep).
-/
open Scalar C15 C15.Spec
set_option maxRecDepth 4000
set_option linter.unusedSimpArgs false
noncomputable section
namespace C15

/-! ## 1. the segment predicate and simplicity -/

/-- **`segments_meet` is symmetric**: it does not matter which segment is named first … -/
theorem segments_meet_symm (a b c d : P2 ℝ) : segMeet a b c d = segMeet c d a b := segMeet_symm a b c d

/-- … nor in which direction either segment is traversed. -/
theorem segments_meet_flip (a b c d : P2 ℝ) :
    segMeet b a c d = segMeet a b c d ∧ segMeet a b d c = segMeet a b c d :=
  ⟨segMeet_flip a b c d, segMeet_flip' a b c d⟩

/-- the pairwise edge condition is symmetric and direction independent -/
theorem edge_condition_symm (e f : P2 ℝ × P2 ℝ) :
    edgeOK e f = edgeOK f e ∧ edgeOK e.swap f.swap = edgeOK e f :=
  ⟨edgeOK_symm e f, edgeOK_swap e f⟩

/-- **simplicity is invariant under cyclic shifts of the vertex list** (any start vertex) -/
theorem edgesOK_shift (l : List (P2 ℝ)) (k : Nat) : edgesOK (l.rotate k) = edgesOK l := by
  unfold edgesOK
  exact allPairs_perm edgeOK_symm (cycEdges_rotate l k)

/-- **simplicity is invariant under reversal of the vertex list** (either orientation) -/
theorem edgesOK_reverse (l : List (P2 ℝ)) : edgesOK l.reverse = edgesOK l := by
  unfold edgesOK
  rw [allPairs_perm edgeOK_symm (cycEdges_reverse l), allPairs_map]
  exact allPairs_congr (fun e f => edgeOK_swap e f) _

theorem distinct_perm {l l' : List (P2 ℝ)} (h : l.Perm l') : distinct l = distinct l' := by
  unfold distinct
  exact allPairs_perm (fun p q => by rw [ptEq_comm]) h

/-- the full predicate (≥ 3 distinct vertices, edges meet only where they must) is shift invariant -/
theorem simple_shift (l : List (P2 ℝ)) (k : Nat) : Spec.simple (l.rotate k) = Spec.simple l := by
  unfold Spec.simple
  rw [edgesOK_shift, distinct_perm (List.rotate_perm l k), List.length_rotate]

/-- … and reversal invariant: a polygon is simple in either orientation -/
theorem simple_reverse (l : List (P2 ℝ)) : Spec.simple l.reverse = Spec.simple l := by
  unfold Spec.simple
  rw [edgesOK_reverse, distinct_perm (List.reverse_perm l), List.length_reverse]

/-- `_is_simple`'s translate-to-the-mean / divide-by-the-extent preparation never changes the verdict -/
theorem is_simple_normalisation_irrelevant (planar : List (V3 ℝ)) :
    isSimple planar = edgesOK (planar.map xy) := isSimple_eq planar

/-- `edgesOK` is invariant under translation and positive scaling (size and position do not matter) -/
theorem edgesOK_similarity (c : P2 ℝ) {k : ℝ} (hk : 0 < k) (l : List (P2 ℝ)) :
    edgesOK (l.map fun p => ⟨(p.x - c.x) / k, (p.y - c.y) / k⟩) = edgesOK l :=
  edgesOK_aff c hk l

/-! ## 2. `Polygon.__init__` -/

section polygon
variable (ndim ncols : Nat) (rows : List (V3 ℝ)) (normal : Option (V3 ℝ)) (ptol : ℝ) (ts : Bool)
  (align : V3 ℝ → List (V3 ℝ) → List (V3 ℝ))

/-- anything that is not an `(N,2)` / `(N,3)` array is rejected first -/
theorem polygon_new_rejects_shape (h : ndim ≠ 2 ∨ (ncols ≠ 2 ∧ ncols ≠ 3)) :
    Polygon.new ndim ncols rows normal ptol ts align = .error "ValueError:shape" := by
  unfold Polygon.new; rw [if_pos h]

/-- **fewer than three vertices are rejected** (whatever else is wrong with them) -/
theorem polygon_new_rejects_short (hs : ndim = 2 ∧ (ncols = 2 ∨ ncols = 3)) (h : rows.length < 3) :
    Polygon.new ndim ncols rows normal ptol ts align = .error "ValueError:short" := by
  unfold Polygon.new
  rw [if_neg (by omega), if_pos h]

/-- `hasDup` is exactly "two rows of the raw array are equal" -/
theorem hasDup_false_iff (ncols : Nat) (rows : List (V3 ℝ)) :
    hasDup ncols rows = false ↔ rows.Pairwise (fun u v => rowEqb ncols u v = false) := by
  induction rows with
  | nil => simp [hasDup]
  | cons v vs ih =>
    simp only [hasDup, Bool.or_eq_false_iff, List.any_eq_false, List.pairwise_cons, ih, Bool.not_eq_true]

theorem rowEqb_three_iff (u v : V3 ℝ) : rowEqb 3 u v = true ↔ u = v := by
  unfold rowEqb
  simp only [Bool.and_eq_true, Bool.or_eq_true, eqb_iff]
  cases u; cases v
  simp [and_assoc]

/-- **duplicate vertices are rejected** -/
theorem polygon_new_rejects_duplicates (hs : ndim = 2 ∧ (ncols = 2 ∨ ncols = 3)) (h3 : 3 ≤ rows.length)
    (hd : hasDup ncols rows = true) :
    Polygon.new ndim ncols rows normal ptol ts align = .error "ValueError:duplicate" := by
  unfold Polygon.new
  rw [if_neg (by omega), if_neg (by omega), if_pos hd]

/-- for `(N,3)` input: any repeated point is rejected, wherever it sits in the list -/
theorem polygon_new_rejects_repeated_point (h3 : 3 ≤ rows.length) (hd : ¬ rows.Nodup) :
    Polygon.new 2 3 rows normal ptol ts align = .error "ValueError:duplicate" := by
  apply polygon_new_rejects_duplicates 2 3 rows normal ptol ts align ⟨rfl, Or.inr rfl⟩ h3
  by_contra hc
  rw [Bool.not_eq_true, hasDup_false_iff] at hc
  apply hd
  refine hc.imp ?_
  intro u v huv heq
  rw [← rowEqb_three_iff] at heq
  rw [heq] at huv; exact Bool.noConfusion huv

/-- the coded orthogonality test of a supplied normal, spelled out -/
theorem chooseNormal_some_iff (computed nv n : V3 ℝ) :
    chooseNormal computed (some nv) = .ok n ↔
      n = V3.sdiv nv (V3.norm nv) ∧
      |(|V3.dot computed (V3.sdiv nv (V3.norm nv))|) - 1| ≤ 1 / 100000000 + 1 / 100000 * |(1:ℝ)| := by
  unfold chooseNormal isclose rtolDefault atolDefault
  simp only [lit_one, Scalar.q, Scalar.ofNat_real, Scalar.abs_real, decide_eq_true_eq]
  split_ifs with h
  · constructor
    · intro he; injection he with he; exact ⟨he.symm, by push_cast at h; exact h⟩
    · rintro ⟨he, _⟩; rw [he]
  · constructor
    · intro he; cases he
    · rintro ⟨_, h'⟩; exact absurd (by push_cast; exact h') h

theorem chooseNormal_none (computed : V3 ℝ) : chooseNormal computed none = .ok computed := rfl

/-- the coded coplanarity loop, spelled out: every vertex within `1e-8 + planar_tolerance·|d|` of the plane
`n·x = d` through vertex 0 -/
theorem coplanar_iff (n : V3 ℝ) (verts : List (V3 ℝ)) (ptol : ℝ) :
    coplanar n verts ptol = true ↔
      ∀ v ∈ verts, |V3.dot n v - V3.dot n (verts.getD 0 V3.zero)|
        ≤ 1 / 100000000 + ptol * |V3.dot n (verts.getD 0 V3.zero)| := by
  unfold coplanar isclose atolDefault
  simp only [List.all_eq_true, decide_eq_true_eq, Scalar.q, Scalar.ofNat_real, Scalar.abs_real]
  push_cast
  exact Iff.rfl

/-- **The decision logic of `Polygon.__init__`.** The constructor accepts iff the input is an `(N,2)`/`(N,3)`
array of at least three pairwise different rows, the normal (first corner, or the supplied one passing the
orthogonality test) passes the coded coplanarity test on every vertex and — when `test_simple` — the aligned
vertices form a cycle whose edges meet only where they must. The stored arrays are new ones. -/
theorem polygon_new_accepts_iff (p : Poly ℝ) :
    Polygon.new ndim ncols rows normal ptol ts align = .ok p ↔
      ndim = 2 ∧ (ncols = 2 ∨ ncols = 3) ∧ 3 ≤ rows.length ∧ hasDup ncols rows = false ∧
      chooseNormal (cornerNormal (rows.map (pad ncols))) normal = .ok p.normal ∧
      coplanar p.normal (rows.map (pad ncols)) ptol = true ∧
      (ts = true → edgesOK ((align p.normal (rows.map (pad ncols))).map xy) = true) ∧
      p = ⟨rows.map (pad ncols), p.normal, .fresh, .fresh⟩ := by
  unfold Polygon.new
  by_cases h1 : ndim ≠ 2 ∨ (ncols ≠ 2 ∧ ncols ≠ 3)
  · rw [if_pos h1]
    constructor
    · intro h; cases h
    · rintro ⟨h, h', _⟩; exfalso; omega
  rw [if_neg h1]
  by_cases h2 : rows.length < 3
  · rw [if_pos h2]
    constructor
    · intro h; cases h
    · rintro ⟨_, _, h, _⟩; exfalso; omega
  rw [if_neg h2]
  by_cases h3 : hasDup ncols rows = true
  · rw [if_pos h3]
    constructor
    · intro h; cases h
    · rintro ⟨_, _, _, h, _⟩; rw [h3] at h; cases h
  rw [if_neg h3]
  have h1' : ndim = 2 ∧ (ncols = 2 ∨ ncols = 3) := by omega
  simp only
  cases hn : chooseNormal (cornerNormal (rows.map (pad ncols))) normal with
  | error e =>
    simp only
    constructor
    · intro h; cases h
    · rintro ⟨_, _, _, _, h, _⟩; cases h
  | ok n =>
    simp only [isSimple_eq]
    by_cases h4 : coplanar n (rows.map (pad ncols)) ptol = true
    · by_cases h5 : ts = true ∧ edgesOK ((align n (rows.map (pad ncols))).map xy) = false
      · obtain ⟨h5a, h5b⟩ := h5
        simp only [h4, h5a, h5b, Bool.not_true, Bool.not_false, Bool.and_self, Bool.false_eq_true, if_false,
          if_true]
        constructor
        · intro h; cases h
        · rintro ⟨_, _, _, _, h, _, h', _⟩
          injection h with h; subst h
          rw [h' trivial] at h5b; cases h5b
      · have h5' : (ts && !edgesOK ((align n (rows.map (pad ncols))).map xy)) = false := by
          cases ts <;> simp_all
        simp only [h4, h5', Bool.not_true, Bool.false_eq_true, if_false]
        constructor
        · intro h; injection h with h; subst h
          refine ⟨h1'.1, h1'.2, by omega, by simpa using h3, rfl, h4, ?_, rfl⟩
          intro hts
          cases hts
          simpa using h5'
        · rintro ⟨_, _, _, _, h, _, _, hp⟩
          injection h with h; subst h
          rw [hp]
    · simp only [h4, Bool.not_false, if_true]
      constructor
      · intro h; cases h
      · rintro ⟨_, _, _, _, h, h', _⟩
        injection h with h; subst h
        exact absurd h' h4

/-- an accepted polygon never holds the caller's arrays -/
theorem polygon_new_fresh (p : Poly ℝ) (h : Polygon.new ndim ncols rows normal ptol ts align = .ok p) :
    p.verticesSrc = .fresh ∧ p.normalSrc = .fresh := by
  have := (polygon_new_accepts_iff ndim ncols rows normal ptol ts align p).1 h
  obtain ⟨_, _, _, _, _, _, _, hp⟩ := this
  rw [hp]; exact ⟨rfl, rfl⟩

end polygon

end C15
end
