import CoxeterVerif.Lemmas.MeshIOXml
import CoxeterVerif.Lemmas.MeshIOFloatRepr
import CoxeterVerif.Lemmas.MeshIOFloatRound
import CoxeterVerif.Lemmas.MeshIOHeap
import CoxeterVerif.Lemmas.MeshIOGeom
import CoxeterVerif.Lemmas.MeshIOSound
import CoxeterVerif.Lemmas.MeshIOXmlText
/-!
  # C20 — exported mesh files describe exactly the polyhedron

  `toObj … toHtml`, `save` : the model of `coxeter/io.py` and `Polyhedron.save` (Model/MeshIO.lean);
  `readObj … readHtml`     : independent readers written from the format definitions (Spec/MeshIO.lean).

  Every statement is for ALL meshes (any number of vertices and faces, any face lengths ≥ 3) over abstract
  coordinate tokens; `m.WF` says: every coordinate token is non-empty, contains no blank / newline / comma and
  does not begin with `#` (true of everything Python's `str(float)` prints), faces have ≥ 3 in-range indices.
  `ver` (`__version__`) and `cls` (the class name) are arbitrary well-formed tokens.

  OBJ, OFF, PLY, VTK, STL are proved at the level of the file's CHARACTERS: `read (write m)` where `write`
  assembles the text as the Python does and `read` splits it at newlines and blanks.  X3D / HTML are proved at
  the level of the element tree (serialisation tree ↔ text is checked byte-for-byte and by an XML/HTML parser
  in the harness, not proved).

  A reader answers `some m'` only if the element counts declared in the file are exactly the numbers of
  vertex / face records that follow and nothing is left over (`readBody`, `readVtkBody`), so each round-trip
  theorem contains "declared counts = data counts".

  Deepening round (second half of this file):
  * NUMBERS.  `tokSignMag` / `ReadsAs` (Spec) give a coordinate token its exact rational value and say when a correctly
    rounding reader (ties to even) returns a given IEEE double for it.  `ReadsAs` is a function of the token
    (`coord_token_unique`), implies the token hypotheses of the round-trip theorems (`coord_token_wf`), and the
    `_exact` theorems say: re-reading the written file yields tokens that read as EXACTLY the shape's doubles, under the
    certificate `coordsReadAs tokens doubles` — a decidable predicate the driver evaluates over ℚ on every run, on the
    tokens of the real files.  `str_coord_value`: the model of `str(coord)` (`floatRepr`) prints, for every digit
    string and decimal-point position, a token of the grammar with value `± digits · 10^(decpt − n)`: the only
    external fact left is dtoa's contract that those digits round to the coordinate (`str_coord_reads_back`);
    `export_roundtrip_exact` puts the pieces together: doubles + dtoa's contract ⇒ exact round trip, nothing else.
  * NO MUTATION.  `export_no_mutation` on the heap model of the writers (`deepcopy` + the `centroid[i] -= m` loop of
    `to_stl`, the `edges` cache of `to_off`): every array that existed keeps its contents, the shape's attributes hold
    the same arrays, and the printed coordinates are the shape's own vertices (the STL "shift" is without effect, so
    the STL reader recovers the vertices themselves, not a translate); with a shallow copy the theorem is false
    (`export_no_mutation_needs_deepcopy`).
  * STL GEOMETRY over ℝ.  `stl_normals_outward`: for a planar convex face listed counter-clockwise about `n`, every
    printed facet normal `cross(t1−t0, t2−t1)` is a POSITIVE multiple of `n`; `stl_normals_sum` / `stl_fan_area`: the
    facet normals add up to the face's (doubled) area vector and the facet areas to the face area;
    `stl_facets_face_local`, `stl_corner_tokens_face_local`, `stl_normal_translation_invariant`: which corners, in which
    order, with which normal is a function of the face cycle and its own corners only — no other vertex, no vertex
    mean, no origin enters (a writer that re-orients facets against the vertex mean disagrees with the model on
    non-star-shaped solids).
  * READERS REJECT WRONG COUNTS.  `declared_counts_*`: whatever text the OFF / PLY / VTK readers accept, its declared
    vertex and face counts (and the VTK size field) are the counts of the data returned; OBJ indices are 1-based
    (`0` is rejected) and in range; X3D faces are in range with ≥ 3 corners.

  * XML TEXT.  `parseXml` (Lemmas/MeshIOXmlText.lean: an XML 1.0 element parser over characters — names, quoted
    attribute values, the predefined entities and character references, nested content, matching end tags) inverts the
    model of ElementTree's serialiser on every tree with XML names (`xml_parse_render`); hence the X3D and HTML round
    trips hold at the level of the file's CHARACTERS too (`read_write_x3d_text_partial`, `read_write_html_text`).

  Still not theorems (checked on the real files by harness/c20.py only): outward orientation of the face cycles
  themselves and signed volume (C01/C07's business), the edge count of the OFF header being the number of undirected
  edges (only `2·E = Σ face degrees` for closed surfaces is proved, `off_edge_count`).
-/
set_option maxRecDepth 4000
open MeshIO

/-! ### witnesses: a square pyramid (one quadrilateral, four triangles; signs, exponent notation) -/

def C20.pyramid : Mesh :=
  ⟨[(cs!"1.0", cs!"1.0", cs!"0.0"), (cs!"-1.0", cs!"1.0", cs!"0.0"), (cs!"-1.0", cs!"-1.0", cs!"0.0"),
    (cs!"1.0", cs!"-1.0", cs!"0.0"), (cs!"1e-07", cs!"-2.5e-05", cs!"1.5")],
   [[0, 3, 2, 1], [0, 1, 4], [1, 2, 4], [2, 3, 4], [3, 0, 4]]⟩

theorem C20.pyramid_wf : C20.pyramid.WF := ⟨by decide, by decide, by decide⟩

def C20.ver090 : Str := cs!"0.9.0"
def C20.clsCP : Str := cs!"ConvexPolyhedron"
/-- a stand-in for the printed normal (any function into well-formed tokens will do) -/
def C20.nrm0 : V3T → V3T → V3T → V3T := fun _ _ _ => (cs!"0.0", cs!"-0.0", cs!"4.0")
theorem C20.nrm0_wf : WFNrm C20.nrm0 := fun _ _ _ => by simp only [C20.nrm0]; decide
open C20

/-! ### OBJ -/

/-- P1. The OBJ text re-read by the OBJ reader is the mesh: same vertex tokens in the same order, same
    0-based face cycles (written 1-based), for every well-formed mesh. -/
theorem read_write_obj (ver cls : Str) (m : Mesh) (hv : WFTok ver) (hc : WFTok cls) (h : m.WF) :
    readObj (toObj ver cls m) = some m := by
  unfold readObj
  rw [toObj_eq _ _ _ h.ne_nil, tokenize_render (by simp [objLines]) (wf_objLines hv hc h), readObjT_objLines h]
  simp [checked, h.inRange]

example : readObj (toObj ver090 clsCP pyramid) = some pyramid :=
  read_write_obj _ _ _ (by decide) (by decide) pyramid_wf

/-! ### OFF -/

/-- The OFF counts line is written `<V> f<F> <E>`; the reader of the format definition cannot read `f<F>` as
    an integer and rejects the file — for EVERY well-formed mesh, not only the witness. -/
theorem off_roundtrip_fails_all (ver cls : Str) (m : Mesh) (hv : WFTok ver) (hc : WFTok cls) (h : m.WF) :
    readOff (toOff ver cls m) = none := by
  unfold readOff readOffWith
  rw [off_stream hv hc h]
  simp [parseNat_dec, parseNat_nondigit]

/-- P1 (negative, KNOWN finding `io.to_off:counts-line-stray-f`): on the pyramid the OFF round trip fails. -/
theorem off_roundtrip_fails : ¬ (readOff (toOff ver090 clsCP pyramid) = some pyramid) := by
  decide +kernel

/-- P1 (partial): a reader that forgives the stray `f` of the counts line recovers the mesh exactly; the
    declared vertex and face counts are the data counts.  Missing for the full property: the file as written
    is not an OFF file (`off_roundtrip_fails_all`). -/
theorem off_roundtrip_partial (ver cls : Str) (m : Mesh) (hv : WFTok ver) (hc : WFTok cls) (h : m.WF) :
    readOffLenient (toOff ver cls m) = some m := by
  unfold readOffLenient readOffWith
  rw [off_stream hv hc h]
  simp [parseNat_dec, readBody_flat m h.inRange]

example : readOffLenient (toOff ver090 clsCP pyramid) = some pyramid :=
  off_roundtrip_partial _ _ _ (by decide) (by decide) pyramid_wf

/-- directed edges of all face cycles -/
def C20.dirEdges (faces : List (List Nat)) : List (Nat × Nat) :=
  faces.flatMap fun f => f.zip (f.drop 1 ++ f.take 1)

/-- The edge count of the OFF header (`len(shape.edges)`: directed edges `i < j`) is half the total face
    degree whenever the surface is closed and oriented consistently (every directed edge is matched by its
    reverse) and no face repeats a vertex consecutively. -/
theorem off_edge_count (faces : List (List Nat))
    (hclosed : (dirEdges faces).Perm ((dirEdges faces).map Prod.swap))
    (hloop : ∀ e ∈ dirEdges faces, e.1 ≠ e.2) :
    2 * (edgePairs faces).length = (dirEdges faces).length := by
  have he : edgePairs faces = (dirEdges faces).filter fun ij => ij.1 < ij.2 := by
    simp [edgePairs, dirEdges, List.filter_flatMap]
  rw [he, ← List.countP_eq_length_filter,
    List.length_eq_countP_add_countP (fun ij : Nat × Nat => decide (ij.1 < ij.2)) (l := dirEdges faces)]
  have h1 : List.countP (fun a : Nat × Nat => decide ¬decide (a.1 < a.2) = true) (dirEdges faces)
      = List.countP (fun ij : Nat × Nat => decide (ij.2 < ij.1)) (dirEdges faces) := by
    apply List.countP_congr
    intro e he
    have := hloop e he
    simp only [decide_eq_true_eq]
    omega
  have h2 : List.countP (fun ij : Nat × Nat => decide (ij.2 < ij.1)) (dirEdges faces)
      = List.countP (fun ij : Nat × Nat => decide (ij.1 < ij.2)) ((dirEdges faces).map Prod.swap) := by
    rw [List.countP_map]; rfl
  rw [h1, h2, ← hclosed.countP_eq]
  omega

example : 2 * (edgePairs pyramid.faces).length = (dirEdges pyramid.faces).length :=
  off_edge_count _ (by decide) (by decide)

/-! ### PLY, VTK -/

/-- P1. PLY: header (`element vertex V`, `element face F`, property declarations) and body are read back to
    exactly the mesh; the declared counts are the record counts. -/
theorem read_write_ply (ver cls : Str) (m : Mesh) (hv : WFTok ver) (hc : WFTok cls) (h : m.WF) :
    readPly (toPly ver cls m) = some m := readPly_toPly hv hc h

example : readPly (toPly ver090 clsCP pyramid) = some pyramid :=
  read_write_ply _ _ _ (by decide) (by decide) pyramid_wf

/-- P1. VTK: `POINTS V float`, `POLYGONS F size` with `size = F + Σ face lengths` are read back to exactly the
    mesh; the reader verifies both counts and the size field. -/
theorem read_write_vtk (ver cls : Str) (m : Mesh) (hv : WFTok ver) (hc : WFTok cls) (h : m.WF) :
    readVtk (toVtk ver cls m) = some m := readVtk_toVtk hv hc h

example : readVtk (toVtk ver090 clsCP pyramid) = some pyramid :=
  read_write_vtk _ _ _ (by decide) (by decide) pyramid_wf

-- the same facts by evaluating writer and reader in the kernel (independent of the lemmas)
set_option maxRecDepth 100000 in
example : readVtk (toVtk ver090 clsCP pyramid) = some pyramid ∧ readPly (toPly ver090 clsCP pyramid) = some pyramid
    ∧ readObj (toObj ver090 clsCP pyramid) = some pyramid ∧ readOffLenient (toOff ver090 clsCP pyramid) = some pyramid := by
  decide +kernel

/-! ### STL -/

/-- P1. The STL text is read back as exactly the fan triangles of every face, in face order, with the corner
    tokens of the mesh (no coordinate is shifted or re-printed) and the printed normal of each triangle. -/
theorem read_write_stl (cls : Str) (nrm : V3T → V3T → V3T → V3T) (m : Mesh) (hc : WFTok cls) (hn : WFNrm nrm)
    (h : m.WF) :
    readStl (toStl cls nrm m)
      = some ((m.faces.flatMap fun f => (fan f).map fun t => (vat m t.1, vat m t.2.1, vat m t.2.2)).map
          fun t => (nrm t.1 t.2.1 t.2.2, t.1, t.2.1, t.2.2)) :=
  readStl_toStl hc hn h

example : (readStl (toStl clsCP nrm0 pyramid)).map List.length = some 6 := by
  rw [read_write_stl _ _ _ (by decide) nrm0_wf pyramid_wf]
  decide

/-- P1. The fan of a face of length k has k−2 triangles; triangle i is (f₀, f_{i+1}, f_{i+2}); gluing the third
    corners back onto the first two gives the face cycle: the fan uses exactly the face's vertices, in order. -/
theorem stl_fan_covers (f : List Nat) (h : 3 ≤ f.length) :
    (fan f).length = f.length - 2
    ∧ (∀ i, i + 2 < f.length → (fan f)[i]? = some (f[0]!, f[i + 1]!, f[i + 2]!))
    ∧ f.take 2 ++ (fan f).map (·.2.2) = f :=
  ⟨fan_length f, fun i hi => fan_getElem? f i hi, fan_unfan f h⟩

example : fan [7, 3, 9, 4, 1] = [(7, 3, 9), (7, 9, 4), (7, 4, 1)] := by decide

/-! ### X3D, HTML -/

/-- the `point_indices` insertion loop of `to_x3d` produces, face after face, consecutive indices followed by −1 -/
theorem x3d_coordIndex (faces : List (List Nat)) :
    pointIndices faces = cleanIdx 0 (faces.map List.length) := pointIndices_eq faces

example : pointIndices [[5, 6, 7], [9, 8, 7, 6]] = [0, 1, 2, -1, 3, 4, 5, 6, -1] := by decide

/-- P1 (negative, finding `io.to_x3d:element-name-case`): the document element is `x3d` and the shape node
    `shape`; a reader of the X3D XML encoding (case-sensitive names `X3D`, `Shape`) finds no scene — for every mesh. -/
theorem x3d_roundtrip_fails_all (cls : Str) (m : Mesh) : readX3d (x3dTree false cls m) = none :=
  readX3d_tree_none false cls m

theorem x3d_roundtrip_fails : ¬ (readX3d (x3dTree false clsCP pyramid) = some (expand pyramid)) := by
  decide +kernel

/-- P1 (partial): a reader that ignores the case of names reads the `IndexedFaceSet` as the EXPANDED mesh: one
    point per face corner, faces = consecutive index ranges; `coordIndex` is −1-separated, all indices are in
    range, `point` has 3 numbers per index.  Missing: the element names (`x3d_roundtrip_fails_all`); the
    serialisation of the tree to text (harness). -/
theorem read_write_x3d_partial (cls : Str) (m : Mesh) (h : m.WF) :
    readX3dLenient (x3dTree false cls m) = some (expand m) := readX3dLenient_tree false cls h

example : readX3dLenient (x3dTree false clsCP pyramid) = some (expand pyramid) :=
  read_write_x3d_partial _ _ pyramid_wf

/-- P1. Re-indexing the expanded mesh gives back, face by face, the corner coordinates of the original cycles. -/
theorem x3d_reindex (m : Mesh) : corners (expand m) = corners m := corners_expand m

example : (corners (expand pyramid)).map List.length = [4, 3, 3, 3, 3] := by
  rw [x3d_reindex]; decide

/-- P1. The X3DOM page (`html/body/x3d/…`, names matched as an HTML parser does) carries the same expanded mesh. -/
theorem read_write_html (cls : Str) (m : Mesh) (h : m.WF) :
    readHtml (htmlTree cls m) = some (expand m) := readHtml_tree cls h

example : readHtml (htmlTree clsCP pyramid) = some (expand pyramid) := read_write_html _ _ pyramid_wf

/-! ### save -/

/-- P1. `save` dispatches each of the seven type strings to its writer. -/
theorem save_dispatch (ver cls : Str) (nrm : V3T → V3T → V3T → V3T) (m : Mesh) :
    save cs!"OBJ" ver cls nrm m = .ok (toObj ver cls m)
    ∧ save cs!"OFF" ver cls nrm m = .ok (toOff ver cls m)
    ∧ save cs!"STL" ver cls nrm m = .ok (toStl cls nrm m)
    ∧ save cs!"PLY" ver cls nrm m = .ok (toPly ver cls m)
    ∧ save cs!"VTK" ver cls nrm m = .ok (toVtk ver cls m)
    ∧ save cs!"X3D" ver cls nrm m = .ok (toX3d cls m)
    ∧ save cs!"HTML" ver cls nrm m = .ok (toHtml cls m) := by
  refine ⟨?_, ?_, ?_, ?_, ?_, ?_, ?_⟩ <;> simp [save]

example : save cs!"PLY" ver090 clsCP nrm0 pyramid = .ok (toPly ver090 clsCP pyramid) :=
  (save_dispatch _ _ _ _).2.2.2.1

/-- P1. Every other type string raises ValueError. -/
theorem save_unknown (ft ver cls : Str) (nrm : V3T → V3T → V3T → V3T) (m : Mesh)
    (h : ft ∉ [cs!"OBJ", cs!"OFF", cs!"STL", cs!"PLY", cs!"VTK", cs!"X3D", cs!"HTML"]) :
    save ft ver cls nrm m = .error "ValueError" := by
  simp only [List.mem_cons, List.not_mem_nil, or_false, not_or] at h
  simp [save, h.1, h.2.1, h.2.2.1, h.2.2.2.1, h.2.2.2.2.1, h.2.2.2.2.2.1, h.2.2.2.2.2.2]

example : save cs!"obj" ver090 clsCP nrm0 pyramid = .error "ValueError" :=
  save_unknown _ _ _ _ _ (by decide)


/-! ## Deepening round

### numbers: coordinate tokens read back as exactly the coordinates -/

/-- A token that a correctly rounding reader turns into some double is a well-formed coordinate token (non-empty, no
    blank / newline / comma, not a `#` comment): the certificate subsumes the token hypotheses of `Mesh.WF`. -/
theorem coord_token_wf {t : Tok} {b : Nat} (h : ReadsAs t b) : WFCoord t := h.wf

example : ReadsAs cs!"-2.5e-05" 0xBEFA36E2EB1C432D ∧ ReadsAs cs!"0.1" 0x3FB999999999999A
    ∧ ¬ ReadsAs cs!"0.1" 0x3FB9999999999999 ∧ ReadsAs cs!"-0.0" 0x8000000000000000 ∧ ¬ ReadsAs cs!"0.0" 0x8000000000000000 := by
  unfold ReadsAs; decide +kernel

/-- Correct rounding (to nearest, ties to even) is a function: a token reads as at most one double, sign of zero
    included.  So "`ReadsAs tok x`" is the same as "the reader returns exactly `x`". -/
theorem coord_token_unique {t : Tok} {b b' : Nat} (h : ReadsAs t b) (h' : ReadsAs t b') : b = b' := h.unique h'

/-- `str(coord)` (CPython `float_repr`, = numpy's `float64.__str__`) as modelled by `floatRepr`: for EVERY non-empty
    digit string `ds` (digits < 10) and every decimal-point position `decpt` that dtoa may deliver, in all four layouts
    (`d.ddde±XX`, `0.000ddd`, `dd.ddd`, `ddd000.0`), the printed token belongs to the number grammar of the readers,
    carries the sign, and its exact value is `ds · 10^(decpt − len ds)`. -/
theorem str_coord_value (neg : Bool) (ds : List Nat) (decpt : Int) (hne : ds ≠ []) (hd : ∀ d ∈ ds, d < 10) :
    tokSignMag (floatRepr neg ds decpt) = some (neg, scale10 (digitsVal ds) (decpt - (ds.length : Int))) :=
  tokSignMag_floatRepr neg ds decpt hne hd

example : floatRepr true [2, 5] (-4) = cs!"-2.5e-05" ∧ floatRepr false [1] 17 = cs!"1e+16"
    ∧ floatRepr false [1, 2, 3, 4, 5] 3 = cs!"123.45" ∧ floatRepr false [1, 2] 4 = cs!"1200.0"
    ∧ floatRepr true [7] (-2) = cs!"-0.007" ∧ floatRepr true [0] 1 = cs!"-0.0" := by decide

/-- dtoa's contract — the digits it returns, read as a decimal, round to the double `x` (bits `m` below the sign) — is
    all that is needed for `str(x)` to read back as exactly `x`. -/
theorem str_coord_reads_back (neg : Bool) (ds : List Nat) (decpt : Int) (m : Nat) (hne : ds ≠ [])
    (hd : ∀ d ∈ ds, d < 10) (hm : m < 2 ^ 63)
    (hdtoa : roundsMag (scale10 (digitsVal ds) (decpt - (ds.length : Int))) m = true) :
    ReadsAs (floatRepr neg ds decpt) ((if neg then 2 ^ 63 else 0) + m) := by
  unfold ReadsAs readsAsB
  rw [str_coord_value neg ds decpt hne hd]
  have h1 : ((if neg then 2 ^ 63 else 0) + m) % 2 ^ 63 = m := by
    cases neg <;> simp <;> omega
  have h2 : ((if neg then 2 ^ 63 else 0) + m) / 2 ^ 63 = (if neg then 1 else 0) := by
    cases neg <;> simp <;> omega
  have h3 : (if neg then 2 ^ 63 else 0) + m < 2 ^ 64 := by
    cases neg <;> simp <;> omega
  simp only [h1, h2, hdtoa, Bool.and_true, Bool.and_eq_true, decide_eq_true_eq, beq_iff_eq]
  exact ⟨h3, trivial⟩

example : ReadsAs (floatRepr true [2, 5] (-4)) ((if true then 2 ^ 63 else 0) + 0x3EFA36E2EB1C432D) :=
  str_coord_reads_back true [2, 5] (-4) 0x3EFA36E2EB1C432D (by decide) (by decide) (by decide) (by decide +kernel)

/-- P1 (numbers). OBJ, PLY, VTK (and OFF through the forgiving reader): if the certificate `coordsReadAs m.verts xs` holds
    — every vertex token reads as the corresponding double of `xs`, the shape's coordinates; decided per run by the
    driver — then the file is read back to a mesh whose vertex tokens read as EXACTLY `xs`, vertex by vertex, with the
    same face cycles.  No hypothesis on the tokens besides the certificate. -/
theorem read_write_exact (ver cls : Str) (m : Mesh) (xs : List V3B) (hv : WFTok ver) (hc : WFTok cls)
    (hcert : coordsReadAs m.verts xs = true)
    (arity : ∀ f ∈ m.faces, 3 ≤ f.length) (range : ∀ f ∈ m.faces, ∀ i ∈ f, i < m.verts.length) :
    (∀ rd ∈ [readObj (toObj ver cls m), readPly (toPly ver cls m), readVtk (toVtk ver cls m),
              readOffLenient (toOff ver cls m)],
        ∃ m', rd = some m' ∧ AllReadAs m'.verts xs ∧ m'.faces = m.faces)
    ∧ m.verts.length = xs.length := by
  have hwf := wf_of_cert hcert arity range
  have hall := coordsReadAs_sound hcert
  refine ⟨?_, hall.length_eq⟩
  intro rd hrd
  simp only [List.mem_cons, List.not_mem_nil, or_false] at hrd
  rcases hrd with rfl | rfl | rfl | rfl
  · exact ⟨m, read_write_obj ver cls m hv hc hwf, hall, rfl⟩
  · exact ⟨m, read_write_ply ver cls m hv hc hwf, hall, rfl⟩
  · exact ⟨m, read_write_vtk ver cls m hv hc hwf, hall, rfl⟩
  · exact ⟨m, off_roundtrip_partial ver cls m hv hc hwf, hall, rfl⟩

/-- the pyramid's coordinates as doubles -/
def C20.pyramidBits : List V3B :=
  [(0x3FF0000000000000, 0x3FF0000000000000, 0), (0xBFF0000000000000, 0x3FF0000000000000, 0),
   (0xBFF0000000000000, 0xBFF0000000000000, 0), (0x3FF0000000000000, 0xBFF0000000000000, 0),
   (0x3E7AD7F29ABCAF48, 0xBEFA36E2EB1C432D, 0x3FF8000000000000)]

theorem C20.pyramid_cert : coordsReadAs pyramid.verts pyramidBits = true := by decide +kernel

example : ∃ m', readVtk (toVtk ver090 clsCP pyramid) = some m' ∧ AllReadAs m'.verts pyramidBits ∧ m'.faces = pyramid.faces :=
  (read_write_exact ver090 clsCP pyramid pyramidBits (by decide) (by decide) pyramid_cert pyramid_wf.arity
    pyramid_wf.range).1 _ (by simp)

theorem vat_readsAs {m : Mesh} {xs : List V3B} (h : AllReadAs m.verts xs) {i : Nat} (hi : i < m.verts.length) :
    V3ReadsAs (vat m i) (xs.getD i (0, 0, 0)) := by
  unfold vat
  generalize m.verts = vs at h hi
  induction h generalizing i with
  | nil => simp at hi
  | cons hx _ ih =>
    cases i with
    | zero => simpa using hx
    | succ j => simpa using ih (by simpa using hi)

/-- P1 (numbers, STL). Under the same certificate every facet of the re-read STL file has corner tokens that read as
    exactly the coordinates of the fan triangle's three vertices: no coordinate is shifted, rounded or re-printed. -/
theorem read_write_stl_exact (cls : Str) (nrm : V3T → V3T → V3T → V3T) (m : Mesh) (xs : List V3B) (hc : WFTok cls)
    (hn : WFNrm nrm) (hcert : coordsReadAs m.verts xs = true)
    (arity : ∀ f ∈ m.faces, 3 ≤ f.length) (range : ∀ f ∈ m.faces, ∀ i ∈ f, i < m.verts.length) :
    ∃ facets, readStl (toStl cls nrm m) = some facets
      ∧ facets.map (fun fc => (fc.2.1, fc.2.2.1, fc.2.2.2))
          = (m.faces.flatMap fan).map (fun t => (vat m t.1, vat m t.2.1, vat m t.2.2))
      ∧ ∀ f ∈ m.faces, ∀ t ∈ fan f,
          V3ReadsAs (vat m t.1) (xs.getD t.1 (0, 0, 0)) ∧ V3ReadsAs (vat m t.2.1) (xs.getD t.2.1 (0, 0, 0))
          ∧ V3ReadsAs (vat m t.2.2) (xs.getD t.2.2 (0, 0, 0)) := by
  have hwf := wf_of_cert hcert arity range
  have hall := coordsReadAs_sound hcert
  refine ⟨_, read_write_stl cls nrm m hc hn hwf, ?_, ?_⟩
  · simp [List.map_map, Function.comp_def, List.flatMap_def]
  · intro f hf t ht
    have hmem : ∀ {a b c : Nat}, (a, b, c) ∈ fan f → a ∈ f ∧ b ∈ f ∧ c ∈ f := by
      intro a b c h
      cases f with
      | nil => simp [fan] at h
      | cons f0 rest =>
        simp only [fan, List.mem_map] at h
        obtain ⟨bc, hbc, heq⟩ := h
        have h1 := (List.of_mem_zip hbc).1
        have h2 := List.mem_of_mem_drop (List.of_mem_zip hbc).2
        cases heq
        exact ⟨by simp, by simp [h1], by simp [h2]⟩
    obtain ⟨ha, hb, hc'⟩ := hmem (a := t.1) (b := t.2.1) (c := t.2.2) (by simpa using ht)
    exact ⟨vat_readsAs hall (range f hf _ ha), vat_readsAs hall (range f hf _ hb), vat_readsAs hall (range f hf _ hc')⟩

example : ∃ facets, readStl (toStl clsCP nrm0 pyramid) = some facets ∧ facets.length = 6 := by
  obtain ⟨facets, h, hmap, _⟩ := read_write_stl_exact clsCP nrm0 pyramid pyramidBits (by decide) nrm0_wf pyramid_cert
    pyramid_wf.arity pyramid_wf.range
  refine ⟨facets, h, ?_⟩
  have := congrArg List.length hmap
  simpa using this.trans (by decide)

/-- P1 (numbers, X3D / HTML). Every `point` of the expanded mesh the X3D / X3DOM readers return is the token triple of
    the face corner it stands for, which reads as exactly that vertex's coordinates. -/
theorem x3d_points_exact (m : Mesh) (xs : List V3B) (hcert : coordsReadAs m.verts xs = true)
    (range : ∀ f ∈ m.faces, ∀ i ∈ f, i < m.verts.length) :
    (expand m).verts = (m.faces.flatMap id).map (vat m)
    ∧ ∀ f ∈ m.faces, ∀ i ∈ f, V3ReadsAs (vat m i) (xs.getD i (0, 0, 0)) := by
  refine ⟨by simp [expand, corners, List.flatMap_def, List.map_flatten], ?_⟩
  intro f hf i hi
  exact vat_readsAs (coordsReadAs_sound hcert) (range f hf i hi)

example : (expand pyramid).verts.length = 16 := by
  rw [(x3d_points_exact pyramid pyramidBits pyramid_cert pyramid_wf.range).1]; decide

/-! ### everything together: from dtoa's contract to the exact round trip -/

/-- what `dtoa` delivered for one coordinate, and the coordinate itself (`m` = its low 63 bits) -/
structure C20.Dtoa where
  neg : Bool
  ds : List Nat
  decpt : Int
  m : Nat

/-- dtoa's contract: decimal digits whose value rounds (to nearest, ties to even) to the double -/
def C20.Dtoa.Ok (d : C20.Dtoa) : Prop :=
  d.ds ≠ [] ∧ (∀ x ∈ d.ds, x < 10) ∧ d.m < 2 ^ 63
    ∧ roundsMag (scale10 (digitsVal d.ds) (d.decpt - (d.ds.length : Int))) d.m = true
/-- `str(coord)` -/
def C20.Dtoa.tok (d : C20.Dtoa) : Tok := floatRepr d.neg d.ds d.decpt
/-- the coordinate's 64 bits -/
def C20.Dtoa.bits (d : C20.Dtoa) : Nat := (if d.neg then 2 ^ 63 else 0) + d.m

theorem C20.Dtoa.readsAs {d : C20.Dtoa} (h : d.Ok) : ReadsAs d.tok d.bits :=
  str_coord_reads_back d.neg d.ds d.decpt d.m h.1 h.2.1 h.2.2.1 h.2.2.2

/-- If dtoa honours its contract on every coordinate, the certificate holds for the tokens `str(coord)` prints. -/
theorem cert_of_dtoa (vs : List (Dtoa × Dtoa × Dtoa)) (h : ∀ v ∈ vs, v.1.Ok ∧ v.2.1.Ok ∧ v.2.2.Ok) :
    coordsReadAs (vs.map fun v => (v.1.tok, v.2.1.tok, v.2.2.tok)) (vs.map fun v => (v.1.bits, v.2.1.bits, v.2.2.bits))
      = true := by
  induction vs with
  | nil => rfl
  | cons v vs ih =>
    have hv := h v (by simp)
    have h1 : readsAsB v.1.tok v.1.bits = true := C20.Dtoa.readsAs hv.1
    have h2 : readsAsB v.2.1.tok v.2.1.bits = true := C20.Dtoa.readsAs hv.2.1
    have h3 : readsAsB v.2.2.tok v.2.2.bits = true := C20.Dtoa.readsAs hv.2.2
    simp only [List.map_cons, coordsReadAs, h1, h2, h3, Bool.and_self, Bool.true_and]
    exact ih fun w hw => h w (by simp [hw])

/-- P1, end to end for the indexed formats: a polyhedron with vertex coordinates `x` (doubles) and faces `faces`;
    the files are written with `str(coord)` = `floatRepr (dtoa x)`; if dtoa's digits round to the coordinates, then each
    of the OBJ / PLY / VTK / OFF(lenient) files is read back to vertex tokens that read as EXACTLY the doubles `x`, and to
    the same faces — no hypothesis on the printed text is left. -/
theorem export_roundtrip_exact (ver cls : Str) (vs : List (Dtoa × Dtoa × Dtoa)) (faces : List (List Nat))
    (hv : WFTok ver) (hc : WFTok cls) (hd : ∀ v ∈ vs, v.1.Ok ∧ v.2.1.Ok ∧ v.2.2.Ok)
    (arity : ∀ f ∈ faces, 3 ≤ f.length) (range : ∀ f ∈ faces, ∀ i ∈ f, i < vs.length) :
    let m : Mesh := ⟨vs.map fun v => (v.1.tok, v.2.1.tok, v.2.2.tok), faces⟩
    let x : List V3B := vs.map fun v => (v.1.bits, v.2.1.bits, v.2.2.bits)
    ∀ rd ∈ [readObj (toObj ver cls m), readPly (toPly ver cls m), readVtk (toVtk ver cls m),
             readOffLenient (toOff ver cls m)],
      ∃ m', rd = some m' ∧ AllReadAs m'.verts x ∧ m'.faces = faces := by
  intro m x
  exact (read_write_exact ver cls m x hv hc (cert_of_dtoa vs hd) arity (by simpa [m] using range)).1

/-- the tetrahedron (1,1,1), (1,-1,-1), (-1,1,-1), (-1,-1,1) scaled by 2.5e-05: tokens `2.5e-05`, `-2.5e-05` -/
def C20.tinyTet : List (Dtoa × Dtoa × Dtoa) :=
  let p : Dtoa := ⟨false, [2, 5], -4, 0x3EFA36E2EB1C432D⟩
  let n : Dtoa := ⟨true, [2, 5], -4, 0x3EFA36E2EB1C432D⟩
  [(p, p, p), (p, n, n), (n, p, n), (n, n, p)]

theorem C20.tinyTet_ok : ∀ v ∈ tinyTet, v.1.Ok ∧ v.2.1.Ok ∧ v.2.2.Ok := by
  have hp : (⟨false, [2, 5], -4, 0x3EFA36E2EB1C432D⟩ : Dtoa).Ok :=
    ⟨by decide, by decide, by decide, by decide +kernel⟩
  have hn : (⟨true, [2, 5], -4, 0x3EFA36E2EB1C432D⟩ : Dtoa).Ok :=
    ⟨by decide, by decide, by decide, by decide +kernel⟩
  intro v hv
  simp only [tinyTet, List.mem_cons, List.not_mem_nil, or_false] at hv
  rcases hv with rfl | rfl | rfl | rfl <;> exact ⟨by assumption, by assumption, by assumption⟩

example : ∃ m', readPly (toPly ver090 clsCP ⟨tinyTet.map fun v => (v.1.tok, v.2.1.tok, v.2.2.tok),
      [[0, 1, 2], [0, 3, 1], [0, 2, 3], [1, 3, 2]]⟩) = some m'
    ∧ AllReadAs m'.verts (tinyTet.map fun v => (v.1.bits, v.2.1.bits, v.2.2.bits))
    ∧ m'.faces = [[0, 1, 2], [0, 3, 1], [0, 2, 3], [1, 3, 2]] :=
  export_roundtrip_exact ver090 clsCP tinyTet _ (by decide) (by decide) tinyTet_ok (by decide) (by decide) _ (by simp)

/-! ### exporting does not change the shape -/

/-- P1 (no mutation). On the heap model of the writers — `fmt` = 0 OBJ, 1 OFF, 2 STL, 3 PLY, 4 VTK, 5 X3D, 6 HTML; any
    heap of arrays, any `Polyhedron` / `ConvexPolyhedron` object `shape`, any scalar type (ℝ, doubles) — after the
    export (a) every array that existed before the call has the contents it had (vertices, cached centroid, equations,
    faces … of this and of every other object), (b) the shape's attributes hold the same arrays (only the `edges`
    cache may have been filled, by `to_off`), (c) the coordinates that were printed are the contents of the shape's
    own `_vertices`: in particular `to_stl`'s `deepcopy` + "shift to positive coordinates" never shifts anything, the
    STL file carries the vertices themselves. -/
theorem export_no_mutation {α : Type} [Scalar α] (cen : List α → List α) (fmt : Nat) (h : Heap α) (shape : ShapeH) :
    (∀ i, i < h.length → (exportH cen fmt h shape).1.get i = h.get i)
    ∧ (exportH cen fmt h shape).2.1 = { shape with edgesCached := shape.edgesCached || fmt == 1 }
    ∧ (exportH cen fmt h shape).2.2 = h.get shape.vertices :=
  exportH_spec cen fmt h shape

example : (exportH (fun _ => [0, 0, 0]) 2 wHeap wShape).1.get 1 = [0, 0, 0]
    ∧ (exportH (fun _ => [0, 0, 0]) 2 wHeap wShape).2.2 = wHeap.get 0 :=
  ⟨(export_no_mutation _ 2 wHeap wShape).1 1 (by decide), (export_no_mutation _ 2 wHeap wShape).2.2⟩

/-- P1 (no mutation, histories). Any sequence of exports — any formats, any number, any order (`exportsH` folds
    `exportH`) — of a shape whose `_vertices` is an array of the heap: afterwards every array that existed has its old
    contents, the shape object holds the same arrays (`edges` cached iff some export was OFF), and EVERY file of the
    history was printed from the same coordinates, the shape's own vertices: a later file is never displaced by an
    earlier export. -/
theorem export_history_no_mutation {α : Type} [Scalar α] (cen : List α → List α) (fmts : List Nat) (h : Heap α)
    (shape : ShapeH) (hv : shape.vertices < h.length) :
    (∀ i, i < h.length → (exportsH cen fmts h shape).1.get i = h.get i)
    ∧ (exportsH cen fmts h shape).2.1 = { shape with edgesCached := shape.edgesCached || fmts.contains 1 }
    ∧ (∀ vs ∈ (exportsH cen fmts h shape).2.2, vs = h.get shape.vertices)
    ∧ (exportsH cen fmts h shape).2.2.length = fmts.length :=
  exportsH_spec cen fmts h shape hv

example : ∀ vs ∈ (exportsH (fun _ => [0, 0, 0]) [2, 0, 1, 2, 6] wHeap wShape).2.2, vs = wHeap.get 0 :=
  (export_history_no_mutation _ [2, 0, 1, 2, 6] wHeap wShape (by decide)).2.2.1

/-- The `deepcopy` in `to_stl` is what makes `export_no_mutation` true: with a shallow copy (`copy.copy(shape)`, whose
    attributes hold the SAME arrays) the loop `shape.centroid[i] -= m` rewrites the caller's cached `_centroid` of a
    `ConvexPolyhedron` with a negative coordinate — (0,0,0) becomes (1,1,1) for the cube [-1,1]³. -/
theorem export_no_mutation_needs_deepcopy :
    (toStlPreH shallowcopyH (fun _ => [0, 0, 0]) wHeap wShape).1.get 1 = [1, 1, 1]
    ∧ (toStlPreH deepcopyH (fun _ => [0, 0, 0]) wHeap wShape).1.get 1 = [0, 0, 0] :=
  toStlPre_shallow_mutates

/-! ### STL: outward normals, the fan tiles the face (over ℝ) -/

/-- P1 (STL normals). For a planar convex face `f` whose corners `vs i` are listed counter-clockwise about the vector
    `n` (`ConvexCCW`: all corners in a plane ⟂ n, every other corner strictly left of every edge), EVERY facet normal
    `np.cross(t1−t0, t2−t1)` that `to_stl` prints for the fan triangles of `f` is a POSITIVE multiple of `n`: if the
    face cycle is counter-clockwise seen from outside, all its facets' normals point outward. -/
theorem stl_normals_outward {n : V3 ℝ} (vs : Nat → V3 ℝ) (f : List Nat)
    (hc : ConvexCCW n (f.map vs)) (hn : 0 < V3.dot n n) :
    ∀ N ∈ stlFaceNormals vs f, ∃ c : ℝ, 0 < c ∧ N = V3.smul c n :=
  stlFaceNormals_outward vs f hc hn

example : ∀ N ∈ stlFaceNormals (fun i => squareZ2.getD i V3.zero) [0, 1, 2, 3],
    ∃ c : ℝ, 0 < c ∧ N = V3.smul c ⟨0, 0, 1⟩ :=
  stl_normals_outward _ _ (by simpa [squareZ2] using squareZ2_convexCCW) (by norm_num [V3.dot])

/-- P1 (STL tiling, vector form). For EVERY face (convex or not, planar or not) the printed facet normals add up to
    the doubled area vector of the face cycle `Σ pᵢ × pᵢ₊₁` (Newell). -/
theorem stl_normals_sum (vs : Nat → V3 ℝ) (f : List Nat) :
    V3.sum (stlFaceNormals vs f) = newell2 (f.map vs) :=
  stlFaceNormals_sum vs f

example : V3.sum (stlFaceNormals (fun i => squareZ2.getD i V3.zero) [0, 1, 2, 3]) = newell2 squareZ2 := by
  simpa [squareZ2] using stl_normals_sum (fun i => squareZ2.getD i V3.zero) [0, 1, 2, 3]

/-- P1 (STL tiling, areas). For a planar convex counter-clockwise face the facet areas add up to the area of the
    face (`‖newell2‖ = Σ ‖facet normal‖`, both doubled): together with `stl_fan_covers` (the facets' boundary chain is
    the face cycle) and `stl_normals_outward` (all equally oriented) the facets tile the face without overlap. -/
theorem stl_fan_area {n : V3 ℝ} (vs : Nat → V3 ℝ) (f : List Nat)
    (hc : ConvexCCW n (f.map vs)) (h3 : 3 ≤ f.length) (hn : 0 < V3.dot n n) :
    (∃ c : ℝ, 0 < c ∧ newell2 (f.map vs) = V3.smul c n)
    ∧ V3.norm (newell2 (f.map vs)) = Scalar.sum ((stlFaceNormals vs f).map V3.norm) :=
  stlFaceNormals_area_additive vs f hc h3 hn

example : V3.norm (newell2 squareZ2) = Scalar.sum ((stlFaceNormals (fun i => squareZ2.getD i V3.zero) [0, 1, 2, 3]).map V3.norm) := by
  simpa [squareZ2] using (stl_fan_area (n := ⟨0, 0, 1⟩) (fun i => squareZ2.getD i V3.zero) [0, 1, 2, 3]
    (by simpa [squareZ2] using squareZ2_convexCCW) (by decide) (by norm_num [V3.dot])).2

/-! ### the facets of a face depend on that face alone -/

/-- P1 (STL orientation is decided by the face cycle alone). The facets `to_stl` writes for a face `f` — which corners,
    in which ORDER, and the printed normals `cross(t1−t0, t2−t1)` — are a function of the cycle `f` and of the
    coordinates of the corners of `f` only: two vertex arrays that agree on the corners of `f` (whatever other vertices
    the polyhedron has, convex or not, wherever their mean lies) give the same facets with the same orientation and the
    same normals, for any scalar type.  Triangle `i` lists `(f₀, f_{i+1}, f_{i+2})` (`stl_fan_covers`): the direction
    of the face cycle, never reversed.  (A writer that re-orients facets by looking at the vertex mean — seeded change
    r3-C20-2 — is not this function: model/implementation disagreement on non-star-shaped solids.) -/
theorem stl_facets_face_local {α : Type} [Scalar α] (vs vs' : Nat → V3 α) (f : List Nat)
    (h : ∀ i ∈ f, vs i = vs' i) :
    stlFaceNormals vs f = stlFaceNormals vs' f
    ∧ (fan f).map (fun t => (vs t.1, vs t.2.1, vs t.2.2)) = (fan f).map (fun t => (vs' t.1, vs' t.2.1, vs' t.2.2)) := by
  constructor
  · unfold stlFaceNormals
    apply List.map_congr_left
    intro t ht
    obtain ⟨h1, h2, h3⟩ := fan_mem ht
    rw [h _ h1, h _ h2, h _ h3]
  · apply List.map_congr_left
    intro t ht
    obtain ⟨h1, h2, h3⟩ := fan_mem ht
    rw [h _ h1, h _ h2, h _ h3]

/-- the same for the written text: the corner tokens of the facets of `f` are those of the face's own vertices -/
theorem stl_corner_tokens_face_local (m m' : Mesh) (f : List Nat) (h : ∀ i ∈ f, vat m i = vat m' i) :
    (fan f).map (fun t => (vat m t.1, vat m t.2.1, vat m t.2.2))
      = (fan f).map (fun t => (vat m' t.1, vat m' t.2.1, vat m' t.2.2)) := by
  apply List.map_congr_left
  intro t ht
  obtain ⟨h1, h2, h3⟩ := fan_mem ht
  rw [h _ h1, h _ h2, h _ h3]

example : stlFaceNormals (fun i => squareZ2.getD i V3.zero) [0, 1, 2]
    = stlFaceNormals (fun i => (squareZ2 ++ [(⟨5, 5, -7⟩ : V3 ℝ)]).getD i V3.zero) [0, 1, 2] :=
  (stl_facets_face_local _ _ [0, 1, 2] (by
    intro i hi
    simp only [List.mem_cons, List.not_mem_nil, or_false] at hi
    rcases hi with rfl | rfl | rfl <;> simp [squareZ2])).1

/-- P1 (STL normals do not depend on the placement). Translating the solid leaves every printed normal unchanged (over ℝ):
    no reference point — origin, vertex mean, centroid — enters the orientation. -/
theorem stl_normal_translation_invariant (a b c d : V3 ℝ) :
    stlNormal (a + d) (b + d) (c + d) = stlNormal a b c := by
  show V3.cross (V3.sub (V3.add b d) (V3.add a d)) (V3.sub (V3.add c d) (V3.add b d))
    = V3.cross (V3.sub b a) (V3.sub c b)
  simp only [V3.cross, V3.sub, V3.add]
  refine v3_ext ?_ ?_ ?_ <;> (simp only []; ring)

example : stlNormal ((⟨0, 0, 2⟩ : V3 ℝ) + ⟨-7, 3, -2⟩) (⟨1, 0, 2⟩ + ⟨-7, 3, -2⟩) (⟨1, 1, 2⟩ + ⟨-7, 3, -2⟩)
    = stlNormal ⟨0, 0, 2⟩ ⟨1, 0, 2⟩ ⟨1, 1, 2⟩ :=
  stl_normal_translation_invariant _ _ _ _

/-! ### the readers reject wrong counts and indices (for ALL texts, not only the model writer's) -/

/-- P1 (declared counts, OFF / PLY bodies). Whatever token stream `readBody V F` accepts: the declared numbers `V`, `F`
    are exactly the numbers of vertex and face records returned, nothing is left over, every index is in range. -/
theorem declared_counts_body {V F : Nat} {ts : List Tok} {m : Mesh} (h : readBody V F ts = some m) :
    m.verts.length = V ∧ m.faces.length = F ∧ inRange m = true ∧ ts.length = 3 * V + F + sumLen m.faces :=
  ⟨(readBody_sound h).1, (readBody_sound h).2.1, (readBody_sound h).2.2.1, (readBody_sound h).2.2.2.1⟩

example : readBody 2 1 triBody ≠ some triEx ∧ readBody 3 2 triBody ≠ some triEx :=
  ⟨fun h => by have := (declared_counts_body h).1; revert this; decide,
   fun h => by have := (declared_counts_body h).2.1; revert this; decide⟩

/-- P1 (declared counts, PLY). A PLY text the reader accepts declares `element vertex V`, `element face F` with `V`, `F`
    the numbers of vertices and faces it returns. -/
theorem declared_counts_ply {text : Str} {m : Mesh} (h : readPly text = some m) :
    ∃ hd ev ef, plyHeader ((tokenize text).drop 2) [] = some hd ∧ hd.1 = [ev, ef]
      ∧ ev.count = m.verts.length ∧ ef.count = m.faces.length ∧ inRange m = true := by
  obtain ⟨hd, ev, ef, h1, h2, _, _, h5, h6, h7, _⟩ := readPly_sound h
  exact ⟨hd, ev, ef, h1, h2, h5, h6, h7⟩

example : ∃ hd ev ef, plyHeader ((tokenize (toPly ver090 clsCP pyramid)).drop 2) [] = some hd ∧ hd.1 = [ev, ef]
    ∧ ev.count = 5 ∧ ef.count = 5 ∧ inRange pyramid = true :=
  declared_counts_ply (read_write_ply _ _ _ (by decide) (by decide) pyramid_wf)

/-- P1 (declared counts, VTK). A VTK body the reader accepts has `POINTS n`, `POLYGONS nf size` with `n` the number of
    vertices, `nf` the number of faces and `size = nf + Σ face lengths` = the number of integers that follow. -/
theorem declared_counts_vtk {ts : List Tok} {m : Mesh} (h : readVtkBody ts = some m) :
    ∃ n ty nf sz ftail,
      ts = cs!"POINTS" :: n :: ty :: (m.verts.flatMap vtoks ++ cs!"POLYGONS" :: nf :: sz :: ftail)
      ∧ parseNat n = some m.verts.length ∧ parseNat nf = some m.faces.length
      ∧ parseNat sz = some (m.faces.length + sumLen m.faces)
      ∧ ftail.length = m.faces.length + sumLen m.faces ∧ inRange m = true := by
  obtain ⟨n, ty, nf, sz, ftail, h1, _, h3, h4, h5, h6, _, h8⟩ := readVtkBody_sound h
  exact ⟨n, ty, nf, sz, ftail, h1, h3, h4, h5, h6, h8⟩

example : ∃ version title rest, tokenize (toVtk ver090 clsCP pyramid)
      = [cs!"#", cs!"vtk", cs!"DataFile", cs!"Version", version] :: title :: [cs!"ASCII"]
        :: [cs!"DATASET", cs!"POLYDATA"] :: rest ∧ readVtkBody rest.flatten = some pyramid :=
  readVtk_sound (read_write_vtk _ _ _ (by decide) (by decide) pyramid_wf)

/-- P1 (declared counts, OFF). An OFF text a reader accepts (the face count read by `cnt`: strictly, or forgiving the
    stray `f`) declares the numbers of vertices and faces it returns. -/
theorem declared_counts_off {cnt : Tok → Option Nat} {text : Str} {m : Mesh} (h : readOffWith cnt text = some m) :
    ∃ v f e body, ((tokenize text).map stripComment).flatten = cs!"OFF" :: v :: f :: e :: body
      ∧ parseNat v = some m.verts.length ∧ cnt f = some m.faces.length ∧ inRange m = true := by
  obtain ⟨v, f, e, body, _, h1, h2, h3, _, h5, _⟩ := readOffWith_sound h
  exact ⟨v, f, e, body, h1, h2, h3, h5⟩

example : ∃ v f e body, ((tokenize (toOff ver090 clsCP pyramid)).map stripComment).flatten = cs!"OFF" :: v :: f :: e :: body
    ∧ parseNat v = some 5 ∧ (fun t => match t with | 'f' :: r => parseNat r | _ => parseNat t) f = some 5
    ∧ inRange pyramid = true :=
  declared_counts_off (off_roundtrip_partial _ _ _ (by decide) (by decide) pyramid_wf)

/-- P1 (OBJ indices). OBJ face references are 1-based: the token `0` is rejected, a token with value `k` means vertex
    `k − 1`; every mesh the OBJ reader returns has all indices in range and faces of ≥ 3 corners. -/
theorem obj_indices_one_based :
    (∀ {t : Tok} {i : Nat}, parseIdx1 t = some i → parseNat t = some (i + 1))
    ∧ (∀ {t : Tok}, parseNat t = some 0 → parseIdx1 t = none)
    ∧ (∀ {text : Str} {m : Mesh}, readObj text = some m → inRange m = true ∧ ∀ f ∈ m.faces, 3 ≤ f.length) :=
  ⟨fun h => parseIdx1_sound h, fun h => parseIdx1_zero h, fun h => readObj_sound h⟩

example : inRange pyramid = true ∧ ∀ f ∈ pyramid.faces, 3 ≤ f.length :=
  obj_indices_one_based.2.2 (read_write_obj ver090 clsCP pyramid (by decide) (by decide) pyramid_wf)

/-- P1 (X3D indices). Every mesh an X3D / X3DOM reader returns has all `coordIndex` entries in range of `point` and
    faces of ≥ 3 corners. -/
theorem x3d_indices_in_range {eq : Str → Str → Bool} {doc : Xml} {m : Mesh} (h : readX3dWith eq doc = some m) :
    inRange m = true ∧ ∀ f ∈ m.faces, 3 ≤ f.length := readX3dWith_sound h

example : inRange (expand pyramid) = true ∧ ∀ f ∈ (expand pyramid).faces, 3 ≤ f.length :=
  x3d_indices_in_range (read_write_x3d_partial clsCP pyramid pyramid_wf)

/-! ### X3D / HTML at the level of the file's characters -/

/-- The XML parser (names, quoted attribute values with entity / character references decoded, character data, nested
    elements, matching end tags; white space around the document element) inverts the model of ElementTree's serialiser
    — start tag, attributes in order with `_escape_attrib`, `" />"` for an element without text and children, otherwise
    `_escape_cdata` text, children, end tag — on EVERY tree whose tags and attribute names are XML names; attribute
    values and texts are arbitrary strings and come back exactly. -/
theorem xml_parse_render (t : Xml) (h : t.WFX) : parseXml t.render = some t := parseXml_render t h

example : parseXml (Xml.node cs!"a" [(cs!"b", cs!"1 & <2>\t\"q\"")] cs!" " [Xml.node cs!"c" [] [] []]).render
    = some (Xml.node cs!"a" [(cs!"b", cs!"1 & <2>\t\"q\"")] cs!" " [Xml.node cs!"c" [] [] []]) :=
  xml_parse_render _ (by decide)

/-- P1 (X3D, characters; partial). The X3D file as TEXT, parsed as XML and read by the reader that ignores the case of
    names, is the expanded mesh — for every well-formed mesh and every class name.  Missing for the full property: only
    the element names (`x3d_text_roundtrip_fails_all`: the case-sensitive reader finds no scene in the parsed text). -/
theorem read_write_x3d_text_partial (cls : Str) (m : Mesh) (h : m.WF) :
    (parseXml (toX3d cls m)).bind readX3dLenient = some (expand m) := readX3dLenient_parseXml_toX3d cls h

example : (parseXml (toX3d clsCP pyramid)).bind readX3dLenient = some (expand pyramid) :=
  read_write_x3d_text_partial _ _ pyramid_wf

/-- P1 (negative, characters; finding `io.to_x3d:element-name-case`): parsed from the file's text, the document still has
    the root `x3d` and the node `shape`: the reader of the X3D XML encoding returns nothing — for every mesh. -/
theorem x3d_text_roundtrip_fails_all (cls : Str) (m : Mesh) : (parseXml (toX3d cls m)).bind readX3d = none := by
  rw [parseXml_toX3d, Option.bind_some]
  exact x3d_roundtrip_fails_all cls m

/-- P1 (HTML, characters). The HTML file as TEXT — `<!DOCTYPE html>` followed by one XHTML element — parsed and read as
    an X3DOM page (`html/body/x3d/scene/shape/indexedfaceset/coordinate`, HTML name matching) is the expanded mesh. -/
theorem read_write_html_text (cls : Str) (m : Mesh) (h : m.WF) :
    (parseHtmlDoc (toHtml cls m)).bind readHtml = some (expand m) := readHtml_parseHtmlDoc_toHtml cls h

example : (parseHtmlDoc (toHtml clsCP pyramid)).bind readHtml = some (expand pyramid) :=
  read_write_html_text _ _ pyramid_wf
