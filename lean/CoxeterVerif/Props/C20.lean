import CoxeterVerif.Lemmas.MeshIOXml
/-!
  # C20 — exported mesh files describe exactly the polyhedron

  `toObj … toHtml`, `save` : the model of `coxeter/io.py` and `Polyhedron.save` (Model/MeshIO.lean);
  `readObj … readHtml`     : independent readers written from the format definitions (Spec/MeshIO.lean).

  Every statement is for ALL meshes (any number of vertices and faces, any face lengths ≥ 3) over abstract
  coordinate tokens; `m.WF` says: every coordinate token is non-empty, contains no blank / newline / comma and
  does not begin with `#` (true of everything Python's `str(float)` prints), faces have ≥ 3 in-range indices.
  `ver` (`__version__`) and `cls` (the class name) are arbitrary well-formed tokens.

  OBJ, OFF, PLY, VTK, STL are proved at the level of the file's CHARACTERS: `read (write m)` where `write`
  assembles the text as the Python does and `read` splits it at newlines and blanks.  X3D / HTML are proved at
  the level of the element tree (serialisation tree ↔ text is checked byte-for-byte and by an XML/HTML parser
  in the harness, not proved).

  A reader answers `some m'` only if the element counts declared in the file are exactly the numbers of
  vertex / face records that follow and nothing is left over (`readBody`, `readVtkBody`), so each round-trip
  theorem contains "declared counts = data counts".

  Not theorems (checked on the real files by harness/c20.py only): `float(token) == coordinate`, outward
  orientation and signed volume, STL normal direction, the edge count of the OFF header being the number of
  undirected edges (only `2·E = Σ face degrees` for closed surfaces is proved, `off_edge_count`), `save` not
  mutating the shape.
-/
set_option maxRecDepth 4000
open MeshIO

/-! ### witnesses: a square pyramid (one quadrilateral, four triangles; signs, exponent notation) -/

def C20.pyramid : Mesh :=
  ⟨[(cs!"1.0", cs!"1.0", cs!"0.0"), (cs!"-1.0", cs!"1.0", cs!"0.0"), (cs!"-1.0", cs!"-1.0", cs!"0.0"),
    (cs!"1.0", cs!"-1.0", cs!"0.0"), (cs!"1e-07", cs!"-2.5e-05", cs!"1.5")],
   [[0, 3, 2, 1], [0, 1, 4], [1, 2, 4], [2, 3, 4], [3, 0, 4]]⟩

theorem C20.pyramid_wf : C20.pyramid.WF := ⟨by decide, by decide, by decide⟩

def C20.ver090 : Str := cs!"0.9.0"
def C20.clsCP : Str := cs!"ConvexPolyhedron"
/-- a stand-in for the printed normal (any function into well-formed tokens will do) -/
def C20.nrm0 : V3T → V3T → V3T → V3T := fun _ _ _ => (cs!"0.0", cs!"-0.0", cs!"4.0")
theorem C20.nrm0_wf : WFNrm C20.nrm0 := fun _ _ _ => by simp only [C20.nrm0]; decide
open C20

/-! ### OBJ -/

/-- P1. The OBJ text re-read by the OBJ reader is the mesh: same vertex tokens in the same order, same
    0-based face cycles (written 1-based), for every well-formed mesh. -/
theorem read_write_obj (ver cls : Str) (m : Mesh) (hv : WFTok ver) (hc : WFTok cls) (h : m.WF) :
    readObj (toObj ver cls m) = some m := by
  unfold readObj
  rw [toObj_eq _ _ _ h.ne_nil, tokenize_render (by simp [objLines]) (wf_objLines hv hc h), readObjT_objLines h]
  simp [checked, h.inRange]

example : readObj (toObj ver090 clsCP pyramid) = some pyramid :=
  read_write_obj _ _ _ (by decide) (by decide) pyramid_wf

/-! ### OFF -/

/-- The OFF counts line is written `<V> f<F> <E>`; the reader of the format definition cannot read `f<F>` as
    an integer and rejects the file — for EVERY well-formed mesh, not only the witness. -/
theorem off_roundtrip_fails_all (ver cls : Str) (m : Mesh) (hv : WFTok ver) (hc : WFTok cls) (h : m.WF) :
    readOff (toOff ver cls m) = none := by
  unfold readOff readOffWith
  rw [off_stream hv hc h]
  simp [parseNat_dec, parseNat_nondigit]

/-- P1 (negative, KNOWN finding `io.to_off:counts-line-stray-f`): on the pyramid the OFF round trip fails. -/
theorem off_roundtrip_fails : ¬ (readOff (toOff ver090 clsCP pyramid) = some pyramid) := by
  decide +kernel

/-- P1 (partial): a reader that forgives the stray `f` of the counts line recovers the mesh exactly; the
    declared vertex and face counts are the data counts.  Missing for the full property: the file as written
    is not an OFF file (`off_roundtrip_fails_all`). -/
theorem off_roundtrip_partial (ver cls : Str) (m : Mesh) (hv : WFTok ver) (hc : WFTok cls) (h : m.WF) :
    readOffLenient (toOff ver cls m) = some m := by
  unfold readOffLenient readOffWith
  rw [off_stream hv hc h]
  simp [parseNat_dec, readBody_flat m h.inRange]

example : readOffLenient (toOff ver090 clsCP pyramid) = some pyramid :=
  off_roundtrip_partial _ _ _ (by decide) (by decide) pyramid_wf

/-- directed edges of all face cycles -/
def C20.dirEdges (faces : List (List Nat)) : List (Nat × Nat) :=
  faces.flatMap fun f => f.zip (f.drop 1 ++ f.take 1)

/-- The edge count of the OFF header (`len(shape.edges)`: directed edges `i < j`) is half the total face
    degree whenever the surface is closed and oriented consistently (every directed edge is matched by its
    reverse) and no face repeats a vertex consecutively. -/
theorem off_edge_count (faces : List (List Nat))
    (hclosed : (dirEdges faces).Perm ((dirEdges faces).map Prod.swap))
    (hloop : ∀ e ∈ dirEdges faces, e.1 ≠ e.2) :
    2 * (edgePairs faces).length = (dirEdges faces).length := by
  have he : edgePairs faces = (dirEdges faces).filter fun ij => ij.1 < ij.2 := by
    simp [edgePairs, dirEdges, List.filter_flatMap]
  rw [he, ← List.countP_eq_length_filter,
    List.length_eq_countP_add_countP (fun ij : Nat × Nat => decide (ij.1 < ij.2)) (l := dirEdges faces)]
  have h1 : List.countP (fun a : Nat × Nat => decide ¬decide (a.1 < a.2) = true) (dirEdges faces)
      = List.countP (fun ij : Nat × Nat => decide (ij.2 < ij.1)) (dirEdges faces) := by
    apply List.countP_congr
    intro e he
    have := hloop e he
    simp only [decide_eq_true_eq]
    omega
  have h2 : List.countP (fun ij : Nat × Nat => decide (ij.2 < ij.1)) (dirEdges faces)
      = List.countP (fun ij : Nat × Nat => decide (ij.1 < ij.2)) ((dirEdges faces).map Prod.swap) := by
    rw [List.countP_map]; rfl
  rw [h1, h2, ← hclosed.countP_eq]
  omega

example : 2 * (edgePairs pyramid.faces).length = (dirEdges pyramid.faces).length :=
  off_edge_count _ (by decide) (by decide)

/-! ### PLY, VTK -/

/-- P1. PLY: header (`element vertex V`, `element face F`, property declarations) and body are read back to
    exactly the mesh; the declared counts are the record counts. -/
theorem read_write_ply (ver cls : Str) (m : Mesh) (hv : WFTok ver) (hc : WFTok cls) (h : m.WF) :
    readPly (toPly ver cls m) = some m := readPly_toPly hv hc h

example : readPly (toPly ver090 clsCP pyramid) = some pyramid :=
  read_write_ply _ _ _ (by decide) (by decide) pyramid_wf

/-- P1. VTK: `POINTS V float`, `POLYGONS F size` with `size = F + Σ face lengths` are read back to exactly the
    mesh; the reader verifies both counts and the size field. -/
theorem read_write_vtk (ver cls : Str) (m : Mesh) (hv : WFTok ver) (hc : WFTok cls) (h : m.WF) :
    readVtk (toVtk ver cls m) = some m := readVtk_toVtk hv hc h

example : readVtk (toVtk ver090 clsCP pyramid) = some pyramid :=
  read_write_vtk _ _ _ (by decide) (by decide) pyramid_wf

-- the same facts by evaluating writer and reader in the kernel (independent of the lemmas)
set_option maxRecDepth 100000 in
example : readVtk (toVtk ver090 clsCP pyramid) = some pyramid ∧ readPly (toPly ver090 clsCP pyramid) = some pyramid
    ∧ readObj (toObj ver090 clsCP pyramid) = some pyramid ∧ readOffLenient (toOff ver090 clsCP pyramid) = some pyramid := by
  decide +kernel

/-! ### STL -/

/-- P1. The STL text is read back as exactly the fan triangles of every face, in face order, with the corner
    tokens of the mesh (no coordinate is shifted or re-printed) and the printed normal of each triangle. -/
theorem read_write_stl (cls : Str) (nrm : V3T → V3T → V3T → V3T) (m : Mesh) (hc : WFTok cls) (hn : WFNrm nrm)
    (h : m.WF) :
    readStl (toStl cls nrm m)
      = some ((m.faces.flatMap fun f => (fan f).map fun t => (vat m t.1, vat m t.2.1, vat m t.2.2)).map
          fun t => (nrm t.1 t.2.1 t.2.2, t.1, t.2.1, t.2.2)) :=
  readStl_toStl hc hn h

example : (readStl (toStl clsCP nrm0 pyramid)).map List.length = some 6 := by
  rw [read_write_stl _ _ _ (by decide) nrm0_wf pyramid_wf]
  decide

/-- P1. The fan of a face of length k has k−2 triangles; triangle i is (f₀, f_{i+1}, f_{i+2}); gluing the third
    corners back onto the first two gives the face cycle: the fan uses exactly the face's vertices, in order. -/
theorem stl_fan_covers (f : List Nat) (h : 3 ≤ f.length) :
    (fan f).length = f.length - 2
    ∧ (∀ i, i + 2 < f.length → (fan f)[i]? = some (f[0]!, f[i + 1]!, f[i + 2]!))
    ∧ f.take 2 ++ (fan f).map (·.2.2) = f :=
  ⟨fan_length f, fun i hi => fan_getElem? f i hi, fan_unfan f h⟩

example : fan [7, 3, 9, 4, 1] = [(7, 3, 9), (7, 9, 4), (7, 4, 1)] := by decide

/-! ### X3D, HTML -/

/-- the `point_indices` insertion loop of `to_x3d` produces, face after face, consecutive indices followed by −1 -/
theorem x3d_coordIndex (faces : List (List Nat)) :
    pointIndices faces = cleanIdx 0 (faces.map List.length) := pointIndices_eq faces

example : pointIndices [[5, 6, 7], [9, 8, 7, 6]] = [0, 1, 2, -1, 3, 4, 5, 6, -1] := by decide

/-- P1 (negative, finding `io.to_x3d:element-name-case`): the document element is `x3d` and the shape node
    `shape`; a reader of the X3D XML encoding (case-sensitive names `X3D`, `Shape`) finds no scene — for every mesh. -/
theorem x3d_roundtrip_fails_all (cls : Str) (m : Mesh) : readX3d (x3dTree false cls m) = none :=
  readX3d_tree_none false cls m

theorem x3d_roundtrip_fails : ¬ (readX3d (x3dTree false clsCP pyramid) = some (expand pyramid)) := by
  decide +kernel

/-- P1 (partial): a reader that ignores the case of names reads the `IndexedFaceSet` as the EXPANDED mesh: one
    point per face corner, faces = consecutive index ranges; `coordIndex` is −1-separated, all indices are in
    range, `point` has 3 numbers per index.  Missing: the element names (`x3d_roundtrip_fails_all`); the
    serialisation of the tree to text (harness). -/
theorem read_write_x3d_partial (cls : Str) (m : Mesh) (h : m.WF) :
    readX3dLenient (x3dTree false cls m) = some (expand m) := readX3dLenient_tree false cls h

example : readX3dLenient (x3dTree false clsCP pyramid) = some (expand pyramid) :=
  read_write_x3d_partial _ _ pyramid_wf

/-- P1. Re-indexing the expanded mesh gives back, face by face, the corner coordinates of the original cycles. -/
theorem x3d_reindex (m : Mesh) : corners (expand m) = corners m := corners_expand m

example : (corners (expand pyramid)).map List.length = [4, 3, 3, 3, 3] := by
  rw [x3d_reindex]; decide

/-- P1. The X3DOM page (`html/body/x3d/…`, names matched as an HTML parser does) carries the same expanded mesh. -/
theorem read_write_html (cls : Str) (m : Mesh) (h : m.WF) :
    readHtml (htmlTree cls m) = some (expand m) := readHtml_tree cls h

example : readHtml (htmlTree clsCP pyramid) = some (expand pyramid) := read_write_html _ _ pyramid_wf

/-! ### save -/

/-- P1. `save` dispatches each of the seven type strings to its writer. -/
theorem save_dispatch (ver cls : Str) (nrm : V3T → V3T → V3T → V3T) (m : Mesh) :
    save cs!"OBJ" ver cls nrm m = .ok (toObj ver cls m)
    ∧ save cs!"OFF" ver cls nrm m = .ok (toOff ver cls m)
    ∧ save cs!"STL" ver cls nrm m = .ok (toStl cls nrm m)
    ∧ save cs!"PLY" ver cls nrm m = .ok (toPly ver cls m)
    ∧ save cs!"VTK" ver cls nrm m = .ok (toVtk ver cls m)
    ∧ save cs!"X3D" ver cls nrm m = .ok (toX3d cls m)
    ∧ save cs!"HTML" ver cls nrm m = .ok (toHtml cls m) := by
  refine ⟨?_, ?_, ?_, ?_, ?_, ?_, ?_⟩ <;> simp [save]

example : save cs!"PLY" ver090 clsCP nrm0 pyramid = .ok (toPly ver090 clsCP pyramid) :=
  (save_dispatch _ _ _ _).2.2.2.1

/-- P1. Every other type string raises ValueError. -/
theorem save_unknown (ft ver cls : Str) (nrm : V3T → V3T → V3T → V3T) (m : Mesh)
    (h : ft ∉ [cs!"OBJ", cs!"OFF", cs!"STL", cs!"PLY", cs!"VTK", cs!"X3D", cs!"HTML"]) :
    save ft ver cls nrm m = .error "ValueError" := by
  simp only [List.mem_cons, List.not_mem_nil, or_false, not_or] at h
  simp [save, h.1, h.2.1, h.2.2.1, h.2.2.2.1, h.2.2.2.2.1, h.2.2.2.2.2.1, h.2.2.2.2.2.2]

example : save cs!"obj" ver090 clsCP nrm0 pyramid = .error "ValueError" :=
  save_unknown _ _ _ _ _ (by decide)

