import CoxeterVerif.Lemmas.FormFactorIntegral
import CoxeterVerif.Lemmas.FormFactorRect
import CoxeterVerif.Lemmas.FormFactorLimits
import CoxeterVerif.Lemmas.FormFactorPolyhedron
import CoxeterVerif.Lemmas.FormFactorSolidLimit
/-!
  # C12 — the form factor amplitude is the Fourier transform of the shape

  Model: `FF.polygonFF / polyhedronFF / sphereFF` (+ their masked batch versions) mirror
  `compute_form_factor_amplitude` of `polygon.py`, `polyhedron.py`, `sphere.py` as they are NOW.
  Spec:  `Spec.polygonFT` (Green / boundary form with the proved edge integral), `Spec.ballFT`.
  Complex numbers are pairs `Cx ℝ`; `FF.toC` reads a pair as an element of `ℂ`.
  All statements are over ℝ, for every vertex list / face list / wave vector / density.

  What is and is not a theorem here:
  * inside the absolute `np.isclose` windows (`0 < |q∥|² ≤ 1e-8` for a polygon or a face,
    `0 < |q|² ≤ 1e-8` for a solid or a sphere) the code returns the `q = 0` value; there the
    property is FALSE of the code — see the `…_window_fails` theorems; the size of the deviation is bounded by
    `polygon_window_error_bound`, `polyhedron_window_error_bound`, `sphere_window_error_bound`. Every `_partial`
    theorem below carries the hypothesis that the wave vector is outside the window (or exactly zero).
  * Green's theorem and the divergence theorem are NOT assumed any more: the boundary form of a triangle is proved
    equal to the iterated interval integral of `e^{-iq·r}` over the triangle (`triangle_ff_is_integral`), polygons
    follow by edge-chain cancellation over the fan / any checked triangulation (`polygon_ff_eq_fan_integrals`,
    `polygon_ff_eq_region_integral`); the face form of a tetrahedron is proved equal to the triple iterated integral
    (`tetrahedron_ff_is_integral`), closed surfaces follow by face-chain cancellation over the cone
    (`polyhedron_ff_eq_tet_integrals`). What remains as the meaning of "integral over the shape" is: the integral
    over a simplex is `Jacobian ×` the iterated integral over its affine parametrisation (= Lebesgue integral over
    the standard simplex, `FF.triangle_iterated_eq_setIntegral`), and a polygon / solid is the (signed) union of the
    simplices of a triangulation whose boundary chain is its boundary.
  * the sphere's non-zero branch is proved equal to the radial integral `∫₀ᴿ 4π r² sinc(|q| r) dr`
    (`sphere_nonzero_branch_eq_radial`); that the spherical average of `e^{-iq·r}` over a shell is `sinc(|q| r)` is
    not proved.
  * continuity: the formulas (non-zero branches) tend to area / volume as `q∥ → 0` / `q → 0` along every ray
    (`polygon_ff_tendsto_area`, `polyhedron_ff_tendsto_volume`, `sphere_ff_tendsto_volume`, `Filter.Tendsto`); the CODE
    is discontinuous at the window edge (jump bounded by the `…_window_error_bound` theorems), checked numerically.
-/
open Scalar FF
set_option maxRecDepth 4000
noncomputable section

/-! ### the analytic kernel -/

/-- **edge integral** (Mathlib interval integral): `∫₀¹ e^{-i(a+sb)} ds = e^{-i(a+b/2)}·sinc(b/2)`. -/
theorem edge_integral (a b : ℝ) :
    (∫ s in (0:ℝ)..1, Complex.exp (-(Complex.I) * ((a : ℂ) + (s : ℂ) * b))) = toC (Spec.edgeIntegral a b) :=
  edge_integral_closed a b

example : toC (Spec.edgeIntegral 0 0) = 1 := by
  rw [← edge_integral]; simp

/-! ### concrete inputs used by the `example`s -/

/-- unit square in the plane `z = 0`, counter-clockwise about `+z` -/
def exSquare : List (V3 ℝ) := [⟨0, 0, 0⟩, ⟨1, 0, 0⟩, ⟨1, 1, 0⟩, ⟨0, 1, 0⟩]
def exZ : V3 ℝ := ⟨0, 0, 1⟩
/-- a wave vector outside every window, generic direction -/
def exQ : V3 ℝ := ⟨1, 2, 3⟩
/-- a non-zero wave vector inside the window (`|q|² = 2.5e-9`) -/
def exQwin : V3 ℝ := ⟨1 / 20000, 0, 0⟩

theorem exSquare_planar : ∀ v ∈ exSquare, V3.dot (v - (⟨0, 0, 0⟩ : V3 ℝ)) exZ = 0 := by
  intro v hv
  simp only [exSquare, List.mem_cons, List.not_mem_nil, or_false] at hv
  rcases hv with h | h | h | h <;> subst h <;> simp [V3.dot, exZ]

theorem exZ_unit : V3.dot exZ exZ = 1 := by simp [V3.dot, exZ]

theorem exQ_outside : isCloseZero (V3.dot (project exZ exQ) (project exZ exQ)) = false := by
  rw [Bool.eq_false_iff, Ne, isCloseZero_iff]
  simp only [project, exZ, exQ, V3.dot, V3.sub_x, V3.sub_y, V3.sub_z, V3.smul_x, V3.smul_y, V3.smul_z]
  norm_num

theorem exQwin_inside : isCloseZero (V3.dot (project exZ exQwin) (project exZ exQwin)) = true := by
  rw [isCloseZero_iff]
  simp only [project, exZ, exQwin, V3.dot, V3.sub_x, V3.sub_y, V3.sub_z, V3.smul_x, V3.smul_y, V3.smul_z]
  norm_num [abs_le]

/-! ### Polygon: the model is the boundary (Green) form -/

/-- **model = boundary form**: outside the zero window the code's edge sum is
`ρ · sign(signed_area) · (i/|q∥|²) Σ_edges q∥·(e×n̂) ∫₀¹ e^{-i q∥·(u+se)} ds`, for EVERY vertex list,
normal and wave vector (no planarity or orientation assumption). -/
theorem polygon_ff_eq_boundary_form (vs : List (V3 ℝ)) (n qv : V3 ℝ) (rho : ℝ)
    (hq : isCloseZero (V3.dot (project n qv) (project n qv)) = false) :
    polygonFF vs n qv rho =
      Cx.smul (rho * sign (signedArea vs n)) (Spec.boundaryForm vs n (project n qv)) := by
  unfold polygonFF
  simp only [hq, if_false, Bool.false_eq_true, polygonNonzero_eq_boundary]
  ext <;> simp <;> ring

example : polygonFF exSquare exZ exQ 2 =
    Cx.smul (2 * sign (signedArea exSquare exZ)) (Spec.boundaryForm exSquare exZ (project exZ exQ)) :=
  polygon_ff_eq_boundary_form _ _ _ _ exQ_outside

/-- `Polygon.signed_area` is the triangle-fan area of the specification (planar polygon, unit normal). -/
theorem polygon_signed_area_exact (v0 : V3 ℝ) (rest : List (V3 ℝ)) (n : V3 ℝ)
    (hplanar : ∀ v ∈ v0 :: rest, V3.dot (v - v0) n = 0) (hunit : V3.dot n n = 1) :
    signedArea (v0 :: rest) n = Spec.fanArea2 (v0 :: rest) n / 2 :=
  signedArea_eq_fan v0 rest n hplanar hunit (argmax_ne_zero n hunit)

example : signedArea exSquare exZ = Spec.fanArea2 exSquare exZ / 2 :=
  polygon_signed_area_exact _ _ _ exSquare_planar exZ_unit

/-- **F at in-plane zero is ρ · area** (planar polygon, unit normal, exact `q∥ = 0`; in particular
`q = 0` and every `q` along the normal). -/
theorem ff_zero_is_measure (v0 : V3 ℝ) (rest : List (V3 ℝ)) (n qv : V3 ℝ) (rho : ℝ)
    (hplanar : ∀ v ∈ v0 :: rest, V3.dot (v - v0) n = 0) (hunit : V3.dot n n = 1)
    (h0 : V3.dot (project n qv) (project n qv) = 0) :
    polygonFF (v0 :: rest) n qv rho = Cx.ofReal (rho * Spec.polygonMeasure (v0 :: rest) n) := by
  have hsa := polygon_signed_area_exact v0 rest n hplanar hunit
  unfold polygonFF
  simp only [h0, isCloseZero_zero, if_true]
  unfold polygonArea Spec.polygonMeasure
  rw [hsa]
  ext
  · simp [abs_div, Scalar.lit]
  · simp

example : polygonFF exSquare exZ ⟨0, 0, 7⟩ 3 = Cx.ofReal (3 * Spec.polygonMeasure exSquare exZ) :=
  ff_zero_is_measure _ _ _ _ _ exSquare_planar exZ_unit (by simp [project, exZ, V3.dot])

/-- **Polygon = Fourier transform of the region (boundary-form specification)**, for every planar
vertex list with unit normal and every `q` whose in-plane part is exactly zero or outside the
`isclose` window, whatever the orientation of the vertices.
`_partial`: the window `0 < |q∥|² ≤ 1e-8` is excluded — the code is wrong there
(`polygon_ff_translate_window_fails`). `Spec.polygonFT` is the boundary form; that it IS the area integral is
`spec_polygon_ft_is_fan_integral` / `polygon_ff_eq_region_integral` below (no longer trusted). -/
theorem polygon_ff_eq_spec_partial (v0 : V3 ℝ) (rest : List (V3 ℝ)) (n qv : V3 ℝ) (rho : ℝ)
    (hplanar : ∀ v ∈ v0 :: rest, V3.dot (v - v0) n = 0) (hunit : V3.dot n n = 1)
    (hwin : V3.dot (project n qv) (project n qv) = 0 ∨
      isCloseZero (V3.dot (project n qv) (project n qv)) = false) :
    polygonFF (v0 :: rest) n qv rho = Spec.polygonFT (v0 :: rest) n qv rho := by
  have hsa := polygon_signed_area_exact v0 rest n hplanar hunit
  unfold Spec.polygonFT
  change polygonFF (v0 :: rest) n qv rho =
    if Scalar.eqb (V3.dot (project n qv) (project n qv)) (lit 0) then _ else _
  rcases hwin with h0 | hnz
  · rw [ff_zero_is_measure v0 rest n qv rho hplanar hunit h0]
    simp [h0, Scalar.lit]
  · have hne : V3.dot (project n qv) (project n qv) ≠ 0 := by
      intro h; rw [h, isCloseZero_zero] at hnz; cases hnz
    rw [polygon_ff_eq_boundary_form _ _ _ _ hnz]
    simp only [eqb_real, Scalar.lit, Scalar.ofNat_real, Nat.cast_zero, hne, decide_false,
      Bool.false_eq_true, if_false]
    rw [hsa, sign_half]
    rfl

example : polygonFF exSquare exZ exQ 2 = Spec.polygonFT exSquare exZ exQ 2 :=
  polygon_ff_eq_spec_partial _ _ _ _ _ exSquare_planar exZ_unit (Or.inr exQ_outside)

/-- **rectangle = product of two 1-D transforms.** For every rectangle `[0,a]×[0,b]` in the plane `z = 0`
and every `q` with `q_x, q_y ≠ 0` outside the window, the model equals the Fubini closed form
`ρ ∫₀ᵃ e^{-i q_x x} dx · ∫₀ᵇ e^{-i q_y y} dy` — an end-to-end check of the Stokes reduction that does not
rely on Green's theorem. -/
theorem polygon_ff_rectangle_closed_form (a b x y z rho : ℝ) (ha : 0 < a) (hb : 0 < b) (hx : x ≠ 0) (hy : y ≠ 0)
    (hwin : isCloseZero (x * x + y * y) = false) :
    polygonFF (rect a b) zhat ⟨x, y, z⟩ rho = Cx.smul rho (Cx.mul (Spec.segFT 0 a x) (Spec.segFT 0 b y)) :=
  rect_ff_eq_product a b x y z rho ha hb hx hy hwin

example : polygonFF (rect 2 3) zhat ⟨1, 2, 3⟩ 5 = Cx.smul 5 (Cx.mul (Spec.segFT 0 2 1) (Spec.segFT 0 3 2)) :=
  polygon_ff_rectangle_closed_form 2 3 1 2 3 5 (by norm_num) (by norm_num) (by norm_num) (by norm_num)
    (by rw [Bool.eq_false_iff, Ne, isCloseZero_iff]; norm_num)

/-! ### Polygon: laws for every vertex list and every wave vector -/

/-- **F(−q) = conj F(q)** -/
theorem ff_conj (vs : List (V3 ℝ)) (n qv : V3 ℝ) (rho : ℝ) :
    polygonFF vs n (-qv) rho = Cx.conj (polygonFF vs n qv rho) :=
  polygonFF_neg vs n qv rho

example : polygonFF exSquare exZ (-exQ) 2 = Cx.conj (polygonFF exSquare exZ exQ 2) := ff_conj _ _ _ _

/-- reversing the vertex order negates `Polygon.signed_area` -/
theorem signed_area_reverse (vs : List (V3 ℝ)) (n : V3 ℝ) :
    signedArea vs.reverse n = -signedArea vs n :=
  signedArea_reverse vs n

/-- **orientation independence**: reversing the vertex order (clockwise ↔ counter-clockwise about
the stored normal) leaves the amplitude unchanged, in every branch — the edge sum changes sign and so
does `sign(signed_area)`. -/
theorem ff_reverse_invariant (vs : List (V3 ℝ)) (n qv : V3 ℝ) (rho : ℝ) :
    polygonFF vs.reverse n qv rho = polygonFF vs n qv rho :=
  polygonFF_reverse vs n qv rho

example : polygonFF [⟨0, 1, 0⟩, ⟨1, 1, 0⟩, ⟨1, 0, 0⟩, ⟨0, 0, 0⟩] exZ exQ 2 = polygonFF exSquare exZ exQ 2 :=
  ff_reverse_invariant exSquare exZ exQ 2

/-- **translation**: `F_{P+t}(q) = e^{-i q∥·t} F_P(q)` whenever the in-plane wave vector is outside the
window, or the phase is trivial (`q∥·t = 0`, e.g. `q∥ = 0`).
`_partial`: false inside the window, see `polygon_ff_translate_window_fails`. -/
theorem ff_translate_partial (vs : List (V3 ℝ)) (n qv t : V3 ℝ) (rho : ℝ)
    (h : isCloseZero (V3.dot (project n qv) (project n qv)) = false ∨ V3.dot t (project n qv) = 0) :
    polygonFF (vs.map (· + t)) n qv rho =
      Cx.mul (polygonFF vs n qv rho) (Cx.expNegI (V3.dot t (project n qv))) :=
  polygonFF_translate vs n qv t rho h

example : polygonFF (exSquare.map (· + (⟨5, -7, 2⟩ : V3 ℝ))) exZ exQ 2 =
    Cx.mul (polygonFF exSquare exZ exQ 2) (Cx.expNegI (V3.dot ⟨5, -7, 2⟩ (project exZ exQ))) :=
  ff_translate_partial _ _ _ _ _ (Or.inl exQ_outside)

/-- in-plane translations: `q∥·t = q·t` when `t ⟂ n` -/
theorem project_dot_inplane (n qv t : V3 ℝ) (ht : V3.dot n t = 0) :
    V3.dot t (project n qv) = V3.dot t qv := by
  have := dot_project_add n qv t
  rw [ht, mul_zero, add_zero] at this
  exact this

/-- **the code violates the translation law inside the window**: for every polygon of non-zero area,
a wave vector whose in-plane part lies in the `isclose` window and a translation with `q∥·t = π` give
`F_{P+t}(q) = F_P(q)` although the Fourier transform changes sign. -/
theorem polygon_ff_translate_window_fails (vs : List (V3 ℝ)) (n qv t : V3 ℝ)
    (hA : polygonArea vs n ≠ 0)
    (hwin : isCloseZero (V3.dot (project n qv) (project n qv)) = true)
    (hphase : V3.dot t (project n qv) = Real.pi) :
    ¬ (polygonFF (vs.map (· + t)) n qv 1 =
        Cx.mul (polygonFF vs n qv 1) (Cx.expNegI (V3.dot t (project n qv)))) := by
  unfold polygonFF
  simp only [hwin, if_true, polygonArea_translate, hphase]
  intro h
  have := congrArg Cx.re h
  simp at this
  apply hA
  linarith

theorem exSquare_area : polygonArea exSquare exZ = 1 := by
  unfold polygonArea
  rw [show exSquare = (⟨0, 0, 0⟩ : V3 ℝ) :: [⟨1, 0, 0⟩, ⟨1, 1, 0⟩, ⟨0, 1, 0⟩] from rfl,
    polygon_signed_area_exact _ _ _ exSquare_planar exZ_unit]
  simp [Spec.fanArea2, Spec.cyclicPairs, Spec.cyclicPairs.go, V3.cross, V3.dot, exZ]

/-- concrete witness: unit square, `q = (5e-5, 0, 0)`, `t = (20000π, 0, 0)` -/
theorem polygon_ff_translate_fails :
    ¬ (polygonFF (exSquare.map (· + (⟨20000 * Real.pi, 0, 0⟩ : V3 ℝ))) exZ exQwin 1 =
        Cx.mul (polygonFF exSquare exZ exQwin 1)
          (Cx.expNegI (V3.dot ⟨20000 * Real.pi, 0, 0⟩ (project exZ exQwin)))) := by
  apply polygon_ff_translate_window_fails _ _ _ _ _ exQwin_inside
  · simp [project, exZ, exQwin, V3.dot]; ring
  · rw [exSquare_area]; norm_num

/-- **density**: `F(ρ) = ρ · F(1)` -/
theorem ff_density_linear (vs : List (V3 ℝ)) (n qv : V3 ℝ) (rho : ℝ) :
    polygonFF vs n qv rho = Cx.smul rho (polygonFF vs n qv 1) :=
  polygonFF_density vs n qv rho

example : polygonFF exSquare exZ exQ 2 = Cx.smul 2 (polygonFF exSquare exZ exQ 1) := ff_density_linear _ _ _ _

/-- **batch = map of single**: the masked NumPy computation on an `(N,3)` batch (any `N`, any mix of
zero / in-plane-zero / generic rows) returns, row by row, the single-vector value. -/
theorem polygon_batch_eq_map (vs : List (V3 ℝ)) (n : V3 ℝ) (qs : List (V3 ℝ)) (rho : ℝ) :
    polygonFFBatch vs n qs rho = qs.map fun qv => polygonFF vs n qv rho := by
  unfold polygonFFBatch
  have h := scatter_selectNot (Cx.ofReal (polygonArea vs n))
    (fun qp : V3 ℝ => isCloseZero (V3.dot qp qp)) (polygonNonzero vs n) (qs.map (project n))
  dsimp only
  rw [h, List.map_map, List.map_map]
  apply List.map_congr_left
  intro qv _
  simp only [Function.comp_apply, polygonFF]

example : polygonFFBatch exSquare exZ [exQ, ⟨0, 0, 0⟩, ⟨0, 0, 5⟩] 2 =
    [polygonFF exSquare exZ exQ 2, polygonFF exSquare exZ ⟨0, 0, 0⟩ 2, polygonFF exSquare exZ ⟨0, 0, 5⟩ 2] :=
  polygon_batch_eq_map _ _ _ _

/-! ### Polyhedron / ConvexPolyhedron (one method), for every face list -/

/-- the six faces of the unit cube `[0,1]³` as the Python passes them: vertices, `eqn[:3]`, `eqn[3]` -/
def exCube : List (Face ℝ) :=
  [⟨[⟨1,0,0⟩, ⟨1,1,0⟩, ⟨1,1,1⟩, ⟨1,0,1⟩], ⟨1,0,0⟩, -1⟩, ⟨[⟨0,0,0⟩, ⟨0,0,1⟩, ⟨0,1,1⟩, ⟨0,1,0⟩], ⟨-1,0,0⟩, 0⟩,
   ⟨[⟨0,1,0⟩, ⟨0,1,1⟩, ⟨1,1,1⟩, ⟨1,1,0⟩], ⟨0,1,0⟩, -1⟩, ⟨[⟨0,0,0⟩, ⟨1,0,0⟩, ⟨1,0,1⟩, ⟨0,0,1⟩], ⟨0,-1,0⟩, 0⟩,
   ⟨[⟨0,0,1⟩, ⟨1,0,1⟩, ⟨1,1,1⟩, ⟨0,1,1⟩], ⟨0,0,1⟩, -1⟩, ⟨[⟨0,0,0⟩, ⟨0,1,0⟩, ⟨1,1,0⟩, ⟨1,0,0⟩], ⟨0,0,-1⟩, 0⟩]

theorem exCube_unit : ∀ f ∈ exCube, V3.norm f.normal = 1 := by
  intro f hf
  simp only [exCube, List.mem_cons, List.not_mem_nil, or_false] at hf
  rcases hf with h | h | h | h | h | h <;> subst h <;> simp [V3.norm, V3.normSq, V3.dot]

theorem exCube_outside : ∀ f ∈ exCube,
    isCloseZero (V3.dot (project f.normal exQ) (project f.normal exQ)) = false ∨
      V3.dot (⟨5, -7, 2⟩ : V3 ℝ) (project f.normal exQ) = 0 := by
  intro f hf
  left
  simp only [exCube, List.mem_cons, List.not_mem_nil, or_false] at hf
  rw [Bool.eq_false_iff, Ne, isCloseZero_iff]
  rcases hf with h | h | h | h | h | h <;> subst h <;>
    simp only [project, exQ, V3.dot, V3.sub_x, V3.sub_y, V3.sub_z, V3.smul_x, V3.smul_y, V3.smul_z] <;> norm_num

theorem exQ_nonzero : isCloseZero (V3.dot exQ exQ) = false := by
  rw [Bool.eq_false_iff, Ne, isCloseZero_iff]; simp only [exQ, V3.dot]; norm_num

/-- **F(−q) = conj F(q)** for every face list, volume, wave vector and density -/
theorem polyhedron_ff_conj (faces : List (Face ℝ)) (vol : ℝ) (qv : V3 ℝ) (rho : ℝ) :
    polyhedronFF faces vol (-qv) rho = Cx.conj (polyhedronFF faces vol qv rho) :=
  polyhedronFF_neg faces vol qv rho

example : polyhedronFF exCube 1 (-exQ) 2 = Cx.conj (polyhedronFF exCube 1 exQ 2) := polyhedron_ff_conj _ _ _ _

/-- **translation** `F_{P+t}(q) = e^{-i q·t} F_P(q)`: unit face normals, `q` outside the zero window
and, for every face, the in-plane part of `q` outside the window (or with trivial in-plane phase).
`_partial`: false inside the windows (`polyhedron_ff_translate_window_fails`). -/
theorem polyhedron_ff_translate_partial (faces : List (Face ℝ)) (vol : ℝ) (qv t : V3 ℝ) (rho : ℝ)
    (hunit : ∀ f ∈ faces, V3.norm f.normal = 1)
    (hq : isCloseZero (V3.dot qv qv) = false)
    (hf : ∀ f ∈ faces, isCloseZero (V3.dot (project f.normal qv) (project f.normal qv)) = false ∨
      V3.dot t (project f.normal qv) = 0) :
    polyhedronFF (faces.map (Face.translate t)) vol qv rho =
      Cx.mul (polyhedronFF faces vol qv rho) (Cx.expNegI (V3.dot t qv)) := by
  unfold polyhedronFF
  simp only [hq, if_false, Bool.false_eq_true, polyhedronNonzero_translate faces qv t hunit hf]
  ext <;> simp <;> ring

example : polyhedronFF (exCube.map (Face.translate ⟨5, -7, 2⟩)) 1 exQ 2 =
    Cx.mul (polyhedronFF exCube 1 exQ 2) (Cx.expNegI (V3.dot ⟨5, -7, 2⟩ exQ)) :=
  polyhedron_ff_translate_partial _ _ _ _ _ exCube_unit exQ_nonzero exCube_outside

/-- **the code violates the translation law inside the zero window**, for EVERY face list: a solid
of non-zero volume, `0 < |q|² ≤ 1e-8`, `q·t = π` — the code returns the volume for both positions
although the Fourier transform changes sign. -/
theorem polyhedron_ff_translate_window_fails (faces : List (Face ℝ)) (vol : ℝ) (qv t : V3 ℝ)
    (hV : vol ≠ 0) (hwin : isCloseZero (V3.dot qv qv) = true) (hphase : V3.dot t qv = Real.pi) :
    ¬ (polyhedronFF (faces.map (Face.translate t)) vol qv 1 =
        Cx.mul (polyhedronFF faces vol qv 1) (Cx.expNegI (V3.dot t qv))) := by
  unfold polyhedronFF
  simp only [hwin, if_true, hphase]
  intro h
  have := congrArg Cx.re h
  simp at this
  apply hV
  linarith

/-- concrete witness: unit cube, `q = (5e-5,0,0)`, `t = (20000π,0,0)` -/
theorem polyhedron_ff_translate_fails :
    ¬ (polyhedronFF (exCube.map (Face.translate ⟨20000 * Real.pi, 0, 0⟩)) 1 exQwin 1 =
        Cx.mul (polyhedronFF exCube 1 exQwin 1) (Cx.expNegI (V3.dot ⟨20000 * Real.pi, 0, 0⟩ exQwin))) := by
  apply polyhedron_ff_translate_window_fails _ _ _ _ one_ne_zero
  · rw [isCloseZero_iff]; simp only [exQwin, V3.dot]; norm_num [abs_le]
  · simp [exQwin, V3.dot]; ring

/-- **density**: the density argument multiplies the amplitude (the `fcd99e6` repair) -/
theorem polyhedron_ff_density_linear (faces : List (Face ℝ)) (vol : ℝ) (qv : V3 ℝ) (rho : ℝ) :
    polyhedronFF faces vol qv rho = Cx.smul rho (polyhedronFF faces vol qv 1) :=
  polyhedronFF_density faces vol qv rho

example : polyhedronFF exCube 1 exQ 2 = Cx.smul 2 (polyhedronFF exCube 1 exQ 1) :=
  polyhedron_ff_density_linear _ _ _ _

/-- **F(0) = ρ · volume** (`volume` is `self.volume`, exact by C01/C02) -/
theorem polyhedron_ff_zero_is_measure (faces : List (Face ℝ)) (vol : ℝ) (rho : ℝ) :
    polyhedronFF faces vol ⟨0, 0, 0⟩ rho = Cx.ofReal (rho * vol) := by
  unfold polyhedronFF
  have : V3.dot (⟨0, 0, 0⟩ : V3 ℝ) ⟨0, 0, 0⟩ = 0 := by simp [V3.dot]
  simp only [this, isCloseZero_zero, if_true]
  ext <;> simp

example : polyhedronFF exCube 1 ⟨0, 0, 0⟩ 2 = Cx.ofReal (2 * 1) := polyhedron_ff_zero_is_measure _ _ _

/-- **batch = map of single** for every batch size and mix of zero / non-zero rows -/
theorem polyhedron_batch_eq_map (faces : List (Face ℝ)) (vol : ℝ) (qs : List (V3 ℝ)) (rho : ℝ) :
    polyhedronFFBatch faces vol qs rho = qs.map fun qv => polyhedronFF faces vol qv rho := by
  unfold polyhedronFFBatch
  have h := scatter_selectNot (Cx.ofReal vol)
    (fun qv : V3 ℝ => isCloseZero (V3.dot qv qv)) (polyhedronNonzero faces) qs
  dsimp only
  rw [h, List.map_map]
  apply List.map_congr_left
  intro qv _
  simp only [Function.comp_apply, polyhedronFF]

example : polyhedronFFBatch exCube 1 [exQ] 2 = [polyhedronFF exCube 1 exQ 2] := polyhedron_batch_eq_map _ _ _ _

/-! ### Sphere -/

theorem sphere_ff_conj (r : ℝ) (c qv : V3 ℝ) (rho : ℝ) :
    sphereFF r c (-qv) rho = Cx.conj (sphereFF r c qv rho) :=
  sphereFF_neg r c qv rho

/-- translation holds in EVERY branch for the sphere (the phase is applied after the switch) -/
theorem sphere_ff_translate (r : ℝ) (c qv t : V3 ℝ) (rho : ℝ) :
    sphereFF r (c + t) qv rho = Cx.mul (sphereFF r c qv rho) (Cx.expNegI (V3.dot qv t)) :=
  sphereFF_translate r c qv t rho

theorem sphere_ff_density_linear (r : ℝ) (c qv : V3 ℝ) (rho : ℝ) :
    sphereFF r c qv rho = Cx.smul rho (sphereFF r c qv 1) :=
  sphereFF_density r c qv rho

example : sphereFF 2 (⟨1, 2, 3⟩ + ⟨4, 5, 6⟩) exQ 3 = Cx.mul (sphereFF 2 ⟨1, 2, 3⟩ exQ 3) (Cx.expNegI (V3.dot exQ ⟨4, 5, 6⟩)) :=
  sphere_ff_translate _ _ _ _ _

theorem dot_self_nonneg (u : V3 ℝ) : 0 ≤ V3.dot u u := by
  obtain ⟨x, y, z⟩ := u
  simp only [V3.dot]; nlinarith [mul_self_nonneg x, mul_self_nonneg y, mul_self_nonneg z]

/-- **Sphere = Fourier transform of the ball** (`4π (sin qR − qR cos qR)/q³ · e^{-i q·c}`, the volume at
`q = 0`), for every radius `≠ 0`, centre, density, and every `q` that is zero or outside the window.
`_partial`: inside `0 < |q|² ≤ 1e-8` the code returns the full volume whatever the radius. -/
theorem sphere_ff_eq_ball_partial (r : ℝ) (c qv : V3 ℝ) (rho : ℝ) (hr : r ≠ 0)
    (hwin : V3.dot qv qv = 0 ∨ isCloseZero (V3.dot qv qv) = false) :
    sphereFF r c qv rho = Spec.ballFT r c qv rho := by
  unfold sphereFF Spec.ballFT
  rcases hwin with h0 | hnz
  · simp only [h0, isCloseZero_zero, if_true, eqb_real, Scalar.lit, Scalar.ofNat_real, Nat.cast_zero, decide_true]
    ext <;> simp [sphereVolume, Spec.cis, Scalar.q] <;> ring
  · have hne : V3.dot qv qv ≠ 0 := by
      intro h; rw [h, isCloseZero_zero] at hnz; cases hnz
    have hpos : 0 < V3.dot qv qv := lt_of_le_of_ne (dot_self_nonneg qv) (Ne.symm hne)
    simp only [hnz, if_false, Bool.false_eq_true, eqb_real, Scalar.lit, Scalar.ofNat_real, Nat.cast_zero,
      hne, decide_false, Nat.cast_ofNat, Scalar.sqrt_real, Scalar.pi_real, Scalar.cos_real, Scalar.sin_real]
    rw [sphere_amp_eq r _ hr hpos]
    ext <;> simp [Spec.cis] <;> ring

example : sphereFF 2 ⟨1, 2, 3⟩ exQ 3 = Spec.ballFT 2 ⟨1, 2, 3⟩ exQ 3 :=
  sphere_ff_eq_ball_partial _ _ _ _ (by norm_num) (Or.inr exQ_nonzero)

/-- **F(0) = ρ · (4/3)π R³** -/
theorem sphere_ff_zero_is_measure (r : ℝ) (c : V3 ℝ) (rho : ℝ) :
    sphereFF r c ⟨0, 0, 0⟩ rho = Cx.ofReal (rho * (4 / 3 * Real.pi * (r * r * r))) := by
  unfold sphereFF
  have h1 : V3.dot (⟨0, 0, 0⟩ : V3 ℝ) ⟨0, 0, 0⟩ = 0 := by simp [V3.dot]
  have h2 : V3.dot (⟨0, 0, 0⟩ : V3 ℝ) c = 0 := by simp [V3.dot]
  simp only [h1, h2, isCloseZero_zero, if_true]
  ext <;> simp [sphereVolume, Scalar.q] <;> ring

theorem c12_zipWith_map_self {β γ δ : Type} (f : γ → β → δ) (g : β → γ) (l : List β) :
    List.zipWith f (l.map g) l = l.map fun x => f (g x) x := by
  induction l with
  | nil => rfl
  | cons a l ih => simp [ih]

theorem sphere_batch_eq_map (r : ℝ) (c : V3 ℝ) (qs : List (V3 ℝ)) (rho : ℝ) :
    sphereFFBatch r c qs rho = qs.map fun qv => sphereFF r c qv rho := by
  unfold sphereFFBatch
  have h := scatter_selectNot (sphereVolume r)
    (fun qv : V3 ℝ => isCloseZero (V3.dot qv qv))
    (fun qv : V3 ℝ => (lit 4 * Scalar.pi * r * (npSinc (Scalar.sqrt (V3.dot qv qv) * r / Scalar.pi) -
      Scalar.cos (Scalar.sqrt (V3.dot qv qv) * r))) / V3.dot qv qv) qs
  dsimp only
  rw [h, c12_zipWith_map_self]
  apply List.map_congr_left
  intro qv _
  simp only [sphereFF]

example : sphereFFBatch 2 ⟨1, 2, 3⟩ [exQ, ⟨0, 0, 0⟩] 3 = [sphereFF 2 ⟨1, 2, 3⟩ exQ 3, sphereFF 2 ⟨1, 2, 3⟩ ⟨0, 0, 0⟩ 3] :=
  sphere_batch_eq_map _ _ _ _

/-! ### Polygon = sum over triangles of the iterated Fourier integral — NO Green/Stokes step assumed

`FF.triFT A B C q = ∫₀¹ ∫₀^{1-s} e^{-i q·(A + s(B−A) + t(C−A))} dt ds` is the integral of `e^{-i q·r}` over the affine
parametrisation of the triangle (Jacobian `2·area`); `FF.tri2 A B C n = ((B−A)×(C−A))·n` is the signed double area.
Everything below is proved from Mathlib's fundamental theorem of calculus for interval integrals. -/

theorem project_dot_normal (n qv : V3 ℝ) (hunit : V3.dot n n = 1) : V3.dot (project n qv) n = 0 := by
  obtain ⟨nx, ny, nz⟩ := n; obtain ⟨x, y, z⟩ := qv
  simp only [project, V3.dot, V3.sub_x, V3.sub_y, V3.sub_z, V3.smul_x, V3.smul_y, V3.smul_z] at hunit ⊢
  linear_combination (-(x * nx + y * ny + z * nz)) * hunit

/-- **triangle: the boundary (edge) form IS `signed double area × ∫∫ e^{-iq·r}`**, for every triangle, every normal
`n` and every non-zero in-plane `q` (including `q` perpendicular to an edge). -/
theorem triangle_ff_is_integral (A B C n qp : V3 ℝ) (hq : V3.dot qp n = 0) (hQ : V3.dot qp qp ≠ 0) :
    toC (Spec.boundaryForm [A, B, C] n qp) = (tri2 A B C n : ℂ) * triFT A B C qp :=
  triangle_boundary_form A B C n qp hq hQ

example : toC (Spec.boundaryForm [⟨0, 0, 0⟩, ⟨1, 0, 0⟩, ⟨0, 1, 0⟩] exZ ⟨1, 2, 0⟩) =
    (tri2 ⟨0, 0, 0⟩ ⟨1, 0, 0⟩ ⟨0, 1, 0⟩ exZ : ℂ) * triFT ⟨0, 0, 0⟩ ⟨1, 0, 0⟩ ⟨0, 1, 0⟩ ⟨1, 2, 0⟩ :=
  triangle_ff_is_integral _ _ _ _ _ (by simp [V3.dot, exZ]) (by simp [V3.dot]; norm_num)

/-- the iterated triangle integral IS the Lebesgue integral over the standard triangle `{0 < s, 0 < t, s + t ≤ 1}` of `ℝ²`
(Fubini, from Mathlib) — so `triFT` is `∫_Δ e^{-i q·r(s,t)} d(s,t)` with the affine parametrisation `r` of the triangle -/
theorem triangle_integral_is_lebesgue (a β γ : ℝ) :
    Jtri a β γ = ∫ p in triSet 1, cexp (a + p.1 * β + p.2 * γ) ∂(MeasureTheory.volume.prod MeasureTheory.volume) := by
  unfold Jtri
  have hf : Continuous (Function.uncurry fun (s t : ℝ) => cexp (a + s * β + t * γ)) := by
    show Continuous fun p : ℝ × ℝ => cexp (a + p.1 * β + p.2 * γ)
    exact continuous_cexp.comp (by fun_prop)
  exact triangle_iterated_eq_setIntegral (fun s t => cexp (a + s * β + t * γ)) hf 1 zero_le_one


theorem exQ_proj_ne : V3.dot (project exZ exQ) (project exZ exQ) ≠ 0 := by
  intro h; have := exQ_outside; rw [h, isCloseZero_zero] at this; cases this

/-- **polygon = orientation × Σ over the triangle fan of `signed double area × ∫∫_T e^{-i q∥·r}`**, for EVERY vertex list
(no planarity / convexity / orientation assumption, no certificate), unit normal, `q∥` outside the window. -/
theorem polygon_ff_eq_fan_integrals (v0 : V3 ℝ) (rest : List (V3 ℝ)) (n qv : V3 ℝ) (rho : ℝ)
    (hunit : V3.dot n n = 1)
    (hq : isCloseZero (V3.dot (project n qv) (project n qv)) = false) :
    toC (polygonFF (v0 :: rest) n qv rho) =
      (rho : ℂ) * ((sign (signedArea (v0 :: rest) n) : ℝ) : ℂ) * trisFT (fanTris v0 rest) n (project n qv) := by
  have hne : V3.dot (project n qv) (project n qv) ≠ 0 := by
    intro h; rw [h, isCloseZero_zero] at hq; cases hq
  rw [polygon_ff_eq_boundary_form _ _ _ _ hq, toC_smul, boundaryForm_fan,
    toC_sum_boundaryForm_tris _ _ _ (project_dot_normal n qv hunit) hne]
  push_cast; ring

example : toC (polygonFF exSquare exZ exQ 2) =
    (2 : ℂ) * ((sign (signedArea exSquare exZ) : ℝ) : ℂ) *
      trisFT (fanTris ⟨0, 0, 0⟩ [⟨1, 0, 0⟩, ⟨1, 1, 0⟩, ⟨0, 1, 0⟩]) exZ (project exZ exQ) := by
  exact polygon_ff_eq_fan_integrals ⟨0, 0, 0⟩ [⟨1, 0, 0⟩, ⟨1, 1, 0⟩, ⟨0, 1, 0⟩] exZ exQ 2 exZ_unit exQ_outside

/-- the same for ANY triangulation `Ts` whose boundary chain is the polygon's edge cycle (interior edges cancel in
pairs) — hypothesis `hcert`, discharged per run by the exact checker `FF.triangulationCheck`
(`polygon_ff_eq_checked_triangulation`). -/
theorem polygon_ff_eq_triangulation_integrals (vs : List (V3 ℝ)) (n qv : V3 ℝ) (rho : ℝ) (Ts : List (Tri ℝ))
    (hunit : V3.dot n n = 1)
    (hq : isCloseZero (V3.dot (project n qv) (project n qv)) = false)
    (hcert : EdgeChainEq (Spec.cyclicPairs vs) (Ts.flatMap triEdges)) :
    toC (polygonFF vs n qv rho) =
      (rho : ℂ) * ((sign (signedArea vs n) : ℝ) : ℂ) * trisFT Ts n (project n qv) := by
  have hne : V3.dot (project n qv) (project n qv) ≠ 0 := by
    intro h; rw [h, isCloseZero_zero] at hq; cases hq
  rw [polygon_ff_eq_boundary_form _ _ _ _ hq, toC_smul, boundaryForm_triangulation vs n _ Ts hcert,
    toC_sum_boundaryForm_tris _ _ _ (project_dot_normal n qv hunit) hne]
  push_cast; ring

/-- **certificate version**: vertices and triangles given as exact rationals (the doubles of the implementation), the
driver has evaluated `FF.triangulationCheck vs Ts = true` over `ℚ`. -/
theorem polygon_ff_eq_checked_triangulation (vs : List (V3 ℚ)) (Ts : List (Tri ℚ)) (n qv : V3 ℝ) (rho : ℝ)
    (hunit : V3.dot n n = 1)
    (hq : isCloseZero (V3.dot (project n qv) (project n qv)) = false)
    (hcheck : triangulationCheck vs Ts = true) :
    toC (polygonFF (vs.map CCk.v3OfRat) n qv rho) =
      (rho : ℂ) * ((sign (signedArea (vs.map CCk.v3OfRat) n) : ℝ) : ℂ) *
        trisFT (Ts.map CCk.triOfRat) n (project n qv) :=
  polygon_ff_eq_triangulation_integrals _ n qv rho _ hunit hq (triangulationCheck_sound_rat vs Ts hcheck)

/-- the checker accepts the two-triangle split of the unit square along the diagonal `(1,0)–(0,1)`
(NOT the fan from the first vertex) -/
theorem exSquare_check :
    triangulationCheck (α := ℚ) [⟨0, 0, 0⟩, ⟨1, 0, 0⟩, ⟨1, 1, 0⟩, ⟨0, 1, 0⟩]
      [⟨⟨0, 0, 0⟩, ⟨1, 0, 0⟩, ⟨0, 1, 0⟩⟩, ⟨⟨1, 0, 0⟩, ⟨1, 1, 0⟩, ⟨0, 1, 0⟩⟩] = true := by
  decide +kernel

example : toC (polygonFF (([⟨0, 0, 0⟩, ⟨1, 0, 0⟩, ⟨1, 1, 0⟩, ⟨0, 1, 0⟩] : List (V3 ℚ)).map CCk.v3OfRat) exZ exQ 2) =
    (2 : ℂ) * ((sign (signedArea (([⟨0, 0, 0⟩, ⟨1, 0, 0⟩, ⟨1, 1, 0⟩, ⟨0, 1, 0⟩] : List (V3 ℚ)).map CCk.v3OfRat) exZ) : ℝ) : ℂ) *
      trisFT (([⟨⟨0, 0, 0⟩, ⟨1, 0, 0⟩, ⟨0, 1, 0⟩⟩, ⟨⟨1, 0, 0⟩, ⟨1, 1, 0⟩, ⟨0, 1, 0⟩⟩] : List (Tri ℚ)).map CCk.triOfRat)
        exZ (project exZ exQ) :=
  polygon_ff_eq_checked_triangulation _ _ exZ exQ 2 exZ_unit exQ_outside exSquare_check

/-- Fourier transform of the REGION covered by the triangles `Ts`: `Σ_T 2·area_T · ∫∫ e^{-iq·r}` -/
def regionFT (Ts : List (Tri ℝ)) (n qp : V3 ℝ) : ℂ :=
  (Ts.map fun T => ((|tri2 T.a T.b T.c n| : ℝ) : ℂ) * triFT T.a T.b T.c qp).sum

/-- **Polygon = ρ ∫∫_region e^{-i q∥·r} dA**: when the triangles of the triangulation are oriented like the polygon
(`sign(signed_area)·tri2 = |tri2|`, e.g. the fan of a convex polygon in either direction, or an ear clipping), the
model is `ρ` times the sum over the triangles of `2·area_T` times the iterated Fourier integral over `T`. -/
theorem polygon_ff_eq_region_integral (vs : List (V3 ℝ)) (n qv : V3 ℝ) (rho : ℝ) (Ts : List (Tri ℝ))
    (hunit : V3.dot n n = 1)
    (hq : isCloseZero (V3.dot (project n qv) (project n qv)) = false)
    (hcert : EdgeChainEq (Spec.cyclicPairs vs) (Ts.flatMap triEdges))
    (hpos : ∀ T ∈ Ts, sign (signedArea vs n) * tri2 T.a T.b T.c n = |tri2 T.a T.b T.c n|) :
    toC (polygonFF vs n qv rho) = (rho : ℂ) * regionFT Ts n (project n qv) := by
  rw [polygon_ff_eq_triangulation_integrals vs n qv rho Ts hunit hq hcert, mul_assoc]
  congr 1
  unfold trisFT regionFT
  rw [← List.sum_map_mul_left]
  congr 1
  apply List.map_congr_left
  intro T hT
  rw [← hpos T hT]
  push_cast; ring

theorem exSquare_signedArea : signedArea exSquare exZ = 1 := by
  rw [show exSquare = (⟨0, 0, 0⟩ : V3 ℝ) :: [⟨1, 0, 0⟩, ⟨1, 1, 0⟩, ⟨0, 1, 0⟩] from rfl,
    polygon_signed_area_exact _ _ _ exSquare_planar exZ_unit]
  simp [Spec.fanArea2, Spec.cyclicPairs, Spec.cyclicPairs.go, V3.cross, V3.dot, exZ]

example : toC (polygonFF exSquare exZ exQ 2) =
    (2 : ℂ) * regionFT (fanTris ⟨0, 0, 0⟩ [⟨1, 0, 0⟩, ⟨1, 1, 0⟩, ⟨0, 1, 0⟩]) exZ (project exZ exQ) := by
  apply polygon_ff_eq_region_integral exSquare exZ exQ 2 _ exZ_unit exQ_outside (cyclicPairs_fan _ _)
  intro T hT
  rw [exSquare_signedArea]
  have hs : sign (1 : ℝ) = 1 := by simp [sign, Scalar.lit]
  simp only [fanTris, List.mem_cons, List.not_mem_nil, or_false] at hT
  rcases hT with h | h <;> subst h <;> simp [hs, tri2, V3.cross, V3.dot, exZ]

/-! ### the `np.isclose` window, stated precisely; limits as `Filter.Tendsto` -/

theorem ffsign_mul_self (x : ℝ) : sign x * x = |x| := by
  unfold sign
  simp only [Scalar.lit, Scalar.ofNat_real, Nat.cast_zero, Nat.cast_one]
  rcases lt_trichotomy x 0 with h | h | h
  · simp [h, abs_of_neg h]
  · subst h; simp
  · have h2 : ¬ (x < 0) := by linarith
    simp [h, h2, abs_of_pos h]

theorem abs_sign_le_one (x : ℝ) : |sign x| ≤ 1 := by
  unfold sign
  simp only [Scalar.lit, Scalar.ofNat_real, Nat.cast_zero, Nat.cast_one]
  split_ifs <;> simp

/-- **small-`q∥` bound**: the non-zero branch of the polygon formula (which is the Fourier transform by the theorems
above) differs from the area by at most `|q∥| · Σ_T 2·area_T (|A| + |B−A| + |C−A|)` — the quantity the code drops when
it replaces a non-zero `q∥` inside the `isclose` window by zero. -/
theorem polygon_nonzero_branch_error (v0 : V3 ℝ) (rest : List (V3 ℝ)) (n qp : V3 ℝ)
    (hplanar : ∀ v ∈ v0 :: rest, V3.dot (v - v0) n = 0) (hunit : V3.dot n n = 1)
    (hq : V3.dot qp n = 0) (hQ : V3.dot qp qp ≠ 0) :
    ‖toC (polygonNonzero (v0 :: rest) n qp) - ((polygonArea (v0 :: rest) n : ℝ) : ℂ)‖ ≤
      V3.norm qp * trisLip (fanTris v0 rest) n := by
  have hsa := polygon_signed_area_exact v0 rest n hplanar hunit
  rw [polygonNonzero_eq_boundary, toC_smul, boundaryForm_fan, toC_sum_boundaryForm_tris _ _ _ hq hQ]
  have harea : ((polygonArea (v0 :: rest) n : ℝ) : ℂ) =
      ((sign (signedArea (v0 :: rest) n) : ℝ) : ℂ) * ((signedArea (v0 :: rest) n : ℝ) : ℂ) := by
    unfold polygonArea
    rw [Scalar.abs_real, ← ffsign_mul_self]; push_cast; ring
  rw [harea, ← mul_sub, norm_mul, Complex.norm_real, Real.norm_eq_abs, hsa, fanArea2_eq_sum]
  calc |sign (((fanTris v0 rest).map fun T => tri2 T.a T.b T.c n).sum / 2)| *
        ‖trisFT (fanTris v0 rest) n qp - ((((fanTris v0 rest).map fun T => tri2 T.a T.b T.c n).sum / 2 : ℝ) : ℂ)‖
      ≤ 1 * (V3.norm qp * trisLip (fanTris v0 rest) n) :=
        mul_le_mul (abs_sign_le_one _) (trisFT_sub_le _ n qp) (norm_nonneg _) zero_le_one
    _ = _ := one_mul _

/-- **`F(q) → ρ·area` as `q∥ → 0`** along every in-plane direction `u`, as a `Filter.Tendsto` statement about the
non-zero branch (the formula; the code switches to the limit value at `|q∥|² ≤ 1e-8`). -/
theorem polygon_ff_tendsto_area (v0 : V3 ℝ) (rest : List (V3 ℝ)) (n u : V3 ℝ)
    (hplanar : ∀ v ∈ v0 :: rest, V3.dot (v - v0) n = 0) (hunit : V3.dot n n = 1)
    (hu : V3.dot u n = 0) (hu0 : V3.dot u u ≠ 0) :
    Filter.Tendsto (fun k : ℝ => toC (polygonNonzero (v0 :: rest) n (V3.smul k u)))
      (nhdsWithin 0 {0}ᶜ) (nhds ((polygonArea (v0 :: rest) n : ℝ) : ℂ)) := by
  rw [tendsto_iff_norm_sub_tendsto_zero]
  set L := trisLip (fanTris v0 rest) n with hL
  have hnorm : ∀ k : ℝ, V3.norm (V3.smul k u) = |k| * V3.norm u := by
    intro k
    rw [norm_eq, norm_eq]
    have : V3.dot (V3.smul k u) (V3.smul k u) = k ^ 2 * V3.dot u u := by
      obtain ⟨x, y, z⟩ := u; simp [V3.dot, V3.smul]; ring
    rw [this, Real.sqrt_mul (sq_nonneg k), Real.sqrt_sq_eq_abs]
  have hb : Filter.Tendsto (fun k : ℝ => |k| * V3.norm u * L) (nhdsWithin 0 {0}ᶜ) (nhds 0) := by
    have : Filter.Tendsto (fun k : ℝ => |k| * V3.norm u * L) (nhds 0) (nhds (|(0:ℝ)| * V3.norm u * L)) :=
      Continuous.tendsto (by fun_prop) 0
    simp only [abs_zero, zero_mul] at this
    exact this.mono_left nhdsWithin_le_nhds
  refine squeeze_zero' (Filter.Eventually.of_forall fun _ => norm_nonneg _) ?_ hb
  filter_upwards [self_mem_nhdsWithin] with k hk
  have hk' : k ≠ 0 := hk
  have hq : V3.dot (V3.smul k u) n = 0 := by
    obtain ⟨x, y, z⟩ := u; obtain ⟨nx, ny, nz⟩ := n
    simp only [V3.dot, V3.smul] at hu ⊢
    linear_combination k * hu
  have hQ : V3.dot (V3.smul k u) (V3.smul k u) ≠ 0 := by
    have : V3.dot (V3.smul k u) (V3.smul k u) = k ^ 2 * V3.dot u u := by
      obtain ⟨x, y, z⟩ := u; simp [V3.dot, V3.smul]; ring
    rw [this]; exact mul_ne_zero (pow_ne_zero 2 hk') hu0
  have := polygon_nonzero_branch_error v0 rest n (V3.smul k u) hplanar hunit hq hQ
  rwa [hnorm] at this

example : Filter.Tendsto (fun k : ℝ => toC (polygonNonzero exSquare exZ (V3.smul k ⟨3, 4, 0⟩)))
    (nhdsWithin 0 {0}ᶜ) (nhds ((polygonArea exSquare exZ : ℝ) : ℂ)) :=
  polygon_ff_tendsto_area _ _ exZ ⟨3, 4, 0⟩ exSquare_planar exZ_unit (by simp [V3.dot, exZ])
    (by simp [V3.dot]; norm_num)

/-- **the window finding for polygons, quantified**: inside the window the code returns `ρ·area`; the Fourier
transform (`ρ · orientation · Σ_T …`, by `polygon_ff_eq_fan_integrals` the value of the non-zero branch) is at most
`|ρ| · 1e-4 · trisLip` away. (`polygon_ff_translate_window_fails` shows the deviation is real.) -/
theorem polygon_window_error_bound (v0 : V3 ℝ) (rest : List (V3 ℝ)) (n qv : V3 ℝ) (rho : ℝ)
    (hplanar : ∀ v ∈ v0 :: rest, V3.dot (v - v0) n = 0) (hunit : V3.dot n n = 1)
    (hwin : isCloseZero (V3.dot (project n qv) (project n qv)) = true)
    (hne : V3.dot (project n qv) (project n qv) ≠ 0) :
    ‖toC (polygonFF (v0 :: rest) n qv rho) -
        (rho : ℂ) * toC (polygonNonzero (v0 :: rest) n (project n qv))‖ ≤
      |rho| * (1 / 10000 * trisLip (fanTris v0 rest) n) := by
  have h := polygon_nonzero_branch_error v0 rest n (project n qv) hplanar hunit
    (project_dot_normal n qv hunit) hne
  unfold polygonFF
  simp only [hwin, if_true]
  rw [toC_smul, toC_ofReal, ← mul_sub, norm_mul, Complex.norm_real, Real.norm_eq_abs, norm_sub_rev]
  apply mul_le_mul_of_nonneg_left _ (abs_nonneg rho)
  refine h.trans ?_
  have hL : 0 ≤ trisLip (fanTris v0 rest) n := by
    unfold trisLip
    apply List.sum_nonneg
    intro x hx
    simp only [List.mem_map] at hx
    obtain ⟨T, _, rfl⟩ := hx
    have h1 : 0 ≤ V3.norm T.a := Real.sqrt_nonneg _
    have h2 : 0 ≤ V3.norm (T.b - T.a) := Real.sqrt_nonneg _
    have h3 : 0 ≤ V3.norm (T.c - T.a) := Real.sqrt_nonneg _
    positivity
  apply mul_le_mul_of_nonneg_right _ hL
  rw [norm_eq]
  rw [isCloseZero_iff] at hwin
  have hle : V3.dot (project n qv) (project n qv) ≤ (1 / 10000) ^ 2 := by
    have := (abs_le.mp hwin).2; norm_num at this ⊢; linarith
  calc Real.sqrt (V3.dot (project n qv) (project n qv)) ≤ Real.sqrt ((1 / 10000) ^ 2) := Real.sqrt_le_sqrt hle
    _ = 1 / 10000 := by rw [Real.sqrt_sq (by norm_num)]

theorem exQwin_proj_ne : V3.dot (project exZ exQwin) (project exZ exQwin) ≠ 0 := by
  simp only [project, exZ, exQwin, V3.dot, V3.sub_x, V3.sub_y, V3.sub_z, V3.smul_x, V3.smul_y, V3.smul_z]
  norm_num

example : ‖toC (polygonFF exSquare exZ exQwin 3) - (3 : ℂ) * toC (polygonNonzero exSquare exZ (project exZ exQwin))‖ ≤
    |(3 : ℝ)| * (1 / 10000 * trisLip (fanTris ⟨0, 0, 0⟩ [⟨1, 0, 0⟩, ⟨1, 1, 0⟩, ⟨0, 1, 0⟩]) exZ) := by
  have := polygon_window_error_bound ⟨0, 0, 0⟩ [⟨1, 0, 0⟩, ⟨1, 1, 0⟩, ⟨0, 1, 0⟩] exZ exQwin 3 exSquare_planar exZ_unit
    exQwin_inside exQwin_proj_ne
  simpa [exSquare] using this

/-! ### Sphere: radial integral, window bound, strict violation, limit -/

/-- the sphere amplitude of the non-zero branch, written with `k = √(q·q)` -/
theorem sphere_nonzero_branch_eq_radial (r qsq : ℝ) (hr : r ≠ 0) (hq : 0 < qsq) :
    (4 * Real.pi * r * (npSinc (Real.sqrt qsq * r / Real.pi) - Real.cos (Real.sqrt qsq * r))) / qsq =
      ∫ x in (0:ℝ)..r, 4 * Real.pi * (x * x) * Real.sinc (Real.sqrt qsq * x) := by
  rw [sphere_amp_eq r qsq hr hq, ballAmp_eq_radial r _ (Real.sqrt_pos.mpr hq).ne']
  rfl

theorem norm_cexp (x : ℝ) : ‖cexp x‖ = 1 := by
  unfold cexp
  have : -(Complex.I) * (x : ℂ) = ((-x : ℝ) : ℂ) * Complex.I := by push_cast; ring
  rw [this, Complex.norm_exp_ofReal_mul_I]

theorem sphere_window_diff (r : ℝ) (c qv : V3 ℝ) (rho : ℝ)
    (hwin : isCloseZero (V3.dot qv qv) = true) (hne : V3.dot qv qv ≠ 0) :
    toC (sphereFF r c qv rho) - toC (Spec.ballFT r c qv rho) =
      ((rho * (4 / 3 * Real.pi * (r * r * r) - ballAmp r (Real.sqrt (V3.dot qv qv))) : ℝ) : ℂ) *
        cexp (V3.dot qv c) := by
  unfold sphereFF Spec.ballFT
  simp only [hwin, if_true, eqb_real, Scalar.lit, Scalar.ofNat_real, Nat.cast_zero, hne, decide_false,
    Bool.false_eq_true, if_false, Nat.cast_ofNat, Scalar.sqrt_real, Scalar.pi_real, Scalar.cos_real, Scalar.sin_real]
  rw [toC_mul, toC_ofReal, toC_smul, toC_smul, toC_expNegI, toC_cis']
  unfold sphereVolume ballAmp
  simp only [Scalar.q, Scalar.pi_real, Scalar.ofNat_real, Nat.cast_ofNat]
  push_cast
  ring

/-- **window bound for the sphere**: `‖F_code − F_ball‖ ≤ |ρ| · V · (|q| R)²/10` for `0 < |q|² ≤ 1e-8` -/
theorem sphere_window_error_bound (r : ℝ) (c qv : V3 ℝ) (rho : ℝ) (hr : 0 ≤ r)
    (hwin : isCloseZero (V3.dot qv qv) = true) (hne : V3.dot qv qv ≠ 0) :
    ‖toC (sphereFF r c qv rho) - toC (Spec.ballFT r c qv rho)‖ ≤
      |rho| * (4 / 3 * Real.pi * (r * r * r) * (V3.dot qv qv * r ^ 2 / 10)) := by
  have hpos : 0 < V3.dot qv qv := lt_of_le_of_ne (dot_self_nonneg qv) (Ne.symm hne)
  have hk : Real.sqrt (V3.dot qv qv) ≠ 0 := (Real.sqrt_pos.mpr hpos).ne'
  rw [sphere_window_diff r c qv rho hwin hne, norm_mul, norm_cexp, mul_one, Complex.norm_real, Real.norm_eq_abs,
    abs_mul]
  apply mul_le_mul_of_nonneg_left _ (abs_nonneg rho)
  have h1 := volume_sub_ballAmp_le r _ hr hk
  have h2 : ballAmp r (Real.sqrt (V3.dot qv qv)) ≤ 4 / 3 * Real.pi * (r * r * r) := by
    rcases eq_or_lt_of_le hr with h0 | h0
    · subst h0; simp [ballAmp]
    · exact (ballAmp_lt_volume r _ h0 hk).le
  rw [abs_of_nonneg (by linarith)]
  have e : (Real.sqrt (V3.dot qv qv) * r) ^ 2 = V3.dot qv qv * r ^ 2 := by
    rw [mul_pow, Real.sq_sqrt hpos.le]
  rw [e] at h1
  exact h1

/-- **the code violates the value clause for EVERY sphere and EVERY non-zero `q` in the window**: the ball transform
is strictly smaller in modulus than the volume the code returns. -/
theorem sphere_ff_eq_ball_window_fails (r : ℝ) (c qv : V3 ℝ) (rho : ℝ) (hr : 0 < r) (hrho : rho ≠ 0)
    (hwin : isCloseZero (V3.dot qv qv) = true) (hne : V3.dot qv qv ≠ 0) :
    ¬ (sphereFF r c qv rho = Spec.ballFT r c qv rho) := by
  intro h
  have hpos : 0 < V3.dot qv qv := lt_of_le_of_ne (dot_self_nonneg qv) (Ne.symm hne)
  have hk : Real.sqrt (V3.dot qv qv) ≠ 0 := (Real.sqrt_pos.mpr hpos).ne'
  have hd := sphere_window_diff r c qv rho hwin hne
  rw [h, sub_self] at hd
  have hlt := ballAmp_lt_volume r _ hr hk
  have hn := congrArg norm hd
  rw [norm_zero, norm_mul, norm_cexp, mul_one, Complex.norm_real, Real.norm_eq_abs] at hn
  have : rho * (4 / 3 * Real.pi * (r * r * r) - ballAmp r (Real.sqrt (V3.dot qv qv))) = 0 :=
    abs_eq_zero.mp hn.symm
  rcases mul_eq_zero.mp this with h0 | h0
  · exact hrho h0
  · linarith

example : ¬ (sphereFF (1000 : ℝ) ⟨0, 0, 0⟩ ⟨9 / 100000, 0, 0⟩ 1 = Spec.ballFT (1000 : ℝ) ⟨0, 0, 0⟩ ⟨9 / 100000, 0, 0⟩ 1) :=
  sphere_ff_eq_ball_window_fails (1000 : ℝ) ⟨0, 0, 0⟩ ⟨9 / 100000, 0, 0⟩ 1 (by norm_num) one_ne_zero
    (by rw [isCloseZero_iff]; simp only [V3.dot]; norm_num [abs_le]) (by simp only [V3.dot]; norm_num)

/-- **`F(q) → ρ·V` as `q → 0`** for the sphere: the Bessel form (= the non-zero branch, `sphere_amp_eq`) tends to
`4/3 π R³` as `|q| → 0`. -/
theorem sphere_ff_tendsto_volume (R : ℝ) (hR : 0 ≤ R) :
    Filter.Tendsto (fun k : ℝ => ballAmp R k) (nhdsWithin 0 {0}ᶜ) (nhds (4 / 3 * Real.pi * (R * R * R))) :=
  tendsto_ballAmp R hR


/-! ### Tetrahedron and polyhedron: the divergence step (solid ← faces) is PROVED

`FF.tetFT A B C D q = ∫₀¹∫₀^{1-s}∫₀^{1-s-t} e^{-i q·(A + s(B−A) + t(C−A) + u(D−A))} du dt ds` (Jacobian `6·volume`),
`FF.faceFT q T = (q·N_T) · triFT T q` with `N_T = (b−a)×(c−a)`, `FF.surfSum q S = Σ_{T∈S} faceFT q T`.
Proved from the fundamental theorem of calculus and Fubini on a triangle (`FF.triangle_swap`, from Mathlib's
`integral_integral_swap`); the iterated integrals are Lebesgue integrals over the standard simplices
(`FF.triangle_iterated_eq_setIntegral`). -/

/-- **tetrahedron**: `(i/|q|²) Σ_faces (q·N_f) ∫∫_f e^{-iq·r} = det(B−A,C−A,D−A) ∫∫∫ e^{-iq·r}` for EVERY tetrahedron
(either orientation, degenerate ones included) and every `q ≠ 0` (also along a face normal / perpendicular to edges). -/
theorem tetrahedron_ff_is_integral (A B C D qv : V3 ℝ) (hQ : V3.dot qv qv ≠ 0) :
    (Complex.I / ((V3.dot qv qv : ℝ) : ℂ)) * surfSum qv (Tet.bdry ⟨A, B, C, D⟩) =
      ((tet6 A B C D : ℝ) : ℂ) * tetFT A B C D qv :=
  tet_face_form A B C D qv hQ

example : (Complex.I / ((V3.dot exQ exQ : ℝ) : ℂ)) *
      surfSum exQ (Tet.bdry ⟨⟨0, 0, 0⟩, ⟨1, 0, 0⟩, ⟨0, 1, 0⟩, ⟨0, 0, 1⟩⟩) =
    ((tet6 ⟨0, 0, 0⟩ ⟨1, 0, 0⟩ ⟨0, 1, 0⟩ ⟨0, 0, 1⟩ : ℝ) : ℂ) * tetFT ⟨0, 0, 0⟩ ⟨1, 0, 0⟩ ⟨0, 1, 0⟩ ⟨0, 0, 1⟩ exQ :=
  tetrahedron_ff_is_integral _ _ _ _ _ (by simp [exQ, V3.dot]; norm_num)

/-- **Polyhedron model = surface form of the fan-triangulated faces**: every face list whose faces have a unit
normal, lie in their plane `n·x + off = 0`, run counter-clockwise about the normal, and `q` outside the zero window
with, per face, in-plane part exactly zero or outside the window (`FF.FaceOK`). -/
theorem polyhedron_ff_eq_surface_form (faces : List (Face ℝ)) (vol : ℝ) (qv : V3 ℝ) (rho : ℝ)
    (hq : isCloseZero (V3.dot qv qv) = false) (hf : ∀ f ∈ faces, FaceOK qv f) :
    toC (polyhedronFF faces vol qv rho) =
      (rho : ℂ) * ((Complex.I / ((V3.dot qv qv : ℝ) : ℂ)) * surfSum qv (surfaceOf faces)) := by
  unfold polyhedronFF
  simp only [hq, if_false, Bool.false_eq_true]
  rw [toC_smul, polyhedronNonzero_eq_surf faces qv hf]

/-- **Polyhedron = ρ · Σ over the cone tetrahedra of `signed 6·volume × ∫∫∫ e^{-iq·r}`**, for every CLOSED
fan-triangulated surface (hypothesis `hclosed`: interior edges cancel in pairs — discharged per run by the exact
checker `FF.surfaceClosedCheck`, see `polyhedron_ff_eq_checked_tet_integrals`) and ANY apex `p`.
For a convex solid and `p` inside, all signed volumes are positive and the right-hand side is `ρ ∫_solid e^{-iq·r} dV`.
No trusted Green / divergence step. `_partial` only in that the `isclose` windows are excluded (`FaceOK.win`, `hq`). -/
theorem polyhedron_ff_eq_tet_integrals (faces : List (Face ℝ)) (vol : ℝ) (qv : V3 ℝ) (rho : ℝ) (p : V3 ℝ)
    (hq : isCloseZero (V3.dot qv qv) = false) (hf : ∀ f ∈ faces, FaceOK qv f)
    (hclosed : CCk.ClosedSurface (surfaceOf faces)) :
    toC (polyhedronFF faces vol qv rho) = (rho : ℂ) * tetsFT (ChainCheck.cone p (surfaceOf faces)) qv := by
  have hne : V3.dot qv qv ≠ 0 := by
    intro h; rw [h, isCloseZero_zero] at hq; cases hq
  rw [polyhedron_ff_eq_surface_form faces vol qv rho hq hf, closed_surface_form_cone qv hne hclosed p]

/-- **certificate version**: the driver has evaluated `FF.surfaceClosedCheck` (exact, over `ℚ`) on the
implementation's `vertices[face]`; the real faces have those vertex lists up to a vertex map `g`. -/
theorem polyhedron_ff_eq_checked_tet_integrals (faces : List (Face ℝ)) (vol : ℝ) (qv : V3 ℝ) (rho : ℝ) (p : V3 ℝ)
    (fsQ : List (List (V3 ℚ))) (g : V3 ℚ → V3 ℝ)
    (hverts : faces.map (·.verts) = fsQ.map (·.map g)) (hcheck : surfaceClosedCheck fsQ = true)
    (hq : isCloseZero (V3.dot qv qv) = false) (hf : ∀ f ∈ faces, FaceOK qv f) :
    toC (polyhedronFF faces vol qv rho) = (rho : ℂ) * tetsFT (ChainCheck.cone p (surfaceOf faces)) qv :=
  polyhedron_ff_eq_tet_integrals faces vol qv rho p hq hf (surfaceClosedCheck_sound faces fsQ g hverts hcheck)

/-- the vertex lists of the unit cube's faces, as exact rationals -/
def exCubeQ : List (List (V3 ℚ)) :=
  [[⟨1,0,0⟩, ⟨1,1,0⟩, ⟨1,1,1⟩, ⟨1,0,1⟩], [⟨0,0,0⟩, ⟨0,0,1⟩, ⟨0,1,1⟩, ⟨0,1,0⟩],
   [⟨0,1,0⟩, ⟨0,1,1⟩, ⟨1,1,1⟩, ⟨1,1,0⟩], [⟨0,0,0⟩, ⟨1,0,0⟩, ⟨1,0,1⟩, ⟨0,0,1⟩],
   [⟨0,0,1⟩, ⟨1,0,1⟩, ⟨1,1,1⟩, ⟨0,1,1⟩], [⟨0,0,0⟩, ⟨0,1,0⟩, ⟨1,1,0⟩, ⟨1,0,0⟩]]

theorem exCubeQ_closed : surfaceClosedCheck exCubeQ = true := by decide +kernel

theorem exCube_verts : exCube.map (·.verts) = exCubeQ.map (·.map CCk.v3OfRat) := by
  simp [exCube, exCubeQ, CCk.v3OfRat]

theorem exCube_faceOK : ∀ f ∈ exCube, FaceOK exQ f := by
  intro f hf
  have hu := exCube_unit f hf
  have hnn := CCk.normSq_of_norm_one hu
  simp only [exCube, List.mem_cons, List.not_mem_nil, or_false] at hf
  refine ⟨hu, ?_, ?_, ?_⟩
  · rcases hf with h | h | h | h | h | h <;> subst h <;> intro v hv <;>
      simp only [List.mem_cons, List.not_mem_nil, or_false] at hv <;>
      rcases hv with h | h | h | h <;> subst h <;> simp [V3.dot]
  · rcases hf with h | h | h | h | h | h <;> subst h <;>
      (rw [signedArea_eq_fan _ _ _ (by
          intro v hv
          simp only [List.mem_cons, List.not_mem_nil, or_false] at hv
          rcases hv with h | h | h | h <;> subst h <;> simp [V3.dot]) hnn (argmax_ne_zero _ hnn)]
       simp [Spec.fanArea2, Spec.cyclicPairs, Spec.cyclicPairs.go, V3.cross, V3.dot, sign, Scalar.lit])
  · right
    rw [Bool.eq_false_iff, Ne, isCloseZero_iff]
    rcases hf with h | h | h | h | h | h <;> subst h <;>
      simp only [project, exQ, V3.dot, V3.sub_x, V3.sub_y, V3.sub_z, V3.smul_x, V3.smul_y, V3.smul_z] <;> norm_num

example : toC (polyhedronFF exCube 1 exQ 2) =
    (2 : ℂ) * tetsFT (ChainCheck.cone ⟨1 / 2, 1 / 2, 1 / 2⟩ (surfaceOf exCube)) exQ := by
  have := polyhedron_ff_eq_checked_tet_integrals exCube 1 exQ 2 ⟨1 / 2, 1 / 2, 1 / 2⟩ exCubeQ CCk.v3OfRat
    exCube_verts exCubeQ_closed exQ_nonzero exCube_faceOK
  simpa using this

/-- the closed form of the specification (`Spec.polygonFT`, what the driver evaluates) IS `ρ · orientation · Σ_fan
(signed double area × ∫∫_T e^{-i q∥·r})` for every vertex list, unit normal and `q∥ ≠ 0` -/
theorem spec_polygon_ft_is_fan_integral (v0 : V3 ℝ) (rest : List (V3 ℝ)) (n qv : V3 ℝ) (rho : ℝ)
    (hunit : V3.dot n n = 1) (hne : V3.dot (project n qv) (project n qv) ≠ 0) :
    toC (Spec.polygonFT (v0 :: rest) n qv rho) =
      (rho : ℂ) * ((Spec.orient (v0 :: rest) n : ℝ) : ℂ) * trisFT (fanTris v0 rest) n (project n qv) := by
  unfold Spec.polygonFT
  change toC (if Scalar.eqb (V3.dot (project n qv) (project n qv)) (lit 0) then _ else _) = _
  simp only [eqb_real, Scalar.lit, Scalar.ofNat_real, Nat.cast_zero, hne, decide_false, Bool.false_eq_true, if_false]
  rw [toC_smul, boundaryForm_fan]
  change _ * toC (Cx.sum ((fanTris v0 rest).map fun T => Spec.boundaryForm [T.a, T.b, T.c] n (project n qv))) = _
  rw [toC_sum_boundaryForm_tris _ _ _ (project_dot_normal n qv hunit) hne]
  push_cast; ring

example : toC (Spec.polygonFT exSquare exZ exQ 2) =
    (2 : ℂ) * ((Spec.orient exSquare exZ : ℝ) : ℂ) *
      trisFT (fanTris ⟨0, 0, 0⟩ [⟨1, 0, 0⟩, ⟨1, 1, 0⟩, ⟨0, 1, 0⟩]) exZ (project exZ exQ) :=
  spec_polygon_ft_is_fan_integral _ _ _ _ _ exZ_unit exQ_proj_ne

/-- **`F(q) → ρ·V` as `q → 0` for every closed polyhedral surface**: the face form (the non-zero branch of the model
by `polyhedron_ff_eq_surface_form`) tends to the signed cone volume along every ray. -/
theorem polyhedron_ff_tendsto_volume (faces : List (Face ℝ)) (p u : V3 ℝ)
    (hclosed : CCk.ClosedSurface (surfaceOf faces)) (hu0 : V3.dot u u ≠ 0) :
    Filter.Tendsto
      (fun k : ℝ => (Complex.I / ((V3.dot (V3.smul k u) (V3.smul k u) : ℝ) : ℂ)) *
        surfSum (V3.smul k u) (surfaceOf faces))
      (nhdsWithin 0 {0}ᶜ) (nhds ((tetsVol (ChainCheck.cone p (surfaceOf faces)) : ℝ) : ℂ)) :=
  surface_form_tendsto_volume hclosed p u hu0

theorem exCube_closed : CCk.ClosedSurface (surfaceOf exCube) :=
  surfaceClosedCheck_sound exCube exCubeQ CCk.v3OfRat exCube_verts exCubeQ_closed

example : Filter.Tendsto
    (fun k : ℝ => (Complex.I / ((V3.dot (V3.smul k exQ) (V3.smul k exQ) : ℝ) : ℂ)) * surfSum (V3.smul k exQ) (surfaceOf exCube))
    (nhdsWithin 0 {0}ᶜ) (nhds ((tetsVol (ChainCheck.cone ⟨0, 0, 0⟩ (surfaceOf exCube)) : ℝ) : ℂ)) :=
  polyhedron_ff_tendsto_volume exCube ⟨0, 0, 0⟩ exQ exCube_closed (by simp [exQ, V3.dot]; norm_num)

/-- **the window finding for solids, quantified**: for `0 < |q|² ≤ 1e-8` the code returns `ρ·volume`; the Fourier
transform `ρ Σ_cone 6V ∫∫∫ e^{-iq·r}` is at most `|ρ| · 1e-4 · tetsLip` away (`volume` = the cone volume, C01/C02). -/
theorem polyhedron_window_error_bound (faces : List (Face ℝ)) (vol : ℝ) (qv : V3 ℝ) (rho : ℝ) (p : V3 ℝ)
    (hvol : vol = tetsVol (ChainCheck.cone p (surfaceOf faces)))
    (hwin : isCloseZero (V3.dot qv qv) = true) :
    ‖toC (polyhedronFF faces vol qv rho) - (rho : ℂ) * tetsFT (ChainCheck.cone p (surfaceOf faces)) qv‖ ≤
      |rho| * (1 / 10000 * tetsLip (ChainCheck.cone p (surfaceOf faces))) := by
  unfold polyhedronFF
  simp only [hwin, if_true]
  rw [toC_smul, toC_ofReal, ← mul_sub, norm_mul, Complex.norm_real, Real.norm_eq_abs, norm_sub_rev, hvol]
  apply mul_le_mul_of_nonneg_left _ (abs_nonneg rho)
  refine (tetsFT_sub_le _ qv).trans ?_
  have hL : 0 ≤ tetsLip (ChainCheck.cone p (surfaceOf faces)) := by
    unfold tetsLip
    apply List.sum_nonneg
    intro x hx
    simp only [List.mem_map] at hx
    obtain ⟨T, _, rfl⟩ := hx
    have h1 : 0 ≤ V3.norm T.a := Real.sqrt_nonneg _
    have h2 : 0 ≤ V3.norm (T.b - T.a) := Real.sqrt_nonneg _
    have h3 : 0 ≤ V3.norm (T.c - T.a) := Real.sqrt_nonneg _
    have h4 : 0 ≤ V3.norm (T.d - T.a) := Real.sqrt_nonneg _
    positivity
  apply mul_le_mul_of_nonneg_right _ hL
  rw [norm_eq]
  rw [isCloseZero_iff] at hwin
  have hle : V3.dot qv qv ≤ (1 / 10000) ^ 2 := by
    have := (abs_le.mp hwin).2; norm_num at this ⊢; linarith
  calc Real.sqrt (V3.dot qv qv) ≤ Real.sqrt ((1 / 10000) ^ 2) := Real.sqrt_le_sqrt hle
    _ = 1 / 10000 := by rw [Real.sqrt_sq (by norm_num)]


theorem exCube_coneVol : (1 : ℝ) = tetsVol (ChainCheck.cone ⟨0, 0, 0⟩ (surfaceOf exCube)) := by
  simp [tetsVol, ChainCheck.cone, surfaceOf, faceTris, fanOf, fanTris, exCube, tet6, V3.det3, V3.dot, V3.cross]
  norm_num

example : ‖toC (polyhedronFF exCube 1 exQwin 2) - (2 : ℂ) * tetsFT (ChainCheck.cone ⟨0, 0, 0⟩ (surfaceOf exCube)) exQwin‖ ≤
    |(2 : ℝ)| * (1 / 10000 * tetsLip (ChainCheck.cone ⟨0, 0, 0⟩ (surfaceOf exCube))) := by
  have := polyhedron_window_error_bound exCube 1 exQwin 2 ⟨0, 0, 0⟩ exCube_coneVol
    (by rw [isCloseZero_iff]; simp only [exQwin, V3.dot]; norm_num [abs_le])
  simpa using this

/-! ### argument glue: the `q` argument as Python passes it, `density` default -/

/-- an `(N,3)` array (any `N`, also `0`) goes to the masked batch computation for all three classes, with
`density = 1.0` when omitted; hence every law above transfers to the call as made from Python. -/
theorem call_arr2 (vs : List (V3 ℝ)) (n : V3 ℝ) (faces : List (Face ℝ)) (vol r : ℝ) (c : V3 ℝ)
    (qs : List (V3 ℝ)) (d : Option ℝ) :
    polygonCall vs n (.arr2 qs) d = .ok (qs.map fun qv => polygonFF vs n qv (d.getD 1)) ∧
    polyhedronCall faces vol (.arr2 qs) d = .ok (qs.map fun qv => polyhedronFF faces vol qv (d.getD 1)) ∧
    sphereCall r c (.arr2 qs) d = .ok (qs.map fun qv => sphereFF r c qv (d.getD 1)) := by
  have hd : densityArg d = d.getD 1 := by simp [densityArg, Scalar.lit]
  refine ⟨?_, ?_, ?_⟩
  · simp only [polygonCall, hd, polygon_batch_eq_map]
  · simp only [polyhedronCall, hd, polyhedron_batch_eq_map]
  · simp only [sphereCall, hd, sphere_batch_eq_map]

/-- `Sphere` accepts a bare `(3,)` vector (list or array) as a batch of one (`np.atleast_2d`) -/
theorem sphere_call_vector (r : ℝ) (c qv : V3 ℝ) (d : Option ℝ) :
    sphereCall r c (.arr1 qv) d = .ok [sphereFF r c qv (d.getD 1)] ∧
    sphereCall r c (.list1 qv) d = .ok [sphereFF r c qv (d.getD 1)] := by
  have hd : densityArg d = d.getD 1 := by simp [densityArg, Scalar.lit]
  constructor <;> simp only [sphereCall, hd, sphere_batch_eq_map, List.map_cons, List.map_nil]

/-- **glue inconsistency (outside the property: batches are `(N,3)`)**: a bare `(3,)` array is an `IndexError` for
`Polygon`, but `Polyhedron` silently returns THREE copies of the amplitude (or a `ValueError` when `|q|² ≤ 1e-8`);
Python lists are a `TypeError` for `Polyhedron` only. Modelled as the code is. -/
theorem call_vector_quirks (vs : List (V3 ℝ)) (n : V3 ℝ) (faces : List (Face ℝ)) (vol : ℝ) (qv : V3 ℝ)
    (d : Option ℝ) (hq : isCloseZero (V3.dot qv qv) = false) :
    polygonCall vs n (.arr1 qv) d = .error "IndexError" ∧
    polyhedronCall faces vol (.arr1 qv) d =
      .ok (List.replicate 3 (polyhedronFF faces vol qv (d.getD 1))) ∧
    polyhedronCall faces vol (.list2 [qv]) d = .error "TypeError" ∧
    polyhedronCall faces vol (.arr1 ⟨0, 0, 0⟩) d = .error "ValueError" := by
  have hd : densityArg d = d.getD 1 := by simp [densityArg, Scalar.lit]
  have h0 : isCloseZero (V3.dot (⟨0, 0, 0⟩ : V3 ℝ) ⟨0, 0, 0⟩) = true := by
    have : V3.dot (⟨0, 0, 0⟩ : V3 ℝ) ⟨0, 0, 0⟩ = 0 := by simp [V3.dot]
    rw [this, isCloseZero_zero]
  refine ⟨rfl, ?_, rfl, ?_⟩
  · simp [polyhedronCall, hq, hd, List.replicate]
  · simp [polyhedronCall, h0]


end
