import CoxeterVerif.Lemmas.FormFactorIntegral
import CoxeterVerif.Lemmas.FormFactorRect
/-!
  # C12 — the form factor amplitude is the Fourier transform of the shape

  Model: `FF.polygonFF / polyhedronFF / sphereFF` (+ their masked batch versions) mirror
  `compute_form_factor_amplitude` of `polygon.py`, `polyhedron.py`, `sphere.py` as they are NOW.
  Spec:  `Spec.polygonFT` (Green / boundary form with the proved edge integral), `Spec.ballFT`.
  Complex numbers are pairs `Cx ℝ`; `FF.toC` reads a pair as an element of `ℂ`.
  All statements are over ℝ, for every vertex list / face list / wave vector / density.

  What is NOT a theorem here (and why):
  * inside the absolute `np.isclose` windows (`0 < |q∥|² ≤ 1e-8` for a polygon or a face,
    `0 < |q|² ≤ 1e-8` for a solid or a sphere) the code returns the `q = 0` value; there the
    property is FALSE of the code — see the `…_window_fails` theorems. Every `_partial` theorem
    below carries the hypothesis that the wave vector is outside the window (or exactly zero).
  * `polygon_ff_eq_spec_partial` equates the model with the boundary form; that the boundary form IS
    `∫∫ exp(-i q·r) dA` is Green's theorem on a polygon (trusted, not in Mathlib); the 1-D edge
    integral inside it is proved (`edge_integral`).
  * for polyhedra the divergence-theorem step (faces → solid) is trusted likewise; the laws
    (conjugation, translation, density, batch) are proved for every face list.
  * continuity as `q → 0` / `q∥ → 0` is false at the window edge in the strict sense (jump) and is
    checked numerically by the harness with the window bound; no `Filter.Tendsto` statement.
-/
open Scalar FF
set_option maxRecDepth 4000
noncomputable section

/-! ### the analytic kernel -/

/-- **edge integral** (Mathlib interval integral): `∫₀¹ e^{-i(a+sb)} ds = e^{-i(a+b/2)}·sinc(b/2)`. -/
theorem edge_integral (a b : ℝ) :
    (∫ s in (0:ℝ)..1, Complex.exp (-(Complex.I) * ((a : ℂ) + (s : ℂ) * b))) = toC (Spec.edgeIntegral a b) :=
  edge_integral_closed a b

example : toC (Spec.edgeIntegral 0 0) = 1 := by
  rw [← edge_integral]; simp

/-! ### concrete inputs used by the `example`s -/

/-- unit square in the plane `z = 0`, counter-clockwise about `+z` -/
def exSquare : List (V3 ℝ) := [⟨0, 0, 0⟩, ⟨1, 0, 0⟩, ⟨1, 1, 0⟩, ⟨0, 1, 0⟩]
def exZ : V3 ℝ := ⟨0, 0, 1⟩
/-- a wave vector outside every window, generic direction -/
def exQ : V3 ℝ := ⟨1, 2, 3⟩
/-- a non-zero wave vector inside the window (`|q|² = 2.5e-9`) -/
def exQwin : V3 ℝ := ⟨1 / 20000, 0, 0⟩

theorem exSquare_planar : ∀ v ∈ exSquare, V3.dot (v - (⟨0, 0, 0⟩ : V3 ℝ)) exZ = 0 := by
  intro v hv
  simp only [exSquare, List.mem_cons, List.not_mem_nil, or_false] at hv
  rcases hv with h | h | h | h <;> subst h <;> simp [V3.dot, exZ]

theorem exZ_unit : V3.dot exZ exZ = 1 := by simp [V3.dot, exZ]

theorem exQ_outside : isCloseZero (V3.dot (project exZ exQ) (project exZ exQ)) = false := by
  rw [Bool.eq_false_iff, Ne, isCloseZero_iff]
  simp only [project, exZ, exQ, V3.dot, V3.sub_x, V3.sub_y, V3.sub_z, V3.smul_x, V3.smul_y, V3.smul_z]
  norm_num

theorem exQwin_inside : isCloseZero (V3.dot (project exZ exQwin) (project exZ exQwin)) = true := by
  rw [isCloseZero_iff]
  simp only [project, exZ, exQwin, V3.dot, V3.sub_x, V3.sub_y, V3.sub_z, V3.smul_x, V3.smul_y, V3.smul_z]
  norm_num [abs_le]

/-! ### Polygon: the model is the boundary (Green) form -/

/-- **model = boundary form**: outside the zero window the code's edge sum is
`ρ · sign(signed_area) · (i/|q∥|²) Σ_edges q∥·(e×n̂) ∫₀¹ e^{-i q∥·(u+se)} ds`, for EVERY vertex list,
normal and wave vector (no planarity or orientation assumption). -/
theorem polygon_ff_eq_boundary_form (vs : List (V3 ℝ)) (n qv : V3 ℝ) (rho : ℝ)
    (hq : isCloseZero (V3.dot (project n qv) (project n qv)) = false) :
    polygonFF vs n qv rho =
      Cx.smul (rho * sign (signedArea vs n)) (Spec.boundaryForm vs n (project n qv)) := by
  unfold polygonFF
  simp only [hq, if_false, Bool.false_eq_true, polygonNonzero_eq_boundary]
  ext <;> simp <;> ring

example : polygonFF exSquare exZ exQ 2 =
    Cx.smul (2 * sign (signedArea exSquare exZ)) (Spec.boundaryForm exSquare exZ (project exZ exQ)) :=
  polygon_ff_eq_boundary_form _ _ _ _ exQ_outside

/-- `Polygon.signed_area` is the triangle-fan area of the specification (planar polygon, unit normal). -/
theorem polygon_signed_area_exact (v0 : V3 ℝ) (rest : List (V3 ℝ)) (n : V3 ℝ)
    (hplanar : ∀ v ∈ v0 :: rest, V3.dot (v - v0) n = 0) (hunit : V3.dot n n = 1) :
    signedArea (v0 :: rest) n = Spec.fanArea2 (v0 :: rest) n / 2 :=
  signedArea_eq_fan v0 rest n hplanar hunit (argmax_ne_zero n hunit)

example : signedArea exSquare exZ = Spec.fanArea2 exSquare exZ / 2 :=
  polygon_signed_area_exact _ _ _ exSquare_planar exZ_unit

/-- **F at in-plane zero is ρ · area** (planar polygon, unit normal, exact `q∥ = 0`; in particular
`q = 0` and every `q` along the normal). -/
theorem ff_zero_is_measure (v0 : V3 ℝ) (rest : List (V3 ℝ)) (n qv : V3 ℝ) (rho : ℝ)
    (hplanar : ∀ v ∈ v0 :: rest, V3.dot (v - v0) n = 0) (hunit : V3.dot n n = 1)
    (h0 : V3.dot (project n qv) (project n qv) = 0) :
    polygonFF (v0 :: rest) n qv rho = Cx.ofReal (rho * Spec.polygonMeasure (v0 :: rest) n) := by
  have hsa := polygon_signed_area_exact v0 rest n hplanar hunit
  unfold polygonFF
  simp only [h0, isCloseZero_zero, if_true]
  unfold polygonArea Spec.polygonMeasure
  rw [hsa]
  ext
  · simp [abs_div, Scalar.lit]
  · simp

example : polygonFF exSquare exZ ⟨0, 0, 7⟩ 3 = Cx.ofReal (3 * Spec.polygonMeasure exSquare exZ) :=
  ff_zero_is_measure _ _ _ _ _ exSquare_planar exZ_unit (by simp [project, exZ, V3.dot])

/-- **Polygon = Fourier transform of the region (boundary-form specification)**, for every planar
vertex list with unit normal and every `q` whose in-plane part is exactly zero or outside the
`isclose` window, whatever the orientation of the vertices.
`_partial`: (i) the window `0 < |q∥|² ≤ 1e-8` is excluded — the code is wrong there
(`polygon_ff_translate_window_fails`); (ii) `Spec.polygonFT` is the Green boundary form, its equality
with the area integral is trusted. -/
theorem polygon_ff_eq_spec_partial (v0 : V3 ℝ) (rest : List (V3 ℝ)) (n qv : V3 ℝ) (rho : ℝ)
    (hplanar : ∀ v ∈ v0 :: rest, V3.dot (v - v0) n = 0) (hunit : V3.dot n n = 1)
    (hwin : V3.dot (project n qv) (project n qv) = 0 ∨
      isCloseZero (V3.dot (project n qv) (project n qv)) = false) :
    polygonFF (v0 :: rest) n qv rho = Spec.polygonFT (v0 :: rest) n qv rho := by
  have hsa := polygon_signed_area_exact v0 rest n hplanar hunit
  unfold Spec.polygonFT
  change polygonFF (v0 :: rest) n qv rho =
    if Scalar.eqb (V3.dot (project n qv) (project n qv)) (lit 0) then _ else _
  rcases hwin with h0 | hnz
  · rw [ff_zero_is_measure v0 rest n qv rho hplanar hunit h0]
    simp [h0, Scalar.lit]
  · have hne : V3.dot (project n qv) (project n qv) ≠ 0 := by
      intro h; rw [h, isCloseZero_zero] at hnz; cases hnz
    rw [polygon_ff_eq_boundary_form _ _ _ _ hnz]
    simp only [eqb_real, Scalar.lit, Scalar.ofNat_real, Nat.cast_zero, hne, decide_false,
      Bool.false_eq_true, if_false]
    rw [hsa, sign_half]
    rfl

example : polygonFF exSquare exZ exQ 2 = Spec.polygonFT exSquare exZ exQ 2 :=
  polygon_ff_eq_spec_partial _ _ _ _ _ exSquare_planar exZ_unit (Or.inr exQ_outside)

/-- **rectangle = product of two 1-D transforms.** For every rectangle `[0,a]×[0,b]` in the plane `z = 0`
and every `q` with `q_x, q_y ≠ 0` outside the window, the model equals the Fubini closed form
`ρ ∫₀ᵃ e^{-i q_x x} dx · ∫₀ᵇ e^{-i q_y y} dy` — an end-to-end check of the Stokes reduction that does not
rely on Green's theorem. -/
theorem polygon_ff_rectangle_closed_form (a b x y z rho : ℝ) (ha : 0 < a) (hb : 0 < b) (hx : x ≠ 0) (hy : y ≠ 0)
    (hwin : isCloseZero (x * x + y * y) = false) :
    polygonFF (rect a b) zhat ⟨x, y, z⟩ rho = Cx.smul rho (Cx.mul (Spec.segFT 0 a x) (Spec.segFT 0 b y)) :=
  rect_ff_eq_product a b x y z rho ha hb hx hy hwin

example : polygonFF (rect 2 3) zhat ⟨1, 2, 3⟩ 5 = Cx.smul 5 (Cx.mul (Spec.segFT 0 2 1) (Spec.segFT 0 3 2)) :=
  polygon_ff_rectangle_closed_form 2 3 1 2 3 5 (by norm_num) (by norm_num) (by norm_num) (by norm_num)
    (by rw [Bool.eq_false_iff, Ne, isCloseZero_iff]; norm_num)

/-! ### Polygon: laws for every vertex list and every wave vector -/

/-- **F(−q) = conj F(q)** -/
theorem ff_conj (vs : List (V3 ℝ)) (n qv : V3 ℝ) (rho : ℝ) :
    polygonFF vs n (-qv) rho = Cx.conj (polygonFF vs n qv rho) :=
  polygonFF_neg vs n qv rho

example : polygonFF exSquare exZ (-exQ) 2 = Cx.conj (polygonFF exSquare exZ exQ 2) := ff_conj _ _ _ _

/-- reversing the vertex order negates `Polygon.signed_area` -/
theorem signed_area_reverse (vs : List (V3 ℝ)) (n : V3 ℝ) :
    signedArea vs.reverse n = -signedArea vs n :=
  signedArea_reverse vs n

/-- **orientation independence**: reversing the vertex order (clockwise ↔ counter-clockwise about
the stored normal) leaves the amplitude unchanged, in every branch — the edge sum changes sign and so
does `sign(signed_area)`. -/
theorem ff_reverse_invariant (vs : List (V3 ℝ)) (n qv : V3 ℝ) (rho : ℝ) :
    polygonFF vs.reverse n qv rho = polygonFF vs n qv rho :=
  polygonFF_reverse vs n qv rho

example : polygonFF [⟨0, 1, 0⟩, ⟨1, 1, 0⟩, ⟨1, 0, 0⟩, ⟨0, 0, 0⟩] exZ exQ 2 = polygonFF exSquare exZ exQ 2 :=
  ff_reverse_invariant exSquare exZ exQ 2

/-- **translation**: `F_{P+t}(q) = e^{-i q∥·t} F_P(q)` whenever the in-plane wave vector is outside the
window, or the phase is trivial (`q∥·t = 0`, e.g. `q∥ = 0`).
`_partial`: false inside the window, see `polygon_ff_translate_window_fails`. -/
theorem ff_translate_partial (vs : List (V3 ℝ)) (n qv t : V3 ℝ) (rho : ℝ)
    (h : isCloseZero (V3.dot (project n qv) (project n qv)) = false ∨ V3.dot t (project n qv) = 0) :
    polygonFF (vs.map (· + t)) n qv rho =
      Cx.mul (polygonFF vs n qv rho) (Cx.expNegI (V3.dot t (project n qv))) :=
  polygonFF_translate vs n qv t rho h

example : polygonFF (exSquare.map (· + (⟨5, -7, 2⟩ : V3 ℝ))) exZ exQ 2 =
    Cx.mul (polygonFF exSquare exZ exQ 2) (Cx.expNegI (V3.dot ⟨5, -7, 2⟩ (project exZ exQ))) :=
  ff_translate_partial _ _ _ _ _ (Or.inl exQ_outside)

/-- in-plane translations: `q∥·t = q·t` when `t ⟂ n` -/
theorem project_dot_inplane (n qv t : V3 ℝ) (ht : V3.dot n t = 0) :
    V3.dot t (project n qv) = V3.dot t qv := by
  have := dot_project_add n qv t
  rw [ht, mul_zero, add_zero] at this
  exact this

/-- **the code violates the translation law inside the window**: for every polygon of non-zero area,
a wave vector whose in-plane part lies in the `isclose` window and a translation with `q∥·t = π` give
`F_{P+t}(q) = F_P(q)` although the Fourier transform changes sign. -/
theorem polygon_ff_translate_window_fails (vs : List (V3 ℝ)) (n qv t : V3 ℝ)
    (hA : polygonArea vs n ≠ 0)
    (hwin : isCloseZero (V3.dot (project n qv) (project n qv)) = true)
    (hphase : V3.dot t (project n qv) = Real.pi) :
    ¬ (polygonFF (vs.map (· + t)) n qv 1 =
        Cx.mul (polygonFF vs n qv 1) (Cx.expNegI (V3.dot t (project n qv)))) := by
  unfold polygonFF
  simp only [hwin, if_true, polygonArea_translate, hphase]
  intro h
  have := congrArg Cx.re h
  simp at this
  apply hA
  linarith

theorem exSquare_area : polygonArea exSquare exZ = 1 := by
  unfold polygonArea
  rw [show exSquare = (⟨0, 0, 0⟩ : V3 ℝ) :: [⟨1, 0, 0⟩, ⟨1, 1, 0⟩, ⟨0, 1, 0⟩] from rfl,
    polygon_signed_area_exact _ _ _ exSquare_planar exZ_unit]
  simp [Spec.fanArea2, Spec.cyclicPairs, Spec.cyclicPairs.go, V3.cross, V3.dot, exZ]

/-- concrete witness: unit square, `q = (5e-5, 0, 0)`, `t = (20000π, 0, 0)` -/
theorem polygon_ff_translate_fails :
    ¬ (polygonFF (exSquare.map (· + (⟨20000 * Real.pi, 0, 0⟩ : V3 ℝ))) exZ exQwin 1 =
        Cx.mul (polygonFF exSquare exZ exQwin 1)
          (Cx.expNegI (V3.dot ⟨20000 * Real.pi, 0, 0⟩ (project exZ exQwin)))) := by
  apply polygon_ff_translate_window_fails _ _ _ _ _ exQwin_inside
  · simp [project, exZ, exQwin, V3.dot]; ring
  · rw [exSquare_area]; norm_num

/-- **density**: `F(ρ) = ρ · F(1)` -/
theorem ff_density_linear (vs : List (V3 ℝ)) (n qv : V3 ℝ) (rho : ℝ) :
    polygonFF vs n qv rho = Cx.smul rho (polygonFF vs n qv 1) :=
  polygonFF_density vs n qv rho

example : polygonFF exSquare exZ exQ 2 = Cx.smul 2 (polygonFF exSquare exZ exQ 1) := ff_density_linear _ _ _ _

/-- **batch = map of single**: the masked NumPy computation on an `(N,3)` batch (any `N`, any mix of
zero / in-plane-zero / generic rows) returns, row by row, the single-vector value. -/
theorem polygon_batch_eq_map (vs : List (V3 ℝ)) (n : V3 ℝ) (qs : List (V3 ℝ)) (rho : ℝ) :
    polygonFFBatch vs n qs rho = qs.map fun qv => polygonFF vs n qv rho := by
  unfold polygonFFBatch
  have h := scatter_selectNot (Cx.ofReal (polygonArea vs n))
    (fun qp : V3 ℝ => isCloseZero (V3.dot qp qp)) (polygonNonzero vs n) (qs.map (project n))
  dsimp only
  rw [h, List.map_map, List.map_map]
  apply List.map_congr_left
  intro qv _
  simp only [Function.comp_apply, polygonFF]

example : polygonFFBatch exSquare exZ [exQ, ⟨0, 0, 0⟩, ⟨0, 0, 5⟩] 2 =
    [polygonFF exSquare exZ exQ 2, polygonFF exSquare exZ ⟨0, 0, 0⟩ 2, polygonFF exSquare exZ ⟨0, 0, 5⟩ 2] :=
  polygon_batch_eq_map _ _ _ _

/-! ### Polyhedron / ConvexPolyhedron (one method), for every face list -/

/-- the six faces of the unit cube `[0,1]³` as the Python passes them: vertices, `eqn[:3]`, `eqn[3]` -/
def exCube : List (Face ℝ) :=
  [⟨[⟨1,0,0⟩, ⟨1,1,0⟩, ⟨1,1,1⟩, ⟨1,0,1⟩], ⟨1,0,0⟩, -1⟩, ⟨[⟨0,0,0⟩, ⟨0,0,1⟩, ⟨0,1,1⟩, ⟨0,1,0⟩], ⟨-1,0,0⟩, 0⟩,
   ⟨[⟨0,1,0⟩, ⟨0,1,1⟩, ⟨1,1,1⟩, ⟨1,1,0⟩], ⟨0,1,0⟩, -1⟩, ⟨[⟨0,0,0⟩, ⟨1,0,0⟩, ⟨1,0,1⟩, ⟨0,0,1⟩], ⟨0,-1,0⟩, 0⟩,
   ⟨[⟨0,0,1⟩, ⟨1,0,1⟩, ⟨1,1,1⟩, ⟨0,1,1⟩], ⟨0,0,1⟩, -1⟩, ⟨[⟨0,0,0⟩, ⟨0,1,0⟩, ⟨1,1,0⟩, ⟨1,0,0⟩], ⟨0,0,-1⟩, 0⟩]

theorem exCube_unit : ∀ f ∈ exCube, V3.norm f.normal = 1 := by
  intro f hf
  simp only [exCube, List.mem_cons, List.not_mem_nil, or_false] at hf
  rcases hf with h | h | h | h | h | h <;> subst h <;> simp [V3.norm, V3.normSq, V3.dot]

theorem exCube_outside : ∀ f ∈ exCube,
    isCloseZero (V3.dot (project f.normal exQ) (project f.normal exQ)) = false ∨
      V3.dot (⟨5, -7, 2⟩ : V3 ℝ) (project f.normal exQ) = 0 := by
  intro f hf
  left
  simp only [exCube, List.mem_cons, List.not_mem_nil, or_false] at hf
  rw [Bool.eq_false_iff, Ne, isCloseZero_iff]
  rcases hf with h | h | h | h | h | h <;> subst h <;>
    simp only [project, exQ, V3.dot, V3.sub_x, V3.sub_y, V3.sub_z, V3.smul_x, V3.smul_y, V3.smul_z] <;> norm_num

theorem exQ_nonzero : isCloseZero (V3.dot exQ exQ) = false := by
  rw [Bool.eq_false_iff, Ne, isCloseZero_iff]; simp only [exQ, V3.dot]; norm_num

/-- **F(−q) = conj F(q)** for every face list, volume, wave vector and density -/
theorem polyhedron_ff_conj (faces : List (Face ℝ)) (vol : ℝ) (qv : V3 ℝ) (rho : ℝ) :
    polyhedronFF faces vol (-qv) rho = Cx.conj (polyhedronFF faces vol qv rho) :=
  polyhedronFF_neg faces vol qv rho

example : polyhedronFF exCube 1 (-exQ) 2 = Cx.conj (polyhedronFF exCube 1 exQ 2) := polyhedron_ff_conj _ _ _ _

/-- **translation** `F_{P+t}(q) = e^{-i q·t} F_P(q)`: unit face normals, `q` outside the zero window
and, for every face, the in-plane part of `q` outside the window (or with trivial in-plane phase).
`_partial`: false inside the windows (`polyhedron_ff_translate_window_fails`). -/
theorem polyhedron_ff_translate_partial (faces : List (Face ℝ)) (vol : ℝ) (qv t : V3 ℝ) (rho : ℝ)
    (hunit : ∀ f ∈ faces, V3.norm f.normal = 1)
    (hq : isCloseZero (V3.dot qv qv) = false)
    (hf : ∀ f ∈ faces, isCloseZero (V3.dot (project f.normal qv) (project f.normal qv)) = false ∨
      V3.dot t (project f.normal qv) = 0) :
    polyhedronFF (faces.map (Face.translate t)) vol qv rho =
      Cx.mul (polyhedronFF faces vol qv rho) (Cx.expNegI (V3.dot t qv)) := by
  unfold polyhedronFF
  simp only [hq, if_false, Bool.false_eq_true, polyhedronNonzero_translate faces qv t hunit hf]
  ext <;> simp <;> ring

example : polyhedronFF (exCube.map (Face.translate ⟨5, -7, 2⟩)) 1 exQ 2 =
    Cx.mul (polyhedronFF exCube 1 exQ 2) (Cx.expNegI (V3.dot ⟨5, -7, 2⟩ exQ)) :=
  polyhedron_ff_translate_partial _ _ _ _ _ exCube_unit exQ_nonzero exCube_outside

/-- **the code violates the translation law inside the zero window**, for EVERY face list: a solid
of non-zero volume, `0 < |q|² ≤ 1e-8`, `q·t = π` — the code returns the volume for both positions
although the Fourier transform changes sign. -/
theorem polyhedron_ff_translate_window_fails (faces : List (Face ℝ)) (vol : ℝ) (qv t : V3 ℝ)
    (hV : vol ≠ 0) (hwin : isCloseZero (V3.dot qv qv) = true) (hphase : V3.dot t qv = Real.pi) :
    ¬ (polyhedronFF (faces.map (Face.translate t)) vol qv 1 =
        Cx.mul (polyhedronFF faces vol qv 1) (Cx.expNegI (V3.dot t qv))) := by
  unfold polyhedronFF
  simp only [hwin, if_true, hphase]
  intro h
  have := congrArg Cx.re h
  simp at this
  apply hV
  linarith

/-- concrete witness: unit cube, `q = (5e-5,0,0)`, `t = (20000π,0,0)` -/
theorem polyhedron_ff_translate_fails :
    ¬ (polyhedronFF (exCube.map (Face.translate ⟨20000 * Real.pi, 0, 0⟩)) 1 exQwin 1 =
        Cx.mul (polyhedronFF exCube 1 exQwin 1) (Cx.expNegI (V3.dot ⟨20000 * Real.pi, 0, 0⟩ exQwin))) := by
  apply polyhedron_ff_translate_window_fails _ _ _ _ one_ne_zero
  · rw [isCloseZero_iff]; simp only [exQwin, V3.dot]; norm_num [abs_le]
  · simp [exQwin, V3.dot]; ring

/-- **density**: the density argument multiplies the amplitude (the `fcd99e6` repair) -/
theorem polyhedron_ff_density_linear (faces : List (Face ℝ)) (vol : ℝ) (qv : V3 ℝ) (rho : ℝ) :
    polyhedronFF faces vol qv rho = Cx.smul rho (polyhedronFF faces vol qv 1) :=
  polyhedronFF_density faces vol qv rho

example : polyhedronFF exCube 1 exQ 2 = Cx.smul 2 (polyhedronFF exCube 1 exQ 1) :=
  polyhedron_ff_density_linear _ _ _ _

/-- **F(0) = ρ · volume** (`volume` is `self.volume`, exact by C01/C02) -/
theorem polyhedron_ff_zero_is_measure (faces : List (Face ℝ)) (vol : ℝ) (rho : ℝ) :
    polyhedronFF faces vol ⟨0, 0, 0⟩ rho = Cx.ofReal (rho * vol) := by
  unfold polyhedronFF
  have : V3.dot (⟨0, 0, 0⟩ : V3 ℝ) ⟨0, 0, 0⟩ = 0 := by simp [V3.dot]
  simp only [this, isCloseZero_zero, if_true]
  ext <;> simp

example : polyhedronFF exCube 1 ⟨0, 0, 0⟩ 2 = Cx.ofReal (2 * 1) := polyhedron_ff_zero_is_measure _ _ _

/-- **batch = map of single** for every batch size and mix of zero / non-zero rows -/
theorem polyhedron_batch_eq_map (faces : List (Face ℝ)) (vol : ℝ) (qs : List (V3 ℝ)) (rho : ℝ) :
    polyhedronFFBatch faces vol qs rho = qs.map fun qv => polyhedronFF faces vol qv rho := by
  unfold polyhedronFFBatch
  have h := scatter_selectNot (Cx.ofReal vol)
    (fun qv : V3 ℝ => isCloseZero (V3.dot qv qv)) (polyhedronNonzero faces) qs
  dsimp only
  rw [h, List.map_map]
  apply List.map_congr_left
  intro qv _
  simp only [Function.comp_apply, polyhedronFF]

example : polyhedronFFBatch exCube 1 [exQ] 2 = [polyhedronFF exCube 1 exQ 2] := polyhedron_batch_eq_map _ _ _ _

/-! ### Sphere -/

theorem sphere_ff_conj (r : ℝ) (c qv : V3 ℝ) (rho : ℝ) :
    sphereFF r c (-qv) rho = Cx.conj (sphereFF r c qv rho) :=
  sphereFF_neg r c qv rho

/-- translation holds in EVERY branch for the sphere (the phase is applied after the switch) -/
theorem sphere_ff_translate (r : ℝ) (c qv t : V3 ℝ) (rho : ℝ) :
    sphereFF r (c + t) qv rho = Cx.mul (sphereFF r c qv rho) (Cx.expNegI (V3.dot qv t)) :=
  sphereFF_translate r c qv t rho

theorem sphere_ff_density_linear (r : ℝ) (c qv : V3 ℝ) (rho : ℝ) :
    sphereFF r c qv rho = Cx.smul rho (sphereFF r c qv 1) :=
  sphereFF_density r c qv rho

example : sphereFF 2 (⟨1, 2, 3⟩ + ⟨4, 5, 6⟩) exQ 3 = Cx.mul (sphereFF 2 ⟨1, 2, 3⟩ exQ 3) (Cx.expNegI (V3.dot exQ ⟨4, 5, 6⟩)) :=
  sphere_ff_translate _ _ _ _ _

theorem dot_self_nonneg (u : V3 ℝ) : 0 ≤ V3.dot u u := by
  obtain ⟨x, y, z⟩ := u
  simp only [V3.dot]; nlinarith [mul_self_nonneg x, mul_self_nonneg y, mul_self_nonneg z]

/-- **Sphere = Fourier transform of the ball** (`4π (sin qR − qR cos qR)/q³ · e^{-i q·c}`, the volume at
`q = 0`), for every radius `≠ 0`, centre, density, and every `q` that is zero or outside the window.
`_partial`: inside `0 < |q|² ≤ 1e-8` the code returns the full volume whatever the radius. -/
theorem sphere_ff_eq_ball_partial (r : ℝ) (c qv : V3 ℝ) (rho : ℝ) (hr : r ≠ 0)
    (hwin : V3.dot qv qv = 0 ∨ isCloseZero (V3.dot qv qv) = false) :
    sphereFF r c qv rho = Spec.ballFT r c qv rho := by
  unfold sphereFF Spec.ballFT
  rcases hwin with h0 | hnz
  · simp only [h0, isCloseZero_zero, if_true, eqb_real, Scalar.lit, Scalar.ofNat_real, Nat.cast_zero, decide_true]
    ext <;> simp [sphereVolume, Spec.cis, Scalar.q] <;> ring
  · have hne : V3.dot qv qv ≠ 0 := by
      intro h; rw [h, isCloseZero_zero] at hnz; cases hnz
    have hpos : 0 < V3.dot qv qv := lt_of_le_of_ne (dot_self_nonneg qv) (Ne.symm hne)
    simp only [hnz, if_false, Bool.false_eq_true, eqb_real, Scalar.lit, Scalar.ofNat_real, Nat.cast_zero,
      hne, decide_false, Nat.cast_ofNat, Scalar.sqrt_real, Scalar.pi_real, Scalar.cos_real, Scalar.sin_real]
    rw [sphere_amp_eq r _ hr hpos]
    ext <;> simp [Spec.cis] <;> ring

example : sphereFF 2 ⟨1, 2, 3⟩ exQ 3 = Spec.ballFT 2 ⟨1, 2, 3⟩ exQ 3 :=
  sphere_ff_eq_ball_partial _ _ _ _ (by norm_num) (Or.inr exQ_nonzero)

/-- **F(0) = ρ · (4/3)π R³** -/
theorem sphere_ff_zero_is_measure (r : ℝ) (c : V3 ℝ) (rho : ℝ) :
    sphereFF r c ⟨0, 0, 0⟩ rho = Cx.ofReal (rho * (4 / 3 * Real.pi * (r * r * r))) := by
  unfold sphereFF
  have h1 : V3.dot (⟨0, 0, 0⟩ : V3 ℝ) ⟨0, 0, 0⟩ = 0 := by simp [V3.dot]
  have h2 : V3.dot (⟨0, 0, 0⟩ : V3 ℝ) c = 0 := by simp [V3.dot]
  simp only [h1, h2, isCloseZero_zero, if_true]
  ext <;> simp [sphereVolume, Scalar.q] <;> ring

theorem zipWith_map_self {β γ δ : Type} (f : γ → β → δ) (g : β → γ) (l : List β) :
    List.zipWith f (l.map g) l = l.map fun x => f (g x) x := by
  induction l with
  | nil => rfl
  | cons a l ih => simp [ih]

theorem sphere_batch_eq_map (r : ℝ) (c : V3 ℝ) (qs : List (V3 ℝ)) (rho : ℝ) :
    sphereFFBatch r c qs rho = qs.map fun qv => sphereFF r c qv rho := by
  unfold sphereFFBatch
  have h := scatter_selectNot (sphereVolume r)
    (fun qv : V3 ℝ => isCloseZero (V3.dot qv qv))
    (fun qv : V3 ℝ => (lit 4 * Scalar.pi * r * (npSinc (Scalar.sqrt (V3.dot qv qv) * r / Scalar.pi) -
      Scalar.cos (Scalar.sqrt (V3.dot qv qv) * r))) / V3.dot qv qv) qs
  dsimp only
  rw [h, zipWith_map_self]
  apply List.map_congr_left
  intro qv _
  simp only [sphereFF]

example : sphereFFBatch 2 ⟨1, 2, 3⟩ [exQ, ⟨0, 0, 0⟩] 3 = [sphereFF 2 ⟨1, 2, 3⟩ exQ 3, sphereFF 2 ⟨1, 2, 3⟩ ⟨0, 0, 0⟩ 3] :=
  sphere_batch_eq_map _ _ _ _

end
