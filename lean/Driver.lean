import CoxeterVerif.Driver.Proto
import CoxeterVerif.Driver.OpsC01
/-! Model driver: reads requests on stdin, answers on stdout (see Driver/Proto.lean). -/

def dispatch (α : Type) [Scalar α] [Codec α] (op : String) (c : Ctx) : Option (Rd String) :=
  (OpsC01.run (α := α) op c)

def handle (line : String) : String :=
  match (line.trimAscii.toString.splitOn " ").filter (· ≠ "") with
  | mode :: op :: rest =>
    match rest.mapM parseTok with
    | none => "X:bad-token"
    | some toks =>
      let c : Ctx := ⟨toks.toArray⟩
      let r := match mode with
        | "F" => dispatch Float op c
        | "Q" => dispatch Rat op c
        | _ => none
      match r with
      | none => "X:unknown-op"
      | some rd =>
        match (rd.run 0).run with
        | .ok (s, _) => s
        | .error e => s!"X:{e}"
  | _ => "X:bad-line"

partial def loop (h : IO.FS.Stream) (out : IO.FS.Stream) : IO Unit := do
  let line ← h.getLine
  if line.isEmpty then return ()
  out.putStrLn (handle line)
  out.flush
  loop h out

def main : IO Unit := do
  let out ← IO.getStdout
  loop (← IO.getStdin) out
  out.flush
