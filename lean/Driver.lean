import CoxeterVerif.Driver.Proto
import CoxeterVerif.Driver.OpsC01
import CoxeterVerif.Driver.OpsC02
import CoxeterVerif.Driver.OpsC03
import CoxeterVerif.Driver.OpsC04
import CoxeterVerif.Driver.OpsC05
import CoxeterVerif.Driver.OpsC06
import CoxeterVerif.Driver.OpsC07
import CoxeterVerif.Driver.OpsC08
import CoxeterVerif.Driver.OpsC09
import CoxeterVerif.Driver.OpsC10
import CoxeterVerif.Driver.OpsC11
import CoxeterVerif.Driver.OpsC12
import CoxeterVerif.Driver.OpsC13
import CoxeterVerif.Driver.OpsC14
import CoxeterVerif.Driver.OpsC15
import CoxeterVerif.Driver.OpsC16
import CoxeterVerif.Driver.OpsC17
import CoxeterVerif.Driver.OpsC18
import CoxeterVerif.Driver.OpsC19
import CoxeterVerif.Driver.OpsC20
/-! Model driver: reads requests on stdin, answers on stdout (see Driver/Proto.lean). -/

def dispatch (α : Type) [Scalar α] [Codec α] (op : String) (c : Ctx) : Option (Rd String) :=
  (OpsC01.run α op c) <|>
  (OpsC02.run α op c) <|>
  (OpsC03.run α op c) <|>
  (OpsC04.run α op c) <|>
  (OpsC05.run α op c) <|>
  (OpsC06.run α op c) <|>
  (OpsC07.run α op c) <|>
  (OpsC08.run α op c) <|>
  (OpsC09.run α op c) <|>
  (OpsC10.run α op c) <|>
  (OpsC11.run α op c) <|>
  (OpsC12.run α op c) <|>
  (OpsC13.run α op c) <|>
  (OpsC14.run α op c) <|>
  (OpsC15.run α op c) <|>
  (OpsC16.run α op c) <|>
  (OpsC17.run α op c) <|>
  (OpsC18.run α op c) <|>
  (OpsC19.run α op c) <|>
  (OpsC20.run α op c)

def handle (line : String) : String :=
  match (line.trimAscii.toString.splitOn " ").filter (· ≠ "") with
  | mode :: op :: rest =>
    match rest.mapM parseTok with
    | none => "X:bad-token"
    | some toks =>
      let c : Ctx := ⟨toks.toArray⟩
      let r := match mode with
        | "F" => dispatch Float op c
        | "Q" => dispatch Rat op c
        | _ => none
      match r with
      | none => "X:unknown-op"
      | some rd =>
        match (rd.run 0).run with
        | .ok (s, _) => s
        | .error e => s!"X:{e}"
  | _ => "X:bad-line"

partial def loop (h : IO.FS.Stream) (out : IO.FS.Stream) : IO Unit := do
  let line ← h.getLine
  if line.isEmpty then return ()
  out.putStrLn (handle line)
  out.flush
  loop h out

def main : IO Unit := do
  let out ← IO.getStdout
  loop (← IO.getStdin) out
  out.flush
