import CoxeterVerif.Scalar
import CoxeterVerif.Vec
import CoxeterVerif.Spec.Solid
import CoxeterVerif.Model.ConvexPolyhedron
import CoxeterVerif.Props.C01
