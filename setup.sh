#!/bin/bash
# MANIFEST.setup_cmd.  cwd = /verif.
# 1. regenerate lean/CoxeterVerif/Generated/*.lean from $COXETER_REPO (default /repo) with the translators of C17/C18,
#    so that the build never proves things about tables of another tree;
# 2. build the driver and every claimed theorem module.
# A failure of the modules that depend on regenerated tables is NOT a setup failure: it is a broken proof obligation
# that ./check C17 / ./check C18 turn into a failing-input search.  Setup fails only if hand-written sources do not build.
cd "$(dirname "$0")"
export COXETER_REPO=${COXETER_REPO:-/repo}
export PYTHONPATH=${COXETER_REPO}:${PYTHONPATH}
export PATH=/opt/veriftools/lean/bin:$PATH
export OMP_NUM_THREADS=1 OPENBLAS_NUM_THREADS=1
/venv/bin/python harness/translate_all.py || echo "setup: translator failed (checks will report)" >&2
HAND="driver"
GEN=""
for p in $(cat harness/claims/READY); do
  case "$p" in
    C17|C18) GEN="$GEN CoxeterVerif.Props.$p" ;;
    *) HAND="$HAND CoxeterVerif.Props.$p" ;;
  esac
done
cd lean
./lk build $HAND || exit 1
./lk build $GEN || echo "setup: modules over regenerated tables did not build (left to ./check C17 / C18)" >&2
exit 0
