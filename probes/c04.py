import numpy as np, rowan
from coxeter.shapes import Polygon, ConvexPolygon
import sys; sys.path.insert(0,'/verif/harness'); import gen
rng=np.random.default_rng(1)
def exact_inertia(v):
    # fan triangulation from v0 of a convex polygon; integrate r r^T over triangles: A/12 (sum vv^T + s s^T)
    M=np.zeros((3,3)); A=0
    nsum=np.zeros(3)
    for i in range(1,len(v)-1):
        a,b,c=v[0],v[i],v[i+1]
        ar=np.linalg.norm(np.cross(b-a,c-a))/2
        s=a+b+c
        M+=ar/12*(np.outer(a,a)+np.outer(b,b)+np.outer(c,c)+np.outer(s,s)); A+=ar
    return np.trace(M)*np.eye(3)-M, A
sq=np.array([[0,0,0],[2,0,0],[2,1,0],[0,1,0.]])
for trial in range(4):
    R=gen.random_rotation(rng) if trial else np.eye(3)
    v=sq@R.T+ (rng.normal(size=3) if trial>1 else 0)
    p=Polygon(v)
    I,A=exact_inertia(v)
    print(trial, np.abs(p.inertia_tensor-I).max(), p.area-A)
    mat,_=rowan.mapping.kabsch([p.normal,-p.normal],[[0,0,1],[0,0,-1]])
    print('  mat z', mat@[0,0,1], 'matT z', mat.T@[0,0,1], 'n', p.normal, np.linalg.det(mat))
print("---- spec J n n^T + A(|c|^2 - c c^T)")
def spec_inertia(v,n):
    I,A=exact_inertia(v)
    c=sum( (np.linalg.norm(np.cross(v[i]-v[0],v[i+1]-v[0]))/2)*(v[0]+v[i]+v[i+1])/3 for i in range(1,len(v)-1))/A
    Ic,_=exact_inertia(v-c)
    J=n@Ic@n
    return J*np.outer(n,n)+A*(c@c*np.eye(3)-np.outer(c,c))
for trial in range(5):
    R=gen.random_rotation(rng) if trial else np.eye(3)
    v=sq@R.T+ (rng.normal(size=3) if trial>1 else 0)
    p=Polygon(v)
    print(trial, np.abs(p.inertia_tensor-spec_inertia(v,p.normal)).max())
