"""Ad-hoc reproduction of the defects listed in DESIGN §12 against /repo (run: PYTHONPATH=/repo /venv/bin/python probes/defects.py)."""
import numpy as np, coxeter
from coxeter.shapes import *
np.set_printoptions(precision=6, suppress=True)
def show(name, f):
    try: print(name, '->', f())
    except Exception as e: print(name, '-> EXC', type(e).__name__, e)
show("C10 circle moments centre(2,3)", lambda: Circle(1,(2,3,0)).planar_moments_inertia)
show("C06 ellipse inside (-5,-5)", lambda: Ellipse(1,2).is_inside([[-5,-5,0],[0.9,1.9,0]]))
show("C13 circle maximal_bounded_circle", lambda: Circle(1).maximal_bounded_circle)
show("C13 rect incircle", lambda: ConvexPolygon([[0,0],[2,0],[2,1],[0,1]]).incircle.radius)
sq=[[0,0,0],[0,1,0],[1,1,0],[1,0,0]]
show("C04 cw square centroid n=+z", lambda: Polygon(sq,normal=[0,0,1]).centroid)
show("C04 ixy quadrant2", lambda: Polygon([[-3,1],[-1,1],[-1,2],[-3,2]]).planar_moments_inertia)
# L tromino
def vox(cells):
    from itertools import product
    verts={}; faces=[]
    cells=set(cells)
    def vid(p):
        return verts.setdefault(tuple(p),len(verts))
    dirs=[((1,0,0),[(1,0,0),(1,1,0),(1,1,1),(1,0,1)]),((-1,0,0),[(0,0,0),(0,0,1),(0,1,1),(0,1,0)]),
          ((0,1,0),[(0,1,0),(0,1,1),(1,1,1),(1,1,0)]),((0,-1,0),[(0,0,0),(1,0,0),(1,0,1),(0,0,1)]),
          ((0,0,1),[(0,0,1),(1,0,1),(1,1,1),(0,1,1)]),((0,0,-1),[(0,0,0),(0,1,0),(1,1,0),(1,0,0)])]
    for c in cells:
        for d,quad in dirs:
            if tuple(np.add(c,d)) not in cells:
                faces.append([vid(np.add(c,q)) for q in quad])
    V=np.array(sorted(verts,key=verts.get),dtype=float)
    return V,faces
V,F=vox([(0,0,0),(1,0,0),(0,1,0)])
def exact_inertia(cells):
    I=np.zeros((3,3))
    for c in cells:
        c=np.array(c,float)+0.5
        I+=np.eye(3)/6 + (c@c*np.eye(3)-np.outer(c,c))
    return I
show("C02 L inertia", lambda: Polyhedron(V,F).inertia_tensor - exact_inertia([(0,0,0),(1,0,0),(0,1,0)]))
show("C02 L volume/centroid", lambda: (Polyhedron(V,F).volume, Polyhedron(V,F).centroid))
cube=ConvexPolyhedron(np.array([[0,0,0],[2,0,0],[0,1,0],[2,1,0],[0,0,3],[2,0,3],[0,1,3],[2,1,3.]])+[5,1,2])
def diag():
    c=ConvexPolyhedron(cube.vertices@np.array([[0.8,-0.6,0],[0.6,0.8,0],[0,0,1]]).T)
    v0=c._calculate_signed_volume(); c.diagonalize_inertia()
    fresh=ConvexPolyhedron(c.vertices)
    return np.abs(np.sort(c.normals,axis=0)-np.sort(fresh.normals,axis=0)).max()
show("C03 diag stale normals", diag)
show("C08 cp volume=-1", lambda: (setattr(ConvexPolyhedron(cube.vertices),'volume',-1)))
show("C09 cube*1e-2 centroid", lambda: Polyhedron(cube.vertices*1e-2,cube.faces).centroid)
show("C12 (1,3) q polygon", lambda: Polygon(sq[::-1]).compute_form_factor_amplitude(np.array([[1.,2,3]])))
show("C12 density poly", lambda: (Polyhedron(cube.vertices,cube.faces).compute_form_factor_amplitude(np.array([[1.,2,3],[0,0,1]]),density=2.0), Polyhedron(cube.vertices,cube.faces).compute_form_factor_amplitude(np.array([[1.,2,3],[0,0,1]]))))
def alias():
    c=np.array([1.,2,3]); s=Sphere(1,c); c[0]=99; return s.centroid
show("C15 alias", alias)
def detach():
    p=Polygon(np.array(sq[::-1])+[3,4,0]); v=p.vertices; a=v.copy(); p.inertia_tensor; return np.abs(v-a).max(), v is p.vertices
show("C16 inertia detach", detach)
show("C19 hoomd verts mean", lambda: np.mean(Polyhedron(cube.vertices,cube.faces).to_hoomd()['vertices'],axis=0))
show("C19 repr", lambda: eval(repr(Polyhedron(cube.vertices,cube.faces)),{'coxeter':coxeter}))
U=[(0,0,0),(1,0,0),(2,0,0),(0,1,0),(2,1,0)]
V,F=vox(U)
show("C02 U inertia err", lambda: Polyhedron(V,F).inertia_tensor - exact_inertia(U))
show("C02 U shifted inertia err", lambda: Polyhedron(V+[10,0,0],F).inertia_tensor - (lambda I: I)(sum((np.eye(3)/6 + ((np.array(c)+[10.5,.5,.5])@(np.array(c)+[10.5,.5,.5])*np.eye(3)-np.outer(np.array(c)+[10.5,.5,.5],np.array(c)+[10.5,.5,.5])) for c in U))))
