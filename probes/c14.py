import numpy as np
from coxeter.shapes import ConvexSpheropolygon, ConvexPolygon
def exact(core, r, c, th):
    # ray from c in direction th: largest t with dist(c + t d, core polygon) <= r ; boundary of Minkowski sum: solve by bisection on convex set
    d=np.array([np.cos(th),np.sin(th)])
    def dist(p):
        # distance from p to convex polygon (0 inside)
        n=len(core); best=1e18; inside=True
        for i in range(n):
            a=core[i]; b=core[(i+1)%n]
            e=b-a; t=np.clip(np.dot(p-a,e)/np.dot(e,e),0,1); best=min(best,np.linalg.norm(p-(a+t*e)))
            if e[0]*(p[1]-a[1])-e[1]*(p[0]-a[0])<0: inside=False
        return 0 if inside else best
    lo,hi=0,1e3
    for _ in range(200):
        mid=(lo+hi)/2
        if dist(c+mid*d)<=r: lo=mid
        else: hi=mid
    return lo
core=np.array([[0,0],[3,0],[3.5,2],[1,2.5]])
for r in [0.5]:
    s=ConvexSpheropolygon(core,r)
    c=s.polygon.centroid[:2]
    cc=s.polygon.vertices[:,:2]
    th=np.array([0.1,np.pi/6,1.0,2.0,3.0,4.0,5.0,6.0,-0.5,7.0, np.pi/2, np.pi])
    got=s.distance_to_surface(th)
    ex=np.array([exact(cc,r,c,t) for t in th])
    print(np.c_[th,got,ex,got-ex])
sq=np.array([[0,0],[2,0],[2,1],[0,1.]])
s=ConvexSpheropolygon(sq,0.3); c=s.polygon.centroid[:2]
th=np.array([0.1,0.4636,0.6,-0.4636,2*np.pi+0.4636, np.pi/2,0])
print(np.c_[th,s.distance_to_surface(th),[exact(s.polygon.vertices[:,:2],0.3,c,t) for t in th]])
