"""C20 — exported mesh files describe exactly the polyhedron.

B  the real files written by coxeter.io.to_* / Polyhedron.save into a temp dir are compared byte for byte
   with the text of the Lean model (Model/MeshIO.lean) on the same mesh and the same coordinate tokens.
C  an independent parser per format (below, written from the format definitions) re-reads the REAL file and
   compares with the polyhedron; the Lean readers of Spec/MeshIO.lean (the ones of the round-trip theorems)
   are run on the real text as well.
"""
import copy as _copy
import html.parser
import os
import pathlib
import re
import struct
import tempfile
import xml.dom.minidom
from fractions import Fraction

import numpy as np

import gen
import history
import shapes_common
from common import L, ModelRaise, exc_kind, f2h, read_shuffled

RULE = ("convex solids from gen.convex_solid (35% prisms/antiprisms with n-gon caps n=3..12, else any kind), random "
        "rigid motion and offset (coordinates of both signs), half of them scaled by 10^U(-6,6) (values < 1e-4 print in "
        "exponent notation), built as ConvexPolyhedron(vertices) or as Polyhedron(vertices, faces), a third of them "
        "REACHED THROUGH MUTATORS (history.maybe_via_history); fixed tetrahedra / cubes at 1e-6..1e6, an irregular wedge "
        "inside each of the eight octants and straddling the origin (both classes); boxes with one corner 1e-12..1e-3 "
        "from the origin (tiny next to large coordinates); NON-CONVEX closed meshes with convex faces as Polyhedron — "
        "cubes whose top is a deep pyramidal / frustum-shaped dent (not star-shaped about the vertex mean), voxel solids "
        "(U, C, frames with a through-hole, cup, cage, stairs, random), prisms over L/U/C/T/plus/Z/star/zigzag polygons "
        "with triangulated caps — scaled, rotated and placed in every octant, exact volume known; solids at scale "
        "1e-12..1e12 (number-formatting clauses only); "
        "every case is exported in all seven formats, in an order drawn per case, directly and through save(), then moved "
        "with the centroid setter and exported once more; distinct = distinct (class, vertex array); non-trivial = >= 4 "
        "vertices in convex position and a constructed shape")
ASSUMPTIONS = [
    "a coordinate token is what Python's str() prints for the numpy double; the MODEL prints it with floatRepr "
    "(CPython format_float_short 'r') from the shortest round-trip digits, which the harness computes with exact "
    "rational arithmetic (not with repr) and the driver certifies against the double (readsAsB, exact over Q); the "
    "oracle checks float(token) == coordinate bit for bit and readsAsB(token, coordinate) on every coordinate token "
    "of every real file",
    "STL facet normals: the model computes np.cross(t1-t0, t2-t1) in IEEE doubles (compared bit for bit with the "
    "printed normals) and prints them with floatRepr; the oracle checks them geometrically as well: parallel (1e-9 + "
    "rounding bound of the cross product) to the triangle's own normal, pointing out of the solid; fan triangles must "
    "tile the face (boundary chain = face cycle, positive orientation, area 1e-8)",
    "XML serialisation (element tree <-> text) is not proved: the model's ElementTree serialiser is compared byte for "
    "byte with the real file, which is re-parsed with expat/minidom (X3D) and html.parser (HTML)",
    "'outward' is judged without assuming convexity: the file's surface must be closed and consistently oriented "
    "(every directed edge matched by exactly one opposite edge), its signed volume positive and equal to the exact "
    "volume of the solid where the generator knows it; STL: right-hand rule per facet, each facet in the plane of the "
    "face it came from with that face's normal (the shape's own cycles are outward: C07), facets closed and oriented, "
    "facet volume = volume of the solid; for convex solids additionally every face / facet normal points away from the "
    "vertex mean",
    "'exporting does not change the shape' is examined (a) bit for bit on every attribute of the instance dict after "
    "every single export (new cache entries are allowed), (b) through every public observable against a twin built "
    "the same way and never exported (shapes_common.observe/compare, 1e-9), (c) by an independent centroid / volume, "
    "(d) by moving the shape afterwards with the centroid setter and re-reading one more exported file",
]

FORMATS = ["OBJ", "OFF", "STL", "PLY", "VTK", "X3D", "HTML"]
FMT_CODE = {f: k for k, f in enumerate(FORMATS)}
UNKNOWN_TYPES = ["obj", "Obj", "", "XYZ", "GLTF", "OFF ", " OBJ", "STLX", "html"]


class Bad(Exception):
    """The file is not what the format prescribes (clause = stable name of the broken rule)."""

    def __init__(self, clause, detail=""):
        super().__init__(clause + (": " + detail if detail else ""))
        self.clause = clause
        self.detail = detail


# ----------------------------------------------------------------------------------------------------------------
# independent parsers (format definitions; none of this looks at coxeter/io.py)


def parse_obj(text):
    """Wavefront OBJ: `v x y z [w]`, `f i j k ...` (1-based, v/vt/vn and negative references allowed)."""
    V, F = [], []
    for ln in text.split("\n"):
        ln = ln.split("#", 1)[0].strip()
        if not ln:
            continue
        parts = ln.split()
        if parts[0] == "v":
            if len(parts) not in (4, 5):
                raise Bad("vertex-arity", ln)
            V.append(parts[1:4])
        elif parts[0] == "f":
            idx = []
            for t in parts[1:]:
                try:
                    i = int(t.split("/")[0])
                except ValueError:
                    raise Bad("face-index", ln)
                if i > 0:
                    idx.append(i - 1)
                elif i < 0:
                    idx.append(len(V) + i)
                else:
                    raise Bad("face-index-zero", ln)
            if len(idx) < 3:
                raise Bad("face-arity", ln)
            F.append(idx)
        elif parts[0] in ("vn", "vt", "vp", "g", "o", "s", "usemtl", "mtllib"):
            continue
        else:
            raise Bad("unknown-statement", ln)
    return V, F, {}


def _stream(lines):
    toks = []
    for ln in lines:
        toks.extend(ln.split("#", 1)[0].split())
    return toks


def _take_int(toks, k, clause):
    if k >= len(toks):
        raise Bad(clause, "unexpected end of data")
    try:
        return int(toks[k])
    except ValueError:
        raise Bad(clause, toks[k])


def _take_body(toks, k, nv, nf, clause_prefix=""):
    if k + 3 * nv > len(toks):
        raise Bad("vertex-count", "declared %d vertices, data ends early" % nv)
    V = [toks[k + 3 * i:k + 3 * i + 3] for i in range(nv)]
    k += 3 * nv
    F = []
    for _ in range(nf):
        n = _take_int(toks, k, "face-count")
        k += 1
        if n < 1 or k + n > len(toks):
            raise Bad("face-count", "face record runs past the end")
        F.append([_take_int(toks, k + j, "face-index") for j in range(n)])
        k += n
    return V, F, k


def parse_off(text):
    """Geomview OFF: `OFF`, `NVertices NFaces NEdges`, vertices, faces `n i1..in`; `#` comments."""
    toks = _stream(text.split("\n"))
    if not toks or toks[0] != "OFF":
        raise Bad("magic", toks[0] if toks else "")
    if len(toks) < 4:
        raise Bad("counts-line", "missing")
    info = {"stray_f": False}
    nv = _take_int(toks, 1, "counts-line")
    try:
        nf = int(toks[2])
    except ValueError:
        if re.fullmatch(r"f[0-9]+", toks[2]):
            info["stray_f"] = True
            nf = int(toks[2][1:])
        else:
            raise Bad("counts-line", toks[2])
    ne = _take_int(toks, 3, "counts-line")
    V, F, k = _take_body(toks, 4, nv, nf)
    if k != len(toks):
        raise Bad("face-count", "declared %d faces, %d tokens of data left over" % (nf, len(toks) - k))
    info["declared"] = (nv, nf, ne)
    return V, F, info


PLY_SCALAR = {"char", "uchar", "short", "ushort", "int", "uint", "float", "double",
              "int8", "uint8", "int16", "uint16", "int32", "uint32", "float32", "float64"}


def parse_ply(text):
    """PLY 1.0 ascii: generic header (elements with scalar / list properties), one record per line."""
    lines = text.split("\n")
    if not lines or lines[0].strip() != "ply":
        raise Bad("magic", lines[0] if lines else "")
    if len(lines) < 2 or lines[1].split() != ["format", "ascii", "1.0"]:
        raise Bad("format-line", lines[1] if len(lines) > 1 else "")
    elems = []
    k = 2
    while True:
        if k >= len(lines):
            raise Bad("header", "no end_header")
        parts = lines[k].split()
        k += 1
        if not parts:
            raise Bad("header", "blank line in header")
        if parts[0] == "end_header":
            break
        if parts[0] in ("comment", "obj_info"):
            continue
        if parts[0] == "element":
            if len(parts) != 3:
                raise Bad("header", lines[k - 1])
            try:
                elems.append({"name": parts[1], "count": int(parts[2]), "props": []})
            except ValueError:
                raise Bad("element-count", lines[k - 1])
        elif parts[0] == "property":
            if not elems:
                raise Bad("header", "property before element")
            if len(parts) == 3 and parts[1] in PLY_SCALAR:
                elems[-1]["props"].append(("scalar", parts[2]))
            elif len(parts) == 5 and parts[1] == "list" and parts[2] in PLY_SCALAR and parts[3] in PLY_SCALAR:
                elems[-1]["props"].append(("list", parts[4]))
            else:
                raise Bad("header", lines[k - 1])
        else:
            raise Bad("header", lines[k - 1])
    data = {}
    for e in elems:
        recs = []
        for _ in range(e["count"]):
            if k >= len(lines):
                raise Bad("%s-count" % e["name"], "declared %d, data ends early" % e["count"])
            toks = lines[k].split()
            k += 1
            rec = {}
            j = 0
            for kind, name in e["props"]:
                if kind == "scalar":
                    if j >= len(toks):
                        raise Bad("%s-record" % e["name"], lines[k - 1])
                    rec[name] = toks[j]
                    j += 1
                else:
                    n = _take_int(toks, j, "face-count")
                    if j + 1 + n > len(toks):
                        raise Bad("face-count", lines[k - 1])
                    rec[name] = [_take_int(toks, j + 1 + i, "face-index") for i in range(n)]
                    j += 1 + n
            if j != len(toks):
                raise Bad("%s-record" % e["name"], lines[k - 1])
            recs.append(rec)
        data[e["name"]] = recs
    if any(ln.strip() for ln in lines[k:]):
        raise Bad("face-count", "data after the last declared record")
    if "vertex" not in data or "face" not in data:
        raise Bad("header", "vertex/face element missing")
    try:
        V = [[r["x"], r["y"], r["z"]] for r in data["vertex"]]
        F = [r["vertex_indices"] if "vertex_indices" in r else r["vertex_index"] for r in data["face"]]
    except KeyError as e:
        raise Bad("header", "property %s missing" % e)
    return V, F, {"declared": tuple(e["count"] for e in elems)}


def parse_vtk(text):
    """VTK legacy 4.2 ASCII POLYDATA with POINTS and POLYGONS."""
    lines = text.split("\n")
    if len(lines) < 4 or not re.fullmatch(r"# vtk DataFile Version \d+\.\d+", lines[0].strip()):
        raise Bad("magic", lines[0] if lines else "")
    if len(lines[1]) > 256:
        raise Bad("title-too-long")
    if lines[2].strip() != "ASCII":
        raise Bad("encoding-line", lines[2])
    toks = " ".join(lines[3:]).split()
    if toks[:2] != ["DATASET", "POLYDATA"]:
        raise Bad("dataset-line", " ".join(toks[:2]))
    if len(toks) < 5 or toks[2] != "POINTS":
        raise Bad("points-line")
    nv = _take_int(toks, 3, "points-line")
    if toks[4] not in ("bit", "unsigned_char", "char", "unsigned_short", "short", "unsigned_int", "int",
                       "unsigned_long", "long", "float", "double"):
        raise Bad("points-line", toks[4])
    k = 5
    if k + 3 * nv > len(toks):
        raise Bad("vertex-count")
    V = [toks[k + 3 * i:k + 3 * i + 3] for i in range(nv)]
    k += 3 * nv
    if k >= len(toks) or toks[k] != "POLYGONS":
        raise Bad("vertex-count", "POLYGONS expected after %d points, got %r" % (nv, toks[k] if k < len(toks) else None))
    nf = _take_int(toks, k + 1, "polygons-line")
    size = _take_int(toks, k + 2, "polygons-line")
    k += 3
    start = k
    F = []
    for _ in range(nf):
        n = _take_int(toks, k, "face-count")
        if n < 1 or k + 1 + n > len(toks):
            raise Bad("face-count")
        F.append([_take_int(toks, k + 1 + j, "face-index") for j in range(n)])
        k += 1 + n
    if k != len(toks):
        raise Bad("face-count", "data after the last declared polygon")
    if k - start != size:
        raise Bad("polygons-size", "declared %d, data has %d integers" % (size, k - start))
    return V, F, {"declared": (nv, nf, size)}


def parse_stl(text):
    """ASCII STL: solid name / facet normal .. / outer loop / vertex ×3 / endloop / endfacet / endsolid."""
    lines = text.split("\n")
    if not lines or lines[0].split()[:1] != ["solid"]:
        raise Bad("magic", lines[0] if lines else "")
    toks = " ".join(lines[1:]).split()
    k = 0
    facets = []
    while True:
        if k >= len(toks):
            raise Bad("endsolid-missing")
        if toks[k] == "endsolid":
            if toks[k + 1:] not in ([], lines[0].split()[1:]):
                raise Bad("endsolid-name", " ".join(toks[k + 1:]))
            break
        if toks[k:k + 2] != ["facet", "normal"] or toks[k + 5:k + 7] != ["outer", "loop"]:
            raise Bad("facet-syntax", " ".join(toks[k:k + 7]))
        n = toks[k + 2:k + 5]
        k += 7
        tri = []
        for _ in range(3):
            if toks[k:k + 1] != ["vertex"] or k + 4 > len(toks):
                raise Bad("facet-syntax", " ".join(toks[k:k + 4]))
            tri.append(toks[k + 1:k + 4])
            k += 4
        if toks[k:k + 2] != ["endloop", "endfacet"]:
            raise Bad("facet-syntax", " ".join(toks[k:k + 2]))
        k += 2
        facets.append((n, tri))
    return facets


def _mf_ints(s, clause):
    out = []
    for t in re.split(r"[\s,]+", s.strip()):
        if t == "":
            continue
        try:
            out.append(int(t))
        except ValueError:
            raise Bad(clause, t)
    return out


def _faceset(coord_index, point):
    idx = _mf_ints(coord_index, "coordIndex")
    F, cur = [], []
    for i in idx:
        if i == -1:
            F.append(cur)
            cur = []
        elif i < 0:
            raise Bad("coordIndex", str(i))
        else:
            cur.append(i)
    if cur:
        F.append(cur)
    pts = [t for t in re.split(r"[\s,]+", point.strip()) if t != ""]
    if len(pts) % 3:
        raise Bad("point-arity", "%d numbers" % len(pts))
    V = [pts[3 * i:3 * i + 3] for i in range(len(pts) // 3)]
    return V, F


def _dom_child(node, name, strict, info):
    kids = [c for c in node.childNodes if c.nodeType == c.ELEMENT_NODE]
    for c in kids:
        if c.tagName == name:
            return c
    for c in kids:
        if c.tagName.lower() == name.lower():
            info["case"].append("%s for %s" % (c.tagName, name))
            return c
    raise Bad("structure", "no %s element in %s" % (name, node.tagName))


def parse_x3d(data):
    """X3D XML encoding (ISO/IEC 19776-1): X3D / Scene / Shape / IndexedFaceSet[coordIndex] / Coordinate[point]."""
    try:
        dom = xml.dom.minidom.parseString(data)
    except Exception as e:  # expat error
        raise Bad("not-well-formed-xml", str(e))
    info = {"case": []}
    root = dom.documentElement
    if root.tagName != "X3D":
        if root.tagName.lower() == "x3d":
            info["case"].append("%s for X3D" % root.tagName)
        else:
            raise Bad("structure", "root element " + root.tagName)
    scene = _dom_child(root, "Scene", True, info)
    shape = _dom_child(scene, "Shape", True, info)
    ifs = _dom_child(shape, "IndexedFaceSet", True, info)
    coord = _dom_child(ifs, "Coordinate", True, info)
    if not ifs.hasAttribute("coordIndex") or not coord.hasAttribute("point"):
        raise Bad("structure", "coordIndex / point attribute missing")
    V, F = _faceset(ifs.getAttribute("coordIndex"), coord.getAttribute("point"))
    return V, F, info


class _X3domPage(html.parser.HTMLParser):
    VOID = {"link", "meta", "br", "img", "input", "hr"}

    def __init__(self):
        super().__init__(convert_charrefs=True)
        self.stack = []
        self.doctype = None
        self.found = {}

    def handle_decl(self, decl):
        self.doctype = decl

    def handle_starttag(self, tag, attrs):
        self._open(tag, attrs)
        if tag not in self.VOID:
            self.stack.append(tag)

    def handle_startendtag(self, tag, attrs):
        self._open(tag, attrs)

    def _open(self, tag, attrs):
        path = self.stack + [tag]
        a = dict(attrs)
        if path == ["html", "body", "x3d", "scene", "shape", "indexedfaceset"]:
            self.found["coordindex"] = a.get("coordindex")
        if path == ["html", "body", "x3d", "scene", "shape", "indexedfaceset", "coordinate"]:
            self.found["point"] = a.get("point")
        if path == ["html", "head", "script"]:
            self.found["script"] = a.get("src")

    def handle_endtag(self, tag):
        if not self.stack or self.stack[-1] != tag:
            raise Bad("tag-nesting", "</%s> closes %s" % (tag, self.stack[-1:] or None))
        self.stack.pop()


def parse_html(text):
    """X3DOM page: <!DOCTYPE html>, html/body/x3d/scene/shape/indexedfaceset/coordinate (HTML names: any case)."""
    p = _X3domPage()
    p.feed(text)
    p.close()
    if p.stack:
        raise Bad("tag-nesting", "unclosed " + "/".join(p.stack))
    if (p.doctype or "").lower() != "doctype html" or not text.startswith("<!DOCTYPE html>"):
        raise Bad("doctype", repr(p.doctype))
    if not p.found.get("script"):
        raise Bad("structure", "x3dom script missing")
    if p.found.get("coordindex") is None or p.found.get("point") is None:
        raise Bad("structure", "indexedfaceset/coordinate not found")
    # the page declares the XHTML namespace: it must also be well-formed XML
    try:
        xml.dom.minidom.parseString(text[len("<!DOCTYPE html>"):].encode("utf-8"))
    except Exception as e:
        raise Bad("not-well-formed-xml", str(e))
    V, F = _faceset(p.found["coordindex"], p.found["point"])
    return V, F, {}


# ----------------------------------------------------------------------------------------------------------------
# comparison of parsed data with the polyhedron


def canon(f):
    f = [int(i) for i in f]
    k = f.index(min(f))
    return tuple(f[k:] + f[:k])


def to_floats(Vt):
    try:
        return np.array([[float(t) for t in v] for v in Vt], dtype=np.float64).reshape(-1, 3)
    except ValueError as e:
        raise Bad("coordinate-not-a-number", str(e))


def newell(P):
    P = np.asarray(P)
    Q = np.roll(P, -1, axis=0)
    return 0.5 * np.cross(P, Q).sum(axis=0) if len(P) else np.zeros(3)


def area_vector(P):
    P = np.asarray(P, dtype=float)
    return newell(P - P[0])


def unpaired_directed_edges(cycles):
    """directed edges of the index cycles that do not occur exactly once or whose reverse does not occur exactly once
    (empty for a closed, consistently oriented surface)"""
    cnt = {}
    for f in cycles:
        f = [int(i) for i in f]
        for e in zip(f, f[1:] + f[:1]):
            cnt[e] = cnt.get(e, 0) + 1
    return sorted(e for e, m in cnt.items() if m != 1 or cnt.get((e[1], e[0]), 0) != 1)


def signed_volume(V, F):
    """divergence theorem on the fan triangles of the cycles, about the vertex mean"""
    c = V.mean(axis=0)
    vol = 0.0
    for f in F:
        P = V[list(f)] - c
        for j in range(1, len(f) - 1):
            vol += np.dot(P[0], np.cross(P[j], P[j + 1])) / 6.0
    return vol


def check_orientation(V, F, ref=None, F_shape=None):
    """outward: the surface is closed and consistently oriented (every directed edge matched by exactly one opposite
    edge), its signed volume is > 0 and equals the solid's volume where that is known exactly; for convex solids
    moreover every face normal points away from the vertex mean.  F_shape: the cycles in the shape's vertex numbering
    (for the edge pairing) when F indexes per-corner points."""
    bad = unpaired_directed_edges(F if F_shape is None else F_shape)
    if bad:
        raise Bad("orientation", "%d directed edges are not matched by exactly one opposite edge, e.g. %r"
                  % (len(bad), bad[:3]))
    vol = signed_volume(V, F)
    if not vol > 0:
        raise Bad("orientation", "signed volume %r" % vol)
    known = getattr(ref, "volume", None)
    if known is not None and abs(vol - known) > 1e-9 * gen.diameter(V) ** 3:
        raise Bad("orientation", "signed volume %r, volume of the solid %r" % (vol, known))
    if getattr(ref, "convex", True):
        c = V.mean(axis=0)
        for f in F:
            P = V[f]
            n = area_vector(P)
            if not np.dot(n, P.mean(axis=0) - c) > 0:
                raise Bad("orientation", "face %r points inward" % (list(f),))


def compare_indexed(p, Vt, F):
    """parsed (tokens, faces) of an indexed format against the polyhedron."""
    V = to_floats(Vt)
    ref = np.ascontiguousarray(p.vertices, dtype=np.float64)
    if V.shape != ref.shape:
        raise Bad("vertex-count", "%d vertices in the file, %d in the shape" % (len(V), len(ref)))
    if V.tobytes() != ref.tobytes():
        bad = np.argwhere(V.view(np.uint64) != ref.view(np.uint64))[0]
        raise Bad("coordinates", "vertex %d: file %r, shape %r" % (bad[0], Vt[bad[0]], ref[bad[0]].tolist()))
    if any(min(f) < 0 or max(f) >= len(V) for f in F):
        raise Bad("face-index-out-of-range")
    if any(len(f) < 3 for f in F):
        raise Bad("face-arity")
    if sorted(canon(f) for f in F) != sorted(canon(f) for f in p.faces):
        raise Bad("face-cycles", "faces of the file are not the shape's cycles")
    check_orientation(V, F, p)


def vertex_lookup(p):
    ref = np.ascontiguousarray(p.vertices, dtype=np.float64)
    return {ref[i].tobytes(): i for i in range(len(ref))}


def compare_expanded(p, Vt, F):
    """X3D/HTML: `point` lists the corners face by face; re-index them by exact coordinate."""
    V = to_floats(Vt)
    look = vertex_lookup(p)
    if any(len(f) < 3 for f in F):
        raise Bad("face-arity")
    if any(min(f) < 0 or max(f) >= len(V) for f in F):
        raise Bad("face-index-out-of-range")
    faces = []
    for f in F:
        g = []
        for i in f:
            j = look.get(V[i].tobytes())
            if j is None:
                raise Bad("coordinates", "point %d = %r is not a vertex of the shape" % (i, Vt[i]))
            g.append(j)
        faces.append(g)
    if sorted(canon(f) for f in faces) != sorted(canon(f) for f in p.faces):
        raise Bad("face-cycles", "faces of the file are not the shape's cycles")
    used = set(i for f in F for i in f)
    if len(used) != len(V):
        raise Bad("point-count", "%d points, %d referenced" % (len(V), len(used)))
    check_orientation(V, F, p, F_shape=faces)


def compare_stl(p, facets):
    ref = np.ascontiguousarray(p.vertices, dtype=np.float64)
    look = vertex_lookup(p)
    centre = ref.mean(axis=0)
    convex = getattr(p, "convex", True)
    tris = []
    for n_tok, tri_tok in facets:
        n = to_floats([n_tok])[0]
        T = to_floats(tri_tok)
        idx = []
        for r, t in zip(T, tri_tok):
            j = look.get(r.tobytes())
            if j is None:
                raise Bad("coordinates", "facet corner %r is not a vertex of the shape" % (t,))
            idx.append(j)
        tris.append((n, idx))
    faces = [[int(i) for i in f] for f in p.faces]
    assigned = [[] for _ in faces]
    for n, idx in tris:
        owners = [k for k, f in enumerate(faces) if set(idx) <= set(f)]
        if len(owners) != 1:
            raise Bad("triangle-not-in-one-face", "corners %r lie in %d faces" % (idx, len(owners)))
        assigned[owners[0]].append((n, idx))
    for f, ts in zip(faces, assigned):
        P = ref[f]
        fn = area_vector(P)
        farea = np.linalg.norm(fn)
        out = P.mean(axis=0) - centre
        # the triangles' boundary is the face cycle (inner edges cancel in opposite pairs)
        edges = {}
        for _, (a, b, c) in ts:
            for e in ((a, b), (b, c), (c, a)):
                if edges.get((e[1], e[0]), 0) > 0:
                    edges[(e[1], e[0])] -= 1
                else:
                    edges[e] = edges.get(e, 0) + 1
        boundary = sorted(e for e, k in edges.items() for _ in range(k))
        if boundary != sorted(zip(f, f[1:] + f[:1])):
            raise Bad("triangles-do-not-cover-face", "face %r: boundary of its triangles is %r" % (f, boundary))
        tot = 0.0
        for n, (a, b, c) in ts:
            g = np.cross(ref[b] - ref[a], ref[c] - ref[a]) / 2
            tot += np.linalg.norm(g)
            if not np.dot(g, fn) > 0:
                raise Bad("triangle-orientation", "triangle %r of face %r is flipped" % ((a, b, c), f))
            # (a) right-hand rule of the listed corners, (d) the outward normal of the face the facet came from (the
            # shape's own cycles are outward: closed, consistently oriented, positive volume — checked below);
            # for a convex solid also directly: away from the vertex mean
            if not (np.dot(n, g) > 0 and np.dot(n, fn) > 0 and (not convex or np.dot(n, out) > 0)):
                raise Bad("normal-not-outward", "triangle %r normal %r" % ((a, b, c), n.tolist()))
            # rounding of a cross product of coordinate differences: eps * |coordinate| * |edge| per component
            T = ref[[a, b, c]]
            emax = max(np.linalg.norm(T[1] - T[0]), np.linalg.norm(T[2] - T[1]), np.linalg.norm(T[0] - T[2]))
            slack = 1e-9 + 64 * np.finfo(float).eps * np.abs(T).max() * emax / (2 * np.linalg.norm(g))
            if np.linalg.norm(np.cross(n, g)) > slack * np.linalg.norm(n) * np.linalg.norm(g):
                raise Bad("normal-not-perpendicular", "triangle %r normal %r" % ((a, b, c), n.tolist()))
        if abs(tot - farea) > 1e-8 * farea:
            raise Bad("triangles-do-not-cover-face", "face %r: area %r, triangles %r" % (f, farea, tot))
    # (b) the facets form a closed, consistently oriented surface; (c) whose signed volume is the volume of the solid
    # (the generator's exact value where known, else that of the shape's own face cycles) and positive
    cyc = [idx for _, idx in tris]
    bad = unpaired_directed_edges(cyc)
    if bad:
        raise Bad("facets-not-a-closed-oriented-surface",
                  "%d directed edges are not matched by exactly one opposite edge, e.g. %r" % (len(bad), bad[:3]))
    vol = signed_volume(ref, cyc)
    want = getattr(p, "volume", None)
    if want is None:
        want = signed_volume(ref, faces)
    if not (vol > 0 and abs(vol - want) <= 1e-9 * gen.diameter(ref) ** 3):
        raise Bad("facets-signed-volume", "signed volume of the facets %r, volume of the solid %r" % (vol, want))


# ----------------------------------------------------------------------------------------------------------------
# protocol helpers


def S(s):
    return L([ord(ch) for ch in s])


def mesh_tokens(vt, faces):
    return [L([[S(x), S(y), S(z)] for x, y, z in vt]), L([L([int(i) for i in f]) for f in faces])]


def text_of(reply):
    return "".join(chr(i) for i in reply)


class _It:
    def __init__(self, r):
        self.r, self.k = r, 0

    def n(self):
        v = self.r[self.k]
        self.k += 1
        return v

    def s(self):
        return "".join(chr(self.n()) for _ in range(self.n()))


def mesh_of(reply):
    it = _It(reply)
    if it.n() == 0:
        return None
    V = [[it.s(), it.s(), it.s()] for _ in range(it.n())]
    F = [[it.n() for _ in range(it.n())] for _ in range(it.n())]
    return V, F


def facets_of(reply):
    it = _It(reply)
    if it.n() == 0:
        return None
    return [tuple([it.s(), it.s(), it.s()] for _ in range(4)) for _ in range(it.n())]


def strs_of(reply):
    it = _It(reply)
    return [it.s() for _ in range(it.n())]


def first_diff(a, b):
    k = next((i for i, (x, y) in enumerate(zip(a, b)) if x != y), min(len(a), len(b)))
    return {"offset": k, "impl": a[max(0, k - 30):k + 30], "model": b[max(0, k - 30):k + 30],
            "len_impl": len(a), "len_model": len(b)}


# ----------------------------------------------------------------------------------------------------------------
# numbers: independent statement of the token grammar, shortest digits by exact arithmetic


NUM_RE = re.compile(r"[+-]?(?:[0-9]+(?:\.[0-9]*)?|\.[0-9]+)(?:[eE][+-]?[0-9]+)?\Z")
BAD_NUMBERS = ["nan", "inf", "-inf", "1e", "e5", ".", "", "1_0", "0x10", "1.2.3", "--1", "1e5.0", " 1", "1 ", "1,5",
               "+-1", "1e+-5", "#1", "1d5", "1.e", "Infinity"]
GOOD_NUMBERS = ["1.5", "-2.5e-05", ".5", "5.", "1e+16", "1E3", "+3", "-0.0", "007", "1e-320", "12345678901234567890.5"]


def bits_of(x):
    return struct.unpack(">Q", struct.pack(">d", float(x)))[0]


def shortest_digits(x):
    """(neg, digits, decpt): the shortest decimal d1..dn * 10^(decpt-n) whose correctly rounded double is |x|, the one
    nearest to |x| among those of that length (halfway: even last digit) — what dtoa mode 0 returns — computed with
    exact rational arithmetic (no repr/str involved)."""
    x = float(x)
    neg = bits_of(x) >> 63 == 1
    a = abs(x)
    if a == 0:
        return neg, [0], 1
    D = Fraction(a)
    e = len(str(D.numerator // D.denominator)) if D >= 1 else -(len(str(D.denominator // D.numerator)) - 1)
    while Fraction(10) ** e <= D:
        e += 1
    while Fraction(10) ** (e - 1) > D:
        e -= 1
    for n in range(1, 18):
        unit = Fraction(10) ** (e - n)
        lo = (D / unit).__floor__()
        best = None
        for cand in (lo, lo + 1):
            v = cand * unit
            try:
                fv = float(v)
            except OverflowError:
                fv = float("inf")
            if fv == a:
                key = (abs(v - D), cand % 2)
                if best is None or key < best[0]:
                    best = (key, cand)
        if best is not None:
            s = str(best[1])
            dp = e + (len(s) - n)
            s = s.rstrip("0") or "0"
            return neg, [int(ch) for ch in s], dp
    raise AssertionError("no 17-digit decimal reads back as %r" % x)


def model_repr(ctx, values):
    """`str(coord)` of the MODEL (floatRepr on the digits above) for a flat list of doubles"""
    out = []
    vals = [float(v) for v in values]
    for i in range(0, len(vals), 600):
        trip = [shortest_digits(v) for v in vals[i:i + 600]]
        out += strs_of(ctx.driver.F("io.repr", L([[int(n), L(ds), int(k)] for n, ds, k in trip])))
    return out


def reads_as(ctx, pairs):
    """pairs (token, double) -> list of bools: the Lean certificate `readsAsB` (exact over Q)"""
    out = []
    for i in range(0, len(pairs), 600):
        r = ctx.driver.Q("io.readsas", L([[S(t), f2h(x)] for t, x in pairs[i:i + 600]]))
        out += [bool(b) for b in r[1:]]
    return out


# ----------------------------------------------------------------------------------------------------------------


def build_direct(case):
    import coxeter
    v = np.array(case["vertices"], dtype=float)
    if case["cls"] == "mesh":
        # a closed, outward oriented mesh with planar convex faces, in general NOT convex and not star-shaped
        return coxeter.shapes.Polyhedron(v, [np.array(f) for f in case["faces"]])
    cp = coxeter.shapes.ConvexPolyhedron(v)
    if case["cls"] == "convex":
        return cp
    return coxeter.shapes.Polyhedron(np.array(cp.vertices), [[int(i) for i in f] for f in cp.faces])


def build(case, ctx=None):
    """the shape of the case; a third of the ordinary cases REACHED THROUGH MUTATORS (deterministic per case)"""
    p = build_direct(case)
    if case.get("extreme") or case.get("direct"):
        return p, "direct"
    return history.maybe_via_history(p, history.rng_for(case["vertices"]), 1.0 / 3.0, ctx)


def _freeze(v):
    if isinstance(v, np.ndarray):
        return ("nd", v.dtype.str, v.shape, v.tobytes())
    if isinstance(v, (list, tuple)):
        return ("seq", tuple(_freeze(x) for x in v))
    if isinstance(v, (float, np.floating)):
        return ("f", struct.pack(">d", float(v)))
    if isinstance(v, (int, bool, str, type(None), np.integer)):
        return ("v", v if not isinstance(v, np.integer) else int(v))
    if isinstance(v, dict):
        return ("d", tuple(sorted((str(k2), _freeze(x)) for k2, x in v.items())))
    return ("o", type(v).__name__)


def deep_snapshot(p):
    """every attribute in the instance dict, bit for bit (arrays, lists of arrays, floats); what the public getters
    `vertices`, `faces` return is included explicitly"""
    out = {k: _freeze(v) for k, v in p.__dict__.items()}
    out["<vertices>"] = _freeze(np.asarray(p.vertices))
    out["<faces>"] = _freeze([np.asarray(f) for f in p.faces])
    return out


def snapshot_diff(before, after):
    """attributes that existed before and are missing / different afterwards (new cache entries are allowed)"""
    return sorted(k for k in before if k not in after or after[k] != before[k])


def independent_centroid_volume(V, F):
    """divergence theorem on the fan triangles of the faces, about the vertex mean (no coxeter code)"""
    c0 = V.mean(axis=0)
    vol = 0.0
    mom = np.zeros(3)
    for f in F:
        P = V[list(f)] - c0
        for j in range(1, len(f) - 1):
            d = np.dot(P[0], np.cross(P[j], P[j + 1])) / 6.0
            vol += d
            mom += d * (P[0] + P[j] + P[j + 1]) / 4.0
    return c0 + mom / vol, vol


WRITERS = {"OBJ": "to_obj", "OFF": "to_off", "STL": "to_stl", "PLY": "to_ply", "VTK": "to_vtk", "X3D": "to_x3d",
           "HTML": "to_html"}
INDEXED = {"OBJ": parse_obj, "OFF": parse_off, "PLY": parse_ply, "VTK": parse_vtk}


class Ref:
    """the reference geometry a file is compared with (captured BEFORE any export)"""

    def __init__(self, vertices, faces, convex=True, volume=None):
        self.vertices = np.ascontiguousarray(vertices, dtype=np.float64).copy()
        self.faces = [[int(i) for i in f] for f in faces]
        self.convex = convex        # False: only the general orientation clauses apply
        self.volume = volume        # exact volume of the solid where the generator knows it


def check_file(ctx, case, ft, data, ref, emit_known=True, sig_suffix=""):
    """C: independent parser on one real file + comparison with the reference geometry.
    Returns (parsed coordinate tokens with the double each has to read as, stl facets or None)."""
    sig = "io.%s:" % WRITERS[ft]
    pairs = []
    stl_facets = None
    try:
        text = data.decode("ascii")
    except UnicodeDecodeError:
        ctx.fail(sig + "not-ascii" + sig_suffix, "file is not ASCII text", case, ft)
        return pairs, None
    try:
        if ft in INDEXED:
            V, F, info = INDEXED[ft](text)
            if info.get("stray_f") and emit_known:
                ctx.fail("io.to_off:counts-line-stray-f",
                         "OFF counts line has a stray 'f' before the face count; a reader of the format rejects the file",
                         case, text.split("\n")[3])
            compare_indexed(ref, V, F)
            pairs = [(t, x) for vt_, vx in zip(V, ref.vertices) for t, x in zip(vt_, vx)]
            d = info.get("declared")
            if ft == "OFF" and d is not None:
                und = set(frozenset(e) for f in F for e in zip(f, f[1:] + f[:1]))
                if d != (len(V), len(F), len(und)):
                    raise Bad("declared-counts", "declared %r, data has %r" % (d, (len(V), len(F), len(und))))
            if ft == "PLY" and d is not None and d != (len(V), len(F)):
                raise Bad("declared-counts", "declared %r, data has %r" % (d, (len(V), len(F))))
            if ft == "VTK" and d is not None and d != (len(V), len(F), len(F) + sum(len(f) for f in F)):
                raise Bad("declared-counts", "declared %r" % (d,))
        elif ft == "STL":
            stl_facets = parse_stl(text)
            compare_stl(ref, stl_facets)
            for n_tok, tri in stl_facets:
                for corner in tri:
                    x = to_floats([corner])[0]
                    pairs += [(t, float(xx)) for t, xx in zip(corner, x)]   # corners were matched bitwise to vertices
        elif ft == "X3D":
            V, F, info = parse_x3d(data)
            if info["case"] and emit_known:
                ctx.fail("io.to_x3d:element-name-case",
                         "X3D element names are written in the wrong case (XML names are case sensitive); a reader "
                         "of the X3D XML encoding does not find the X3D / Shape elements",
                         case, info["case"])
            compare_expanded(ref, V, F)
            pairs = [(t, float(x)) for vt_, vx in zip(V, to_floats(V)) for t, x in zip(vt_, vx)]
        elif ft == "HTML":
            V, F, info = parse_html(text)
            compare_expanded(ref, V, F)
            pairs = [(t, float(x)) for vt_, vx in zip(V, to_floats(V)) for t, x in zip(vt_, vx)]
    except Bad as e:
        ctx.fail(sig + e.clause + sig_suffix, "%s file does not describe the polyhedron (%s)" % (ft, e.clause), case,
                 e.detail)
        return [], stl_facets if ft == "STL" else None
    # every coordinate token must be a number of the format (independent regex; the Lean grammar is run below)
    for t, _ in pairs:
        if not NUM_RE.match(t):
            ctx.fail(sig + "coordinate-token-syntax" + sig_suffix, "%s coordinate token is not a decimal number" % ft,
                     case, t)
            break
    return pairs, stl_facets


# ---- tampered files: the readers (oracle parsers and Lean spec readers) must not accept wrong counts / indices


def tampered_texts(ft, text):
    """(name, tampered text) pairs: the same data with ONE declared count / index convention falsified"""
    out = []
    lines = text.split("\n")

    def bump(line_no, tok_no, delta, name):
        ls = list(lines)
        toks = ls[line_no].split(" ")
        m = re.fullmatch(r"([A-Za-z]*)([0-9]+)", toks[tok_no])
        toks[tok_no] = m.group(1) + str(int(m.group(2)) + delta)
        ls[line_no] = " ".join(toks)
        out.append((name, "\n".join(ls)))

    if ft == "PLY":
        iv = next(i for i, l in enumerate(lines) if l.startswith("element vertex"))
        jf = next(i for i, l in enumerate(lines) if l.startswith("element face"))
        bump(iv, 2, +1, "vertex-count+1")
        bump(iv, 2, -1, "vertex-count-1")
        bump(jf, 2, +1, "face-count+1")
        bump(jf, 2, -1, "face-count-1")
    elif ft == "OFF":
        bump(3, 0, +1, "vertex-count+1")
        bump(3, 0, -1, "vertex-count-1")
        bump(3, 1, +1, "face-count+1")
        bump(3, 1, -1, "face-count-1")
    elif ft == "VTK":
        ip = next(i for i, l in enumerate(lines) if l.startswith("POINTS"))
        jq = next(i for i, l in enumerate(lines) if l.startswith("POLYGONS"))
        bump(ip, 1, +1, "points-count+1")
        bump(ip, 1, -1, "points-count-1")
        bump(jq, 1, +1, "polygons-count+1")
        bump(jq, 2, +1, "polygons-size+1")
        bump(jq, 2, -(len(lines) - jq - 1), "polygons-size=connections-only")
    elif ft == "OBJ":
        ls = [("f " + " ".join(str(int(t) - 1) for t in l.split()[1:])) if l.startswith("f ") else l for l in lines]
        out.append(("zero-based-indices", "\n".join(ls)))
        ls = [("f " + " ".join(str(int(t) + 1) for t in l.split()[1:])) if l.startswith("f ") else l for l in lines]
        out.append(("indices+1", "\n".join(ls)))
    elif ft == "X3D":
        m = re.search(r'coordIndex="([^"]*)"', text)
        idx = m.group(1).split(" ")
        k = idx.index("-1")
        out.append(("separator-dropped", text[:m.start(1)] + " ".join(idx[:k] + idx[k + 1:]) + text[m.end(1):]))
        out.append(("index-out-of-range", text[:m.start(1)] + " ".join([str(len(idx))] + idx[1:]) + text[m.end(1):]))
        m2 = re.search(r'point="([^"]*)"', text)
        pts = m2.group(1).split(" ")
        out.append(("point-dropped", text[:m2.start(1)] + " ".join(pts[3:]) + text[m2.end(1):]))
        out.append(("end-tag-mismatch", text.replace("</Scene>", "</scene>")))
    elif ft == "STL":
        k = next(i for i, l in enumerate(lines) if l.strip().startswith("vertex"))
        out.append(("vertex-line-dropped", "\n".join(lines[:k] + lines[k + 1:])))
        k = next(i for i, l in enumerate(lines) if l.strip() == "endfacet")
        out.append(("endfacet-dropped", "\n".join(lines[:k] + lines[k + 1:])))
    return out


LEAN_READER = {"OBJ": 0, "OFF": 2, "PLY": 3, "VTK": 4}


def expanded_mesh(vt, faces):
    """what an X3D IndexedFaceSet of coxeter denotes: one point per face corner, consecutive index ranges"""
    V = [list(vt[i]) for f in faces for i in f]
    F, k = [], 0
    for f in faces:
        F.append(list(range(k, k + len(f))))
        k += len(f)
    return V, F


def tamper_test(ctx, case, ft, text, ref, mesh, facets):
    """a file with ONE falsified count / index convention must fail the round trip: the oracle's parser + comparison
    must reject it, and the Lean reader must return nothing or a mesh different from the shape's (`mesh`)"""
    for name, bad in tampered_texts(ft, text):
        # the oracle's parser + comparison
        try:
            if ft == "STL":
                compare_stl(ref, parse_stl(bad))
            elif ft == "X3D":
                V, F, info = parse_x3d(bad.encode("ascii"))
                compare_expanded(ref, V, F)
            else:
                V, F, info = INDEXED[ft](bad)
                compare_indexed(ref, V, F)
                d = info.get("declared")
                if ft == "VTK" and d is not None and d != (len(V), len(F), len(F) + sum(len(f) for f in F)):
                    raise Bad("declared-counts")
            accepted = True
        except Bad:
            accepted = False
        if accepted:
            ctx.disagree("oracle.parser-accepts-tampered:%s:%s" % (ft, name), case, name)
        # the Lean reader of the round-trip theorems
        if ft == "STL":
            r = facets_of(ctx.driver.Q("io.read_stl", S(bad)))
            same = r is not None and [tuple(map(tuple, x)) for x in r] == facets
        elif ft == "X3D":
            r = mesh_of(ctx.driver.Q("io.read_xml", 1, S(bad)))
            same = r is not None and (r[0], r[1]) == expanded_mesh(*mesh)
        else:
            r = mesh_of(ctx.driver.Q("io.read", LEAN_READER[ft], S(bad)))
            same = r is not None and (r[0], r[1]) == mesh
        if same:
            ctx.disagree("spec.reader-accepts-tampered:%s:%s" % (ft, name), case, name)
        ctx.count("tampered:%s:%s" % (ft, "rejected" if r is None else "different-mesh"))
        ctx.count("tampered:%s" % ft)


def grammar_selftest(ctx):
    """the Lean number grammar and the regular expression above must accept / reject the same strings"""
    for t in BAD_NUMBERS + GOOD_NUMBERS:
        r = ctx.driver.Q("io.tokval", S(t))
        lean_ok = r[0] == 1
        if lean_ok != bool(NUM_RE.match(t)):
            ctx.disagree("spec.tokValue-grammar", {"token": t}, [t, lean_ok])
        if lean_ok:
            try:
                # Python's own conversion of the exact rational must be Python's own reading of the token
                if float(Fraction(r[1])) != float(t):
                    ctx.disagree("spec.tokValue-value", {"token": t}, [t, str(r[1])])
            except (ValueError, OverflowError):
                ctx.disagree("spec.tokValue-value", {"token": t}, t)


# ----------------------------------------------------------------------------------------------------------------


def eval_case(ctx, case):
    import coxeter
    from coxeter import io
    try:
        p, how = build(case, ctx)
        twin, _ = build(case)
        if np.asarray(p.vertices).tobytes() != np.asarray(twin.vertices).tobytes():
            # the detour through the mutators was not reproducible bit for bit: judge the directly built shape
            ctx.count("reached:history-not-reproducible")
            p, twin, how = build_direct(case), build_direct(case), "direct"
    except Exception as e:
        # not an I/O matter (C15/C07): the case is dropped
        ctx.count("dropped:constructor-" + exc_kind(e))
        return
    extreme = bool(case.get("extreme"))
    ver = coxeter.__version__
    cls = p.__class__.__name__
    is_mesh = case["cls"] == "mesh"
    ref = Ref(p.vertices, p.faces, convex=not is_mesh, volume=case.get("volume"))
    V0, faces = ref.vertices, ref.faces
    if is_mesh:
        ctx.count("class:Polyhedron:non-convex")
        cm = V0.mean(axis=0)
        if any(np.dot(area_vector(V0[f]), V0[f].mean(axis=0) - cm) < 0 for f in faces):
            ctx.count("class:Polyhedron:not-star-shaped-about-the-vertex-mean")
    size = shapes_common.size_of(p)
    krng = history.rng_for([case["vertices"], "c20-order"])
    ctx.count("class:" + cls)
    ctx.count("class:%s:%s" % (cls, "via-history" if how.startswith("via") else "direct"))
    for f in faces:
        ctx.count("face-degree:%d" % len(f))
    octant = "".join("+" if s > 0 else "-" for s in np.sign(V0.mean(axis=0) + 0.0))
    straddle = bool(np.any((V0.min(axis=0) < 0) & (V0.max(axis=0) > 0)))
    ctx.count("octant:%s%s" % (octant, ":straddles-a-coordinate-plane" if straddle else ""))
    if np.any(V0 < 0):
        ctx.count("class:%s:has-negative-coordinate" % cls)
    for c in V0.ravel():
        ctx.count("coordinate-magnitude:" + ("0" if c == 0 else "1e%+03d" % int(np.floor(np.log10(abs(c))))))

    # ---------------- exports, in an order drawn per case; after EVERY export the shape must be bit for bit the same
    snap0 = deep_snapshot(p)
    files = {}
    copies = []
    use_pathlib = bool(krng.random() < 0.5)
    ctx.count("filename:" + ("pathlib.Path" if use_pathlib else "str"))

    def changed(where, ft):
        nonlocal p, snap0
        diff = snapshot_diff(snap0, deep_snapshot(p))
        if diff:
            ctx.fail(where + "mutates-shape", "exporting changed the shape (attributes %s differ bit for bit)" % diff,
                     case, {"format": ft, "attributes": diff})
            p = _copy.deepcopy(twin)
            snap0 = deep_snapshot(p)

    def export(ft):
        with tempfile.TemporaryDirectory(prefix="c20-") as tmp:
            path = os.path.join(tmp, "direct." + ft.lower())
            sig = "io.%s:" % WRITERS[ft]
            spy = None
            if ft == "STL" and hasattr(io, "deepcopy"):
                orig = io.deepcopy

                def spy(o, *a, **k):
                    c = orig(o, *a, **k)
                    copies.append(c)
                    return c
                io.deepcopy = spy
            try:
                getattr(io, WRITERS[ft])(p, path)
                files[ft] = open(path, "rb").read()
            except Exception as e:
                ctx.fail(sig + "raises:" + exc_kind(e), "%s raised %s on a valid polyhedron" % (WRITERS[ft], exc_kind(e)),
                         case, repr(e))
                return None
            finally:
                if spy is not None:
                    io.deepcopy = orig
            changed(sig, ft)
            # ---- save() dispatch: same bytes as the direct writer
            path2 = os.path.join(tmp, "saved." + ft.lower())
            if use_pathlib:
                path2 = pathlib.Path(path2)     # "filename (str, pathlib.Path, or os.PathLike)"
            try:
                p.save(ft, path2)
                saved = open(path2, "rb").read()
                if saved != files[ft]:
                    ctx.fail("Polyhedron.save:dispatch:" + ft, "save(%r) wrote a file different from io.%s" %
                             (ft, WRITERS[ft]), case, first_diff(files[ft].decode("utf-8", "replace"),
                                                                saved.decode("utf-8", "replace")))
            except Exception as e:
                ctx.fail("Polyhedron.save:dispatch:" + ft, "save(%r) raised %s" % (ft, exc_kind(e)), case, repr(e))
            changed("Polyhedron.save:", ft)
        return True

    _, order = read_shuffled({ft: (lambda ft=ft: export(ft)) for ft in FORMATS}, [case["vertices"], case["cls"]])
    ctx.count("first-export:" + order[0])

    # ---- unknown file types
    with tempfile.TemporaryDirectory(prefix="c20-") as tmp:
        for ft in case.get("unknown", UNKNOWN_TYPES[:3]):
            path3 = os.path.join(tmp, "unknown.out")
            try:
                p.save(ft, path3)
                kind = None
            except Exception as e:
                kind = exc_kind(e)
            if kind != "ValueError":
                ctx.fail("Polyhedron.save:unknown-type", "save(%r) %s instead of raising ValueError" %
                         (ft, "returned" if kind is None else "raised " + kind), case, ft)
            try:
                ctx.driver.F("io.save", S(ft), S(ver), S(cls), *mesh_tokens([], []), L([]))
                mk = None
            except ModelRaise as e:
                mk = e.kind
            if mk != kind:
                ctx.disagree("io.save:unknown", case, [ft, kind, mk])
    changed("Polyhedron.save:", "unknown-type")

    # ---------------- C: independent parsers on the real files, against the geometry captured before the first export
    pairs_all = {}
    stl_facets = None
    for ft in FORMATS:
        if ft not in files:
            continue
        pairs, fac = check_file(ctx, case, ft, files[ft], ref)
        pairs_all[ft] = pairs
        if ft == "STL":
            stl_facets = fac
    texts = {}
    for ft, data in files.items():
        try:
            texts[ft] = data.decode("ascii")
        except UnicodeDecodeError:
            pass

    # every coordinate token of every format, read by a correctly rounding reader, is EXACTLY the coordinate: Python's
    # float() bit for bit, and the Lean certificate `readsAsB` (exact over Q) on the same tokens
    uniq = {}
    for ft, pairs in pairs_all.items():
        for t, x in pairs:
            uniq.setdefault((t, bits_of(x)), ft)
            try:
                if bits_of(float(t)) != bits_of(x):
                    raise ValueError
            except ValueError:
                ctx.fail("io.%s:coordinates" % WRITERS[ft], "coordinate token %r does not read back as the coordinate" % t,
                         case, [t, repr(float(x))])
                break
    items = list(uniq.items())
    oks = reads_as(ctx, [(t, struct.unpack(">d", struct.pack(">Q", b))[0]) for (t, b), _ in items])
    for ((t, b), ft), ok in zip(items, oks):
        if not ok:
            ctx.fail("io.%s:token-does-not-read-as-the-coordinate" % WRITERS[ft],
                     "the exact decimal value of a coordinate token does not round to the coordinate (Lean readsAsB)",
                     case, [t, "%016x" % b])
            break
    ctx.count("tokens:certified", len(items))
    toks = [t for (t, _), _ in items]
    ctx.count("tokens:exponent", sum(1 for t in toks if "e" in t))
    ctx.count("tokens:negative", sum(1 for t in toks if t.startswith("-")))
    ctx.count("tokens:plain", sum(1 for t in toks if "e" not in t))

    # ---------------- no mutation, seen through the public interface: the exported object against a twin that was
    # built the same way and never exported; an independent centroid / volume
    if not extreme:
        try:
            orng = np.random.default_rng(int(krng.integers(1 << 30)))
            names = shapes_common.public_properties(type(p))
            obs_p = shapes_common.observe(p, order_rng=orng, json_names=names[:6])
            obs_t = shapes_common.observe(twin, order_rng=np.random.default_rng(1), json_names=names[:6])
            diffs = shapes_common.compare(obs_p, obs_t, size, cond=shapes_common.cond_of(p))
            if diffs:
                ctx.fail("Polyhedron.save:mutates-shape:observable",
                         "after the exports the shape answers differently from a twin that was never exported: %s"
                         % [d[0] for d in diffs[:5]], case, [d[0] for d in diffs[:8]])
        except Exception as e:
            ctx.count("dropped:observe-" + exc_kind(e))
        try:
            c_ind, v_ind = independent_centroid_volume(V0, faces)
            c_now = np.asarray(p.centroid, dtype=float)
            if not ctx.close_enough(c_now, c_ind, size, 1e-7) or not ctx.close_enough(p.volume, v_ind, size ** 3, 1e-7):
                ctx.fail("Polyhedron.save:mutates-shape:centroid",
                         "after the exports centroid / volume are not those of the vertices and faces", case,
                         [c_now.tolist(), c_ind.tolist(), float(p.volume), float(v_ind)])
        except Exception as e:
            ctx.count("dropped:centroid-" + exc_kind(e))

    # ---------------- B: the model's text on the same mesh, byte for byte; tokens and STL normals from the model too
    flat = [float(c) for c in V0.ravel()]
    toks_m = model_repr(ctx, flat)
    vt = [toks_m[3 * i:3 * i + 3] for i in range(len(V0))]
    vt_impl = [[str(c) for c in v] for v in p.vertices]
    if vt != vt_impl:
        k = next(i for i, (a, b) in enumerate(zip(sum(vt, []), sum(vt_impl, []))) if a != b)
        ctx.disagree("io.repr", case, [sum(vt, [])[k], sum(vt_impl, [])[k]])
    mt = mesh_tokens(vt, faces)
    cert = ctx.driver.Q("io.coordcert", mt[0], L([[f2h(x), f2h(y), f2h(z)] for x, y, z in V0.tolist()]))[0]
    if not cert:
        ctx.disagree("io.coordcert", case, "coordsReadAs is false on the model's own tokens: the hypothesis of the "
                     "`_exact` theorems does not hold")
    normals_m = []
    if stl_facets is not None:
        for f in faces:
            r = ctx.driver.F("io.stl_normals", L([[float(a), float(b), float(c)] for a, b, c in V0.tolist()]), L(f))
            normals_m += [r[3 * i:3 * i + 3] for i in range(len(r) // 3)]
        printed = [to_floats([n])[0] for n, _ in stl_facets]
        if len(printed) != len(normals_m) or any(
                bits_of(a) != bits_of(b) for pn, mn in zip(printed, normals_m) for a, b in zip(pn, mn)):
            ctx.disagree("io.stl_normals", case, [np.asarray(printed).tolist()[:3], normals_m[:3]])
        ntoks = model_repr(ctx, [c for n in normals_m for c in n])
        normals_t = [ntoks[3 * i:3 * i + 3] for i in range(len(normals_m))]
    for ft in FORMATS:
        if ft not in texts:
            continue
        if ft == "STL" and stl_facets is None:
            continue
        ns = L([[S(a), S(b), S(c)] for a, b, c in normals_t]) if ft == "STL" else L([])
        model = text_of(ctx.driver.F("io.write", FMT_CODE[ft], S(ver), S(cls), *mt, ns))
        if model != texts[ft]:
            ctx.disagree("io.write:" + ft, case, first_diff(texts[ft], model))
        if ft == case.get("save_model", "PLY"):
            try:
                model2 = text_of(ctx.driver.F("io.save", S(ft), S(ver), S(cls), *mt, ns))
            except ModelRaise as e:
                model2 = "E:" + e.kind
            if model2 != texts[ft]:
                ctx.disagree("io.save:" + ft, case, first_diff(texts[ft], model2))
    ne = ctx.driver.F("io.edges", L([L(f) for f in faces]))[0]
    if ne != len(p.edges):
        ctx.disagree("io.edges", case, [ne, len(p.edges)])

    # ---- the heap model of to_stl's preamble against what really happened to the arrays
    if "STL" in files:
        convex = cls == "ConvexPolyhedron"
        cen0 = np.asarray(twin._centroid if convex else twin.centroid, dtype=float)
        r = ctx.driver.F("io.stl_pre", 0, int(convex), L(flat), L([float(c) for c in cen0]), L([]))
        it = _It(r)
        m_verts = [it.n() for _ in range(it.n())]
        m_cen = [it.n() for _ in range(it.n())]
        m_vs = [it.n() for _ in range(it.n())]
        m_copy_cen = [it.n() for _ in range(it.n())]
        m_same = it.n()
        now_v = [float(c) for c in np.asarray(p._vertices).ravel()]
        now_c = [float(c) for c in np.asarray(p._centroid if convex else cen0).ravel()]
        ok = (m_same is True and [bits_of(a) for a in m_verts] == [bits_of(a) for a in now_v]
              and [bits_of(a) for a in m_cen] == [bits_of(a) for a in now_c]
              and [bits_of(a) for a in m_vs] == [bits_of(a) for a in flat])
        if not ok:
            ctx.disagree("io.stl_pre", case, "arrays after to_stl differ from the heap model (deepcopy, shift on the copy)")
        if not copies:
            ctx.disagree("io.stl_pre:deepcopy", case, "to_stl did not call coxeter.io.deepcopy on the shape")
        elif convex:
            cc = [float(c) for c in np.asarray(copies[0]._centroid).ravel()]
            if [bits_of(a) for a in cc] != [bits_of(a) for a in m_copy_cen]:
                ctx.disagree("io.stl_pre:copy-centroid", case, [cc, m_copy_cen])
            if np.asarray(copies[0]._vertices).tobytes() != V0.tobytes():
                ctx.disagree("io.stl_pre:copy-vertices", case, "the copy's vertices were shifted")

    # ---------------- C': the Lean readers (Spec/MeshIO.lean) on the real text
    for ft, code in (("OBJ", 0), ("PLY", 3), ("VTK", 4), ("OFF", 2)):
        if ft not in texts:
            continue
        r = mesh_of(ctx.driver.Q("io.read", code, S(texts[ft])))
        if r is None or r[0] != vt_impl or r[1] != faces:
            ctx.fail("io.%s:spec-reader" % WRITERS[ft],
                     "the Lean reader of the %s format does not recover the mesh from the real file" % ft, case,
                     None if r is None else "different mesh")
    if "OFF" in texts:
        strict = mesh_of(ctx.driver.Q("io.read", 1, S(texts["OFF"])))
        try:
            stray = parse_off(texts["OFF"])[2]["stray_f"]
        except Bad:
            stray = None
        if stray is not None and (strict is None) != bool(stray):
            ctx.disagree("spec.readOff", case, "Lean strict OFF reader and the Python OFF parser disagree")
    if "STL" in texts and stl_facets is not None:
        r = facets_of(ctx.driver.Q("io.read_stl", S(texts["STL"])))
        want = [(list(n), list(t[0]), list(t[1]), list(t[2])) for n, t in stl_facets]
        if r is None or [tuple(x) for x in r] != [tuple(x) for x in want]:
            ctx.fail("io.to_stl:spec-reader", "the Lean STL reader does not recover the facets from the real file",
                     case, None if r is None else "different facets")
    # the XML formats: the Lean XML parser (the one `xml_parse_render` is about) + the tree readers on the real TEXT
    want_x = expanded_mesh(vt_impl, faces)
    for ft, code in (("X3D", 1), ("HTML", 2)):
        if ft not in texts:
            continue
        r = mesh_of(ctx.driver.Q("io.read_xml", code, S(texts[ft])))
        if r is None or (r[0], r[1]) != want_x:
            ctx.fail("io.%s:spec-reader" % WRITERS[ft],
                     "the Lean XML parser + %s reader do not recover the per-corner mesh from the real file" % ft, case,
                     None if r is None else "different mesh")
    if "X3D" in texts:
        strict = mesh_of(ctx.driver.Q("io.read_xml", 0, S(texts["X3D"])))
        try:
            wrong_case = bool(parse_x3d(files["X3D"])[2]["case"])
        except Bad:
            wrong_case = None
        if wrong_case is not None and (strict is None) != wrong_case:
            ctx.disagree("spec.readX3d", case, "Lean case-sensitive X3D reader and the Python X3D parser disagree")
    if case.get("tamper"):
        for ft in ("OBJ", "OFF", "PLY", "VTK", "STL", "X3D"):
            if ft in texts:
                tamper_test(ctx, case, ft, texts[ft], ref, (vt_impl, faces),
                            None if stl_facets is None else
                            [(tuple(n), tuple(t[0]), tuple(t[1]), tuple(t[2])) for n, t in stl_facets])

    # ---------------- history: exports, then a mutator that relies on the cached state, then another export
    if not extreme:
        try:
            shift = krng.normal(size=3) * size * 0.5
            target = np.asarray(twin.centroid, dtype=float) + shift
            p.centroid = target
            twin.centroid = target
        except Exception as e:
            ctx.count("dropped:centroid-setter-" + exc_kind(e))
            return
        c_ind, _ = independent_centroid_volume(V0, faces)
        want = V0 + (target - c_ind)
        ft2 = FORMATS[int(krng.integers(len(FORMATS)))]
        ctx.count("export-after-move:" + ft2)
        if not ctx.close_enough(np.asarray(p.vertices), np.asarray(twin.vertices), size + np.linalg.norm(target)) or \
                not ctx.close_enough(np.asarray(p.vertices), want, size + np.linalg.norm(target), 1e-7):
            ctx.fail("Polyhedron.save:mutates-shape:later-move",
                     "after exports, `centroid = c` moves the shape differently from a twin that was never exported "
                     "(exports left a changed cached centroid behind)", case,
                     float(np.abs(np.asarray(p.vertices) - np.asarray(twin.vertices)).max()))
            return
        with tempfile.TemporaryDirectory(prefix="c20-") as tmp:
            path = os.path.join(tmp, "moved." + ft2.lower())
            try:
                p.save(ft2, path)
                data = open(path, "rb").read()
            except Exception as e:
                ctx.fail("Polyhedron.save:raises-after-move:" + exc_kind(e), "save raised after a centroid move", case,
                         repr(e))
                return
        check_file(ctx, case, ft2, data, Ref(p.vertices, p.faces, convex=not is_mesh, volume=case.get("volume")),
                   emit_known=False, sig_suffix=":after-move")


def make_case(rng, ctx):
    kind = None
    if rng.random() < 0.35:
        kind = ["prism", "antiprism"][int(rng.integers(2))]
    scale = None
    if rng.random() < 0.5:
        scale = float(10 ** rng.uniform(-6, 6))
    v, info = gen.convex_solid(rng, kind, scale=scale)
    ctx.count("kind:" + info["kind"])
    cls = "convex" if rng.random() < 0.5 else "poly"
    unknown = [UNKNOWN_TYPES[int(i)] for i in rng.choice(len(UNKNOWN_TYPES), size=2, replace=False)]
    return {"vertices": v.tolist(), "cls": cls, "info": info, "unknown": unknown,
            "save_model": FORMATS[int(rng.integers(len(FORMATS)))], "tamper": bool(rng.random() < 0.15)}


def corner_box_case(rng, ctx):
    """a box one corner of which is (almost) at the origin: coordinates of magnitude 1e-12..1e-3 next to ones of the
    size of the box, of either sign (the small ones print in exponent notation with up to 17 digits)"""
    s = float(10 ** rng.uniform(-3, 6))
    lo = rng.choice([-1.0, 1.0], size=3) * 10 ** rng.uniform(-12, -3, size=3)
    ext = s * rng.uniform(1.0, 2.0, size=3) * rng.choice([-1.0, 1.0], size=3)
    v = np.array([[lo[0] + a * ext[0], lo[1] + b * ext[1], lo[2] + c * ext[2]] for a in (0, 1) for b in (0, 1) for c in (0, 1)])
    if rng.random() < 0.5:
        # generic vertices: cut one corner off
        v = np.vstack([v[1:], v[0] + 0.3 * np.array([ext[0], 0, 0]), v[0] + 0.4 * np.array([0, ext[1], 0]),
                       v[0] + 0.5 * np.array([0, 0, ext[2]])])
    ctx.count("kind:corner-box")
    return {"vertices": v.tolist(), "cls": "convex" if rng.random() < 0.5 else "poly",
            "info": {"kind": "corner-box", "scale": s}, "unknown": ["obj"], "save_model": "OBJ", "direct": True}


def extreme_case(rng, ctx, s):
    """scale 1e-12 .. 1e12 (outside 1e-6..1e6 only the number formatting clauses are examined)"""
    v, info = gen.convex_solid(rng, None, scale=1.0, offset_diams=float(rng.uniform(0, 2)))
    v = v * s
    ctx.count("kind:extreme-scale")
    return {"vertices": v.tolist(), "cls": "convex" if rng.random() < 0.5 else "poly",
            "info": {"kind": "extreme:" + info["kind"], "scale": s}, "unknown": ["obj"], "save_model": "VTK",
            "extreme": True}


def _prism_tricaps(poly, tris, z0, z1):
    poly = np.asarray(poly, dtype=float)
    n = len(poly)
    V = np.vstack([np.c_[poly, np.full(n, z0)], np.c_[poly, np.full(n, z1)]])
    F = []
    for (i, j, k) in tris:
        F.append([k, j, i])
        F.append([n + i, n + j, n + k])
    for i in range(n):
        j = (i + 1) % n
        F.append([i, j, n + j, n + i])
    return V, F


def dented_cube(kind, depth, a=0.2, dx=0.0, dy=0.0):
    """unit cube whose whole top face is replaced by a pyramidal / frustum-shaped dent of the given depth: every face is
    convex; for depth > ~0.5 the planes of the dent's faces separate them from the vertex mean (not star-shaped)"""
    cube = np.array([[0, 0, 0], [1, 0, 0], [1, 1, 0], [0, 1, 0], [0, 0, 1], [1, 0, 1], [1, 1, 1], [0, 1, 1]], dtype=float)
    walls = [[0, 3, 2, 1], [0, 1, 5, 4], [1, 2, 6, 5], [2, 3, 7, 6], [3, 0, 4, 7]]
    if kind == "pyramid":
        V = np.vstack([cube, [[0.5 + dx, 0.5 + dy, 1.0 - depth]]])
        F = walls + [[4, 5, 8], [5, 6, 8], [6, 7, 8], [7, 4, 8]]
        vol = 1.0 - depth / 3.0
    else:
        h = 1.0 - depth
        V = np.vstack([cube, [[a, a, h], [1 - a, a, h], [1 - a, 1 - a, h], [a, 1 - a, h]]])
        F = walls + [[4, 5, 9, 8], [5, 6, 10, 9], [6, 7, 11, 10], [7, 4, 8, 11], [8, 9, 10, 11]]
        vol = 1.0 - depth / 3.0 * (1.0 + (1 - 2 * a) ** 2 + (1 - 2 * a))
    return V, F, vol


def place_mesh(rng, V, vol, octant=None):
    """anisotropic axis scaling (keeps the faces planar), rigid motion, scale, offset into an octant"""
    d = 2.0 ** rng.integers(-1, 2, size=3) if rng.random() < 0.4 else np.ones(3)
    V = V * d
    vol = vol * float(np.prod(d))
    r = rng.random()
    if r < 0.5:
        R = gen.random_rotation(rng)
    elif r < 0.8:
        R = gen.c05_signed_perm_rotation(rng)
    else:
        R = np.eye(3)
    s = float(10 ** rng.uniform(-3, 3)) if rng.random() < 0.5 else 1.0
    V = (V - V.mean(axis=0)) @ np.asarray(R, dtype=float).T * s
    vol *= s ** 3
    sign = np.asarray(octant if octant is not None else rng.choice([-1.0, 1.0], size=3), dtype=float)
    off = sign * rng.uniform(0.0, 3.0, size=3) * gen.diameter(V) * (0.0 if rng.random() < 0.2 else 1.0)
    return V + off, vol, {"scale": s, "octant": sign.tolist()}


def mesh_case(rng, ctx, octant=None, family=None, dent_kind=None):
    """non-convex closed meshes with convex faces, as Polyhedron: dented cubes, voxel solids (U, C, frames, cup, cage …),
    prisms over non-convex polygons with triangulated caps; the exact volume is known"""
    family = family or ["dent", "dent", "voxel", "voxel", "prism"][int(rng.integers(5))]
    if family == "dent":
        kind = dent_kind or ("pyramid" if rng.random() < 0.5 else "frustum")
        depth = float(rng.uniform(0.55, 0.95)) if (dent_kind or rng.random() < 0.85) else float(rng.uniform(0.05, 0.3))
        V, F, vol = dented_cube(kind, depth, a=float(rng.uniform(0.1, 0.35)), dx=float(rng.uniform(-0.3, 0.3)),
                                dy=float(rng.uniform(-0.3, 0.3)))
        name = "dented-cube:%s" % kind
    elif family == "voxel":
        kinds = ["U", "C", "frame", "frame-thick", "cup", "cage", "stairs", "L3d", "L", "T", "plus", "random"]
        m = gen.c05_voxel_solid(rng, kinds[int(rng.integers(len(kinds)))])
        V, F = np.array(m["vertices"], dtype=float), [list(map(int, f)) for f in m["faces"]]
        vol = len(m["cells"]) * float(np.prod(m["spacing"]))
        name = m["kind"]
    else:
        while True:
            try:
                m = gen.c05_extruded_polygon(rng)
                tris = gen.ear_clip_exact(np.asarray(m["poly"], dtype=float).tolist())
                if tris:
                    break
            except RuntimeError:
                continue
        poly = np.asarray(m["poly"], dtype=float)
        V, F = _prism_tricaps(poly, tris, m["z0"], m["z1"])
        x, y = poly[:, 0], poly[:, 1]
        vol = 0.5 * abs(float(np.dot(x, np.roll(y, -1)) - np.dot(y, np.roll(x, -1)))) * (m["z1"] - m["z0"])
        name = m["kind"] + ":tricaps"
    V, vol, info = place_mesh(rng, V, vol, octant)
    ctx.count("kind:" + name.split(":")[0] + ":" + name.split(":")[1])
    info["kind"] = name
    return {"vertices": V.tolist(), "faces": F, "cls": "mesh", "volume": float(vol), "info": info,
            "unknown": ["obj"], "save_model": "STL", "tamper": bool(rng.random() < 0.1)}


def fixed_cases():
    """exponent notation, both signs, 1e-6 / 1e6 magnitudes on simple solids; every octant, both classes."""
    tet = np.array([[1, 1, 1], [1, -1, -1], [-1, 1, -1], [-1, -1, 1]], dtype=float)
    cube = np.array([[x, y, z] for x in (-1, 1) for y in (-1, 1) for z in (-1, 1)], dtype=float)
    out = []
    for name, v in (("tetrahedron", tet), ("cube", cube)):
        for s in (1e-6, 1.0, 1e6, 3.3e-5, 2.5e5):
            for cls in ("convex", "poly"):
                if name == "cube" and s == 1.0:
                    continue
                out.append({"vertices": (v * s + np.array([0.25, -0.5, 0.125]) * s).tolist(), "cls": cls,
                            "info": {"kind": "fixed:" + name, "scale": s}, "unknown": ["obj", ""],
                            "save_model": "STL", "tamper": s == 1e-6, "direct": True})
    # an irregular wedge (no symmetry, mixed face degrees) well inside each octant, and straddling the origin
    wedge = np.array([[0, 0, 0], [2, 0, 0], [2, 1.5, 0], [0, 1.5, 0], [0.5, 0.25, 1.0], [1.5, 0.5, 1.25]], dtype=float)
    k = 0
    for sx in (-1, 1):
        for sy in (-1, 1):
            for sz in (-1, 1):
                for cls in ("convex", "poly"):
                    off = np.array([sx, sy, sz]) * np.array([3.0, 2.5, 4.0])
                    s = [1.0, 1e-3, 1e3, 1e-5][k % 4]
                    k += 1
                    out.append({"vertices": ((wedge - wedge.mean(axis=0) + off) * s).tolist(), "cls": cls,
                                "info": {"kind": "fixed:octant", "octant": [sx, sy, sz], "scale": s},
                                "unknown": ["Obj"], "save_model": FORMATS[k % 7], "direct": k % 3 == 0})
    for cls in ("convex", "poly"):
        out.append({"vertices": (wedge - np.array([0.7, 0.4, 0.3])).tolist(), "cls": cls,
                    "info": {"kind": "fixed:straddling-origin"}, "unknown": ["obj"], "save_model": "STL", "tamper": True})
    return out


def run(ctx):
    if ctx.widen == 1:
        grammar_selftest(ctx)
        for case in fixed_cases():
            ctx.count("kind:fixed")
            ctx.case(case)
            eval_case(ctx, case)
    n = ctx.budget(36, 800)
    for _ in range(n):
        case = make_case(ctx.rng, ctx)
        ctx.case(case)
        eval_case(ctx, case)
    octants = [(sx, sy, sz) for sx in (-1.0, 1.0) for sy in (-1.0, 1.0) for sz in (-1.0, 1.0)]
    for j in range(ctx.budget(20, 260)):
        # every octant, and the deep dents (not star-shaped about the vertex mean) in every run
        case = mesh_case(ctx.rng, ctx, octant=octants[j % 8], family="dent" if j < 8 else None,
                         dent_kind=["pyramid", "frustum"][j % 2] if j < 8 else None)
        ctx.case(case)
        eval_case(ctx, case)
    for _ in range(ctx.budget(10, 150)):
        case = corner_box_case(ctx.rng, ctx)
        ctx.case(case)
        eval_case(ctx, case)
    for j in range(ctx.budget(12, 72)):
        s = [1e-12, 1e12, 1e-9, 1e9, 3e-11, 7e10][j % 6] * float(10 ** ctx.rng.uniform(-0.5, 0.5))
        case = extreme_case(ctx.rng, ctx, s)
        ctx.case(case)
        eval_case(ctx, case)


def replay(ctx, payload):
    case = payload.get("case", payload)
    if "broken" in payload and "vertices" not in case:
        case = payload["broken"][0]["case"]
    if "vertices" not in case:
        grammar_selftest(ctx)
        return
    ctx.case(case)
    eval_case(ctx, case)
