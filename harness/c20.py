"""C20 — exported mesh files describe exactly the polyhedron.

B  the real files written by coxeter.io.to_* / Polyhedron.save into a temp dir are compared byte for byte
   with the text of the Lean model (Model/MeshIO.lean) on the same mesh and the same coordinate tokens.
C  an independent parser per format (below, written from the format definitions) re-reads the REAL file and
   compares with the polyhedron; the Lean readers of Spec/MeshIO.lean (the ones of the round-trip theorems)
   are run on the real text as well.
"""
import html.parser
import os
import re
import tempfile
import xml.dom.minidom

import numpy as np

import gen
from common import L, ModelRaise, exc_kind

RULE = ("convex solids from gen.convex_solid (35% prisms/antiprisms with n-gon caps n=3..12, else any kind), random "
        "rigid motion and offset (coordinates of both signs), half of them scaled by 10^U(-6,6) (values < 1e-4 print in "
        "exponent notation), built as ConvexPolyhedron(vertices) or as Polyhedron(vertices, faces); every case is "
        "exported in all seven formats directly and through save(); distinct = distinct (class, vertex array); "
        "non-trivial = >= 4 vertices in convex position and a constructed shape")
ASSUMPTIONS = [
    "a coordinate token is what Python's str() prints for the numpy double; the model treats it as an opaque "
    "well-formed token and the oracle checks float(token) == coordinate bitwise on the real file",
    "STL facet normal tokens are a parameter of the model (taken from the real file) and are checked geometrically "
    "by the oracle: parallel (1e-9 + rounding bound of the cross product) to the triangle's own normal, pointing out "
    "of the solid; fan triangles must tile the face (boundary chain = face cycle, positive orientation, area 1e-8)",
    "XML serialisation (element tree <-> text) is not proved: the model's ElementTree serialiser is compared byte for "
    "byte with the real file, which is re-parsed with expat/minidom (X3D) and html.parser (HTML)",
    "all generated solids are convex: 'outward' is tested per face against the vertex mean and by signed volume > 0",
]

FORMATS = ["OBJ", "OFF", "STL", "PLY", "VTK", "X3D", "HTML"]
FMT_CODE = {f: k for k, f in enumerate(FORMATS)}
UNKNOWN_TYPES = ["obj", "Obj", "", "XYZ", "GLTF", "OFF ", " OBJ", "STLX", "html"]


class Bad(Exception):
    """The file is not what the format prescribes (clause = stable name of the broken rule)."""

    def __init__(self, clause, detail=""):
        super().__init__(clause + (": " + detail if detail else ""))
        self.clause = clause
        self.detail = detail


# ----------------------------------------------------------------------------------------------------------------
# independent parsers (format definitions; none of this looks at coxeter/io.py)


def parse_obj(text):
    """Wavefront OBJ: `v x y z [w]`, `f i j k ...` (1-based, v/vt/vn and negative references allowed)."""
    V, F = [], []
    for ln in text.split("\n"):
        ln = ln.split("#", 1)[0].strip()
        if not ln:
            continue
        parts = ln.split()
        if parts[0] == "v":
            if len(parts) not in (4, 5):
                raise Bad("vertex-arity", ln)
            V.append(parts[1:4])
        elif parts[0] == "f":
            idx = []
            for t in parts[1:]:
                try:
                    i = int(t.split("/")[0])
                except ValueError:
                    raise Bad("face-index", ln)
                if i > 0:
                    idx.append(i - 1)
                elif i < 0:
                    idx.append(len(V) + i)
                else:
                    raise Bad("face-index-zero", ln)
            if len(idx) < 3:
                raise Bad("face-arity", ln)
            F.append(idx)
        elif parts[0] in ("vn", "vt", "vp", "g", "o", "s", "usemtl", "mtllib"):
            continue
        else:
            raise Bad("unknown-statement", ln)
    return V, F, {}


def _stream(lines):
    toks = []
    for ln in lines:
        toks.extend(ln.split("#", 1)[0].split())
    return toks


def _take_int(toks, k, clause):
    if k >= len(toks):
        raise Bad(clause, "unexpected end of data")
    try:
        return int(toks[k])
    except ValueError:
        raise Bad(clause, toks[k])


def _take_body(toks, k, nv, nf, clause_prefix=""):
    if k + 3 * nv > len(toks):
        raise Bad("vertex-count", "declared %d vertices, data ends early" % nv)
    V = [toks[k + 3 * i:k + 3 * i + 3] for i in range(nv)]
    k += 3 * nv
    F = []
    for _ in range(nf):
        n = _take_int(toks, k, "face-count")
        k += 1
        if n < 1 or k + n > len(toks):
            raise Bad("face-count", "face record runs past the end")
        F.append([_take_int(toks, k + j, "face-index") for j in range(n)])
        k += n
    return V, F, k


def parse_off(text):
    """Geomview OFF: `OFF`, `NVertices NFaces NEdges`, vertices, faces `n i1..in`; `#` comments."""
    toks = _stream(text.split("\n"))
    if not toks or toks[0] != "OFF":
        raise Bad("magic", toks[0] if toks else "")
    if len(toks) < 4:
        raise Bad("counts-line", "missing")
    info = {"stray_f": False}
    nv = _take_int(toks, 1, "counts-line")
    try:
        nf = int(toks[2])
    except ValueError:
        if re.fullmatch(r"f[0-9]+", toks[2]):
            info["stray_f"] = True
            nf = int(toks[2][1:])
        else:
            raise Bad("counts-line", toks[2])
    ne = _take_int(toks, 3, "counts-line")
    V, F, k = _take_body(toks, 4, nv, nf)
    if k != len(toks):
        raise Bad("face-count", "declared %d faces, %d tokens of data left over" % (nf, len(toks) - k))
    info["declared"] = (nv, nf, ne)
    return V, F, info


PLY_SCALAR = {"char", "uchar", "short", "ushort", "int", "uint", "float", "double",
              "int8", "uint8", "int16", "uint16", "int32", "uint32", "float32", "float64"}


def parse_ply(text):
    """PLY 1.0 ascii: generic header (elements with scalar / list properties), one record per line."""
    lines = text.split("\n")
    if not lines or lines[0].strip() != "ply":
        raise Bad("magic", lines[0] if lines else "")
    if len(lines) < 2 or lines[1].split() != ["format", "ascii", "1.0"]:
        raise Bad("format-line", lines[1] if len(lines) > 1 else "")
    elems = []
    k = 2
    while True:
        if k >= len(lines):
            raise Bad("header", "no end_header")
        parts = lines[k].split()
        k += 1
        if not parts:
            raise Bad("header", "blank line in header")
        if parts[0] == "end_header":
            break
        if parts[0] in ("comment", "obj_info"):
            continue
        if parts[0] == "element":
            if len(parts) != 3:
                raise Bad("header", lines[k - 1])
            try:
                elems.append({"name": parts[1], "count": int(parts[2]), "props": []})
            except ValueError:
                raise Bad("element-count", lines[k - 1])
        elif parts[0] == "property":
            if not elems:
                raise Bad("header", "property before element")
            if len(parts) == 3 and parts[1] in PLY_SCALAR:
                elems[-1]["props"].append(("scalar", parts[2]))
            elif len(parts) == 5 and parts[1] == "list" and parts[2] in PLY_SCALAR and parts[3] in PLY_SCALAR:
                elems[-1]["props"].append(("list", parts[4]))
            else:
                raise Bad("header", lines[k - 1])
        else:
            raise Bad("header", lines[k - 1])
    data = {}
    for e in elems:
        recs = []
        for _ in range(e["count"]):
            if k >= len(lines):
                raise Bad("%s-count" % e["name"], "declared %d, data ends early" % e["count"])
            toks = lines[k].split()
            k += 1
            rec = {}
            j = 0
            for kind, name in e["props"]:
                if kind == "scalar":
                    if j >= len(toks):
                        raise Bad("%s-record" % e["name"], lines[k - 1])
                    rec[name] = toks[j]
                    j += 1
                else:
                    n = _take_int(toks, j, "face-count")
                    if j + 1 + n > len(toks):
                        raise Bad("face-count", lines[k - 1])
                    rec[name] = [_take_int(toks, j + 1 + i, "face-index") for i in range(n)]
                    j += 1 + n
            if j != len(toks):
                raise Bad("%s-record" % e["name"], lines[k - 1])
            recs.append(rec)
        data[e["name"]] = recs
    if any(ln.strip() for ln in lines[k:]):
        raise Bad("face-count", "data after the last declared record")
    if "vertex" not in data or "face" not in data:
        raise Bad("header", "vertex/face element missing")
    try:
        V = [[r["x"], r["y"], r["z"]] for r in data["vertex"]]
        F = [r["vertex_indices"] if "vertex_indices" in r else r["vertex_index"] for r in data["face"]]
    except KeyError as e:
        raise Bad("header", "property %s missing" % e)
    return V, F, {"declared": tuple(e["count"] for e in elems)}


def parse_vtk(text):
    """VTK legacy 4.2 ASCII POLYDATA with POINTS and POLYGONS."""
    lines = text.split("\n")
    if len(lines) < 4 or not re.fullmatch(r"# vtk DataFile Version \d+\.\d+", lines[0].strip()):
        raise Bad("magic", lines[0] if lines else "")
    if len(lines[1]) > 256:
        raise Bad("title-too-long")
    if lines[2].strip() != "ASCII":
        raise Bad("encoding-line", lines[2])
    toks = " ".join(lines[3:]).split()
    if toks[:2] != ["DATASET", "POLYDATA"]:
        raise Bad("dataset-line", " ".join(toks[:2]))
    if len(toks) < 5 or toks[2] != "POINTS":
        raise Bad("points-line")
    nv = _take_int(toks, 3, "points-line")
    if toks[4] not in ("bit", "unsigned_char", "char", "unsigned_short", "short", "unsigned_int", "int",
                       "unsigned_long", "long", "float", "double"):
        raise Bad("points-line", toks[4])
    k = 5
    if k + 3 * nv > len(toks):
        raise Bad("vertex-count")
    V = [toks[k + 3 * i:k + 3 * i + 3] for i in range(nv)]
    k += 3 * nv
    if k >= len(toks) or toks[k] != "POLYGONS":
        raise Bad("vertex-count", "POLYGONS expected after %d points, got %r" % (nv, toks[k] if k < len(toks) else None))
    nf = _take_int(toks, k + 1, "polygons-line")
    size = _take_int(toks, k + 2, "polygons-line")
    k += 3
    start = k
    F = []
    for _ in range(nf):
        n = _take_int(toks, k, "face-count")
        if n < 1 or k + 1 + n > len(toks):
            raise Bad("face-count")
        F.append([_take_int(toks, k + 1 + j, "face-index") for j in range(n)])
        k += 1 + n
    if k != len(toks):
        raise Bad("face-count", "data after the last declared polygon")
    if k - start != size:
        raise Bad("polygons-size", "declared %d, data has %d integers" % (size, k - start))
    return V, F, {"declared": (nv, nf, size)}


def parse_stl(text):
    """ASCII STL: solid name / facet normal .. / outer loop / vertex ×3 / endloop / endfacet / endsolid."""
    lines = text.split("\n")
    if not lines or lines[0].split()[:1] != ["solid"]:
        raise Bad("magic", lines[0] if lines else "")
    toks = " ".join(lines[1:]).split()
    k = 0
    facets = []
    while True:
        if k >= len(toks):
            raise Bad("endsolid-missing")
        if toks[k] == "endsolid":
            if toks[k + 1:] not in ([], lines[0].split()[1:]):
                raise Bad("endsolid-name", " ".join(toks[k + 1:]))
            break
        if toks[k:k + 2] != ["facet", "normal"] or toks[k + 5:k + 7] != ["outer", "loop"]:
            raise Bad("facet-syntax", " ".join(toks[k:k + 7]))
        n = toks[k + 2:k + 5]
        k += 7
        tri = []
        for _ in range(3):
            if toks[k:k + 1] != ["vertex"] or k + 4 > len(toks):
                raise Bad("facet-syntax", " ".join(toks[k:k + 4]))
            tri.append(toks[k + 1:k + 4])
            k += 4
        if toks[k:k + 2] != ["endloop", "endfacet"]:
            raise Bad("facet-syntax", " ".join(toks[k:k + 2]))
        k += 2
        facets.append((n, tri))
    return facets


def _mf_ints(s, clause):
    out = []
    for t in re.split(r"[\s,]+", s.strip()):
        if t == "":
            continue
        try:
            out.append(int(t))
        except ValueError:
            raise Bad(clause, t)
    return out


def _faceset(coord_index, point):
    idx = _mf_ints(coord_index, "coordIndex")
    F, cur = [], []
    for i in idx:
        if i == -1:
            F.append(cur)
            cur = []
        elif i < 0:
            raise Bad("coordIndex", str(i))
        else:
            cur.append(i)
    if cur:
        F.append(cur)
    pts = [t for t in re.split(r"[\s,]+", point.strip()) if t != ""]
    if len(pts) % 3:
        raise Bad("point-arity", "%d numbers" % len(pts))
    V = [pts[3 * i:3 * i + 3] for i in range(len(pts) // 3)]
    return V, F


def _dom_child(node, name, strict, info):
    kids = [c for c in node.childNodes if c.nodeType == c.ELEMENT_NODE]
    for c in kids:
        if c.tagName == name:
            return c
    for c in kids:
        if c.tagName.lower() == name.lower():
            info["case"].append("%s for %s" % (c.tagName, name))
            return c
    raise Bad("structure", "no %s element in %s" % (name, node.tagName))


def parse_x3d(data):
    """X3D XML encoding (ISO/IEC 19776-1): X3D / Scene / Shape / IndexedFaceSet[coordIndex] / Coordinate[point]."""
    try:
        dom = xml.dom.minidom.parseString(data)
    except Exception as e:  # expat error
        raise Bad("not-well-formed-xml", str(e))
    info = {"case": []}
    root = dom.documentElement
    if root.tagName != "X3D":
        if root.tagName.lower() == "x3d":
            info["case"].append("%s for X3D" % root.tagName)
        else:
            raise Bad("structure", "root element " + root.tagName)
    scene = _dom_child(root, "Scene", True, info)
    shape = _dom_child(scene, "Shape", True, info)
    ifs = _dom_child(shape, "IndexedFaceSet", True, info)
    coord = _dom_child(ifs, "Coordinate", True, info)
    if not ifs.hasAttribute("coordIndex") or not coord.hasAttribute("point"):
        raise Bad("structure", "coordIndex / point attribute missing")
    V, F = _faceset(ifs.getAttribute("coordIndex"), coord.getAttribute("point"))
    return V, F, info


class _X3domPage(html.parser.HTMLParser):
    VOID = {"link", "meta", "br", "img", "input", "hr"}

    def __init__(self):
        super().__init__(convert_charrefs=True)
        self.stack = []
        self.doctype = None
        self.found = {}

    def handle_decl(self, decl):
        self.doctype = decl

    def handle_starttag(self, tag, attrs):
        self._open(tag, attrs)
        if tag not in self.VOID:
            self.stack.append(tag)

    def handle_startendtag(self, tag, attrs):
        self._open(tag, attrs)

    def _open(self, tag, attrs):
        path = self.stack + [tag]
        a = dict(attrs)
        if path == ["html", "body", "x3d", "scene", "shape", "indexedfaceset"]:
            self.found["coordindex"] = a.get("coordindex")
        if path == ["html", "body", "x3d", "scene", "shape", "indexedfaceset", "coordinate"]:
            self.found["point"] = a.get("point")
        if path == ["html", "head", "script"]:
            self.found["script"] = a.get("src")

    def handle_endtag(self, tag):
        if not self.stack or self.stack[-1] != tag:
            raise Bad("tag-nesting", "</%s> closes %s" % (tag, self.stack[-1:] or None))
        self.stack.pop()


def parse_html(text):
    """X3DOM page: <!DOCTYPE html>, html/body/x3d/scene/shape/indexedfaceset/coordinate (HTML names: any case)."""
    p = _X3domPage()
    p.feed(text)
    p.close()
    if p.stack:
        raise Bad("tag-nesting", "unclosed " + "/".join(p.stack))
    if (p.doctype or "").lower() != "doctype html" or not text.startswith("<!DOCTYPE html>"):
        raise Bad("doctype", repr(p.doctype))
    if not p.found.get("script"):
        raise Bad("structure", "x3dom script missing")
    if p.found.get("coordindex") is None or p.found.get("point") is None:
        raise Bad("structure", "indexedfaceset/coordinate not found")
    # the page declares the XHTML namespace: it must also be well-formed XML
    try:
        xml.dom.minidom.parseString(text[len("<!DOCTYPE html>"):].encode("utf-8"))
    except Exception as e:
        raise Bad("not-well-formed-xml", str(e))
    V, F = _faceset(p.found["coordindex"], p.found["point"])
    return V, F, {}


# ----------------------------------------------------------------------------------------------------------------
# comparison of parsed data with the polyhedron


def canon(f):
    f = [int(i) for i in f]
    k = f.index(min(f))
    return tuple(f[k:] + f[:k])


def to_floats(Vt):
    try:
        return np.array([[float(t) for t in v] for v in Vt], dtype=np.float64).reshape(-1, 3)
    except ValueError as e:
        raise Bad("coordinate-not-a-number", str(e))


def newell(P):
    P = np.asarray(P)
    Q = np.roll(P, -1, axis=0)
    return 0.5 * np.cross(P, Q).sum(axis=0) if len(P) else np.zeros(3)


def area_vector(P):
    P = np.asarray(P, dtype=float)
    return newell(P - P[0])


def check_orientation(V, F):
    """outward: signed volume of the parsed surface > 0 and every face normal points away from the vertex mean."""
    c = V.mean(axis=0)
    vol = 0.0
    for f in F:
        P = V[f] - c
        for j in range(1, len(f) - 1):
            vol += np.dot(P[0], np.cross(P[j], P[j + 1])) / 6.0
    if not vol > 0:
        raise Bad("orientation", "signed volume %r" % vol)
    for f in F:
        P = V[f]
        n = area_vector(P)
        if not np.dot(n, P.mean(axis=0) - c) > 0:
            raise Bad("orientation", "face %r points inward" % (list(f),))


def compare_indexed(p, Vt, F):
    """parsed (tokens, faces) of an indexed format against the polyhedron."""
    V = to_floats(Vt)
    ref = np.ascontiguousarray(p.vertices, dtype=np.float64)
    if V.shape != ref.shape:
        raise Bad("vertex-count", "%d vertices in the file, %d in the shape" % (len(V), len(ref)))
    if V.tobytes() != ref.tobytes():
        bad = np.argwhere(V.view(np.uint64) != ref.view(np.uint64))[0]
        raise Bad("coordinates", "vertex %d: file %r, shape %r" % (bad[0], Vt[bad[0]], ref[bad[0]].tolist()))
    if any(min(f) < 0 or max(f) >= len(V) for f in F):
        raise Bad("face-index-out-of-range")
    if any(len(f) < 3 for f in F):
        raise Bad("face-arity")
    if sorted(canon(f) for f in F) != sorted(canon(f) for f in p.faces):
        raise Bad("face-cycles", "faces of the file are not the shape's cycles")
    check_orientation(V, F)


def vertex_lookup(p):
    ref = np.ascontiguousarray(p.vertices, dtype=np.float64)
    return {ref[i].tobytes(): i for i in range(len(ref))}


def compare_expanded(p, Vt, F):
    """X3D/HTML: `point` lists the corners face by face; re-index them by exact coordinate."""
    V = to_floats(Vt)
    look = vertex_lookup(p)
    if any(len(f) < 3 for f in F):
        raise Bad("face-arity")
    if any(min(f) < 0 or max(f) >= len(V) for f in F):
        raise Bad("face-index-out-of-range")
    faces = []
    for f in F:
        g = []
        for i in f:
            j = look.get(V[i].tobytes())
            if j is None:
                raise Bad("coordinates", "point %d = %r is not a vertex of the shape" % (i, Vt[i]))
            g.append(j)
        faces.append(g)
    if sorted(canon(f) for f in faces) != sorted(canon(f) for f in p.faces):
        raise Bad("face-cycles", "faces of the file are not the shape's cycles")
    used = set(i for f in F for i in f)
    if len(used) != len(V):
        raise Bad("point-count", "%d points, %d referenced" % (len(V), len(used)))
    check_orientation(V, F)


def compare_stl(p, facets):
    ref = np.ascontiguousarray(p.vertices, dtype=np.float64)
    look = vertex_lookup(p)
    centre = ref.mean(axis=0)
    tris = []
    for n_tok, tri_tok in facets:
        n = to_floats([n_tok])[0]
        T = to_floats(tri_tok)
        idx = []
        for r, t in zip(T, tri_tok):
            j = look.get(r.tobytes())
            if j is None:
                raise Bad("coordinates", "facet corner %r is not a vertex of the shape" % (t,))
            idx.append(j)
        tris.append((n, idx))
    faces = [[int(i) for i in f] for f in p.faces]
    assigned = [[] for _ in faces]
    for n, idx in tris:
        owners = [k for k, f in enumerate(faces) if set(idx) <= set(f)]
        if len(owners) != 1:
            raise Bad("triangle-not-in-one-face", "corners %r lie in %d faces" % (idx, len(owners)))
        assigned[owners[0]].append((n, idx))
    for f, ts in zip(faces, assigned):
        P = ref[f]
        fn = area_vector(P)
        farea = np.linalg.norm(fn)
        out = P.mean(axis=0) - centre
        # the triangles' boundary is the face cycle (inner edges cancel in opposite pairs)
        edges = {}
        for _, (a, b, c) in ts:
            for e in ((a, b), (b, c), (c, a)):
                if edges.get((e[1], e[0]), 0) > 0:
                    edges[(e[1], e[0])] -= 1
                else:
                    edges[e] = edges.get(e, 0) + 1
        boundary = sorted(e for e, k in edges.items() for _ in range(k))
        if boundary != sorted(zip(f, f[1:] + f[:1])):
            raise Bad("triangles-do-not-cover-face", "face %r: boundary of its triangles is %r" % (f, boundary))
        tot = 0.0
        for n, (a, b, c) in ts:
            g = np.cross(ref[b] - ref[a], ref[c] - ref[a]) / 2
            tot += np.linalg.norm(g)
            if not np.dot(g, fn) > 0:
                raise Bad("triangle-orientation", "triangle %r of face %r is flipped" % ((a, b, c), f))
            if not (np.dot(n, g) > 0 and np.dot(n, fn) > 0 and np.dot(n, out) > 0):
                raise Bad("normal-not-outward", "triangle %r normal %r" % ((a, b, c), n.tolist()))
            # rounding of a cross product of coordinate differences: eps * |coordinate| * |edge| per component
            T = ref[[a, b, c]]
            emax = max(np.linalg.norm(T[1] - T[0]), np.linalg.norm(T[2] - T[1]), np.linalg.norm(T[0] - T[2]))
            slack = 1e-9 + 64 * np.finfo(float).eps * np.abs(T).max() * emax / (2 * np.linalg.norm(g))
            if np.linalg.norm(np.cross(n, g)) > slack * np.linalg.norm(n) * np.linalg.norm(g):
                raise Bad("normal-not-perpendicular", "triangle %r normal %r" % ((a, b, c), n.tolist()))
        if abs(tot - farea) > 1e-8 * farea:
            raise Bad("triangles-do-not-cover-face", "face %r: area %r, triangles %r" % (f, farea, tot))


# ----------------------------------------------------------------------------------------------------------------
# protocol helpers


def S(s):
    return L([ord(ch) for ch in s])


def mesh_tokens(vt, faces):
    return [L([[S(x), S(y), S(z)] for x, y, z in vt]), L([L([int(i) for i in f]) for f in faces])]


def text_of(reply):
    return "".join(chr(i) for i in reply)


class _It:
    def __init__(self, r):
        self.r, self.k = r, 0

    def n(self):
        v = self.r[self.k]
        self.k += 1
        return v

    def s(self):
        return "".join(chr(self.n()) for _ in range(self.n()))


def mesh_of(reply):
    it = _It(reply)
    if it.n() == 0:
        return None
    V = [[it.s(), it.s(), it.s()] for _ in range(it.n())]
    F = [[it.n() for _ in range(it.n())] for _ in range(it.n())]
    return V, F


def facets_of(reply):
    it = _It(reply)
    if it.n() == 0:
        return None
    return [tuple([it.s(), it.s(), it.s()] for _ in range(4)) for _ in range(it.n())]


def first_diff(a, b):
    k = next((i for i, (x, y) in enumerate(zip(a, b)) if x != y), min(len(a), len(b)))
    return {"offset": k, "impl": a[max(0, k - 30):k + 30], "model": b[max(0, k - 30):k + 30],
            "len_impl": len(a), "len_model": len(b)}


# ----------------------------------------------------------------------------------------------------------------


def build(case):
    import coxeter
    v = np.array(case["vertices"], dtype=float)
    cp = coxeter.shapes.ConvexPolyhedron(v)
    if case["cls"] == "convex":
        return cp
    return coxeter.shapes.Polyhedron(np.array(cp.vertices), [[int(i) for i in f] for f in cp.faces])


def snapshot(p):
    """vertices and faces bitwise, plus the cached private arrays that exist on the object"""
    extra = [np.asarray(getattr(p, a)).tobytes() for a in ("_equations", "_centroid", "_volume") if hasattr(p, a)]
    return (np.array(p.vertices).tobytes(), [np.asarray(f).tobytes() for f in p.faces], extra)


WRITERS = {"OBJ": "to_obj", "OFF": "to_off", "STL": "to_stl", "PLY": "to_ply", "VTK": "to_vtk", "X3D": "to_x3d",
           "HTML": "to_html"}


def eval_case(ctx, case):
    import coxeter
    from coxeter import io
    try:
        p = build(case)
    except Exception as e:
        # not an I/O matter (C15/C07): the case is dropped
        ctx.count("dropped:constructor-" + exc_kind(e))
        return
    ver = coxeter.__version__
    cls = p.__class__.__name__
    vt = [[str(c) for c in v] for v in p.vertices]
    faces = [[int(i) for i in f] for f in p.faces]
    ctx.count("class:" + cls)
    for f in faces:
        ctx.count("face-degree:%d" % len(f))
    ctx.count("tokens:exponent", sum(1 for v in vt for t in v if "e" in t))
    ctx.count("tokens:negative", sum(1 for v in vt for t in v if t.startswith("-")))
    ctx.count("tokens:plain", sum(1 for v in vt for t in v if "e" not in t))
    mags = np.abs(p.vertices[p.vertices != 0])
    if len(mags):
        ctx.count("magnitude:1e%+03d" % int(np.floor(np.log10(mags.max()))))
    snap0 = snapshot(p)
    files = {}
    with tempfile.TemporaryDirectory(prefix="c20-") as tmp:
        for ft in FORMATS:
            path = os.path.join(tmp, "direct." + ft.lower())
            sig = "io.%s:" % WRITERS[ft]
            try:
                getattr(io, WRITERS[ft])(p, path)
                files[ft] = open(path, "rb").read()
            except Exception as e:
                ctx.fail(sig + "raises:" + exc_kind(e), "%s raised %s on a valid polyhedron" % (WRITERS[ft], exc_kind(e)),
                         case, repr(e))
                continue
            if snapshot(p) != snap0:
                ctx.fail(sig + "mutates-shape", "exporting changed the shape's vertices / faces / cached arrays", case, ft)
                p = build(case)
                snap0 = snapshot(p)
            # ---- save() dispatch: same bytes as the direct writer
            path2 = os.path.join(tmp, "saved." + ft.lower())
            try:
                p.save(ft, path2)
                saved = open(path2, "rb").read()
                if saved != files[ft]:
                    ctx.fail("Polyhedron.save:dispatch:" + ft, "save(%r) wrote a file different from io.%s" %
                             (ft, WRITERS[ft]), case, first_diff(files[ft].decode("utf-8", "replace"),
                                                                saved.decode("utf-8", "replace")))
            except Exception as e:
                ctx.fail("Polyhedron.save:dispatch:" + ft, "save(%r) raised %s" % (ft, exc_kind(e)), case, repr(e))
            if snapshot(p) != snap0:
                ctx.fail("Polyhedron.save:mutates-shape", "save changed the shape", case, ft)
                p = build(case)
                snap0 = snapshot(p)
        # ---- unknown file types
        for ft in case.get("unknown", UNKNOWN_TYPES[:3]):
            path3 = os.path.join(tmp, "unknown.out")
            try:
                p.save(ft, path3)
                kind = None
            except Exception as e:
                kind = exc_kind(e)
            if kind != "ValueError":
                ctx.fail("Polyhedron.save:unknown-type", "save(%r) %s instead of raising ValueError" %
                         (ft, "returned" if kind is None else "raised " + kind), case, ft)
            try:
                ctx.driver.F("io.save", S(ft), S(ver), S(cls), *mesh_tokens(vt, faces), L([]))
                mk = None
            except ModelRaise as e:
                mk = e.kind
            if mk != kind:
                ctx.disagree("io.save:unknown", case, [ft, kind, mk])

    texts = {}
    for ft, data in files.items():
        try:
            texts[ft] = data.decode("ascii")
        except UnicodeDecodeError:
            ctx.fail("io.%s:not-ascii" % WRITERS[ft], "file is not ASCII text", case, ft)

    # ---------------- C: independent parsers on the real files
    stl_facets = None
    checks = [("OBJ", parse_obj, compare_indexed), ("OFF", parse_off, compare_indexed),
              ("PLY", parse_ply, compare_indexed), ("VTK", parse_vtk, compare_indexed)]
    for ft, parser, comparer in checks:
        if ft not in texts:
            continue
        sig = "io.%s:" % WRITERS[ft]
        try:
            V, F, info = parser(texts[ft])
            if info.get("stray_f"):
                ctx.fail("io.to_off:counts-line-stray-f",
                         "OFF counts line has a stray 'f' before the face count; a reader of the format rejects the file",
                         case, texts[ft].split("\n")[3])
            comparer(p, V, F)
            d = info.get("declared")
            if ft == "OFF" and d is not None:
                und = set(frozenset(e) for f in F for e in zip(f, f[1:] + f[:1]))
                if d != (len(V), len(F), len(und)):
                    raise Bad("declared-counts", "declared %r, data has %r" % (d, (len(V), len(F), len(und))))
        except Bad as e:
            ctx.fail(sig + e.clause, "%s file does not describe the polyhedron (%s)" % (ft, e.clause), case, e.detail)
    if "STL" in texts:
        try:
            stl_facets = parse_stl(texts["STL"])
            compare_stl(p, stl_facets)
        except Bad as e:
            ctx.fail("io.to_stl:" + e.clause, "STL file does not describe the polyhedron (%s)" % e.clause, case, e.detail)
    if "X3D" in files:
        try:
            V, F, info = parse_x3d(files["X3D"])
            if info["case"]:
                ctx.fail("io.to_x3d:element-name-case",
                         "X3D element names are written in the wrong case (XML names are case sensitive); a reader "
                         "of the X3D XML encoding does not find the X3D / Shape elements",
                         case, info["case"])
            compare_expanded(p, V, F)
        except Bad as e:
            ctx.fail("io.to_x3d:" + e.clause, "X3D file does not describe the polyhedron (%s)" % e.clause, case, e.detail)
    if "HTML" in texts:
        try:
            V, F, info = parse_html(texts["HTML"])
            compare_expanded(p, V, F)
        except Bad as e:
            ctx.fail("io.to_html:" + e.clause, "HTML file does not describe the polyhedron (%s)" % e.clause, case, e.detail)

    # ---------------- B: the model's text on the same mesh and tokens, byte for byte
    normals = [list(n) for n, _ in stl_facets] if stl_facets is not None else []
    mt = mesh_tokens(vt, faces)
    for ft in FORMATS:
        if ft not in texts:
            continue
        if ft == "STL" and stl_facets is None:
            continue
        ns = L([[S(a), S(b), S(c)] for a, b, c in normals]) if ft == "STL" else L([])
        model = text_of(ctx.driver.F("io.write", FMT_CODE[ft], S(ver), S(cls), *mt, ns))
        if model != texts[ft]:
            ctx.disagree("io.write:" + ft, case, first_diff(texts[ft], model))
        if ft == case.get("save_model", "PLY"):
            try:
                model2 = text_of(ctx.driver.F("io.save", S(ft), S(ver), S(cls), *mt, ns))
            except ModelRaise as e:
                model2 = "E:" + e.kind
            if model2 != texts[ft]:
                ctx.disagree("io.save:" + ft, case, first_diff(texts[ft], model2))
    ne = ctx.driver.F("io.edges", L([L(f) for f in faces]))[0]
    if ne != len(p.edges):
        ctx.disagree("io.edges", case, [ne, len(p.edges)])

    # ---------------- C': the Lean readers (Spec/MeshIO.lean) on the real text
    for ft, code in (("OBJ", 0), ("PLY", 3), ("VTK", 4), ("OFF", 2)):
        if ft not in texts:
            continue
        r = mesh_of(ctx.driver.Q("io.read", code, S(texts[ft])))
        if r is None or r[0] != vt or r[1] != faces:
            ctx.fail("io.%s:spec-reader" % WRITERS[ft],
                     "the Lean reader of the %s format does not recover the mesh from the real file" % ft, case,
                     None if r is None else "different mesh")
    if "OFF" in texts:
        strict = mesh_of(ctx.driver.Q("io.read", 1, S(texts["OFF"])))
        try:
            stray = parse_off(texts["OFF"])[2]["stray_f"]
        except Bad:
            stray = None
        if stray is not None and (strict is None) != bool(stray):
            ctx.disagree("spec.readOff", case, "Lean strict OFF reader and the Python OFF parser disagree")
    if "STL" in texts and stl_facets is not None:
        r = facets_of(ctx.driver.Q("io.read_stl", S(texts["STL"])))
        want = [(list(n), list(t[0]), list(t[1]), list(t[2])) for n, t in stl_facets]
        if r is None or [tuple(x) for x in r] != [tuple(x) for x in want]:
            ctx.fail("io.to_stl:spec-reader", "the Lean STL reader does not recover the facets from the real file",
                     case, None if r is None else "different facets")


def make_case(rng, ctx):
    kind = None
    if rng.random() < 0.35:
        kind = ["prism", "antiprism"][int(rng.integers(2))]
    scale = None
    if rng.random() < 0.5:
        scale = float(10 ** rng.uniform(-6, 6))
    v, info = gen.convex_solid(rng, kind, scale=scale)
    ctx.count("kind:" + info["kind"])
    cls = "convex" if rng.random() < 0.5 else "poly"
    unknown = [UNKNOWN_TYPES[int(i)] for i in rng.choice(len(UNKNOWN_TYPES), size=2, replace=False)]
    return {"vertices": v.tolist(), "cls": cls, "info": info, "unknown": unknown,
            "save_model": FORMATS[int(rng.integers(len(FORMATS)))]}


def fixed_cases():
    """exponent notation, both signs, 1e-6 / 1e6 magnitudes on simple solids."""
    tet = np.array([[1, 1, 1], [1, -1, -1], [-1, 1, -1], [-1, -1, 1]], dtype=float)
    cube = np.array([[x, y, z] for x in (-1, 1) for y in (-1, 1) for z in (-1, 1)], dtype=float)
    out = []
    for name, v in (("tetrahedron", tet), ("cube", cube)):
        for s in (1e-6, 1.0, 1e6, 3.3e-5, 2.5e5):
            for cls in ("convex", "poly"):
                out.append({"vertices": (v * s + np.array([0.25, -0.5, 0.125]) * s).tolist(), "cls": cls,
                            "info": {"kind": "fixed:" + name, "scale": s}, "unknown": ["obj", ""],
                            "save_model": "STL"})
    return out


def run(ctx):
    if ctx.widen == 1:
        for case in fixed_cases():
            ctx.count("kind:fixed")
            ctx.case(case)
            eval_case(ctx, case)
    n = ctx.budget(40, 3000)
    for _ in range(n):
        case = make_case(ctx.rng, ctx)
        ctx.case(case)
        eval_case(ctx, case)


def replay(ctx, payload):
    case = payload.get("case", payload)
    if "broken" in payload and "vertices" not in case:
        case = payload["broken"][0]["case"]
    ctx.case(case)
    eval_case(ctx, case)
