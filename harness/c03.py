"""C03 — mutable shapes stay coherent under any history of mutations."""
import itertools

import numpy as np

import gen
import shapes_common as sc
from common import exc_kind

RULE = ("operation sequences over the mutator alphabet of each vertex-based class (all settable properties found by "
        "reflection with targets current*factor / random centres / bad targets, plus diagonalize_inertia, merge_faces, "
        "sort_faces, to_hoomd, plus the reads that fill instance-level caches: edges, get_face_area, face_centroids): "
        "exhaustive depth 1 and sampled depth 2 (quick) / exhaustive depth 2 + sampled depth 3 (thorough) plus random "
        "walks, from a 'regular' (box/square: circum- and in-balls exist) and a 'generic' (chiral, off-origin) base shape "
        "of each of the six classes, fan-triangulated and shuffled triangulated prisms for Polyhedron, nearly coplanar "
        "convex polyhedra, integer-coordinate (exactly planar) polyhedra with the exact Lean certificate of the "
        "history theorem's hypothesis; after EVERY step (thorough tier: after the last step of the exhaustively enumerated "
        "depth-2/3 sequences, whose prefixes are sequences of their own) all public observables of the live object (properties in random "
        "order, method queries, repr, to_json) are compared with a freshly constructed object, and the private state with "
        "the Lean state machines; distinct = distinct (class, flavour, op sequence)")
ASSUMPTIONS = [
    "oracle = a freshly constructed shape with the same current vertices (and faces, normal, rounding radius)",
    "face-indexed observables are compared by the face's vertex set (face order is not part of the property)",
    "minimal bounding ball (external, randomised miniball; read under seeded random / numpy.random): accepted when equal "
    "to the fresh object's at 1e-6, or when it contains the current vertices and its radius is within 25 % of the fresh "
    "one's (its minimality is C13's business); everything else at 1e-9*scale",
    "external inputs of the Lean state machines are recorded from the live object (eigh matrix, re-oriented simplices, "
    "face lists after the per-face vertex ordering, scipy component labels) and their contracts evaluated per run",
]

METHODS = ["diagonalize_inertia", "merge_faces", "sort_faces", "to_hoomd"]
# queries that fill an instance-level cache (functools.cached_property `edges`; the attributes `_simplex_areas` /
# `_face_centroids` that get_face_area / face_centroids store): part of the history, because whether a later mutator
# must invalidate something depends on what has been read before
READS = {"Polyhedron": ["edges"],
         "ConvexPolyhedron": ["edges", "get_face_area", "face_centroids", "get_face_area_total"]}


def do_read(obj, name):
    if name == "get_face_area":
        return obj.get_face_area()
    if name == "get_face_area_total":
        return obj.get_face_area("total")
    return getattr(obj, name)


def alphabet(obj):
    ops = []
    for p in sc.settable_properties(type(obj)):
        if p in ("centroid", "center"):
            ops.append(("setvec", p))
        elif p == "radius" and type(obj).__name__.startswith("ConvexSphero"):
            ops.append(("setabs", p))
        else:
            ops.append(("setfac", p))
    for m in METHODS:
        if callable(getattr(obj, m, None)):
            ops.append(("call", m))
    for r in READS.get(type(obj).__name__, ()):
        ops.append(("read", r))
    return ops


def concretise(rng, op):
    kind, name = op
    if kind == "setvec":
        return [kind, name, (rng.uniform(-3, 3, size=3)).tolist()]
    if kind == "setabs":
        return [kind, name, float(rng.choice([0.0, 0.25, 0.7]))]
    if kind == "setfac":
        r = rng.random()
        if r < 0.15:
            return ["setbad", name, float(rng.choice([0.0, -1.0, float("nan")]))]
        # (balanced: the product of the factors is ~1, so that long walks neither collapse nor blow up the shape)
        return [kind, name, float(rng.choice([0.5, 2.0, 1.7, 0.31, 3.2, 0.6]))]
    return [kind, name, None]


def chirality(v):
    v = np.asarray(v, dtype=float)
    d = v[1:] - v[0]
    for i, j, k in itertools.combinations(range(len(d)), 3):
        det = np.linalg.det(np.array([d[i], d[j], d[k]]))
        if abs(det) > 1e-6 * np.linalg.norm(d[i]) * np.linalg.norm(d[j]) * np.linalg.norm(d[k]):
            return np.sign(det)
    return 0.0


def apply_op(obj, op):
    kind, name, arg = op
    if kind == "setvec":
        val = np.array(arg, dtype=float)
        setattr(obj, name, val)
    elif kind == "setabs":
        setattr(obj, name, arg)
    elif kind == "setfac":
        cur = getattr(obj, name)
        setattr(obj, name, cur * arg)
    elif kind == "setbad":
        setattr(obj, name, arg)
    elif kind == "call":
        getattr(obj, name)()
    elif kind == "read":
        do_read(obj, name)
    else:
        raise ValueError(kind)


_BASE_CACHE = {}


def base_of(cls, flavour, base_seed):
    """sc.base_shape(default_rng(base_seed), cls, flavour); the three passes over one history (oracle, two model
    correspondences) share the construction (a deep copy each)."""
    import copy
    key = (cls, flavour, int(base_seed), id(sc.shapes_mod()))
    if key not in _BASE_CACHE:
        _BASE_CACHE.clear()
        _BASE_CACHE[key] = sc.base_shape(np.random.default_rng(base_seed), cls, flavour)
    return copy.deepcopy(_BASE_CACHE[key])


def run_history(ctx, cls, flavour, base_seed, ops, prefixes_covered=False):
    obj = base_of(cls, flavour, base_seed)
    case = {"cls": cls, "flavour": flavour, "base_seed": int(base_seed), "ops": ops}
    size = sc.size_of(obj)
    import copy
    props = sc.public_properties(type(obj))
    for step, op in enumerate(ops):
        # every cached / lazily computed attribute must have been filled BEFORE the operation: at step 0 by a full
        # observation, later by the (randomly ordered) observation that ended the previous step; what the shape looked
        # like before the operation is kept as a deep copy and only observed when the operation raises
        pre = sc.observe(obj, json_names=[]) if step == 0 else None
        snap = copy.deepcopy(obj) if step > 0 else None
        pre_v = np.array(obj.vertices, dtype=float)
        pre_ch = chirality(pre_v) if pre_v.shape[1] == 3 and cls in ("ConvexPolyhedron", "Polyhedron", "ConvexSpheropolyhedron") else 0.0
        opname = "%s.%s" % (cls, op[1] + ("=" if op[0].startswith("set") else "()"))
        try:
            apply_op(obj, op)
            raised = None
        except Exception as e:
            raised = e
        size = max(size, sc.size_of(obj)) if np.all(np.isfinite(np.asarray(obj.vertices, dtype=float))) else size
        if raised is not None:
            if pre is None:
                pre = sc.observe(snap, json_names=[])
            post = sc.observe(obj, json_names=[])
            diffs = sc.compare(pre, post, size)
            if diffs:
                ctx.fail("%s:raises-but-changes-shape" % opname,
                         "%s raised %s but left the shape changed (%s)" % (opname, exc_kind(raised), diffs[0][0]),
                         dict(case, step=step), [str(x)[:300] for x in diffs[0]])
                return
            if op[0] == "setbad" and not isinstance(raised, ValueError):
                pass  # C08 judges the exception type
            ctx.count("op-raised:" + exc_kind(raised))
            continue
        if op[0] == "setbad":
            # accepted a bad target: C08 reports that; here only coherence matters, but the geometry may be
            # degenerate so that no fresh shape exists -> stop the history
            ctx.count("bad-target-accepted")
            return
        if cls == "ConvexPolyhedron" and op[1] == "merge_faces" and not (
                len(obj._equations) == len(obj._faces) == len(obj._coplanar_simplices)):
            ctx.fail("ConvexPolyhedron.merge_faces():caches-misaligned",
                     "merge_faces merged faces of a ConvexPolyhedron but left _equations / _coplanar_simplices as they "
                     "were: %d faces, %d plane equations, %d coplanar-simplex groups"
                     % (len(obj._faces), len(obj._equations), len(obj._coplanar_simplices)), dict(case, step=step), "")
            return
        if prefixes_covered and step < len(ops) - 1:
            # short (exhaustively enumerated) sequences: their proper prefixes are sequences of their own, so only fill
            # the caches here (what the comparison with a fresh object would have done as a side effect) and go on
            sc.observe(obj, np.random.default_rng([int(base_seed), step, len(ops)]), json_names=[])
            continue
        try:
            fresh = sc.fresh_of(obj)
        except Exception as e:
            ctx.fail("%s:fresh-construction-fails" % opname,
                     "after %s the current vertices no longer construct a %s (%s)" % (opname, cls, exc_kind(e)),
                     dict(case, step=step), repr(e))
            return
        if cls in ("ConvexPolyhedron", "ConvexSpheropolyhedron") and _fresh_split_coplanar(obj, fresh):
            # after many floating-point steps the vertices of a face with more than three vertices (cube) are no longer
            # coplanar within the 2e-15 of ConvexPolyhedron._combine_simplices: the FRESH constructor splits the face.
            # Not something a mutator could have prevented; the combinatorics of the two objects are not comparable.
            ctx.count("history-stopped:rounding-split-a-coplanar-face")
            return
        order_rng = np.random.default_rng([int(base_seed), step, len(ops)])
        # to_json: a few attributes per step (every attribute over the steps of a run), the same for both objects
        jn = [props[i] for i in order_rng.permutation(len(props))[:4]]
        live = sc.observe(obj, order_rng, json_names=jn)
        diffs = sc.compare(live, sc.observe(fresh, json_names=jn), size, cond=sc.cond_of(obj))
        if diffs:
            ctx.fail("%s:stale:%s" % (opname, diffs[0][0]),
                     "after %s the observable %s differs from a freshly constructed shape" % (opname, diffs[0][0]),
                     dict(case, step=step), [str(x)[:400] for x in diffs[0]])
            return
        if op[1] == "diagonalize_inertia":
            v = np.array(obj.vertices, dtype=float)
            d0 = np.linalg.norm(pre_v[:, None] - pre_v[None], axis=-1)
            d1 = np.linalg.norm(v[:, None] - v[None], axis=-1)
            if not np.allclose(d0, d1, atol=1e-9 * size):
                ctx.fail("%s:not-rigid" % opname, "diagonalize_inertia changed inter-vertex distances", dict(case, step=step), "")
                return
            if pre_ch != 0 and chirality(v) != pre_ch:
                ctx.fail("%s:mirrors" % opname, "diagonalize_inertia mirrored the shape", dict(case, step=step), "")
                return
    return


def _fresh_split_coplanar(obj, fresh):
    """the fresh convex polyhedron has MORE faces than the live one, each of them part of a live face, and the pieces
    of one live face are coplanar to 1e-9: rounding made the constructor's 2e-15 coplanarity test fail."""
    lo = obj.polyhedron if hasattr(obj, "polyhedron") else obj
    fo = fresh.polyhedron if hasattr(fresh, "polyhedron") else fresh
    lf = [frozenset(int(i) for i in f) for f in lo.faces]
    ff = [frozenset(int(i) for i in f) for f in fo.faces]
    if set(lf) == set(ff) or len(ff) <= len(lf):
        return False
    if len(lo._equations) != len(lf):
        return False
    for k, g in enumerate(ff):
        owners = [i for i, f in enumerate(lf) if g <= f]
        if not owners:
            return False
        if not np.allclose(fo._equations[k][:3], lo._equations[owners[0]][:3], atol=1e-9):
            return False
    return True


MODELLED_CALLS = {"diagonalize_inertia", "to_hoomd"}


class _Recorder:
    """Temporarily wrap a property getter of a class (found along the MRO) to record what it returns."""

    def __init__(self, cls, name):
        self.owner = next(k for k in cls.__mro__ if name in k.__dict__)
        self.name = name
        self.orig = self.owner.__dict__[name]
        self.values = []

    def __enter__(self):
        orig, values = self.orig, self.values

        def fget(obj):
            v = orig.fget(obj)
            values.append(np.array(v, dtype=float, copy=True))
            return v
        setattr(self.owner, self.name, property(fget, orig.fset, orig.fdel, orig.__doc__))
        return self

    def __exit__(self, *exc):
        setattr(self.owner, self.name, self.orig)
        return False


class _EighRecorder:
    """Record the eigenvector matrix np.linalg.eigh returns (before the caller's in-place sign fix)."""

    def __enter__(self):
        self.P = None
        self.orig = np.linalg.eigh

        def eigh(a, *args, **kw):
            w, v = self.orig(a, *args, **kw)
            self.P = np.array(v, dtype=float, copy=True)
            return w, v
        np.linalg.eigh = eigh
        return self

    def __exit__(self, *exc):
        np.linalg.eigh = self.orig
        return False


def _row_parity(old, new):
    """+1: `new` is a cyclic rotation of the triple `old`; -1: a reflection; 0: neither."""
    a, b, c = (int(x) for x in old)
    new = tuple(int(x) for x in new)
    if new in ((a, b, c), (b, c, a), (c, a, b)):
        return 1
    if new in ((c, b, a), (b, a, c), (a, c, b)):
        return -1
    return 0


def _cp_tokens(o):
    from common import L
    heads = [[int(f[0]), int(f[1]), int(f[2])] for f in o.faces]
    simp = [[int(a), int(b), int(c)] for a, b, c in np.asarray(o.simplices)]
    return [L(list(np.array(o.vertices))), L(simp), L(heads), L(list(o._equations[:, :3])),
            L([float(x) for x in o._equations[:, 3]]), L(list(o._simplex_equations[:, :3])),
            L([float(x) for x in o._simplex_equations[:, 3]]), float(o._volume), float(o._area),
            np.array(o._centroid)]


def _cp_live(o):
    return {"vertices": np.array(o.vertices), "eqN": o._equations[:, :3], "eqD": o._equations[:, 3],
            "seqN": o._simplex_equations[:, :3], "seqD": o._simplex_equations[:, 3],
            "volume": o._volume, "area": o._area, "centroid": np.array(o._centroid)}


CP_DEG = {"vertices": 1, "eqN": 0, "eqD": 1, "seqN": 0, "seqD": 1, "volume": 3, "area": 2, "centroid": 1}


class _Take:
    def __init__(self, rest):
        self.rest, self.pos = rest, 0

    def __call__(self, k):
        out = np.array(self.rest[self.pos:self.pos + k], dtype=float)
        self.pos += k
        return out

    def cp(self, nv, nf, ns):
        return {"vertices": self(3 * nv).reshape(nv, 3), "eqN": self(3 * nf).reshape(nf, 3), "eqD": self(nf),
                "seqN": self(3 * ns).reshape(ns, 3), "seqD": self(ns), "volume": self(1)[0], "area": self(1)[0],
                "centroid": self(3)}


def _compare(ctx, opname, case, got, live, deg, size):
    for k in got:
        if not sc.num_close(got[k], live[k], size ** deg[k] if deg[k] else 1.0, 1e-9):
            ctx.disagree(opname + ":" + k, case, [np.asarray(got[k]).tolist(), np.asarray(live[k]).tolist()])
            return False
    return True


def _size_code(cls, name):
    """(opcode, extra) of a size setter in the class's state machine; None = not a modelled setter."""
    if cls in ("ConvexPolyhedron", "Polyhedron"):
        return {"volume": (0, "plain"), "surface_area": (1, "plain")}.get(name, (2, "cur"))
    if cls in ("Polygon", "ConvexPolygon"):
        return {"area": (0, "plain"), "perimeter": (1, "plain")}.get(name, (2, "cur"))
    if cls == "ConvexSpheropolygon":
        return {"area": (1, "plain"), "perimeter": (2, "plain")}.get(name)
    if cls == "ConvexSpheropolyhedron":
        return {"volume": (1, 3), "surface_area": (1, 2), "mean_curvature": (1, 1)}.get(name)
    return None


def model_history(ctx, base_seed, flavour, ops, cls="ConvexPolyhedron"):
    """B: the Lean state machines (Model/Mutable.lean, Model/Mutable2.lean) on the same history: the private
    attributes of the live object after the history must equal the state the driver computes from the initial
    private attributes, the same targets and the recorded external inputs (eigh matrix, re-oriented simplices,
    values of getters that are not closed forms of the model)."""
    from common import L
    obj = base_of(cls, flavour, base_seed)
    case = {"cls": cls, "flavour": flavour, "base_seed": int(base_seed), "ops": ops, "model": True}
    core = obj.polyhedron if cls == "ConvexSpheropolyhedron" else obj   # where the CP caches live
    r0 = float(obj.radius) if cls == "ConvexSpheropolyhedron" else None
    if cls in ("ConvexPolyhedron", "ConvexSpheropolyhedron"):
        toks = _cp_tokens(core)
    elif cls == "Polyhedron":
        toks = [L(list(np.array(obj.vertices))), L([L([int(i) for i in f]) for f in obj.faces]),
                L(list(obj._equations[:, :3])), L([float(x) for x in obj._equations[:, 3]])]
    else:
        poly = obj.polygon if cls == "ConvexSpheropolygon" else obj
        toks = [L(list(np.array(poly._vertices))), np.array(poly._normal, dtype=float)]
        if cls == "ConvexSpheropolygon":
            toks.append(float(obj.radius))
    coded, expect = [], []
    hoomd = None
    for op in ops:
        kind, name, arg = op
        code = None
        if kind == "setvec":
            if cls == "ConvexPolyhedron":
                code = [3, np.array(arg, dtype=float)]
            elif cls in ("Polyhedron", "Polygon", "ConvexPolygon"):
                try:
                    cur = np.array(obj.centroid, dtype=float)
                except Exception:
                    return
                code = [3, cur, np.array(arg, dtype=float)]
        elif kind == "setabs":
            code = [0, float(arg)]
        elif kind in ("setfac", "setbad"):
            sc_ = _size_code(cls, name)
            try:
                cur = float(getattr(obj, name))
            except Exception:
                cur = None
            if sc_ is not None and cur is not None:
                tgt = cur * arg if kind == "setfac" else arg
                if sc_[1] == "plain":
                    code = [sc_[0], float(tgt)]
                elif sc_[1] == "cur":
                    code = [sc_[0], cur, float(tgt)]
                else:
                    code = [sc_[0], int(sc_[1]), cur, float(tgt)]
        elif kind == "call" and name not in MODELLED_CALLS:
            return
        elif kind == "read":
            try:
                do_read(obj, name)      # no effect on the attributes these state machines hold
            except Exception:
                return
            continue
        # ---- run the step on the live object, recording the external inputs
        try:
            if kind == "call" and name == "diagonalize_inertia":
                if cls not in ("ConvexPolyhedron", "Polyhedron"):
                    return
                old_simp = np.array(obj.simplices) if cls == "ConvexPolyhedron" else None
                with _EighRecorder() as rec:
                    obj.diagonalize_inertia()
                P = rec.P
                if P is None:
                    return
                if not np.allclose(P.T @ P, np.eye(3), atol=1e-9):
                    ctx.disagree("contract:IsOrth", case, P.tolist())
                    return
                code = [4, P]
                if cls == "ConvexPolyhedron":
                    new_simp = np.array(obj.simplices)
                    par = {_row_parity(a, b) for a, b in zip(old_simp, new_simp)}
                    sv = float(np.sum(np.linalg.det(np.array(obj.vertices)[new_simp])) / 6)
                    if len(old_simp) != len(new_simp) or par not in ({1}, {-1}) or not sv >= 0:
                        ctx.disagree("contract:SortContract", case, [sorted(par), sv])
                        return
                    code.append(L([[int(x) for x in r] for r in new_simp]))
                ctx.count("model-op:diagonalize_inertia")
            elif kind == "call" and name == "to_hoomd":
                if cls in ("ConvexPolyhedron", "ConvexSpheropolyhedron"):
                    hoomd = obj.to_hoomd()
                    code = [5] if cls == "ConvexPolyhedron" else [2]
                else:
                    poly = obj.polygon if cls == "ConvexSpheropolygon" else obj
                    with _Recorder(type(poly), "centroid") as rec:
                        hoomd = obj.to_hoomd()
                    if len(rec.values) < 2:
                        ctx.disagree("to_hoomd:centroid-reads", case, len(rec.values))
                        return
                    c_first, c_last = rec.values[0], rec.values[-1]
                    if cls == "ConvexSpheropolygon":
                        code = [3, c_first, c_last]
                    else:
                        if not np.array_equal(rec.values[0], rec.values[1]):
                            ctx.disagree("to_hoomd:centroid-reads", case, [v.tolist() for v in rec.values[:2]])
                            return
                        code = [5 if cls == "Polyhedron" else 4, c_first, c_last]
                # snapshot: ConvexSpheropolygon.to_hoomd hands out the live vertex array (aliasing is C15/C19's
                # business), which later in-place mutations of the history would change
                hoomd = dict(hoomd, vertices=np.array(hoomd["vertices"], dtype=float, copy=True))
                ctx.count("model-op:to_hoomd")
            else:
                apply_op(obj, op)
            raised = None
        except ValueError as e:
            raised = e
        except Exception:
            if code is None:
                continue        # e.g. assigning `center` of a spheropoly*: no such step in the model, nothing changes
            return
        if code is None:
            if raised is not None:
                continue        # a setter whose getter raises (no such ball for this shape): not a modelled step
            return
        coded.append(code)
        expect.append(0 if raised is None else 1)
    if not coded:
        return
    opname = {"ConvexPolyhedron": "cpstate.run", "Polyhedron": "phstate.run", "Polygon": "pgstate.run",
              "ConvexPolygon": "pgstate.run", "ConvexSpheropolygon": "spgstate.run",
              "ConvexSpheropolyhedron": "sphstate.run"}[cls]
    if cls == "ConvexSpheropolyhedron":
        try:
            hcur = float(obj.polyhedron.mean_curvature)
        except Exception:
            return
        toks = toks + [r0, hcur]
    r = ctx.driver.F(opname, *toks, len(coded), *[x for c in coded for x in c])
    n = len(coded)
    log, take = r[:n], _Take(r[n:])
    ctx.count("model-histories")
    ctx.count("model-cls:" + cls)
    if list(log) != expect:
        ctx.disagree(opname + ":raise-pattern", case, [list(log), expect])
        return
    size = sc.size_of(obj)
    nv = len(obj.vertices)
    if cls in ("ConvexPolyhedron", "ConvexSpheropolyhedron"):
        nf, ns = len(core.faces), len(core.simplices)
        got = take.cp(nv, nf, ns)
        if not _compare(ctx, opname, case, got, _cp_live(core), CP_DEG, size):
            return
        if cls == "ConvexSpheropolyhedron":
            got2 = {"radius": take(1)[0], "volume": take(1)[0], "surface_area": take(1)[0],
                    "mean_curvature": take(1)[0]}
            live2 = {"radius": obj.radius, "volume": obj.volume, "surface_area": obj.surface_area,
                     "mean_curvature": obj.mean_curvature}
            size2 = size + float(obj.radius)
            if not _compare(ctx, opname, case, got2, live2,
                            {"radius": 1, "volume": 3, "surface_area": 2, "mean_curvature": 1}, size2):
                return
        hv = take(3 * nv).reshape(nv, 3)
        if hoomd is not None:
            hgot = {"hoomd.vertices": hv}
            hlive = {"hoomd.vertices": np.asarray(hoomd["vertices"], dtype=float)}
            hdeg = {"hoomd.vertices": 1}
            if cls == "ConvexPolyhedron":
                hgot.update({"hoomd.centroid": take(3), "hoomd.volume": take(1)[0]})
                hlive.update({"hoomd.centroid": np.asarray(hoomd["centroid"], dtype=float),
                              "hoomd.volume": float(hoomd["volume"])})
                hdeg.update({"hoomd.centroid": 1, "hoomd.volume": 3})
            _compare(ctx, opname, case, hgot, hlive, hdeg, size)
        return
    if cls == "Polyhedron":
        nf = len(obj.faces)
        got = {"vertices": take(3 * nv).reshape(nv, 3), "eqN": take(3 * nf).reshape(nf, 3), "eqD": take(nf),
               "volume": take(1)[0], "surface_area": take(1)[0]}
        live = {"vertices": np.array(obj.vertices), "eqN": obj._equations[:, :3], "eqD": obj._equations[:, 3],
                "volume": obj.volume, "surface_area": obj.surface_area}
        deg = {"vertices": 1, "eqN": 0, "eqD": 1, "volume": 3, "surface_area": 2}
        if not _compare(ctx, opname, case, got, live, deg, size):
            return
        hv = take(3 * nv).reshape(nv, 3)
        if hoomd is not None:
            _compare(ctx, opname, case, {"hoomd.vertices": hv},
                     {"hoomd.vertices": np.asarray(hoomd["vertices"], dtype=float)}, {"hoomd.vertices": 1}, size)
        return
    poly = obj.polygon if cls == "ConvexSpheropolygon" else obj
    got = {"vertices": take(3 * nv).reshape(nv, 3), "normal": take(3)}
    live = {"vertices": np.array(poly._vertices), "normal": np.array(poly._normal, dtype=float)}
    deg = {"vertices": 1, "normal": 0, "radius": 1, "area": 2, "perimeter": 1}
    if cls == "ConvexSpheropolygon":
        got["radius"] = take(1)[0]
        live["radius"] = obj.radius
        size = size + float(obj.radius)
    got.update({"area": take(1)[0], "perimeter": take(1)[0]})
    live.update({"area": obj.area, "perimeter": obj.perimeter})
    if not _compare(ctx, opname, case, got, live, deg, size):
        return
    hv = take(3 * nv).reshape(nv, 3)
    if hoomd is not None:
        hl = np.asarray(hoomd["vertices"], dtype=float)
        _compare(ctx, opname, case, {"hoomd.vertices": hv[:, :hl.shape[1]]}, {"hoomd.vertices": hl},
                 {"hoomd.vertices": 1}, size)


class _FacesRecorder:
    """Record (a) the face lists at every `_find_neighbors()` call — the first call inside sort_faces / merge_faces sees
    the faces right after the per-face vertex ordering, which is the external input of the Lean `sortFaces` /
    `mergeFaces` — and (b) the labels `connected_components` hands to merge_faces."""

    def __enter__(self):
        import coxeter.shapes.polyhedron as ph
        self.ph = ph
        self.faces, self.labels = [], []
        self.orig_fn = ph.Polyhedron._find_neighbors
        self.orig_cc = ph.connected_components
        rec = self

        def _find_neighbors(obj):
            rec.faces.append([[int(i) for i in f] for f in obj._faces])
            return rec.orig_fn(obj)

        def connected_components(*a, **kw):
            r = rec.orig_cc(*a, **kw)
            rec.labels.append([int(x) for x in r[1]])
            return r
        ph.Polyhedron._find_neighbors = _find_neighbors
        ph.connected_components = connected_components
        return self

    def __exit__(self, *exc):
        self.ph.Polyhedron._find_neighbors = self.orig_fn
        self.ph.connected_components = self.orig_cc
        return False


class _Cursor:
    def __init__(self, toks):
        self.t, self.i = toks, 0

    def one(self):
        v = self.t[self.i]
        self.i += 1
        return v

    def floats(self, k):
        out = np.array(self.t[self.i:self.i + k], dtype=float)
        self.i += k
        return out

    def nats(self):
        n = self.one()
        out = [int(x) for x in self.t[self.i:self.i + n]]
        self.i += n
        return out

    def natlists(self):
        return [self.nats() for _ in range(self.one())]

    def edges(self):
        n = self.one()
        out = [(int(self.t[self.i + 2 * k]), int(self.t[self.i + 2 * k + 1])) for k in range(n)]
        self.i += 2 * n
        return out

    def opt(self, fn):
        return fn() if self.one() else None

    def cp(self, nv, nf, ns):
        return {"vertices": self.floats(3 * nv).reshape(nv, 3), "eqN": self.floats(3 * nf).reshape(nf, 3),
                "eqD": self.floats(nf), "seqN": self.floats(3 * ns).reshape(ns, 3), "seqD": self.floats(ns),
                "volume": self.floats(1)[0], "area": self.floats(1)[0], "centroid": self.floats(3)}


def _edge_cache(obj):
    e = obj.__dict__.get("edges")
    return [0] if e is None else [1, L([[int(a), int(b)] for a, b in np.asarray(e)])]


def _nl(lists):
    from common import L as _L
    return _L([_L([int(i) for i in f]) for f in lists])


FULL_CLASSES = ("Polyhedron", "ConvexPolyhedron")
READ_CODE = {"edges": 8, "get_face_area": 9, "face_centroids": 10, "get_face_area_total": 11}


def model_history_full(ctx, base_seed, flavour, ops, cls, obj=None):
    """B for the full state machines of Model/Mutable3.lean (Polyhedron, ConvexPolyhedron): every mutator including
    merge_faces / sort_faces, and the reads that fill instance-level caches, on the driver; compared: vertices, plane
    equations, faces, neighbours, the `edges` entry of the instance __dict__, `_simplex_areas`, `_face_centroids`,
    the closed-form getters, what the reads and to_hoomd returned, the labels of merge_faces."""
    from common import L
    if obj is None:
        obj = base_of(cls, flavour, base_seed)
    case = {"cls": cls, "flavour": flavour, "base_seed": int(base_seed), "ops": ops, "model": True, "full": True}
    is_cp = cls == "ConvexPolyhedron"
    if is_cp:
        sa, fcs = getattr(obj, "_simplex_areas", None), getattr(obj, "_face_centroids", None)
        toks = _cp_tokens(obj) + [_nl(obj._faces), _nl(obj._coplanar_simplices), _nl(obj._neighbors)] + _edge_cache(obj)
        toks += [0] if sa is None else [1, L([float(x) for x in sa])]
        toks += [0] if fcs is None else [1, L(list(np.asarray(fcs, dtype=float)))]
    else:
        toks = [L(list(np.array(obj.vertices))), _nl(obj._faces), L(list(obj._equations[:, :3])),
                L([float(x) for x in obj._equations[:, 3]]), 1 if obj._faces_are_convex else 0, _nl(obj._neighbors)]
        toks += _edge_cache(obj)
    coded, expect = [], []
    hoomd = last = None
    lasts = {}
    labels = None
    for op in ops:
        kind, name, arg = op
        code = None
        raised = None
        try:
            if kind == "setvec":
                if is_cp:
                    code = [3, np.array(arg, dtype=float)]
                else:
                    code = [3, np.array(obj.centroid, dtype=float), np.array(arg, dtype=float)]
                apply_op(obj, op)
            elif kind in ("setfac", "setbad"):
                sc_ = _size_code(cls, name)
                try:
                    cur = float(getattr(obj, name))
                except Exception:
                    cur = None
                if cur is not None:
                    tgt = cur * arg if kind == "setfac" else arg
                    code = [sc_[0], float(tgt)] if sc_[1] == "plain" else [sc_[0], cur, float(tgt)]
                apply_op(obj, op)
            elif kind == "read":
                lasts[name] = do_read(obj, name)
                if name == "edges":
                    lasts[name] = [(int(a), int(b)) for a, b in np.asarray(lasts[name])]
                code = [READ_CODE[name]]
            elif kind == "call" and name == "diagonalize_inertia":
                old_simp = np.array(obj.simplices) if is_cp else None
                with _EighRecorder() as rec:
                    obj.diagonalize_inertia()
                P = rec.P
                if P is None:
                    return
                if not np.allclose(P.T @ P, np.eye(3), atol=1e-9):
                    ctx.disagree("contract:IsOrth", case, P.tolist())
                    return
                code = [4, P]
                if is_cp:
                    new_simp = np.array(obj.simplices)
                    par = {_row_parity(a, b) for a, b in zip(old_simp, new_simp)}
                    sv = float(np.sum(np.linalg.det(np.array(obj.vertices)[new_simp])) / 6)
                    if len(old_simp) != len(new_simp) or par not in ({1}, {-1}) or not sv >= 0:
                        ctx.disagree("contract:SortContract", case, [sorted(par), sv])
                        return
                    code.append(L([[int(x) for x in r] for r in new_simp]))
            elif kind == "call" and name == "to_hoomd":
                if is_cp:
                    hoomd = obj.to_hoomd()
                    code = [5]
                else:
                    with _Recorder(type(obj), "centroid") as rec:
                        hoomd = obj.to_hoomd()
                    if len(rec.values) < 2 or not np.array_equal(rec.values[0], rec.values[1]):
                        ctx.disagree("to_hoomd:centroid-reads", case, len(rec.values))
                        return
                    code = [5, rec.values[0], rec.values[-1]]
                hoomd = dict(hoomd, vertices=np.array(hoomd["vertices"], dtype=float, copy=True))
            elif kind == "call" and name in ("sort_faces", "merge_faces"):
                with _FacesRecorder() as rec:
                    try:
                        getattr(obj, name)()
                    except Exception as e:          # any kind: the model has one error channel
                        raised = e
                if not rec.faces:
                    if raised is None:
                        ctx.disagree(name + ":no-_find_neighbors-call", case, "")
                        return
                    # raised at the guard, before anything happened: any faces1 will do
                    rec.faces.append([[int(i) for i in f] for f in obj._faces])
                code = [6 if name == "sort_faces" else 7, _nl(rec.faces[0])]
                if name == "merge_faces" and rec.labels:
                    labels = rec.labels[-1]
                ctx.count("model-op:" + name)
            else:
                return
        except ValueError as e:
            raised = e
        except Exception:
            if code is None:
                continue
            return
        if code is None:
            if raised is not None:
                continue
            return
        coded.append(code)
        expect.append(0 if raised is None else 1)
    if not coded:
        return
    opname = "cpfull.run" if is_cp else "phfull.run"
    r = ctx.driver.F(opname, *toks, len(coded), *[x for c in coded for x in c])
    n = len(coded)
    log, cur = [int(x) for x in r[:n]], _Cursor(r[n:])
    ctx.count("model-histories-full")
    ctx.count("model-full-cls:" + cls)
    if log != expect:
        ctx.disagree(opname + ":raise-pattern", case, [log, expect])
        return
    size = sc.size_of(obj)
    nv = len(obj.vertices)

    def same(key, got, live):
        if got != live:
            ctx.disagree(opname + ":" + key, case, [str(got)[:400], str(live)[:400]])
            return False
        return True
    live_faces = [[int(i) for i in f] for f in obj._faces]
    live_nb = [[int(i) for i in f] for f in obj._neighbors]
    live_cache = obj.__dict__.get("edges")
    live_cache = None if live_cache is None else [(int(a), int(b)) for a, b in np.asarray(live_cache)]
    if is_cp:
        nf, ns = cur.one(), cur.one()
        if nf != len(obj._equations) or ns != len(obj._simplex_equations):
            ctx.disagree(opname + ":equation-counts", case, [nf, len(obj._equations), ns, len(obj._simplex_equations)])
            return
        got = cur.cp(nv, nf, ns)
        if not _compare(ctx, opname, case, got, _cp_live(obj), CP_DEG, size):
            return
    else:
        vs = cur.floats(3 * nv).reshape(nv, 3)
        nf = cur.one()
        if nf != len(obj._equations):
            ctx.disagree(opname + ":equation-count", case, [nf, len(obj._equations)])
            return
        got = {"vertices": vs, "eqN": cur.floats(3 * nf).reshape(nf, 3), "eqD": cur.floats(nf)}
    if not is_cp:
        live = {"vertices": np.array(obj.vertices), "eqN": obj._equations[:, :3], "eqD": obj._equations[:, 3]}
        if not _compare(ctx, opname, case, got, live, {"vertices": 1, "eqN": 0, "eqD": 1}, size):
            return
    if not (same("faces", cur.natlists(), live_faces) and same("neighbors", cur.natlists(), live_nb)
            and same("edges-cache", cur.opt(cur.edges), live_cache)):
        return
    if is_cp:
        g_sa = cur.opt(lambda: cur.floats(cur.one()))
        g_fc = cur.opt(lambda: (lambda k: cur.floats(3 * k).reshape(k, 3))(cur.one()))
        l_sa, l_fc = getattr(obj, "_simplex_areas", None), getattr(obj, "_face_centroids", None)
        if (g_sa is None) != (l_sa is None) or (g_fc is None) != (l_fc is None):
            ctx.disagree(opname + ":cache-presence", case, [g_sa is None, l_sa is None, g_fc is None, l_fc is None])
            return
        if g_sa is not None and not _compare(ctx, opname, case, {"_simplex_areas": g_sa},
                                             {"_simplex_areas": np.asarray(l_sa, dtype=float)}, {"_simplex_areas": 2}, size):
            return
        if g_fc is not None and not _compare(ctx, opname, case, {"_face_centroids": g_fc},
                                             {"_face_centroids": np.asarray(l_fc, dtype=float)}, {"_face_centroids": 1}, size):
            return
        hv = cur.floats(3 * nv).reshape(nv, 3)
        hc, hvol = cur.floats(3), cur.floats(1)[0]
        if hoomd is not None:
            if not _compare(ctx, opname, case, {"hoomd.vertices": hv, "hoomd.centroid": hc, "hoomd.volume": hvol},
                            {"hoomd.vertices": np.asarray(hoomd["vertices"], dtype=float),
                             "hoomd.centroid": np.asarray(hoomd["centroid"], dtype=float), "hoomd.volume": float(hoomd["volume"])},
                            {"hoomd.vertices": 1, "hoomd.centroid": 1, "hoomd.volume": 3}, size):
                return
        g_edges = cur.edges()
        g_areas = cur.floats(cur.one())
        k = cur.one()
        g_cents = cur.floats(3 * k).reshape(k, 3)
        g_total = cur.floats(1)[0]
        if "edges" in lasts and not same("edges-read", g_edges, lasts["edges"]):
            return
        for key, g, deg in (("get_face_area", g_areas, 2), ("face_centroids", g_cents, 1), ("get_face_area_total", g_total, 2)):
            if key in lasts and not _compare(ctx, opname, case, {key: g}, {key: np.asarray(lasts[key], dtype=float)}, {key: deg}, size):
                return
    else:
        g_vol, g_area = cur.floats(1)[0], cur.floats(1)[0]
        try:
            live2 = {"volume": obj.volume, "surface_area": obj.surface_area}
        except Exception:
            live2 = None
        if live2 is not None and not _compare(ctx, opname, case, {"volume": g_vol, "surface_area": g_area}, live2,
                                              {"volume": 3, "surface_area": 2}, size):
            return
        hv = cur.floats(3 * nv).reshape(nv, 3)
        if hoomd is not None and not _compare(ctx, opname, case, {"hoomd.vertices": hv},
                                              {"hoomd.vertices": np.asarray(hoomd["vertices"], dtype=float)}, {"hoomd.vertices": 1}, size):
            return
        g_edges = cur.edges()
        if "edges" in lasts and not same("edges-read", g_edges, lasts["edges"]):
            return
    if cur.one():
        g_labels, g_contract = cur.nats(), cur.one()
        if labels is not None and not same("merge-labels", g_labels, labels):
            return
        if not g_contract:
            ctx.disagree("contract:mergeContract", case, g_labels)
            return


def certificate(ctx, cls, flavour, base_seed):
    """the decidable hypothesis of `ph_history_of_certificate` on the object's own data (exact, Q mode)."""
    from common import L
    obj = base_of(cls, flavour, base_seed)
    case = {"cls": cls, "flavour": flavour, "base_seed": int(base_seed), "ops": [], "certificate": True}
    v = np.array(obj.vertices, dtype=float)
    r = ctx.driver.Q("phgeom.check", L(list(v)), _nl(obj.faces))
    ctx.count("certificate:closedPolyCheck")
    if not (len(r) == 1 and r[0] is True):
        ctx.disagree("certificate:closedPolyCheck", case, [v.tolist(), [[int(i) for i in f] for f in obj.faces]])
    # negative control: the same faces with one face reversed / one vertex lifted off its plane must be refused
    faces = [[int(i) for i in f] for f in obj.faces]
    bad_faces = [faces[0][::-1]] + faces[1:]
    v2 = v.copy()
    big = max(range(len(faces)), key=lambda i: len(faces[i]))
    if len(faces[big]) > 3:
        v2[faces[big][-1]] += 0.25 * np.cross(v[faces[big][1]] - v[faces[big][0]], v[faces[big][2]] - v[faces[big][0]])
        r2 = ctx.driver.Q("phgeom.check", L(list(v2)), _nl(faces))
        if r2[0] is not False:
            ctx.disagree("certificate:closedPolyCheck:accepts-nonplanar", case, v2.tolist())
    r3 = ctx.driver.Q("phgeom.check", L(list(v)), _nl(bad_faces))
    if r3[0] is not False:
        ctx.disagree("certificate:closedPolyCheck:accepts-misoriented", case, bad_faces)


def modelled(cls, ops):
    """histories the state machines cover: everything except merge_faces / sort_faces."""
    return all(o[0] != "call" or o[1] in MODELLED_CALLS for o in ops)      # (the full machines cover the rest)


def run(ctx):
    rng = ctx.rng
    quick = ctx.tier == "quick"
    for cls in sc.VERTEX_CLASSES:
        for flavour in (("regular", "generic", "triangulated", "triangulated-shuffled") if cls == "Polyhedron"
                        else ("regular", "generic")):
            base_seed = int(rng.integers(1 << 30))
            probe = sc.base_shape(np.random.default_rng(base_seed), cls, flavour)
            alpha = alphabet(probe)
            seqs = [[concretise(rng, a)] for a in alpha]
            pairs = list(itertools.product(alpha, repeat=2))
            if quick or flavour == "triangulated":
                # ('triangulated' is the unshuffled special case of 'triangulated-shuffled': sampled in both tiers)
                idx = rng.choice(len(pairs), size=min(len(pairs), int((12 if quick else 60) * ctx.widen)), replace=False)
                pairs = [pairs[i] for i in idx]
            seqs += [[concretise(rng, a), concretise(rng, b)] for a, b in pairs]
            n3 = 0 if quick else int(30 * ctx.widen)
            for _ in range(n3):
                seqs.append([concretise(rng, alpha[int(rng.integers(len(alpha)))]) for _ in range(3)])
            nwalk = (1 if quick else 2) * int(ctx.widen)
            for _ in range(nwalk):
                ln = int(rng.integers(8, 14)) if quick else int(rng.integers(30, 80))
                seqs.append([concretise(rng, alpha[int(rng.integers(len(alpha)))]) for _ in range(ln)])
            if flavour.startswith("triangulated"):
                # these flavours exist for merge_faces / sort_faces / the caches: pure setter sequences are what the
                # 'regular' and 'generic' flavours already run (and every observation of a 24-face mesh is expensive)
                seqs = [q for q in seqs if any(o[0] in ("call", "read") for o in q)]
            for ops in seqs:
                case = {"cls": cls, "flavour": flavour, "base_seed": base_seed, "ops": ops}
                ctx.case(case)
                ctx.count("cls:" + cls)
                ctx.count("len:%d" % min(len(ops), 4))
                run_history(ctx, cls, flavour, base_seed, ops, prefixes_covered=(not quick and 2 <= len(ops) <= 3))
                if modelled(cls, ops) and cls not in FULL_CLASSES:
                    # (for Polyhedron / ConvexPolyhedron the full machines below cover the same steps)
                    model_history(ctx, base_seed, flavour, ops, cls)
                if cls in FULL_CLASSES:
                    model_history_full(ctx, base_seed, flavour, ops, cls)
            if cls in ("ConvexPolyhedron", "Polyhedron") and flavour == "generic":
                # the handedness of the eigh result depends on the shape: more base shapes for diagonalize_inertia
                # (alone, after another diagonalize, and followed by a size setter and to_hoomd)
                for _ in range(int((6 if quick else 16) * ctx.widen)):
                    bs = int(rng.integers(1 << 30))
                    for ops in ([["call", "diagonalize_inertia", None]],
                                [["call", "diagonalize_inertia", None], ["setfac", "volume", 1.7],
                                 ["call", "to_hoomd", None], ["call", "diagonalize_inertia", None]]):
                        case = {"cls": cls, "flavour": flavour, "base_seed": bs, "ops": ops}
                        ctx.case(case)
                        ctx.count("cls:" + cls)
                        ctx.count("extra-diagonalize")
                        run_history(ctx, cls, flavour, bs, ops)
                        model_history(ctx, bs, flavour, ops, cls)
                        model_history_full(ctx, bs, flavour, ops, cls)
            if cls in ("ConvexPolyhedron", "Polyhedron") and flavour == "generic":
                # origin-centred, axis-aligned shapes (eigh returns signed permutations) - oracle only
                for _ in range(int((6 if quick else 20) * ctx.widen)):
                    bs = int(rng.integers(1 << 30))
                    for ops in ([["call", "diagonalize_inertia", None]],
                                [["setfac", "volume", 2.0], ["call", "diagonalize_inertia", None], ["call", "to_hoomd", None]]):
                        case = {"cls": cls, "flavour": "aligned-centred", "base_seed": bs, "ops": ops}
                        ctx.case(case)
                        ctx.count("cls:" + cls)
                        ctx.count("extra-aligned-centred")
                        run_history(ctx, cls, "aligned-centred", bs, ops)
            if cls == "Polyhedron" and flavour == "generic":
                # operations that raise half-way on an off-origin solid with non-convex faces - oracle only
                for _ in range(int((4 if quick else 12) * ctx.widen)):
                    bs = int(rng.integers(1 << 30))
                    for ops in ([["call", "to_hoomd", None]],
                                [["setvec", "centroid", rng.uniform(-3, 3, size=3).tolist()], ["call", "to_hoomd", None],
                                 ["setfac", "volume", 2.0]],
                                [["call", "diagonalize_inertia", None], ["call", "to_hoomd", None]]):
                        case = {"cls": cls, "flavour": "nonconvex-face", "base_seed": bs, "ops": ops}
                        ctx.case(case)
                        ctx.count("cls:" + cls)
                        ctx.count("extra-nonconvex-face")
                        run_history(ctx, cls, "nonconvex-face", bs, ops)
            if cls == "Polyhedron" and flavour == "triangulated-shuffled":
                # merge_faces / sort_faces depend on accidents of labelling and face order (global flip needed or not,
                # start face): more base shapes, with every cached observable read before AND after (run_history does)
                for _ in range(int((5 if quick else 12) * ctx.widen)):
                    bs = int(rng.integers(1 << 30))
                    for ops in ([["call", "merge_faces", None]],
                                [["call", "sort_faces", None], ["call", "merge_faces", None], ["setfac", "volume", 0.5]],
                                [["setfac", "surface_area", 2.0], ["call", "merge_faces", None], ["call", "to_hoomd", None],
                                 ["call", "sort_faces", None]],
                                [["read", "edges", None], ["call", "merge_faces", None], ["read", "edges", None],
                                 ["call", "diagonalize_inertia", None], ["call", "sort_faces", None], ["read", "edges", None]]):
                        case = {"cls": cls, "flavour": flavour, "base_seed": bs, "ops": ops}
                        ctx.case(case)
                        ctx.count("cls:" + cls)
                        ctx.count("extra-merge")
                        run_history(ctx, cls, flavour, bs, ops)
                        model_history_full(ctx, bs, flavour, ops, cls)
            if cls == "ConvexPolyhedron" and flavour == "generic":
                # (a) reads that store per-simplex data, then a mutator, then the reads again; (b) the inherited
                # merge_faces / the sort_faces override on shapes with two faces coplanar within merge_faces' default
                # tolerance (1e-8) but not within the constructor's (2e-15)
                for _ in range(int((6 if quick else 16) * ctx.widen)):
                    bs = int(rng.integers(1 << 30))
                    f = float(rng.choice([0.5, 2.0, 1.7]))
                    for fl, ops in (("generic", [["read", "get_face_area", None], ["setfac", "volume", f],
                                                 ["read", "get_face_area_total", None], ["read", "edges", None],
                                                 ["call", "sort_faces", None], ["read", "face_centroids", None],
                                                 ["setvec", "centroid", [0.5, -1.0, 2.0]], ["read", "get_face_area", None]]),
                                    ("generic", [["read", "face_centroids", None], ["call", "diagonalize_inertia", None],
                                                 ["call", "merge_faces", None], ["setfac", "surface_area", f],
                                                 ["read", "face_centroids", None], ["read", "edges", None]]),
                                    ("near-coplanar", [["call", "merge_faces", None]]),
                                    ("near-coplanar", [["read", "get_face_area", None], ["call", "sort_faces", None],
                                                       ["call", "merge_faces", None], ["read", "get_face_area", None]])):
                        case = {"cls": cls, "flavour": fl, "base_seed": bs, "ops": ops}
                        ctx.case(case)
                        ctx.count("cls:" + cls)
                        ctx.count("extra-cp-caches:" + fl)
                        run_history(ctx, cls, fl, bs, ops)
                        model_history_full(ctx, bs, fl, ops, cls)
            if cls == "Polyhedron" and flavour == "generic":
                # certificate of the hypothesis of the Lean theorem `ph_coherent_history` (`PHGeom`: closed, planar,
                # consistently oriented faces, positive volume) on the implementation's own vertices and faces, exactly
                # over Q (integer-coordinate shapes: their faces are EXACTLY planar), then histories from them
                for k in range(int((4 if quick else 12) * ctx.widen)):
                    bs = int(rng.integers(1 << 30))
                    fl = "lattice" if k % 2 == 0 else "lattice-triangulated"
                    certificate(ctx, cls, fl, bs)
                    for ops in ([["setfac", "volume", 2.0], ["setvec", "centroid", [1.0, -2.0, 0.5]],
                                 ["call", "diagonalize_inertia", None], ["call", "to_hoomd", None],
                                 ["setfac", "surface_area", 0.5]],
                                [["read", "edges", None], ["call", "merge_faces", None], ["read", "edges", None],
                                 ["setfac", "volume", 0.5], ["call", "sort_faces", None]]):
                        case = {"cls": cls, "flavour": fl, "base_seed": bs, "ops": ops}
                        ctx.case(case)
                        ctx.count("cls:" + cls)
                        ctx.count("extra-lattice")
                        run_history(ctx, cls, fl, bs, ops)
                        model_history(ctx, bs, fl, ops, cls)
                        model_history_full(ctx, bs, fl, ops, cls)
            if cls.startswith("ConvexSphero"):
                # the rounding-radius guard (negative / nan refused, zero accepted) and a rescale after it
                for extra in ([["setabs", "radius", -1.0]], [["setabs", "radius", float("nan")]],
                              [["setabs", "radius", 0.0], ["setfac", "perimeter" if cls.endswith("gon") else "volume", 2.0]]):
                    model_history(ctx, base_seed, flavour, extra, cls)


def replay(ctx, payload):
    case = payload.get("case", payload)
    ctx.case(case)
    if case.get("certificate"):
        certificate(ctx, case["cls"], case["flavour"], case["base_seed"])
        return
    if not case.get("model"):
        run_history(ctx, case["cls"], case["flavour"], case["base_seed"], case["ops"])
    if modelled(case["cls"], case["ops"]) and not case.get("full"):
        model_history(ctx, case["base_seed"], case["flavour"], case["ops"], case["cls"])
    if case["cls"] in FULL_CLASSES:
        model_history_full(ctx, case["base_seed"], case["flavour"], case["ops"], case["cls"])
