"""C03 — mutable shapes stay coherent under any history of mutations."""
import itertools

import numpy as np

import gen
import shapes_common as sc
from common import exc_kind

RULE = ("operation sequences over the mutator alphabet of each vertex-based class (all settable properties found by "
        "reflection with targets current*factor / random centres / bad targets, plus diagonalize_inertia, merge_faces, "
        "sort_faces, to_hoomd): exhaustive depth 1 and sampled depth 2 (quick) / exhaustive depth 2 + sampled depth 3 "
        "(thorough) plus random walks, from a 'regular' (box/square: circum- and in-balls exist) and a 'generic' (chiral, "
        "off-origin) base shape of each of the six classes; after EVERY step all public observables of the live object "
        "are compared with a freshly constructed object; distinct = distinct (class, flavour, op sequence)")
ASSUMPTIONS = [
    "oracle = a freshly constructed shape with the same current vertices (and faces, normal, rounding radius)",
    "face-indexed observables are compared by the face's vertex set (face order is not part of the property)",
    "minimal bounding ball (miniball, randomised) compared at 1e-6 relative; everything else at 1e-9*scale",
]

METHODS = ["diagonalize_inertia", "merge_faces", "sort_faces", "to_hoomd"]


def alphabet(obj):
    ops = []
    for p in sc.settable_properties(type(obj)):
        if p in ("centroid", "center"):
            ops.append(("setvec", p))
        elif p == "radius" and type(obj).__name__.startswith("ConvexSphero"):
            ops.append(("setabs", p))
        else:
            ops.append(("setfac", p))
    for m in METHODS:
        if callable(getattr(obj, m, None)):
            ops.append(("call", m))
    return ops


def concretise(rng, op):
    kind, name = op
    if kind == "setvec":
        return [kind, name, (rng.uniform(-3, 3, size=3)).tolist()]
    if kind == "setabs":
        return [kind, name, float(rng.choice([0.0, 0.25, 0.7]))]
    if kind == "setfac":
        r = rng.random()
        if r < 0.15:
            return ["setbad", name, float(rng.choice([0.0, -1.0, float("nan")]))]
        return [kind, name, float(rng.choice([0.5, 2.0, 1.7, 0.31]))]
    return [kind, name, None]


def chirality(v):
    v = np.asarray(v, dtype=float)
    d = v[1:] - v[0]
    for i, j, k in itertools.combinations(range(len(d)), 3):
        det = np.linalg.det(np.array([d[i], d[j], d[k]]))
        if abs(det) > 1e-6 * np.linalg.norm(d[i]) * np.linalg.norm(d[j]) * np.linalg.norm(d[k]):
            return np.sign(det)
    return 0.0


def apply_op(obj, op):
    kind, name, arg = op
    if kind == "setvec":
        val = np.array(arg, dtype=float)
        setattr(obj, name, val)
    elif kind == "setabs":
        setattr(obj, name, arg)
    elif kind == "setfac":
        cur = getattr(obj, name)
        setattr(obj, name, cur * arg)
    elif kind == "setbad":
        setattr(obj, name, arg)
    elif kind == "call":
        getattr(obj, name)()
    else:
        raise ValueError(kind)


def run_history(ctx, cls, flavour, base_seed, ops):
    rng = np.random.default_rng(base_seed)
    obj = sc.base_shape(rng, cls, flavour)
    case = {"cls": cls, "flavour": flavour, "base_seed": int(base_seed), "ops": ops}
    size = sc.size_of(obj)
    for step, op in enumerate(ops):
        pre = sc.observe(obj)
        pre_v = np.array(obj.vertices, dtype=float)
        pre_ch = chirality(pre_v) if pre_v.shape[1] == 3 and cls in ("ConvexPolyhedron", "Polyhedron", "ConvexSpheropolyhedron") else 0.0
        opname = "%s.%s" % (cls, op[1] + ("=" if op[0].startswith("set") else "()"))
        try:
            apply_op(obj, op)
            raised = None
        except Exception as e:
            raised = e
        size = max(size, sc.size_of(obj)) if np.all(np.isfinite(np.asarray(obj.vertices, dtype=float))) else size
        if raised is not None:
            post = sc.observe(obj)
            diffs = sc.compare(pre, post, size)
            if diffs:
                ctx.fail("%s:raises-but-changes-shape" % opname,
                         "%s raised %s but left the shape changed (%s)" % (opname, exc_kind(raised), diffs[0][0]),
                         dict(case, step=step), [str(x)[:300] for x in diffs[0]])
                return
            if op[0] == "setbad" and not isinstance(raised, ValueError):
                pass  # C08 judges the exception type
            ctx.count("op-raised:" + exc_kind(raised))
            continue
        if op[0] == "setbad":
            # accepted a bad target: C08 reports that; here only coherence matters, but the geometry may be
            # degenerate so that no fresh shape exists -> stop the history
            ctx.count("bad-target-accepted")
            return
        try:
            fresh = sc.fresh_of(obj)
        except Exception as e:
            ctx.fail("%s:fresh-construction-fails" % opname,
                     "after %s the current vertices no longer construct a %s (%s)" % (opname, cls, exc_kind(e)),
                     dict(case, step=step), repr(e))
            return
        live = sc.observe(obj)
        diffs = sc.compare(live, sc.observe(fresh), size)
        if diffs:
            ctx.fail("%s:stale:%s" % (opname, diffs[0][0]),
                     "after %s the observable %s differs from a freshly constructed shape" % (opname, diffs[0][0]),
                     dict(case, step=step), [str(x)[:400] for x in diffs[0]])
            return
        if op[1] == "diagonalize_inertia":
            v = np.array(obj.vertices, dtype=float)
            d0 = np.linalg.norm(pre_v[:, None] - pre_v[None], axis=-1)
            d1 = np.linalg.norm(v[:, None] - v[None], axis=-1)
            if not np.allclose(d0, d1, atol=1e-9 * size):
                ctx.fail("%s:not-rigid" % opname, "diagonalize_inertia changed inter-vertex distances", dict(case, step=step), "")
                return
            if pre_ch != 0 and chirality(v) != pre_ch:
                ctx.fail("%s:mirrors" % opname, "diagonalize_inertia mirrored the shape", dict(case, step=step), "")
                return
    return


def model_history(ctx, base_seed, flavour, ops):
    """B: the Lean state machine (Model/Mutable.lean) on the same ConvexPolyhedron history."""
    from common import L
    rng = np.random.default_rng(base_seed)
    obj = sc.base_shape(rng, "ConvexPolyhedron", flavour)
    case = {"cls": "ConvexPolyhedron", "flavour": flavour, "base_seed": int(base_seed), "ops": ops, "model": True}

    def state_tokens(o):
        heads = [[int(f[0]), int(f[1]), int(f[2])] for f in o.faces]
        simp = [[int(a), int(b), int(c)] for a, b, c in np.asarray(o.simplices)]
        return [L(list(np.array(o.vertices))), L(simp), L(heads), L(list(o._equations[:, :3])),
                L([float(x) for x in o._equations[:, 3]]), L(list(o._simplex_equations[:, :3])),
                L([float(x) for x in o._simplex_equations[:, 3]]), float(o._volume), float(o._area),
                np.array(o._centroid)]

    toks = state_tokens(obj)
    coded = []
    expect = []
    for op in ops:
        kind, name, arg = op
        if kind == "setvec":
            coded.append([3, np.array(arg, dtype=float)])
        elif kind in ("setfac", "setbad"):
            try:
                cur = float(getattr(obj, name))
            except Exception:
                return  # getter raises: not a modelled step
            tgt = cur * arg if kind == "setfac" else arg
            if name == "volume":
                coded.append([0, float(tgt)])
            elif name == "surface_area":
                coded.append([1, float(tgt)])
            else:
                coded.append([2, cur, float(tgt)])
        else:
            return
        try:
            apply_op(obj, op)
            expect.append(0)
        except ValueError:
            expect.append(1)
        except Exception:
            return
    r = ctx.driver.F("cpstate.run", *toks, len(coded), *[x for c in coded for x in c])
    n = len(coded)
    log, rest = r[:n], r[n:]
    ctx.count("model-histories")
    if list(log) != expect:
        ctx.disagree("cpstate.run:raise-pattern", case, [list(log), expect])
        return
    nv, nf, ns = len(obj.vertices), len(obj.faces), len(obj.simplices)
    pos = 0
    def take(k):
        nonlocal pos
        out = np.array(rest[pos:pos + k], dtype=float)
        pos += k
        return out
    size = sc.size_of(obj)
    got = {"vertices": take(3 * nv).reshape(nv, 3), "eqN": take(3 * nf).reshape(nf, 3), "eqD": take(nf),
           "seqN": take(3 * ns).reshape(ns, 3), "seqD": take(ns), "volume": take(1)[0], "area": take(1)[0],
           "centroid": take(3)}
    live = {"vertices": np.array(obj.vertices), "eqN": obj._equations[:, :3], "eqD": obj._equations[:, 3],
            "seqN": obj._simplex_equations[:, :3], "seqD": obj._simplex_equations[:, 3],
            "volume": obj._volume, "area": obj._area, "centroid": np.array(obj._centroid)}
    deg = {"vertices": 1, "eqN": 0, "eqD": 1, "seqN": 0, "seqD": 1, "volume": 3, "area": 2, "centroid": 1}
    for k in got:
        if not sc.num_close(got[k], live[k], size ** deg[k] if deg[k] else 1.0, 1e-9):
            ctx.disagree("cpstate.run:" + k, case, [np.asarray(got[k]).tolist(), np.asarray(live[k]).tolist()])
            return


def run(ctx):
    rng = ctx.rng
    quick = ctx.tier == "quick"
    for cls in sc.VERTEX_CLASSES:
        for flavour in (("regular", "generic", "triangulated") if cls == "Polyhedron" else ("regular", "generic")):
            base_seed = int(rng.integers(1 << 30))
            probe = sc.base_shape(np.random.default_rng(base_seed), cls, flavour)
            alpha = alphabet(probe)
            seqs = [[concretise(rng, a)] for a in alpha]
            pairs = list(itertools.product(alpha, repeat=2))
            if quick:
                idx = rng.choice(len(pairs), size=min(len(pairs), int(14 * ctx.widen)), replace=False)
                pairs = [pairs[i] for i in idx]
            seqs += [[concretise(rng, a), concretise(rng, b)] for a, b in pairs]
            n3 = 0 if quick else int(60 * ctx.widen)
            for _ in range(n3):
                seqs.append([concretise(rng, alpha[int(rng.integers(len(alpha)))]) for _ in range(3)])
            nwalk = (1 if quick else 6) * int(ctx.widen)
            for _ in range(nwalk):
                ln = int(rng.integers(8, 14)) if quick else int(rng.integers(30, 80))
                seqs.append([concretise(rng, alpha[int(rng.integers(len(alpha)))]) for _ in range(ln)])
            for ops in seqs:
                case = {"cls": cls, "flavour": flavour, "base_seed": base_seed, "ops": ops}
                ctx.case(case)
                ctx.count("cls:" + cls)
                ctx.count("len:%d" % min(len(ops), 4))
                run_history(ctx, cls, flavour, base_seed, ops)
                if cls == "ConvexPolyhedron" and all(o[0] in ("setvec", "setfac", "setbad") for o in ops):
                    model_history(ctx, base_seed, flavour, ops)


def replay(ctx, payload):
    case = payload.get("case", payload)
    ctx.case(case)
    run_history(ctx, case["cls"], case["flavour"], case["base_seed"], case["ops"])
    if case["cls"] == "ConvexPolyhedron" and all(o[0] in ("setvec", "setfac", "setbad") for o in case["ops"]):
        model_history(ctx, case["base_seed"], case["flavour"], case["ops"])
