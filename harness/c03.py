"""C03 — mutable shapes stay coherent under any history of mutations."""
import itertools

import numpy as np

import gen
import shapes_common as sc
from common import exc_kind

RULE = ("operation sequences over the mutator alphabet of each vertex-based class (all settable properties found by "
        "reflection with targets current*factor / random centres / bad targets, plus diagonalize_inertia, merge_faces, "
        "sort_faces, to_hoomd): exhaustive depth 1 and sampled depth 2 (quick) / exhaustive depth 2 + sampled depth 3 "
        "(thorough) plus random walks, from a 'regular' (box/square: circum- and in-balls exist) and a 'generic' (chiral, "
        "off-origin) base shape of each of the six classes; after EVERY step all public observables of the live object "
        "are compared with a freshly constructed object; distinct = distinct (class, flavour, op sequence)")
ASSUMPTIONS = [
    "oracle = a freshly constructed shape with the same current vertices (and faces, normal, rounding radius)",
    "face-indexed observables are compared by the face's vertex set (face order is not part of the property)",
    "minimal bounding ball (miniball, randomised) compared at 1e-6 relative; everything else at 1e-9*scale",
]

METHODS = ["diagonalize_inertia", "merge_faces", "sort_faces", "to_hoomd"]


def alphabet(obj):
    ops = []
    for p in sc.settable_properties(type(obj)):
        if p in ("centroid", "center"):
            ops.append(("setvec", p))
        elif p == "radius" and type(obj).__name__.startswith("ConvexSphero"):
            ops.append(("setabs", p))
        else:
            ops.append(("setfac", p))
    for m in METHODS:
        if callable(getattr(obj, m, None)):
            ops.append(("call", m))
    return ops


def concretise(rng, op):
    kind, name = op
    if kind == "setvec":
        return [kind, name, (rng.uniform(-3, 3, size=3)).tolist()]
    if kind == "setabs":
        return [kind, name, float(rng.choice([0.0, 0.25, 0.7]))]
    if kind == "setfac":
        r = rng.random()
        if r < 0.15:
            return ["setbad", name, float(rng.choice([0.0, -1.0, float("nan")]))]
        return [kind, name, float(rng.choice([0.5, 2.0, 1.7, 0.31]))]
    return [kind, name, None]


def chirality(v):
    v = np.asarray(v, dtype=float)
    d = v[1:] - v[0]
    for i, j, k in itertools.combinations(range(len(d)), 3):
        det = np.linalg.det(np.array([d[i], d[j], d[k]]))
        if abs(det) > 1e-6 * np.linalg.norm(d[i]) * np.linalg.norm(d[j]) * np.linalg.norm(d[k]):
            return np.sign(det)
    return 0.0


def apply_op(obj, op):
    kind, name, arg = op
    if kind == "setvec":
        val = np.array(arg, dtype=float)
        setattr(obj, name, val)
    elif kind == "setabs":
        setattr(obj, name, arg)
    elif kind == "setfac":
        cur = getattr(obj, name)
        setattr(obj, name, cur * arg)
    elif kind == "setbad":
        setattr(obj, name, arg)
    elif kind == "call":
        getattr(obj, name)()
    else:
        raise ValueError(kind)


def run_history(ctx, cls, flavour, base_seed, ops):
    rng = np.random.default_rng(base_seed)
    obj = sc.base_shape(rng, cls, flavour)
    case = {"cls": cls, "flavour": flavour, "base_seed": int(base_seed), "ops": ops}
    size = sc.size_of(obj)
    for step, op in enumerate(ops):
        pre = sc.observe(obj)
        pre_v = np.array(obj.vertices, dtype=float)
        pre_ch = chirality(pre_v) if pre_v.shape[1] == 3 and cls in ("ConvexPolyhedron", "Polyhedron", "ConvexSpheropolyhedron") else 0.0
        opname = "%s.%s" % (cls, op[1] + ("=" if op[0].startswith("set") else "()"))
        try:
            apply_op(obj, op)
            raised = None
        except Exception as e:
            raised = e
        size = max(size, sc.size_of(obj)) if np.all(np.isfinite(np.asarray(obj.vertices, dtype=float))) else size
        if raised is not None:
            post = sc.observe(obj)
            diffs = sc.compare(pre, post, size)
            if diffs:
                ctx.fail("%s:raises-but-changes-shape" % opname,
                         "%s raised %s but left the shape changed (%s)" % (opname, exc_kind(raised), diffs[0][0]),
                         dict(case, step=step), [str(x)[:300] for x in diffs[0]])
                return
            if op[0] == "setbad" and not isinstance(raised, ValueError):
                pass  # C08 judges the exception type
            ctx.count("op-raised:" + exc_kind(raised))
            continue
        if op[0] == "setbad":
            # accepted a bad target: C08 reports that; here only coherence matters, but the geometry may be
            # degenerate so that no fresh shape exists -> stop the history
            ctx.count("bad-target-accepted")
            return
        try:
            fresh = sc.fresh_of(obj)
        except Exception as e:
            ctx.fail("%s:fresh-construction-fails" % opname,
                     "after %s the current vertices no longer construct a %s (%s)" % (opname, cls, exc_kind(e)),
                     dict(case, step=step), repr(e))
            return
        live = sc.observe(obj, np.random.default_rng([int(base_seed), step, len(ops)]))
        diffs = sc.compare(live, sc.observe(fresh), size)
        if diffs:
            ctx.fail("%s:stale:%s" % (opname, diffs[0][0]),
                     "after %s the observable %s differs from a freshly constructed shape" % (opname, diffs[0][0]),
                     dict(case, step=step), [str(x)[:400] for x in diffs[0]])
            return
        if op[1] == "diagonalize_inertia":
            v = np.array(obj.vertices, dtype=float)
            d0 = np.linalg.norm(pre_v[:, None] - pre_v[None], axis=-1)
            d1 = np.linalg.norm(v[:, None] - v[None], axis=-1)
            if not np.allclose(d0, d1, atol=1e-9 * size):
                ctx.fail("%s:not-rigid" % opname, "diagonalize_inertia changed inter-vertex distances", dict(case, step=step), "")
                return
            if pre_ch != 0 and chirality(v) != pre_ch:
                ctx.fail("%s:mirrors" % opname, "diagonalize_inertia mirrored the shape", dict(case, step=step), "")
                return
    return


MODELLED_CALLS = {"diagonalize_inertia", "to_hoomd"}


class _Recorder:
    """Temporarily wrap a property getter of a class (found along the MRO) to record what it returns."""

    def __init__(self, cls, name):
        self.owner = next(k for k in cls.__mro__ if name in k.__dict__)
        self.name = name
        self.orig = self.owner.__dict__[name]
        self.values = []

    def __enter__(self):
        orig, values = self.orig, self.values

        def fget(obj):
            v = orig.fget(obj)
            values.append(np.array(v, dtype=float, copy=True))
            return v
        setattr(self.owner, self.name, property(fget, orig.fset, orig.fdel, orig.__doc__))
        return self

    def __exit__(self, *exc):
        setattr(self.owner, self.name, self.orig)
        return False


class _EighRecorder:
    """Record the eigenvector matrix np.linalg.eigh returns (before the caller's in-place sign fix)."""

    def __enter__(self):
        self.P = None
        self.orig = np.linalg.eigh

        def eigh(a, *args, **kw):
            w, v = self.orig(a, *args, **kw)
            self.P = np.array(v, dtype=float, copy=True)
            return w, v
        np.linalg.eigh = eigh
        return self

    def __exit__(self, *exc):
        np.linalg.eigh = self.orig
        return False


def _row_parity(old, new):
    """+1: `new` is a cyclic rotation of the triple `old`; -1: a reflection; 0: neither."""
    a, b, c = (int(x) for x in old)
    new = tuple(int(x) for x in new)
    if new in ((a, b, c), (b, c, a), (c, a, b)):
        return 1
    if new in ((c, b, a), (b, a, c), (a, c, b)):
        return -1
    return 0


def _cp_tokens(o):
    from common import L
    heads = [[int(f[0]), int(f[1]), int(f[2])] for f in o.faces]
    simp = [[int(a), int(b), int(c)] for a, b, c in np.asarray(o.simplices)]
    return [L(list(np.array(o.vertices))), L(simp), L(heads), L(list(o._equations[:, :3])),
            L([float(x) for x in o._equations[:, 3]]), L(list(o._simplex_equations[:, :3])),
            L([float(x) for x in o._simplex_equations[:, 3]]), float(o._volume), float(o._area),
            np.array(o._centroid)]


def _cp_live(o):
    return {"vertices": np.array(o.vertices), "eqN": o._equations[:, :3], "eqD": o._equations[:, 3],
            "seqN": o._simplex_equations[:, :3], "seqD": o._simplex_equations[:, 3],
            "volume": o._volume, "area": o._area, "centroid": np.array(o._centroid)}


CP_DEG = {"vertices": 1, "eqN": 0, "eqD": 1, "seqN": 0, "seqD": 1, "volume": 3, "area": 2, "centroid": 1}


class _Take:
    def __init__(self, rest):
        self.rest, self.pos = rest, 0

    def __call__(self, k):
        out = np.array(self.rest[self.pos:self.pos + k], dtype=float)
        self.pos += k
        return out

    def cp(self, nv, nf, ns):
        return {"vertices": self(3 * nv).reshape(nv, 3), "eqN": self(3 * nf).reshape(nf, 3), "eqD": self(nf),
                "seqN": self(3 * ns).reshape(ns, 3), "seqD": self(ns), "volume": self(1)[0], "area": self(1)[0],
                "centroid": self(3)}


def _compare(ctx, opname, case, got, live, deg, size):
    for k in got:
        if not sc.num_close(got[k], live[k], size ** deg[k] if deg[k] else 1.0, 1e-9):
            ctx.disagree(opname + ":" + k, case, [np.asarray(got[k]).tolist(), np.asarray(live[k]).tolist()])
            return False
    return True


def _size_code(cls, name):
    """(opcode, extra) of a size setter in the class's state machine; None = not a modelled setter."""
    if cls in ("ConvexPolyhedron", "Polyhedron"):
        return {"volume": (0, "plain"), "surface_area": (1, "plain")}.get(name, (2, "cur"))
    if cls in ("Polygon", "ConvexPolygon"):
        return {"area": (0, "plain"), "perimeter": (1, "plain")}.get(name, (2, "cur"))
    if cls == "ConvexSpheropolygon":
        return {"area": (1, "plain"), "perimeter": (2, "plain")}.get(name)
    if cls == "ConvexSpheropolyhedron":
        return {"volume": (1, 3), "surface_area": (1, 2), "mean_curvature": (1, 1)}.get(name)
    return None


def model_history(ctx, base_seed, flavour, ops, cls="ConvexPolyhedron"):
    """B: the Lean state machines (Model/Mutable.lean, Model/Mutable2.lean) on the same history: the private
    attributes of the live object after the history must equal the state the driver computes from the initial
    private attributes, the same targets and the recorded external inputs (eigh matrix, re-oriented simplices,
    values of getters that are not closed forms of the model)."""
    from common import L
    rng = np.random.default_rng(base_seed)
    obj = sc.base_shape(rng, cls, flavour)
    case = {"cls": cls, "flavour": flavour, "base_seed": int(base_seed), "ops": ops, "model": True}
    core = obj.polyhedron if cls == "ConvexSpheropolyhedron" else obj   # where the CP caches live
    r0 = float(obj.radius) if cls == "ConvexSpheropolyhedron" else None
    if cls in ("ConvexPolyhedron", "ConvexSpheropolyhedron"):
        toks = _cp_tokens(core)
    elif cls == "Polyhedron":
        toks = [L(list(np.array(obj.vertices))), L([L([int(i) for i in f]) for f in obj.faces]),
                L(list(obj._equations[:, :3])), L([float(x) for x in obj._equations[:, 3]])]
    else:
        poly = obj.polygon if cls == "ConvexSpheropolygon" else obj
        toks = [L(list(np.array(poly._vertices))), np.array(poly._normal, dtype=float)]
        if cls == "ConvexSpheropolygon":
            toks.append(float(obj.radius))
    coded, expect = [], []
    hoomd = None
    for op in ops:
        kind, name, arg = op
        code = None
        if kind == "setvec":
            if cls == "ConvexPolyhedron":
                code = [3, np.array(arg, dtype=float)]
            elif cls in ("Polyhedron", "Polygon", "ConvexPolygon"):
                try:
                    cur = np.array(obj.centroid, dtype=float)
                except Exception:
                    return
                code = [3, cur, np.array(arg, dtype=float)]
        elif kind == "setabs":
            code = [0, float(arg)]
        elif kind in ("setfac", "setbad"):
            sc_ = _size_code(cls, name)
            try:
                cur = float(getattr(obj, name))
            except Exception:
                cur = None
            if sc_ is not None and cur is not None:
                tgt = cur * arg if kind == "setfac" else arg
                if sc_[1] == "plain":
                    code = [sc_[0], float(tgt)]
                elif sc_[1] == "cur":
                    code = [sc_[0], cur, float(tgt)]
                else:
                    code = [sc_[0], int(sc_[1]), cur, float(tgt)]
        elif kind == "call" and name not in MODELLED_CALLS:
            return
        # ---- run the step on the live object, recording the external inputs
        try:
            if kind == "call" and name == "diagonalize_inertia":
                if cls not in ("ConvexPolyhedron", "Polyhedron"):
                    return
                old_simp = np.array(obj.simplices) if cls == "ConvexPolyhedron" else None
                with _EighRecorder() as rec:
                    obj.diagonalize_inertia()
                P = rec.P
                if P is None:
                    return
                if not np.allclose(P.T @ P, np.eye(3), atol=1e-9):
                    ctx.disagree("contract:IsOrth", case, P.tolist())
                    return
                code = [4, P]
                if cls == "ConvexPolyhedron":
                    new_simp = np.array(obj.simplices)
                    par = {_row_parity(a, b) for a, b in zip(old_simp, new_simp)}
                    sv = float(np.sum(np.linalg.det(np.array(obj.vertices)[new_simp])) / 6)
                    if len(old_simp) != len(new_simp) or par not in ({1}, {-1}) or not sv >= 0:
                        ctx.disagree("contract:SortContract", case, [sorted(par), sv])
                        return
                    code.append(L([[int(x) for x in r] for r in new_simp]))
                ctx.count("model-op:diagonalize_inertia")
            elif kind == "call" and name == "to_hoomd":
                if cls in ("ConvexPolyhedron", "ConvexSpheropolyhedron"):
                    hoomd = obj.to_hoomd()
                    code = [5] if cls == "ConvexPolyhedron" else [2]
                else:
                    poly = obj.polygon if cls == "ConvexSpheropolygon" else obj
                    with _Recorder(type(poly), "centroid") as rec:
                        hoomd = obj.to_hoomd()
                    if len(rec.values) < 2:
                        ctx.disagree("to_hoomd:centroid-reads", case, len(rec.values))
                        return
                    c_first, c_last = rec.values[0], rec.values[-1]
                    if cls == "ConvexSpheropolygon":
                        code = [3, c_first, c_last]
                    else:
                        if not np.array_equal(rec.values[0], rec.values[1]):
                            ctx.disagree("to_hoomd:centroid-reads", case, [v.tolist() for v in rec.values[:2]])
                            return
                        code = [5 if cls == "Polyhedron" else 4, c_first, c_last]
                # snapshot: ConvexSpheropolygon.to_hoomd hands out the live vertex array (aliasing is C15/C19's
                # business), which later in-place mutations of the history would change
                hoomd = dict(hoomd, vertices=np.array(hoomd["vertices"], dtype=float, copy=True))
                ctx.count("model-op:to_hoomd")
            else:
                apply_op(obj, op)
            raised = None
        except ValueError as e:
            raised = e
        except Exception:
            if code is None:
                continue        # e.g. assigning `center` of a spheropoly*: no such step in the model, nothing changes
            return
        if code is None:
            if raised is not None:
                continue        # a setter whose getter raises (no such ball for this shape): not a modelled step
            return
        coded.append(code)
        expect.append(0 if raised is None else 1)
    if not coded:
        return
    opname = {"ConvexPolyhedron": "cpstate.run", "Polyhedron": "phstate.run", "Polygon": "pgstate.run",
              "ConvexPolygon": "pgstate.run", "ConvexSpheropolygon": "spgstate.run",
              "ConvexSpheropolyhedron": "sphstate.run"}[cls]
    if cls == "ConvexSpheropolyhedron":
        try:
            hcur = float(obj.polyhedron.mean_curvature)
        except Exception:
            return
        toks = toks + [r0, hcur]
    r = ctx.driver.F(opname, *toks, len(coded), *[x for c in coded for x in c])
    n = len(coded)
    log, take = r[:n], _Take(r[n:])
    ctx.count("model-histories")
    ctx.count("model-cls:" + cls)
    if list(log) != expect:
        ctx.disagree(opname + ":raise-pattern", case, [list(log), expect])
        return
    size = sc.size_of(obj)
    nv = len(obj.vertices)
    if cls in ("ConvexPolyhedron", "ConvexSpheropolyhedron"):
        nf, ns = len(core.faces), len(core.simplices)
        got = take.cp(nv, nf, ns)
        if not _compare(ctx, opname, case, got, _cp_live(core), CP_DEG, size):
            return
        if cls == "ConvexSpheropolyhedron":
            got2 = {"radius": take(1)[0], "volume": take(1)[0], "surface_area": take(1)[0],
                    "mean_curvature": take(1)[0]}
            live2 = {"radius": obj.radius, "volume": obj.volume, "surface_area": obj.surface_area,
                     "mean_curvature": obj.mean_curvature}
            size2 = size + float(obj.radius)
            if not _compare(ctx, opname, case, got2, live2,
                            {"radius": 1, "volume": 3, "surface_area": 2, "mean_curvature": 1}, size2):
                return
        hv = take(3 * nv).reshape(nv, 3)
        if hoomd is not None:
            hgot = {"hoomd.vertices": hv}
            hlive = {"hoomd.vertices": np.asarray(hoomd["vertices"], dtype=float)}
            hdeg = {"hoomd.vertices": 1}
            if cls == "ConvexPolyhedron":
                hgot.update({"hoomd.centroid": take(3), "hoomd.volume": take(1)[0]})
                hlive.update({"hoomd.centroid": np.asarray(hoomd["centroid"], dtype=float),
                              "hoomd.volume": float(hoomd["volume"])})
                hdeg.update({"hoomd.centroid": 1, "hoomd.volume": 3})
            _compare(ctx, opname, case, hgot, hlive, hdeg, size)
        return
    if cls == "Polyhedron":
        nf = len(obj.faces)
        got = {"vertices": take(3 * nv).reshape(nv, 3), "eqN": take(3 * nf).reshape(nf, 3), "eqD": take(nf),
               "volume": take(1)[0], "surface_area": take(1)[0]}
        live = {"vertices": np.array(obj.vertices), "eqN": obj._equations[:, :3], "eqD": obj._equations[:, 3],
                "volume": obj.volume, "surface_area": obj.surface_area}
        deg = {"vertices": 1, "eqN": 0, "eqD": 1, "volume": 3, "surface_area": 2}
        if not _compare(ctx, opname, case, got, live, deg, size):
            return
        hv = take(3 * nv).reshape(nv, 3)
        if hoomd is not None:
            _compare(ctx, opname, case, {"hoomd.vertices": hv},
                     {"hoomd.vertices": np.asarray(hoomd["vertices"], dtype=float)}, {"hoomd.vertices": 1}, size)
        return
    poly = obj.polygon if cls == "ConvexSpheropolygon" else obj
    got = {"vertices": take(3 * nv).reshape(nv, 3), "normal": take(3)}
    live = {"vertices": np.array(poly._vertices), "normal": np.array(poly._normal, dtype=float)}
    deg = {"vertices": 1, "normal": 0, "radius": 1, "area": 2, "perimeter": 1}
    if cls == "ConvexSpheropolygon":
        got["radius"] = take(1)[0]
        live["radius"] = obj.radius
        size = size + float(obj.radius)
    got.update({"area": take(1)[0], "perimeter": take(1)[0]})
    live.update({"area": obj.area, "perimeter": obj.perimeter})
    if not _compare(ctx, opname, case, got, live, deg, size):
        return
    hv = take(3 * nv).reshape(nv, 3)
    if hoomd is not None:
        hl = np.asarray(hoomd["vertices"], dtype=float)
        _compare(ctx, opname, case, {"hoomd.vertices": hv[:, :hl.shape[1]]}, {"hoomd.vertices": hl},
                 {"hoomd.vertices": 1}, size)


def modelled(cls, ops):
    """histories the state machines cover: everything except merge_faces / sort_faces."""
    return all(o[0] != "call" or o[1] in MODELLED_CALLS for o in ops)


def run(ctx):
    rng = ctx.rng
    quick = ctx.tier == "quick"
    for cls in sc.VERTEX_CLASSES:
        for flavour in (("regular", "generic", "triangulated", "triangulated-shuffled") if cls == "Polyhedron"
                        else ("regular", "generic")):
            base_seed = int(rng.integers(1 << 30))
            probe = sc.base_shape(np.random.default_rng(base_seed), cls, flavour)
            alpha = alphabet(probe)
            seqs = [[concretise(rng, a)] for a in alpha]
            pairs = list(itertools.product(alpha, repeat=2))
            if quick:
                idx = rng.choice(len(pairs), size=min(len(pairs), int(14 * ctx.widen)), replace=False)
                pairs = [pairs[i] for i in idx]
            seqs += [[concretise(rng, a), concretise(rng, b)] for a, b in pairs]
            n3 = 0 if quick else int(60 * ctx.widen)
            for _ in range(n3):
                seqs.append([concretise(rng, alpha[int(rng.integers(len(alpha)))]) for _ in range(3)])
            nwalk = (1 if quick else 6) * int(ctx.widen)
            for _ in range(nwalk):
                ln = int(rng.integers(8, 14)) if quick else int(rng.integers(30, 80))
                seqs.append([concretise(rng, alpha[int(rng.integers(len(alpha)))]) for _ in range(ln)])
            for ops in seqs:
                case = {"cls": cls, "flavour": flavour, "base_seed": base_seed, "ops": ops}
                ctx.case(case)
                ctx.count("cls:" + cls)
                ctx.count("len:%d" % min(len(ops), 4))
                run_history(ctx, cls, flavour, base_seed, ops)
                if modelled(cls, ops):
                    model_history(ctx, base_seed, flavour, ops, cls)
            if cls in ("ConvexPolyhedron", "Polyhedron") and flavour == "generic":
                # the handedness of the eigh result depends on the shape: more base shapes for diagonalize_inertia
                # (alone, after another diagonalize, and followed by a size setter and to_hoomd)
                for _ in range(int((8 if quick else 40) * ctx.widen)):
                    bs = int(rng.integers(1 << 30))
                    for ops in ([["call", "diagonalize_inertia", None]],
                                [["call", "diagonalize_inertia", None], ["setfac", "volume", 1.7],
                                 ["call", "to_hoomd", None], ["call", "diagonalize_inertia", None]]):
                        case = {"cls": cls, "flavour": flavour, "base_seed": bs, "ops": ops}
                        ctx.case(case)
                        ctx.count("cls:" + cls)
                        ctx.count("extra-diagonalize")
                        run_history(ctx, cls, flavour, bs, ops)
                        model_history(ctx, bs, flavour, ops, cls)
            if cls == "Polyhedron" and flavour == "triangulated-shuffled":
                # merge_faces / sort_faces depend on accidents of labelling and face order (global flip needed or not,
                # start face): more base shapes, with every cached observable read before AND after (run_history does)
                for _ in range(int((10 if quick else 60) * ctx.widen)):
                    bs = int(rng.integers(1 << 30))
                    for ops in ([["call", "merge_faces", None]],
                                [["call", "sort_faces", None], ["call", "merge_faces", None], ["setfac", "volume", 0.5]],
                                [["setfac", "surface_area", 2.0], ["call", "merge_faces", None], ["call", "to_hoomd", None],
                                 ["call", "sort_faces", None]]):
                        case = {"cls": cls, "flavour": flavour, "base_seed": bs, "ops": ops}
                        ctx.case(case)
                        ctx.count("cls:" + cls)
                        ctx.count("extra-merge")
                        run_history(ctx, cls, flavour, bs, ops)
            if cls.startswith("ConvexSphero"):
                # the rounding-radius guard (negative / nan refused, zero accepted) and a rescale after it
                for extra in ([["setabs", "radius", -1.0]], [["setabs", "radius", float("nan")]],
                              [["setabs", "radius", 0.0], ["setfac", "perimeter" if cls.endswith("gon") else "volume", 2.0]]):
                    model_history(ctx, base_seed, flavour, extra, cls)


def replay(ctx, payload):
    case = payload.get("case", payload)
    ctx.case(case)
    if not case.get("model"):
        run_history(ctx, case["cls"], case["flavour"], case["base_seed"], case["ops"])
    if modelled(case["cls"], case["ops"]):
        model_history(ctx, case["base_seed"], case["flavour"], case["ops"], case["cls"])
