"""C01 — convex polyhedron volume, area, centroid, inertia are exact; order independent."""
from fractions import Fraction

import numpy as np

import gen
from common import L, ModelRaise, exc_kind

RULE = ("convex vertex sets from gen.convex_solid (ellipsoid/lattice/zonotope/box/prism/antiprism/(di)pyramid/"
        "needle/plate/simplex; random rigid motion, offset <=10 diameters, scale 1e-3..1e3, permuted) plus tabulated "
        "solids; distinct = distinct vertex arrays; non-trivial = >=4 vertices in convex position")
ASSUMPTIONS = [
    "exact integrals over conv(V) are taken to be the sums of tetrahedron closed forms (Spec/Solid.lean) over the cone "
    "tetrahedralisation of an independently computed hull, evaluated exactly over Q by the driver",
    "accuracy clause: |impl - exact| <= 1e-9 * natural scale ((diam+|offset|)^k)",
    "Qhull's hull.area is an input of the model (contract: equals the model's own triangle-area sum, checked per case)",
    "hypotheses of the exactness theorems (cp_measures_exact_checked) are checked per case, exactly over Q, by the "
    "driver op chain.check on the implementation's own simplices S and the cone Ts over S from the vertex mean: "
    "chainCheck(S, boundary of Ts) [sound: chainCheck_rat_sound], every simplex non-degenerate, vol(Ts) > 0; a false "
    "answer is recorded as a contract failure. The cone is taken over S itself (not over the independent hull) because "
    "two correct triangulations of a non-triangular facet may use different diagonals and then differ as chains; "
    "how often the independent hull is chain-equal to S is counted (chain:indep-hull-*)",
]


def tri_tokens(tris):
    return L([np.asarray(t, dtype=float) for t in tris])


def observe(v, ctx=None):
    import coxeter
    import history
    from common import read_shuffled
    p = coxeter.shapes.ConvexPolyhedron(v)
    # a third of the cases: the same polyhedron reached through a history (scaled, shifted copy; everything read once;
    # size and centroid setters), and always: the measures read in an order drawn per case
    p, how = history.maybe_via_history(p, history.rng_for(v), 0.33, ctx)
    obs, _order = read_shuffled({
        "volume": lambda: float(p.volume),
        "area": lambda: float(p.surface_area),
        "centroid": lambda: np.array(p.centroid, dtype=float),
        "inertia": lambda: np.array(p.inertia_tensor, dtype=float),
        "face_areas": lambda: np.array(p.get_face_area(), dtype=float),
        "face_centroids": lambda: np.array(p.face_centroids, dtype=float),
        "total_area": lambda: float(p.get_face_area("total")),
    }, np.asarray(v, dtype=float).tolist())
    return p, obs


def eval_case(ctx, case):
    v = np.array(case["vertices"], dtype=float)
    d = gen.diameter(v)
    off = float(np.linalg.norm(v.mean(axis=0)))
    Ls = d + off
    try:
        p, obs = observe(v, ctx)
    except Exception as e:  # a valid convex set must construct
        ctx.fail("ConvexPolyhedron.__init__:raises", "constructor raised %s on a set in convex position" % exc_kind(e),
                 case, repr(e))
        return
    # ---------------- B: model (Float) on the implementation's own triangles
    S = p.vertices[p.simplices]
    try:
        r = ctx.driver.F("cp.measures", tri_tokens(S))
    except ModelRaise as e:
        ctx.disagree("cp.measures", case, "model raised " + e.kind)
        return
    m_sv, m_vol, m_cen, m_area, m_I = r[0], r[1], np.array(r[2:5]), r[5], np.array(r[6:15]).reshape(3, 3)
    if not ctx.close_enough(obs["volume"], m_vol, Ls ** 3):
        ctx.disagree("cp.measures:volume", case, [obs["volume"], m_vol])
    if not ctx.close_enough(obs["centroid"], m_cen, Ls):
        ctx.disagree("cp.measures:centroid", case, [obs["centroid"], m_cen])
    if not ctx.close_enough(obs["inertia"], m_I, Ls ** 2 * d ** 3):
        ctx.disagree("cp.measures:inertia", case, [obs["inertia"], m_I])
    if not ctx.close_enough(obs["area"], m_area, d ** 2, tol=1e-9):
        ctx.contract_failures.append({"contract": "hull.area == sum of simplex areas", "got": [obs["area"], m_area]})
        ctx.disagree("cp.measures:area", case, [obs["area"], m_area])
    if not ctx.close_enough(obs["total_area"], m_area, d ** 2):
        ctx.disagree("cp.face_area_total", case, [obs["total_area"], m_area])
    for k, simp_ids in enumerate(p._coplanar_simplices):
        fr = ctx.driver.F("cp.face", tri_tokens(S[simp_ids]))
        if not ctx.close_enough(obs["face_areas"][k], fr[0], d ** 2):
            ctx.disagree("cp.face:area", case, [k, obs["face_areas"][k], fr[0]])
        if not ctx.close_enough(obs["face_centroids"][k], np.array(fr[1:4]), Ls):
            ctx.disagree("cp.face:centroid", case, [k, obs["face_centroids"][k], fr[1:4]])
    # list / int / total forms of get_face_area
    nf = len(p.faces)
    sel = [0, nf - 1]
    fa_list = np.array(p.get_face_area(sel), dtype=float)
    fa_one = float(p.get_face_area(nf - 1))
    if not (ctx.close_enough(fa_list, obs["face_areas"][sel], d ** 2)
            and ctx.close_enough(fa_one, obs["face_areas"][nf - 1], d ** 2)):
        ctx.fail("ConvexPolyhedron.get_face_area:forms", "get_face_area(list/int) disagrees with get_face_area(None)",
                 case, [fa_list, fa_one])

    # ---------------- contract: the hypotheses of the exactness theorems, decided exactly (Q) for THIS run's S.
    # Ts = cone over the implementation's own simplices from the vertex mean ("S bounds the cone over S", true iff S is
    # a closed oriented surface: cone_closed); chainCheck is sound for ChainEq (chainCheck_rat_sound).
    apex = p.vertices.mean(axis=0)
    ts_impl = [np.array([apex, t[0], t[1], t[2]]) for t in S]
    ck = ctx.driver.Q("chain.check", tri_tokens(S), L(ts_impl))
    hyp = {"chainCheck(S, bdry cone(S))": bool(ck[0]), "closedCheck(S)": bool(ck[1]),
           "nondegCheck(S)": bool(ck[2]), "vol(cone(S)) > 0": bool(ck[3] > 0)}
    ctx.count("chain:hypotheses-checked")
    if all(hyp.values()):
        ctx.count("chain:hypotheses-hold")
    else:
        ctx.count("chain:hypotheses-FAIL")
        ctx.contract_failures.append({"contract": "hypotheses of cp_measures_exact_checked on the implementation's "
                                                  "simplices (exact, Q)", "got": hyp,
                                      "vertices": v.tolist() if len(v) <= 12 else len(v)})

    # ---------------- C: implementation vs exact spec (Q) over an independent tetrahedralisation
    tets, tris, hull = gen.cone_tets(v)
    # does the independent hull triangulate every facet like the implementation does? (informative only:
    # different diagonals inside a non-triangular facet are both right)
    same = ctx.driver.Q("chain.check", tri_tokens(S), L([np.asarray(t) for t in tets]))[0]
    ctx.count("chain:indep-hull-chain-equal" if same else "chain:indep-hull-other-diagonals")
    q = ctx.driver.Q("spec.solid", L([np.asarray(t) for t in tets]))
    vol = q[0]
    cen = np.array([float(x) for x in q[19:22]])
    I = np.array([float(x) for x in q[10:19]]).reshape(3, 3)
    if not ctx.close_enough(obs["volume"], float(vol), Ls ** 3):
        ctx.fail("ConvexPolyhedron.volume:value", "volume differs from the exact integral", case,
                 [obs["volume"], float(vol)])
    if not ctx.close_enough(obs["centroid"], cen, Ls):
        ctx.fail("ConvexPolyhedron.centroid:value", "centroid differs from the exact integral", case,
                 [obs["centroid"], cen])
    if not ctx.close_enough(obs["inertia"], I, Ls ** 2 * d ** 3):
        ctx.fail("ConvexPolyhedron.inertia_tensor:value", "inertia tensor differs from the exact integral", case,
                 [obs["inertia"], I])
    # areas: independent facets = groups of hull simplices with equal plane (1e-9), area = |sum of area vectors|
    exact_area = float(sum(np.linalg.norm(np.cross(t[1] - t[0], t[2] - t[0])) / 2 for t in tris))
    if not ctx.close_enough(obs["area"], exact_area, d ** 2):
        ctx.fail("ConvexPolyhedron.surface_area:value", "surface area differs from the hull's area", case,
                 [obs["area"], exact_area])
    if not ctx.close_enough(obs["total_area"], exact_area, d ** 2):
        ctx.fail("ConvexPolyhedron.get_face_area:total", "get_face_area('total') differs from the hull's area", case,
                 [obs["total_area"], exact_area])
    facets = independent_facets(v, hull)
    # map every implementation face to the independent facet containing its vertices
    sums = {}
    cents = {}
    for k, face in enumerate(p.faces):
        key = None
        fs = set(int(i) for i in face)
        for fk, (vs, area, cent) in facets.items():
            if fs <= vs:
                key = fk
                break
        if key is None:
            ctx.fail("ConvexPolyhedron.faces:not-a-facet", "a face is not contained in any hull facet", case,
                     [k, sorted(fs)])
            return
        sums[key] = sums.get(key, 0.0) + obs["face_areas"][k]
        cents.setdefault(key, []).append((obs["face_areas"][k], obs["face_centroids"][k]))
    for fk, (vs, area, cent) in facets.items():
        if not ctx.close_enough(sums.get(fk, 0.0), area, d ** 2):
            ctx.fail("ConvexPolyhedron.get_face_area:value", "per-face areas differ from the facet's exact area", case,
                     [sorted(vs), sums.get(fk, 0.0), area])
            break
        ws = cents.get(fk, [])
        if ws:
            c = sum(a * cc for a, cc in ws) / sum(a for a, _ in ws)
            if not ctx.close_enough(c, cent, Ls):
                ctx.fail("ConvexPolyhedron.face_centroids:value", "face centroid differs from the facet's centroid",
                         case, [sorted(vs), c, cent])
                break

    # ---------------- order independence (implementation metamorphic, exactness tolerance)
    perm = np.array(case.get("perm") or list(reversed(range(len(v)))))
    try:
        p2, obs2 = observe(v[perm])
        # informative: is the surface built from the permuted input the same 2-chain (same diagonals in every facet)?
        same2 = ctx.driver.Q("chain.eq", tri_tokens(S), tri_tokens(p2.vertices[p2.simplices]))[0]
        ctx.count("chain:permuted-input-chain-equal" if same2 else "chain:permuted-input-other-diagonals")
        same = (ctx.close_enough(obs["volume"], obs2["volume"], Ls ** 3)
                and ctx.close_enough(obs["area"], obs2["area"], d ** 2)
                and ctx.close_enough(obs["centroid"], obs2["centroid"], Ls)
                and ctx.close_enough(obs["inertia"], obs2["inertia"], Ls ** 2 * d ** 3)
                and ctx.close_enough(np.sort(obs["face_areas"]), np.sort(obs2["face_areas"]), d ** 2))
        if not same:
            ctx.fail("ConvexPolyhedron:order-dependence", "measures depend on the order of the input points", case,
                     [obs["volume"], obs2["volume"]])
    except Exception as e:
        ctx.fail("ConvexPolyhedron.__init__:raises", "constructor raised on a permutation of a valid set", case, repr(e))


def independent_facets(v, hull):
    """facets of the hull: {id: (vertex index set, area, centroid)} from scipy's hull, merged at 1e-9."""
    groups = []
    for simp, eq in zip(hull.simplices, hull.equations):
        for g in groups:
            if np.all(np.abs(g["eq"] - eq) < 1e-9 * max(1.0, abs(eq[3]))):
                g["simps"].append(simp)
                break
        else:
            groups.append({"eq": eq, "simps": [simp]})
    out = {}
    for gi, g in enumerate(groups):
        vs = set(int(i) for s in g["simps"] for i in s)
        n = g["eq"][:3]
        av = np.zeros(3)
        cw = np.zeros(3)
        tot = 0.0
        for s in g["simps"]:
            a, b, c = v[s]
            cr = np.cross(b - a, c - a) / 2
            ar = abs(np.dot(cr, n))
            tot += ar
            cw += ar * (a + b + c) / 3
        out[gi] = (vs, tot, cw / tot)
    return out


def make_case(rng, ctx):
    v, info = gen.convex_solid(rng)
    ctx.count("kind:" + info["kind"])
    ctx.count("rotated" if info["rotated"] else "axis-aligned")
    ctx.count("offset>0" if info["offset_diams"] > 0 else "offset=0")
    ctx.count("scale!=1" if info["scale"] != 1.0 else "scale=1")
    if rng.random() < 0.2:
        # far ends of the size range, by an exact power of two (the rational oracle stays exact): a measure that is
        # right at unit size and wrong for tiny or huge solids (an absolute epsilon in a normalisation, say) shows here
        k = int(rng.integers(15, 31)) * (1 if rng.random() < 0.5 else -1)
        v = v * (2.0 ** k)
        info = dict(info, pow2=k)
        ctx.count("extreme-size:2^%s" % ("+" if k > 0 else "-"))
    return {"vertices": v.tolist(), "info": info, "perm": rng.permutation(len(v)).tolist()}


def run(ctx):
    n = ctx.budget(60, 1500)
    for _ in range(n):
        case = make_case(ctx.rng, ctx)
        ctx.case(case)
        eval_case(ctx, case)
    tabs = gen.tabulated_solids()
    if ctx.tier == "quick" and ctx.widen == 1:
        idx = ctx.rng.choice(len(tabs), size=12, replace=False)
        tabs = [tabs[i] for i in idx]
    for fam, name, v in tabs:
        v2, info = gen.place(ctx.rng, v, scale=1.0)
        case = {"vertices": v2.tolist(), "info": dict(info, kind="tabulated:" + fam, name=name)}
        ctx.count("kind:tabulated")
        ctx.case(case)
        eval_case(ctx, case)


def replay(ctx, payload):
    case = payload.get("case", payload)
    ctx.case(case)
    eval_case(ctx, case)
