"""C01 — convex polyhedron volume, area, centroid, inertia are exact; order independent."""
from fractions import Fraction

import numpy as np

import gen
from common import L, ModelRaise, exc_kind

RULE = ("convex vertex sets from gen.convex_solid (ellipsoid/lattice/zonotope/box/prism/antiprism/(di)pyramid/"
        "needle/plate/simplex; random rigid motion, offset <=10 diameters, scale 1e-3..1e3, permuted), thin solids "
        "(needles / flats of aspect 1e-3..1e-6: axis aligned and centred, (nearly) rotated, offset), lattice polytopes "
        "and zonotopes with coordinates perturbed by 1e-16.5..1e-6 (nearly coplanar facets), zonotopes with 6-7 "
        "generators, sizes 2^+-15..30, plus tabulated solids; a third of the cases reached through mutators; a third "
        "followed through a random history of size / centroid setters; distinct = distinct vertex arrays; "
        "non-trivial = >=4 vertices in convex position")
ASSUMPTIONS = [
    "exact integrals over conv(V) are taken to be the sums of tetrahedron closed forms (Spec/Solid.lean) over the cone "
    "tetrahedralisation of an independently computed hull, evaluated exactly over Q by the driver",
    "accuracy clause: |impl - exact| <= 1e-9 * natural scale ((diam+|offset|)^k)",
    "Qhull's hull.area is an input of the model (contract: equals the model's own triangle-area sum, checked per case)",
    "hypotheses of the exactness theorems (cp_measures_exact_checked) are checked per case, exactly over Q, by the "
    "driver op chain.check on the implementation's own simplices S and the cone Ts over S from the vertex mean: "
    "chainCheck(S, boundary of Ts) [sound: chainCheck_rat_sound], every simplex non-degenerate, vol(Ts) > 0, every "
    "tetrahedron of Ts positively oriented [tets.positive: hypothesis of cp_measures_lebesgue_checked]; a false "
    "answer is recorded as a contract failure. The cone is taken over S itself (not over the independent hull) because "
    "two correct triangulations of a non-triangular facet may use different diagonals and then differ as chains; "
    "how often the independent hull is chain-equal to S is counted (chain:indep-hull-*)",
    "the tetrahedron closed forms the Q oracle evaluates are theorems (Lemmas/SolidIntegral.lean: they are the iterated "
    "integrals of 1, x_i, x_i x_j over the tetrahedron)",
    "thin solids: the natural scale of volume / inertia is sharpened to min(Ls^3, 8 Ls A) (A = surface area: the "
    "cancellation in a signed-tetrahedron sum is bounded by lever x area); axis-aligned centred thin solids are "
    "compared RELATIVELY per component (volume, area, every face area, principal moments) at 1e-9, with the slack "
    "64 eps V |c|^2 for the cancellation inside utils.translate_inertia_tensor (|d|^2 - d_i^2), which is within the "
    "normwise conditioning of the input",
    "Qhull contract per case: hull.volume and hull.area of scipy's hull of the same array equal the model's "
    "signed-tetrahedron volume / triangle-area sum on the implementation's simplices (hull.volume is overwritten by "
    "_calculate_signed_volume before it can be read, hull.area is what surface_area returns)",
    "histories: the model (CPH.construct / CPH.step, Float) is run on the same operations as the implementation "
    "(correspondence after every step, raising setters included) and the implementation's values after the history "
    "are compared with the exact Q oracle on its final vertices; hypothesis of cp_history_exact (a radius getter "
    "returns a positive number) is checked per operation",
    "face groups: CP.combineSimplices (Float) on scipy's hull.equations is compared with _coplanar_simplices of a "
    "freshly built object, and CP.groupsPartition (hypothesis of cp_surface_area_eq_sum_faces_checked) is evaluated on "
    "the implementation's groups; a non-partition is a recorded contract failure (the per-face oracle judges it)",
]

EPS = 2.0 ** -52


def tri_tokens(tris):
    return L([np.asarray(t, dtype=float) for t in tris])


def observe(v, ctx=None, p_hist=0.33):
    import coxeter
    import history
    from common import read_shuffled
    p = coxeter.shapes.ConvexPolyhedron(v)
    # a third of the cases: the same polyhedron reached through a history (scaled, shifted copy; everything read once;
    # size and centroid setters), and always: the measures read in an order drawn per case
    p, how = history.maybe_via_history(p, history.rng_for(v), p_hist, ctx)
    obs, _order = read_shuffled({
        "volume": lambda: float(p.volume),
        "area": lambda: float(p.surface_area),
        "centroid": lambda: np.array(p.centroid, dtype=float),
        "inertia": lambda: np.array(p.inertia_tensor, dtype=float),
        "face_areas": lambda: np.array(p.get_face_area(), dtype=float),
        "face_centroids": lambda: np.array(p.face_centroids, dtype=float),
        "total_area": lambda: float(p.get_face_area("total")),
    }, np.asarray(v, dtype=float).tolist())
    return p, obs


def thinness(v):
    """(sigma_2/sigma_1, sigma_3/sigma_1) of the centred vertex cloud: small second ratio = needle, small third = flat"""
    sv = np.linalg.svd(np.asarray(v, dtype=float) - np.mean(v, axis=0), compute_uv=False)
    return float(sv[1] / sv[0]), float(sv[2] / sv[0])


THIN = 3e-3


def rho_thin(v, Ls, vol, aligned):
    """relative accuracy the implementation's formulas deliver on a THIN solid (sigma_3/sigma_1 < 3e-3), 0 otherwise:
    64 eps Ls^3 / V for the determinant volume the centroid is divided by, plus 64 eps (sigma_1/sigma_2)^2 for the cross
    product normals of a needle that is not axis aligned (known finding, notes/C01.md)"""
    a2, a3 = thinness(v)
    if a3 >= THIN:
        return 0.0
    r_ = 64 * EPS * Ls ** 3 / max(abs(vol), 1e-300)
    if a2 < THIN and not aligned:
        r_ += 64 * EPS / a2 ** 2
    return r_


def eval_case(ctx, case):
    v = np.array(case["vertices"], dtype=float)
    info = case.get("info", {})
    d = gen.diameter(v)
    off = float(np.linalg.norm(v.mean(axis=0)))
    Ls = d + off
    thin_aligned = bool(info.get("thin_aligned"))
    needle_rot = str(info.get("kind", "")).startswith("thin:needle:") and not thin_aligned
    try:
        p, obs = observe(v, ctx, 0.0 if thin_aligned else 0.33)
    except Exception as e:  # a valid convex set must construct
        ctx.fail("ConvexPolyhedron.__init__:raises", "constructor raised %s on a set in convex position" % exc_kind(e),
                 case, repr(e))
        return
    # the object's CURRENT vertices (equal to the case's up to a few roundings when it was reached through mutators):
    # the exact oracle integrates over their hull
    pv = np.array(p.vertices, dtype=float)
    tets, tris, hull = gen.cone_tets(pv)
    exact_area = float(sum(np.linalg.norm(np.cross(t[1] - t[0], t[2] - t[0])) / 2 for t in tris))
    sV = Ls ** 3
    sI = Ls ** 2 * d ** 3
    # thin solids (generated needles / flats): what the implementation's formulas deliver in double precision is
    # limited by two cancellations (see notes/C01.md, known finding): the signed-tetrahedron volume is a sum of 3x3
    # determinants of vertex coordinates, accurate to ~eps Ls^3, i.e. only to eps Ls^3 / V RELATIVE to the volume, and
    # the centroid divides by it; for a needle that is not axis aligned the simplex normals (cross products in the
    # global frame) lose their component along the needle, ~eps (L/t)^2.  `rho` is that relative loss (0 for every
    # other kind of solid): deviations beyond 1e-9 x scale but within rho x scale are reported as the KNOWN FINDING,
    # beyond it as a VIOLATION.
    rho = rho_thin(pv, Ls, float(hull.volume), thin_aligned)
    if rho > 0:
        ctx.count("thin:geometrically-thin")
    tC = (1e-9 + rho) * Ls
    # ---------------- B: model (Float) on the implementation's own triangles
    S = p.vertices[p.simplices]
    try:
        r = ctx.driver.F("cp.measures", tri_tokens(S))
    except ModelRaise as e:
        ctx.disagree("cp.measures", case, "model raised " + e.kind)
        return
    m_sv, m_vol, m_cen, m_area, m_I = r[0], r[1], np.array(r[2:5]), r[5], np.array(r[6:15]).reshape(3, 3)
    if not ctx.close_enough(obs["volume"], m_vol, sV):
        ctx.disagree("cp.measures:volume", case, [obs["volume"], m_vol])
    tI = 1e-9 * sI + 4 * rho * abs(m_vol) * Ls ** 2
    # B only: the Float run of the model evaluates the 3x3 determinants by cofactors (LAPACK's LU in the implementation
    # is more accurate): its own volume is good to ~eps Ls^3, and its centroid divides by it
    rhoB = 64 * EPS * Ls ** 3 / max(abs(m_vol), 1e-300)
    if not ctx.close_enough(obs["centroid"], m_cen, tC + rhoB * Ls, tol=1.0):
        ctx.disagree("cp.measures:centroid", case, [obs["centroid"], m_cen])
    if not ctx.close_enough(obs["inertia"], m_I, tI + 4 * rhoB * abs(m_vol) * Ls ** 2, tol=1.0):
        ctx.disagree("cp.measures:inertia", case, [obs["inertia"], m_I])
    if not ctx.close_enough(obs["area"], m_area, d ** 2, tol=1e-9):
        ctx.contract_failures.append({"contract": "hull.area == sum of simplex areas", "got": [obs["area"], m_area]})
        ctx.disagree("cp.measures:area", case, [obs["area"], m_area])
    if not ctx.close_enough(obs["total_area"], m_area, d ** 2):
        ctx.disagree("cp.face_area_total", case, [obs["total_area"], m_area])
    for k, simp_ids in enumerate(p._coplanar_simplices):
        fr = ctx.driver.F("cp.face", tri_tokens(S[simp_ids]))
        fa_scale = abs(fr[0]) if thin_aligned else d ** 2
        if not ctx.close_enough(obs["face_areas"][k], fr[0], fa_scale):
            ctx.disagree("cp.face:area", case, [k, obs["face_areas"][k], fr[0]])
        if not ctx.close_enough(obs["face_centroids"][k], np.array(fr[1:4]), Ls):
            ctx.disagree("cp.face:centroid", case, [k, obs["face_centroids"][k], fr[1:4]])
    if thin_aligned:
        # the same formulas in the same order: the Float model agrees component by component
        ok = abs(obs["volume"] - m_vol) <= 1e-9 * abs(m_vol) and abs(obs["area"] - m_area) <= 1e-9 * m_area
        slack = 64 * EPS * m_vol * float(np.dot(m_cen, m_cen))
        for a in range(3):
            for b in range(3):
                ok = ok and abs(obs["inertia"][a, b] - m_I[a, b]) <= 1e-9 * np.sqrt(abs(m_I[a, a] * m_I[b, b])) + slack
        if not ok:
            ctx.disagree("cp.measures:relative:thin-aligned", case, [obs["volume"], m_vol, obs["inertia"], m_I])
    # list / int / total forms of get_face_area
    nf = len(p.faces)
    sel = [nf - 1, 0, nf // 2, 0]        # unsorted, with a repetition: one value per requested index, in that order
    fa_list = np.array(p.get_face_area(sel), dtype=float)
    fa_one = float(p.get_face_area(nf - 1))
    if not (ctx.close_enough(fa_list, obs["face_areas"][sel], d ** 2)
            and ctx.close_enough(fa_one, obs["face_areas"][nf - 1], d ** 2)):
        ctx.fail("ConvexPolyhedron.get_face_area:forms", "get_face_area(list/int) disagrees with get_face_area(None)",
                 case, [fa_list, fa_one])

    # ---------------- contract: the hypotheses of the exactness theorems, decided exactly (Q) for THIS run's S.
    # Ts = cone over the implementation's own simplices from the vertex mean ("S bounds the cone over S", true iff S is
    # a closed oriented surface: cone_closed); chainCheck is sound for ChainEq (chainCheck_rat_sound).
    apex = p.vertices.mean(axis=0)
    ts_impl = [np.array([apex, t[0], t[1], t[2]]) for t in S]
    ck = ctx.driver.Q("chain.check", tri_tokens(S), L(ts_impl))
    # posTetsCheck: every cone tetrahedron positively oriented (hypothesis of cp_measures_lebesgue_checked: the
    # integrals are then Lebesgue integrals over the tetrahedra as subsets of R^3, without orientation signs)
    pos = bool(ctx.driver.Q("tets.positive", L(ts_impl))[0])
    hyp = {"chainCheck(S, bdry cone(S))": bool(ck[0]), "closedCheck(S)": bool(ck[1]),
           "nondegCheck(S)": bool(ck[2]), "vol(cone(S)) > 0": bool(ck[3] > 0), "posTetsCheck(cone(S))": pos}
    ctx.count("chain:hypotheses-checked")
    if all(hyp.values()):
        ctx.count("chain:hypotheses-hold")
    else:
        ctx.count("chain:hypotheses-FAIL")
        ctx.contract_failures.append({"contract": "hypotheses of cp_measures_exact_checked on the implementation's "
                                                  "simplices (exact, Q)", "got": hyp,
                                      "vertices": v.tolist() if len(v) <= 12 else len(v)})
    # the partition hypothesis of cp_surface_area_eq_sum_faces_checked on the implementation's face groups
    groups = [[int(i) for i in g] for g in p._coplanar_simplices]
    part = bool(ctx.driver.F("cp.partition", len(S), L([L(g) for g in groups]))[0])
    ctx.count("faces:groups-partition" if part else "faces:groups-NOT-a-partition")
    if not part:
        ctx.contract_failures.append({"contract": "_coplanar_simplices is a partition of the simplices",
                                      "got": groups if len(groups) <= 20 else len(groups),
                                      "vertices": v.tolist() if len(v) <= 12 else len(v)})
    # Qhull contract: hull.volume / hull.area (scipy's hull of the same array) vs the model's own sums
    if not ctx.close_enough(float(hull.volume), m_vol, sV):
        ctx.contract_failures.append({"contract": "hull.volume == |signed-tetrahedron sum|",
                                      "got": [float(hull.volume), m_vol]})
    if not ctx.close_enough(float(hull.area), m_area, d ** 2):
        ctx.contract_failures.append({"contract": "hull.area == sum of simplex areas (scipy hull)",
                                      "got": [float(hull.area), m_area]})

    # ---------------- C: implementation vs exact spec (Q) over an independent tetrahedralisation
    # does the independent hull triangulate every facet like the implementation does? (informative only:
    # different diagonals inside a non-triangular facet are both right)
    same = ctx.driver.Q("chain.check", tri_tokens(S), L([np.asarray(t) for t in tets]))[0]
    ctx.count("chain:indep-hull-chain-equal" if same else "chain:indep-hull-other-diagonals")
    q = ctx.driver.Q("spec.solid", L([np.asarray(t) for t in tets]))
    vol = q[0]
    cen = np.array([float(x) for x in q[19:22]])
    I = np.array([float(x) for x in q[10:19]]).reshape(3, 3)
    if not ctx.close_enough(obs["volume"], float(vol), sV):
        ctx.fail("ConvexPolyhedron.volume:value", "volume differs from the exact integral", case,
                 [obs["volume"], float(vol)])
    if not ctx.close_enough(obs["centroid"], cen, Ls):
        if rho > 0 and ctx.close_enough(obs["centroid"], cen, tC, tol=1.0) and ctx.close_enough(m_cen, cen, tC, tol=1.0):
            # KNOWN FINDING: within the cancellation bound of the formulas, and the Float model (same formulas) is off
            # by the same order
            ctx.fail("ConvexPolyhedron.centroid:accuracy:thin-solid", "centroid of a thin solid differs from the exact "
                     "integral by more than 1e-9 of the size (cancellation in the determinant volume / in the cross "
                     "products)", case, [obs["centroid"], cen, info.get("aspect"), rho])
            ctx.count("thin:centroid-accuracy-finding")
        else:
            ctx.fail("ConvexPolyhedron.centroid:value", "centroid differs from the exact integral", case,
                     [obs["centroid"], cen])
    if not ctx.close_enough(obs["inertia"], I, tI, tol=1.0):
        ctx.fail("ConvexPolyhedron.inertia_tensor:value", "inertia tensor differs from the exact integral", case,
                 [obs["inertia"], I])
    Vf = float(vol)
    if thin_aligned:
        # axis-aligned, centred needle / flat: every principal moment, the volume, the area against its OWN size
        bad = []
        if abs(obs["volume"] - Vf) > 1e-9 * Vf:
            bad.append(["volume", obs["volume"], Vf])
        if abs(obs["area"] - exact_area) > 1e-9 * exact_area:
            bad.append(["area", obs["area"], exact_area])
        slack = 64 * EPS * Vf * float(np.dot(cen, cen))
        for a in range(3):
            for b in range(3):
                if abs(obs["inertia"][a, b] - I[a, b]) > 1e-9 * np.sqrt(abs(I[a, a] * I[b, b])) + slack:
                    bad.append(["inertia", a, b, float(obs["inertia"][a, b]), float(I[a, b])])
        if bad:
            ctx.fail("ConvexPolyhedron:relative:thin-aligned", "a measure of an axis-aligned centred needle / flat "
                     "differs from the exact integral relative to its own size", case, bad)
    # areas: independent facets = groups of hull simplices with equal plane (1e-9), area = |sum of area vectors|
    if not ctx.close_enough(obs["area"], exact_area, d ** 2):
        ctx.fail("ConvexPolyhedron.surface_area:value", "surface area differs from the hull's area", case,
                 [obs["area"], exact_area])
    if not ctx.close_enough(obs["total_area"], exact_area, d ** 2):
        ctx.fail("ConvexPolyhedron.get_face_area:total", "get_face_area('total') differs from the hull's area", case,
                 [obs["total_area"], exact_area])
    facets = independent_facets(pv, hull)
    # map every implementation face to the independent facet containing its vertices
    sums, cents, stray = facet_sums(p, obs, facets)
    if stray is not None:
        ctx.fail("ConvexPolyhedron.faces:not-a-facet", "a face is not contained in any hull facet", case, stray)
        return
    for fk, (vs, area, cent) in facets.items():
        if not ctx.close_enough(sums.get(fk, 0.0), area, area if thin_aligned else d ** 2):
            ctx.fail("ConvexPolyhedron.get_face_area:value", "per-face areas differ from the facet's exact area", case,
                     [sorted(vs), sums.get(fk, 0.0), area])
            break
        ws = cents.get(fk, [])
        if ws:
            c = sum(a * cc for a, cc in ws) / sum(a for a, _ in ws)
            if not ctx.close_enough(c, cent, Ls):
                ctx.fail("ConvexPolyhedron.face_centroids:value", "face centroid differs from the facet's centroid",
                         case, [sorted(vs), c, cent])
                break

    # ---------------- _combine_simplices: the model's grouping on Qhull's equations vs a freshly built object
    check_combine(ctx, case, v)

    # ---------------- the state part: a random history of mutators, model and implementation side by side
    if case.get("history"):
        check_history(ctx, case, v)

    # ---------------- order independence (implementation metamorphic, exactness tolerance)
    perm = np.array(case.get("perm") or list(reversed(range(len(v)))))
    try:
        p2, obs2 = observe(v[perm], None, 0.0 if thin_aligned else 0.33)
        # informative: is the surface built from the permuted input the same 2-chain (same diagonals in every facet)?
        same2 = ctx.driver.Q("chain.eq", tri_tokens(S), tri_tokens(p2.vertices[p2.simplices]))[0]
        ctx.count("chain:permuted-input-chain-equal" if same2 else "chain:permuted-input-other-diagonals")
        same = (ctx.close_enough(obs["volume"], obs2["volume"], sV)
                and ctx.close_enough(obs["area"], obs2["area"], d ** 2)
                and ctx.close_enough(obs["centroid"], obs2["centroid"], 2 * tC, tol=1.0)
                and ctx.close_enough(obs["inertia"], obs2["inertia"], 2 * tI, tol=1.0)
                )
        # per-face areas: facet by facet (a nearly coplanar facet may come out as one face for one order and as two for
        # another: the facets, merged at 1e-9, are what does not depend on the order)
        sums2, _c2, stray2 = facet_sums(p2, obs2, facets, relabel=perm)
        same = same and stray2 is None and all(
            ctx.close_enough(sums.get(fk, 0.0), sums2.get(fk, 0.0), area if thin_aligned else d ** 2)
            for fk, (_vs, area, _cent) in facets.items())
        if thin_aligned:
            same = same and abs(obs["volume"] - obs2["volume"]) <= 1e-9 * obs["volume"] and all(
                abs(obs["inertia"][a, a] - obs2["inertia"][a, a]) <= 1e-9 * abs(obs["inertia"][a, a])
                + 64 * EPS * obs["volume"] * float(np.dot(obs["centroid"], obs["centroid"])) for a in range(3))
        if not same:
            ctx.fail("ConvexPolyhedron:order-dependence", "measures depend on the order of the input points", case,
                     [obs["volume"], obs2["volume"]])
    except Exception as e:
        ctx.fail("ConvexPolyhedron.__init__:raises", "constructor raised on a permutation of a valid set", case, repr(e))


def check_combine(ctx, case, v):
    """`_combine_simplices` (tolerance 2e-15 on Qhull's equations): CP.combineSimplices at Float on scipy's
    hull.equations of the same array against `_coplanar_simplices` of a freshly built object (Qhull is deterministic:
    the constructor saw the same equations)."""
    import coxeter
    from scipy.spatial import ConvexHull
    try:
        p0 = coxeter.shapes.ConvexPolyhedron(v)
    except Exception:
        return          # judged above
    h = ConvexHull(np.array(v, dtype=float))
    eqs = L([np.asarray(e, dtype=float) for e in h.equations])
    mg = ctx.driver.F("cp.combine", eqs, 2e-15)
    # parse the length-prefixed groups
    it = iter(mg)
    n = next(it)
    model_groups = []
    for _ in range(n):
        k = next(it)
        model_groups.append([next(it) for _ in range(k)])
    impl_groups = [[int(i) for i in g] for g in p0._coplanar_simplices]
    ctx.count("combine:checked")
    if model_groups != impl_groups:
        # rows with an equal first index come out of Python's set in an unspecified order: compare as sets then
        if sorted(map(tuple, model_groups)) == sorted(map(tuple, impl_groups)):
            ctx.count("combine:same-groups-other-order")
        else:
            ctx.disagree("cp.combine", case, [impl_groups if len(impl_groups) <= 30 else len(impl_groups),
                                              model_groups if len(model_groups) <= 30 else len(model_groups)])
    ngroups = len(impl_groups)
    if ngroups < len(h.simplices):
        ctx.count("combine:merged-faces")
    flat = sorted(i for g in impl_groups for i in g)
    if flat != list(range(len(h.simplices))):
        ctx.count("combine:overlapping-groups")


RADII = ("minimal_centered_bounding_sphere_radius", "maximal_centered_bounded_sphere_radius")


def draw_history(rng, n_ops=None):
    """a list of JSON-able operations; targets are relative factors resolved against the live object"""
    ops = []
    for _ in range(n_ops or int(rng.integers(1, 5))):
        k = int(rng.integers(0, 6))
        if k == 0:
            ops.append({"op": "volume", "factor": float(np.exp(rng.uniform(-3, 3)))})
        elif k == 1:
            ops.append({"op": "surface_area", "factor": float(np.exp(rng.uniform(-2, 2)))})
        elif k == 2:
            ops.append({"op": RADII[int(rng.integers(2))], "factor": float(np.exp(rng.uniform(-1, 1)))})
        elif k in (3, 4):
            # target in units of the CURRENT diameter, |target| <= 10 diameters (the property's placement class)
            t = rng.normal(size=3)
            t *= float(min(10.0, np.exp(rng.uniform(-3, 2.3)))) / float(np.linalg.norm(t))
            ops.append({"op": "centroid" if rng.random() < 0.7 else "center", "to": t.tolist(), "relative": True})
        else:
            # a refused target: the object must stay as it is
            ops.append({"op": ["volume", "surface_area", RADII[0]][int(rng.integers(3))],
                        "factor": [0.0, -1.0][int(rng.integers(2))]})
    return ops


def measures_of(p, order_key, aligned=False):
    from common import read_shuffled
    obs, _ = read_shuffled({
        "volume": lambda: float(p.volume),
        "area": lambda: float(p.surface_area),
        "centroid": lambda: np.array(p.centroid, dtype=float),
        "inertia": lambda: np.array(p.inertia_tensor, dtype=float),
        "total_area": lambda: float(p.get_face_area("total")),
        "face_sum": lambda: float(np.sum(p.get_face_area())),
    }, order_key)
    pv = np.array(p.vertices, dtype=float)
    obs["diam"] = gen.diameter(pv)
    obs["L"] = obs["diam"] + float(np.linalg.norm(pv.mean(axis=0)))
    obs["rho"] = rho_thin(pv, obs["L"], obs["volume"], aligned)
    # an independent reference for EVERY step of a history (the exact Q oracle judges the last one): tetrahedra from the
    # vertex mean over scipy's hull of the current vertices, accurate to ~1e-12 of the size also for thin solids
    try:
        tets, _tris, _h = gen.cone_tets(pv)
        T = np.array(tets)
        m = T[:, 0]
        dets = np.linalg.det(T[:, 1:] - m[:, None, :])
        obs["ref_volume"] = float(np.sum(dets) / 6)
        obs["ref_centroid"] = m[0] + np.sum(dets[:, None] * np.sum(T[:, 1:] - m[:, None, :], axis=1), axis=0) / (4 * np.sum(dets))
    except Exception:  # noqa: BLE001
        obs["ref_volume"] = None
    return obs


def check_history(ctx, case, v):
    """The state part of the property: `_consume_hull`, `_rescale`, `centroid.setter`.  The same operations are applied
    to a fresh object and to the model (CPH.construct / CPH.step at Float, one driver call); after EVERY step the
    getters are compared (B), and after the last step the implementation is compared with the exact Q oracle on its
    final vertices (C): whatever is cached and updated incrementally must describe the current solid."""
    import coxeter
    from scipy.spatial import ConvexHull
    try:
        p = coxeter.shapes.ConvexPolyhedron(v)
    except Exception:
        return
    h = ConvexHull(np.array(v, dtype=float))
    verts0 = np.array(p.vertices, dtype=float)
    simplices = np.array(p.simplices, dtype=int)
    toks = [L([x for x in verts0]), L([[int(a), int(b), int(c)] for a, b, c in simplices]),
            float(h.volume), float(h.area)]
    optoks = []
    aligned0 = bool(case.get("info", {}).get("thin_aligned"))
    impl = [(False, measures_of(p, [0] + verts0.tolist(), aligned0))]
    ctx.count("history:cases")
    for k, op in enumerate(case["history"]):
        name = op["op"]
        raised = False
        if name in ("centroid", "center"):
            d0 = gen.diameter(np.array(p.vertices))
            target = np.array(op["to"], dtype=float) * (d0 if op.get("relative") else 1.0)
            optoks += [3, target]
            try:
                setattr(p, name, target)
            except Exception as e:  # noqa: BLE001
                ctx.fail("ConvexPolyhedron.centroid.setter:raises", "the centroid setter raised %s" % exc_kind(e),
                         case, [k, op])
                return
        else:
            try:
                cur = float(getattr(p, name))
            except Exception as e:  # noqa: BLE001
                kind = str(case.get("info", {}).get("kind", ""))
                if kind.startswith("thin:") and isinstance(e, ValueError) and "centroid is not contained" in str(e):
                    # consequence of the known finding: the reported centroid of a thin solid lies outside it
                    ctx.fail("ConvexPolyhedron.centroid:accuracy:thin-solid", "maximal_centered_bounded_sphere "
                             "refuses a thin solid: its reported centroid is outside the solid", case, [k, op, repr(e)])
                    ctx.count("thin:centroid-accuracy-finding")
                else:
                    ctx.fail("ConvexPolyhedron.%s:raises" % name, "a radius getter raised %s on a convex polyhedron"
                             % exc_kind(e), case, [k, op, repr(e)])
                return
            target = cur * op["factor"]
            if name == "volume":
                optoks += [0, target]
            elif name == "surface_area":
                optoks += [1, target]
            else:
                optoks += [2, cur, target]
                if not cur > 0:
                    ctx.contract_failures.append({"contract": "a radius getter returns a positive number "
                                                              "(MOp.Valid, hypothesis of cp_history_exact)",
                                                  "got": [name, cur]})
            try:
                setattr(p, name, target)
            except ValueError:
                raised = True
            except Exception as e:  # noqa: BLE001
                ctx.fail("ConvexPolyhedron.%s.setter:raises" % name, "the setter raised %s" % exc_kind(e), case, [k, op])
                return
        ctx.count("history:op:%s%s" % ("radius" if name in RADII else name, ":refused" if raised else ""))
        impl.append((raised, measures_of(p, [k + 1] + verts0.tolist(), aligned0)))
    try:
        r = ctx.driver.F("cp.history", *toks, len(case["history"]), *optoks)
    except ModelRaise as e:
        ctx.disagree("cp.history", case, "model raised " + e.kind)
        return
    # parse: measures (14 doubles), then per op: flag + 14 doubles
    pos = 0
    model = []
    for k in range(len(impl)):
        flag = False
        if k > 0:
            flag = bool(r[pos])
            pos += 1
        m = r[pos:pos + 14]
        pos += 14
        model.append((flag, {"volume": m[0], "area": m[1], "centroid": np.array(m[2:5]),
                             "inertia": np.array(m[5:14]).reshape(3, 3)}))
    info = case.get("info", {})
    aligned = bool(info.get("thin_aligned"))
    rk = 0.0
    for k, ((ri, oi), (rm, om)) in enumerate(zip(impl, model)):
        if ri != rm:
            ctx.disagree("cp.history:raises", case, [k, ri, rm])
            return
        Lk, dk = oi["L"], oi["diam"]
        # the stored volume is carried along incrementally: the loss of an earlier, farther placement stays in it
        rk = max(rk, oi["rho"])
        rB = rk + 64 * EPS * Lk ** 3 / max(abs(om["volume"]), 1e-300)     # Float model's own determinants, see eval_case
        if oi["ref_volume"] is not None and 0 < k < len(impl) - 1:
            # C at the intermediate steps (the last one is judged by the exact oracle below)
            if not (ctx.close_enough(oi["volume"], oi["ref_volume"], Lk ** 3)
                    and ctx.close_enough(oi["centroid"], oi["ref_centroid"], (1e-9 + rk) * Lk, tol=1.0)):
                ctx.fail("ConvexPolyhedron:history:step", "in the middle of a history of setters the stored volume / "
                         "centroid differ from the integrals over the current solid", case,
                         [k, oi["volume"], oi["ref_volume"], oi["centroid"], oi["ref_centroid"]])
                return
        if not (ctx.close_enough(oi["volume"], om["volume"], Lk ** 3)
                and ctx.close_enough(oi["area"], om["area"], (1e-9 + rB) * dk ** 2, tol=1.0)
                and ctx.close_enough(oi["total_area"], oi["area"], dk ** 2)
                and ctx.close_enough(oi["face_sum"], oi["area"], dk ** 2)
                and ctx.close_enough(oi["centroid"], om["centroid"], (1e-9 + rB) * Lk, tol=1.0)
                and ctx.close_enough(oi["inertia"], om["inertia"],
                                     1e-9 * Lk ** 2 * dk ** 3 + 4 * rB * abs(om["volume"]) * Lk ** 2, tol=1.0)):
            ctx.disagree("cp.history:step", case, [k, {a: oi[a] for a in ("volume", "area", "centroid", "inertia")}, om])
            break
    # C: after the history, the getters against the exact integrals over the hull of the CURRENT vertices
    pv = np.array(p.vertices, dtype=float)
    try:
        tets, tris, hull = gen.cone_tets(pv)
    except Exception as e:  # noqa: BLE001
        ctx.fail("ConvexPolyhedron:history:vertices", "the vertices after the history have no hull", case, repr(e))
        return
    dd = gen.diameter(pv)
    Lh = dd + float(np.linalg.norm(pv.mean(axis=0)))
    area = float(sum(np.linalg.norm(np.cross(t[1] - t[0], t[2] - t[0])) / 2 for t in tris))
    q = ctx.driver.Q("spec.solid", L([np.asarray(t) for t in tets]))
    cen = np.array([float(x) for x in q[19:22]])
    I = np.array([float(x) for x in q[10:19]]).reshape(3, 3)
    rh = max(rk, rho_thin(pv, Lh, float(q[0]), aligned))
    last = impl[-1][1]
    bad = []
    if not ctx.close_enough(last["volume"], float(q[0]), Lh ** 3):
        bad.append(["volume", last["volume"], float(q[0])])
    if not ctx.close_enough(last["area"], area, (1e-9 + rh) * dd ** 2, tol=1.0):
        bad.append(["surface_area", last["area"], area])
    if not ctx.close_enough(last["total_area"], area, dd ** 2):
        bad.append(["get_face_area('total')", last["total_area"], area])
    if not ctx.close_enough(last["face_sum"], area, dd ** 2):
        bad.append(["sum(get_face_area())", last["face_sum"], area])
    if not ctx.close_enough(last["centroid"], cen, (1e-9 + rh) * Lh, tol=1.0):
        bad.append(["centroid", last["centroid"], cen])
    elif not ctx.close_enough(last["centroid"], cen, Lh):
        ctx.fail("ConvexPolyhedron.centroid:accuracy:thin-solid", "centroid of a thin solid after a history differs "
                 "from the exact integral by more than 1e-9 of the size (cancellation in the determinant volume / in "
                 "the cross products)", case, [last["centroid"], cen, thinness(pv), rh])
        ctx.count("thin:centroid-accuracy-finding")
    if not ctx.close_enough(last["inertia"], I, 1e-9 * Lh ** 2 * dd ** 3 + 4 * rh * abs(float(q[0])) * Lh ** 2, tol=1.0):
        bad.append(["inertia_tensor", last["inertia"], I])
    if bad:
        ctx.fail("ConvexPolyhedron:history:%s" % bad[0][0], "after a history of setters a cached / incrementally updated "
                 "measure differs from the exact integral over the current solid", case, bad)
    # the centroid setter lands where it was told to (cp_setCentroid_exact), when it was the last operation
    lastop = case["history"][-1]
    if lastop["op"] in ("centroid", "center"):
        tgt = np.array(optoks[-1], dtype=float)
        if not ctx.close_enough(last["centroid"], tgt, (1e-9 + rh) * Lh, tol=1.0):
            ctx.fail("ConvexPolyhedron.centroid.setter:target", "after centroid = c the centroid is not c", case,
                     [last["centroid"], tgt])


def facet_sums(p, obs, facets, relabel=None):
    """per independent facet: the sum of the reported areas of the implementation's faces inside it and the list of
    (area, centroid) of those faces; `relabel[i]` = label in `facets` of the object's vertex i.
    Third value: a face that lies in no facet (None when all do)."""
    sums = {}
    cents = {}
    for k, face in enumerate(p.faces):
        key = None
        fs = set(int(i) if relabel is None else int(relabel[int(i)]) for i in face)
        # the facet that contains the face's vertices; among several (nearly coplanar neighbours) the one whose
        # centroid is nearest to the face's reported centroid
        cands = [fk for fk, (vs, area, cent) in facets.items() if fs <= vs]
        if cands:
            key = min(cands, key=lambda fk: float(np.linalg.norm(facets[fk][2] - obs["face_centroids"][k])))
        if key is None:
            return sums, cents, [k, sorted(fs)]
        sums[key] = sums.get(key, 0.0) + obs["face_areas"][k]
        cents.setdefault(key, []).append((obs["face_areas"][k], obs["face_centroids"][k]))
    return sums, cents, None


def independent_facets(v, hull):
    """facets of the hull: {id: (vertex index set, area, centroid)} from scipy's hull, merged at 1e-9 (unit normals
    absolutely, offsets relative to the size of the point set)."""
    groups = []
    size = float(np.max(np.abs(v))) + 1e-300
    tol = np.array([1e-9, 1e-9, 1e-9, 1e-9 * size])
    for simp, eq in zip(hull.simplices, hull.equations):
        for g in groups:
            if np.all(np.abs(g["eq"] - eq) < tol):
                g["simps"].append(simp)
                break
        else:
            groups.append({"eq": eq, "simps": [simp]})
    out = {}
    for gi, g in enumerate(groups):
        vs = set(int(i) for s in g["simps"] for i in s)
        n = g["eq"][:3]
        av = np.zeros(3)
        cw = np.zeros(3)
        tot = 0.0
        for s in g["simps"]:
            a, b, c = v[s]
            cr = np.cross(b - a, c - a) / 2
            ar = abs(np.dot(cr, n))
            tot += ar
            cw += ar * (a + b + c) / 3
        out[gi] = (vs, tot, cw / tot)
    return out


# --------------------------------------------------------------------------- generators of this property


def _base_in_convex_position(rng, kinds, margin=1e-4, tries=40):
    for _ in range(tries):
        kind, v0 = gen.convex_base(rng, kinds[int(rng.integers(len(kinds)))])
        if len(v0) >= 4 and len(v0) <= 40 and gen.in_convex_position(v0, margin=margin):
            return kind, v0
    kind, v0 = gen.convex_base(rng, "box")
    return kind, v0


def thin_solid(rng):
    """needles and flats of aspect 1e-3 .. 1e-6.  Convex position is decided on the O(1) base shape (margin 1e-4 of its
    diameter) and is preserved by the diagonal scaling.  Placements: `aligned` (axis aligned, centred on the centroid
    of a centrally symmetric base: relative per-component comparison), `rotated` (random or near-axis rotation, no
    offset), `offset` (aspect >= 1e-4 only, |offset| up to 10 diameters: the first moment of a thinner solid that far
    out is not determined to 1e-9 by double coordinates)."""
    placement = ["aligned", "rotated", "offset"][int(rng.integers(3))]
    sym = ["box", "prism", "lattice", "zonotope"]
    kind, v0 = _base_in_convex_position(rng, sym if placement == "aligned" else sym + ["ellipsoid", "antiprism",
                                                                                       "pyramid", "dipyramid"])
    lo = 4.0 if placement == "offset" else 6.0
    asp = float(10 ** -rng.uniform(3.0, lo))
    if rng.random() < 0.5:
        asp = float(2.0 ** np.round(np.log2(asp)))      # exact power of two: the scaled coordinates stay exact
    shape = "needle" if rng.random() < 0.5 else "flat"
    sc = np.ones(3)
    axes = rng.permutation(3)
    if shape == "needle":
        sc[axes[0]] = asp
        sc[axes[1]] = asp * float(np.exp(rng.uniform(0, 1)))
    else:
        sc[axes[0]] = asp
    v = v0 * sc
    info = {"kind": "thin:%s:%s" % (shape, placement), "base": kind, "aspect": asp, "n": len(v),
            "rotated": placement != "aligned", "offset_diams": 0.0, "scale": 1.0}
    if placement == "aligned":
        info["thin_aligned"] = True
    else:
        R = gen.near_axis_rotation(rng) if rng.random() < 0.4 else gen.random_rotation(rng)
        v = v @ R.T
        if placement == "offset":
            dirn = rng.normal(size=3)
            dirn /= np.linalg.norm(dirn)
            info["offset_diams"] = float(rng.uniform(0, 10))
            v = v + dirn * info["offset_diams"] * gen.diameter(v)
    v = v[rng.permutation(len(v))]
    return v, info


def perturbed_lattice(rng):
    """many exactly coplanar facets made NEARLY coplanar: a lattice polytope / zonotope / prism whose coordinates are
    perturbed by 1e-16.5 .. 1e-6 of the diameter (the smallest perturbations round away on some coordinates).  Qhull
    either merges such facets (one face of slightly non-planar simplices) or keeps them apart (equations that differ by
    about the 2e-15 of `_combine_simplices`): the tolerance path of the face grouping."""
    kind, v0 = _base_in_convex_position(rng, ["lattice", "zonotope", "prism", "box", "dipyramid"], margin=1e-3)
    d = gen.diameter(v0)
    mag = float(10 ** -rng.uniform(6.0, 16.5)) * d
    v = v0 + rng.uniform(-1, 1, size=v0.shape) * mag
    if rng.random() < 0.5:
        v = v @ gen.random_rotation(rng).T
    if rng.random() < 0.3:
        dirn = rng.normal(size=3)
        dirn /= np.linalg.norm(dirn)
        v = v + dirn * float(rng.uniform(0, 3)) * d
    v = v[rng.permutation(len(v))]
    return v, {"kind": "perturbed:" + kind, "perturbation": mag / d, "n": len(v), "rotated": True,
               "offset_diams": 0.0, "scale": 1.0}


def big_zonotope(rng):
    """zonotope with 6-7 integer generators: up to 42 facets, all of them parallelograms or larger zones of exactly
    coplanar simplices"""
    import itertools
    for _ in range(20):
        g = rng.integers(-3, 4, size=(int(rng.integers(6, 8)), 3)).astype(float)
        g = g[np.any(g != 0, axis=1)]
        if len(g) < 3 or np.linalg.matrix_rank(g) < 3:
            continue
        pts = np.array([np.array(sg) @ g for sg in itertools.product([-1, 1], repeat=len(g))])
        v = gen.hull_vertices_only(pts)
        if 8 <= len(v) <= 60 and gen.in_convex_position(v):
            v, info = gen.place(rng, v)
            info.update(kind="zonotope-big", n=len(v))
            return v, info
    return gen.convex_solid(rng, "zonotope")


def make_case(rng, ctx):
    u = rng.random()
    if u < 0.55:
        v, info = gen.convex_solid(rng)
    elif u < 0.75:
        v, info = thin_solid(rng)
    elif u < 0.90:
        v, info = perturbed_lattice(rng)
    else:
        v, info = big_zonotope(rng)
    ctx.count("kind:" + info["kind"])
    ctx.count("rotated" if info["rotated"] else "axis-aligned")
    ctx.count("offset>0" if info["offset_diams"] > 0 else "offset=0")
    ctx.count("scale!=1" if info["scale"] != 1.0 else "scale=1")
    if rng.random() < 0.2:
        # far ends of the size range, by an exact power of two (the rational oracle stays exact): a measure that is
        # right at unit size and wrong for tiny or huge solids (an absolute epsilon in a normalisation, say) shows here
        k = int(rng.integers(15, 31)) * (1 if rng.random() < 0.5 else -1)
        v = v * (2.0 ** k)
        info = dict(info, pow2=k)
        ctx.count("extreme-size:2^%s" % ("+" if k > 0 else "-"))
    case = {"vertices": v.tolist(), "info": info, "perm": rng.permutation(len(v)).tolist()}
    if rng.random() < 0.34:
        case["history"] = draw_history(rng)
    return case


def fixed_cases():
    """minimised inputs kept from earlier findings (evaluated in every run)"""
    # the known finding (centroid of a needle that is not axis aligned): 5 points, aspect 1e-6, rotated by the rational
    # rotation [[1,2,2],[2,1,-2],[2,-2,1]]/3.  Reported centroid [0.01388895, 0.02777776, 0.02777762], exact
    # [0.01388885, 0.02777769, 0.02777788]: 2.6e-7, a quarter of the thickness.
    R = np.array([[1, 2, 2], [2, 1, -2], [2, -2, 1]]) / 3.0
    v = (np.array([[1, 0, 0], [-1, 0, 0], [0, 1, .25], [0, -.5, 1], [.25, -1, -1]]) * [1, 1e-6, 1e-6]) @ R.T
    yield {"vertices": v.tolist(), "perm": [4, 2, 0, 3, 1],
           "info": {"kind": "thin:needle:rotated", "aspect": 1e-6, "n": 5, "rotated": True, "offset_diams": 0.0,
                    "scale": 1.0, "fixed": "needle-centroid"}}
    # a frustum-like solid with trapezoid faces through a history that resizes by a radius setter (r2-C01-2's pattern)
    v = np.array([[2, 2, 0], [2, -2, 0], [-2, 2, 0], [-2, -2, 0], [1, 1, 3], [1, -1, 3], [-1, 1, 3], [-1, -1, 3]], float)
    yield {"vertices": (v + [3.0, -2.0, 1.0]).tolist(), "perm": [7, 6, 5, 4, 3, 2, 1, 0],
           "history": [{"op": "minimal_centered_bounding_sphere_radius", "factor": 0.5},
                       {"op": "centroid", "to": [0.5, -1.5, 2.0], "relative": True},
                       {"op": "maximal_centered_bounded_sphere_radius", "factor": 3.0}],
           "info": {"kind": "fixed:frustum", "n": 8, "rotated": False, "offset_diams": 0.6, "scale": 1.0}}


def run(ctx):
    for case in fixed_cases():
        ctx.count("kind:" + case["info"]["kind"])
        ctx.case(case)
        eval_case(ctx, case)
    n = ctx.budget(60, 1500)
    for _ in range(n):
        case = make_case(ctx.rng, ctx)
        ctx.case(case)
        eval_case(ctx, case)
    tabs = gen.tabulated_solids()
    if ctx.tier == "quick" and ctx.widen == 1:
        idx = ctx.rng.choice(len(tabs), size=12, replace=False)
        tabs = [tabs[i] for i in idx]
    for fam, name, v in tabs:
        v2, info = gen.place(ctx.rng, v, scale=1.0)
        case = {"vertices": v2.tolist(), "info": dict(info, kind="tabulated:" + fam, name=name)}
        if ctx.rng.random() < 0.25:
            case["history"] = draw_history(ctx.rng)
        ctx.count("kind:tabulated")
        ctx.case(case)
        eval_case(ctx, case)


def replay(ctx, payload):
    case = payload.get("case", payload)
    ctx.case(case)
    eval_case(ctx, case)
