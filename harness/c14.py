"""C14 — distance_to_surface is the radial distance from the centre to the boundary.

B (correspondence): the Lean model (Model/DistToSurface.lean) run at Float on the implementation's
   own stored vertices / centre / kabsch block, against `shape.distance_to_surface(angles)`.
C (oracle): the implementation against the specification
   * ConvexPolygon: `Spec.polyCentroid` + `Spec.rayExit` evaluated exactly over Q by the driver;
   * ConvexSpheropolygon: closed-form ray / offset-segment / vertex-circle intersection from the
     exact core centroid, plus the defining residual  dist(c + d u, core) = r;
   * Ellipse / Circle: x^2/a^2 + y^2/b^2 = 1 at centre + d (cos, sin) and the polar closed form.
History: a third of the shapes are reached through mutators (harness/history.py); on EVERY case the query is
   repeated after 0..3 public setters (size, centre, radius, axes) and judged on the object's current geometry.
Certificate: the hypotheses of `cpoly_dts_correct(_cw)` (strictly convex ccw, centre strictly inside) are decided
   exactly over Q on the stored vertices / centre and on the spheropolygon's kernel polygon (op `c14.hyp`).
Repaired finding (known_findings.d/C14.json, fixed in /repo 5df35a1): nan / lost digits inside the arc range of a
   vertex for rounding radius 0 or tiny; the witness is a fixed case and radii 0 / 10^[-12,-3] core sizes are
   generated, all judged at the normal tolerance.
"""
import math
from fractions import Fraction

import numpy as np

from common import L, InfraError, ModelRaise, exc_kind

RULE = ("convex polygons in the xy-plane: regular n-gons, irregular (points on a rotated ellipse, lattice hulls), "
        "axis-aligned (chamfered boxes / right triangles / trapezoids with exactly horizontal and vertical edges), "
        "3-30 vertices; rotation none / exact quarter turns / almost axis-aligned (tilt 1e-9..3e-2 rad) / arbitrary; "
        "offset 0..10 diameters; scale 1, 10^[-3,3] or an end of the range (1e-3, 1e3); input order ccw / cw / "
        "shuffled; (N,2) or (N,3) input; rounding radius 0, 10^[-12,-3] or 10^[-3,1] core diameters; ellipses a<b and "
        "a>b alternating, a=b, ratio up to 1e3, arbitrary centres; per shape: angles uniform in [-4pi,4pi] + exact "
        "vertex directions (+2 pi k) + arc end directions + their one-ulp neighbours + multiples of pi/4 (all 33 of "
        "them for ellipses); every shape fresh or reached through mutators, then queried again after 0..3 public "
        "setters. distinct = distinct (shape, angle array); non-trivial = every case (>= 3 vertices or a,b > 0, "
        ">= 20 angles)")
ASSUMPTIONS = [
    "shapes lie in the xy-plane (z = 0); the in-plane 2x2 block of rowan.mapping.kabsch's rotation is an input of "
    "the model (contract: identity for the +z normal the code passes; checked per case)",
    "ConvexPolygon(new_verts) inside ConvexSpheropolygon.distance_to_surface keeps the order of the already convex "
    "offset vertices (contract checked per case); Qhull convexity test is outside the model",
    "np.mod is modelled as x - floor(x/y)*y (its documented meaning)",
    "accuracy clause: |impl - exact| <= 1e-9 * (max centre-vertex distance + r); 1e-7 relative where |cos theta| < "
    "1e-6 (tan branch) — both far below any algebraic error",
    "the exact polygon centroid is the triangle-fan area centroid (Spec.polyCentroid) evaluated over Q",
    "after mutators the oracle is evaluated on the object's current vertices / radius / axes (the property speaks "
    "about the current shape); with no mutator in between, on the case's geometry",
]

TWO_PI = 2 * math.pi

# --------------------------------------------------------------------------- generators


def _dedupe(pts):
    out = []
    for p in pts:
        if not out or (abs(p[0] - out[-1][0]) > 0 or abs(p[1] - out[-1][1]) > 0):
            out.append(p)
    if len(out) > 1 and out[0][0] == out[-1][0] and out[0][1] == out[-1][1]:
        out.pop()
    return out


def _strictly_convex_ccw(p, margin=1e-6):
    p = np.asarray(p, dtype=float)
    n = len(p)
    if n < 3:
        return False
    d = np.max(np.linalg.norm(p[:, None, :] - p[None, :, :], axis=-1))
    for i in range(n):
        a, b, c = p[i - 1], p[i], p[(i + 1) % n]
        e1, e2 = b - a, c - b
        cr = e1[0] * e2[1] - e1[1] * e2[0]
        # turning "height": distance of b from chord a-c
        ch = np.linalg.norm(c - a)
        if ch == 0 or cr / ch < margin * d:
            return False
    # simple winding: total turning is one revolution for a convex ccw polygon
    ang = 0.0
    for i in range(n):
        e1 = p[i] - p[i - 1]
        e2 = p[(i + 1) % n] - p[i]
        ang += math.atan2(e1[0] * e2[1] - e1[1] * e2[0], e1[0] * e2[0] + e1[1] * e2[1])
    return abs(ang - TWO_PI) < 1e-6


def base_polygon(rng):
    """(kind, ccw vertices (n,2)) of size O(1) around the origin."""
    kinds = ["regular", "ellipse", "axis-octagon", "axis-right-triangle", "axis-trapezoid", "rectangle", "lattice"]
    w = np.array([0.2, 0.3, 0.15, 0.05, 0.08, 0.07, 0.15])
    for _ in range(200):
        kind = kinds[int(rng.choice(len(kinds), p=w / w.sum()))]
        if kind == "regular":
            n = int(rng.integers(3, 31))
            ph = 0.0 if rng.random() < 0.5 else float(rng.uniform(0, TWO_PI))
            t = ph + TWO_PI * np.arange(n) / n
            p = np.stack([np.cos(t), np.sin(t)], axis=1)
        elif kind == "ellipse":
            n = int(rng.integers(3, 31))
            # jittered equal spacing: gaps between 0.2 and 1.8 of 2pi/n
            t = (np.arange(n) + rng.uniform(-0.4, 0.4, size=n)) * (TWO_PI / n) + float(rng.uniform(0, TWO_PI))
            rho = float(rng.uniform(0.15, 1.0))
            p = np.stack([np.cos(t), rho * np.sin(t)], axis=1)
            al = float(rng.uniform(0, TWO_PI))
            rot = np.array([[math.cos(al), -math.sin(al)], [math.sin(al), math.cos(al)]])
            p = p @ rot.T
        elif kind == "axis-octagon":
            wx = int(rng.integers(8, 65)) / 8.0
            hy = int(rng.integers(8, 65)) / 8.0
            cuts = []
            for _k in range(4):
                if rng.random() < 0.35:
                    cuts.append((0.0, 0.0))
                else:
                    cuts.append((int(rng.integers(1, int(wx * 8))) / 8.0, int(rng.integers(1, int(hy * 8))) / 8.0))
            (c1x, c1y), (c2x, c2y), (c3x, c3y), (c4x, c4y) = cuts
            pts = [(wx - c1x, -hy), (wx, -hy + c1y), (wx, hy - c2y), (wx - c2x, hy), (-wx + c3x, hy), (-wx, hy - c3y),
                   (-wx, -hy + c4y), (-wx + c4x, -hy)]
            p = np.array(_dedupe(pts), dtype=float)
        elif kind == "axis-right-triangle":
            a = int(rng.integers(4, 65)) / 8.0
            b = int(rng.integers(4, 65)) / 8.0
            p = np.array([(0, 0), (a, 0), (0, b)], dtype=float)
        elif kind == "axis-trapezoid":
            p1 = int(rng.integers(4, 65)) / 8.0
            q1 = int(rng.integers(4, 65)) / 8.0
            h1 = int(rng.integers(2, 33)) / 8.0
            h2 = int(rng.integers(2, 33)) / 8.0
            h3 = int(rng.integers(2, 33)) / 8.0
            h4 = int(rng.integers(2, 33)) / 8.0
            p = np.array([(p1, -h1), (p1, h2), (-q1, h3), (-q1, -h4)], dtype=float)
        elif kind == "rectangle":
            wx = float(np.exp(rng.uniform(-1.5, 1.5)))
            hy = float(np.exp(rng.uniform(-1.5, 1.5)))
            p = np.array([(wx, -hy), (wx, hy), (-wx, hy), (-wx, -hy)], dtype=float)
        else:  # lattice hull
            from scipy.spatial import ConvexHull
            k = int(rng.integers(4, 40))
            pts = rng.integers(-6, 7, size=(k, 2)).astype(float)
            pts = np.unique(pts, axis=0)
            if len(pts) < 3:
                continue
            try:
                h = ConvexHull(pts)
            except Exception:
                continue
            p = pts[h.vertices]  # ccw, extreme points only
        if 3 <= len(p) <= 30 and _strictly_convex_ccw(p):
            return kind, p
    raise InfraError("polygon generator exhausted")


def place2d(rng, p, kind):
    """rotation (none / quarter turns / arbitrary), scale, offset."""
    info = {}
    u = rng.random()
    if u < 0.32:
        info["rotation"] = "none"
    elif u < 0.44:
        # almost-but-not-exactly axis-aligned: tilt 1e-9 .. 3e-2 rad (after 0..3 exact quarter turns); edges that
        # were exactly horizontal / vertical get slopes ~tilt and ~1/tilt (absolute tolerances on dx, dy show here)
        for _ in range(int(rng.integers(0, 4))):
            p = np.stack([-p[:, 1], p[:, 0]], axis=1)
        al = float(rng.choice([-1.0, 1.0]) * 10 ** rng.uniform(-9, -1.5))
        rot = np.array([[math.cos(al), -math.sin(al)], [math.sin(al), math.cos(al)]])
        p = p @ rot.T
        info["rotation"] = "neartilt"
        info["tilt"] = al
    elif u < 0.6:
        k = int(rng.integers(1, 4))
        for _ in range(k):
            p = np.stack([-p[:, 1], p[:, 0]], axis=1)  # exact quarter turn, keeps ccw
        info["rotation"] = "quarter*%d" % k
    else:
        al = float(rng.uniform(0, TWO_PI))
        rot = np.array([[math.cos(al), -math.sin(al)], [math.sin(al), math.cos(al)]])
        p = p @ rot.T
        info["rotation"] = "arbitrary"
    us = rng.random()
    # scale 1, 10^[-3,3], or an END of the range (1e-3 / 1e3: absolute tolerances show there); almost axis-aligned
    # polygons sit at an end of the range half of the time (an absolute threshold on dx needs both to show)
    if info["rotation"] == "neartilt" and us < 0.5:
        scale = float(rng.choice([1e-3, 1e-3, 1e3]))
    else:
        scale = 1.0 if us < 0.5 else (float(10 ** rng.uniform(-3, 3)) if us < 0.85 else float(rng.choice([1e-3, 1e3])))
    p = p * scale
    info["scale"] = scale
    d = float(np.max(np.linalg.norm(p[:, None, :] - p[None, :, :], axis=-1)))
    off = 0.0 if rng.random() < 0.3 else float(rng.uniform(0, 10))
    al = float(rng.uniform(0, TWO_PI))
    p = p + off * d * np.array([math.cos(al), math.sin(al)])
    info["offset_diams"] = off
    return p, info


def order_input(rng, p):
    """the array handed to the constructor: ccw (rolled) / cw (rolled) / shuffled"""
    n = len(p)
    u = rng.random()
    k = int(rng.integers(n))
    if u < 0.4:
        return np.roll(p, -k, axis=0), "ccw"
    if u < 0.8:
        return np.roll(p[::-1], -k, axis=0), "cw"
    return p[rng.permutation(n)], "shuffled"


def exact_centroid(p):
    """triangle-fan centroid over Q of the float vertices (python side twin of Spec.polyCentroid)"""
    P = [(Fraction(float(x)), Fraction(float(y))) for x, y in p]
    x0, y0 = P[0]
    A = Fraction(0)
    sx = Fraction(0)
    sy = Fraction(0)
    for i in range(1, len(P) - 1):
        ax, ay = P[i]
        bx, by = P[i + 1]
        a2 = (ax - x0) * (by - y0) - (ay - y0) * (bx - x0)
        A += a2
        sx += a2 * (x0 + ax + bx) / 3
        sy += a2 * (y0 + ay + by) / 3
    return np.array([float(sx / A), float(sy / A)])


def special_angles(rng, p, c, r, n_uniform, n_special):
    """uniform in [-4pi,4pi] + exact vertex directions (+2pi k) + arc ends + multiples of pi/4"""
    out = list(rng.uniform(-2 * TWO_PI, 2 * TWO_PI, size=n_uniform))
    spec = []
    rel = p - c
    for v in rel:
        spec.append(math.atan2(v[1], v[0]))
    if r is not None and r > 0:
        n = len(p)
        for i in range(n):
            a, b = p[i], p[(i + 1) % n]
            e = b - a
            nrm = np.array([e[1], -e[0]]) / np.linalg.norm(e)
            for q in (a + r * nrm - c, b + r * nrm - c):
                spec.append(math.atan2(q[1], q[0]))
    spec = np.array(spec)
    spec = spec + TWO_PI * rng.integers(-2, 2, size=len(spec))
    # one-ulp neighbours of the special directions as well
    nb = np.nextafter(spec, spec + rng.choice([-1.0, 1.0], size=len(spec)))
    mult = np.arange(-16, 17) * (math.pi / 4)
    pool = np.concatenate([spec, nb, mult])
    if len(pool) > n_special:
        pool = pool[rng.choice(len(pool), size=n_special, replace=False)]
    out.extend(pool.tolist())
    # angles that np.mod maps to exactly 2*pi (the reason for the `2*pi + eps` closing bound)
    out.extend([-1e-17, -1e-300])
    return np.array(out, dtype=float)


# --------------------------------------------------------------------------- oracles (floats)


def _cross(u, v):
    return u[0] * v[1] - u[1] * v[0]


def ray_segment(c, u, a, b):
    """t > 0 with c + t u on [a,b], or None"""
    e = b - a
    den = _cross(u, e)
    if den == 0:
        return None
    with np.errstate(all="ignore"):
        t = _cross(a - c, e) / den
        s = _cross(a - c, u) / den
    tol = 1e-12
    if t > 0 and -tol <= s <= 1 + tol:
        return t
    return None


def dist_to_polygon(p, P):
    """(distance from p to the closed convex ccw polygon P, distance to its boundary, inside?)"""
    n = len(P)
    best = math.inf
    inside = True
    for i in range(n):
        a, b = P[i], P[(i + 1) % n]
        e = b - a
        w = p - a
        t = min(1.0, max(0.0, float(np.dot(w, e) / np.dot(e, e))))
        best = min(best, float(np.linalg.norm(w - t * e)))
        if _cross(e, w) < 0:
            inside = False
    return (0.0 if inside else best), best, inside


def sphero_exit(P, c, r, u):
    """exit parameter of the ray c + t u from P (+) disc(r): the boundary is made of the edges
    pushed out by r and of the circles of radius r about the vertices; the ray from the
    interior point c meets that boundary once, at the largest candidate."""
    n = len(P)
    best = None
    for i in range(n):
        a, b = P[i], P[(i + 1) % n]
        e = b - a
        nrm = np.array([e[1], -e[0]]) / np.linalg.norm(e)  # outward for ccw
        t = ray_segment(c, u, a + r * nrm, b + r * nrm)
        if t is not None and (best is None or t > best):
            best = t
        if r > 0:
            w = a - c
            wu = float(np.dot(w, u))
            uu = float(np.dot(u, u))
            # wu^2 - uu (w.w - r^2) = uu r^2 - cross(w,u)^2: the second form does not cancel for r << |w|
            cr = float(_cross(w, u))
            disc = uu * r * r - cr * cr
            if disc >= 0:
                t = (wu + math.sqrt(disc)) / uu
                if t > 0 and (best is None or t > best):
                    best = t
    return best


# --------------------------------------------------------------------------- cases


def make_poly_case(ctx, sphero):
    rng = ctx.rng
    kind, p = base_polygon(rng)
    p, info = place2d(rng, p, kind)
    vin, order = order_input(rng, p)
    d = float(np.max(np.linalg.norm(p[:, None, :] - p[None, :, :], axis=-1)))
    case = {"shape": "spg" if sphero else "cpoly", "kind": kind, "ccw": p.tolist(), "input": vin.tolist(),
            "order": order, "info": info, "as3d": bool(rng.random() < 0.3)}
    r = None
    if sphero:
        ur = rng.random()
        r = 0.0 if ur < 0.12 else (float(d * 10 ** rng.uniform(-12, -3)) if ur < 0.18 else float(d * 10 ** rng.uniform(-3, 1)))
        case["radius"] = r
    c = exact_centroid(p)
    case["angles"] = special_angles(rng, p, c, r, 14, 26 if not sphero else 34).tolist()
    ctx.count("shape:" + case["shape"])
    ctx.count("kind:" + kind)
    ctx.count("order:" + order)
    ctx.count("rotation:" + info["rotation"].split("*")[0])
    ctx.count("scale:" + ("1" if info["scale"] == 1.0 else ("end" if info["scale"] in (1e-3, 1e3) else "other")))
    ctx.count("offset>0" if info["offset_diams"] > 0 else "offset=0")
    ctx.count("n<=4" if len(p) <= 4 else ("n<=12" if len(p) <= 12 else "n<=30"))
    if sphero:
        ctx.count("radius=0" if r == 0 else ("radius<1e-3core" if r < 1e-3 * d else ("radius<core" if r < d else "radius>=core")))
    return case


def make_ellipse_case(ctx, index=0):
    rng = ctx.rng
    u = rng.random()
    if u < 0.2:
        shape = "circle"
        a = b = float(10 ** rng.uniform(-3, 3))
    else:
        shape = "ellipse"
        a = float(10 ** rng.uniform(-3, 3))
        v = rng.random()
        if v < 0.2:
            b = a
        else:
            b = a * float(10 ** rng.uniform(-3, 3)) if v < 0.6 else a * float(10 ** rng.uniform(-0.7, 0.7))
            if b == a:
                b = a * 2
            # both orderings, alternating with the case index: a < b (major axis along y) on even, a > b on odd
            if (a < b) != (index % 2 == 0):
                a, b = b, a
    centre = [0.0, 0.0, 0.0] if rng.random() < 0.3 else (rng.normal(size=3) * [1, 1, 0] * 10 * max(a, b)).tolist()
    ang = np.concatenate([rng.uniform(-2 * TWO_PI, 2 * TWO_PI, size=20), np.arange(-16, 17) * (math.pi / 4)])
    ctx.count("shape:" + shape)
    if shape == "ellipse":
        ctx.count("ellipse:a<b" if a < b else ("ellipse:a=b" if a == b else "ellipse:a>b"))
    return {"shape": shape, "a": a, "b": b, "centre": centre, "angles": ang.tolist()}


# --------------------------------------------------------------------------- evaluation


def kabsch_block(normal):
    """what `_distance_to_surface_from` feeds to kabsch, and the in-plane block of its answer"""
    from coxeter.shapes.polygon import _align_points_by_normal
    nz = np.asarray(normal, dtype=float)
    n = nz if nz[2] >= 0 else -nz
    _, rot = _align_points_by_normal(n, np.zeros((1, 3)))
    return rot, bool(nz[2] < 0)


def tol_for(angles, scale, d_ref):
    """1e-9*scale, relaxed to 1e-7 relative where the tan branch is ill-conditioned"""
    t = np.full(len(angles), 1e-9 * scale)
    ill = np.abs(np.cos(angles)) < 1e-6
    t[ill] = np.maximum(t[ill], 1e-7 * np.abs(d_ref[ill]))
    return t



def exact_distances(ctx, P, r, angles):
    """the specification evaluated on the ccw vertex list P (floats read as rationals): exact triangle-fan centroid
    and exact ray exit over Q (driver, Spec.polyCentroid / Spec.rayExit); for r > 0 the closed-form exit from
    P (+) disc(r), self-checked against dist(point, P) = r.  Returns (exact d per angle, scale, centroid, us, |us|)."""
    us = np.stack([np.cos(angles), np.sin(angles)], axis=1)
    try:
        q = ctx.driver.Q("c14.spec.poly", L([np.asarray(v) for v in P]), L([np.asarray(u) for u in us]))
    except ModelRaise as e:
        raise InfraError("spec oracle found no boundary point: %s (generator produced a bad polygon?)" % e.kind)
    c = np.array([float(q[0]), float(q[1])])
    unorm = np.hypot(us[:, 0], us[:, 1])
    t_poly = np.array([float(x) for x in q[2:]]) * unorm
    rel = P - c
    scale = float(np.max(np.linalg.norm(rel, axis=1))) + r
    if r > 0:
        exact = np.array([sphero_exit(P, c, r, u) for u in us], dtype=float) * unorm
        # self-check of the closed form against the defining property
        for k in (0, len(us) // 2, len(us) - 1):
            dd, _, _ = dist_to_polygon(c + exact[k] * us[k] / unorm[k], P)
            if abs(dd - r) > 1e-9 * scale:
                raise InfraError("sphero oracle self-check failed: %r vs %r" % (dd, r))
    else:
        exact = t_poly
    return exact, scale, c, us, unorm


def eval_poly(ctx, case):
    import coxeter
    sphero = case["shape"] == "spg"
    cls = "ConvexSpheropolygon" if sphero else "ConvexPolygon"
    P = np.array(case["ccw"], dtype=float)
    vin = np.array(case["input"], dtype=float)
    if case.get("as3d"):
        vin = np.hstack([vin, np.zeros((len(vin), 1))])
    angles = np.array(case["angles"], dtype=float)
    r = float(case.get("radius", 0.0))
    try:
        if sphero:
            shape = coxeter.shapes.ConvexSpheropolygon(vin, r)
        else:
            shape = coxeter.shapes.ConvexPolygon(vin)
        # a third of the cases: the same shape reached through a history (scaled, shifted copy; every query read
        # once, distance_to_surface included; size / centroid / radius setters) - see harness/history.py
        import history
        if not case.get("no_history"):
            shape, _how = history.maybe_via_history(shape, history.rng_for([case["input"], case["angles"]]), 0.33, ctx)
        poly = shape.polygon if sphero else shape
        with np.errstate(all="ignore"):
            got = np.array(shape.distance_to_surface(angles.copy()), dtype=float)
    except Exception as e:
        ctx.fail(cls + ".distance_to_surface:raises", "raised %s on a valid convex shape" % exc_kind(e), case, repr(e))
        return
    if got.shape != angles.shape:
        ctx.fail(cls + ".distance_to_surface:shape", "result shape differs from the angle array", case,
                 [list(got.shape), list(angles.shape)])
        return
    ctx.count("normal:" + ("-z" if poly.normal[2] < 0 else "+z"))

    # ------------- C: exact centroid and polygon exit over Q (Spec.polyCentroid / Spec.rayExit)
    exact, scale, c, us, unorm = exact_distances(ctx, P, r if sphero else 0.0, angles)
    tol = tol_for(angles, scale, exact)
    bad = ~(np.abs(got - exact) <= tol)  # also catches nan
    if np.any(bad):
        k = int(np.argmax(np.where(np.isnan(got), np.inf, np.abs(got - exact)) * bad))
        ctx.fail(cls + ".distance_to_surface:boundary",
                 "centre + d(cos t, sin t) is not on the boundary (d differs from the exact radial distance)",
                 case, {"angle": float(angles[k]), "got": float(got[k]), "exact": float(exact[k]),
                        "n_bad": int(bad.sum()), "order": case["order"], "normal_z": float(poly.normal[2])})
    else:
        # defining residual (independent of the closed form): distance from the core polygon is r
        for k in range(0, len(us), 7):
            pt = c + got[k] * us[k] / unorm[k]
            dd, db, inside = dist_to_polygon(pt, P)
            res = abs((dd if r > 0 else db) - r)
            if not (got[k] > 0) or res > 1e-8 * scale + 10 * tol[k]:
                ctx.fail(cls + ".distance_to_surface:boundary-residual",
                         "the point at the returned distance is not at distance r from the core polygon", case,
                         {"angle": float(angles[k]), "got": float(got[k]), "residual": res})
                break

    correspondence(ctx, case, shape, poly, sphero, cls, angles, r, got, scale)
    if ctx.evaluations % 3 == 0:
        argument_glue(ctx, case, shape, cls, angles, scale)
    hypotheses(ctx, case, poly)
    requery_after_mutation(ctx, case, shape, sphero, cls, angles)


def argument_glue(ctx, case, shape, cls, angles, scale):
    """The answer must not depend on HOW the angles are passed (integer dtypes, lists, scalars, float32), and the
    caller's array must come back bit for bit (also when it holds angles outside [0, 2 pi))."""
    with np.errstate(all="ignore"):
        a = np.array(angles, dtype=np.float64)
        snap = a.tobytes()
        try:
            shape.distance_to_surface(a)
        except Exception:  # noqa: BLE001  (judged by the main clause)
            return
        if a.tobytes() != snap:
            ctx.fail(cls + ".distance_to_surface:argument-modified", "the caller's float64 angle array was changed by the "
                     "query", case, {"first_changed": int(np.flatnonzero(a != np.frombuffer(snap, dtype=np.float64))[0])})
        ints = np.arange(-3, 9)
        try:
            ref = np.array(shape.distance_to_surface(ints.astype(np.float64)), dtype=float)
        except Exception:  # noqa: BLE001
            return
        forms = [("int64-array", ints.copy()), ("int-list", [int(i) for i in ints]), ("int32-array", ints.astype(np.int32)),
                 ("float32-array", ints.astype(np.float32)), ("float-list", [float(i) for i in ints])]
        for name, arg in forms:
            keep = arg.copy() if isinstance(arg, np.ndarray) else list(arg)
            try:
                got = np.array(shape.distance_to_surface(arg), dtype=float).reshape(-1)
            except Exception as e:  # noqa: BLE001
                ctx.fail(cls + ".distance_to_surface:argument-type:" + name, "raised %s for whole-number angles passed as %s"
                         % (exc_kind(e), name), case, repr(e))
                continue
            tol = (1e-4 if name == "float32-array" else 1e-12) * scale      # float32 in, float32 accuracy out is fine
            if got.shape != ref.shape or not np.all(np.abs(got - ref) <= tol):
                k = int(np.argmax(np.abs(got - ref))) if got.shape == ref.shape else 0
                ctx.fail(cls + ".distance_to_surface:argument-type:" + name, "whole-number angles passed as %s give another "
                         "answer than the same angles as float64" % name, case,
                         {"angle": int(ints[k]), "got": float(got[k]) if got.size > k else None, "as_float64": float(ref[k])})
            same = np.array_equal(np.asarray(arg), np.asarray(keep)) and (not isinstance(arg, np.ndarray) or arg.dtype == keep.dtype)
            if not same:
                ctx.fail(cls + ".distance_to_surface:argument-modified", "the caller's angle container (%s) was changed" % name,
                         case, {})
        try:
            s0 = float(np.asarray(shape.distance_to_surface(2)).reshape(-1)[0])
            if abs(s0 - float(ref[5])) > 1e-12 * scale:
                ctx.fail(cls + ".distance_to_surface:argument-type:int-scalar", "a scalar integer angle gives another answer "
                         "than the same angle as float64", case, {"got": s0, "as_float64": float(ref[5])})
        except Exception:  # noqa: BLE001  (scalars are not promised)
            pass


def correspondence(ctx, case, shape, poly, sphero, cls, angles, r, got, scale):
    import coxeter
    # ------------- B: model at Float on the implementation's stored data
    V = np.array(poly.vertices[:, :2], dtype=float)
    rot, flip = kabsch_block(poly.normal)
    # z = 0 exactly for directly built shapes; a shape reached through mutators (history) is back in the plane up to
    # the rounding of the centroid setter
    zmax = float(np.max(np.abs(poly.vertices[:, 2])))
    contract_ok = bool(np.array_equal(rot, np.eye(3)) and zmax <= 1e-12 * (scale + float(np.max(np.abs(V)))))
    if not contract_ok:
        ctx.contract_failures.append({"contract": "kabsch(+z) is the identity, |z| <= 1e-12 size", "got": rot.tolist(),
                                      "zmax": zmax})
    R = [rot[0, 0], rot[0, 1], rot[1, 0], rot[1, 1]]
    try:
        if sphero:
            cen = np.array(poly.centroid[:2], dtype=float)
            nv = ctx.driver.F("c14.spg.newverts", int(flip), L([v for v in V]), cen, r)
            nv = np.array(nv, dtype=float).reshape(-1, 2)
            try:
                K = coxeter.shapes.ConvexPolygon(nv)
            except Exception as e:
                ctx.disagree("c14.spg.newverts", case, "ConvexPolygon(model new_verts) raised " + repr(e))
                return
            if not np.array_equal(K.vertices[:, :2], nv):
                ctx.contract_failures.append({"contract": "ConvexPolygon(new_verts) keeps the vertex order"})
                ctx.disagree("c14.spg:kernel-order", case, [K.vertices[:, :2].tolist(), nv.tolist()])
                return
            rk, flipk = kabsch_block(K.normal)
            Rk = [rk[0, 0], rk[0, 1], rk[1, 0], rk[1, 1]]
            # hypotheses of the kernel call (offset polygon strictly convex ccw, core centroid = origin strictly inside)
            hk = ctx.driver.Q("c14.hyp", int(flipk), L([v for v in nv]), np.zeros(2))
            ctx.count("hyp-kernel:hold" if (int(hk[0]) == 1 and int(hk[1]) == 1) else "hyp-kernel:FAIL")
            if not (int(hk[0]) == 1 and int(hk[1]) == 1):
                ctx.contract_failures.append({"contract": "offset polygon strictly convex ccw with the core centroid "
                                                          "strictly inside (exact, Q)", "got": [int(hk[0]), int(hk[1])]})
            m = ctx.driver.F("c14.spg", Rk, int(flipk), int(flip), L([v for v in V]), cen, r, L(list(angles)))
            op = "c14.spg"
        else:
            cen = np.array(poly.center[:2], dtype=float)
            m = ctx.driver.F("c14.cpoly", R, int(flip), L([v for v in V]), cen, L(list(angles)))
            op = "c14.cpoly"
    except ModelRaise as e:
        ctx.disagree(cls, case, "model: " + e.kind)
        return
    m = np.array(m, dtype=float)
    both_nan = np.isnan(m) & np.isnan(got)
    ref = np.where(np.isfinite(got), np.abs(got), 0.0)
    tb = tol_for(angles, scale, ref)
    badb = ~((np.abs(m - got) <= tb) | both_nan)
    if np.any(badb):
        k = int(np.argmax(badb))
        ctx.disagree(op, case, {"angle": float(angles[k]), "impl": float(got[k]), "model": float(m[k]),
                                "n_bad": int(badb.sum())})



def ccw_vertices(poly):
    """the polygon's CURRENT vertices (xy), counter-clockwise about +z"""
    V = np.array(poly.vertices[:, :2], dtype=float)
    return V[::-1] if poly.normal[2] < 0 else V


def hypotheses(ctx, case, poly):
    """the hypotheses of `cpoly_dts_correct(_cw)` decided exactly (Q) on the vertices and centre the implementation
    stores: Spec.strictConvexCCWb / strictlyInsideCCWb (sound: cpoly_dts_correct_checked)"""
    V = np.array(poly.vertices[:, :2], dtype=float)
    cen = np.array(poly.center[:2], dtype=float)
    hb = ctx.driver.Q("c14.hyp", int(poly.normal[2] < 0), L([v for v in V]), cen)
    ctx.count("hyp:checked")
    if int(hb[0]) == 1 and int(hb[1]) == 1:
        ctx.count("hyp:hold")
    else:
        ctx.count("hyp:FAIL")
        ctx.contract_failures.append({"contract": "stored vertices strictly convex ccw (about the normal), stored centre "
                                                  "strictly inside (exact, Q): hypotheses of cpoly_dts_correct",
                                      "got": [int(hb[0]), int(hb[1])], "vertices": V.tolist()})


def requery_after_mutation(ctx, case, shape, sphero, cls, angles):
    """query -> mutate (size setter / centre setter / radius setter, 1..3 of them in a per-case order) -> query:
    the second answer must be THE distance for the CURRENT geometry (oracle evaluated on the object's current
    vertices and radius).  The first query happened in eval_poly."""
    import history
    rng = history.rng_for([case["angles"], case["input"], "mut"])
    poly = shape.polygon if sphero else shape
    muts = ["area", "perimeter"]
    if sphero:
        muts += ["radius", "radius0"]
    else:
        muts += ["centroid", "center", "bounding-circle"]
    k = int(rng.choice([0, 1, 2, 3], p=[0.12, 0.53, 0.25, 0.1]))   # 0: the plain repeated query
    seq = [muts[i] for i in rng.permutation(len(muts))[:k]]
    done = []
    try:
        for mname in seq:
            f = float(10 ** rng.uniform(-0.7, 0.7))
            if mname == "area":
                shape.area = float(shape.area) * f * f
            elif mname == "perimeter":
                shape.perimeter = float(shape.perimeter) * f
            elif mname == "bounding-circle":
                try:
                    shape.minimal_centered_bounding_circle_radius = float(shape.minimal_centered_bounding_circle_radius) * f
                except (AttributeError, NotImplementedError):
                    shape.area = float(shape.area) * f * f
                    mname = "area"
            elif mname in ("centroid", "center"):
                V0 = np.array(poly.vertices, dtype=float)
                diam = float(np.max(np.linalg.norm(V0 - V0.mean(axis=0), axis=1))) * 2
                t = np.r_[rng.normal(size=2) * diam * float(rng.uniform(0.1, 3.0)), 0.0]
                setattr(shape, mname, np.array(getattr(shape, mname), dtype=float) + t)
            elif mname == "radius":
                V0 = np.array(poly.vertices, dtype=float)
                diam = float(np.max(np.linalg.norm(V0 - V0.mean(axis=0), axis=1))) * 2
                shape.radius = float(diam * 10 ** rng.uniform(-3, 1))
            elif mname == "radius0":
                shape.radius = 0.0
            done.append(mname)
        sub = angles[rng.choice(len(angles), size=min(12, len(angles)), replace=False)]
        with np.errstate(all="ignore"):
            got2 = np.array(shape.distance_to_surface(sub.copy()), dtype=float)
    except Exception as e:
        ctx.fail(cls + ".distance_to_surface:raises:after-mutation", "raised %s after %s" % (exc_kind(e), "+".join(done)),
                 case, repr(e))
        return
    ctx.count("requery:" + ("+".join(sorted(set("centre" if d in ("centroid", "center") else d for d in done)))
                            or "repeat"))
    if done:
        Pc = ccw_vertices(poly)
        rc = float(shape.radius) if sphero else 0.0
    else:
        # nothing was changed: the second answer is judged against the CASE's geometry (a query that moved or
        # rescaled the stored vertices would otherwise go unnoticed)
        Pc = np.array(case["ccw"], dtype=float)
        rc = float(case.get("radius", 0.0)) if sphero else 0.0
    exact2, scale2, _c, _us, _un = exact_distances(ctx, Pc, rc, sub)
    tol2 = tol_for(sub, scale2, exact2)
    bad = ~(np.abs(got2 - exact2) <= tol2)
    if np.any(bad):
        kk = int(np.argmax(np.where(np.isnan(got2), np.inf, np.abs(got2 - exact2)) * bad))
        ctx.fail(cls + ".distance_to_surface:boundary:after-mutation",
                 "after query -> %s -> query the answer is not the distance to the boundary of the shape's CURRENT "
                 "geometry" % (" -> ".join(done) or "(nothing)"), case,
                 {"mutators": done, "angle": float(sub[kk]), "got": float(got2[kk]), "exact": float(exact2[kk]),
                  "n_bad": int(bad.sum()), "vertices_now": Pc.tolist(), "radius_now": rc})


def judge_ellipse(ctx, cls, case, a, b, angles, got, suffix="", extra=None):
    """C: defining equation at centre + d (cos, sin), in the centred frame, and the polar closed form"""
    # subtracting a far centre costs |centre|/min(a,b) ulps: judge in the centred frame
    x = got * np.cos(angles) / a
    y = got * np.sin(angles) / b
    resid = np.abs(x * x + y * y - 1)
    exact = a * b / np.sqrt((a * np.sin(angles)) ** 2 + (b * np.cos(angles)) ** 2)
    bad = ~((resid <= 1e-9) & (got > 0) & (np.abs(got - exact) <= 1e-9 * max(a, b)))
    if np.any(bad):
        k = int(np.argmax(bad))
        det = {"a": a, "b": b, "angle": float(angles[k]), "got": float(got[k]), "exact": float(exact[k]),
               "residual": float(resid[k])}
        det.update(extra or {})
        ctx.fail(cls + ".distance_to_surface:boundary" + suffix,
                 "centre + d(cos t, sin t) is not on the ellipse x^2/a^2 + y^2/b^2 = 1", case, det)


def eval_ellipse(ctx, case):
    import coxeter
    import history
    a, b = float(case["a"]), float(case["b"])
    angles = np.array(case["angles"], dtype=float)
    circle = case["shape"] == "circle"
    cls = "Circle" if circle else "Ellipse"
    try:
        shape = coxeter.shapes.Circle(a, case["centre"]) if circle else coxeter.shapes.Ellipse(a, b, case["centre"])
        shape, _how = history.maybe_via_history(shape, history.rng_for([case["a"], case["b"], case["angles"]]), 0.33, ctx)
        got = np.array(shape.distance_to_surface(angles.copy()), dtype=float)
    except Exception as e:
        ctx.fail(cls + ".distance_to_surface:raises", "raised %s" % exc_kind(e), case, repr(e))
        return
    if got.shape != angles.shape:
        ctx.fail(cls + ".distance_to_surface:shape", "result shape differs from the angle array", case,
                 [list(got.shape), list(angles.shape)])
        return
    judge_ellipse(ctx, cls, case, a, b, angles, got)
    # B
    if circle:
        m = ctx.driver.F("c14.circle", a, L(list(angles)))
        op = "c14.circle"
    else:
        m = ctx.driver.F("c14.ellipse", a, b, L(list(angles)))
        op = "c14.ellipse"
    m = np.array(m, dtype=float)
    if not ctx.close_enough(m, got, max(a, b)):
        ctx.disagree(op, case, [m.tolist()[:3], got.tolist()[:3]])
    # query -> mutate -> query: axis setters (also through the a<b / a>b boundary), size setters, centre setter
    rng = history.rng_for([case["a"], case["b"], case["angles"], "mut"])
    muts = ["radius", "area", "perimeter", "centroid"] if circle else ["a", "b", "swap", "area", "perimeter", "centroid"]
    k = int(rng.choice([1, 2, 3], p=[0.6, 0.3, 0.1]))
    seq = [muts[i] for i in rng.permutation(len(muts))[:k]]
    try:
        for mname in seq:
            f = float(10 ** rng.uniform(-1.0, 1.0))
            if mname == "radius":
                shape.radius = float(shape.radius) * f
            elif mname == "a":
                shape.a = float(shape.a) * f
            elif mname == "b":
                shape.b = float(shape.b) * f
            elif mname == "swap":
                a0, b0 = float(shape.a), float(shape.b)
                shape.a = b0
                shape.b = a0
            elif mname == "area":
                shape.area = float(shape.area) * f * f
            elif mname == "perimeter":
                shape.perimeter = float(shape.perimeter) * f
            else:
                shape.centroid = np.array(shape.centroid, dtype=float) + np.r_[rng.normal(size=2) * max(a, b), 0.0]
        got2 = np.array(shape.distance_to_surface(angles.copy()), dtype=float)
        a2 = float(shape.radius) if circle else float(shape.a)
        b2 = float(shape.radius) if circle else float(shape.b)
    except Exception as e:
        ctx.fail(cls + ".distance_to_surface:raises:after-mutation", "raised %s after %s" % (exc_kind(e), "+".join(seq)),
                 case, repr(e))
        return
    ctx.count("requery:" + "+".join(sorted(set(seq))))
    if not circle:
        ctx.count("ellipse-after:a<b" if a2 < b2 else ("ellipse-after:a=b" if a2 == b2 else "ellipse-after:a>b"))
    judge_ellipse(ctx, cls, case, a2, b2, angles, got2, ":after-mutation", {"mutators": seq})


def eval_case(ctx, case):
    if case["shape"] in ("cpoly", "spg"):
        eval_poly(ctx, case)
    else:
        eval_ellipse(ctx, case)


FIXED_CASES = [
    # the irregular quadrilateral of DESIGN §7 (offset-centroid defect), both orders, angles outside [0, 2pi)
    {"shape": "spg", "kind": "design-quad", "ccw": [[0, 0], [3, 0], [3.5, 2], [1, 2.5]],
     "input": [[0, 0], [3, 0], [3.5, 2], [1, 2.5]], "order": "ccw", "radius": 0.5, "info": {},
     "angles": [math.pi / 6, 0.1, 1.0, 2.0, 3.0, 4.0, 5.0, 6.0, -0.5, 7.0, math.pi / 2, math.pi, -7.0, 12.0, -12.5]},
    {"shape": "spg", "kind": "design-quad", "ccw": [[0, 0], [3, 0], [3.5, 2], [1, 2.5]],
     "input": [[1, 2.5], [3.5, 2], [3, 0], [0, 0]], "order": "cw", "radius": 0.5, "info": {},
     "angles": [math.pi / 6, 0.1, 1.0, 2.0, 3.0, 4.0, 5.0, 6.0, -0.5, 7.0, math.pi / 2, math.pi, -7.0, 12.0, -12.5]},
    {"shape": "cpoly", "kind": "design-quad", "ccw": [[0, 0], [3, 0], [3.5, 2], [1, 2.5]],
     "input": [[1, 2.5], [3.5, 2], [3, 0], [0, 0]], "order": "cw", "info": {},
     "angles": [0.1, 1.0, 2.0, 3.0, -1.0, 0.0, math.pi / 2, math.pi, -math.pi / 2, 9.0, -9.0]},
    # the repo's own clockwise test square, rounded
    {"shape": "spg", "kind": "unit-square-cw", "ccw": [[0, 0], [1, 0], [1, 1], [0, 1]],
     "input": [[0, 0], [0, 1], [1, 1], [1, 0]], "order": "cw", "radius": 0.1, "info": {},
     "angles": [k * math.pi / 4 for k in range(-16, 17)] + [0.1, 1.0, 2.0, -3.3]},
    {"shape": "cpoly", "kind": "rectangle", "ccw": [[2, -1], [2, 1], [-2, 1], [-2, -1]],
     "input": [[2, -1], [2, 1], [-2, 1], [-2, -1]], "order": "ccw", "info": {},
     "angles": [k * math.pi / 4 for k in range(-16, 17)] + [math.atan2(1, 2), math.atan2(1, 2) - 2 * math.pi]},
    # repaired defect (known_findings.d/C14.json, fixed 5df35a1): radius 0, theta exactly at a vertex direction
    # gave nan; same core with radius 1e-9 as well
    {"shape": "spg", "kind": "r0-vertex-direction", "ccw": [[0.9, 1.2], [1.4, -2.8], [1.4, -1.2]],
     "input": [[0.9, 1.2], [1.4, -2.8], [1.4, -1.2]], "order": "ccw", "radius": 0.0, "info": {}, "no_history": True,
     "angles": [1.7257930687188372, 1.0, 2.0, -1.0, 0.0, 1.7257930687188372 - 2 * math.pi]},
    {"shape": "spg", "kind": "r0-vertex-direction", "ccw": [[0.9, 1.2], [1.4, -2.8], [1.4, -1.2]],
     "input": [[0.9, 1.2], [1.4, -2.8], [1.4, -1.2]], "order": "ccw", "radius": 1e-9, "info": {}, "no_history": True,
     "angles": [1.7257930687188372, 1.0, 2.0, -1.0, 0.0, 1.7257930687188372 - 2 * math.pi]},
    # both axis orderings at every multiple of pi/4 in [-4pi, 4pi] (the eccentricity form is only right for a >= b)
    {"shape": "ellipse", "a": 1.0, "b": 2.0, "centre": [0.0, 0.0, 0.0],
     "angles": [k * math.pi / 4 for k in range(-16, 17)] + [0.3, -7.0, 12.0]},
    {"shape": "ellipse", "a": 2.0, "b": 1.0, "centre": [0.0, 0.0, 0.0],
     "angles": [k * math.pi / 4 for k in range(-16, 17)] + [0.3, -7.0, 12.0]},
    {"shape": "ellipse", "a": 0.3, "b": 4.0, "centre": [-3.0, 0.5, 0.0],
     "angles": [k * math.pi / 4 for k in range(-16, 17)] + [0.3, -7.0, 12.0]},
    {"shape": "ellipse", "a": 5.0, "b": 0.5, "centre": [1.0, -2.0, 0.0],
     "angles": [k * math.pi / 4 for k in range(-16, 17)] + [0.3, -7.0, 12.0]},
    {"shape": "circle", "a": 3.0, "b": 3.0, "centre": [1.0, 1.0, 0.0],
     "angles": [k * math.pi / 4 for k in range(-16, 17)] + [0.3, -7.0, 12.0]},
]


def run(ctx):
    if ctx.widen == 1:
        for case in FIXED_CASES:
            ctx.count("fixed-case")
            ctx.case(case)
            eval_case(ctx, case)
    n_poly = ctx.budget(450, 6000)
    n_spg = ctx.budget(450, 6000)
    n_ell = ctx.budget(150, 1500)
    for _ in range(n_poly):
        case = make_poly_case(ctx, False)
        ctx.case(case)
        eval_case(ctx, case)
    for _ in range(n_spg):
        case = make_poly_case(ctx, True)
        ctx.case(case)
        eval_case(ctx, case)
    for k in range(n_ell):
        case = make_ellipse_case(ctx, k)
        ctx.case(case)
        eval_case(ctx, case)


def replay(ctx, payload):
    if "broken" in payload and "case" not in payload:
        # a correspondence disagreement recorded without a failing input: re-run the recorded cases
        for b in payload["broken"]:
            ctx.case(b["case"])
            eval_case(ctx, b["case"])
        return
    case = payload.get("case", payload)
    ctx.case(case)
    eval_case(ctx, case)
