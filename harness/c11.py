"""C11 — rounded shapes obey the Steiner formulas; curvature descriptors match their definitions.

B (correspondence): the Lean model (Model/Steiner.lean, run at Float by the driver) is fed with the
   implementation's own vertices / face normals / `_get_face_intersections()` list / stored volume and
   area and must reproduce mean_curvature, tau, asphericity, iq, neighbours, get_dihedral (value and
   ValueError), ConvexSpheropolyhedron.volume/surface_area/mean_curvature/iq and
   ConvexSpheropolygon.signed_area/area/perimeter/iq.
C (oracle): the implementation is compared with the Lean SPEC (Spec/Steiner.lean: Steiner polynomials
   in the classical variables V, S, H = 1/2 sum L*theta) evaluated on INDEPENDENTLY computed core data:
   V exact over Q (cone tetrahedra of an independent hull, driver op spec.solid), S = sum of the norms of
   the exact rational facet area vectors, edge lengths from the independent hull's ridges and exterior
   angles atan2(|N1 x N2|, N1.N2) from exact rational facet normals (no acos, no unit normals).
"""
import math
from fractions import Fraction

import numpy as np
from scipy.spatial import ConvexHull

import gen
from common import L, ModelRaise, exc_kind, read_shuffled

RULE = ("3-D: convex vertex sets from gen.convex_solid (ellipsoid/lattice/zonotope/box/prism/antiprism/(di)pyramid/"
        "needle/plate/simplex; random rigid motion, offset <=10 diameters, scale 1e-3..1e3, permuted) plus tabulated "
        "solids and cubes/boxes with closed forms, plus the local classes c11_sharp_solid (flat bipyramids, thin wedge "
        "prisms, hulls flattened to aspect 1e-3..0.05: knife-edge dihedrals 0.05..8 degrees; gabled boxes with nearly "
        "coplanar roof faces, tilt 1e-5..3e-2 rad; needles stretched x50..1000) and boxes/prisms in an almost axis-"
        "aligned frame (gen.near_axis_rotation); a third of the objects is reached through mutators "
        "(history.maybe_via_history) and a quarter of the cores additionally runs an explicit history of 1-4 mutators "
        "(radius / volume / surface_area / mean_curvature setters, _rescale, interleaved reads) that is replayed in the "
        "Lean model; queries are read in a per-case shuffled order; 2-D: convex polygons from c11_convex_polygon (regular/ellipse/"
        "hull/lattice/rectangle/triangle/needle; in-plane rotation, offset, scale 1e-3..1e3, shuffled input order, "
        "given as (N,2), (N,3) z=0 or tilted in space, normal None or explicit +-, and with the stored vertex order "
        "forced clockwise so that the negative-area branch runs); each core x radii {0} u 10^[-3,2] x diameter; "
        "distinct = distinct (vertices, radii); non-trivial = >=4 vertices in convex position (3-D) / >=3 (2-D)")
ASSUMPTIONS = [
    "Steiner's theorem (parallel body volume/area/mean-curvature polynomials) and 'integrated mean curvature of a "
    "convex polytope = 1/2 sum over edges of length x exterior angle' are trusted spec (Spec/Steiner.lean), with "
    "coxeter's normalisation M = H/(4 pi)",
    "core V is the exact rational volume of an independent cone tetrahedralisation (C01 spec); S, edge lengths and "
    "exterior angles are computed in double precision from exact rational facet area vectors",
    "accuracy clause: |impl - spec| <= 1e-9 * natural scale ((diam + r)^k; 1 for dimensionless descriptors, "
    "max(1,|value|) for asphericity)",
    "planar decomposition certificate: when the stored core lies in the z = 0 plane the driver evaluates "
    "SteinerSpec.allCcw EXACTLY over Q on the implementation's stored vertices (hypothesis of "
    "polygon_exterior_angles_sum / spheropolygon_decomposition) and the sums of the pieces (edge rectangles, vertex "
    "sectors with the atan2 turning angles) at Float; tilted cores are projected on their best-fit frame only in the "
    "thorough reference, not in the certificate",
    "iq <= 1 (isoperimetric inequality) is checked per case, not proved (theorem only for balls, boxes, rectangles, "
    "regular polygons and for 'rounded polygon iff core')",
    "the clockwise (negative signed area) spheropolygon branch is reached by reversing the stored vertex array of "
    "the core polygon (ConvexPolygon always stores counter-clockwise vertices; _reorder_verts ignores its "
    "`clockwise` argument)",
]

TWO_PI = 2 * math.pi


# --------------------------------------------------------------------------- generators


def c11_convex_polygon(rng, kind=None):
    """A convex polygon in strictly convex position, counter-clockwise, O(1) size, near the origin.
    Returns (kind, (n,2) array)."""
    kinds = ["regular", "ellipse", "hull", "lattice", "rectangle", "triangle", "needle"]
    for _ in range(100):
        k = kind or kinds[int(rng.integers(len(kinds)))]
        if k == "regular":
            n = int(rng.integers(3, 25))
            v = gen.ngon(n, phase=float(rng.uniform(0, TWO_PI)))
        elif k == "ellipse":
            n = int(rng.integers(3, 41))
            t = np.sort(rng.uniform(0, TWO_PI, size=n))
            a = float(np.exp(rng.uniform(0, np.log(20))))
            v = np.stack([np.cos(t), np.sin(t) / a], axis=1)
        elif k == "hull":
            pts = rng.normal(size=(int(rng.integers(4, 60)), 2))
            v = pts[ConvexHull(pts).vertices]
        elif k == "lattice":
            m = int(rng.integers(2, 7))
            g = np.array([[x, y] for x in range(-m, m + 1) for y in range(-m, m + 1)], dtype=float)
            w = rng.integers(1, 4, size=2)
            g = g[(np.abs(g) @ w) <= rng.integers(m, 3 * m + 1)]
            if len(g) < 3:
                continue
            try:
                v = g[ConvexHull(g).vertices]
            except Exception:
                continue
        elif k == "rectangle":
            e = np.exp(rng.uniform(-1.5, 1.5, size=2))
            v = np.array([[-1, -1], [1, -1], [1, 1], [-1, 1]], dtype=float) * e
        elif k == "triangle":
            v = rng.normal(size=(3, 2))
        else:  # needle
            _, v = c11_convex_polygon(rng, ["regular", "ellipse", "rectangle"][int(rng.integers(3))])
            v = v * np.array([1.0, 1.0 / float(rng.uniform(50, 1000))])
        v = _ccw(np.asarray(v, dtype=float))
        if len(v) >= 3 and _strictly_convex(v):
            return k, v
    raise RuntimeError("could not generate a convex polygon")


def _ccw(v):
    c = v.mean(axis=0)
    order = np.argsort(np.arctan2(v[:, 1] - c[1], v[:, 0] - c[0]))
    return v[order]


def _strictly_convex(v, margin=1e-6):
    """every vertex lies strictly outside the chord of its two neighbours (by margin*diameter),
    all turns counter-clockwise."""
    n = len(v)
    d = float(np.max(np.linalg.norm(v[:, None] - v[None], axis=-1)))
    if d == 0:
        return False
    for i in range(n):
        a, b, c = v[i - 1], v[i], v[(i + 1) % n]
        ch = c - a
        ln = np.linalg.norm(ch)
        if ln == 0:
            return False
        # b must be to the right of a->c (outside) for ccw order
        dist = -(ch[0] * (b[1] - a[1]) - ch[1] * (b[0] - a[0])) / ln
        if dist < margin * d:
            return False
    return True


def place_polygon(rng, v):
    """in-plane rotation, scale, offset; embedding (N,2) | (N,3) z=0 | tilted in space; normal None / + / -;
    shuffled input order. Returns the constructor input and the ccw reference (n,3) array."""
    info = {}
    scale = 1.0 if rng.random() < 0.5 else float(10 ** rng.uniform(-3, 3))
    th = float(rng.uniform(0, TWO_PI))
    R2 = np.array([[np.cos(th), -np.sin(th)], [np.sin(th), np.cos(th)]])
    v = (v * scale) @ R2.T
    d = float(np.max(np.linalg.norm(v[:, None] - v[None], axis=-1)))
    off = 0.0 if rng.random() < 0.3 else float(rng.uniform(0, 10))
    direction = rng.normal(size=2)
    direction /= np.linalg.norm(direction)
    v = v + direction * off * d
    info.update(scale=scale, offset_diams=off)
    embed = ["2d", "3d-z0", "3d-tilted"][int(rng.integers(3))]
    ref = np.c_[v, np.zeros(len(v))]
    nrm = np.array([0.0, 0.0, 1.0])
    if embed == "3d-tilted":
        R = gen.random_rotation(rng)
        ref = ref @ R.T
        nrm = R @ nrm
        if off > 0:
            ref = ref + nrm * float(rng.uniform(-3, 3)) * d
    info["embed"] = embed
    # input order: the first three vertices fix the computed normal (Polygon.__init__), so they are a
    # well-conditioned triple (farthest pair + the vertex farthest from their chord), in random order;
    # the rest is shuffled
    n = len(v)
    dm = np.linalg.norm(v[:, None] - v[None], axis=-1)
    i0, i1 = np.unravel_index(int(np.argmax(dm)), dm.shape)
    ch = v[i1] - v[i0]
    hgt = np.abs(ch[0] * (v[:, 1] - v[i0, 1]) - ch[1] * (v[:, 0] - v[i0, 0]))
    i2 = int(np.argmax(hgt))
    first = [int(i0), int(i1), i2]
    rest = [i for i in range(n) if i not in first]
    perm = np.array([first[i] for i in rng.permutation(3)] + [rest[i] for i in rng.permutation(len(rest))], dtype=int)
    inp = (v if embed == "2d" else ref)[perm]
    normal_mode = ["none", "plus", "minus"][int(rng.integers(3))]
    info["normal"] = normal_mode
    normal = None if normal_mode == "none" else (nrm if normal_mode == "plus" else -nrm).tolist()
    return inp, normal, ref, info


def c11_sharp_solid(rng, kind=None):
    """Cores with knife-edge dihedrals (< 8 degrees), nearly coplanar neighbouring faces, or needle aspect.
    Returns (kind, (n,3) vertices near the origin, O(1) size, in convex position)."""
    kinds = ["flat-bipyramid", "thin-wedge", "flat-hull", "gable", "long-needle"]
    for _ in range(100):
        k = kind or kinds[int(rng.integers(len(kinds)))]
        if k == "flat-bipyramid":
            n = int(rng.integers(3, 9))
            base = gen.ngon(n, phase=float(rng.uniform(0, TWO_PI)))
            apo = math.cos(math.pi / n)
            t = float(np.exp(rng.uniform(np.log(5e-4), np.log(0.069))))     # tan(half dihedral) at the equator
            h1 = t * apo
            h2 = h1 * float(np.exp(rng.uniform(-0.7, 0.7))) if rng.random() < 0.5 else h1
            if math.atan(h1 / apo) + math.atan(h2 / apo) > math.radians(8.0):
                continue
            v = np.vstack([np.c_[base, np.zeros(n)], [[0, 0, h1]], [[0, 0, -h2]]])
        elif k == "thin-wedge":
            alpha = math.radians(float(np.exp(rng.uniform(np.log(0.05), np.log(8.0)))))
            ell = float(np.exp(rng.uniform(-1.0, 1.5)))
            skew = float(rng.uniform(-0.3, 0.3))
            tri = np.array([[0.0, 0.0], [1.0, math.tan(alpha / 2) * (1 + skew)], [1.0, -math.tan(alpha / 2) * (1 - skew)]])
            v = np.vstack([np.c_[tri, np.zeros(3)], np.c_[tri, ell * np.ones(3)]])
        elif k == "flat-hull":
            n = int(rng.integers(6, 40))
            pts = rng.normal(size=(n, 3))
            pts /= np.linalg.norm(pts, axis=1)[:, None]
            asp = float(np.exp(rng.uniform(np.log(1e-3), np.log(0.05))))
            pts = pts * np.array([1.0, float(np.exp(rng.uniform(-0.5, 0.5))), asp])
            try:
                v = pts[ConvexHull(pts).vertices]
            except Exception:
                continue
        elif k == "gable":
            # a box with a roof ridge raised by tan(tilt): two roof faces that are almost coplanar
            e = np.exp(rng.uniform(-1, 1, size=3))
            tilt = float(np.exp(rng.uniform(np.log(1e-5), np.log(3e-2))))
            box = np.array([[x, y, z] for x in (-1, 1) for y in (-1, 1) for z in (0, 1)], dtype=float)
            ridge = np.array([[0.0, -1.0, 1.0 + math.tan(tilt)], [0.0, 1.0, 1.0 + math.tan(tilt)]])
            v = np.vstack([box, ridge]) * e
        else:  # long-needle
            _, b = gen.convex_base(rng, ["ellipsoid", "box", "prism", "dipyramid"][int(rng.integers(4))])
            v = b * np.array([1.0, 1.0, float(np.exp(rng.uniform(np.log(50), np.log(1000))))])
            v = v / np.max(np.abs(v))
        v = np.asarray(v, dtype=float)
        try:
            if len(v) >= 4 and len(ConvexHull(v).vertices) == len(v) and gen.in_convex_position(v, margin=1e-9):
                return k, v
        except Exception:
            continue
    raise RuntimeError("could not generate a sharp solid")


# --------------------------------------------------------------------------- independent core data


def _frac3(p):
    return [Fraction(float(x)) for x in p]


def _cross(a, b):
    return [a[1] * b[2] - a[2] * b[1], a[2] * b[0] - a[0] * b[2], a[0] * b[1] - a[1] * b[0]]


def _dot(a, b):
    return a[0] * b[0] + a[1] * b[1] + a[2] * b[2]


def _sub(a, b):
    return [a[0] - b[0], a[1] - b[1], a[2] - b[2]]


def _fnorm(a):
    """|a| for an exact rational vector, in double precision without overflow/underflow"""
    m = max(abs(x) for x in a)
    if m == 0:
        return 0.0
    return float(m) * math.sqrt(sum(float(x / m) ** 2 for x in a))


def exterior_angle(n1, n2):
    """angle between two exact (un-normalised) outward normals: atan2(|n1 x n2|, n1.n2)"""
    c = _cross(n1, n2)
    s = _fnorm(c)
    dt = _dot(n1, n2)
    k = max(abs(dt), max(abs(x) for x in c))
    if k == 0:
        return 0.0
    return math.atan2(s / float(k), float(dt / k))


def dihedral_exact(n1, n2):
    """interior dihedral angle from two exact (un-normalised) OUTWARD facet normals: atan2(|n1 x n2|, -n1.n2)
    (SteinerSpec.dihedralAtan2; theorem dihedral_atan2_def: equals pi - angle(n1, n2)); well conditioned for knife
    edges (phi -> 0) and nearly coplanar faces (phi -> pi) alike"""
    c = _cross(n1, n2)
    s_ = _fnorm(c)
    dt = _dot(n1, n2)
    k = max(abs(dt), max(abs(x) for x in c))
    if k == 0:
        return math.pi
    return math.atan2(s_ / float(k), -float(dt / k))


def angle_tol(theta):
    """tolerance for comparing an angle obtained as acos(n1.n2) of unit normals with the exact one:
    1e-9 plus the effect of 4 ulp of rounding in the dot product (acos is ill-conditioned at 0 and pi)"""
    c = math.cos(theta)
    lo = math.acos(min(1.0, c + 4.5e-16))
    hi = math.acos(max(-1.0, c - 4.5e-16))
    return 1e-9 + (hi - lo)


def asph_scale(asph, d, V, S, M):
    """natural scale of the asphericity M S / (3 V): each of M, S, V is accurate to 1e-9 * (d, d^2, d^3) (C01's and
    this property's accuracy clause), so the quotient is accurate to 1e-9 * |asph| * (d/M + d^2/S + d^3/V): for a
    needle or a plate far from the origin d^3/V is 1e4..1e6 and the relative accuracy of V is what limits the quotient"""
    if not (V > 0 and S > 0 and M > 0):
        return max(1.0, abs(asph))
    return max(1.0, abs(asph) * (1.0 + d / M + d * d / S + d ** 3 / V))


def independent_core(v):
    """Facets, exact area vectors, edges of conv(v) from an independent hull.
    returns dict(S, edges=[(L, phi)], facets=[(vertex set, N exact)], hull)"""
    v = np.asarray(v, dtype=float)
    hull = ConvexHull(v)
    groups = []
    gid = np.empty(len(hull.simplices), dtype=int)
    for si, eq in enumerate(hull.equations):
        for gi, g in enumerate(groups):
            if np.all(np.abs(g - eq) < 1e-9 * max(1.0, abs(eq[3]))):
                gid[si] = gi
                break
        else:
            groups.append(eq)
            gid[si] = len(groups) - 1
    fv = [_frac3(p) for p in v]
    N = [[Fraction(0)] * 3 for _ in groups]
    vsets = [set() for _ in groups]
    for si, simp in enumerate(hull.simplices):
        a, b, c = (fv[int(k)] for k in simp)
        cr = _cross(_sub(b, a), _sub(c, a))
        if float(_dot(cr, _frac3(hull.equations[si][:3]))) < 0:
            cr = [-x for x in cr]
        g = gid[si]
        N[g] = [N[g][k] + cr[k] for k in range(3)]
        vsets[g].update(int(k) for k in simp)
    S = sum(_fnorm(n) for n in N) / 2
    edges = []
    pair_angle = {}
    for si, simp in enumerate(hull.simplices):
        for k in range(3):
            sj = int(hull.neighbors[si][k])
            if sj < si or gid[si] == gid[sj]:
                continue
            e = [int(simp[m]) for m in range(3) if m != k]
            ln = float(np.linalg.norm(v[e[0]] - v[e[1]]))
            key = (min(gid[si], gid[sj]), max(gid[si], gid[sj]))
            if key not in pair_angle:
                pair_angle[key] = exterior_angle(N[gid[si]], N[gid[sj]])
            edges.append((ln, math.pi - pair_angle[key]))
    return {"S": S, "edges": edges, "facets": list(zip(vsets, N)), "hull": hull}


def polygon_reference(ref):
    """area |1/2 sum v_i x v_{i+1}| (exact rational vector area) and perimeter of the ccw reference polygon"""
    f = [_frac3(p) for p in ref]
    acc = [Fraction(0)] * 3
    n = len(f)
    o = f[0]
    for i in range(1, n - 1):
        cr = _cross(_sub(f[i], o), _sub(f[i + 1], o))
        acc = [acc[k] + cr[k] for k in range(3)]
    A = _fnorm(acc) / 2
    P = math.fsum(float(np.linalg.norm(ref[(i + 1) % n] - ref[i])) for i in range(n))
    return A, P


# --------------------------------------------------------------------------- 3-D


def core_tokens(p):
    fi = [(int(i), int(j), int(e[0]), int(e[1])) for i, j, e in p._get_face_intersections()]
    # copies: `_rescale` multiplies the vertex array IN PLACE, and the tokens are encoded only when they are sent
    return fi, [L([r for r in np.array(p.vertices, dtype=float)]),
                L([r for r in np.array(p.normals, dtype=float)]),
                L(fi), float(p.volume), float(p.surface_area)]


def eval_solid(ctx, case):
    import coxeter
    v = np.array(case["vertices"], dtype=float)
    d = gen.diameter(v)
    try:
        p = coxeter.shapes.ConvexPolyhedron(v)
        import history
        p, _how = history.maybe_via_history(p, history.rng_for(v), 0.33, ctx)     # see harness/history.py
    except Exception as e:
        ctx.fail("ConvexPolyhedron.__init__:raises", "constructor raised %s on a set in convex position" % exc_kind(e),
                 case, repr(e))
        return
    try:
        with np.errstate(all="ignore"):
            obs, _order = read_shuffled({"M": lambda: float(p.mean_curvature), "tau": lambda: float(p.tau),
                                         "asph": lambda: float(p.asphericity), "iq": lambda: float(p.iq),
                                         "V": lambda: float(p.volume), "S": lambda: float(p.surface_area)},
                                        ["c11-core", case["vertices"]])
    except Exception as e:
        ctx.fail("ConvexPolyhedron.mean_curvature:raises", "curvature descriptors raised %s" % exc_kind(e), case,
                 repr(e))
        return
    nf = len(p.faces)
    # ---------------- B: model on the implementation's own data
    fi, ctoks = core_tokens(p)
    try:
        r = ctx.driver.F("c11.cp", *ctoks)
        if not ctx.close_enough(obs["M"], r[0], d):
            ctx.disagree("c11.cp:mean_curvature", case, [obs["M"], r[0]])
        if not ctx.close_enough(obs["tau"], r[1], 1.0):
            ctx.disagree("c11.cp:tau", case, [obs["tau"], r[1]])
        if not ctx.close_enough(obs["asph"], r[2], max(1.0, abs(obs["asph"]))):
            ctx.disagree("c11.cp:asphericity", case, [obs["asph"], r[2]])
        if not ctx.close_enough(obs["iq"], r[3], 1.0):
            ctx.disagree("c11.cp:iq", case, [obs["iq"], r[3]])
    except ModelRaise as e:
        ctx.disagree("c11.cp", case, "model raised " + e.kind)
    nb = ctx.driver.F("c11.neighbors", nf, L(fi))
    flat = []
    for arr in p.neighbors:
        flat.append(len(arr))
        flat.extend(int(x) for x in arr)
    if nb != flat:
        ctx.disagree("c11.neighbors", case, [nb, flat])

    # ---------------- independent data
    ind = independent_core(v)
    tets, _, _ = gen.cone_tets(v)
    Vx = float(ctx.driver.Q("spec.solid", L([np.asarray(t) for t in tets]))[0])
    Sx = ind["S"]
    etoks = L([(float(a), float(b)) for a, b in ind["edges"]])
    # map implementation faces to independent facets
    fmap = []
    for face in p.faces:
        fs = set(int(i) for i in face)
        key = None
        for k, (vs, _) in enumerate(ind["facets"]):
            if fs <= vs:
                key = k
                break
        fmap.append(key)
    if any(k is None for k in fmap):
        ctx.fail("ConvexPolyhedron.faces:not-a-facet", "a face is not contained in any hull facet", case,
                 [i for i, k in enumerate(fmap) if k is None])
        return

    # ---------------- C: descriptors of the core vs the spec
    sp0 = ctx.driver.F("c11.spec3", Vx, Sx, 0.0, etoks)
    Mx, Hx, taux, asphx, iqx = sp0[0], sp0[1], sp0[7], sp0[8], sp0[9]
    if not ctx.close_enough(obs["M"], Mx, d):
        ctx.fail("ConvexPolyhedron.mean_curvature:value", "mean curvature differs from sum L*(exterior angle)/(8 pi)",
                 case, [obs["M"], Mx])
    if not ctx.close_enough(obs["tau"], taux, 1.0):
        ctx.fail("ConvexPolyhedron.tau:value", "tau differs from 4 pi M^2 / S", case, [obs["tau"], taux])
    if not ctx.close_enough(obs["asph"], asphx, asph_scale(asphx, d, Vx, Sx, Mx)):
        ctx.fail("ConvexPolyhedron.asphericity:value", "asphericity differs from M S / (3 V)", case,
                 [obs["asph"], asphx])
    if not ctx.close_enough(obs["iq"], iqx, 1.0):
        ctx.fail("ConvexPolyhedron.iq:value", "iq differs from (V / V_sphere(S))^2", case, [obs["iq"], iqx])
    if not (obs["iq"] <= 1 + 1e-9 and obs["iq"] > 0):
        ctx.fail("ConvexPolyhedron.iq:range", "isoperimetric quotient outside (0, 1]", case, obs["iq"])
    cf = case.get("closed_form")
    if cf:
        a, b, c = cf["box"]
        Mc = (a + b + c) / 4
        Sc = 2 * (a * b + b * c + c * a)
        Vc = a * b * c
        want = {"M": Mc, "tau": 4 * math.pi * Mc * Mc / Sc, "asph": Mc * Sc / (3 * Vc),
                "iq": 36 * math.pi * Vc * Vc / Sc ** 3}
        for key, sc in (("M", d), ("tau", 1.0), ("asph", max(1.0, want["asph"])), ("iq", 1.0)):
            if not ctx.close_enough(obs[key], want[key], sc):
                ctx.fail("ConvexPolyhedron.%s:closed-form:box" % {"M": "mean_curvature", "asph": "asphericity"}.get(
                    key, key), "differs from the closed form of a box", case, [key, obs[key], want[key]])

    # ---------------- certificate of the spatial decomposition theorem (vertex pieces add up to one ball)
    if nf <= 64:
        caps_certificate(ctx, case, p)

    # ---------------- dihedral angles: every neighbouring pair, and non-neighbours raise
    pairs = [(i, j) for i, j, _, _ in fi]
    nbsets = [set(int(x) for x in arr) for arr in p.neighbors]
    for (a, b) in pairs:
        for (x, y) in ((a, b), (b, a)):
            try:
                with np.errstate(all="ignore"):
                    phi = float(p.get_dihedral(x, y))
            except Exception as e:
                ctx.fail("Polyhedron.get_dihedral:raises", "get_dihedral raised %s on neighbouring faces" % exc_kind(e),
                         case, [x, y, repr(e)])
                continue
            want = dihedral_exact(ind["facets"][fmap[x]][1], ind["facets"][fmap[y]][1])
            theta = math.pi - want
            ctx.count("dihedral:knife(<8deg)" if want < math.radians(8) else
                      "dihedral:near-coplanar(>179deg)" if want > math.radians(179) else "dihedral:ordinary")
            if not ctx.close_enough(phi, want, 1.0, tol=angle_tol(theta)):
                ctx.fail("Polyhedron.get_dihedral:value", "dihedral angle differs from pi - angle(n1, n2)", case,
                         [x, y, phi, want])
                break
        if (a + b) % 7 == 0 or len(pairs) <= 12:
            try:
                m = ctx.driver.F("c11.dihedral", ctoks[1], ctoks[2], a, b)[0]
                if not ctx.close_enough(float(p.get_dihedral(a, b)), m, 1.0):
                    ctx.disagree("c11.dihedral", case, [a, b, m])
            except ModelRaise as e:
                ctx.disagree("c11.dihedral", case, [a, b, "model raised " + e.kind])
            sd = ctx.driver.F("c11.specdihedral", np.asarray(p.normals[a], dtype=float),
                              np.asarray(p.normals[b], dtype=float))[0]
            want = dihedral_exact(ind["facets"][fmap[a]][1], ind["facets"][fmap[b]][1])
            sd2 = ctx.driver.F("c11.specdihedral2", np.asarray(p.normals[a], dtype=float),
                               np.asarray(p.normals[b], dtype=float))[0]
            if not ctx.close_enough(sd2, want, 1.0, tol=1e-9):
                # SteinerSpec.dihedralAtan2 on the implementation's stored normals vs the same formula on the exact
                # facet normals (theorem dihedral_atan2_def: both are pi - angle(n1, n2)); well conditioned everywhere
                ctx.fail("Polyhedron.normals:dihedral-atan2", "stored face normals give a different dihedral angle "
                         "(atan2 form) than the exact facet normals", case, [a, b, sd2, want])
            if not ctx.close_enough(sd, want, 1.0, tol=1e-7):
                # the Lean spec (acos of the implementation's unit normals) vs the atan2 oracle: ties the
                # two formulations of "pi - angle(n1, n2)"; looser because acos is ill-conditioned near pi
                ctx.fail("Polyhedron.normals:dihedral-spec", "face normals give a different dihedral angle than "
                         "the exact facet normals", case, [a, b, sd, want])
    non = [(a, b) for a in range(nf) for b in range(nf) if b not in nbsets[a]]
    ctx.rng.shuffle(non)
    for (a, b) in non[:4]:
        kind = None
        try:
            p.get_dihedral(a, b)
        except Exception as e:
            kind = exc_kind(e)
        if kind != "ValueError":
            ctx.fail("Polyhedron.get_dihedral:non-neighbours", "get_dihedral on non-neighbouring faces did not raise "
                     "ValueError", case, [a, b, kind])
        try:
            ctx.driver.F("c11.dihedral", ctoks[1], ctoks[2], a, b)
            mk = None
        except ModelRaise as e:
            mk = e.kind
        if mk != kind:
            ctx.disagree("c11.dihedral:raise", case, [a, b, kind, mk])

    # ---------------- rounded solid
    for r in case["radii"]:
        try:
            s = coxeter.shapes.ConvexSpheropolyhedron(v, r)
            s, _how = history.maybe_via_history(s, history.rng_for([v.tolist(), r]), 0.4, ctx)
            with np.errstate(all="ignore"):
                so, _order = read_shuffled({"V": lambda: float(s.volume), "S": lambda: float(s.surface_area),
                                            "M": lambda: float(s.mean_curvature), "iq": lambda: float(s.iq)},
                                           ["c11-sphero", case["vertices"], r])
        except Exception as e:
            ctx.fail("ConvexSpheropolyhedron:raises", "rounded solid raised %s" % exc_kind(e), case, [r, repr(e)])
            continue
        Ls = d + r
        _, stoks = core_tokens(s.polyhedron)
        try:
            m = ctx.driver.F("c11.sphero3", *stoks, float(r))
            ok = (m[0] == float(s.radius) and ctx.close_enough(so["V"], m[1], Ls ** 3)
                  and ctx.close_enough(so["S"], m[2], Ls ** 2) and ctx.close_enough(so["M"], m[3], Ls)
                  and ctx.close_enough(so["iq"], m[4], 1.0))
            if not ok:
                ctx.disagree("c11.sphero3", case, [r, so, m])
        except ModelRaise as e:
            ctx.disagree("c11.sphero3", case, [r, "model raised " + e.kind])
        sp = ctx.driver.F("c11.spec3", Vx, Sx, float(r), etoks)
        # sp: M H steinerVolume steinerArea M(r) statedVolume statedArea tau asph iq3
        if not ctx.close_enough(so["V"], sp[2], Ls ** 3):
            ctx.fail("ConvexSpheropolyhedron.volume:steiner", "volume differs from V + S r + H r^2 + 4/3 pi r^3", case,
                     [r, so["V"], sp[2]])
        if not ctx.close_enough(so["S"], sp[3], Ls ** 2):
            ctx.fail("ConvexSpheropolyhedron.surface_area:steiner", "surface area differs from S + 2 H r + 4 pi r^2",
                     case, [r, so["S"], sp[3]])
        if not ctx.close_enough(so["M"], sp[4], Ls):
            ctx.fail("ConvexSpheropolyhedron.mean_curvature:steiner", "mean curvature differs from M + r", case,
                     [r, so["M"], sp[4]])
        iq_want = 36 * math.pi * sp[2] ** 2 / sp[3] ** 3
        if not ctx.close_enough(so["iq"], iq_want, 1.0):
            ctx.fail("ConvexSpheropolyhedron.iq:value", "iq of the rounded solid differs from 36 pi V^2 / S^3 of the "
                     "Steiner volume and area", case, [r, so["iq"], iq_want])
        if not (0 < so["iq"] <= 1 + 1e-9):
            ctx.fail("ConvexSpheropolyhedron.iq:range", "isoperimetric quotient outside (0, 1]", case, [r, so["iq"]])
        if not (ctx.close_enough(sp[2], sp[5], Ls ** 3) and ctx.close_enough(sp[3], sp[6], Ls ** 2)):
            ctx.obligation_breaks.append({"kind": "Spec/Steiner.lean: stated (M) and classical (H) Steiner polynomials "
                                                  "differ numerically", "detail": [r, sp]})
        # the statement verbatim, in the implementation's own core quantities
        Mi = obs["M"]
        stated = (obs["V"] + obs["S"] * r + 4 * math.pi * Mi * r * r + 4.0 / 3.0 * math.pi * r ** 3,
                  obs["S"] + 8 * math.pi * Mi * r + 4 * math.pi * r * r, Mi + r)
        if not (ctx.close_enough(so["V"], stated[0], Ls ** 3) and ctx.close_enough(so["S"], stated[1], Ls ** 2)
                and ctx.close_enough(so["M"], stated[2], Ls)):
            ctx.fail("ConvexSpheropolyhedron:steiner-in-own-core", "rounded measures are not the Steiner polynomials "
                     "of the core's own V, S, M", case, [r, so, stated])
        if r == 0:
            # against the object's OWN core (when the object was reached through a history its vertices differ from the
            # directly built core `p` by a few roundings, which the 1e-13 comparison would see)
            core = s.polyhedron
            oc = {"V": float(core.volume), "S": float(core.surface_area), "M": float(core.mean_curvature),
                  "iq": float(core.iq)}
            if not (ctx.close_enough(so["V"], oc["V"], d ** 3, tol=1e-13)
                    and ctx.close_enough(so["S"], oc["S"], d ** 2, tol=1e-13)
                    and ctx.close_enough(so["M"], oc["M"], d, tol=1e-13)
                    and ctx.close_enough(so["iq"], oc["iq"], 1.0, tol=1e-13)
                    and ctx.close_enough(so["V"], obs["V"], Ls ** 3) and ctx.close_enough(so["S"], obs["S"], Ls ** 2)
                    and ctx.close_enough(so["M"], obs["M"], Ls)):
                ctx.fail("ConvexSpheropolyhedron:radius-zero", "with r = 0 the rounded solid's measures differ from "
                         "the core's", case, [so, obs])
        if cf:
            a, b, c = cf["box"]
            Mc, Sc, Vc = (a + b + c) / 4, 2 * (a * b + b * c + c * a), a * b * c
            wantV = Vc + Sc * r + math.pi * (a + b + c) * r * r + 4.0 / 3.0 * math.pi * r ** 3
            wantS = Sc + 2 * math.pi * (a + b + c) * r + 4 * math.pi * r * r
            if not (ctx.close_enough(so["V"], wantV, Ls ** 3) and ctx.close_enough(so["S"], wantS, Ls ** 2)
                    and ctx.close_enough(so["M"], Mc + r, Ls)):
                ctx.fail("ConvexSpheropolyhedron:closed-form:box", "rounded box differs from its closed forms", case,
                         [r, so, wantV, wantS, Mc + r])

    if case.get("history"):
        eval_solid_history(ctx, case, v, d, Vx, Sx, ind["edges"])


def caps_certificate(ctx, case, p):
    """hypotheses of vertex_caps_sum / spatial_steiner_decomposition on the implementation's OWN faces:
    Euler's formula on the counts and 'every face is a strictly convex polygon listed counter-clockwise about its
    outward normal' — evaluated EXACTLY (Q) on the face's vertices projected along the dominant axis of the normal
    (an orientation-preserving affine image of the face: same left turns); and the angular-defect sum evaluated at
    Float on in-plane orthonormal coordinates, which the theorem says is 4 pi"""
    W = np.asarray(p.vertices, dtype=float)
    exact, inplane = [], []
    for face, n in zip(p.faces, np.asarray(p.normals, dtype=float)):
        pts = W[np.asarray(face, dtype=int)]
        k = int(np.argmax(np.abs(n)))
        i, j = (k + 1) % 3, (k + 2) % 3
        q = pts[:, [i, j]]
        if n[k] < 0:
            q = q[::-1]
        exact.append(L([(float(a), float(b)) for a, b in q]))
        u = np.cross(n, np.eye(3)[int(np.argmin(np.abs(n)))])
        u /= np.linalg.norm(u)
        w = np.cross(n, u)
        c = pts.mean(axis=0)
        inplane.append(L([(float((x - c) @ u), float((x - c) @ w)) for x in pts]))
    q = ctx.driver.Q("c11.caps", len(W), L(exact), 1.0)
    ctx.count("certificate:euler:%s" % ("ok" if int(q[0]) == 1 else "FAILED"))
    ctx.count("certificate:faces-ccw:%s" % ("ok" if int(q[1]) == 1 else "FAILED"))
    if int(q[0]) != 1:
        ctx.fail("ConvexPolyhedron.faces:euler", "vertex, edge and face counts of the stored faces violate "
                 "V - E + F = 2", case, [len(W), [len(f) for f in p.faces]])
        return
    if int(q[1]) != 1:
        ctx.fail("ConvexPolyhedron.faces:not-strictly-convex-ccw", "a stored face is not a strictly convex polygon "
                 "listed counter-clockwise about its outward normal (exact test on the projected face)", case,
                 [[int(x) for x in f] for f in p.faces])
        return
    f = ctx.driver.F("c11.caps", len(W), L(inplane), 1.0)
    if not ctx.close_enough(f[2], 4 * math.pi, 1.0, tol=1e-8):
        ctx.obligation_breaks.append({"kind": "vertex_caps_sum: certified polytope whose angular defects (Float) do "
                                              "not add up to 4 pi", "detail": [f[2], case.get("info")]})


OPS3 = {"radius": 0, "_rescale": 1, "volume": 2, "surface_area": 3, "mean_curvature": 4}
OPS2 = {"radius": 0, "_rescale": 1, "area": 2, "perimeter": 3}


def make_history(rng, dim, r0):
    """1-4 mutators with interleaved reads; the LAST state has radius > 0 in 3 of 4 cases (a stale cached edge term is
    multiplied by r, so it only shows then).  Values are factors (relative to the current value) for size setters
    and multiples of the core diameter for the radius."""
    names = (["volume", "surface_area", "mean_curvature"] if dim == 3 else ["area", "perimeter"])
    ops = []
    n = int(rng.integers(1, 5))
    for i in range(n):
        u = rng.random()
        if u < 0.25:
            ops.append(["read", None])
        if u < 0.55:
            ops.append([names[int(rng.integers(len(names)))], float(np.exp(rng.uniform(-1.6, 1.6)))])
        elif u < 0.7:
            ops.append(["_rescale", float(np.exp(rng.uniform(-1.2, 1.2)))])
        else:
            ops.append(["radius", 0.0 if rng.random() < 0.3 else float(10 ** rng.uniform(-2, 0.7))])
    if r0 == 0 and all(o[0] != "radius" for o in ops):
        ops.append(["radius", float(10 ** rng.uniform(-2, 0.7))])
    if rng.random() < 0.5:
        ops.insert(0, ["read", None])
    if not any(o[0] not in ("read", "radius") for o in ops):
        ops.insert(int(rng.integers(len(ops) + 1)), [names[int(rng.integers(len(names)))],
                                                     float(np.exp(rng.uniform(-1.6, 1.6)))])
    return ops


def eval_solid_history(ctx, case, v, d, Vx, Sx, edges):
    """explicit multi-step history on a ConvexSpheropolyhedron: B against the Lean model of the mutators (c11.hist3),
    C against the spec on the independent core data scaled by the factor K read off the object's vertices"""
    import coxeter
    hist = case["history"]
    r0 = float(hist["r0"]) * d
    try:
        s = coxeter.shapes.ConvexSpheropolyhedron(v, r0)
    except Exception as e:
        ctx.fail("ConvexSpheropolyhedron:raises", "rounded solid raised %s" % exc_kind(e), case, [r0, repr(e)])
        return
    _, toks0 = core_tokens(s.polyhedron)
    v0 = np.array(s.vertices, dtype=float)
    mops = []
    try:
        with np.errstate(all="ignore"):
            for name, val in hist["ops"]:
                if name == "read":
                    read_shuffled({"V": lambda: s.volume, "S": lambda: s.surface_area, "M": lambda: s.mean_curvature,
                                   "iq": lambda: s.iq}, ["c11-hist", case["vertices"], len(mops)])
                elif name == "radius":
                    s.radius = val * d
                    mops.append((OPS3[name], float(val * d)))
                elif name == "_rescale":
                    s._rescale(val)
                    mops.append((OPS3[name], float(val)))
                else:
                    target = float(getattr(s, name)) * val
                    setattr(s, name, target)
                    mops.append((OPS3[name], target))
            so = {"r": float(s.radius), "V": float(s.volume), "S": float(s.surface_area), "M": float(s.mean_curvature),
                  "cV": float(s.polyhedron.volume), "cS": float(s.polyhedron.surface_area),
                  "cM": float(s.polyhedron.mean_curvature), "tau": float(s.polyhedron.tau),
                  "asph": float(s.polyhedron.asphericity), "iq": float(s.polyhedron.iq)}
    except Exception as e:
        ctx.fail("ConvexSpheropolyhedron:history:raises", "a mutator / read raised %s along a valid history"
                 % exc_kind(e), case, [hist, repr(e)])
        return
    ctx.count("history3:len=%d" % len(mops))
    v1 = np.array(s.vertices, dtype=float)
    i = int(np.argmax(np.linalg.norm(v0, axis=1)))
    K = float(np.linalg.norm(v1[i]) / np.linalg.norm(v0[i])) if np.linalg.norm(v0[i]) > 0 else 1.0
    dK = d * K
    Ls = dK + so["r"]
    if not ctx.close_enough(v1, K * v0, max(dK, float(np.max(np.abs(v1)))), tol=1e-12):
        ctx.fail("ConvexSpheropolyhedron:history:not-similar", "after a history of size setters the core is not a "
                 "uniformly scaled copy (about the origin) of the initial core", case, [hist, K])
        return
    # ---- B: the Lean model of the same mutators on the initial object's own data
    try:
        m = ctx.driver.F("c11.hist3", *toks0, float(r0), L(mops))
        mv = np.array(m[6:], dtype=float).reshape(-1, 3)
        ok = (ctx.close_enough(so["r"], m[0], Ls) and ctx.close_enough(so["V"], m[1], Ls ** 3)
              and ctx.close_enough(so["S"], m[2], Ls ** 2) and ctx.close_enough(so["M"], m[3], Ls)
              and ctx.close_enough(so["cV"], m[4], dK ** 3) and ctx.close_enough(so["cS"], m[5], dK ** 2)
              and mv.shape == v1.shape and ctx.close_enough(v1, mv, max(dK, float(np.max(np.abs(v1))))))
        if not ok:
            ctx.disagree("c11.hist3", case, [hist, so, m[:6]])
    except ModelRaise as e:
        ctx.disagree("c11.hist3", case, [hist, "model raised " + e.kind])
    # ---- C: Steiner in the CURRENT core (independent data scaled by K), descriptors invariant
    etoks = L([(float(a) * K, float(b)) for a, b in edges])
    sp = ctx.driver.F("c11.spec3", Vx * K ** 3, Sx * K ** 2, so["r"], etoks)
    if not ctx.close_enough(so["V"], sp[2], Ls ** 3):
        ctx.fail("ConvexSpheropolyhedron.volume:steiner:history", "after a history of mutators the volume differs "
                 "from the Steiner polynomial of the current core", case, [hist, so["V"], sp[2]])
    if not ctx.close_enough(so["S"], sp[3], Ls ** 2):
        ctx.fail("ConvexSpheropolyhedron.surface_area:steiner:history", "after a history of mutators the surface "
                 "area differs from the Steiner polynomial of the current core", case, [hist, so["S"], sp[3]])
    if not ctx.close_enough(so["M"], sp[4], Ls):
        ctx.fail("ConvexSpheropolyhedron.mean_curvature:steiner:history", "after a history of mutators the mean "
                 "curvature differs from M + r of the current core", case, [hist, so["M"], sp[4]])
    if not (ctx.close_enough(so["cM"], sp[0], dK) and ctx.close_enough(so["tau"], sp[7], 1.0)
            and ctx.close_enough(so["asph"], sp[8], asph_scale(sp[8], dK, Vx * K ** 3, Sx * K ** 2, sp[0]))
            and ctx.close_enough(so["iq"], sp[9], 1.0)):
        ctx.fail("ConvexPolyhedron.descriptors:history", "after a history of mutators mean_curvature / tau / "
                 "asphericity / iq of the core differ from their definitions (tau, asphericity, iq are similarity "
                 "invariants)", case, [hist, so, [sp[0], sp[7], sp[8], sp[9]]])


# --------------------------------------------------------------------------- 2-D


def eval_polygon(ctx, case):
    import coxeter
    inp = np.array(case["input"], dtype=float)
    ref = np.array(case["ref"], dtype=float)
    normal = case["normal"]
    d = gen.diameter(ref)
    A, P = polygon_reference(ref)
    # law from theorem `spheropolygon_iq_mono` (Props/C11): on ONE object, growing the rounding radius through the
    # radius setter never lowers iq (closed form 1 - (P^2 - 4 pi A) / P_r^2), starting at the core's own value
    try:
        spm = coxeter.shapes.ConvexSpheropolygon(inp, 0.0, normal=normal)
        prev, seen = float(spm.polygon.iq), []
        for r in sorted(set(float(x) for x in case["radii"])):
            spm.radius = r
            cur = float(spm.iq)
            seen.append([r, cur])
            want = 1.0 - (P * P - 4 * math.pi * A) / (P + 2 * math.pi * r) ** 2
            if not (cur >= prev - 1e-12 and cur <= 1 + 1e-12 and abs(cur - want) <= 1e-9):
                ctx.fail("ConvexSpheropolygon.iq:monotone-in-radius", "iq read after the radius setter is not "
                         "monotone in the radius / differs from 1 - (P^2 - 4 pi A) / (P + 2 pi r)^2", case,
                         [seen, prev, want])
                break
            prev = cur
    except Exception as e:
        ctx.fail("ConvexSpheropolygon:raises", "radius setter / iq raised %s on a convex core" % exc_kind(e), case,
                 repr(e))
    for r in case["radii"]:
        for forced_cw in ([False, True] if case.get("also_cw") else [False]):
            try:
                sp = coxeter.shapes.ConvexSpheropolygon(inp, r, normal=normal)
                if not forced_cw:
                    import history
                    sp, _how = history.maybe_via_history(sp, history.rng_for([inp.tolist(), r]), 0.4, ctx)
                if forced_cw:
                    sp.polygon._vertices = sp.polygon._vertices[::-1].copy()
                core_signed = float(sp.polygon.signed_area)
                so = {"signed": float(sp.signed_area), "area": float(sp.area), "perimeter": float(sp.perimeter),
                      "iq": float(sp.iq)}
            except Exception as e:
                ctx.fail("ConvexSpheropolygon:raises", "spheropolygon raised %s on a convex core" % exc_kind(e), case,
                         [r, forced_cw, repr(e)])
                continue
            Ls = d + r
            tag = ":cw" if forced_cw else ""
            # core orientation contract (C04's quantity): sign as expected, magnitude = exact area
            if (core_signed < 0) != forced_cw or not ctx.close_enough(abs(core_signed), A, d ** 2):
                ctx.fail("ConvexPolygon.signed_area:value" + tag, "core signed area differs from the exact area / "
                         "expected orientation", case, [forced_cw, core_signed, A])
                continue
            # B
            try:
                m = ctx.driver.F("c11.sphero2", L([row for row in np.asarray(sp.vertices, dtype=float)]),
                                 core_signed, float(r))
                ok = (m[0] == float(sp.radius) and ctx.close_enough(so["signed"], m[1], Ls ** 2)
                      and ctx.close_enough(so["area"], m[2], Ls ** 2)
                      and ctx.close_enough(so["perimeter"], m[3], Ls) and ctx.close_enough(so["iq"], m[4], 1.0))
                if not ok:
                    ctx.disagree("c11.sphero2", case, [r, forced_cw, so, m])
            except ModelRaise as e:
                ctx.disagree("c11.sphero2", case, [r, "model raised " + e.kind])
            # C
            q = ctx.driver.F("c11.spec2", A, P, float(r))  # steinerArea2 steinerPerimeter2 iq2(rounded) iq2(core)
            if not ctx.close_enough(so["area"], q[0], Ls ** 2):
                ctx.fail("ConvexSpheropolygon.area:steiner" + tag, "area differs from A + P r + pi r^2", case,
                         [r, so["area"], q[0]])
            want_signed = -q[0] if forced_cw else q[0]
            if not ctx.close_enough(so["signed"], want_signed, Ls ** 2):
                ctx.fail("ConvexSpheropolygon.signed_area:steiner" + tag, "signed area differs from "
                         "+-(A + P r + pi r^2) with the sign of the core", case, [r, so["signed"], want_signed])
            if not ctx.close_enough(so["perimeter"], q[1], Ls):
                ctx.fail("ConvexSpheropolygon.perimeter:steiner" + tag, "perimeter differs from P + 2 pi r", case,
                         [r, so["perimeter"], q[1]])
            if not ctx.close_enough(so["iq"], q[2], 1.0):
                ctx.fail("ConvexSpheropolygon.iq:value" + tag, "iq differs from area / area of the circle of equal "
                         "perimeter", case, [r, so["iq"], q[2]])
            if not (0 < so["iq"] <= 1 + 1e-9):
                ctx.fail("ConvexSpheropolygon.iq:range" + tag, "isoperimetric quotient outside (0, 1]", case,
                         [r, so["iq"]])
            if r == 0:
                pol = sp.polygon
                if not (ctx.close_enough(so["signed"], core_signed, d ** 2, tol=1e-13)
                        and ctx.close_enough(so["area"], float(pol.area), d ** 2, tol=1e-13)
                        and ctx.close_enough(so["perimeter"], float(pol.perimeter), d, tol=1e-13)
                        and ctx.close_enough(so["iq"], float(pol.iq), 1.0, tol=1e-13)):
                    ctx.fail("ConvexSpheropolygon:radius-zero" + tag, "with r = 0 the measures differ from the core "
                             "polygon's", case, [so, core_signed, float(pol.perimeter)])
                if not ctx.close_enough(float(pol.iq), q[3], 1.0):
                    ctx.fail("ConvexPolygon.iq:value", "polygon iq differs from 4 pi A / P^2", case,
                             [float(pol.iq), q[3]])
            if not forced_cw and case["info"]["embed"] in ("2d", "3d-z0"):
                decomposition_certificate(ctx, case, sp, so, r, d)
            cf = case.get("closed_form")
            if cf:
                a, b = cf["rect"]
                if not (ctx.close_enough(so["area"], a * b + 2 * (a + b) * r + math.pi * r * r, Ls ** 2)
                        and ctx.close_enough(so["perimeter"], 2 * (a + b) + 2 * math.pi * r, Ls)):
                    ctx.fail("ConvexSpheropolygon:closed-form:rectangle", "rounded rectangle differs from its closed "
                             "forms", case, [r, so])


def decomposition_certificate(ctx, case, sp, so, r, d):
    """the stored core lies in z = 0: certify the hypothesis of polygon_exterior_angles_sum /
    spheropolygon_decomposition EXACTLY (allCcw over Q on the implementation's stored vertices, listed
    counter-clockwise about +z) and compare area / perimeter with the SUM OF THE PIECES of the parallel body
    (polygon + edge rectangles + vertex sectors with atan2 turning angles), evaluated by the Lean spec at Float"""
    W = np.asarray(sp.vertices, dtype=float)
    if W.shape[1] == 3 and np.any(W[:, 2] != 0):
        return
    xy = W[:, :2]
    if float(np.asarray(sp.normal, dtype=float)[2]) < 0:
        xy = xy[::-1]
    rows = L([(float(x), float(y)) for x, y in xy])
    q = ctx.driver.Q("c11.poly2", rows, float(r))
    ctx.count("certificate:allCcw:%s" % ("ok" if int(q[0]) == 1 else "FAILED"))
    if int(q[0]) != 1:
        ctx.fail("ConvexSpheropolygon.vertices:not-strictly-convex-ccw", "the stored vertices of a strictly convex "
                 "core are not in strictly convex counter-clockwise order about the stored normal (exact test)",
                 case, [r, xy.tolist()])
        return
    f = ctx.driver.F("c11.poly2", rows, float(r))
    # f: allCcw turnSum perimeter2 shoelace2 parallelArea2 parallelPerimeter2
    Ls = d + r
    if not ctx.close_enough(f[1], TWO_PI, 1.0):
        ctx.obligation_breaks.append({"kind": "polygon_exterior_angles_sum: certified polygon whose turning angles "
                                              "(Float) do not add up to 2 pi", "detail": [f[1], xy.tolist()]})
    if not ctx.close_enough(abs(float(q[3])), abs(float(sp.polygon.signed_area)), d ** 2):
        ctx.fail("ConvexPolygon.signed_area:value:exact-shoelace", "core area differs from the exact rational "
                 "shoelace area of the stored vertices", case, [float(q[3]), float(sp.polygon.signed_area)])
    if not ctx.close_enough(so["area"], f[4], Ls ** 2):
        ctx.fail("ConvexSpheropolygon.area:decomposition", "area differs from polygon + edge rectangles + vertex "
                 "sectors", case, [r, so["area"], f[4]])
    if not ctx.close_enough(so["perimeter"], f[5], Ls):
        ctx.fail("ConvexSpheropolygon.perimeter:decomposition", "perimeter differs from edges + vertex arcs", case,
                 [r, so["perimeter"], f[5]])


def eval_polygon_history(ctx, case):
    """explicit history on a ConvexSpheropolygon (both orientations of the stored core): B against the Lean model of
    the mutators (c11.hist2, polygon.signed_area = the model of C04), C: sign of the INITIAL core kept, area and
    perimeter = planar Steiner polynomials of the reference polygon scaled by the factor read off the vertices"""
    import coxeter
    hist = case["history"]
    inp = np.array(case["input"], dtype=float)
    ref = np.array(case["ref"], dtype=float)
    d = gen.diameter(ref)
    A, P = polygon_reference(ref)
    r0 = float(hist["r0"]) * d
    for forced_cw in ([False, True] if case.get("also_cw") else [False]):
        tag = ":cw" if forced_cw else ""
        try:
            sp = coxeter.shapes.ConvexSpheropolygon(inp, r0, normal=case["normal"])
            if forced_cw:
                sp.polygon._vertices = sp.polygon._vertices[::-1].copy()
            v0 = np.array(sp.vertices, dtype=float)
            nrm = np.array(sp.normal, dtype=float)
            a0 = float(sp.polygon.signed_area)
            mops = []
            with np.errstate(all="ignore"):
                for name, val in hist["ops"]:
                    if name == "read":
                        read_shuffled({"s": lambda: sp.signed_area, "a": lambda: sp.area, "p": lambda: sp.perimeter,
                                       "iq": lambda: sp.iq}, ["c11-hist2", case["input"], len(mops)])
                    elif name == "radius":
                        sp.radius = val * d
                        mops.append((OPS2[name], float(val * d)))
                    elif name == "_rescale":
                        sp._rescale(val)
                        mops.append((OPS2[name], float(val)))
                    else:
                        target = float(getattr(sp, name)) * val
                        setattr(sp, name, target)
                        mops.append((OPS2[name], target))
                so = {"r": float(sp.radius), "signed": float(sp.signed_area), "area": float(sp.area),
                      "perimeter": float(sp.perimeter)}
        except Exception as e:
            ctx.fail("ConvexSpheropolygon:history:raises" + tag, "a mutator / read raised %s along a valid history"
                     % exc_kind(e), case, [hist, forced_cw, repr(e)])
            continue
        ctx.count("history2:len=%d" % len(mops))
        v1 = np.array(sp.vertices, dtype=float)
        i = int(np.argmax(np.linalg.norm(v0, axis=1)))
        K = float(np.linalg.norm(v1[i]) / np.linalg.norm(v0[i])) if np.linalg.norm(v0[i]) > 0 else 1.0
        dK = d * K
        Ls = dK + so["r"]
        big = max(dK, float(np.max(np.abs(v1))))
        if not ctx.close_enough(v1, K * v0, big, tol=1e-12):
            ctx.fail("ConvexSpheropolygon:history:not-similar" + tag, "after a history of size setters the core is "
                     "not a uniformly scaled copy of the initial core", case, [hist, K])
            continue
        try:
            m = ctx.driver.F("c11.hist2", L([row for row in v0]), nrm, float(r0), L(mops))
            mv = np.array(m[4:], dtype=float).reshape(-1, 3)
            ok = (ctx.close_enough(so["r"], m[0], Ls) and ctx.close_enough(so["signed"], m[1], Ls ** 2)
                  and ctx.close_enough(so["area"], m[2], Ls ** 2) and ctx.close_enough(so["perimeter"], m[3], Ls)
                  and mv.shape == v1.shape and ctx.close_enough(v1, mv, big))
            if not ok:
                ctx.disagree("c11.hist2", case, [hist, forced_cw, so, m[:4]])
        except ModelRaise as e:
            ctx.disagree("c11.hist2", case, [hist, "model raised " + e.kind])
        q = ctx.driver.F("c11.spec2", A * K * K, P * K, so["r"])
        want_signed = -q[0] if a0 < 0 else q[0]
        if (a0 < 0) != forced_cw:
            ctx.fail("ConvexPolygon.signed_area:value" + tag, "core orientation differs from the expected one", case,
                     [forced_cw, a0])
        if not ctx.close_enough(so["signed"], want_signed, Ls ** 2):
            ctx.fail("ConvexSpheropolygon.signed_area:steiner:history" + tag, "after a history of mutators the signed "
                     "area is not +-(A + P r + pi r^2) of the current core with the sign of the core", case,
                     [hist, so["signed"], want_signed])
        if not ctx.close_enough(so["area"], q[0], Ls ** 2):
            ctx.fail("ConvexSpheropolygon.area:steiner:history" + tag, "after a history of mutators the area differs "
                     "from A + P r + pi r^2 of the current core", case, [hist, so["area"], q[0]])
        if not ctx.close_enough(so["perimeter"], q[1], Ls):
            ctx.fail("ConvexSpheropolygon.perimeter:steiner:history" + tag, "after a history of mutators the "
                     "perimeter differs from P + 2 pi r of the current core", case, [hist, so["perimeter"], q[1]])


# --------------------------------------------------------------------------- cases


def radii_for(rng, d):
    rs = [0.0, float(10 ** rng.uniform(-3, 2)) * d]
    rs.append(float([1e-3, 1e2, 1.0][int(rng.integers(3))]) * d)
    return rs


def make_solid_case(rng, ctx, force=None):
    u = rng.random()
    if force in ("sharp", "needle"):
        u = 0.2
    if u < 0.12:
        e = np.exp(rng.uniform(-1.5, 1.5, size=3)) if rng.random() < 0.6 else np.ones(3) * float(
            np.exp(rng.uniform(-1.5, 1.5)))
        base = np.array([[x, y, z] for x in (-.5, .5) for y in (-.5, .5) for z in (-.5, .5)]) * e
        v, info = gen.place(rng, base)
        info["kind"] = "closed-form-box"
        e = e * info["scale"]
        case = {"dim": 3, "vertices": v.tolist(), "info": info, "closed_form": {"box": [float(x) for x in e]}}
    elif u < 0.36 or force == "sharp":
        kind, base = c11_sharp_solid(rng, kind="long-needle" if force == "needle" else None)
        if rng.random() < 0.3:
            base = base @ gen.near_axis_rotation(rng).T
            v, info = gen.place(rng, base, rotate=False)
            info["frame"] = "near-axis"
        else:
            v, info = gen.place(rng, base)
        info["kind"] = "sharp:" + kind
        info["n"] = len(v)
        case = {"dim": 3, "vertices": v.tolist(), "info": info}
        if not gen.in_convex_position(v):      # after the placement, with gen's usual margin (1e-7 * diameter)
            return make_solid_case(rng, ctx, force)
    elif u < 0.44:
        # boxes / prisms in an ALMOST axis-aligned frame (tilt 1e-7 .. 3e-2 rad)
        kind, base = gen.convex_base(rng, ["box", "prism", "lattice"][int(rng.integers(3))])
        base = base @ gen.near_axis_rotation(rng).T
        v, info = gen.place(rng, base, rotate=False)
        info["kind"] = "neartilt:" + kind
        info["n"] = len(v)
        case = {"dim": 3, "vertices": v.tolist(), "info": info}
        if not gen.in_convex_position(v):
            return make_solid_case(rng, ctx, force)
    else:
        v, info = gen.convex_solid(rng)
        case = {"dim": 3, "vertices": v.tolist(), "info": info}
    if rng.random() < 0.3:
        r0 = 0.0 if rng.random() < 0.25 else float(10 ** rng.uniform(-2, 0.7))
        case["history"] = {"r0": r0, "ops": make_history(rng, 3, r0)}
        ctx.count("3d:explicit-history")
    ctx.count("kind3:" + info["kind"])
    ctx.count("3d:rotated" if info["rotated"] else "3d:axis-aligned")
    ctx.count("3d:offset>0" if info["offset_diams"] > 0 else "3d:offset=0")
    ctx.count("3d:scale!=1" if info["scale"] != 1.0 else "3d:scale=1")
    case["radii"] = radii_for(rng, gen.diameter(v))
    return case


def make_polygon_case(rng, ctx):
    kind, v = c11_convex_polygon(rng)
    inp, normal, ref, info = place_polygon(rng, v)
    info["kind"] = kind
    info["n"] = len(v)
    case = {"dim": 2, "input": inp.tolist(), "normal": normal, "ref": ref.tolist(), "info": info,
            "also_cw": bool(rng.random() < 0.5)}
    if kind == "rectangle":
        a = float(np.linalg.norm(ref[1] - ref[0]))
        b = float(np.linalg.norm(ref[2] - ref[1]))
        case["closed_form"] = {"rect": [a, b]}
    ctx.count("kind2:" + kind)
    ctx.count("2d:embed:" + info["embed"])
    ctx.count("2d:normal:" + info["normal"])
    ctx.count("2d:cw-forced" if case["also_cw"] else "2d:ccw-only")
    case["radii"] = radii_for(rng, gen.diameter(ref))
    if rng.random() < 0.3:
        r0 = 0.0 if rng.random() < 0.25 else float(10 ** rng.uniform(-2, 0.7))
        case["history"] = {"r0": r0, "ops": make_history(rng, 2, r0)}
        ctx.count("2d:explicit-history")
    return case


def eval_case(ctx, case):
    for r in case["radii"]:
        ctx.count("radius:zero" if r == 0 else "radius:positive")
    if case["dim"] == 3:
        eval_solid(ctx, case)
    else:
        eval_polygon(ctx, case)
        if case.get("history"):
            eval_polygon_history(ctx, case)


def run(ctx):
    n3 = ctx.budget(90, 1700)
    n2 = ctx.budget(260, 4500)
    for _ in range(n3):
        case = make_solid_case(ctx.rng, ctx)
        ctx.case(case)
        eval_case(ctx, case)
    # guaranteed minimum of the knife-edge / nearly-coplanar / needle classes in every tier
    for force, n in (("sharp", ctx.budget(24, 300)), ("needle", ctx.budget(8, 90))):
        for _ in range(n):
            case = make_solid_case(ctx.rng, ctx, force)
            ctx.case(case)
            eval_case(ctx, case)
    tabs = gen.tabulated_solids()
    k = 8 if (ctx.tier == "quick" and ctx.widen == 1) else min(len(tabs), 120)
    idx = ctx.rng.choice(len(tabs), size=k, replace=False)
    for i in idx:
        fam, name, v = tabs[int(i)]
        v2, info = gen.place(ctx.rng, v, scale=1.0)
        case = {"dim": 3, "vertices": v2.tolist(), "info": dict(info, kind="tabulated:" + fam, name=name),
                "radii": radii_for(ctx.rng, gen.diameter(v2))}
        ctx.count("kind3:tabulated")
        ctx.case(case)
        eval_case(ctx, case)
    for _ in range(n2):
        case = make_polygon_case(ctx.rng, ctx)
        ctx.case(case)
        eval_case(ctx, case)


def replay(ctx, payload):
    case = payload.get("case", payload)
    ctx.case(case)
    eval_case(ctx, case)
