"""C02 — general (non-convex) polyhedron volume, area, centroid, inertia are exact."""
import numpy as np

import gen
from common import L, I, ModelRaise, exc_kind

RULE = ("closed outward-oriented meshes: voxel solids (L/U/C/T/plus/frames incl. genus 1/stairs/cup/cage/random, unit-square "
        "faces), extruded simple polygons with triangulated caps (straight and tapered: trapezoidal side faces), radially "
        "perturbed triangulated hulls, Polyhedron copies of convex solids (faces of degree 3..12), prisms over regular "
        "n-gons with n-gonal caps (n up to 360); faces cyclically relabelled, vertices renumbered, faces reordered; rigid "
        "placement (random / near-axis / no rotation, offset <= 10 diameters, scale 1e-3..1e3 and 2^-30..2^30); a third "
        "reached through a history of mutators; queries in random order; two regression witnesses on every run: the regular "
        "360-gon prism (known finding D1) and the L-tromino at 2^30 rotated about the origin (D2, repaired by 744f807: must "
        "be exact); outside the property's scope (correspondence only): extrusions with non-convex polygonal caps (reflex first corner included); distinct = distinct "
        "(vertices, faces)")
ASSUMPTIONS = [
    "exact integrals over the solid = sums of tetrahedron closed forms (Spec/Solid.lean) over the generator's own "
    "tetrahedralisation (Kuhn tetrahedra of voxels / prisms and frusta over an exact ear clipping / cones of a "
    "star-shaped hull), evaluated exactly over Q by the driver on the placed coordinates",
    "hypotheses of poly_centroid_exact / poly_inertia_exact evaluated per case, exactly over Q, on the implementation's "
    "own surface triangulation S: chainCheck(S, boundary of the cone over S) [sound: Lemmas/ChainCheck], vol > 0",
    "hypotheses of poly_volume_exact_faces evaluated per face, exactly over Q, where the placed faces are exactly planar "
    "(triangles; unrotated voxel / straight-extrusion faces): Poly3.faceCheck [sound: faceCheck_sound]; that "
    "ConvexPolygon keeps the cyclic vertex order is checked on the implementation",
    "external inputs of the get_face_area model (Qhull vertex count, Kabsch-aligned vertices) are taken from the same "
    "library calls the implementation makes",
]

KNOWN_BIG_NGON = 360   # regular n-gon caps with n >= 350: polytri finds no ear (known finding, see notes)


def orient_tets(tets):
    out = []
    for t in tets:
        t = np.asarray(t, dtype=float)
        if np.linalg.det(t[1:] - t[0]) < 0:
            t = t[[0, 2, 1, 3]]
        out.append(t)
    return out


# ----------------------------------------------------------------------------------------------- generators

def _prism_over(poly, tris, z0, z1, top=None, caps="tri"):
    """(V, F, T) of the (possibly tapered) prism over the ccw polygon `poly` (n,2) with the triangulation `tris`
    (index triples); `top` = the top polygon (a homothetic copy of poly: side faces are planar trapezoids)."""
    poly = np.asarray(poly, dtype=float)
    top = poly if top is None else np.asarray(top, dtype=float)
    n = len(poly)
    V = np.vstack([np.c_[poly, np.full(n, z0)], np.c_[top, np.full(n, z1)]])
    F, T = [], []
    for (i, j, k) in tris:
        if caps == "tri":
            F.append([k, j, i])                 # bottom cap, seen from below
            F.append([n + i, n + j, n + k])     # top cap
        a0, b0, c0 = V[i], V[j], V[k]
        a1, b1, c1 = V[n + i], V[n + j], V[n + k]
        T += [[a0, b0, c0, c1], [a0, b0, c1, b1], [a0, b1, c1, a1]]
    if caps == "poly":
        F.append(list(range(n - 1, -1, -1)))
        F.append(list(range(n, 2 * n)))
    for i in range(n):
        j = (i + 1) % n
        F.append([i, j, n + j, n + i])
    return V, F, T


def _extruded(rng):
    while True:
        try:
            return gen.c05_extruded_polygon(rng)
        except RuntimeError:
            continue


def make_mesh(rng, ctx, force=None):
    r = rng.random()
    scope = True          # inside the property's quantifier (convex faces)
    if force == "big-ngon":
        n = KNOWN_BIG_NGON
        th = 2 * np.pi * np.arange(n) / n
        poly = np.c_[np.cos(th), np.sin(th)]
        tris = [(0, j, j + 1) for j in range(1, n - 1)]
        V, F, T = _prism_over(poly, tris, 0.0, 1.0, caps="poly")
        kind = "ngon-prism:%d" % n
    elif force == "big-scale":
        m = gen.c05_voxel_solid(np.random.default_rng(3), "L")
        V, F, T = np.array(m["vertices"], dtype=float), [list(f) for f in m["faces"]], m["tets"]
        kind = m["kind"] + ":2^30-rotated-at-origin"
    elif r < 0.30:
        m = gen.c05_voxel_solid(rng)
        V, F, T = np.array(m["vertices"], dtype=float), [list(f) for f in m["faces"]], m["tets"]
        kind = m["kind"]
    elif r < 0.42:
        m = _extruded(rng)
        poly = np.array(m["poly"], dtype=float)
        V, F, T = _prism_over(poly, gen.ear_clip_exact(poly.tolist()), m["z0"], m["z1"])
        kind = m["kind"] + ":tricaps"
    elif r < 0.54:
        # tapered extrusion (frustum over a simple polygon): the top is a homothetic copy, so the side faces are
        # planar trapezoids whose vertex mean is NOT their centroid
        m = _extruded(rng)
        poly = np.array(m["poly"], dtype=float)
        s = float(rng.choice([0.5, 0.75, 1.5])) if rng.random() < 0.6 else float(rng.uniform(0.4, 1.6))
        c = poly.mean(axis=0) + rng.uniform(-0.5, 0.5, size=2)
        sh = rng.uniform(-0.5, 0.5, size=2) if rng.random() < 0.5 else np.zeros(2)
        top = c + s * (poly - c) + sh
        V, F, T = _prism_over(poly, gen.ear_clip_exact(poly.tolist()), m["z0"], m["z1"], top=top)
        kind = "tapered:" + m["kind"].split(":")[1]
    elif r < 0.60:
        # right prism over a regular or irregular convex n-gon with n-gonal caps (faces of high degree)
        n = int(rng.integers(5, 13)) if rng.random() < 0.8 else int(rng.integers(13, 60))
        th = np.sort(rng.uniform(0, 2 * np.pi, size=n)) if rng.random() < 0.5 else 2 * np.pi * np.arange(n) / n
        if np.min(np.diff(np.r_[th, th[0] + 2 * np.pi])) < 0.5 * 2 * np.pi / n / 4:
            th = 2 * np.pi * np.arange(n) / n
        poly = np.c_[np.cos(th), np.sin(th)] * rng.uniform(0.5, 2.0)
        tris = [(0, j, j + 1) for j in range(1, n - 1)]
        V, F, T = _prism_over(poly, tris, 0.0, float(rng.uniform(0.3, 2.0)), caps="poly")
        kind = "ngon-prism:%d" % n
    elif r < 0.66:
        # OUTSIDE the property's scope (non-convex faces): extrusion with polygonal caps; correspondence only
        m = _extruded(rng)
        poly = np.array(m["poly"], dtype=float)
        V, F, T = _prism_over(poly, gen.ear_clip_exact(poly.tolist()), m["z0"], m["z1"], caps="poly")
        kind = m["kind"] + ":polycaps"
        scope = False
    elif r < 0.82:
        # radially perturbed triangulated hull: star-shaped about the origin
        from scipy.spatial import ConvexHull
        while True:
            n = int(rng.integers(6, 40))
            d = rng.normal(size=(n, 3))
            d /= np.linalg.norm(d, axis=1)[:, None]
            h = ConvexHull(d)
            # the origin must be well inside the hull of the directions (star-shaped about the origin)
            if len(h.vertices) == n and h.equations[:, 3].max() < -0.15:
                break
        rad = rng.uniform(0.5, 1.0, size=n)
        V = d * rad[:, None]
        F = []
        T = []
        for s, eq in zip(h.simplices, h.equations):
            a, b, c = d[s]
            s = list(map(int, s))
            if np.dot(np.cross(b - a, c - a), eq[:3]) < 0:
                s = [s[0], s[2], s[1]]
            F.append(s)
            T.append([np.zeros(3), V[s[0]], V[s[1]], V[s[2]]])
        kind = "perturbed-hull"
    else:
        import coxeter
        v, info = gen.convex_solid(rng, scale=1.0, offset_diams=0.0, rotate=False)
        cp = coxeter.shapes.ConvexPolyhedron(v)
        V = np.array(cp.vertices)
        F = [list(map(int, f)) for f in cp.faces]
        T, _, _ = gen.cone_tets(V)
        kind = "convex-copy:" + info["kind"]
    V = np.asarray(V, dtype=float)
    F = [list(map(int, f)) for f in F]
    # relabelling: every face starts at a random vertex of its cycle; vertices renumbered; faces reordered
    if force is None and rng.random() < 0.5:
        F = [f[k:] + f[:k] for f, k in ((f, int(rng.integers(len(f)))) for f in F)]
        perm = rng.permutation(len(V))
        inv = np.empty(len(V), dtype=int)
        inv[perm] = np.arange(len(V))
        V = V[perm]
        F = [[int(inv[i]) for i in f] for f in F]
        F = [F[i] for i in rng.permutation(len(F))]
        ctx.count("relabelled")
    # rigid placement applied to vertices and tetrahedra alike
    rs = rng.random()
    if force == "big-scale":
        scale = 2.0 ** 30
    elif force is not None or rs < 0.5:
        scale = 1.0
    elif rs < 0.8:
        scale = float(10 ** rng.uniform(-3, 3))
    else:
        scale = float(2.0 ** int(rng.integers(-30, 31)))
        ctx.count("scale:2^k-extreme")
    rr = rng.random()
    if force == "big-scale":
        R, rot = gen.random_rotation(np.random.default_rng(3)), "rotated"
    elif force is not None or rr < 0.35:
        R, rot = np.eye(3), "axis-aligned"
    elif rr < 0.55:
        R, rot = gen.near_axis_rotation(rng), "near-axis"
    else:
        R, rot = gen.random_rotation(rng), "rotated"
    dia = gen.diameter(V) * scale
    off = np.zeros(3)
    if force is None and rng.random() < 0.7:
        u = rng.normal(size=3)
        off = u / np.linalg.norm(u) * float(rng.uniform(0, 10)) * dia
    place = lambda x: (np.asarray(x, dtype=float) * scale) @ R.T + off
    Vp = place(V)
    Tp = [place(np.array(t)) for t in T]
    k0 = kind.split(":")[0]
    ctx.count("kind:" + k0 + (":" + kind.split(":")[1] if k0 in ("voxel", "tapered", "extruded") else "")
              + (":polycaps" if kind.endswith("polycaps") else ""))
    ctx.count(rot)
    ctx.count("scale!=1" if scale != 1.0 else "scale=1")
    ctx.count("maxdegree:%s" % ("3" if max(map(len, F)) == 3 else "4" if max(map(len, F)) == 4 else ">4"))
    return {"kind": kind, "vertices": Vp.tolist(), "faces": F, "tets": [t.tolist() for t in Tp], "scale": scale,
            "scope": scope, "exact_planar": rot == "axis-aligned" and k0 in ("voxel", "extruded", "ngon-prism")}


# ----------------------------------------------------------------------------------------------- one case

def face_aux(V, f):
    """external inputs of the get_face_area model for one face: Qhull's vertex count inside `_is_convex` and the
    Kabsch-aligned centred vertices `_reorder_verts` sorts (the same library calls the implementation makes)"""
    from coxeter.shapes.polygon import _align_points_by_normal
    from scipy.spatial import ConvexHull
    P = V[f]
    c = np.cross(P[2] - P[1], P[0] - P[1])
    nrm = np.linalg.norm(c)
    if nrm == 0 or not np.all(np.isfinite(c / nrm)):
        return 0, np.zeros_like(P)
    n = c / nrm
    try:
        v2, _ = _align_points_by_normal(n, P)
        hull = len(ConvexHull(v2[:, :2]).vertices)
    except Exception:  # noqa: BLE001  (Qhull refuses a degenerate face)
        return None, None
    rot, _ = _align_points_by_normal(n, P - np.mean(P, axis=0))
    return hull, rot


def guarded(thunk):
    try:
        return ("ok", thunk())
    except Exception as e:  # noqa: BLE001
        return ("err", exc_kind(e), repr(e))


def eval_case(ctx, case):
    import coxeter
    import history
    from common import read_shuffled
    V = np.array(case["vertices"], dtype=float)
    F = [list(f) for f in case["faces"]]
    scope = case.get("scope", True)
    big = case["kind"].startswith("ngon-prism") and max(map(len, F)) >= 350
    d = gen.diameter(V)
    Ls = d + float(np.linalg.norm(V.mean(axis=0)))
    try:
        p = coxeter.shapes.Polyhedron(V, [np.array(f) for f in F])
    except Exception as e:
        ctx.fail("Polyhedron:raises", "constructor raised %s on a valid closed mesh" % exc_kind(e), case, repr(e))
        return
    # a third of the cases: the same solid reached through a history (scaled, shifted copy; every query read once;
    # size and centroid setters) - harness/history.py; and always: measures read in an order drawn per case
    if scope and not big:
        p, _how = history.maybe_via_history(p, history.rng_for(V), 0.33, ctx)
        if _how.startswith("via"):
            V = np.array(p.vertices, dtype=float)       # B below is about the object's own (re-reached) vertices
            d = gen.diameter(V)
            Ls = d + float(np.linalg.norm(V.mean(axis=0)))
    res, _order = read_shuffled({
        "volume": lambda: guarded(lambda: float(p.volume)),
        "area": lambda: guarded(lambda: float(p.surface_area)),
        "face_areas": lambda: guarded(lambda: np.array(p.get_face_area(), dtype=float)),
        "centroid": lambda: guarded(lambda: np.array(p.centroid, dtype=float)),
        "inertia": lambda: guarded(lambda: np.array(p.inertia_tensor, dtype=float))}, case["vertices"])
    tri_res = guarded(lambda: [np.array(t) for t in p._surface_triangulation()])
    obs = {k: v[1] for k, v in res.items() if v[0] == "ok"}
    errs = {k: v[1:] for k, v in res.items() if v[0] == "err"}
    # the coplanarity test of Polygon.__init__ (as repaired by 744f807): |(v - v0).n| <= 1e-4 * max|v - v0|, relative to
    # the face's own size.  How far are the faces from its decision boundary?  (rounding noise ~1e-15 * |coordinates|)
    planar_margin = np.inf
    for f in F:
        P = V[f]
        c = np.cross(P[2] - P[1], P[0] - P[1])
        if np.linalg.norm(c) > 0:
            nn = c / np.linalg.norm(c)
            rel = P - P[0]
            dev = float(np.max(np.abs(rel @ nn)))
            tol_f = 1e-4 * float(np.max(np.linalg.norm(rel, axis=1)))
            noise = 1e-15 * float(np.max(np.abs(P)))
            if dev + noise > 0.05 * tol_f and dev - noise < 20 * tol_f:
                planar_margin = 0.0
    if scope:
        for k, e in errs.items():
            sig = "Polyhedron.%s:raises" % {"area": "surface_area", "face_areas": "get_face_area",
                                            "inertia": "inertia_tensor"}.get(k, k)
            if big:
                sig += ":convex-face-with-flat-corners"
            ctx.fail(sig, "%s raised %s on a valid closed mesh with convex faces" % (k, e[0]), case, e[1])

    # ---------------- B: model vs implementation
    eqs = np.array(p._equations)
    for i, f in enumerate(F):
        r = ctx.driver.F("poly.face_equation", V[f[0]], V[f[1]], V[f[2]])
        if not (ctx.close_enough(eqs[i, :3], r[:3], 1.0) and ctx.close_enough(eqs[i, 3], r[3], Ls)):
            ctx.disagree("poly.face_equation", case, [i, eqs[i], r])
            break
    if "volume" in obs and "face_areas" in obs:
        mv = ctx.driver.F("poly.volume", L([[eqs[i, 3], obs["face_areas"][i]] for i in range(len(F))]))[0]
        if not ctx.close_enough(obs["volume"], mv, Ls ** 3):
            ctx.disagree("poly.volume", case, [obs["volume"], mv])
    # ear clipping, face by face, triangle by triangle (against the implementation's own surface triangulation)
    if tri_res[0] == "ok":
        tri_impl = tri_res[1]
        k = 0
        for i, f in enumerate(F):
            try:
                r = ctx.driver.F("polytri.triangulate", L(list(V[f])))
            except ModelRaise as e:
                ctx.disagree("polytri.triangulate", case, [i, "model raised " + e.kind])
                break
            nt = r[0]
            mt = np.array(r[1:]).reshape(nt, 3, 3)
            it = np.array(tri_impl[k:k + nt]).reshape(-1, 3, 3)
            k += nt
            if it.shape != mt.shape or not np.array_equal(it, mt):
                ctx.disagree("polytri.triangulate", case, [i, it.tolist(), mt.tolist()])
                break
        else:
            if k != len(tri_impl):
                ctx.disagree("polytri.triangulate:count", case, [k, len(tri_impl)])
        if "volume" in obs and "centroid" in obs and "inertia" in obs:
            r = ctx.driver.F("poly.measures", L(tri_impl), obs["volume"])
            m_cen, m_I = np.array(r[0:3]), np.array(r[3:12]).reshape(3, 3)
            if not ctx.close_enough(obs["centroid"], m_cen, Ls):
                ctx.disagree("poly.measures:centroid", case, [obs["centroid"], m_cen])
            if not ctx.close_enough(obs["inertia"], m_I, Ls ** 2 * d ** 3):
                ctx.disagree("poly.measures:inertia", case, [obs["inertia"], m_I])
    # the object-level model: faces in, the five observables (or their error kinds) out
    aux = [face_aux(V, f) for f in F]
    if all(a[0] is not None for a in aux):
        r = ctx.driver.F("poly.object", L([[L(list(V[f])), I(a[0]), L(list(a[1]))] for f, a in zip(F, aux)]))
        pos = 0
        st_a = r[pos]; pos += 1
        if st_a == 0:
            m_vol, m_area, na = r[pos], r[pos + 1], r[pos + 2]
            m_fa = np.array(r[pos + 3:pos + 3 + na], dtype=float)
            pos += 3 + na
        st_c = r[pos]; pos += 1
        if st_c == 0:
            m_cen = np.array(r[pos:pos + 3]); pos += 3
        st_i = r[pos]; pos += 1
        if st_i == 0:
            m_I = np.array(r[pos:pos + 9]).reshape(3, 3); pos += 9
        impl_a = all(k in obs for k in ("volume", "area", "face_areas"))
        if planar_margin == 0.0 and ((st_a == 0) != impl_a or (st_i == 0) != ("inertia" in obs)):
            ctx.skipped_near_boundary += 1          # the coplanarity decision is within rounding of its threshold
        elif (st_a == 0) != impl_a or ((st_a != 0) and not all(errs.get(k, ("",))[0] == "ValueError"
                                                              for k in ("volume", "area", "face_areas"))):
            ctx.disagree("poly.object:areas-status", case, [st_a, {k: v[0] for k, v in errs.items()}])
        elif st_a == 0 and not (ctx.close_enough(obs["volume"], m_vol, Ls ** 3)
                                and ctx.close_enough(obs["area"], m_area, Ls ** 2)
                                and ctx.close_enough(obs["face_areas"], m_fa, Ls ** 2)):
            ctx.disagree("poly.object:areas", case, [obs["volume"], m_vol, obs["area"], m_area])
        if (st_c == 0) != ("centroid" in obs) or (st_c != 0 and errs["centroid"][0] != "ValueError"):
            ctx.disagree("poly.object:centroid-status", case, [st_c, errs.get("centroid")])
        elif st_c == 0 and not ctx.close_enough(obs["centroid"], m_cen, Ls):
            ctx.disagree("poly.object:centroid", case, [obs["centroid"], m_cen])
        if planar_margin == 0.0 and (st_i == 0) != ("inertia" in obs):
            pass
        elif (st_i == 0) != ("inertia" in obs) or (st_i != 0 and errs["inertia"][0] != "ValueError"):
            ctx.disagree("poly.object:inertia-status", case, [st_i, errs.get("inertia")])
        elif st_i == 0 and not ctx.close_enough(obs["inertia"], m_I, Ls ** 2 * d ** 3):
            ctx.disagree("poly.object:inertia", case, [obs["inertia"], m_I])
        ctx.count("object:" + "".join("ok" if s == 0 else "E" for s in (st_a, st_c, st_i)))
    if not scope:
        return
    if big:
        # the witness of polytri_stuck_fails, exactly: the cap IS strictly convex (exact rational orientation of every
        # triple (i, i+1, j)), and the Lean model of the ear clipping evaluated over Q raises on it
        from fractions import Fraction
        f = max(F, key=len)
        if np.all(V[f][:, 2] == V[f][0, 2]):
            X = [int(Fraction(float(V[i][0])) * 2 ** 1100) for i in f]      # exact integers (doubles are dyadic)
            Y = [int(Fraction(float(V[i][1])) * 2 ** 1100) for i in f]
            n = len(f)
            signs = set()
            for i in range(n):
                i1 = (i + 1) % n
                ex, ey = X[i1] - X[i], Y[i1] - Y[i]
                for j in range(n):
                    if j != i and j != i1:
                        o = ex * (Y[j] - Y[i]) - ey * (X[j] - X[i])
                        signs.add(1 if o > 0 else (-1 if o < 0 else 0))
            try:
                ctx.driver.Q("polytri.triangulate", L(list(V[f])))
                raised = False
            except ModelRaise as e:
                raised = e.kind == "ValueError"
            ctx.count("witness:cap-strictly-convex(exact)=%s,model-over-Q-raises=%s" % (len(signs) == 1 and 0 not in signs,
                                                                                       raised))

    # ---------------- C: implementation vs exact spec
    tets = orient_tets(case["tets"])
    q = ctx.driver.Q("spec.solid", L(tets))
    vol = float(q[0])
    cen = np.array([float(x) for x in q[19:22]])
    Iex = np.array([float(x) for x in q[10:19]]).reshape(3, 3)
    if "volume" in obs and not ctx.close_enough(obs["volume"], vol, Ls ** 3):
        ctx.fail("Polyhedron.volume:value", "volume differs from the exact integral", case, [obs["volume"], vol])
    if "centroid" in obs and not ctx.close_enough(obs["centroid"], cen, Ls):
        ctx.fail("Polyhedron.centroid:value", "centroid differs from the exact integral", case,
                 [obs["centroid"], cen])
    if "inertia" in obs and not ctx.close_enough(obs["inertia"], Iex, Ls ** 2 * d ** 3):
        ctx.fail("Polyhedron.inertia_tensor:value", "inertia tensor differs from the exact integral", case,
                 [obs["inertia"], Iex])
    # cross products about the face's first vertex for accuracy
    fa = np.array([0.5 * np.linalg.norm(sum(np.cross(V[f[i]] - V[f[0]], V[f[(i + 1) % len(f)]] - V[f[0]])
                                            for i in range(len(f)))) for f in F])
    if "face_areas" in obs and not ctx.close_enough(obs["face_areas"], fa, Ls ** 2):
        ctx.fail("Polyhedron.get_face_area:value", "face areas differ from the exact polygon areas", case,
                 [obs["face_areas"], fa])
    if "area" in obs and not ctx.close_enough(obs["area"], float(fa.sum()), Ls ** 2):
        ctx.fail("Polyhedron.surface_area:value", "surface area differs from the sum of face areas", case,
                 [obs["area"], float(fa.sum())])
    sel = [0, len(F) - 1]
    try:
        if "face_areas" not in obs:
            raise StopIteration
        a_list = np.array(p.get_face_area(sel), dtype=float)
        a_one = np.array(p.get_face_area(len(F) - 1), dtype=float).ravel()
        if not (ctx.close_enough(a_list, fa[sel], Ls ** 2) and ctx.close_enough(a_one, fa[[len(F) - 1]], Ls ** 2)):
            ctx.fail("Polyhedron.get_face_area:forms", "get_face_area(list/int) disagrees", case, [a_list, a_one])
    except StopIteration:
        pass
    except Exception as e:
        ctx.fail("Polyhedron.get_face_area:forms", "get_face_area(list/int) raised", case, repr(e))

    # ---------------- certificates: the theorems' hypotheses, evaluated exactly over Q on the implementation's data
    if tri_res[0] == "ok" and len(tri_res[1]) <= 400:
        S = tri_res[1]
        apex = V.mean(axis=0)
        cone = [np.array([apex, t[0], t[1], t[2]]) for t in S]
        ck = ctx.driver.Q("chain.check", L([[t[0], t[1], t[2]] for t in S]), L(cone))
        if bool(ck[0]) and bool(ck[1]) and float(ck[3]) > 0:
            ctx.count("cert:chain(S)=boundary-of-cone,vol>0:holds")
        else:
            ctx.count("cert:chain:FAILS")
            ctx.fail("Polyhedron._surface_triangulation:closed-chain",
                     "the implementation's surface triangulation is not a closed positively oriented chain", case,
                     [bool(ck[0]), bool(ck[1]), float(ck[3])])
    if tri_res[0] == "ok" and (case.get("exact_planar") or max(map(len, F)) == 3) and "volume" in obs:
        ok = True
        for f in F[:60]:
            pl, ccw, clip = ctx.driver.Q("poly.facecert", L(list(V[f])))
            ok = ok and pl and ccw and clip
        # vs' = vs: ConvexPolygon keeps the order of a convex face given counter-clockwise about its own normal
        for f in F[:8]:
            cpv = np.array(coxeter.shapes.ConvexPolygon(V[f], planar_tolerance=1e-4).vertices)
            ok = ok and np.array_equal(cpv, V[f])
        ctx.count("cert:faces(planar,ccw,n-2,order-kept):" + ("holds" if ok else "not-exact"))


def run(ctx):
    n = ctx.budget(80, 1200)
    for forced in ("big-ngon", "big-scale"):
        case = make_mesh(ctx.rng, ctx, force=forced)
        ctx.case(case)
        eval_case(ctx, case)
    for _ in range(n):
        case = make_mesh(ctx.rng, ctx)
        ctx.case(case)
        eval_case(ctx, case)


def replay(ctx, payload):
    case = payload.get("case", payload)
    ctx.case(case)
    eval_case(ctx, case)
