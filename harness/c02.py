"""C02 — general (non-convex) polyhedron volume, area, centroid, inertia are exact."""
import numpy as np

import gen
from common import L, ModelRaise, exc_kind

RULE = ("closed outward-oriented meshes: voxel solids (L/U/C/T/plus/frames/random, unit-square faces), extruded simple "
        "polygons with triangulated caps, radially perturbed triangulated hulls, Polyhedron copies of convex solids; "
        "random rigid placement (rotation, offset <= 10 diameters, scale 1e-3..1e3); distinct = distinct (vertices, faces)")
ASSUMPTIONS = [
    "exact integrals over the solid = sums of tetrahedron closed forms (Spec/Solid.lean) over the generator's own "
    "tetrahedralisation (Kuhn tetrahedra of voxels / prisms over an exact ear clipping / cones of a star-shaped hull), "
    "evaluated exactly over Q by the driver on the placed coordinates",
    "face areas are inputs of the volume model (contract: equal to the independently computed polygon areas, checked)",
]


def orient_tets(tets):
    out = []
    for t in tets:
        t = np.asarray(t, dtype=float)
        if np.linalg.det(t[1:] - t[0]) < 0:
            t = t[[0, 2, 1, 3]]
        out.append(t)
    return out


def make_mesh(rng, ctx):
    r = rng.random()
    if r < 0.4:
        m = gen.c05_voxel_solid(rng)
        V, F, T = np.array(m["vertices"], dtype=float), [list(f) for f in m["faces"]], m["tets"]
        kind = m["kind"]
    elif r < 0.6:
        while True:
            try:
                m = gen.c05_extruded_polygon(rng)
                break
            except RuntimeError:
                continue
        poly = np.array(m["poly"], dtype=float)
        n = len(poly)
        tris = gen.ear_clip_exact(poly.tolist())
        z0, z1 = m["z0"], m["z1"]
        V = np.vstack([np.c_[poly, np.full(n, z0)], np.c_[poly, np.full(n, z1)]])
        F = []
        T = []
        for (i, j, k) in tris:
            F.append([k, j, i])                 # bottom cap, seen from below
            F.append([n + i, n + j, n + k])     # top cap
            a0, b0, c0 = V[i], V[j], V[k]
            a1, b1, c1 = V[n + i], V[n + j], V[n + k]
            T += [[a0, b0, c0, c1], [a0, b0, c1, b1], [a0, b1, c1, a1]]
        for i in range(n):
            j = (i + 1) % n
            F.append([i, j, n + j, n + i])
        kind = m["kind"] + ":tricaps"
    elif r < 0.8:
        # radially perturbed triangulated hull: star-shaped about the origin
        from scipy.spatial import ConvexHull
        while True:
            n = int(rng.integers(6, 40))
            d = rng.normal(size=(n, 3))
            d /= np.linalg.norm(d, axis=1)[:, None]
            h = ConvexHull(d)
            # the origin must be well inside the hull of the directions (star-shaped about the origin)
            if len(h.vertices) == n and h.equations[:, 3].max() < -0.15:
                break
        rad = rng.uniform(0.5, 1.0, size=n)
        V = d * rad[:, None]
        F = []
        T = []
        for s, eq in zip(h.simplices, h.equations):
            a, b, c = d[s]
            s = list(map(int, s))
            if np.dot(np.cross(b - a, c - a), eq[:3]) < 0:
                s = [s[0], s[2], s[1]]
            F.append(s)
            T.append([np.zeros(3), V[s[0]], V[s[1]], V[s[2]]])
        kind = "perturbed-hull"
    else:
        import coxeter
        v, info = gen.convex_solid(rng, scale=1.0, offset_diams=0.0, rotate=False)
        cp = coxeter.shapes.ConvexPolyhedron(v)
        V = np.array(cp.vertices)
        F = [list(map(int, f)) for f in cp.faces]
        T, _, _ = gen.cone_tets(V)
        kind = "convex-copy:" + info["kind"]
    # rigid placement applied to vertices and tetrahedra alike
    scale = 1.0 if rng.random() < 0.6 else float(10 ** rng.uniform(-3, 3))
    R = gen.random_rotation(rng) if rng.random() < 0.6 else np.eye(3)
    dia = gen.diameter(V) * scale
    off = np.zeros(3)
    if rng.random() < 0.7:
        u = rng.normal(size=3)
        off = u / np.linalg.norm(u) * float(rng.uniform(0, 10)) * dia
    place = lambda x: (np.asarray(x, dtype=float) * scale) @ R.T + off
    Vp = place(V)
    Tp = [place(np.array(t)) for t in T]
    ctx.count("kind:" + kind.split(":")[0] + (":" + kind.split(":")[1] if kind.startswith("voxel") else ""))
    ctx.count("rotated" if not np.allclose(R, np.eye(3)) else "axis-aligned")
    ctx.count("scale!=1" if scale != 1.0 else "scale=1")
    return {"kind": kind, "vertices": Vp.tolist(), "faces": F, "tets": [t.tolist() for t in Tp], "scale": scale}


def eval_case(ctx, case):
    import coxeter
    from coxeter.extern.polytri import polytri
    V = np.array(case["vertices"], dtype=float)
    F = [list(f) for f in case["faces"]]
    d = gen.diameter(V)
    Ls = d + float(np.linalg.norm(V.mean(axis=0)))
    try:
        p = coxeter.shapes.Polyhedron(V, [np.array(f) for f in F])
        # a third of the cases: the same solid reached through a history (scaled, shifted copy; every query read once;
        # size and centroid setters) - harness/history.py; and always: measures read in an order drawn per case
        import history
        from common import read_shuffled
        p, _how = history.maybe_via_history(p, history.rng_for(V), 0.33, ctx)
        if _how.startswith("via"):
            V = np.array(p.vertices, dtype=float)       # B below is about the object's own (re-reached) vertices
        obs, _order = read_shuffled({
            "volume": lambda: float(p.volume), "area": lambda: float(p.surface_area),
            "face_areas": lambda: np.array(p.get_face_area(), dtype=float),
            "centroid": lambda: np.array(p.centroid, dtype=float),
            "inertia": lambda: np.array(p.inertia_tensor, dtype=float)}, case["vertices"])
        tri_impl = [np.array(t) for t in p._surface_triangulation()]
    except Exception as e:
        ctx.fail("Polyhedron:raises", "constructor or a measure raised %s on a valid closed mesh" % exc_kind(e),
                 case, repr(e))
        return
    # ---------------- B: model vs implementation
    eqs = np.array(p._equations)
    for i, f in enumerate(F):
        r = ctx.driver.F("poly.face_equation", V[f[0]], V[f[1]], V[f[2]])
        if not (ctx.close_enough(eqs[i, :3], r[:3], 1.0) and ctx.close_enough(eqs[i, 3], r[3], Ls)):
            ctx.disagree("poly.face_equation", case, [i, eqs[i], r])
            break
    mv = ctx.driver.F("poly.volume", L([[eqs[i, 3], obs["face_areas"][i]] for i in range(len(F))]))[0]
    if not ctx.close_enough(obs["volume"], mv, Ls ** 3):
        ctx.disagree("poly.volume", case, [obs["volume"], mv])
    # ear clipping, face by face, triangle by triangle
    k = 0
    for i, f in enumerate(F):
        try:
            r = ctx.driver.F("polytri.triangulate", L(list(V[f])))
        except ModelRaise as e:
            ctx.disagree("polytri.triangulate", case, [i, "model raised " + e.kind])
            break
        nt = r[0]
        mt = np.array(r[1:]).reshape(nt, 3, 3)
        it = np.array(list(polytri.triangulate(V[f])))
        if it.shape != mt.shape or not np.array_equal(it, mt):
            ctx.disagree("polytri.triangulate", case, [i, it.tolist(), mt.tolist()])
            break
    r = ctx.driver.F("poly.measures", L(tri_impl), obs["volume"])
    m_cen, m_I = np.array(r[0:3]), np.array(r[3:12]).reshape(3, 3)
    if not ctx.close_enough(obs["centroid"], m_cen, Ls):
        ctx.disagree("poly.measures:centroid", case, [obs["centroid"], m_cen])
    if not ctx.close_enough(obs["inertia"], m_I, Ls ** 2 * d ** 3):
        ctx.disagree("poly.measures:inertia", case, [obs["inertia"], m_I])

    # ---------------- C: implementation vs exact spec
    tets = orient_tets(case["tets"])
    q = ctx.driver.Q("spec.solid", L(tets))
    vol = float(q[0])
    cen = np.array([float(x) for x in q[19:22]])
    I = np.array([float(x) for x in q[10:19]]).reshape(3, 3)
    if not ctx.close_enough(obs["volume"], vol, Ls ** 3):
        ctx.fail("Polyhedron.volume:value", "volume differs from the exact integral", case, [obs["volume"], vol])
    if not ctx.close_enough(obs["centroid"], cen, Ls):
        ctx.fail("Polyhedron.centroid:value", "centroid differs from the exact integral", case,
                 [obs["centroid"], cen])
    if not ctx.close_enough(obs["inertia"], I, Ls ** 2 * d ** 3):
        ctx.fail("Polyhedron.inertia_tensor:value", "inertia tensor differs from the exact integral", case,
                 [obs["inertia"], I])
    fa = np.array([0.5 * np.linalg.norm(sum(np.cross(V[f[i]], V[f[(i + 1) % len(f)]]) for i in range(len(f))))
                   for f in F])
    # cross products about the face's first vertex for accuracy
    fa = np.array([0.5 * np.linalg.norm(sum(np.cross(V[f[i]] - V[f[0]], V[f[(i + 1) % len(f)]] - V[f[0]])
                                            for i in range(len(f)))) for f in F])
    if not ctx.close_enough(obs["face_areas"], fa, Ls ** 2):
        ctx.fail("Polyhedron.get_face_area:value", "face areas differ from the exact polygon areas", case,
                 [obs["face_areas"], fa])
    if not ctx.close_enough(obs["area"], float(fa.sum()), Ls ** 2):
        ctx.fail("Polyhedron.surface_area:value", "surface area differs from the sum of face areas", case,
                 [obs["area"], float(fa.sum())])
    sel = [0, len(F) - 1]
    try:
        a_list = np.array(p.get_face_area(sel), dtype=float)
        a_one = np.array(p.get_face_area(len(F) - 1), dtype=float).ravel()
        if not (ctx.close_enough(a_list, fa[sel], Ls ** 2) and ctx.close_enough(a_one, fa[[len(F) - 1]], Ls ** 2)):
            ctx.fail("Polyhedron.get_face_area:forms", "get_face_area(list/int) disagrees", case, [a_list, a_one])
    except Exception as e:
        ctx.fail("Polyhedron.get_face_area:forms", "get_face_area(list/int) raised", case, repr(e))


def run(ctx):
    n = ctx.budget(40, 1200)
    for _ in range(n):
        case = make_mesh(ctx.rng, ctx)
        ctx.case(case)
        eval_case(ctx, case)


def replay(ctx, payload):
    case = payload.get("case", payload)
    ctx.case(case)
    eval_case(ctx, case)
